(* Lemmas about schedules (Par/Sched.v), write-once bodies (the for_each
   family), the scan protocol and reduce of Par/ParDefs.v. *)
From Coq Require Import List Arith Bool Lia Permutation ZArith.
From MV Require Import Par.Sched Par.ParDefs.
Import ListNotations.

(* ------------------------------------------------------------ schedules *)
Lemma is_perm_seq_sound : forall n l, is_perm_seq n l = true -> Permutation (seq 0 n) l.
Proof.
  intros n l H. unfold is_perm_seq in H. apply andb_true_iff in H. destruct H as [Hl Hc].
  apply Nat.eqb_eq in Hl. apply NoDup_Permutation_bis.
  - apply seq_NoDup.
  - rewrite seq_length. lia.
  - intros i Hi. rewrite forallb_forall in Hc. specialize (Hc i Hi).
    apply existsb_exists in Hc. destruct Hc as (j & Hj & E). apply Nat.eqb_eq in E. subst; auto.
Qed.

Lemma map_nth_seq : forall {X} (L : list X) d, map (fun i => nth i L d) (seq 0 (length L)) = L.
Proof.
  intros X L d. induction L as [|x L IH]; [reflexivity|].
  cbn [length seq map nth]. f_equal. rewrite <- seq_shift, map_map. exact IH.
Qed.

Lemma range_idxs_leaves : forall t g lo hi, wf_tree g lo hi t = true ->
    flat_map range_idxs (leaves lo hi t) = seq lo (hi - lo).
Proof.
  induction t as [|m l IHl r IHr]; intros g lo hi H; cbn [wf_tree leaves] in *.
  - cbn. rewrite app_nil_r. reflexivity.
  - rewrite !andb_true_iff in H. destruct H as ((((_ & H1) & H2) & H3) & H4).
    apply Nat.ltb_lt in H1, H2.
    rewrite flat_map_app, (IHl g lo m H3), (IHr g m hi H4).
    replace (hi - lo) with ((m - lo) + (hi - m)) by lia.
    rewrite seq_app. repeat f_equal. lia.
Qed.

Lemma exec_leaves_perm : forall grain n s, legal_for grain n s = true ->
    Permutation (seq 0 n) (flat_map range_idxs (exec_leaves n s)).
Proof.
  intros grain n [t order] H. unfold legal_for in H. apply andb_true_iff in H. destruct H as [Hw Hp].
  apply is_perm_seq_sound in Hp. unfold exec_leaves.
  assert (E : flat_map range_idxs (top_leaves n t) = seq 0 n).
  { unfold top_leaves in *. destruct (n =? 0) eqn:Hn.
    - apply Nat.eqb_eq in Hn. subst. reflexivity.
    - cbn [orb] in Hw. rewrite (range_idxs_leaves t grain 0 n Hw). f_equal. lia. }
  rewrite <- E.
  apply Permutation_flat_map.
  rewrite <- (map_nth_seq (top_leaves n t) (0, 0)) at 1.
  apply Permutation_map. exact Hp.
Qed.

(* ---------------------------------------------------- write-once bodies *)
Section CellFacts.
  Context {V : Type}.
  Variable W : nat -> option nat.
  Variable H : nat -> V -> V.

  Definition hits (p i : nat) : bool := match W i with Some q => q =? p | None => false end.
  Definition inj_on (is : list nat) : Prop :=
    forall i j q, In i is -> In j is -> W i = Some q -> W j = Some q -> i = j.

  Lemma cell_step_hit : forall o i p, hits p i = true -> cell_step W H o i p = H i (o p).
  Proof.
    intros o i p Hh. unfold hits, cell_step in *. destruct (W i) as [q|]; [|discriminate].
    apply Nat.eqb_eq in Hh. subst. unfold upd. rewrite Nat.eqb_refl. reflexivity.
  Qed.
  Lemma cell_step_miss : forall o i p, hits p i = false -> cell_step W H o i p = o p.
  Proof.
    intros o i p Hh. unfold hits, cell_step in *. destruct (W i) as [q|]; [|reflexivity].
    unfold upd. rewrite Nat.eqb_sym, Hh. reflexivity.
  Qed.

  Lemma run_idxs_char : forall is o p, NoDup is -> inj_on is ->
      run_idxs W H is o p = match find (hits p) is with Some i => H i (o p) | None => o p end.
  Proof.
    induction is as [|i r IH]; intros o p Hnd Hinj; [reflexivity|].
    inversion Hnd as [|? ? Hni Hnd']; subst.
    assert (Hinj' : inj_on r) by (intros a b q Ha Hb; apply Hinj; right; auto).
    cbn [run_idxs fold_left find]. fold (run_idxs W H r (cell_step W H o i)).
    rewrite IH by auto. destruct (hits p i) eqn:Hh.
    - destruct (find (hits p) r) as [j|] eqn:Hf.
      + exfalso. apply find_some in Hf. destruct Hf as [Hj Hhj].
        unfold hits in Hh, Hhj. destruct (W i) as [qi|] eqn:Wi; [|discriminate].
        destruct (W j) as [qj|] eqn:Wj; [|discriminate].
        apply Nat.eqb_eq in Hh, Hhj. subst qi qj.
        assert (i = j) by (apply (Hinj i j p); auto; [left; auto|right; auto]). subst. auto.
      + apply cell_step_hit; auto.
    - rewrite cell_step_miss by auto. reflexivity.
  Qed.

  Lemma run_idxs_perm : forall is is' o p, Permutation is is' -> NoDup is -> inj_on is ->
      run_idxs W H is o p = run_idxs W H is' o p.
  Proof.
    intros is is' o p HP Hnd Hinj.
    assert (Hnd' : NoDup is') by (eapply Permutation_NoDup; eauto).
    assert (Hinj' : inj_on is').
    { intros a b q Ha Hb. apply Hinj; eapply Permutation_in; try apply Permutation_sym; eauto. }
    rewrite !run_idxs_char by auto.
    destruct (find (hits p) is) as [i|] eqn:F1; destruct (find (hits p) is') as [j|] eqn:F2; auto.
    - apply find_some in F1, F2. destruct F1 as [I1 H1], F2 as [I2 H2].
      unfold hits in H1, H2. destruct (W i) as [qi|] eqn:Wi; [|discriminate].
      destruct (W j) as [qj|] eqn:Wj; [|discriminate]. apply Nat.eqb_eq in H1, H2. subst.
      assert (i = j); [|subst; auto]. apply (Hinj' i j p); auto. eapply Permutation_in; eauto.
    - apply find_some in F1. destruct F1 as [I1 H1].
      rewrite (find_none _ _ F2 i) in H1; [discriminate| eapply Permutation_in; eauto].
    - apply find_some in F2. destruct F2 as [I2 H2].
      rewrite (find_none _ _ F1 j) in H2; [discriminate| eapply Permutation_in; [apply Permutation_sym|]; eauto].
  Qed.

  Lemma run_idxs_app : forall a b o, run_idxs W H (a ++ b) o = run_idxs W H b (run_idxs W H a o).
  Proof. intros. unfold run_idxs. apply fold_left_app. Qed.

  (* the for_each family: any legal parallel_for schedule = the sequential loop *)
  Lemma par_for_seq : forall grain n s o p,
      legal_for grain n s = true -> inj_on (seq 0 n) ->
      par_for W H n s o p = seq_for W H n o p.
  Proof.
    intros grain n s o p HL Hinj. unfold par_for, seq_for. symmetry.
    apply run_idxs_perm; auto using seq_NoDup. eapply exec_leaves_perm; eauto.
  Qed.

  (* when iteration i writes cell i: closed form *)
  Lemma run_idxs_identity_cells : forall n o p, (forall i, W i = Some i) ->
      run_idxs W H (seq 0 n) o p = if p <? n then H p (o p) else o p.
  Proof.
    intros n o p HW. induction n as [|n IH]; [reflexivity|].
    rewrite seq_S, run_idxs_app. cbn [run_idxs fold_left plus]. unfold cell_step at 1. rewrite HW.
    unfold upd. destruct (p =? n) eqn:E.
    - apply Nat.eqb_eq in E. subst. rewrite IH. rewrite Nat.ltb_irrefl.
      assert (n <? S n = true) by (apply Nat.ltb_lt; lia). rewrite H0. reflexivity.
    - apply Nat.eqb_neq in E. rewrite IH.
      destruct (p <? n) eqn:L1; destruct (p <? S n) eqn:L2; auto;
        [apply Nat.ltb_lt in L1; apply Nat.ltb_ge in L2; lia
        |apply Nat.ltb_ge in L1; apply Nat.ltb_lt in L2; lia].
  Qed.
End CellFacts.

(* ------------------------------------------------------------------ lists *)
Lemma length_set_nth : forall {X} b (x : X) l, b < length l -> length (set_nth b x l) = length l.
Proof.
  intros X b x l Hb. unfold set_nth. rewrite app_length, firstn_length. cbn [length].
  rewrite skipn_length. lia.
Qed.
Lemma nth_set_nth : forall {X} b i (x d : X) l, b < length l ->
    nth i (set_nth b x l) d = if i =? b then x else nth i l d.
Proof.
  intros X b i x d l Hb. unfold set_nth.
  destruct (i =? b) eqn:E.
  - apply Nat.eqb_eq in E. subst. rewrite app_nth2; rewrite firstn_length; [|lia].
    replace (b - Nat.min b (length l)) with 0 by lia. reflexivity.
  - apply Nat.eqb_neq in E. destruct (Nat.lt_ge_cases i b).
    + rewrite app_nth1 by (rewrite firstn_length; lia).
      rewrite <- (firstn_skipn b l) at 2. rewrite app_nth1 by (rewrite firstn_length; lia). reflexivity.
    + rewrite app_nth2 by (rewrite firstn_length; lia). rewrite firstn_length.
      replace (Nat.min b (length l)) with b by lia.
      destruct (i - b) as [|k] eqn:Ek; [lia|]. cbn [nth].
      rewrite <- (firstn_skipn (S b) l) at 2.
      rewrite app_nth2 by (rewrite firstn_length; lia). rewrite firstn_length.
      replace (Nat.min (S b) (length l)) with (S b) by lia. f_equal. lia.
Qed.

(* ------------------------------------------------------------------ scans *)
Section ScanFacts.
  Context {T V : Type}.
  Variable identity : T.
  Variable f : T -> T -> T.
  Variable m : nat -> T.
  Variable emit : T -> nat -> option (nat * V).
  Hypothesis f_assoc : forall a b c, f (f a b) c = f a (f b c).
  Hypothesis id_l : forall a, f identity a = a.
  Hypothesis id_r : forall a, f a identity = a.
  Variable init : T.

  Definition stepf (t : T) (i : nat) : T := f t (m i).
  Definition pre (k : nat) : T := prefix f m init k.
  Definition rng (s e : nat) (t : T) : T := fold_left stepf (seq s (e - s)) t.

  (* the writes of the sequential scan, as cell bodies *)
  Definition sW (i : nat) : option nat := match emit (pre i) i with Some (p, _) => Some p | None => None end.
  Definition sH (i : nat) (c : V) : V := match emit (pre i) i with Some (_, v) => v | None => c end.

  Lemma pre_S : forall k, pre (S k) = f (pre k) (m k).
  Proof. intros. unfold pre, prefix. rewrite seq_S, fold_left_app. reflexivity. Qed.

  Lemma rng_pre : forall k lo, fold_left stepf (seq lo k) (pre lo) = pre (lo + k).
  Proof.
    induction k as [|k IH]; intros lo; [rewrite Nat.add_0_r; reflexivity|].
    rewrite seq_S, fold_left_app, IH. cbn [fold_left]. unfold stepf.
    rewrite <- pre_S. f_equal. lia.
  Qed.

  Lemma rng_app : forall s mid e t, s <= mid -> mid <= e -> rng mid e (rng s mid t) = rng s e t.
  Proof.
    intros s mid e t H1 H2. unfold rng. rewrite <- fold_left_app.
    replace (e - s) with ((mid - s) + (e - mid)) by lia. rewrite seq_app.
    repeat f_equal. lia.
  Qed.

  Lemma fold_stepf_assoc : forall l a b, fold_left stepf l (f a b) = f a (fold_left stepf l b).
  Proof.
    induction l as [|i l IH]; intros a b; [reflexivity|].
    cbn [fold_left]. unfold stepf at 2 4. rewrite f_assoc. apply IH.
  Qed.

  Lemma scan_range_pre : forall idxs t out,
      scan_range f m emit false idxs t out = (fold_left stepf idxs t, out).
  Proof. induction idxs as [|i r IH]; intros; cbn [scan_range fold_left]; [reflexivity| apply IH]. Qed.

  Lemma scan_range_final : forall k lo out,
      scan_range f m emit true (seq lo k) (pre lo) out = (pre (lo + k), run_idxs sW sH (seq lo k) out).
  Proof.
    induction k as [|k IH]; intros lo out.
    - cbn. rewrite Nat.add_0_r. reflexivity.
    - cbn [seq scan_range]. rewrite <- pre_S, IH. f_equal; [f_equal; lia|].
      cbn [run_idxs fold_left]. f_equal. unfold cell_step, sW, sH.
      destruct (emit (pre lo) lo) as [[p v]|]; reflexivity.
  Qed.

  Lemma scan_seq_closed : forall n out0,
      scan_seq f m emit n init out0 = (pre n, run_idxs sW sH (seq 0 n) out0).
  Proof.
    intros. unfold scan_seq. change init with (pre 0) at 1. rewrite scan_range_final. reflexivity.
  Qed.

  Definition sum_ok (a : aval) (s : T) : Prop :=
    match a with
    | AEmpty => s = identity
    | AIval true st e => st = 0 /\ s = pre e
    | AIval false st e => st <= e /\ s = rng st e identity
    end.

  Definition stores_ok (ast : list aval) (sums : list T) : Prop :=
    length ast = length sums /\ forall b, b < length ast -> sum_ok (nth b ast AEmpty) (nth b sums identity).

  Lemma stores_ok_set : forall ast sums b a s, stores_ok ast sums -> b < length ast -> sum_ok a s ->
      stores_ok (set_nth b a ast) (set_nth b s sums).
  Proof.
    intros ast sums b a s [HL HA] Hb Hs. split.
    - rewrite !length_set_nth by lia. auto.
    - intros c Hc. rewrite length_set_nth in Hc by lia.
      rewrite !nth_set_nth by lia. destruct (c =? b); auto.
  Qed.

  Definition op_idxs (op : scan_op) : list nat :=
    match op with OFinal _ lo hi => seq lo (hi - lo) | _ => [] end.

  Lemma astep_sound : forall n ast ast' sums out op,
      stores_ok ast sums -> astep n ast op = Some ast' ->
      stores_ok ast' (fst (cstep identity f m emit (sums, out) op)) /\
      snd (cstep identity f m emit (sums, out) op) = run_idxs sW sH (op_idxs op) out.
  Proof.
    intros n ast ast' sums out op Hok Hst. pose proof Hok as [HL HA].
    destruct op as [b c|b lo hi|b lo hi|b a|b a]; cbn [astep] in Hst; cbn [cstep op_idxs].
    - destruct ((b <? length ast) && (c =? length ast)) eqn:C; [|discriminate].
      injection Hst as <-. cbn [fst snd run_idxs fold_left]. split; auto. split.
      + rewrite !app_length. cbn. lia.
      + intros k Hk. rewrite app_length in Hk. cbn in Hk.
        destruct (Nat.lt_ge_cases k (length ast)).
        * rewrite !app_nth1 by lia. auto.
        * assert (k = length ast) by lia. subst. rewrite !app_nth2 by lia. rewrite <- HL, !Nat.sub_diag. cbn. reflexivity.
    - destruct ((b <? length ast) && (lo <? hi) && (hi <=? n)) eqn:C; [|discriminate].
      rewrite !andb_true_iff in C. destruct C as ((Cb & Cl) & Ch).
      apply Nat.ltb_lt in Cb, Cl. apply Nat.leb_le in Ch.
      rewrite scan_range_pre. cbn [fst snd run_idxs fold_left]. split; auto.
      specialize (HA b Cb). destruct (nth b ast AEmpty) as [|base s e] eqn:Eb.
      + injection Hst as <-. apply stores_ok_set; auto. cbn in HA. rewrite HA.
        cbn. split; [lia|reflexivity].
      + destruct (e =? lo) eqn:El; [|discriminate]. apply Nat.eqb_eq in El. subst e.
        injection Hst as <-. apply stores_ok_set; auto.
        destruct base; cbn in HA |- *.
        * destruct HA as [-> ->]. split; auto. rewrite rng_pre. f_equal. lia.
        * destruct HA as [Hs ->]. split; [lia|]. fold (rng lo hi (rng s lo identity)).
          apply rng_app; lia.
    - destruct ((b <? length ast) && (lo <? hi) && (hi <=? n)) eqn:C; [|discriminate].
      rewrite !andb_true_iff in C. destruct C as ((Cb & Cl) & Ch).
      apply Nat.ltb_lt in Cb, Cl. apply Nat.leb_le in Ch.
      specialize (HA b Cb). destruct (nth b ast AEmpty) as [|base s e] eqn:Eb; [discriminate|].
      destruct base; [|discriminate]. destruct s; [|discriminate].
      destruct (e =? lo) eqn:El; [|discriminate]. apply Nat.eqb_eq in El. subst e.
      injection Hst as <-. cbn in HA. destruct HA as [_ ->].
      rewrite scan_range_final. cbn [fst snd]. split; auto.
      apply stores_ok_set; auto. cbn. split; auto. f_equal. lia.
    - destruct ((b <? length ast) && (a <? length ast) && negb (a =? b)) eqn:C; [|discriminate].
      rewrite !andb_true_iff in C. destruct C as ((Cb & Ca) & _).
      apply Nat.ltb_lt in Cb, Ca. cbn [fst snd run_idxs fold_left]. split; auto.
      pose proof (HA a Ca) as Ha. pose proof (HA b Cb) as Hb.
      destruct (nth a ast AEmpty) as [|abase s mid] eqn:Ea.
      + injection Hst as <-. apply stores_ok_set; auto. cbn in Ha. rewrite Ha, id_l. exact Hb.
      + destruct (nth b ast AEmpty) as [|bbase m' e] eqn:Eb.
        * injection Hst as <-. apply stores_ok_set; auto. cbn in Hb. rewrite Hb, id_r. exact Ha.
        * destruct bbase; [discriminate|].
          destruct (mid =? m') eqn:Em; [|discriminate]. apply Nat.eqb_eq in Em. subst m'.
          injection Hst as <-. apply stores_ok_set; auto.
          cbn in Hb. destruct Hb as [Hme ->]. unfold rng at 1. rewrite <- fold_stepf_assoc, id_r.
          destruct abase; cbn in Ha |- *.
          -- destruct Ha as [-> ->]. split; auto. rewrite rng_pre. f_equal. lia.
          -- destruct Ha as [Hsm ->]. split; [lia|]. fold (rng mid e (rng s mid identity)).
             apply rng_app; lia.
    - destruct ((b <? length ast) && (a <? length ast)) eqn:C; [|discriminate].
      rewrite !andb_true_iff in C. destruct C as (Cb & Ca). apply Nat.ltb_lt in Cb, Ca.
      injection Hst as <-. cbn [fst snd run_idxs fold_left]. split; auto.
      apply stores_ok_set; auto.
  Qed.

  Lemma final_idxs_cons : forall op ops, final_idxs (op :: ops) = op_idxs op ++ final_idxs ops.
  Proof. intros. unfold final_idxs. cbn [flat_map]. destruct op; reflexivity. Qed.

  Lemma arun_sound : forall n ops ast ast' sums out,
      stores_ok ast sums -> arun n ast ops = Some ast' ->
      stores_ok ast' (fst (fold_left (cstep identity f m emit) ops (sums, out))) /\
      snd (fold_left (cstep identity f m emit) ops (sums, out)) = run_idxs sW sH (final_idxs ops) out.
  Proof.
    intros n ops. induction ops as [|op ops IH]; intros ast ast' sums out Hok Hrun.
    - cbn in *. injection Hrun as <-. auto.
    - cbn [arun] in Hrun. destruct (astep n ast op) as [ast1|] eqn:Hs; [|discriminate].
      destruct (astep_sound n ast ast1 sums out op Hok Hs) as [Hok1 Hout1].
      cbn [fold_left].
      destruct (cstep identity f m emit (sums, out) op) as [sums1 out1] eqn:Ec.
      cbn [fst snd] in *. destruct (IH ast1 ast' sums1 out1 Hok1 Hrun) as [Hok2 Hout2].
      split; auto. rewrite Hout2, Hout1, final_idxs_cons, run_idxs_app. reflexivity.
  Qed.

  (* The scan protocol under ANY legal schedule = one sequential final scan *)
  Theorem scan_par_seq : forall n ops out0,
      legal_scan n ops = true ->
      inj_on sW (seq 0 n) ->
      fst (scan_par identity f m emit init ops out0) = fst (scan_seq f m emit n init out0) /\
      forall p, snd (scan_par identity f m emit init ops out0) p = snd (scan_seq f m emit n init out0) p.
  Proof.
    intros n ops out0 HL Hinj. unfold legal_scan in HL.
    destruct (arun n [AIval true 0 0] ops) as [st|] eqn:Hrun; [|discriminate].
    rewrite !andb_true_iff in HL. destruct HL as ((H0 & Hperm) & _).
    assert (Hok0 : stores_ok [AIval true 0 0] [init]).
    { split; [reflexivity|]. intros b Hb. cbn in Hb. assert (b = 0) by lia. subst. cbn. split; reflexivity. }
    destruct (arun_sound n ops _ _ _ out0 Hok0 Hrun) as [[HLn Hok] Hout].
    unfold scan_par, scan_seq.
    destruct (fold_left (cstep identity f m emit) ops ([init], out0)) as [sums out] eqn:Ef.
    cbn [fst snd] in *.
    change init with (pre 0). rewrite scan_range_final. cbn [fst snd plus].
    destruct (nth 0 st AEmpty) as [|base s e] eqn:E0; [discriminate|].
    destruct base; [|discriminate]. destruct s; [|discriminate]. apply Nat.eqb_eq in H0. subst e.
    assert (Hlen : 0 < length st).
    { destruct st; [cbn in E0; discriminate| cbn; lia]. }
    specialize (Hok 0 Hlen). rewrite E0 in Hok. cbn in Hok. destruct Hok as [_ Hs].
    split; [exact Hs|].
    intros p. rewrite Hout. symmetry. apply run_idxs_perm; auto using seq_NoDup.
    apply is_perm_seq_sound; auto.
  Qed.
End ScanFacts.

(* -------------------------------------------------------------- reduce *)
Section ReduceFacts.
  Context {T : Type}.
  Variable f : T -> T -> T.
  Hypothesis f_assoc : forall a b c, f (f a b) c = f a (f b c).

  Lemma fold_left_assoc : forall l a b, fold_left f l (f a b) = f a (fold_left f l b).
  Proof. induction l as [|x l IH]; intros; cbn; [reflexivity|]. rewrite f_assoc. apply IH. Qed.

  Definition slice_of (xs : list T) (lo hi : nat) := firstn (hi - lo) (skipn lo xs).

  Lemma firstn_plus : forall a b (l : list T), firstn (a + b) l = firstn a l ++ firstn b (skipn a l).
  Proof.
    induction a as [|a IH]; intros b l; [reflexivity|].
    destruct l as [|x l]; cbn [plus firstn skipn app]; [rewrite firstn_nil; reflexivity|].
    rewrite IH. reflexivity.
  Qed.
  Lemma skipn_plus : forall a b (l : list T), skipn a (skipn b l) = skipn (b + a) l.
  Proof.
    intros a b. induction b as [|b IH]; intros l; [reflexivity|].
    destruct l as [|x l]; cbn [plus skipn]; [rewrite skipn_nil; reflexivity| apply IH].
  Qed.

  Lemma slice_app : forall xs lo mid hi, lo <= mid -> mid <= hi ->
      slice_of xs lo mid ++ slice_of xs mid hi = slice_of xs lo hi.
  Proof.
    intros xs lo mid hi H1 H2. unfold slice_of.
    replace (hi - lo) with ((mid - lo) + (hi - mid)) by lia.
    rewrite firstn_plus. f_equal. rewrite skipn_plus. f_equal. f_equal. lia.
  Qed.

  Lemma ofold_app : forall v l1 l2, ofold f (ofold f v l1) l2 = ofold f v (l1 ++ l2).
  Proof.
    intros v l1 l2. destruct v as [a|]; cbn [ofold].
    - rewrite fold_left_app. reflexivity.
    - destruct l1 as [|x r]; cbn [ofold app]; [reflexivity|]. rewrite fold_left_app. reflexivity.
  Qed.

  Lemma ojoin_ofold : forall v l, ojoin f v (ofold f None l) = ofold f v l.
  Proof.
    intros v l. destruct v as [a|]; destruct l as [|x r]; cbn [ofold ojoin fold_left]; auto.
    rewrite fold_left_assoc. reflexivity.
  Qed.

  Lemma reduce_run_correct : forall xs t g lo hi v,
      wf_rtree g lo hi t = true ->
      reduce_run (fun _ => None) (fun lo hi v => ofold f v (slice_of xs lo hi)) (ojoin f) lo hi t v
      = ofold f v (slice_of xs lo hi).
  Proof.
    intros xs t. induction t as [|mid fresh l IHl r IHr]; intros g lo hi v Hwf;
      cbn [reduce_run wf_rtree] in *; [reflexivity|].
    rewrite !andb_true_iff in Hwf. destruct Hwf as ((((_ & H1) & H2) & H3) & H4).
    apply Nat.ltb_lt in H1, H2.
    rewrite (IHl g lo mid) by auto. destruct fresh.
    - rewrite (IHr g mid hi) by auto.
      rewrite ojoin_ofold, ofold_app, slice_app by lia. reflexivity.
    - rewrite (IHr g mid hi) by auto. rewrite ofold_app, slice_app by lia. reflexivity.
  Qed.

  (* reduce(Par) after the fix: every init, only associativity *)
  Lemma reduce_par_correct : forall xs init grain t,
      legal_reduce grain (length xs) t = true ->
      reduce_par f xs init t = reduce_seq f xs init.
  Proof.
    intros xs init grain t HL. unfold reduce_par, reduce_seq, reduce_top, legal_reduce in *.
    destruct (length xs =? 0) eqn:E.
    - apply Nat.eqb_eq in E. destruct xs; [reflexivity|discriminate].
    - cbn [orb] in HL. change (fun lo hi v => ofold f v (firstn (hi - lo) (skipn lo xs)))
        with (fun lo hi v => ofold f v (slice_of xs lo hi)).
      rewrite (reduce_run_correct xs t grain 0 (length xs)) by auto.
      unfold slice_of. rewrite Nat.sub_0_r. cbn [skipn]. rewrite firstn_all.
      destruct xs as [|x r]; [discriminate|]. cbn [ofold fold_left].
      rewrite fold_left_assoc. reflexivity.
  Qed.
End ReduceFacts.

(* historical (F7): the body before fix fc899df2 folded init in once per split body *)
Lemma reduce_nonidentity_counterexample :
  legal_reduce 1 2 (RNode 1 true RLeaf RLeaf) = true /\
  reduce_par_before_fix Z.add [1; 1]%Z 10%Z (RNode 1 true RLeaf RLeaf) = 22%Z /\
  reduce_par Z.add [1; 1]%Z 10%Z (RNode 1 true RLeaf RLeaf) = 12%Z /\
  reduce_seq Z.add [1; 1]%Z 10%Z = 12%Z.
Proof. repeat split. Qed.

Lemma all_of_par_correct : forall {X} (p : X -> bool) xs grain t,
    legal_reduce grain (length xs) t = true -> all_of_par p xs t = forallb p xs.
Proof.
  intros X p xs grain t HL. unfold all_of_par, reduce_top, legal_reduce in *.
  destruct (length xs =? 0) eqn:E.
  - apply Nat.eqb_eq in E. destruct xs; [reflexivity|discriminate].
  - cbn [orb] in HL.
    assert (G : forall t g lo hi v, wf_rtree g lo hi t = true ->
      reduce_run (fun _ => true)
        (fun lo hi v => if v then forallb p (firstn (hi - lo) (skipn lo xs)) else false) andb lo hi t v
      = v && forallb p (slice_of xs lo hi)).
    { clear. induction t as [|mid fresh l IHl r IHr]; intros g lo hi v Hwf; cbn [reduce_run wf_rtree] in *.
      - destruct v; reflexivity.
      - rewrite !andb_true_iff in Hwf. destruct Hwf as ((((_ & H1) & H2) & H3) & H4).
        apply Nat.ltb_lt in H1, H2.
        rewrite <- (slice_app xs lo mid hi) by lia. rewrite forallb_app.
        destruct fresh; rewrite (IHl g lo mid), (IHr g mid hi) by auto.
        + cbn [andb]. rewrite andb_assoc. reflexivity.
        + rewrite andb_assoc. reflexivity. }
    rewrite (G t grain 0 (length xs) true HL). cbn [andb]. unfold slice_of.
    rewrite Nat.sub_0_r. cbn [skipn]. rewrite firstn_all. reflexivity.
Qed.
