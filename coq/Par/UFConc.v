(* src/disjoint_sets.h under ANY interleaving of ANY number of threads.
   Thread programs ([fstep] = findImpl, [ustep] = unite) are small-step machines
   whose every step is ONE atomic access to one word of mData (a load, or a
   compare-exchange that succeeds, fails because the word changed, or — for the
   weak CAS of findImpl — fails spuriously) followed by local computation.  A
   configuration is the shared array plus the list of thread states; [cstep]
   lets any thread take its next step.

   Main results: [uf_reach_inv] (invariants of every reachable configuration:
   (rank,id) order, every element has a root, classes only contain what the
   calls united) and [uf_concurrent_partition] (when all calls have returned,
   two elements have the same root iff they are related by the equivalence
   closure of the united pairs). *)
From Coq Require Import List Arith Bool Lia.
From MV Require Import Par.Sched Par.ScanModel Par.Containers.
Import ListNotations.

Definition klt (st : uf_state) (x y : nat) : Prop := key_lt (urank st x) x (urank st y) y.

Lemma klt_trans : forall st x y z, klt st x y -> klt st y z -> klt st x z.
Proof. unfold klt. intros. eapply key_lt_trans; eauto. Qed.
Lemma klt_irrefl : forall st x, ~ klt st x x.
Proof. unfold klt. intros st x H. apply key_lt_irrefl in H. exact H. Qed.

Lemma ord_parent : forall st i, ord_inv st -> i < length st -> uparent st i <> i ->
    uparent st i < length st /\ klt st i (uparent st i).
Proof. intros st i H Hi Hp. apply (H i Hi Hp). Qed.

Lemma parent_lt : forall st i, ord_inv st -> i < length st -> uparent st i < length st.
Proof.
  intros st i H Hi. destruct (Nat.eq_dec (uparent st i) i) as [E|E]; [rewrite E; auto| apply ord_parent; auto].
Qed.

Lemma same_refl : forall st i, total st -> i < length st -> same st i i.
Proof. intros st i Ht Hi. destruct (Ht i Hi) as [r Hr]. exists r; auto. Qed.

Lemma same_parent : forall st i, total st -> i < length st -> same st i (uparent st i).
Proof.
  intros st i Ht Hi. destruct (Ht i Hi) as [r Hr]. exists r. split; auto.
  destruct (Nat.eq_dec (uparent st i) i) as [E|E]; [rewrite E; auto| apply root_of_parent; auto].
Qed.

Lemma same_lt_l : forall st a b, same st a b -> a < length st.
Proof. intros st a b (r & H & _). eapply root_of_lt; eauto. Qed.
Lemma same_lt_r : forall st a b, same st a b -> b < length st.
Proof. intros st a b (r & _ & H). eapply root_of_lt; eauto. Qed.

(* ------------------------------------------------------------------
   the three successful compare-exchanges, with guards on the CURRENT state *)
Inductive mstep (st : uf_state) : uf_state -> Prop :=
| MHalve : forall id r p np,
    id < length st -> np < length st -> uget st id = (r, p) -> p <> id ->
    same st id np -> klt st id np ->
    mstep st (set_nth id (r, np) st)
| MLink : forall c rc pr,
    c < length st -> pr < length st -> uget st c = (rc, c) -> klt st c pr ->
    mstep st (set_nth c (rc, pr) st)
| MBump : forall x r,
    x < length st -> uget st x = (r, x) ->
    mstep st (set_nth x (S r, x) st).

Lemma mstep_length : forall st st', mstep st st' -> length st' = length st.
Proof. intros st st' H. destruct H; apply length_set_nth; auto. Qed.

Lemma uget_fst_snd : forall st i r p, uget st i = (r, p) -> urank st i = r /\ uparent st i = p.
Proof. intros st i r p H. unfold urank, uparent. rewrite H. auto. Qed.

Ltac case_eqb := match goal with |- context [?a =? ?b] => destruct (Nat.eqb_spec a b) as [->|] end.

(* ranks never decrease; a non-root stays a non-root with the same rank *)
Lemma mstep_rank_mono : forall st st' x, mstep st st' -> urank st x <= urank st' x.
Proof.
  intros st st' x H. destruct H as [id r p np H1 H2 Hg _ _ _|c rc pr H1 H2 Hg _|y r H1 Hg];
    rewrite urank_set by auto; case_eqb; auto;
    apply uget_fst_snd in Hg; destruct Hg as [Hr _]; cbn [fst]; lia.
Qed.

Lemma mstep_nonroot : forall st st' x, mstep st st' -> uparent st x <> x ->
    uparent st' x <> x /\ urank st' x = urank st x.
Proof.
  intros st st' x H Hx. destruct H as [id r p np H1 H2 Hg Hp _ Hk|c rc pr H1 H2 Hg _|y r H1 Hg];
    rewrite uparent_set, urank_set by auto; case_eqb; auto;
    apply uget_fst_snd in Hg; destruct Hg as [Hr Hpp]; cbn [fst snd].
  - split; auto. intros ->. apply klt_irrefl in Hk. exact Hk.
  - congruence.
  - congruence.
Qed.

Lemma mstep_klt_stable : forall st st' x y, mstep st st' -> uparent st x <> x -> klt st x y -> klt st' x y.
Proof.
  intros st st' x y H Hx Hk. unfold klt in *. destruct (mstep_nonroot _ _ _ H Hx) as [_ E]. rewrite E.
  pose proof (mstep_rank_mono _ _ y H). unfold key_lt in *. lia.
Qed.

Lemma mstep_ord : forall st st', ord_inv st -> mstep st st' -> ord_inv st'.
Proof.
  intros st st' Hinv H. pose proof (mstep_length _ _ H) as HL. intros i Hi Hp. rewrite HL in Hi |- *.
  destruct (Nat.eq_dec (uparent st i) i) as [Eroot|Enr].
  - (* i was a root: it is the linked child *)
    destruct H as [id r p np H1 H2 Hg Hpid _ Hk|c rc pr H1 H2 Hg Hk|y r H1 Hg];
      rewrite uparent_set in Hp |- * by auto; apply uget_fst_snd in Hg; destruct Hg as [Hr Hpp].
    + destruct (Nat.eqb_spec i id) as [->|]; [congruence|congruence].
    + destruct (Nat.eqb_spec i c) as [->|]; [|congruence]. cbn [snd] in *. split; auto.
      unfold klt in *. rewrite !urank_set by auto. rewrite Nat.eqb_refl. cbn [fst].
      destruct (Nat.eqb_spec pr c) as [->|]; [exfalso; apply key_lt_irrefl in Hk; exact Hk|]. rewrite Hr in Hk. exact Hk.
    + destruct (Nat.eqb_spec i y) as [->|]; [cbn [snd] in Hp; congruence|congruence].
  - destruct (Hinv i Hi Enr) as [Hlt Hk]. fold (klt st i (uparent st i)) in Hk.
    assert (Hk' : klt st' i (uparent st i)) by (eapply mstep_klt_stable; eauto).
    destruct H as [id r p np H1 H2 Hg Hpid Hs Hkk|c rc pr H1 H2 Hg Hkk|y r H1 Hg];
      rewrite uparent_set by auto; (case_eqb; [|split; auto]);
      apply uget_fst_snd in Hg; destruct Hg as [Hr Hpp]; cbn [snd].
    + split; auto. unfold klt in *. rewrite !urank_set by auto. rewrite Nat.eqb_refl. cbn [fst].
      destruct (Nat.eqb_spec np id) as [->|]; [exfalso; apply key_lt_irrefl in Hkk; exact Hkk|]. rewrite Hr in Hkk. exact Hkk.
    + congruence.
    + congruence.
Qed.

(* a path that starts strictly above c never visits c: it survives any rewrite of c's word *)
Lemma path_avoid : forall st c w x r, ord_inv st -> c < length st ->
    root_of st x r -> klt st c x -> root_of (set_nth c w st) x r.
Proof.
  intros st c w x r Hinv Hc H. induction H as [i Hi Hp|i r Hi Hp H IH]; intros Hk.
  - assert (i <> c) by (intros ->; apply klt_irrefl in Hk; auto).
    apply RO_root; [rewrite length_set_nth; auto|]. rewrite uparent_set by auto.
    destruct (Nat.eqb_spec i c); [congruence|auto].
  - assert (i <> c) by (intros ->; apply klt_irrefl in Hk; auto).
    assert (E : uparent (set_nth c w st) i = uparent st i).
    { rewrite uparent_set by auto. destruct (Nat.eqb_spec i c); [congruence|auto]. }
    apply RO_step; [rewrite length_set_nth; auto| rewrite E; auto| rewrite E].
    apply IH. eapply klt_trans; eauto. apply ord_parent; auto.
Qed.

Lemma halve_forward : forall st id r p np, ord_inv st ->
    id < length st -> uget st id = (r, p) -> p <> id -> same st id np -> klt st id np ->
    forall i x, root_of st i x -> root_of (set_nth id (r, np) st) i x.
Proof.
  intros st id r p np Hinv Hid Hg Hp Hs Hk i x H.
  apply uget_fst_snd in Hg. destruct Hg as [Hr Hpp].
  induction H as [i Hi Hroot|i x Hi Hnr H IH].
  - assert (i <> id) by (intros ->; congruence).
    apply RO_root; [rewrite length_set_nth; auto|]. rewrite uparent_set by auto.
    destruct (Nat.eqb_spec i id); [congruence|auto].
  - destruct (Nat.eq_dec i id) as [->|Hne].
    + assert (Hnp : root_of st np x).
      { destruct Hs as (r' & H1 & H2). rewrite (root_of_fun _ _ _ (RO_step _ _ _ Hi Hnr H) _ H1). exact H2. }
      apply RO_step; [rewrite length_set_nth; auto| |]; rewrite uparent_set by auto; rewrite Nat.eqb_refl; cbn [snd].
      * intros ->. apply klt_irrefl in Hk. exact Hk.
      * apply path_avoid; auto.
    + assert (E : uparent (set_nth id (r, np) st) i = uparent st i).
      { rewrite uparent_set by auto. destruct (Nat.eqb_spec i id); [congruence|auto]. }
      apply RO_step; [rewrite length_set_nth; auto| rewrite E; auto| rewrite E; exact IH].
Qed.

Lemma link_forward : forall st c rc pr rp, ord_inv st ->
    c < length st -> uget st c = (rc, c) -> klt st c pr -> root_of st pr rp ->
    forall i x, root_of st i x -> root_of (set_nth c (rc, pr) st) i (gmap c rp x).
Proof.
  intros st c rc pr rp Hinv Hc Hg Hk Hrp i x H.
  apply uget_fst_snd in Hg. destruct Hg as [Hr Hpp].
  assert (Hpr' : root_of (set_nth c (rc, pr) st) pr rp) by (apply path_avoid; auto).
  assert (Hne : pr <> c) by (intros ->; apply klt_irrefl in Hk; auto).
  induction H as [i Hi Hroot|i x Hi Hnr H IH]; unfold gmap.
  - destruct (Nat.eqb_spec i c) as [->|Hic].
    + apply RO_step; [rewrite length_set_nth; auto| |]; rewrite uparent_set by auto; rewrite Nat.eqb_refl; cbn [snd]; auto.
    + apply RO_root; [rewrite length_set_nth; auto|]. rewrite uparent_set by auto.
      destruct (Nat.eqb_spec i c); [congruence|auto].
  - assert (i <> c) by (intros ->; congruence).
    assert (E : uparent (set_nth c (rc, pr) st) i = uparent st i).
    { rewrite uparent_set by auto. destruct (Nat.eqb_spec i c); [congruence|auto]. }
    apply RO_step; [rewrite length_set_nth; auto| rewrite E; auto| rewrite E; exact IH].
Qed.

Lemma bump_forward : forall st x r, x < length st -> uget st x = (r, x) ->
    forall i y, root_of st i y -> root_of (set_nth x (S r, x) st) i y.
Proof.
  intros st x r Hx Hg. apply same_parents_keep_roots; [apply length_set_nth; auto|].
  intros j. rewrite uparent_set by auto. destruct (Nat.eqb_spec j x) as [->|]; auto.
  apply uget_fst_snd in Hg. destruct Hg as [_ Hp]. cbn [snd]. auto.
Qed.

(* every memory step maps roots forward by some function g *)
Lemma mstep_forward : forall st st', ord_inv st -> total st -> mstep st st' ->
    exists g, forall i x, root_of st i x -> root_of st' i (g x).
Proof.
  intros st st' Hinv Htot H. destruct H as [id r p np H1 H2 Hg Hp Hs Hk|c rc pr H1 H2 Hg Hk|y r H1 Hg].
  - exists (fun x => x). apply halve_forward with (p := p); auto.
  - destruct (Htot pr H2) as [rp Hrp]. exists (gmap c rp). apply link_forward; auto.
  - exists (fun x => x). apply bump_forward; auto.
Qed.

Lemma mstep_total : forall st st', ord_inv st -> total st -> mstep st st' -> total st'.
Proof.
  intros st st' Hinv Htot H i Hi. rewrite (mstep_length _ _ H) in Hi.
  destruct (mstep_forward _ _ Hinv Htot H) as [g Hg]. destruct (Htot i Hi) as [r Hr]. exists (g r). auto.
Qed.

Lemma mstep_same_mono : forall st st' u v, ord_inv st -> total st -> mstep st st' -> same st u v -> same st' u v.
Proof.
  intros st st' u v Hinv Htot H (r & H1 & H2). destruct (mstep_forward _ _ Hinv Htot H) as [g Hg]. exists (g r). auto.
Qed.

(* backwards: halving and rank bumps do not merge classes; a link merges exactly two *)
Lemma forward_id_backward : forall st st', total st -> length st' = length st ->
    (forall i x, root_of st i x -> root_of st' i x) -> forall u v, same st' u v -> same st u v.
Proof.
  intros st st' Htot HL Hf u v (r & H1 & H2).
  destruct (Htot u) as [ru Hu]; [rewrite <- HL; eapply root_of_lt; eauto|].
  destruct (Htot v) as [rv Hv]; [rewrite <- HL; eapply root_of_lt; eauto|].
  pose proof (root_of_fun _ _ _ H1 _ (Hf _ _ Hu)). pose proof (root_of_fun _ _ _ H2 _ (Hf _ _ Hv)). subst.
  exists rv. auto.
Qed.

Lemma link_backward : forall st c rc pr, ord_inv st -> total st ->
    c < length st -> pr < length st -> uget st c = (rc, c) -> klt st c pr ->
    forall u v, same (set_nth c (rc, pr) st) u v ->
      same st u v \/ (same st u c /\ same st v pr) \/ (same st u pr /\ same st v c).
Proof.
  intros st c rc pr Hinv Htot Hc Hpr Hg Hk u v (r & H1 & H2).
  destruct (Htot pr Hpr) as [rp Hrp].
  pose proof (link_forward st c rc pr rp Hinv Hc Hg Hk Hrp) as Hf.
  assert (HL : length (set_nth c (rc, pr) st) = length st) by (apply length_set_nth; auto).
  destruct (Htot u) as [ru Hu]; [rewrite <- HL; eapply root_of_lt; eauto|].
  destruct (Htot v) as [rv Hv]; [rewrite <- HL; eapply root_of_lt; eauto|].
  pose proof (root_of_fun _ _ _ H1 _ (Hf _ _ Hu)) as E1. pose proof (root_of_fun _ _ _ H2 _ (Hf _ _ Hv)) as E2.
  apply uget_fst_snd in Hg. destruct Hg as [_ Hcroot].
  assert (Hcc : root_of st c c) by (apply RO_root; auto).
  unfold gmap in *. destruct (Nat.eqb_spec ru c) as [->|N1]; destruct (Nat.eqb_spec rv c) as [->|N2].
  - left. exists c; auto.
  - right. left. split; [exists c; auto| exists rp; subst; auto].
  - right. right. split; [exists rp; subst; auto| exists c; auto].
  - left. exists rv. subst. auto.
Qed.

(* ==================================================================
   thread programs *)
Inductive fstate :=
| F_top (id : nat)                 (* about to evaluate `id != parent(id)` *)
| F_val (id : nat)                 (* in the loop: about to load value = mData[id] *)
| F_np (id r p : nat)              (* value = (r,p) loaded: about to load parent(p) *)
| F_cas (id r p np : nat)          (* about to compare_exchange_weak(mData[id], (r,p), (r,np)) *)
| F_done (root : nat).

Inductive fstep (st : uf_state) : fstate -> uf_state -> fstate -> Prop :=
| FS_top_root : forall id r, uget st id = (r, id) -> fstep st (F_top id) st (F_done id)
| FS_top_loop : forall id r p, uget st id = (r, p) -> p <> id -> fstep st (F_top id) st (F_val id)
| FS_val : forall id r p, uget st id = (r, p) -> fstep st (F_val id) st (F_np id r p)
| FS_np : forall id r p, fstep st (F_np id r p) st (F_cas id r p (uparent st p))
| FS_cas_skip : forall id r p, fstep st (F_cas id r p p) st (F_top p)               (* value == new_value: no CAS *)
| FS_cas_ok : forall id r p np, np <> p -> uget st id = (r, p) ->
    fstep st (F_cas id r p np) (set_nth id (r, np) st) (F_top np)
| FS_cas_fail : forall id r p np, np <> p -> fstep st (F_cas id r p np) st (F_top np).   (* changed word, or spurious *)

Inductive ustate :=
| U_find1 (id2 : nat) (f : fstate)          (* id1 = findImpl(id1) running *)
| U_find2 (id1 : nat) (f : fstate)          (* id2 = findImpl(id2) running *)
| U_rank1 (id1 id2 : nat)                   (* about to load r1 = rank(id1) *)
| U_rank2 (id1 id2 r1 : nat)                (* about to load r2 = rank(id2), then the swap *)
| U_link (c rc pr rp : nat)                 (* about to CAS mData[c]: (rc,c) -> (rc,pr) *)
| U_bump (c pr rp : nat)                    (* linked with equal ranks: about to CAS mData[pr]: (rp,pr) -> (rp+1,pr) *)
| U_ret.

Definition swapd (id1 r1 id2 r2 : nat) : nat * nat * nat * nat :=
  if (r2 <? r1) || ((r1 =? r2) && (id1 <? id2)) then (id2, r2, id1, r1) else (id1, r1, id2, r2).

Inductive ustep (st : uf_state) : ustate -> uf_state -> ustate -> Prop :=
| US_f1 : forall id2 f st' f', fstep st f st' f' -> ustep st (U_find1 id2 f) st' (U_find1 id2 f')
| US_f1_done : forall id2 r, ustep st (U_find1 id2 (F_done r)) st (U_find2 r (F_top id2))
| US_f2 : forall id1 f st' f', fstep st f st' f' -> ustep st (U_find2 id1 f) st' (U_find2 id1 f')
| US_f2_same : forall id1, ustep st (U_find2 id1 (F_done id1)) st U_ret
| US_f2_diff : forall id1 r, r <> id1 -> ustep st (U_find2 id1 (F_done r)) st (U_rank1 id1 r)
| US_rank1 : forall id1 id2, ustep st (U_rank1 id1 id2) st (U_rank2 id1 id2 (urank st id1))
| US_rank2 : forall id1 id2 r1 c rc pr rp, swapd id1 r1 id2 (urank st id2) = (c, rc, pr, rp) ->
    ustep st (U_rank2 id1 id2 r1) st (U_link c rc pr rp)
| US_link_ok_bump : forall c rc pr, uget st c = (rc, c) ->
    ustep st (U_link c rc pr rc) (set_nth c (rc, pr) st) (U_bump c pr rc)
| US_link_ok_ret : forall c rc pr rp, rc <> rp -> uget st c = (rc, c) ->
    ustep st (U_link c rc pr rp) (set_nth c (rc, pr) st) U_ret
| US_link_fail : forall c rc pr rp, uget st c <> (rc, c) -> ustep st (U_link c rc pr rp) st (U_find1 pr (F_top c))
| US_bump_ok : forall c pr rp, uget st pr = (rp, pr) -> ustep st (U_bump c pr rp) (set_nth pr (S rp, pr) st) U_ret
| US_bump_fail_retry : forall c pr, uget st pr <> (0, pr) -> ustep st (U_bump c pr 0) st (U_find1 pr (F_top c))
| US_bump_fail_ret : forall c pr rp, rp <> 0 -> uget st pr <> (rp, pr) -> ustep st (U_bump c pr rp) st U_ret.

Inductive thread :=
| TU (a b : nat) (s : ustate)       (* a call unite(a, b) *)
| TF (o : nat) (f : fstate).        (* a call find(o) *)

Inductive tstep (st : uf_state) : thread -> uf_state -> thread -> Prop :=
| TS_u : forall a b s st' s', ustep st s st' s' -> tstep st (TU a b s) st' (TU a b s')
| TS_f : forall o f st' f', fstep st f st' f' -> tstep st (TF o f) st' (TF o f').

Definition config := (uf_state * list thread)%type.
Inductive cstep : config -> config -> Prop :=
| CS : forall st ths k th st' th', nth_error ths k = Some th -> tstep st th st' th' ->
    cstep (st, ths) (st', set_nth k th' ths).
Inductive creach (c0 : config) : config -> Prop :=
| CR_refl : creach c0 c0
| CR_step : forall c1 c2, creach c0 c1 -> cstep c1 c2 -> creach c0 c2.

Definition init_thread (n : nat) (th : thread) : Prop :=
  match th with
  | TU a b s => a < n /\ b < n /\ s = U_find1 b (F_top a)
  | TF o f => o < n /\ f = F_top o
  end.
Definition finished (th : thread) : Prop :=
  match th with TU _ _ s => s = U_ret | TF _ f => exists r, f = F_done r end.
Fixpoint calls_of (ths : list thread) : list (nat * nat) :=
  match ths with
  | [] => []
  | TU a b _ :: r => (a, b) :: calls_of r
  | TF _ _ :: r => calls_of r
  end.

(* ------------------------------------------------------------------ invariants *)
Definition up (st : uf_state) (x y : nat) : Prop := x = y \/ (uparent st x <> x /\ klt st x y).

Definition finv (st : uf_state) (o : nat) (f : fstate) : Prop :=
  match f with
  | F_top id => same st id o
  | F_val id => same st id o /\ uparent st id <> id
  | F_np id r p => same st id o /\ same st p o /\ p <> id
  | F_cas id r p np => same st id o /\ same st np o /\ p <> id /\ up st p np
  | F_done r => same st r o
  end.

Definition uinv (st : uf_state) (a b : nat) (s : ustate) : Prop :=
  exists x y, ((x = a /\ y = b) \/ (x = b /\ y = a)) /\
  match s with
  | U_find1 id2 f => finv st x f /\ same st id2 y
  | U_find2 id1 f => same st id1 x /\ finv st y f
  | U_rank1 id1 id2 => id1 <> id2 /\ same st id1 x /\ same st id2 y
  | U_rank2 id1 id2 r1 => id1 <> id2 /\ same st id1 x /\ same st id2 y /\ r1 <= urank st id1
  | U_link c rc pr rp => c <> pr /\ same st c x /\ same st pr y /\ rp <= urank st pr /\ (rc < rp \/ (rc = rp /\ pr < c))
  | U_bump c pr rp => same st c x /\ same st pr y /\ same st a b
  | U_ret => same st a b
  end.

Definition thinv (st : uf_state) (th : thread) : Prop :=
  match th with TU a b s => uinv st a b s | TF o f => finv st o f end.

(* stability of the atoms under any memory step *)
Lemma up_stable : forall st st' x y, mstep st st' -> up st x y -> up st' x y.
Proof.
  intros st st' x y H [->|[Hx Hk]]; [left; auto|]. right. split.
  - apply (mstep_nonroot _ _ _ H Hx).
  - eapply mstep_klt_stable; eauto.
Qed.

Lemma finv_stable : forall st st' o f, ord_inv st -> total st -> mstep st st' -> finv st o f -> finv st' o f.
Proof.
  intros st st' o f Hinv Htot H Hf.
  pose proof (fun u v => mstep_same_mono st st' u v Hinv Htot H) as M.
  destruct f; cbn [finv] in *; repeat match goal with H : _ /\ _ |- _ => destruct H end; repeat split; auto.
  - apply (mstep_nonroot _ _ _ H); auto.
  - eapply up_stable; eauto.
Qed.

Lemma uinv_stable : forall st st' a b s, ord_inv st -> total st -> mstep st st' -> uinv st a b s -> uinv st' a b s.
Proof.
  intros st st' a b s Hinv Htot H (x & y & Hxy & Hs).
  pose proof (fun u v => mstep_same_mono st st' u v Hinv Htot H) as M.
  pose proof (fun o f => finv_stable st st' o f Hinv Htot H) as Fs.
  pose proof (fun z => mstep_rank_mono st st' z H) as Rm.
  exists x, y. split; auto.
  destruct s; repeat match goal with H : _ /\ _ |- _ => destruct H end; repeat split; auto.
  - specialize (Rm id1). lia.
  - specialize (Rm pr). lia.
Qed.

Lemma thinv_stable : forall st st' th, ord_inv st -> total st -> mstep st st' -> thinv st th -> thinv st' th.
Proof. intros st st' [a b s|o f]; cbn [thinv]; [apply uinv_stable| apply finv_stable]. Qed.

(* what a step does to the shared array *)
Definition quiet (st st' : uf_state) : Prop :=
  st' = st \/ (mstep st st' /\ forall u v, same st' u v -> same st u v).

(* findImpl: every step is a load or a legal memory step, and keeps the thread invariant *)
Lemma fstep_inv : forall st o f st' f', ord_inv st -> total st -> finv st o f -> fstep st f st' f' ->
    quiet st st' /\ finv st' o f'.
Proof.
  intros st o f st' f' Hinv Htot Hf Hs.
  destruct Hs as [id r Hg|id r p Hg Hp|id r p Hg|id r p|id r p|id r p np Hnp Hg|id r p np Hnp]; cbn [finv] in *.
  - split; [left; auto| auto].
  - split; [left; auto|]. split; auto. apply uget_fst_snd in Hg. destruct Hg as [_ ->]. auto.
  - destruct Hf as [Hs Hnr]. apply uget_fst_snd in Hg. destruct Hg as [_ Hp]. split; [left; auto|].
    pose proof (same_lt_l _ _ _ Hs) as Hid. repeat split; auto; [|congruence].
    apply same_trans with id; auto. apply same_sym. rewrite <- Hp. apply same_parent; auto.
  - destruct Hf as (Hs & Hsp & Hp). split; [left; auto|]. pose proof (same_lt_l _ _ _ Hsp) as Hpl.
    repeat split; auto.
    + apply same_trans with p; auto. apply same_sym. apply same_parent; auto.
    + destruct (Nat.eq_dec (uparent st p) p) as [E|E]; [left; auto| right; split; auto; apply ord_parent; auto].
  - destruct Hf as (Hs & Hsn & Hp & Hup). split; [left; auto| auto].
  - destruct Hf as (Hs & Hsn & Hp & Hup).
    pose proof (same_lt_l _ _ _ Hs) as Hid. pose proof (same_lt_l _ _ _ Hsn) as Hnpl.
    assert (Hk : klt st id np).
    { pose proof (uget_fst_snd _ _ _ _ Hg) as [_ Hpar].
      assert (klt st id p) by (rewrite <- Hpar; apply ord_parent; auto; rewrite Hpar; auto).
      destruct Hup as [->|[_ Hk2]]; [congruence| eapply klt_trans; eauto]. }
    assert (Hm : mstep st (set_nth id (r, np) st)).
    { apply MHalve with (p := p); auto. apply same_trans with o; auto. apply same_sym; auto. }
    split.
    + right. split; auto. apply forward_id_backward; auto; [apply length_set_nth; auto|].
      apply halve_forward with (p := p); auto. apply same_trans with o; auto. apply same_sym; auto.
    + eapply mstep_same_mono; eauto.
  - destruct Hf as (Hs & Hsn & Hp & Hup). split; [left; auto| auto].
Qed.

Lemma quiet_same : forall st st' u v, ord_inv st -> total st -> quiet st st' -> same st u v -> same st' u v.
Proof. intros st st' u v Hinv Htot [->|[H _]] Hs; auto. eapply mstep_same_mono; eauto. Qed.

Lemma link_joins : forall st c rc pr, ord_inv st -> total st ->
    c < length st -> pr < length st -> uget st c = (rc, c) -> klt st c pr ->
    same (set_nth c (rc, pr) st) c pr.
Proof.
  intros st c rc pr Hinv Htot Hc Hpr Hg Hk. destruct (Htot pr Hpr) as [rp Hrp].
  pose proof (link_forward st c rc pr rp Hinv Hc Hg Hk Hrp) as Hf.
  pose proof (uget_fst_snd _ _ _ _ Hg) as [_ Hroot].
  assert (E1 : gmap c rp c = rp) by (unfold gmap; rewrite Nat.eqb_refl; reflexivity).
  assert (E2 : gmap c rp rp = rp) by (unfold gmap; destruct (rp =? c); reflexivity).
  pose proof (Hf c c (RO_root _ _ Hc Hroot)) as P1. rewrite E1 in P1.
  pose proof (Hf pr rp Hrp) as P2. rewrite E2 in P2.
  exists rp. split; auto.
Qed.

(* what a step of unite(a,b) may do to the classes *)
Definition effect (st st' : uf_state) (a b : nat) : Prop :=
  st' = st \/ (mstep st st' /\
               forall u v, same st' u v ->
                 same st u v \/ (same st u a /\ same st v b) \/ (same st u b /\ same st v a)).

Lemma quiet_effect : forall st st' a b, quiet st st' -> effect st st' a b.
Proof. intros st st' a b [->|[H Hb]]; [left; auto| right; split; auto]. Qed.

Lemma ustep_inv : forall st a b s st' s', ord_inv st -> total st -> uinv st a b s -> ustep st s st' s' ->
    effect st st' a b /\ uinv st' a b s'.
Proof.
  intros st a b s st' s' Hinv Htot (x & y & Hxy & Hs) Hstep.
  assert (Hsym : forall u v, same st u x -> same st v y ->
                   (same st u a /\ same st v b) \/ (same st u b /\ same st v a)).
  { intros u v H1 H2. destruct Hxy as [[-> ->]|[-> ->]]; auto. }
  destruct Hstep as [id2 f st' f' Hf|id2 r|id1 f st' f' Hf|id1|id1 r Hne|id1 id2|id1 id2 r1 c rc pr rp Hsw
                     |c rc pr Hg|c rc pr rp Hne Hg|c rc pr rp Hg|c pr rp Hg|c pr Hg|c pr rp Hne Hg].
  - destruct Hs as [Hfi Hs2]. destruct (fstep_inv _ _ _ _ _ Hinv Htot Hfi Hf) as [Hq Hfi'].
    split; [apply quiet_effect; auto|]. exists x, y. split; auto. split; auto. eapply quiet_same; eauto.
  - destruct Hs as [Hfi Hs2]. cbn [finv] in Hfi. split; [left; auto|]. exists x, y. split; auto; cbn [finv]; auto.
  - destruct Hs as [Hs1 Hfi]. destruct (fstep_inv _ _ _ _ _ Hinv Htot Hfi Hf) as [Hq Hfi'].
    split; [apply quiet_effect; auto|]. exists x, y. split; auto. split; auto. eapply quiet_same; eauto.
  - destruct Hs as [Hs1 Hfi]. cbn [finv] in Hfi. split; [left; auto|]. exists x, y. split; auto.
    assert (same st x y) by (apply same_trans with id1; auto; apply same_sym; auto).
    destruct Hxy as [[-> ->]|[-> ->]]; auto. apply same_sym; auto.
  - destruct Hs as [Hs1 Hfi]. cbn [finv] in Hfi. split; [left; auto|]. exists x, y. split; auto.
  - destruct Hs as (Hne & H1 & H2). split; [left; auto|]. exists x, y. split; auto; repeat split; auto.
  - destruct Hs as (Hne & H1 & H2 & Hr1). split; [left; auto|].
    unfold swapd in Hsw.
    destruct ((urank st id2 <? r1) || ((r1 =? urank st id2) && (id1 <? id2))) eqn:C; injection Hsw as <- <- <- <-.
    + exists y, x. split; [tauto|]; repeat split; auto.
      apply orb_true_iff in C. destruct C as [C|C]; [apply Nat.ltb_lt in C; left; auto|].
      apply andb_true_iff in C. destruct C as [C1 C2]. apply Nat.eqb_eq in C1. apply Nat.ltb_lt in C2. right. lia.
    + exists x, y. split; auto; repeat split; auto.
      apply orb_false_iff in C. destruct C as [C1 C2]. apply Nat.ltb_ge in C1.
      apply andb_false_iff in C2. destruct C2 as [C2|C2]; [apply Nat.eqb_neq in C2; left; lia|].
      apply Nat.ltb_ge in C2. destruct (Nat.eq_dec r1 (urank st id2)); [right; lia| left; lia].
  - destruct Hs as (Hne & H1 & H2 & Hrp & Hord).
    pose proof (same_lt_l _ _ _ H1) as Hc. pose proof (same_lt_l _ _ _ H2) as Hpr.
    assert (Hk : klt st c pr).
    { unfold klt, key_lt. pose proof (uget_fst_snd _ _ _ _ Hg) as [Hr _]. rewrite Hr. lia. }
    assert (Hm : mstep st (set_nth c (rc, pr) st)) by (apply MLink; auto).
    pose proof (link_joins st c rc pr Hinv Htot Hc Hpr Hg Hk) as Hj.
    pose proof (fun u v => mstep_same_mono _ _ u v Hinv Htot Hm) as M.
    split.
    + right. split; auto. intros u v Huv.
      destruct (link_backward st c rc pr Hinv Htot Hc Hpr Hg Hk u v Huv) as [H|[[Ha Hb]|[Ha Hb]]]; auto; right.
      * apply Hsym; eapply same_trans; eauto.
      * destruct (Hsym v u) as [[P Q]|[P Q]]; [eapply same_trans; eauto| eapply same_trans; eauto| right; auto| left; auto].
    + exists x, y. split; auto; repeat split; auto.
      assert (same (set_nth c (rc, pr) st) x y).
      { apply same_trans with c; [apply same_sym; auto|]. apply same_trans with pr; auto. }
      destruct Hxy as [[-> ->]|[-> ->]]; auto. apply same_sym; auto.
  - destruct Hs as (Hne' & H1 & H2 & Hrp & Hord).
    pose proof (same_lt_l _ _ _ H1) as Hc. pose proof (same_lt_l _ _ _ H2) as Hpr.
    assert (Hk : klt st c pr).
    { unfold klt, key_lt. pose proof (uget_fst_snd _ _ _ _ Hg) as [Hr _]. rewrite Hr. lia. }
    assert (Hm : mstep st (set_nth c (rc, pr) st)) by (apply MLink; auto).
    pose proof (link_joins st c rc pr Hinv Htot Hc Hpr Hg Hk) as Hj.
    pose proof (fun u v => mstep_same_mono _ _ u v Hinv Htot Hm) as M.
    split.
    + right. split; auto. intros u v Huv.
      destruct (link_backward st c rc pr Hinv Htot Hc Hpr Hg Hk u v Huv) as [H|[[Ha Hb]|[Ha Hb]]]; auto; right.
      * apply Hsym; eapply same_trans; eauto.
      * destruct (Hsym v u) as [[P Q]|[P Q]]; [eapply same_trans; eauto| eapply same_trans; eauto| right; auto| left; auto].
    + exists x, y. split; auto.
      assert (same (set_nth c (rc, pr) st) x y).
      { apply same_trans with c; [apply same_sym; auto|]. apply same_trans with pr; auto. }
      destruct Hxy as [[-> ->]|[-> ->]]; auto. apply same_sym; auto.
  - destruct Hs as (Hne & H1 & H2 & _). split; [left; auto|]. exists x, y. split; auto; cbn [finv]; auto.
  - destruct Hs as (H1 & H2 & Hab). pose proof (same_lt_l _ _ _ H2) as Hpr.
    assert (Hm : mstep st (set_nth pr (S rp, pr) st)) by (apply MBump; auto).
    split.
    + right. split; auto. intros u v Huv. left.
      apply (forward_id_backward st (set_nth pr (S rp, pr) st)); auto; [apply length_set_nth; auto| apply bump_forward; auto].
    + exists x, y. split; auto. eapply mstep_same_mono; eauto.
  - destruct Hs as (H1 & H2 & Hab). split; [left; auto|]. exists x, y. split; auto; cbn [finv]; auto.
  - destruct Hs as (H1 & H2 & Hab). split; [left; auto|]. exists x, y. split; auto.
Qed.

(* ------------------------------------------------------------------ configurations *)
Lemma in_set_nth : forall {X} k (x : X) l y, In y (set_nth k x l) -> y = x \/ In y l.
Proof.
  intros X k x l y H. unfold set_nth in H. apply in_app_or in H. destruct H as [H|[H|H]]; auto; right.
  - rewrite <- (firstn_skipn k l). apply in_or_app. auto.
  - rewrite <- (firstn_skipn (S k) l). apply in_or_app. auto.
Qed.

Lemma set_nth_cons : forall {X} k (x t : X) l, set_nth (S k) x (t :: l) = t :: set_nth k x l.
Proof. reflexivity. Qed.

Lemma calls_set_nth : forall ths k th th', nth_error ths k = Some th ->
    (match th, th' with TU a b _, TU a' b' _ => a = a' /\ b = b' | TF _ _, TF _ _ => True | _, _ => False end) ->
    calls_of (set_nth k th' ths) = calls_of ths.
Proof.
  induction ths as [|t ths IH]; intros k th th' Hn Hm; [destruct k; discriminate|].
  destruct k as [|k].
  - cbn in Hn. injection Hn as ->. unfold set_nth. cbn [firstn skipn app calls_of].
    destruct th as [a b s|o f], th' as [a' b' s'|o' f']; try contradiction; [destruct Hm as [-> ->]|]; reflexivity.
  - cbn in Hn. specialize (IH k th th' Hn Hm). rewrite set_nth_cons.
    destruct t; cbn [calls_of]; rewrite IH; reflexivity.
Qed.

Lemma call_in : forall ths k a b s, nth_error ths k = Some (TU a b s) -> In (a, b) (calls_of ths).
Proof.
  induction ths as [|t ths IH]; intros k a b s Hn; [destruct k; discriminate|].
  destruct k as [|k]; cbn in Hn.
  - injection Hn as ->. left. reflexivity.
  - destruct t; cbn [calls_of]; [right|]; eapply IH; eauto.
Qed.

Definition sound (n : nat) (st : uf_state) (calls : list (nat * nat)) : Prop :=
  forall u v, same st u v -> uf_equiv n calls u v.

Definition ginv (n : nat) (c : config) : Prop :=
  length (fst c) = n /\ ord_inv (fst c) /\ total (fst c) /\
  sound n (fst c) (calls_of (snd c)) /\ Forall (thinv (fst c)) (snd c).

Lemma cstep_inv : forall n c c', ginv n c -> cstep c c' -> ginv n c' /\ calls_of (snd c') = calls_of (snd c).
Proof.
  intros n c c' (HL & Hinv & Htot & Hsound & Hth) Hstep.
  destruct Hstep as [st ths k th st' th' Hn Ht]. cbn [fst snd] in *.
  assert (Hthk : thinv st th) by (rewrite Forall_forall in Hth; apply Hth; eapply nth_error_In; eauto).
  assert (Hklen : k < length ths) by (apply nth_error_Some; congruence).
  (* classify the step *)
  assert (Hcls : (st' = st \/ mstep st st') /\ thinv st' th' /\
                 sound n st' (calls_of ths) /\
                 calls_of (set_nth k th' ths) = calls_of ths).
  { destruct Ht as [a b s st' s' Hu|o f st' f' Hf]; cbn [thinv] in *.
    - destruct (ustep_inv _ _ _ _ _ _ Hinv Htot Hthk Hu) as [He Hi].
      split; [destruct He as [->|[Hm _]]; auto|]. split; auto. split.
      + destruct He as [->|[Hm Hb]]; auto. intros u v Huv.
        assert (Hab : uf_equiv n (calls_of ths) a b) by (apply EQ_pair; eapply call_in; eauto).
        destruct (Hb u v Huv) as [H|[[H1 H2]|[H1 H2]]]; auto.
        * apply EQ_trans with a; auto. apply EQ_trans with b; auto. apply EQ_sym; auto.
        * apply EQ_trans with b; auto. apply EQ_trans with a; [apply EQ_sym; auto|]. apply EQ_sym; auto.
      + eapply calls_set_nth; eauto. cbn. auto.
    - destruct (fstep_inv _ _ _ _ _ Hinv Htot Hthk Hf) as [Hq Hi].
      split; [destruct Hq as [->|[Hm _]]; auto|]. split; auto. split.
      + destruct Hq as [->|[Hm Hb]]; auto. intros u v Huv. apply Hsound. auto.
      + eapply calls_set_nth; eauto. cbn. auto. }
  destruct Hcls as (Hm & Hi & Hs' & Hc). split; auto.
  unfold ginv. cbn [fst snd]. rewrite Hc.
  destruct Hm as [->|Hm].
  - split; [auto|]. split; [auto|]. split; [auto|]. split; [auto|].
    apply Forall_forall. intros t Hin. apply in_set_nth in Hin.
    destruct Hin as [->|Hin]; auto. rewrite Forall_forall in Hth; auto.
  - split; [rewrite (mstep_length _ _ Hm); auto|]. split; [eapply mstep_ord; eauto|].
    split; [eapply mstep_total; eauto|]. split; [auto|].
    apply Forall_forall. intros t Hin. apply in_set_nth in Hin. destruct Hin as [->|Hin]; auto.
    apply thinv_stable with (st := st); auto. rewrite Forall_forall in Hth; auto.
Qed.

Lemma init_ginv : forall n ths0, Forall (init_thread n) ths0 -> ginv n (uf_init n, ths0).
Proof.
  intros n ths0 H0. destruct (uf_init_facts n) as (HL & HT & HP). unfold ginv. cbn [fst snd].
  split; auto. split; [apply ord_inv_init|]. split; auto. split.
  - intros u v Huv. pose proof (same_lt_l _ _ _ Huv) as Hu. pose proof (same_lt_r _ _ _ Huv) as Hv. rewrite HL in Hu, Hv.
    apply uf_equiv_weaken with (p1 := []); [intros ? []|]. apply HP; auto.
  - apply Forall_forall. intros th Hin. rewrite Forall_forall in H0. specialize (H0 th Hin).
    destruct th as [a b s|o f]; cbn [init_thread thinv] in *.
    + destruct H0 as (Ha & Hb & ->). exists a, b. split; auto. cbn [finv].
      split; apply same_refl; auto; rewrite HL; auto.
    + destruct H0 as (Ho & ->). cbn [finv]. apply same_refl; auto. rewrite HL; auto.
Qed.

(* every reachable configuration satisfies the invariants *)
Theorem uf_reach_inv : forall n ths0 c, Forall (init_thread n) ths0 -> creach (uf_init n, ths0) c ->
    ginv n c /\ calls_of (snd c) = calls_of ths0.
Proof.
  intros n ths0 c H0 Hr. induction Hr as [|c1 c2 Hr IH Hs].
  - split; [apply init_ginv; auto| reflexivity].
  - destruct IH as [IH1 IH2]. destruct (cstep_inv n c1 c2 IH1 Hs) as [G E]. split; auto. congruence.
Qed.

Lemma finished_call : forall ths a b, Forall finished ths -> In (a, b) (calls_of ths) -> In (TU a b U_ret) ths.
Proof.
  induction ths as [|t ths IH]; intros a b Hf Hin; [destruct Hin|].
  inversion Hf as [|? ? Ht Hf']; subst. destruct t as [a' b' s|o f]; cbn [calls_of] in Hin.
  - destruct Hin as [E|Hin]; [injection E as -> ->; cbn in Ht; subst; left; auto| right; auto].
  - right; auto.
Qed.

(* Concurrent DisjointSets: any number of threads, any interleaving of their
   atomic steps; when every call has returned, two elements have the same root
   exactly when the equivalence closure of the united pairs relates them. *)
Theorem uf_concurrent_partition : forall n ths0 st ths,
    Forall (init_thread n) ths0 -> creach (uf_init n, ths0) (st, ths) -> Forall finished ths ->
    length st = n /\ ord_inv st /\
    forall a b, a < n -> b < n -> (same st a b <-> uf_equiv n (calls_of ths0) a b).
Proof.
  intros n ths0 st ths H0 Hr Hfin.
  destruct (uf_reach_inv n ths0 (st, ths) H0 Hr) as [(HL & Hinv & Htot & Hsound & Hth) Hc]. cbn [fst snd] in *.
  split; auto. split; auto. intros a b Ha Hb. split.
  - intros H. rewrite <- Hc. apply Hsound; auto.
  - intros H. clear Ha Hb. induction H as [u Hu|u v Hin|u v H IH|u v w H1 IH1 H2 IH2].
    + apply same_refl; auto. lia.
    + rewrite <- Hc in Hin. pose proof (finished_call _ _ _ Hfin Hin) as Ht.
      rewrite Forall_forall in Hth. specialize (Hth _ Ht). cbn [thinv] in Hth.
      destruct Hth as (x & y & _ & Hs). exact Hs.
    + apply same_sym; auto.
    + eapply same_trans; eauto.
Qed.

(* ==================================================================
   Termination, sequentially: the number of elements strictly above the current
   one in the (rank, id) order decreases along parent pointers and is not
   changed by path halving, so fuel n+1 always suffices. *)
Definition kltb (st : uf_state) (x y : nat) : bool :=
  (urank st x <? urank st y) || ((urank st x =? urank st y) && (y <? x)).

Lemma kltb_spec : forall st x y, kltb st x y = true <-> klt st x y.
Proof.
  intros st x y. unfold kltb, klt, key_lt. rewrite orb_true_iff, andb_true_iff, Nat.ltb_lt, Nat.eqb_eq, Nat.ltb_lt. tauto.
Qed.

Definition above (st : uf_state) (x : nat) : nat := length (filter (kltb st x) (seq 0 (length st))).

Lemma filter_length_lt : forall {X} (P Q : X -> bool) l w,
    (forall z, In z l -> P z = true -> Q z = true) -> In w l -> Q w = true -> P w = false ->
    length (filter P l) < length (filter Q l).
Proof.
  intros X P Q l. induction l as [|z l IH]; intros w Himp Hin HQ HP; [destruct Hin|].
  assert (Hle : forall l', (forall z, In z l' -> P z = true -> Q z = true) -> length (filter P l') <= length (filter Q l')).
  { clear. induction l' as [|z l' IH]; intros H; [cbn; lia|]. cbn [filter].
    pose proof (IH (fun z' Hz => H z' (or_intror Hz))) as IH'.
    destruct (P z) eqn:Pz; [rewrite (H z (or_introl eq_refl) Pz); cbn; lia| destruct (Q z); cbn; lia]. }
  cbn [filter]. destruct Hin as [->|Hin].
  - rewrite HP, HQ. cbn [length]. pose proof (Hle l (fun z' Hz => Himp z' (or_intror Hz))). lia.
  - pose proof (IH w (fun z' Hz => Himp z' (or_intror Hz)) Hin HQ HP) as IH'.
    destruct (P z) eqn:Pz; [rewrite (Himp z (or_introl eq_refl) Pz); cbn; lia| destruct (Q z); cbn; lia].
Qed.

Lemma above_decr : forall st x y, klt st x y -> y < length st -> above st y < above st x.
Proof.
  intros st x y Hk Hy. unfold above. apply filter_length_lt with (w := y).
  - intros z _ Hz. apply kltb_spec. apply kltb_spec in Hz. eapply klt_trans; eauto.
  - apply in_seq. lia.
  - apply kltb_spec; auto.
  - destruct (kltb st y y) eqn:E; auto. apply kltb_spec in E. apply klt_irrefl in E. contradiction.
Qed.

Lemma above_le : forall st x, above st x <= length st.
Proof.
  intros st x. unfold above. rewrite <- (seq_length (length st) 0) at 2.
  generalize (seq 0 (length st)). induction l as [|z l IH]; cbn; [lia|]. destruct (kltb st x z); cbn; lia.
Qed.

Lemma above_ext : forall st st' x, length st' = length st -> (forall z, urank st' z = urank st z) -> above st' x = above st x.
Proof.
  intros st st' x HL Hr. unfold above. rewrite HL. f_equal. apply filter_ext. intros z. unfold kltb. rewrite !Hr. reflexivity.
Qed.

Lemma ufind_terminates : forall fuel st id, ord_inv st -> id < length st -> above st id < fuel ->
    exists st' r, ufind fuel st id = Some (st', r).
Proof.
  induction fuel as [|fu IH]; intros st id Hinv Hid Hf; [lia|].
  cbn [ufind]. destruct (uget st id) as [r p] eqn:Hg. pose proof (uget_fst_snd _ _ _ _ Hg) as [Hr Hp].
  destruct (Nat.eqb_spec p id) as [E|E]; [eauto|].
  assert (Hnr : uparent st id <> id) by congruence.
  destruct (ord_parent st id Hinv Hid Hnr) as [Hpl Hk1]. rewrite Hp in Hpl, Hk1.
  pose proof (above_decr _ _ _ Hk1 Hpl) as D1.
  destruct (Nat.eqb_spec (uparent st p) p) as [E2|E2].
  - rewrite E2. apply IH; auto. lia.
  - destruct (ord_parent st p Hinv Hpl E2) as [Hnl Hk2].
    pose proof (above_decr _ _ _ Hk2 Hnl) as D2.
    set (st1 := set_nth id (r, uparent st p) st).
    assert (HL : length st1 = length st) by (apply length_set_nth; auto).
    apply IH.
    + apply (uf_step_preserves_order st); auto. apply StepHalve with (p := p); auto.
    + lia.
    + rewrite (above_ext st st1); auto; [lia|]. intros z. unfold st1. rewrite urank_set by auto.
      destruct (Nat.eqb_spec z id) as [->|]; auto.
Qed.

Lemma uunite_terminates : forall n st a b, length st = n -> ord_inv st -> total st -> a < n -> b < n ->
    exists st', uunite (S n) st a b = Some st'.
Proof.
  intros n st a b HL Hinv Htot Ha Hb. unfold uunite.
  destruct (ufind_terminates (S n) st a Hinv) as (st1 & i1 & F1); [lia| pose proof (above_le st a); lia|].
  assert (Ha' : a < length st) by lia.
  rewrite F1. destruct (ufind_spec _ _ _ _ _ Hinv Ha' (Htot a Ha') F1) as (L1 & I1 & _).
  destruct (ufind_terminates (S n) st1 b I1) as (st2 & i2 & F2); [lia| pose proof (above_le st1 b); lia|].
  rewrite F2. destruct (i1 =? i2); [eauto|].
  destruct ((urank st2 i2 <? urank st2 i1) || ((urank st2 i1 =? urank st2 i2) && (i1 <? i2))); eauto.
Qed.

Lemma uf_run_terminates : forall n rest st done,
    length st = n -> ord_inv st -> total st -> Forall (valid n) done -> Forall (valid n) rest ->
    part_inv n st done -> exists st', uf_run (S n) st rest = Some st'.
Proof.
  intros n rest. induction rest as [|[a b] rest IH]; intros st done HL Hinv Htot Hvd Hvr HP; [cbn; eauto|].
  inversion Hvr as [|? ? [Ha Hb] Hvr']; subst. cbn in Ha, Hb.
  destruct (uunite_terminates (length st) st a b eq_refl Hinv Htot Ha Hb) as [st1 U].
  cbn [uf_run]. rewrite U.
  destruct (unite_step_inv (length st) _ st a b st1 done eq_refl Hinv Htot Ha Hb Hvd HP U) as (L1 & I1 & T1 & P1).
  apply (IH st1 (done ++ [(a, b)])); auto. apply Forall_app. split; auto. constructor; [split; auto| constructor].
Qed.

(* sequential DisjointSets, unconditional: the run always returns, and its partition is the equivalence closure *)
Theorem uf_seq_partition_total : forall n pairs, Forall (valid n) pairs ->
    exists st, uf_run_seq n pairs = Some st /\ length st = n /\ ord_inv st /\
               forall a b, a < n -> b < n -> (same st a b <-> uf_equiv n pairs a b).
Proof.
  intros n pairs Hv. destruct (uf_init_facts n) as (HL & HT & HP).
  destruct (uf_run_terminates n pairs (uf_init n) [] HL (ord_inv_init n) HT (Forall_nil _) Hv HP) as [st Hrun].
  exists st. split; [exact Hrun|]. apply uf_seq_partition; auto.
Qed.
