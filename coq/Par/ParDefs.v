(* Executable list-level port of src/parallel.h (MANIFOLD_PAR == 1 branches).
   Model only: no proofs.  Thresholds (kSeqThreshold, MAX_BUFFER_SIZE) are
   parameters.  The std:: algorithms the code calls (std::merge,
   std::stable_sort, std::lower_bound/upper_bound on sorted runs, std::copy,
   std::reduce on a block) are modelled by their standard-specified results.
   Schedules are the data of Par/Sched.v.  A recursion that the C++ would not
   finish (stack overflow) runs out of fuel and yields None. *)
From Coq Require Import List Arith Bool ZArith Lia.
From MV Require Import Par.Sched.
Import ListNotations.

(* ================================================================= sorting *)
Section Sort.
  Context {A : Type}.
  Variable lt : A -> A -> bool.          (* comp(a, b) *)

  (* std::merge(run1, run2, comp): takes from run 2 only when comp(b, a) *)
  Fixpoint merge (l1 l2 : list A) : list A :=
    let fix merge_aux l2 :=
      match l1, l2 with
      | [], _ => l2
      | _, [] => l1
      | a :: l1', b :: l2' => if lt b a then b :: merge_aux l2' else a :: merge l1' l2
      end
    in merge_aux l2.

  (* the specification of a stable sort: insertion sort, inserting from the
     right, an element goes before the first y with not (y < x) *)
  Fixpoint insert (x : A) (l : list A) : list A :=
    match l with
    | [] => [x]
    | y :: r => if lt y x then y :: insert x r else x :: l
    end.
  Definition isort (l : list A) : list A := fold_right insert [] l.

  (* std::lower_bound(run, v, comp) - run.begin(): first position whose element is not < v *)
  Fixpoint lower_bound (l : list A) (v : A) : nat :=
    match l with [] => 0 | y :: r => if lt y v then S (lower_bound r v) else 0 end.
  (* std::upper_bound(run, v, comp) - run.begin(): first position whose element is > v *)
  Fixpoint upper_bound (l : list A) (v : A) : nat :=
    match l with [] => 0 | y :: r => if lt v y then 0 else S (upper_bound r v) end.

  (* details::mergeRec(src, dest, p1, r1, p2, r2, p3, comp) on the two runs
     l1 = src[p1,r1), l2 = src[p2,r2); the result is dest[p3, p3+len1+len2).
     The two recursive calls are the tasks of a parallel_invoke: they write
     the disjoint pieces dest[p3,q3) and dest[q3,..) and only read src, so
     the result is their concatenation for every interleaving. *)
  Fixpoint pmerge (fuel thr : nat) (l1 l2 : list A) : option (list A) :=
    match fuel with
    | O => None
    | S fu =>
      match l1, l2 with
      | [], _ => Some l2                       (* length1 == 0: copy run 2 *)
      | _, [] => Some l1                       (* length2 == 0: copy run 1 *)
      | _, _ =>
        let n1 := length l1 in
        let n2 := length l2 in
        if n1 + n2 <=? thr then Some (merge l1 l2)
        else
          let qs :=
            if n2 <? n1
            then (* left pivot src[q1], lower_bound on the right run *)
                 let q1 := n1 / 2 in
                 match nth_error l1 q1 with
                 | Some pv => Some (q1, lower_bound l2 pv)
                 | None => None end
            else (* right pivot src[q2], upper_bound on the left run *)
                 let q2 := n2 / 2 in
                 match nth_error l2 q2 with
                 | Some pv => Some (upper_bound l1 pv, q2)
                 | None => None end in
          match qs with
          | None => None
          | Some (q1, q2) =>
            match pmerge fu thr (firstn q1 l1) (firstn q2 l2),
                  pmerge fu thr (skipn q1 l1) (skipn q2 l2) with
            | Some a, Some b => Some (a ++ b)
            | _, _ => None
            end
          end
      end
    end.

  (* details::mergeSortRec on the list src[begin,end) (both ping-pong buffers
     hold the same data on entry, see msort_buf below for the buffers) *)
  Fixpoint msort (fuel thr : nat) (l : list A) : option (list A) :=
    match fuel with
    | O => None
    | S fu =>
      let n := length l in
      if n <=? thr then Some (isort l)         (* std::copy + std::stable_sort *)
      else
        let m := n / 2 in
        match msort fu thr (firstn m l), msort fu thr (skipn m l) with
        | Some a, Some b => pmerge (S n) thr a b
        | _, _ => None
        end
    end.

  (* details::mergeSort(Par, first, last, comp) *)
  Definition merge_sort (thr : nat) (l : list A) : option (list A) :=
    msort (S (length l)) thr l.

  (* ---- the same with the two ping-pong buffers explicit ----
     slice/splice on whole buffers; mergeSortRec(src, dest, b, e): reads
     src[b,e) (base case) or recursion with the roles swapped, writes dest[b,e) *)
  Definition slice (buf : list A) (b e : nat) : list A := firstn (e - b) (skipn b buf).
  Definition splice (buf : list A) (b : nat) (new : list A) : list A :=
    firstn b buf ++ new ++ skipn (b + length new) buf.

  (* returns (src', dest') *)
  Fixpoint msort_buf (fuel thr : nat) (src dest : list A) (b e : nat) : option (list A * list A) :=
    match fuel with
    | O => None
    | S fu =>
      let n := e - b in
      if n <=? thr then Some (src, splice dest b (isort (slice src b e)))
      else
        let m := b + n / 2 in
        (* mergeSortRec(dest, src, b, m) ; mergeSortRec(dest, src, m, e) : roles swapped *)
        match msort_buf fu thr dest src b m with
        | None => None
        | Some (dest1, src1) =>
          match msort_buf fu thr dest1 src1 m e with
          | None => None
          | Some (dest2, src2) =>
            (* mergeRec(src, dest, b, m, m, e, b) *)
            match pmerge (S n) thr (slice src2 b m) (slice src2 m e) with
            | Some r => Some (src2, splice dest2 b r)
            | None => None
            end
          end
        end
    end.

  (* mergeSort: tmp := copy of the input; mergeSortRec(tmp, first, 0, length) *)
  Definition merge_sort_buf (thr : nat) (l : list A) : option (list A) :=
    match msort_buf (S (length l)) thr l l 0 (length l) with
    | Some (_, d) => Some d
    | None => None
    end.
End Sort.

(* ============================================================== radix sort *)
Local Open Scope Z_scope.
(* (x >> (8*k)) & 0xFF on the two's-complement pattern of x *)
Definition byte (k : nat) (x : Z) : Z := Z.land (Z.shiftr x (8 * Z.of_nat k)) 255.

(* one shuffle() pass with the prefix-summed histogram of byte k: elements go
   to their bucket in input order = stable partition by byte k *)
Definition radix_pass (k : nat) (l : list Z) : list Z :=
  flat_map (fun b : nat => filter (fun x => Z.eqb (byte k x) (Z.of_nat b)) l) (seq 0 256).

(* Hist::prefixSum sets canSkip[k] when one bucket of byte k holds all n elements *)
Definition can_skip (k : nat) (l : list Z) : bool :=
  existsb (fun b : nat => Nat.eqb (length (filter (fun x => Z.eqb (byte k x) (Z.of_nat b)) l)) (length l)) (seq 0 256).

Fixpoint is_sortedb (l : list Z) : bool :=
  match l with
  | [] => true
  | x :: r => match r with [] => true | y :: _ => (x <=? y) && is_sortedb r end
  end.

(* passes 0..nbytes-1; returns the data and whether it ended in tmp (odd number of shuffles) *)
Fixpoint radix_passes (ks : list nat) (orig l : list Z) (in_tmp : bool) : list Z * bool :=
  match ks with
  | [] => (l, in_tmp)
  | k :: r => if can_skip k orig then radix_passes r orig l in_tmp
              else radix_passes r orig (radix_pass k l) (negb in_tmp)
  end.

(* LSB_radix_sort(input, tmp, n) for a type of nbytes bytes *)
Definition lsb_radix_sort (nbytes : nat) (l : list Z) : list Z * bool :=
  if is_sortedb l then (l, false) else radix_passes (seq 0 nbytes) l l false.

(* SortedRange as a value: None = length 0 (nothing accumulated yet),
   Some (data, inTmp).  operator()(range) radix-sorts the block, then *this = rhs or join(rhs).
   join: (buffer parity fix-up by swapBuffer moves data, not values;) if
   src[last of left] > src[first of right] mergeRec(..., std::less) and flip inTmp. *)
Definition sr := option (list Z * bool).

Definition sr_join (thr : nat) (a : list Z * bool) (b : list Z * bool) : option (list Z * bool) :=
  let '(la, ta) := a in
  let '(lb, tb) := b in
  (* if (inTmp != rhs.inTmp) { if (length < rhs.length) inTmp = swapBuffer(); else rhs.swapBuffer(); } *)
  let t := if Bool.eqb ta tb then ta else if (length la <? length lb)%nat then negb ta else ta in
  match la, lb with
  | [], _ => None                      (* src[offset + length - 1] with length = 0: not reachable *)
  | _, [] => None
  | _, y :: _ =>
      if last la 0 >? y
      then match pmerge Z.ltb (S (length la + length lb)) thr la lb with
           | Some r => Some (r, negb t)
           | None => None
           end
      else Some (la ++ lb, t)
  end.

Definition sr_leaf (thr nbytes : nat) (xs : list Z) (lo hi : nat) (v : option sr) : option sr :=
  match v with
  | None => None
  | Some cur =>
    let rhs := lsb_radix_sort nbytes (firstn (hi - lo) (skipn lo xs)) in
    match cur with
    | None => Some (Some rhs)
    | Some c => match sr_join thr c rhs with Some j => Some (Some j) | None => None end
    end
  end.

Definition sr_joinv (thr : nat) (a b : option sr) : option sr :=
  match a, b with
  | Some (Some x), Some (Some y) =>
      match sr_join thr x y with Some j => Some (Some j) | None => None end
  | Some None, Some y => None          (* join with an empty left body: src[offset+length-1] underflows *)
  | Some x, Some None => None          (* join(rhs) with rhs.length = 0 reads src[rhs.offset]: not reachable, leaves are non-empty *)
  | _, _ => None
  end.

(* details::radix_sort(input, n): parallel_reduce of a SortedRange over any rtree *)
Definition radix_sort (thr nbytes : nat) (xs : list Z) (t : rtree) : option (list Z) :=
  match reduce_top (fun _ => Some None) (sr_leaf thr nbytes xs) (sr_joinv thr) (length xs) t (Some None) with
  | Some (Some (l, _)) => Some l
  | Some None => Some xs               (* n = 0 *)
  | None => None
  end.
Local Close Scope Z_scope.

(* ===================================================== write-once bodies *)
Section Cells.
  Context {V : Type}.
  Definition upd (p : nat) (v : V) (o : nat -> V) : nat -> V :=
    fun q => if q =? p then v else o q.

  (* iteration i touches at most the cell W i, replacing its content c by H i c *)
  Variable W : nat -> option nat.
  Variable H : nat -> V -> V.
  Definition cell_step (o : nat -> V) (i : nat) : nat -> V :=
    match W i with Some p => upd p (H i (o p)) o | None => o end.
  Definition run_idxs (is : list nat) (o : nat -> V) : nat -> V := fold_left cell_step is o.

  (* parallel_for(blocked_range(0,n,grain), body) where the body loops over its leaf *)
  Definition range_idxs (r : nat * nat) : list nat := seq (fst r) (snd r - fst r).
  Definition par_for (n : nat) (s : for_sched) (o : nat -> V) : nat -> V :=
    run_idxs (flat_map range_idxs (exec_leaves n s)) o.
  Definition seq_for (n : nat) (o : nat -> V) : nat -> V := run_idxs (seq 0 n) o.
End Cells.

(* the for_each family as cell bodies over an output buffer of Z (inputs are read-only) *)
Definition fe_for_each (h : Z -> Z) := (fun i : nat => Some i, fun (_ : nat) c => h c).         (* f applied to element i, in place *)
Definition fe_transform (x : nat -> Z) (g : Z -> Z) := (fun i : nat => Some i, fun i (_ : Z) => g (x i)).
Definition fe_copy (x : nat -> Z) := (fun i : nat => Some i, fun i (_ : Z) => x i).
Definition fe_fill (v : Z) := (fun i : nat => Some i, fun (_ : nat) (_ : Z) => v).
Definition fe_sequence := (fun i : nat => Some i, fun i (_ : Z) => Z.of_nat i).
Definition fe_gather (map : nat -> nat) (x : nat -> Z) := (fun i : nat => Some i, fun i (_ : Z) => x (map i)).
Definition fe_scatter (map : nat -> nat) (x : nat -> Z) := (fun i : nat => Some (map i), fun i (_ : Z) => x i).

(* ============================================================ reduce *)
Section Reduce.
  Context {T : Type}.
  Variable f : T -> T -> T.
  (* manifold::reduce(Par, xs, init, f) (after fix fc899df2):
       partial = tbb::parallel_reduce(range, std::optional<T>(),
           [](range, value){ i = begin; if (!value && i != end) value = *i++;
                             if (value) value = std::reduce(i, end, *value, f); return value; },
           [](a, b){ if (a && b) return f( *a, *b); return a ? a : b; });
       return partial ? f(init, *partial) : init;
     lambda form: a split body starts from the identity argument = the empty optional *)
  Definition ofold (v : option T) (blk : list T) : option T :=
    match v with
    | Some a => Some (fold_left f blk a)
    | None => match blk with [] => None | x :: r => Some (fold_left f r x) end
    end.
  Definition ojoin (a b : option T) : option T :=
    match a, b with
    | Some x, Some y => Some (f x y)
    | Some _, None => a
    | None, _ => b
    end.
  Definition reduce_par (xs : list T) (init : T) (t : rtree) : T :=
    match reduce_top (fun _ => None)
                     (fun lo hi v => ofold v (firstn (hi - lo) (skipn lo xs)))
                     ojoin (length xs) t None with
    | Some p => f init p
    | None => init
    end.
  Definition reduce_seq (xs : list T) (init : T) : T := fold_left f xs init.

  (* the body before fix fc899df2 (kept for the historical counterexample only):
     parallel_reduce(range, init, [](range, value){ return std::reduce(range, value, f); }, f) *)
  Definition reduce_par_before_fix (xs : list T) (init : T) (t : rtree) : T :=
    reduce_top (fun _ => init)
               (fun lo hi v => fold_left f (firstn (hi - lo) (skipn lo xs)) v)
               f (length xs) t init.
End Reduce.

(* transform_reduce = reduce over the TransformIterator; count_if = reduce(plus, 0) over pred *)
Definition transform_reduce_par {X T} (f : T -> T -> T) (g : X -> T) (xs : list X) (init : T) (t : rtree) : T :=
  reduce_par f (map g xs) init t.
Definition count_if_par {X} (p : X -> bool) (xs : list X) (t : rtree) : nat :=
  reduce_par Nat.add (map (fun x => if p x then 1 else 0) xs) 0 t.
(* all_of: identity true, body: if (!value) return false; loop; join && *)
Definition all_of_par {X} (p : X -> bool) (xs : list X) (t : rtree) : bool :=
  reduce_top (fun _ => true)
             (fun lo hi v => if v then forallb p (firstn (hi - lo) (skipn lo xs)) else false)
             andb (length xs) t true.

(* ============================================================== scans *)
Section Scan.
  Context {T V : Type}.
  Variable identity : T.
  Variable f : T -> T -> T.             (* reverse_join: sum := f a.sum sum;  loop: temp := f temp (m i) *)
  Variable m : nat -> T.                (* contribution of index i *)
  Variable emit : T -> nat -> option (nat * V).
        (* final scan of index i with running value temp (before the update): optional write *)

  (* Body::operator()(range, tag) *)
  Fixpoint scan_range (final : bool) (idxs : list nat) (temp : T) (out : nat -> V) : T * (nat -> V) :=
    match idxs with
    | [] => (temp, out)
    | i :: r =>
        let out' := if final then match emit temp i with Some (p, v) => upd p v out | None => out end
                    else out in
        scan_range final r (f temp (m i)) out'
    end.

  Definition cstep (st : list T * (nat -> V)) (op : scan_op) : list T * (nat -> V) :=
    let '(sums, out) := st in
    match op with
    | OSplit b c => (sums ++ [identity], out)
    | OPre b lo hi =>
        let '(s, o) := scan_range false (seq lo (hi - lo)) (nth b sums identity) out in (set_nth b s sums, o)
    | OFinal b lo hi =>
        let '(s, o) := scan_range true (seq lo (hi - lo)) (nth b sums identity) out in (set_nth b s sums, o)
    | ORevJoin b a => (set_nth b (f (nth a sums identity) (nth b sums identity)) sums, out)
    | OAssign b a => (set_nth b (nth a sums identity) sums, out)
    end.

  (* tbb::parallel_scan(range(0,n), body) under the op list [ops]; returns
     (body.sum afterwards, output buffer) *)
  Definition scan_par (init : T) (ops : list scan_op) (out0 : nat -> V) : T * (nat -> V) :=
    let '(sums, out) := fold_left cstep ops ([init], out0) in (nth 0 sums identity, out).
  (* the sequential meaning: one final scan of [0,n) by the caller's body *)
  Definition scan_seq (n : nat) (init : T) (out0 : nat -> V) : T * (nat -> V) :=
    scan_range true (seq 0 n) init out0.
  Definition prefix (init : T) (k : nat) : T := fold_left (fun t i => f t (m i)) (seq 0 k) init.
End Scan.

(* ---- the same protocol when the scan runs IN PLACE (d_first == first, which
   parallel.h documents as allowed): one shared buffer; ScanBody::operator()
   reads inputTmp = input[i] BEFORE output[i] = temp.  [wr temp x] is the value
   stored by a final scan (exclusive: temp; inclusive lambda: f temp x). *)
Section ScanInPlace.
  Context {T : Type}.
  Variable identity : T.
  Variable f : T -> T -> T.
  Variable wr : T -> T -> T.
  Fixpoint ascan_range (final : bool) (idxs : list nat) (temp : T) (buf : nat -> T) : T * (nat -> T) :=
    match idxs with
    | [] => (temp, buf)
    | i :: r =>
        let x := buf i in                                     (* T inputTmp = input[i]; *)
        let buf' := if final then upd i (wr temp x) buf else buf in
        ascan_range final r (f temp x) buf'
    end.
  Definition acstep (st : list T * (nat -> T)) (op : scan_op) : list T * (nat -> T) :=
    let '(sums, buf) := st in
    match op with
    | OSplit b c => (sums ++ [identity], buf)
    | OPre b lo hi =>
        let '(s, o) := ascan_range false (seq lo (hi - lo)) (nth b sums identity) buf in (set_nth b s sums, o)
    | OFinal b lo hi =>
        let '(s, o) := ascan_range true (seq lo (hi - lo)) (nth b sums identity) buf in (set_nth b s sums, o)
    | ORevJoin b a => (set_nth b (f (nth a sums identity) (nth b sums identity)) sums, buf)
    | OAssign b a => (set_nth b (nth a sums identity) sums, buf)
    end.
  Definition ascan_par (init : T) (ops : list scan_op) (buf0 : nat -> T) : T * (nat -> T) :=
    let '(sums, buf) := fold_left acstep ops ([init], buf0) in (nth 0 sums identity, buf).

  (* what the loop would do if input[i] were read AFTER the store (the temporary dropped): kept only to show
     that the read-before-write order is what the in-place theorem rests on *)
  Fixpoint ascan_range_read_after_write (idxs : list nat) (temp : T) (buf : nat -> T) : T * (nat -> T) :=
    match idxs with
    | [] => (temp, buf)
    | i :: r => let buf' := upd i temp buf in ascan_range_read_after_write r (f temp (buf' i)) buf'
    end.
End ScanInPlace.

(* exclusive_scan(Par, v.begin(), v.end(), v.begin(), init, f, identity) and inclusive_scan in place *)
Definition excl_scan_inplace {T} (identity : T) (f : T -> T -> T) (xs : list T) (init : T) (ops : list scan_op) : T * (nat -> T) :=
  ascan_par identity f (fun temp _ => temp) init ops (fun i => nth i xs identity).
Definition incl_scan_inplace (xs : list Z) (ops : list scan_op) : Z * (nat -> Z) :=
  ascan_par 0%Z Z.add (fun temp x => (temp + x)%Z) 0%Z ops (fun i => nth i xs 0%Z).

(* details::ScanBody via exclusive_scan(Par, xs, out, init, f, identity): output[i] = temp *)
Definition excl_scan_par {T} (identity : T) (f : T -> T -> T) (xs : list T) (init : T)
           (ops : list scan_op) (out0 : nat -> T) : T * (nat -> T) :=
  scan_par identity f (fun i => nth i xs identity) (fun t i => Some (i, t)) init ops out0.
(* inclusive_scan(Par, xs, out): lambda form, T(0), temp = temp + first[i]; d_first[i] = temp; std::plus *)
Definition incl_scan_par (xs : list Z) (ops : list scan_op) (out0 : nat -> Z) : Z * (nat -> Z) :=
  scan_par 0%Z Z.add (fun i => nth i xs 0%Z) (fun t i => Some (i, (t + nth i xs 0)%Z)) 0%Z ops out0.
(* details::CopyIfScanBody(pred, input, output): if pred(i) { temp += 1; output[temp-1] = input[i] } *)
Definition copy_if_body_par {V} (pred : nat -> bool) (input : nat -> V)
           (ops : list scan_op) (out0 : nat -> V) : nat * (nat -> V) :=
  scan_par 0 Nat.add (fun i => if pred i then 1 else 0)
           (fun t i => if pred i then Some (t, input i) else None) 0 ops out0.

(* std::copy_if written as the loop it is *)
Fixpoint copy_if_seq_from {V} (p : V -> bool) (xs : list V) (k : nat) (out : nat -> V) : nat * (nat -> V) :=
  match xs with
  | [] => (k, out)
  | x :: r => if p x then copy_if_seq_from p r (S k) (upd k x out) else copy_if_seq_from p r k out
  end.
Definition copy_if_seq {V} (p : V -> bool) (xs : list V) (out : nat -> V) := copy_if_seq_from p xs 0 out.

(* manifold::copy_if(Par, xs, out, pred): runs the scan body, DISCARDS its
   result (the `return d_first + body.get_sum()` is inside the isolate lambda)
   and then falls through to std::copy_if on the same buffers *)
Definition copy_if_par {V} (d : V) (p : V -> bool) (xs : list V) (ops : list scan_op) (out0 : nat -> V) : nat * (nat -> V) :=
  let '(_, o) := copy_if_body_par (fun i => p (nth i xs d)) (fun i => nth i xs d) ops out0 in
  copy_if_seq p xs o.

(* remove_if(Par): tmp := copy_if(!pred); copy(tmp, back, first) (a parallel_for: fe_copy); returns count *)
Definition remove_if_par {V} (d : V) (p : V -> bool) (xs : list V) (ops : list scan_op) : list V :=
  let '(k, o) := copy_if_par d (fun v => negb (p v)) xs ops (fun _ => d) in map o (seq 0 k).

(* unique(Par) (after fix 8dafdd9e): chunks of at most maxbuf elements; per chunk
     tmp := chunk;
     if (newSrcStart != srcBegin && !( *(first-1) != tmp[0])) --first;   (a run continues from the previous chunk)
     *first = tmp[0];
     CopyIfScanBody(pred i := tmp[i] != tmp[i+1], tmp+1, first+1) over range(0, length-1); first += sum + 1.
   [scheds] gives the op list of each chunk's parallel_scan.  The array is
   rewritten in place: reads of later chunks are at positions >= first. *)
Fixpoint unique_chunks (fuel maxbuf : nat) (scheds : list (list scan_op)) (started : bool) (src : list Z)
         (out : nat -> Z) (first : nat) : option ((nat -> Z) * nat) :=
  match fuel with
  | O => None
  | S fu =>
    match src with
    | [] => Some (out, first)
    | x0 :: _ =>
      let len := Nat.min maxbuf (length src) in
      let tmp := firstn len src in
      let ops := hd [] scheds in
      let first' := if started && Z.eqb (out (first - 1)) x0 then first - 1 else first in
      let out1 := upd first' x0 out in
      let '(sum, out2) :=
        copy_if_body_par (fun i => negb (Z.eqb (nth i tmp 0%Z) (nth (S i) tmp 0%Z)))
                         (fun i => nth (S i) tmp 0%Z)
                         ops (fun q => out1 (first' + 1 + q)) in
      (* the body writes through the pointer first+1: re-base *)
      let out3 := fun q => if q <? first' + 1 then out1 q else out2 (q - (first' + 1)) in
      if len =? 0 then None
      else unique_chunks fu maxbuf (tl scheds) true (skipn len src) out3 (first' + sum + 1)
    end
  end.
Definition unique_par (maxbuf : nat) (scheds : list (list scan_op)) (src : list Z) : option (list Z) :=
  match src with
  | [] => Some []            (* first == last: std::unique *)
  | _ => match unique_chunks (S (length src)) maxbuf scheds false src (fun _ => 0%Z) 0 with
         | Some (o, k) => Some (map o (seq 0 k))
         | None => None
         end
  end.
(* every chunk's parallel_scan (over length-1 indices) runs under a legal schedule *)
Fixpoint scheds_legal (fuel maxbuf n : nat) (scheds : list (list scan_op)) : Prop :=
  match fuel with
  | O => True
  | S fu => if n =? 0 then True
            else let len := Nat.min maxbuf n in
                 legal_scan (len - 1) (hd [] scheds) = true /\ scheds_legal fu maxbuf (n - len) (tl scheds)
  end.
(* std::unique *)
Fixpoint dedup (l : list Z) : list Z :=
  match l with
  | [] => []
  | x :: r => match r with
              | [] => [x]
              | y :: _ => if Z.eqb x y then dedup r else x :: dedup r
              end
  end.
