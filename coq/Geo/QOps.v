(* Boolean comparisons on Q used by the generated Q versions of Shadows /
   withSign (Gen/BoolConsts.v) and by the exact kernel port. No proofs. *)
From Coq Require Import QArith Qabs.
Definition Qeqb (a b : Q) : bool := Qeq_bool a b.
Definition Qleb (a b : Q) : bool := Qle_bool a b.
Definition Qltb (a b : Q) : bool := negb (Qle_bool b a).
