(* C16 — soundness of the exact convex-hull checker of Hull3Defs.v. *)
From Coq Require Import ZArith List Bool Lia.
From MV Require Import Geo.WindingDefs Geo.MeasureDefs Topo.CheckMeshDefs Topo.CheckMesh Geo.Hull3Defs.
Import ListNotations.
Local Open Scope Z_scope.

Lemma pt_eqb_eq a b : pt_eqb a b = true <-> a = b.
Proof.
  destruct a as [[a1 a2] a3], b as [[b1 b2] b3]. unfold pt_eqb, px, py, pz; cbn [fst snd].
  rewrite !andb_true_iff, !Z.eqb_eq. split; [intros [[-> ->] ->]; reflexivity|intros H; injection H; auto].
Qed.
Lemma is_zero_eq u : is_zero u = true <-> u = (0, 0, 0).
Proof.
  destruct u as [[a1 a2] a3]. unfold is_zero, px, py, pz; cbn [fst snd].
  rewrite !andb_true_iff, !Z.eqb_eq. split; [intros [[-> ->] ->]; reflexivity|intros H; injection H; auto].
Qed.

Lemma first_such_none f l : first_such f l = None -> forall p, In p l -> f p = false.
Proof.
  induction l as [|q l IH]; [intros _ p []|]. cbn. destruct (f q) eqn:E; [discriminate|].
  intros H p [<-|I]; [exact E|apply IH; assumption].
Qed.
Lemma first_such_some f l p : first_such f l = Some p -> In p l /\ f p = true.
Proof.
  induction l as [|q l IH]; [discriminate|]. cbn. destruct (f q) eqn:E.
  - intros H; injection H as <-. split; [left; reflexivity|exact E].
  - intros H. destruct (IH H). split; [right; assumption|assumption].
Qed.

(* e_k x u is orthogonal to every w with u x w = 0 *)
Lemma ortho_dot u w : cross u w = (0, 0, 0) -> dot (ortho u) w = 0.
Proof.
  destruct u as [[u1 u2] u3], w as [[w1 w2] w3]. unfold cross, ortho, dot, px, py, pz; cbn [fst snd].
  intros H; injection H; intros.
  destruct ((u1 =? 0) && (u2 =? 0)); cbn [fst snd]; lia.
Qed.
Lemma ortho_nonzero u : u <> (0, 0, 0) -> ortho u <> (0, 0, 0).
Proof.
  destruct u as [[u1 u2] u3]. unfold ortho, px, py, pz; cbn [fst snd]. intros N.
  destruct (Z.eqb_spec u1 0), (Z.eqb_spec u2 0); cbn [andb]; intros H; injection H; intros; subst; try lia.
  apply N; repeat f_equal; lia.
Qed.

Lemma psub_self p : psub p p = (0, 0, 0).
Proof. destruct p as [[a b] c]. unfold psub, px, py, pz; cbn. f_equal; [f_equal|]; lia. Qed.
Lemma dot_zero_r n : dot n (0, 0, 0) = 0.
Proof. unfold dot, px, py, pz; cbn. lia. Qed.
Lemma psub_zero_eq a b : psub a b = (0, 0, 0) -> a = b.
Proof.
  destruct a as [[a1 a2] a3], b as [[b1 b2] b3]. unfold psub, px, py, pz; cbn [fst snd].
  intros H; injection H; intros. f_equal; [f_equal|]; lia.
Qed.

Lemma flat_check_sound pts : flat_check pts = true -> InPlane pts.
Proof.
  unfold flat_check, find_plane. destruct pts as [|p0 r].
  - intros _. exists (0, 0, 0), (0, 0, 1). split; [discriminate|intros p []].
  - destruct (first_such (fun p => negb (pt_eqb p p0)) r) as [p1|] eqn:F1.
    + destruct (first_such _ r) as [p2|] eqn:F2 in |- *.
      * rewrite andb_true_iff, forallb_forall. intros [N A].
        exists p0, (cross (psub p1 p0) (psub p2 p0)). split.
        -- intros E. rewrite E in N. discriminate.
        -- intros p I. apply Z.eqb_eq, A, I.
      * rewrite andb_true_iff, forallb_forall. intros [N A].
        exists p0, (ortho (psub p1 p0)). split.
        -- intros E. rewrite E in N. discriminate.
        -- intros p I. apply Z.eqb_eq, A, I.
    + rewrite andb_true_iff, forallb_forall. intros [_ A].
      exists p0, (0, 0, 1). split; [discriminate|]. intros p I. apply Z.eqb_eq, A, I.
Qed.

(* det(x,y,z) n = (n.x)(y x z) + (n.y)(z x x) + (n.z)(x x y): vectors in a
   plane span no volume *)
Lemma inplane_no_volume pts : InPlane pts -> ~ SpansVolume pts.
Proof.
  intros (p0 & n & N & P) (a & b & c & d & Ia & Ib & Ic & Id & S).
  apply S. pose proof (P a Ia) as Ha. pose proof (P b Ib) as Hb. pose proof (P c Ic) as Hc. pose proof (P d Id) as Hd.
  destruct n as [[n1 n2] n3], p0 as [[o1 o2] o3], a as [[a1 a2] a3], b as [[b1 b2] b3], c as [[c1 c2] c3], d as [[d1 d2] d3].
  unfold side, fnormal, dot, cross, psub, px, py, pz in *; cbn [fst snd] in *.
  set (x1 := b1 - a1) in *. set (x2 := b2 - a2) in *. set (x3 := b3 - a3) in *.
  set (y1 := c1 - a1) in *. set (y2 := c2 - a2) in *. set (y3 := c3 - a3) in *.
  set (z1 := d1 - a1) in *. set (z2 := d2 - a2) in *. set (z3 := d3 - a3) in *.
  assert (X : n1 * x1 + n2 * x2 + n3 * x3 = 0) by (unfold x1, x2, x3; lia).
  assert (Y : n1 * y1 + n2 * y2 + n3 * y3 = 0) by (unfold y1, y2, y3; lia).
  assert (Z : n1 * z1 + n2 * z2 + n3 * z3 = 0) by (unfold z1, z2, z3; lia).
  clearbody x1 x2 x3 y1 y2 y3 z1 z2 z3. clear Ha Hb Hc Hd P S Ia Ib Ic Id.
  set (D := (x2 * y3 - x3 * y2) * z1 + (x3 * y1 - x1 * y3) * z2 + (x1 * y2 - x2 * y1) * z3).
  assert (E1 : D * n1 = (n1 * x1 + n2 * x2 + n3 * x3) * (y2 * z3 - y3 * z2) + (n1 * y1 + n2 * y2 + n3 * y3) * (z2 * x3 - z3 * x2)
                        + (n1 * z1 + n2 * z2 + n3 * z3) * (x2 * y3 - x3 * y2)) by (unfold D; ring).
  assert (E2 : D * n2 = (n1 * x1 + n2 * x2 + n3 * x3) * (y3 * z1 - y1 * z3) + (n1 * y1 + n2 * y2 + n3 * y3) * (z3 * x1 - z1 * x3)
                        + (n1 * z1 + n2 * z2 + n3 * z3) * (x3 * y1 - x1 * y3)) by (unfold D; ring).
  assert (E3 : D * n3 = (n1 * x1 + n2 * x2 + n3 * x3) * (y1 * z2 - y2 * z1) + (n1 * y1 + n2 * y2 + n3 * y3) * (z1 * x2 - z2 * x1)
                        + (n1 * z1 + n2 * z2 + n3 * z3) * (x1 * y2 - x2 * y1)) by (unfold D; ring).
  rewrite X, Y, Z in E1, E2, E3. fold D.
  destruct (Z.eq_dec D 0) as [|ND]; [assumption|exfalso]. apply N.
  assert (n1 = 0) by nia. assert (n2 = 0) by nia. assert (n3 = 0) by nia. subst. reflexivity.
Qed.

Lemma within_eps_ok a b c p e : within_eps a b c p e = true <-> WithinEps a b c p e.
Proof. unfold within_eps, WithinEps. rewrite orb_true_iff, !Z.leb_le. reflexivity. Qed.

Lemma hull_check_sound_l vpos tris pts eps2 :
  hull_check vpos tris pts eps2 = true ->
  (tris = [] /\ InPlane pts) \/ (tris <> [] /\ HullFacts vpos tris pts eps2).
Proof.
  unfold hull_check, hull_check_code. destruct tris as [|t0 tl].
  - destruct (flat_check pts) eqn:F; [|discriminate]. intros _. left. split; [reflexivity|apply flat_check_sound, F].
  - set (tris := t0 :: tl).
    destruct (check_mesh (Z.of_nat (length vpos)) tris) eqn:M; cbn [negb]; [|discriminate].
    destruct (forallb (fun v => existsb (pt_eqb v) pts) vpos) eqn:V; cbn [negb]; [|discriminate].
    destruct (forallb _ tris) eqn:W in |- *; cbn [negb]; [|discriminate].
    intros H. right. split; [discriminate|]. split; [apply check_mesh_sound, M|]. split; [|split].
    + intros v I. rewrite forallb_forall in V. specialize (V v I). apply existsb_exists in V.
      destruct V as (q & Iq & E). apply pt_eqb_eq in E. subst q. exact Iq.
    + intros i j k p It Ip. rewrite forallb_forall in W. specialize (W (i, j, k) It). cbn [face_pts] in W.
      rewrite forallb_forall in W. apply within_eps_ok, W, Ip.
    + destruct (flat_check pts) eqn:F; [left; apply flat_check_sound, F|right].
      destruct (existsb _ tris) eqn:S in H; cbn [negb] in H; [|discriminate].
      apply existsb_exists in S. destruct S as ([[i j] k] & It & E). cbn [face_pts] in E.
      apply existsb_exists in E. destruct E as (v & Iv & L). apply Z.ltb_lt in L.
      assert (R := check_mesh_sound _ _ M). destruct R as (R & _).
      destruct (R i j k It) as (Ri & Rj & Rk).
      assert (P : forall x, 0 <= x < Z.of_nat (length vpos) -> In (pos vpos x) vpos) by (intros x Hx; apply nth_In; lia).
      exists (pos vpos i), (pos vpos j), (pos vpos k), v. repeat split; auto. lia.
Qed.

(* consequences: the surface is locally convex within eps (the vertex
   opposite to any edge is not more than eps outside the neighbouring face),
   and the result is non-empty exactly when it should be *)
Lemma hull_edges_convex_l vpos tris pts eps2 i j k l :
  HullFacts vpos tris pts eps2 -> In (i, j, k) tris -> 0 <= l < Z.of_nat (length vpos) ->
  WithinEps (pos vpos i) (pos vpos j) (pos vpos k) (pos vpos l) eps2.
Proof.
  intros (_ & V & W & _) It Hl. apply W; [exact It|]. apply V. apply nth_In. lia.
Qed.

Lemma hull_nonempty_spans_l vpos tris pts eps2 :
  HullFacts vpos tris pts eps2 -> ~ InPlane pts -> SpansVolume pts.
Proof.
  intros (_ & V & _ & [P|(a & b & c & d & Ia & Ib & Ic & Id & S)]) N; [contradiction|].
  exists a, b, c, d; repeat split; auto.
Qed.

Lemma hull_flat_input_flat_mesh_l vpos tris pts eps2 :
  HullFacts vpos tris pts eps2 -> InPlane pts -> InPlane vpos /\ ~ SpansVolume vpos.
Proof.
  intros (_ & V & _ & _) (p0 & n & N & P).
  assert (Q : InPlane vpos) by (exists p0, n; split; [exact N|intros p I; apply P, V, I]).
  split; [exact Q|apply inplane_no_volume, Q].
Qed.
