(* C12 — lemmas about the ported SimplifyRing (Simplify2Defs.v). *)
From Coq Require Import ZArith QArith List Bool Lia Permutation.
From MV Require Import Geo.Wind2Defs Geo.Simplify2Defs.
Import ListNotations.
Local Open Scope Z_scope.

(* ------------------------------------------------------------ extract_min *)
Lemma worse_false_le : forall a b, worse a b = false -> (e_d a <= e_d b)%Q.
Proof.
  intros a b H. unfold worse in H.
  destruct (e_d a ?= e_d b)%Q eqn:E; try discriminate.
  - apply Qeq_alt in E. rewrite E. apply Qle_refl.
  - apply Qlt_alt in E. apply Qlt_le_weak. exact E.
Qed.

Lemma worse_true_le : forall a b, worse a b = true -> (e_d b <= e_d a)%Q.
Proof.
  intros a b H. unfold worse in H.
  destruct (e_d a ?= e_d b)%Q eqn:E; try discriminate.
  - apply Qeq_alt in E. rewrite E. apply Qle_refl.
  - apply Qgt_alt in E. apply Qlt_le_weak. exact E.
Qed.

Lemma extract_min_none : forall h, extract_min h = None -> h = [].
Proof.
  destruct h as [|e h]; [reflexivity|]. cbn [extract_min].
  destruct (extract_min h) as [[m r]|]; [destruct (worse e m)|]; discriminate.
Qed.

Lemma extract_min_spec : forall h m r,
  extract_min h = Some (m, r) ->
  Permutation h (m :: r) /\ (forall x, In x r -> (e_d m <= e_d x)%Q).
Proof.
  induction h as [|e h IH]; intros m r H; cbn [extract_min] in H; [discriminate|].
  destruct (extract_min h) as [[m0 r0]|] eqn:E.
  - destruct (IH m0 r0 eq_refl) as [P L].
    destruct (worse e m0) eqn:W; inversion H; subst; clear H.
    + split.
      * apply Permutation_trans with (e :: m :: r0); [constructor; exact P | apply perm_swap].
      * intros x [->|Hx]; [apply worse_true_le; exact W | apply L; exact Hx].
    + split; [apply Permutation_refl|].
      intros x Hx. apply (Permutation_in _ P) in Hx.
      apply worse_false_le in W.
      destruct Hx as [->|Hx]; [exact W|].
      eapply Qle_trans; [exact W | apply L; exact Hx].
  - inversion H; subst. apply extract_min_none in E. subst h.
    split; [apply Permutation_refl | intros x []].
Qed.

Lemma extract_min_length : forall h m r, extract_min h = Some (m, r) -> length h = S (length r).
Proof.
  intros h m r H. apply extract_min_spec in H. destruct H as [P _].
  apply Permutation_length in P. exact P.
Qed.

(* ---- tie-breaking: the popped entry is least in the order (d2, then idx) ---- *)
Definition le_lex (a b : entry) : Prop :=
  (e_d a < e_d b)%Q \/ ((e_d a == e_d b)%Q /\ e_idx a <= e_idx b).

Lemma worse_false_iff : forall a b, worse a b = false <-> le_lex a b.
Proof.
  intros a b. unfold worse, le_lex.
  destruct (e_d a ?= e_d b)%Q eqn:E.
  - apply Qeq_alt in E. rewrite Z.ltb_ge. split.
    + intros H. right. split; assumption.
    + intros [H|[_ H]]; [rewrite E in H; exfalso; apply (Qlt_irrefl _ H) | exact H].
  - apply Qlt_alt in E. split; [intros _; left; exact E | reflexivity].
  - apply Qgt_alt in E. split; [discriminate|].
    intros [H|[H _]]; exfalso.
    + apply (Qlt_irrefl (e_d a)). eapply Qlt_trans; eassumption.
    + rewrite H in E. apply (Qlt_irrefl _ E).
Qed.

Lemma le_lex_trans : forall a b c, le_lex a b -> le_lex b c -> le_lex a c.
Proof.
  intros a b c [H1|[H1 I1]] [H2|[H2 I2]]; unfold le_lex.
  - left. eapply Qlt_trans; eassumption.
  - left. rewrite <- H2. exact H1.
  - left. rewrite H1. exact H2.
  - right. split; [rewrite H1; exact H2 | lia].
Qed.

Lemma le_lex_total : forall a b, worse a b = true -> le_lex b a.
Proof.
  intros a b H. unfold worse in H. unfold le_lex.
  destruct (e_d a ?= e_d b)%Q eqn:E; try discriminate.
  - apply Qeq_alt in E. apply Z.ltb_lt in H. right. split; [symmetry; exact E | lia].
  - apply Qgt_alt in E. left. exact E.
Qed.

Theorem extract_min_least : forall h m r,
  extract_min h = Some (m, r) -> forall x, In x r -> le_lex m x.
Proof.
  induction h as [|e h IH]; intros m r H; cbn [extract_min] in H; [discriminate|].
  destruct (extract_min h) as [[m0 r0]|] eqn:E.
  - pose proof (IH m0 r0 eq_refl) as L.
    pose proof (extract_min_spec h m0 r0 E) as [P _].
    destruct (worse e m0) eqn:W; inversion H; subst; clear H.
    + intros x [<-|Hx]; [apply le_lex_total; exact W | apply L; exact Hx].
    + apply worse_false_iff in W. intros x Hx. apply (Permutation_in _ P) in Hx.
      destruct Hx as [<-|Hx]; [exact W | eapply le_lex_trans; [exact W | apply L; exact Hx]].
  - inversion H; subst. intros x [].
Qed.

(* ------------------------------------------------------------ iota / filter *)
Lemma in_iota : forall n i, In i (iota n) <-> 0 <= i < n.
Proof.
  intros n i. unfold iota. rewrite in_map_iff. split.
  - intros [k [<- Hk]]. apply in_seq in Hk. lia.
  - intros H. exists (Z.to_nat i). split; [lia | apply in_seq; lia].
Qed.

Lemma nodup_iota : forall n, NoDup (iota n).
Proof.
  intros n. unfold iota. apply FinFun.Injective_map_NoDup; [|apply seq_NoDup].
  intros a b H. lia.
Qed.

Lemma length_iota : forall n, length (iota n) = Z.to_nat n.
Proof. intros. unfold iota. rewrite map_length, seq_length. reflexivity. Qed.

Lemma subseq_filter : forall {A} (f : A -> bool) l, subseq (filter f l) l.
Proof.
  induction l as [|a l IH]; cbn; [constructor|].
  destruct (f a); [apply subseq_take | apply subseq_skip]; exact IH.
Qed.

Lemma subseq_refl : forall {A} (l : list A), subseq l l.
Proof. induction l; constructor; assumption. Qed.

Lemma subseq_map : forall {A B} (g : A -> B) l1 l2, subseq l1 l2 -> subseq (map g l1) (map g l2).
Proof. induction 1; cbn; constructor; assumption. Qed.

Lemma filter_all : forall {A} (f : A -> bool) l, (forall x, In x l -> f x = true) -> filter f l = l.
Proof.
  induction l as [|a l IH]; intros H; cbn; [reflexivity|].
  rewrite (H a (or_introl eq_refl)). f_equal. apply IH. intros x Hx. apply H. right. exact Hx.
Qed.

Lemma filter_kill_length : forall (f : Z -> bool) x l,
  NoDup l -> In x l -> f x = true ->
  S (length (filter (upd f x false) l)) = length (filter f l).
Proof.
  intros f x l ND. induction ND as [|a l Hn ND IH]; intros Hin Hf; [destruct Hin|].
  cbn [filter]. unfold upd at 1. destruct (Z.eqb_spec a x) as [->|Hax].
  - rewrite Hf. cbn [length]. f_equal.
    f_equal. apply filter_ext_in. intros b Hb. unfold upd.
    destruct (Z.eqb_spec b x); [subst; contradiction | reflexivity].
  - destruct Hin as [->|Hin]; [contradiction|].
    destruct (f a); cbn [length]; rewrite <- (IH Hin Hf); reflexivity.
Qed.

Lemma upd_same : forall {A} (f : Z -> A) k v, upd f k v k = v.
Proof. intros. unfold upd. rewrite Z.eqb_refl. reflexivity. Qed.
Lemma upd_other : forall {A} (f : Z -> A) k v i, i <> k -> upd f k v i = f i.
Proof. intros. unfold upd. destruct (Z.eqb_spec i k); [contradiction | reflexivity]. Qed.

Lemma upd_mono : forall (f : Z -> Z) k i, f i <= upd f k (f k + 1) i.
Proof. intros. unfold upd. destruct (Z.eqb_spec i k); [subst|]; lia. Qed.

(* ------------------------------------------------------------ the loop *)
Section Proofs.
  Variable dev : Z -> Z -> Z -> Q.
  Variable tol2 : Q.
  Variable n : Z.

  Definition live (s : sstate) (i : Z) : Prop := 0 <= i < n /\ s_alive s i = true.

  Definition gapdead (s : sstate) (i j : Z) : Prop :=
    (i < j /\ forall k, i < k < j -> s_alive s k = false) \/
    (j <= i /\ (forall k, i < k < n -> s_alive s k = false) /\ (forall k, 0 <= k < j -> s_alive s k = false)).

  Record Inv (s : sstate) : Prop := {
    I_count : s_nalive s = Z.of_nat (length (live_list n s));
    I_ge3 : 3 <= s_nalive s;
    I_next : forall i, live s i -> live s (s_next s i) /\ gapdead s i (s_next s i) /\ s_prev s (s_next s i) = i;
    I_prev : forall i, live s i -> live s (s_prev s i) /\ s_next s (s_prev s i) = i;
    I_heap_range : forall e, In e (s_heap s) -> 0 <= e_idx e < n;
    I_heap_has : forall i, live s i -> In {| e_d := dev_of dev s i; e_st := s_stamp s i; e_idx := i |} (s_heap s);
    I_heap_cur : forall e, In e (s_heap s) -> e_st e = s_stamp s (e_idx e) -> e_d e = dev_of dev s (e_idx e);
    I_heap_old : forall e, In e (s_heap s) -> e_st e <= s_stamp s (e_idx e)
  }.

  Lemma live_list_in : forall s i, In i (live_list n s) <-> live s i.
  Proof. intros s i. unfold live_list, live. rewrite filter_In, in_iota. tauto. Qed.

  (* -- termination -- *)
  Lemma loop_terminates : forall fuel s,
    (length (s_heap s) + 2 * Z.to_nat (s_nalive s - 3) < fuel)%nat ->
    exists s', simplify_loop dev tol2 fuel s = Some s'.
  Proof.
    induction fuel as [|f IH]; intros s Hm; [lia|].
    cbn [simplify_loop].
    destruct (3 <? s_nalive s) eqn:E3; [|eexists; reflexivity].
    apply Z.ltb_lt in E3.
    destruct (extract_min (s_heap s)) as [[top h']|] eqn:Em; [|eexists; reflexivity].
    apply extract_min_length in Em.
    destruct (negb (s_alive s (e_idx top)) || negb (e_st top =? s_stamp s (e_idx top))).
    - apply IH. cbn. lia.
    - destruct (Qle_bool tol2 (e_d top)); [eexists; reflexivity|].
      apply IH. cbn. lia.
  Qed.

  (* -- invariant: initial state -- *)
  Lemma init_inv : 3 < n -> Inv (init_state dev n).
  Proof.
    intros Hn.
    assert (Hnx : forall i, 0 <= i < n -> (i + 1) mod n = if i =? n - 1 then 0 else i + 1).
    { intros i Hi. destruct (Z.eqb_spec i (n - 1)) as [->|Hne].
      - replace (n - 1 + 1) with n by lia. apply Z_mod_same_full.
      - apply Z.mod_small. lia. }
    assert (Hpv : forall i, 0 <= i < n -> (i + n - 1) mod n = if i =? 0 then n - 1 else i - 1).
    { intros i Hi. destruct (Z.eqb_spec i 0) as [->|Hne].
      - apply Z.mod_small. lia.
      - replace (i + n - 1) with ((i - 1) + 1 * n) by lia. rewrite Z_mod_plus_full. apply Z.mod_small. lia. }
    constructor; cbn [init_state s_alive s_prev s_next s_stamp s_heap s_nalive].
    - unfold live_list. cbn [s_alive]. rewrite filter_all by reflexivity.
      rewrite length_iota. lia.
    - lia.
    - intros i [Hi _]. rewrite (Hnx i Hi).
      destruct (Z.eqb_spec i (n - 1)) as [->|Hne].
      + split; [split; [lia|reflexivity]|]. split.
        * right. split; [lia|]. split; intros k Hk; lia.
        * rewrite Hpv by lia. reflexivity.
      + split; [split; [lia|reflexivity]|]. split.
        * left. split; [lia|]. intros k Hk. lia.
        * rewrite Hpv by lia. destruct (Z.eqb_spec (i + 1) 0); lia.
    - intros i [Hi _]. rewrite (Hpv i Hi).
      destruct (Z.eqb_spec i 0) as [->|Hne].
      + split; [split; [lia|reflexivity]|]. rewrite Hnx by lia. rewrite Z.eqb_refl. reflexivity.
      + split; [split; [lia|reflexivity]|]. rewrite Hnx by lia. destruct (Z.eqb_spec (i - 1) (n - 1)); lia.
    - intros e He. apply in_map_iff in He. destruct He as [i [<- Hi]]. apply in_iota in Hi. exact Hi.
    - intros i [Hi _]. apply in_map_iff. exists i. split; [reflexivity | apply in_iota; exact Hi].
    - intros e He _. apply in_map_iff in He. destruct He as [i [<- Hi]]. reflexivity.
    - intros e He. apply in_map_iff in He. destruct He as [i [<- Hi]]. cbn. lia.
  Qed.

  Ltac zeq := repeat match goal with
    | |- context [?a =? ?b] => destruct (Z.eqb_spec a b)
    | H : context [?a =? ?b] |- _ => destruct (Z.eqb_spec a b)
    end.

  (* -- invariant: a stale pop -- *)
  Lemma inv_stale : forall s top h',
    Inv s -> extract_min (s_heap s) = Some (top, h') ->
    negb (s_alive s (e_idx top)) || negb (e_st top =? s_stamp s (e_idx top)) = true ->
    Inv (with_heap s h').
  Proof.
    intros s top h' I Em St. apply extract_min_spec in Em. destruct Em as [P _].
    assert (Hsub : forall e, In e h' -> In e (s_heap s)).
    { intros e He. apply (Permutation_in _ (Permutation_sym P)). right. exact He. }
    destruct I as [Ic Ig In_ Ip Ir Ih Icur Iold].
    constructor; unfold live, gapdead, dev_of, live_list in *;
      cbn [with_heap s_alive s_prev s_next s_stamp s_heap s_nalive] in *; auto.
    intros i Hi. specialize (Ih i Hi). apply (Permutation_in _ P) in Ih.
    destruct Ih as [Heq|Hin]; [|exact Hin].
    exfalso. subst top. cbn [e_idx e_st] in St. destruct Hi as [_ Hi]. rewrite Hi, Z.eqb_refl in St. discriminate.
  Qed.

  (* -- invariant: removing the current minimum -- *)
  Lemma inv_remove : forall s top h' idx,
    Inv s -> 3 < s_nalive s -> extract_min (s_heap s) = Some (top, h') ->
    e_idx top = idx ->
    s_alive s idx = true -> e_st top = s_stamp s idx ->
    Inv (remove_vertex dev s h' idx).
  Proof.
    intros s top h' idx I H3 Em Eidx Hal Hst. apply extract_min_spec in Em. destruct Em as [P _].
    assert (Htop : In top (s_heap s)) by (apply (Permutation_in _ (Permutation_sym P)); left; reflexivity).
    assert (Hsub : forall e, In e h' -> In e (s_heap s)).
    { intros e He. apply (Permutation_in _ (Permutation_sym P)). right. exact He. }
    destruct I as [Ic Ig In_ Ip Ir Ih Icur Iold].
    assert (Lidx : live s idx) by (split; [rewrite <- Eidx; apply Ir; exact Htop | exact Hal]).
    destruct (In_ idx Lidx) as [Lnx [Gnx Pnx]].
    destruct (Ip idx Lidx) as [Lp Np].
    assert (Hidx_in : In idx (iota n)) by (apply in_iota; apply Lidx).
    constructor; unfold live, gapdead, dev_of, live_list in *;
      cbn [remove_vertex rekey s_alive s_prev s_next s_stamp s_heap s_nalive e_idx e_st e_d] in *;
      set (p := s_prev s idx) in *; set (nx := s_next s idx) in *.
    - (* count *)
      pose proof (filter_kill_length (s_alive s) idx (iota n) (nodup_iota n) Hidx_in Hal) as HL.
      rewrite Ic, <- HL, Nat2Z.inj_succ. lia.
    - lia.
    - (* next *)
      intros i [Hi Ha]. unfold upd in Ha. destruct (Z.eqb_spec i idx) as [->|Hne]; [discriminate|].
      destruct (In_ i (conj Hi Ha)) as [[Lr La] [G Pv]].
      destruct (Z.eq_dec i p) as [->|Hip].
      + (* i = p : new next is nx *)
        assert (Hnx_ne : nx <> idx) by (intro E; rewrite E in Pnx; fold p in Pnx; congruence).
        rewrite !upd_same.
        split; [split; [apply Lnx|]|].
        { rewrite upd_other by exact Hnx_ne. apply Lnx. }
        split.
        * (* gap p nx *)
          destruct Lp as [Rp Ap]. destruct Lnx as [Rnx Anx].
          rewrite Np in G.
          destruct G as [[Hlt Hd]|[Hle [Hd1 Hd2]]]; destruct Gnx as [[Hlt' Hd']|[Hle' [Hd1' Hd2']]].
          -- left. split; [lia|]. intros k Hk. unfold upd. destruct (Z.eqb_spec k idx); [reflexivity|].
             destruct (Z_lt_ge_dec k idx); [apply Hd | apply Hd']; lia.
          -- right. assert (nx <= p).
             { destruct (Z_le_gt_dec nx p); [assumption|]. exfalso.
               assert (s_alive s p = false) by (apply Hd2'; lia). congruence. }
             split; [assumption|]. split; intros k Hk; unfold upd; destruct (Z.eqb_spec k idx); try reflexivity.
             ++ destruct (Z_lt_ge_dec k idx); [apply Hd | apply Hd1']; lia.
             ++ apply Hd2'; lia.
          -- right. assert (nx <= p).
             { destruct (Z_le_gt_dec nx p); [assumption|]. exfalso.
               assert (s_alive s nx = false) by (apply Hd1; lia). congruence. }
             split; [assumption|]. split; intros k Hk; unfold upd; destruct (Z.eqb_spec k idx); try reflexivity.
             ++ apply Hd1; lia.
             ++ destruct (Z_lt_ge_dec k idx); [apply Hd2 | apply Hd']; lia.
          -- exfalso. assert (p = idx).
             { destruct (Z.eq_dec p idx); [assumption|]. exfalso.
               assert (s_alive s p = false) by (apply Hd1'; lia). congruence. }
             congruence.
        * reflexivity.
      + (* i <> p *)
        assert (Hj : s_next s i <> idx).
        { intro E. rewrite E in Pv. fold p in Pv. congruence. }
        rewrite !(upd_other (s_next s) p nx i) by exact Hip.
        split; [split; [exact Lr|]|].
        { rewrite upd_other by exact Hj. exact La. }
        split.
        * destruct G as [[Hlt Hd]|[Hle [Hd1 Hd2]]]; [left|right]; repeat split; try assumption;
            intros k Hk; unfold upd; destruct (Z.eqb_spec k idx); auto.
        * rewrite upd_other; [exact Pv|].
          intro E. rewrite E in Pv. rewrite Pnx in Pv. congruence.
    - (* prev *)
      intros i [Hi Ha]. unfold upd in Ha. destruct (Z.eqb_spec i idx) as [->|Hne]; [discriminate|].
      destruct (Ip i (conj Hi Ha)) as [[Lr La] Nx].
      destruct (Z.eq_dec i nx) as [->|Hinx].
      + assert (Hp_ne : p <> idx) by (intro E; rewrite E in Np; fold nx in Np; congruence).
        rewrite !upd_same.
        split; [split; [apply Lp|]|].
        { rewrite upd_other by exact Hp_ne. apply Lp. }
        reflexivity.
      + assert (Hj : s_prev s i <> idx).
        { intro E. rewrite E in Nx. fold nx in Nx. congruence. }
        rewrite !(upd_other (s_prev s) nx p i) by exact Hinx.
        split; [split; [exact Lr|]|].
        { rewrite upd_other by exact Hj. exact La. }
        rewrite upd_other; [exact Nx|].
        intro E. rewrite E in Nx. rewrite Np in Nx. congruence.
    - (* heap range *)
      intros e [<-|[<-|He]]; cbn [e_idx]; [apply Lnx | apply Lp | apply Ir; apply Hsub; exact He].
    - (* heap has *)
      intros i [Hi Ha]. unfold upd in Ha. destruct (Z.eqb_spec i idx) as [->|Hne]; [discriminate|].
      destruct (Z.eq_dec i nx) as [->|Hinx]; [left; reflexivity|].
      destruct (Z.eq_dec i p) as [->|Hip].
      + right. left. f_equal. unfold upd. destruct (Z.eqb_spec p nx); [contradiction|]. reflexivity.
      + right. right.
        specialize (Ih i (conj Hi Ha)). apply (Permutation_in _ P) in Ih.
        destruct Ih as [E|Hin].
        * exfalso. apply Hne. rewrite <- Eidx, E. reflexivity.
        * unfold upd. destruct (Z.eqb_spec i nx); [contradiction|]. destruct (Z.eqb_spec i p); [contradiction|]. exact Hin.
    - (* heap current *)
      intros e [<-|[<-|He]]; cbn [e_idx e_st e_d].
      + intros _. reflexivity.
      + intros _. reflexivity.
      + intros Hc. pose proof (Iold e (Hsub e He)) as Ho. pose proof (Icur e (Hsub e He)) as Hcu.
        pose proof (upd_mono (s_stamp s) p (e_idx e)) as M1.
        destruct (Z.eq_dec (e_idx e) nx) as [E1|E1].
        * exfalso. rewrite E1 in Hc, Ho, M1. rewrite upd_same in Hc. lia.
        * rewrite upd_other in Hc by exact E1.
          destruct (Z.eq_dec (e_idx e) p) as [E2|E2].
          -- exfalso. rewrite E2 in Hc, Ho. rewrite upd_same in Hc. lia.
          -- rewrite upd_other in Hc by exact E2.
             rewrite (upd_other (s_prev s)) by exact E1. rewrite (upd_other (s_next s)) by exact E2.
             apply Hcu. exact Hc.
    - (* heap old *)
      intros e [<-|[<-|He]]; cbn [e_idx e_st].
      + lia.
      + apply upd_mono.
      + pose proof (Iold e (Hsub e He)) as Ho.
        pose proof (upd_mono (s_stamp s) p (e_idx e)) as M1.
        pose proof (upd_mono (upd (s_stamp s) p (s_stamp s p + 1)) nx (e_idx e)) as M2.
        lia.
  Qed.

  (* the part of the invariant that does not mention the heap *)
  Record InvL (s : sstate) : Prop := {
    L_count : s_nalive s = Z.of_nat (length (live_list n s));
    L_ge3 : 3 <= s_nalive s;
    L_next : forall i, live s i -> live s (s_next s i) /\ gapdead s i (s_next s i) /\ s_prev s (s_next s i) = i;
    L_prev : forall i, live s i -> live s (s_prev s i) /\ s_next s (s_prev s i) = i
  }.

  Lemma Inv_InvL : forall s, Inv s -> InvL s.
  Proof. intros s [Ic Ig In_ Ip _ _ _ _]. constructor; assumption. Qed.

  Lemma InvL_with_heap : forall s h', InvL s -> InvL (with_heap s h').
  Proof.
    intros s h' [Ic Ig In_ Ip].
    constructor; unfold live, gapdead, live_list in *;
      cbn [with_heap s_alive s_prev s_next s_stamp s_heap s_nalive] in *; auto.
  Qed.

  (* -- the loop keeps the invariant and exits for the stated reason -- *)
  Lemma loop_inv : forall fuel s s',
    Inv s -> simplify_loop dev tol2 fuel s = Some s' ->
    InvL s' /\ (s_nalive s' <= 3 \/ forall i, live s' i -> (tol2 <= dev_of dev s' i)%Q).
  Proof.
    induction fuel as [|f IH]; intros s s' I H; cbn [simplify_loop] in H; [discriminate|].
    destruct (3 <? s_nalive s) eqn:E3.
    2:{ inversion H; subst. split; [apply Inv_InvL; exact I|]. left. apply Z.ltb_ge. exact E3. }
    apply Z.ltb_lt in E3.
    destruct (extract_min (s_heap s)) as [[top h']|] eqn:Em.
    2:{ inversion H; subst. split; [apply Inv_InvL; exact I|]. right. intros i Hi.
        apply extract_min_none in Em. pose proof (I_heap_has _ I i Hi) as Hin. rewrite Em in Hin. destruct Hin. }
    destruct (negb (s_alive s (e_idx top)) || negb (e_st top =? s_stamp s (e_idx top))) eqn:St.
    - apply (IH _ _ (inv_stale s top h' I Em St) H).
    - apply orb_false_iff in St. destruct St as [Sa Ss].
      apply negb_false_iff in Sa. apply negb_false_iff in Ss. apply Z.eqb_eq in Ss.
      destruct (Qle_bool tol2 (e_d top)) eqn:Eq.
      + inversion H; subst. clear H.
        pose proof (extract_min_spec _ _ _ Em) as [P Lmin].
        assert (Htop : In top (s_heap s)) by (apply (Permutation_in _ (Permutation_sym P)); left; reflexivity).
        split; [apply InvL_with_heap; apply Inv_InvL; exact I|].
        right. intros i Hi.
        assert (Hi' : live s i) by exact Hi.
        apply Qle_bool_iff in Eq.
        pose proof (I_heap_has _ I i Hi') as Hin.
        apply (Permutation_in _ P) in Hin.
        change (dev_of dev (with_heap s h') i) with (dev_of dev s i).
        destruct Hin as [E|Hin].
        * rewrite E in Eq. exact Eq.
        * eapply Qle_trans; [exact Eq|]. apply (Lmin _ Hin).
      + apply (IH _ _ (inv_remove s top h' (e_idx top) I E3 Em eq_refl Sa Ss) H).
  Qed.
End Proofs.

(* ------------------------------------------------------------ top level *)
Theorem simplify_idx_terminates : forall dev tol2 n, 0 <= n -> exists out, simplify_idx dev tol2 n = Some out.
Proof.
  intros dev tol2 n Hn. unfold simplify_idx.
  destruct (n <=? 3) eqn:E; [eexists; reflexivity|].
  apply Z.leb_gt in E.
  destruct (loop_terminates dev tol2 (Z.to_nat (3 * n + 1)) (init_state dev n)) as [s' Hs].
  - cbn [init_state s_heap s_nalive]. rewrite map_length, length_iota. lia.
  - rewrite Hs. eexists; reflexivity.
Qed.

Theorem simplify_idx_subseq : forall dev tol2 n out, simplify_idx dev tol2 n = Some out -> subseq out (iota n).
Proof.
  intros dev tol2 n out H. unfold simplify_idx in H.
  destruct (n <=? 3); [inversion H; apply subseq_refl|].
  destruct (simplify_loop dev tol2 _ _); inversion H. apply subseq_filter.
Qed.

Lemma gapdead_cyc_next : forall n s i j,
  live n s j -> gapdead n s i j -> cyc_next (live_list n s) n i j.
Proof.
  intros n s i j Lj G. split; [apply (live_list_in (fun _ _ _ => 0%Q)); exact Lj|].
  destruct G as [[Hlt Hd]|[Hle [Hd1 Hd2]]]; [left|right]; repeat split; try assumption;
    intros k Hk Hin; apply (live_list_in (fun _ _ _ => 0%Q)) in Hin; destruct Hin as [_ Ha];
    [rewrite (Hd k Hk) in Ha | rewrite (Hd1 k Hk) in Ha | rewrite (Hd2 k Hk) in Ha]; discriminate.
Qed.

Theorem simplify_idx_exit : forall dev tol2 n out,
  3 < n -> simplify_idx dev tol2 n = Some out ->
  (3 <= length out)%nat /\
  (length out = 3%nat \/
   forall i, In i out -> exists p nx, cyc_next out n p i /\ cyc_next out n i nx /\ (tol2 <= dev p i nx)%Q).
Proof.
  intros dev tol2 n out Hn H. unfold simplify_idx in H.
  destruct (n <=? 3) eqn:E; [apply Z.leb_le in E; lia|].
  destruct (simplify_loop dev tol2 (Z.to_nat (3 * n + 1)) (init_state dev n)) as [s'|] eqn:EL; inversion H; subst; clear H.
  destruct (loop_inv dev tol2 n _ _ _ (init_inv dev n Hn) EL) as [L Hex].
  pose proof (L_count _ _ L) as Hc. pose proof (L_ge3 _ _ L) as Hg.
  split; [lia|].
  destruct Hex as [H3|Hall]; [left; lia|].
  right. intros i Hi. apply (live_list_in (fun _ _ _ => 0%Q)) in Hi.
  destruct (L_next _ _ L i Hi) as [Lnx [Gnx _]].
  destruct (L_prev _ _ L i Hi) as [Lp Np].
  destruct (L_next _ _ L _ Lp) as [_ [Gp _]]. rewrite Np in Gp.
  exists (s_prev s' i), (s_next s' i). split; [|split].
  - apply gapdead_cyc_next; assumption.
  - apply gapdead_cyc_next; assumption.
  - apply Hall. exact Hi.
Qed.

(* ---- on points ---- *)
Theorem simplify_ring_terminates : forall ring tol2, exists out, simplify_ring ring tol2 = Some out.
Proof.
  intros ring tol2. unfold simplify_ring.
  destruct (simplify_idx_terminates (dev_pts ring) tol2 (Z.of_nat (length ring))) as [out H]; [lia|].
  rewrite H. eexists; reflexivity.
Qed.

Lemma map_nth_seq : forall {A} (l : list A) d, map (fun k => nth k l d) (seq 0 (length l)) = l.
Proof.
  induction l as [|a l IH]; intros d; [reflexivity|].
  cbn [length seq map nth]. f_equal. rewrite <- seq_shift, map_map. cbn [nth]. apply IH.
Qed.

Lemma map_nthp_iota : forall ring, map (nthp ring) (iota (Z.of_nat (length ring))) = ring.
Proof.
  intros ring. unfold iota. rewrite Nat2Z.id, map_map.
  rewrite <- (map_nth_seq ring (0, 0)) at 2.
  apply map_ext. intros k. unfold nthp. rewrite Nat2Z.id. reflexivity.
Qed.

Theorem simplify_ring_subseq : forall ring tol2 out, simplify_ring ring tol2 = Some out -> subseq out ring.
Proof.
  intros ring tol2 out H. unfold simplify_ring in H.
  destruct (simplify_idx (dev_pts ring) tol2 (Z.of_nat (length ring))) as [idx|] eqn:E; inversion H; subst.
  apply simplify_idx_subseq in E. apply (subseq_map (nthp ring)) in E.
  rewrite map_nthp_iota in E. exact E.
Qed.

(* what  tol2 <= dev_pts  means in integers *)
Lemma dev_pts_ge : forall ring (tn : Z) (td : positive) p i nx,
  let P := nthp ring p in let V := nthp ring i in let N := nthp ring nx in
  0 < dot (sub N P) (sub N P) ->
  ((tn # td) <= dev_pts ring p i nx)%Q <->
  tn * dot (sub N P) (sub N P) <= crs (sub V P) (sub N P) * crs (sub V P) (sub N P) * Zpos td.
Proof.
  intros ring tn td p i nx P V N Hpos. unfold dev_pts. fold P V N.
  destruct (0 <? dot (sub N P) (sub N P)) eqn:E; [|apply Z.ltb_ge in E; lia].
  unfold Qle. cbn [Qnum Qden]. rewrite Z2Pos.id by exact Hpos. reflexivity.
Qed.

(* ---- checker soundness (exact test on library output) ---- *)
Lemma subseq_b_sound : forall l1 l2, subseq_b l1 l2 = true -> subseq l1 l2.
Proof.
  intros l1 l2. revert l1. induction l2 as [|b l2 IH]; intros l1 H.
  - destruct l1; [constructor | discriminate].
  - destruct l1 as [|a l1]; cbn [subseq_b] in H.
    + apply subseq_skip. apply IH. destruct l2; reflexivity.
    + destruct (pt_eqb a b) eqn:E.
      * unfold pt_eqb in E. apply andb_prop in E. destruct E as [E1 E2].
        apply Z.eqb_eq in E1. apply Z.eqb_eq in E2.
        destruct a, b. cbn in E1, E2. subst. apply subseq_take. apply IH. exact H.
      * apply subseq_skip. apply IH. exact H.
Qed.

Lemma simplify_example_ok :
  simplify_ring [(0,0);(2,0);(4,0);(4,1);(4,4);(2,5);(0,4)] (1#4) = Some [(0,0);(4,0);(4,4);(2,5);(0,4)].
Proof. vm_compute. reflexivity. Qed.
