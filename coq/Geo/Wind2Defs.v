(* C11/C12 — exact 2-D winding number, shoelace area and segment tests over
   integer coordinates.  Definitions only (no proofs); lemmas are in Wind2.v.
   Doubles exported by the library are dyadic; the driver scales all
   coordinates of one test by a common power of two, so every predicate below
   (orientation determinants, dot products, squared distances) is exact. *)
From Coq Require Import ZArith List Bool.
Import ListNotations.
Local Open Scope Z_scope.

Definition pt := (Z * Z)%type.
Definition contour := list pt.
Definition seg := (pt * pt)%type.

Definition pt_eqb (a b : pt) : bool := (fst a =? fst b) && (snd a =? snd b).

(* twice the signed area of triangle a b p:  (b-a) x (p-a) *)
Definition orient (a b p : pt) : Z :=
  (fst b - fst a) * (snd p - snd a) - (snd b - snd a) * (fst p - fst a).

(* Half-open crossing rule for the ray from p towards +x: an edge a->b counts
   +1 when it crosses the ray's line upwards (a.y <= p.y < b.y) with p strictly
   on its left, -1 when it crosses downwards (b.y <= p.y < a.y) with p strictly
   on its right.  Total: defined for every p, including vertices and points on
   edges (where it is a convention, not geometry). *)
Definition cross1 (p : pt) (e : seg) : Z :=
  let (a, b) := e in
  if (snd a <=? snd p) && (snd p <? snd b) then (if 0 <? orient a b p then 1 else 0)
  else if (snd b <=? snd p) && (snd p <? snd a) then (if orient a b p <? 0 then -1 else 0)
  else 0.

(* consecutive pairs of an open path *)
Fixpoint path_edges (l : list pt) : list seg :=
  match l with
  | a :: (b :: _) as t => (a, b) :: path_edges t
  | _ => []
  end.

(* cyclic edges of a contour: v0->v1, ..., v(n-1)->v0 *)
Definition contour_edges (c : contour) : list seg :=
  match c with
  | [] => []
  | a :: _ => path_edges (c ++ [a])
  end.

Definition zsum (l : list Z) : Z := fold_right Z.add 0 l.

Definition wind_edges (es : list seg) (p : pt) : Z := zsum (map (cross1 p) es).
Definition wind_contour (c : contour) (p : pt) : Z := wind_edges (contour_edges c) p.
Definition wind2 (cs : list contour) (p : pt) : Z := zsum (map (fun c => wind_contour c p) cs).

Definition all_edges (cs : list contour) : list seg := concat (map contour_edges cs).

(* shoelace: twice the signed area *)
Definition shoelace1 (e : seg) : Z := let (a, b) := e in fst a * snd b - fst b * snd a.
Definition area2_contour (c : contour) : Z := zsum (map shoelace1 (contour_edges c)).
Definition area2 (cs : list contour) : Z := zsum (map area2_contour cs).

Definition rot1 (c : contour) : contour :=
  match c with [] => [] | a :: l => l ++ [a] end.
Definition rotl (n : nat) (c : contour) : contour := skipn n c ++ firstn n c.

(* CCW lattice rectangle [x0,x1] x [y0,y1] *)
Definition rect (x0 y0 x1 y1 : Z) : contour := [(x0, y0); (x1, y0); (x1, y1); (x0, y1)].
(* the same in doubled coordinates, so that pixel centres (2i+1,2j+1) are lattice points *)
Definition rect2 (x0 y0 x1 y1 : Z) : contour := rect (2 * x0) (2 * y0) (2 * x1) (2 * y1).
Definition centre (i j : Z) : pt := (2 * i + 1, 2 * j + 1).
Definition in_rect (x0 y0 x1 y1 i j : Z) : bool :=
  (x0 <=? i) && (i <? x1) && (y0 <=? j) && (j <? y1).

(* ---- Boolean expressions over lattice rectangles (the exact regime) ---- *)
Inductive rexpr :=
| RLeaf (x0 y0 x1 y1 : Z)
| RUnion (a b : rexpr)
| RInter (a b : rexpr)
| RDiff (a b : rexpr)
| RXor (a b : rexpr).

(* pixel-set semantics: the Boolean formula of the leaves' indicator functions *)
Fixpoint pix (e : rexpr) (i j : Z) : bool :=
  match e with
  | RLeaf x0 y0 x1 y1 => in_rect x0 y0 x1 y1 i j
  | RUnion a b => pix a i j || pix b i j
  | RInter a b => pix a i j && pix b i j
  | RDiff a b => pix a i j && negb (pix b i j)
  | RXor a b => xorb (pix a i j) (pix b i j)
  end.

(* specification side: point-set semantics through the exact winding number of
   the leaves' contours (doubled coordinates) *)
Fixpoint spec_inside (e : rexpr) (p : pt) : bool :=
  match e with
  | RLeaf x0 y0 x1 y1 => 0 <? wind2 [rect2 x0 y0 x1 y1] p
  | RUnion a b => spec_inside a p || spec_inside b p
  | RInter a b => spec_inside a p && spec_inside b p
  | RDiff a b => spec_inside a p && negb (spec_inside b p)
  | RXor a b => xorb (spec_inside a p) (spec_inside b p)
  end.

Fixpoint rexpr_wf (e : rexpr) : bool :=
  match e with
  | RLeaf x0 y0 x1 y1 => (x0 <? x1) && (y0 <? y1)
  | RUnion a b | RInter a b | RDiff a b | RXor a b => rexpr_wf a && rexpr_wf b
  end.

(* ---- the code's fill rules (src/boolean2_sweep.cpp IsInside, src/boolean2.cpp Boolean2D) ---- *)
Inductive wind_rule := WAdd | WIntersect | WEvenOdd.
Inductive op_type := OpAdd | OpSubtract | OpIntersect.

(* bool IsInside(WindRule rule, int64_t w): Add: w > 0; Intersect: w > 1;
   EvenOdd: w % 2 != 0 (C++ % truncates towards zero = Z.rem) *)
Definition is_inside (r : wind_rule) (w : Z) : bool :=
  match r with
  | WAdd => 0 <? w
  | WIntersect => 1 <? w
  | WEvenOdd => negb (Z.rem w 2 =? 0)
  end.

(* Boolean2D: bSign = op == Subtract ? -1 : 1; rule = op == Intersect ? Intersect : Add *)
Definition b_sign (op : op_type) : Z := match op with OpSubtract => -1 | _ => 1 end.
Definition op_rule (op : op_type) : wind_rule := match op with OpIntersect => WIntersect | _ => WAdd end.
(* what Boolean2D decides for a region where operand A has winding wa and B has wb *)
Definition boolean2d_inside (op : op_type) (wa wb : Z) : bool :=
  is_inside (op_rule op) (wa + b_sign op * wb).
Definition set_op (op : op_type) (a b : bool) : bool :=
  match op with OpAdd => a || b | OpSubtract => a && negb b | OpIntersect => a && b end.
Definition b2z (b : bool) : Z := if b then 1 else 0.

(* ---- exact segment tests ---- *)
Definition dot (u v : pt) : Z := fst u * fst v + snd u * snd v.
Definition crs (u v : pt) : Z := fst u * snd v - snd u * fst v.
Definition sub (a b : pt) : pt := (fst a - fst b, snd a - snd b).

(* proper crossing / T-junction of two non-parallel segments: the lines meet in
   one point; it lies on both closed segments and is not an endpoint of both *)
Definition seg_cross (e f : seg) : bool :=
  let (a, b) := e in let (c, d) := f in
  let o1 := orient a b c in let o2 := orient a b d in
  let o3 := orient c d a in let o4 := orient c d b in
  negb (crs (sub b a) (sub d c) =? 0) &&
  (o1 * o2 <=? 0) && (o3 * o4 <=? 0) &&
  negb (((o3 =? 0) || (o4 =? 0)) && ((o1 =? 0) || (o2 =? 0))).

(* collinear overlap of positive length (parametrise along e: a -> 0, b -> L) *)
Definition seg_overlap (e f : seg) : bool :=
  let (a, b) := e in let (c, d) := f in
  let u := sub b a in
  (crs u (sub d c) =? 0) && (orient a b c =? 0) &&
  (let L := dot u u in
   let al := dot u (sub c a) in let be := dot u (sub d a) in
   Z.max 0 (Z.min al be) <? Z.min L (Z.max al be)).

(* the two closed segments share a point that is not an endpoint of both *)
Definition seg_conflict (e f : seg) : bool := seg_cross e f || seg_overlap e f.
