(* C12 — lemmas about the ported HullImpl and the checker hull2_check. *)
From Coq Require Import ZArith List Bool Lia.
From MV Require Import Geo.Wind2Defs Geo.Hull2Defs.
Import ListNotations.
Local Open Scope Z_scope.

Lemma pt_eqb_eq : forall a b, pt_eqb a b = true <-> a = b.
Proof.
  intros [ax ay] [bx by_]. unfold pt_eqb. cbn [fst snd]. rewrite andb_true_iff, !Z.eqb_eq.
  split; [intros [-> ->]; reflexivity | intros H; inversion H; auto].
Qed.

Lemma mem_pt_in : forall p l, mem_pt p l = true <-> In p l.
Proof.
  intros p l. unfold mem_pt. rewrite existsb_exists. split.
  - intros [x [Hx E]]. apply pt_eqb_eq in E. subst. exact Hx.
  - intros H. exists p. split; [exact H | apply pt_eqb_eq; reflexivity].
Qed.

(* ---- the port only ever returns input points ---- *)
Lemma backtrack_incl : forall p st x, In x (backtrack p st) -> In x st.
Proof.
  intros p st. induction st as [|b st IH]; intros x H; [exact H|].
  cbn [backtrack] in H. destruct st as [|a r]; [exact H|].
  destruct (orient a b p <=? 0); [right; apply IH; exact H | exact H].
Qed.

Lemma chain_fold_incl : forall pts st x,
  In x (fold_left (fun st p => p :: backtrack p st) pts st) -> In x st \/ In x pts.
Proof.
  induction pts as [|p pts IH]; intros st x H; cbn [fold_left] in H; [left; exact H|].
  destruct (IH _ _ H) as [[->|Hb]|Hp].
  - right. left. reflexivity.
  - left. apply (backtrack_incl _ _ _ Hb).
  - right. right. exact Hp.
Qed.

Lemma chain_incl : forall pts x, In x (chain pts) -> In x pts.
Proof. intros pts x H. destruct (chain_fold_incl pts [] x H) as [[]|H']. exact H'. Qed.

Lemma insert_in : forall p l x, In x (insert p l) <-> x = p \/ In x l.
Proof.
  intros p l x. induction l as [|q r IH]; cbn [insert].
  - cbn. intuition.
  - destruct (lex_ltb p q); cbn [In]; [intuition | rewrite IH; intuition].
Qed.

Lemma sort_in : forall l x, In x (sort l) <-> In x l.
Proof.
  induction l as [|a l IH]; intros x; cbn [sort fold_right]; [reflexivity|].
  fold (sort l). rewrite insert_in, IH. cbn. intuition.
Qed.

Lemma in_tl : forall {A} (l : list A) x, In x (tl l) -> In x l.
Proof. destruct l; cbn; auto. Qed.

Theorem hull2_subset : forall pts x, In x (hull2 pts) -> In x pts.
Proof.
  intros pts x H. unfold hull2 in H.
  destruct (Z.of_nat (length pts) <? 3); [destruct H|].
  apply in_app_or in H. destruct H as [H|H]; apply in_rev in H; apply in_tl in H; apply chain_incl in H.
  - apply sort_in. exact H.
  - apply in_rev in H. apply sort_in. exact H.
Qed.

(* ---- declarative specification and soundness of the checker ---- *)
Definition hull_spec (pts H : list pt) : Prop :=
  (forall v, In v H -> In v pts) /\
  NoDup H /\
  forall e, In e (contour_edges H) ->
    (forall v, In v H -> v <> fst e -> v <> snd e -> 0 < orient (fst e) (snd e) v) /\
    (forall q, In q pts -> 0 <= orient (fst e) (snd e) q).

Definition collinear_spec (pts : list pt) : Prop :=
  exists a b, (forall q, In q pts -> orient a b q = 0) /\ (a = b -> forall q, In q pts -> q = a).

Lemma nodup_pts_sound : forall l, nodup_pts l = true -> NoDup l.
Proof.
  induction l as [|a l IH]; intros H; [constructor|].
  cbn [nodup_pts] in H. apply andb_prop in H. destruct H as [H1 H2].
  constructor; [|apply IH; exact H2].
  intro Hin. apply mem_pt_in in Hin. rewrite Hin in H1. discriminate.
Qed.

Theorem hull2_check_poly_sound : forall pts H, hull2_check_poly pts H = true -> hull_spec pts H.
Proof.
  intros pts H C. unfold hull2_check_poly in C.
  apply andb_prop in C. destruct C as [C C3]. apply andb_prop in C. destruct C as [C1 C2].
  split; [|split].
  - intros v Hv. rewrite forallb_forall in C1. apply mem_pt_in. apply C1. exact Hv.
  - apply nodup_pts_sound. exact C2.
  - intros e He. rewrite forallb_forall in C3. specialize (C3 e He).
    apply andb_prop in C3. destruct C3 as [S L]. split.
    + intros v Hv N1 N2. unfold strict_left in S. rewrite forallb_forall in S. specialize (S v Hv).
      apply orb_prop in S. destruct S as [S|S]; [|apply Z.ltb_lt; exact S].
      apply orb_prop in S. destruct S as [S|S]; apply pt_eqb_eq in S; contradiction.
    + intros q Hq. unfold all_left in L. rewrite forallb_forall in L. apply Z.leb_le. apply L. exact Hq.
Qed.

Lemma orient_same : forall a q, orient a a q = 0.
Proof. intros. unfold orient. lia. Qed.

Theorem collinear_pts_sound : forall pts, collinear_pts pts = true -> collinear_spec pts.
Proof.
  intros pts C. unfold collinear_pts in C. destruct pts as [|a r].
  - exists (0, 0), (0, 0). split; intros; contradiction.
  - destruct (filter (fun q => negb (pt_eqb q a)) r) as [|b f] eqn:F.
    + exists a, a. assert (Hall : forall q, In q (a :: r) -> q = a).
      { intros q [<-|Hq]; [reflexivity|].
        destruct (pt_eqb q a) eqn:E; [apply pt_eqb_eq; exact E|].
        assert (Hin : In q (filter (fun q => negb (pt_eqb q a)) r)) by (apply filter_In; split; [exact Hq | rewrite E; reflexivity]).
        rewrite F in Hin. destruct Hin. }
      split; [intros q Hq; apply orient_same | intros _; exact Hall].
    + exists a, b. split.
      * intros q Hq. rewrite forallb_forall in C. apply Z.eqb_eq. apply C. exact Hq.
      * intros E. exfalso.
        assert (Hin : In b (filter (fun q => negb (pt_eqb q a)) r)) by (rewrite F; left; reflexivity).
        apply filter_In in Hin. destruct Hin as [_ Hb]. subst b.
        rewrite (proj2 (pt_eqb_eq a a) eq_refl) in Hb. discriminate.
Qed.

Theorem hull2_check_sound : forall pts H,
  hull2_check pts H = true ->
  ((3 <= length H)%nat /\ hull_spec pts H) \/
  ((length H < 3)%nat /\ ((length pts < 3)%nat \/ collinear_spec pts)).
Proof.
  intros pts H C. unfold hull2_check in C.
  destruct (Z.of_nat (length H) <? 3) eqn:E.
  - right. apply Z.ltb_lt in E. split; [lia|].
    apply orb_prop in C. destruct C as [C|C]; [left; apply Z.ltb_lt in C; lia | right; apply collinear_pts_sound; exact C].
  - left. apply Z.ltb_ge in E. split; [lia | apply hull2_check_poly_sound; exact C].
Qed.

(* ---- bounded exhaustive sweep: the port passes its certificate ---- *)
Definition hull_case_ok (l : list pt) : bool := hull2_check l (hull2 l).

Lemma hull2_small_3x3 :
  forallb (fun k => forallb hull_case_ok (lists_over (grid 3 3) k)) [0; 1; 2; 3; 4; 5]%nat = true.
Proof. vm_compute. reflexivity. Qed.

Lemma hull2_small_4x4 :
  forallb (fun k => forallb hull_case_ok (lists_over (grid 4 4) k)) [3; 4]%nat = true.
Proof. vm_compute. reflexivity. Qed.
