(* C12 — CrossSection::Hull: port of HullBacktrack / HullImpl
   (src/cross_section.cpp:83-121, Andrew's monotone chain) over integer points,
   and the exact checker hull2_check.  Definitions only; lemmas in Hull2.v.

   CCW(p0,p1,p2,0.0) of src/utils.h with tol = 0 is the sign of
   (p1-p0) x (p2-p0) = Wind2Defs.orient p0 p1 p2 (exact over Z; on doubles it
   is exact whenever the products do not round, which is the regime of the
   correspondence run). *)
From Coq Require Import ZArith List Bool.
From MV Require Import Geo.Wind2Defs.
Import ListNotations.
Local Open Scope Z_scope.

(* void HullBacktrack(point, stack): the stack is kept top-first.
   while (size >= 2 && CCW(stack[size-2], stack[size-1], point, 0) <= 0) pop *)
Fixpoint backtrack (p : pt) (st : list pt) : list pt :=
  match st with
  | b :: ((a :: _) as r) => if orient a b p <=? 0 then backtrack p r else st
  | _ => st
  end.

(* for (point : points) { HullBacktrack(point, chain); chain.push_back(point); } *)
Definition chain (pts : list pt) : list pt :=
  fold_left (fun st p => p :: backtrack p st) pts [].

(* the comparator of the stable_sort: a.x == b.x ? a.y < b.y : a.x < b.x  (strict);
   lex_leb a b = not (b < a) *)
Definition lex_ltb (a b : pt) : bool :=
  if fst a =? fst b then snd a <? snd b else fst a <? fst b.
Definition lex_leb (a b : pt) : bool := negb (lex_ltb b a).

(* stable insertion sort (equal keys are equal points, so stability is moot) *)
Fixpoint insert (p : pt) (l : list pt) : list pt :=
  match l with
  | [] => [p]
  | q :: r => if lex_ltb p q then p :: l else q :: insert p r
  end.
Definition sort (l : list pt) : list pt := fold_right insert [] l.

(* SimplePolygon HullImpl(points): fewer than 3 points -> {};
   lower chain over the sorted points, upper chain over the reversed order,
   pop_back on each, concatenate. *)
Definition hull2 (pts : list pt) : list pt :=
  if (Z.of_nat (length pts) <? 3) then []
  else let s := sort pts in
       rev (tl (chain s)) ++ rev (tl (chain (rev s))).

(* ---- exact checker ---- *)
Definition mem_pt (p : pt) (l : list pt) : bool := existsb (pt_eqb p) l.

(* every point q of qs is on the left of (or on) the directed line a->b *)
Definition all_left (e : seg) (qs : list pt) : bool :=
  forallb (fun q => 0 <=? orient (fst e) (snd e) q) qs.
(* every vertex v of H other than a, b is strictly left of a->b *)
Definition strict_left (e : seg) (H : list pt) : bool :=
  forallb (fun v => pt_eqb v (fst e) || pt_eqb v (snd e) || (0 <? orient (fst e) (snd e) v)) H.

Fixpoint nodup_pts (l : list pt) : bool :=
  match l with [] => true | a :: r => negb (mem_pt a r) && nodup_pts r end.

(* |H| >= 3: H is a list of distinct input points such that every vertex is
   strictly left of every edge it is not on (strictly convex, counter-clockwise)
   and every input point is in the closed left half-plane of every edge. *)
Definition hull2_check_poly (pts H : list pt) : bool :=
  forallb (fun v => mem_pt v pts) H && nodup_pts H &&
  forallb (fun e => strict_left e H && all_left e pts) (contour_edges H).

(* |H| < 3 (CrossSection::Hull then returns the empty cross-section): the input
   has fewer than 3 points or all of it lies on one line *)
Definition collinear_pts (pts : list pt) : bool :=
  match pts with
  | [] => true
  | a :: r =>
    match filter (fun q => negb (pt_eqb q a)) r with
    | [] => true
    | b :: _ => forallb (fun q => orient a b q =? 0) pts
    end
  end.

Definition hull2_check (pts H : list pt) : bool :=
  if (Z.of_nat (length H) <? 3) then (Z.of_nat (length pts) <? 3) || collinear_pts pts
  else hull2_check_poly pts H.

(* all point lists of length k over a candidate set (bounded sweeps) *)
Fixpoint lists_over (cands : list pt) (k : nat) : list (list pt) :=
  match k with
  | O => [[]]
  | S k' => flat_map (fun l => map (fun c => c :: l) cands) (lists_over cands k')
  end.
Definition grid (w h : Z) : list pt :=
  flat_map (fun x => map (fun y => (x, y)) (map Z.of_nat (seq 0 (Z.to_nat h)))) (map Z.of_nat (seq 0 (Z.to_nat w))).
