(* C12 — soundness and completeness of the exact distance tests used by
   offset_check, and what an accepted check means at each sample point.

   A point of the closed segment a-b is  a + (tn/td) (b-a)  with integers
   0 <= tn <= td, 0 < td; its squared distance to p times td^2 is
   seg_d2 p a b tn td = |td (p-a) - tn (b-a)|^2.  Rational parameters suffice:
   the nearest point has parameter 0, 1 or  (b-a).(p-a) / |b-a|^2. *)
From Coq Require Import ZArith List Bool Lia Psatz.
From MV Require Import Geo.Wind2Defs Geo.Wind2 Geo.Offset2CheckDefs.
Import ListNotations.
Local Open Scope Z_scope.

Definition seg_d2 (p a b : pt) (tn td : Z) : Z :=
  let ux := fst b - fst a in let uy := snd b - snd a in
  let wx := fst p - fst a in let wy := snd p - snd a in
  (td * wx - tn * ux) * (td * wx - tn * ux) + (td * wy - tn * uy) * (td * wy - tn * uy).

(* some point of the segment is closer than sqrt T *)
Definition within_spec (T : Z) (p : pt) (e : seg) : Prop :=
  exists tn td, 0 < td /\ 0 <= tn <= td /\ seg_d2 p (fst e) (snd e) tn td < T * td * td.
(* every point of the segment is farther than sqrt T *)
Definition beyond_spec (T : Z) (p : pt) (e : seg) : Prop :=
  forall tn td, 0 < td -> 0 <= tn <= td -> T * td * td < seg_d2 p (fst e) (snd e) tn td.

(* ---- algebra on plain integers ---- *)
Section Algebra.
  Variables ux uy wx wy : Z.
  Local Notation L := (ux * ux + uy * uy).
  Local Notation d := (ux * wx + uy * wy).
  Local Notation c := (ux * wy - uy * wx).
  Local Notation D tn td := ((td * wx - tn * ux) * (td * wx - tn * ux) + (td * wy - tn * uy) * (td * wy - tn * uy)).

  Lemma D_expand : forall tn td, D tn td = td * td * (wx * wx + wy * wy) - 2 * td * tn * d + tn * tn * L.
  Proof. intros. ring. Qed.

  Lemma D_lagrange : forall tn td, L * D tn td = td * td * (c * c) + (td * d - tn * L) * (td * d - tn * L).
  Proof. intros. ring. Qed.

  Lemma L_nonneg : 0 <= L.
  Proof. nia. Qed.

  (* K: lower bounds for every parameter *)
  Lemma K_left : forall tn td, 0 < td -> 0 <= tn <= td -> d <= 0 ->
    td * td * (wx * wx + wy * wy) <= D tn td.
  Proof.
    intros tn td Htd Htn Hd. rewrite D_expand. pose proof L_nonneg.
    assert (0 <= tn * tn * L) by (apply Z.mul_nonneg_nonneg; [apply Z.square_nonneg | assumption]).
    assert (td * tn * d <= 0) by (apply Z.mul_nonneg_nonpos; [apply Z.mul_nonneg_nonneg; lia | exact Hd]). lia.
  Qed.

  Lemma K_right : forall tn td, 0 < td -> 0 <= tn <= td -> L <= d ->
    td * td * ((wx - ux) * (wx - ux) + (wy - uy) * (wy - uy)) <= D tn td.
  Proof.
    intros tn td Htd Htn Hd. pose proof L_nonneg.
    assert (E : D tn td = td * td * ((wx - ux) * (wx - ux) + (wy - uy) * (wy - uy))
                          + 2 * td * (td - tn) * (d - L) + (td - tn) * (td - tn) * L)
      by ring.
    rewrite E.
    assert (0 <= td * (td - tn) * (d - L)) by (apply Z.mul_nonneg_nonneg; [apply Z.mul_nonneg_nonneg; lia | lia]).
    assert (0 <= (td - tn) * (td - tn) * L) by (apply Z.mul_nonneg_nonneg; [apply Z.square_nonneg | assumption]). lia.
  Qed.

  Lemma K_mid : forall tn td, td * td * (c * c) <= L * D tn td.
  Proof. intros. rewrite D_lagrange. pose proof (Z.square_nonneg (td * d - tn * L)). lia. Qed.

  (* W: the witnesses *)
  Lemma W_left : D 0 1 = wx * wx + wy * wy.
  Proof. ring. Qed.
  Lemma W_right : D 1 1 = (wx - ux) * (wx - ux) + (wy - uy) * (wy - uy).
  Proof. ring. Qed.
  Lemma W_mid : D d L = L * (c * c).
  Proof. ring. Qed.
End Algebra.

Lemma seg_within_iff : forall T p e, seg_within T p e = true <-> within_spec T p e.
Proof.
  intros T [px py] [[ax ay] [bx by_]]. unfold seg_within, within_spec, seg_d2, sub, dot, crs. cbn [fst snd].
  set (ux := bx - ax). set (uy := by_ - ay). set (wx := px - ax). set (wy := py - ay).
  replace (px - bx) with (wx - ux) by (unfold wx, ux; ring).
  replace (py - by_) with (wy - uy) by (unfold wy, uy; ring).
  pose proof (L_nonneg ux uy) as HL.
  destruct (Z.leb_spec (ux * wx + uy * wy) 0) as [Hd|Hd].
  - rewrite Z.ltb_lt. split.
    + intros H. exists 0, 1. split; [lia|]. split; [lia|]. pose proof (W_left ux uy wx wy). nia.
    + intros [tn [td [Htd [Htn H]]]]. pose proof (K_left ux uy wx wy tn td Htd Htn Hd). nia.
  - destruct (Z.leb_spec (ux * ux + uy * uy) (ux * wx + uy * wy)) as [Hd2|Hd2].
    + rewrite Z.ltb_lt. split.
      * intros H. exists 1, 1. split; [lia|]. split; [lia|]. pose proof (W_right ux uy wx wy). nia.
      * intros [tn [td [Htd [Htn H]]]]. pose proof (K_right ux uy wx wy tn td Htd Htn Hd2). nia.
    + rewrite Z.ltb_lt. split.
      * intros H. exists (ux * wx + uy * wy), (ux * ux + uy * uy). split; [lia|]. split; [lia|].
        pose proof (W_mid ux uy wx wy) as W.
        set (L := ux * ux + uy * uy) in *. set (c := ux * wy - uy * wx) in *.
        rewrite W. assert (0 < L) by lia. nia.
      * intros [tn [td [Htd [Htn H]]]]. pose proof (K_mid ux uy wx wy tn td) as K.
        set (L := ux * ux + uy * uy) in *. set (c := ux * wy - uy * wx) in *.
        assert (0 < L) by lia.
        assert (td * td * (c * c) < L * (T * td * td)) by nia.
        nia.
Qed.

Lemma seg_beyond_iff : forall T p e, seg_beyond T p e = true <-> beyond_spec T p e.
Proof.
  intros T [px py] [[ax ay] [bx by_]]. unfold seg_beyond, beyond_spec, seg_d2, sub, dot, crs. cbn [fst snd].
  set (ux := bx - ax). set (uy := by_ - ay). set (wx := px - ax). set (wy := py - ay).
  replace (px - bx) with (wx - ux) by (unfold wx, ux; ring).
  replace (py - by_) with (wy - uy) by (unfold wy, uy; ring).
  pose proof (L_nonneg ux uy) as HL.
  destruct (Z.leb_spec (ux * wx + uy * wy) 0) as [Hd|Hd].
  - rewrite Z.ltb_lt. split.
    + intros H tn td Htd Htn. pose proof (K_left ux uy wx wy tn td Htd Htn Hd).
      assert (T * td * td < td * td * (wx * wx + wy * wy)) by nia. lia.
    + intros H. specialize (H 0 1 ltac:(lia) ltac:(lia)). pose proof (W_left ux uy wx wy). nia.
  - destruct (Z.leb_spec (ux * ux + uy * uy) (ux * wx + uy * wy)) as [Hd2|Hd2].
    + rewrite Z.ltb_lt. split.
      * intros H tn td Htd Htn. pose proof (K_right ux uy wx wy tn td Htd Htn Hd2).
        assert (T * td * td < td * td * ((wx - ux) * (wx - ux) + (wy - uy) * (wy - uy))) by nia. lia.
      * intros H. specialize (H 1 1 ltac:(lia) ltac:(lia)). pose proof (W_right ux uy wx wy). nia.
    + rewrite Z.ltb_lt. split.
      * intros H tn td Htd Htn. pose proof (K_mid ux uy wx wy tn td) as K.
        set (L := ux * ux + uy * uy) in *. set (c := ux * wy - uy * wx) in *.
        assert (0 < L) by lia.
        assert (L * (T * td * td) < td * td * (c * c)) by nia.
        nia.
      * intros H. specialize (H (ux * wx + uy * wy) (ux * ux + uy * uy) ltac:(lia) ltac:(lia)).
        pose proof (W_mid ux uy wx wy) as W. rewrite W in H.
        set (L := ux * ux + uy * uy) in *. set (c := ux * wy - uy * wx) in *.
        assert (0 < L) by lia. nia.
Qed.

(* ---- the bounding-box prefilter ---- *)
Lemma convex_comb_far : forall A B R tn td,
  0 <= R -> R < A -> R < B -> 0 < td -> 0 <= tn <= td -> td * R < (td - tn) * A + tn * B.
Proof.
  intros A B R tn td HR HA HB Htd Htn.
  assert (0 <= (td - tn) * (A - R)) by (apply Z.mul_nonneg_nonneg; lia).
  assert (0 <= tn * (B - R)) by (apply Z.mul_nonneg_nonneg; lia).
  destruct (Z.eq_dec tn 0) as [->|Hne].
  - assert (0 < td * (A - R)) by (apply Z.mul_pos_pos; lia). lia.
  - assert (0 < tn * (B - R)) by (apply Z.mul_pos_pos; lia). lia.
Qed.

Lemma sq_gt : forall M X, 0 <= X -> X < M -> X * X < M * M.
Proof. intros. nia. Qed.

Lemma far_box_spec : forall R p e, 0 <= R -> far_box R p e = true ->
  forall tn td, 0 < td -> 0 <= tn <= td -> R * R * td * td < seg_d2 p (fst e) (snd e) tn td.
Proof.
  intros R [px py] [[ax ay] [bx by_]] HR F tn td Htd Htn. unfold far_box in F. unfold seg_d2. cbn [fst snd] in *.
  set (X := td * (px - ax) - tn * (bx - ax)). set (Y := td * (py - ay) - tn * (by_ - ay)).
  pose proof (Z.square_nonneg X) as HX. pose proof (Z.square_nonneg Y) as HY.
  assert (HtR : 0 <= td * R) by (apply Z.mul_nonneg_nonneg; lia).
  replace (R * R * td * td) with ((td * R) * (td * R)) by ring.
  apply orb_prop in F. destruct F as [F|F]; [apply orb_prop in F; destruct F as [F|F]; [apply orb_prop in F; destruct F as [F|F]|]|];
    apply Z.ltb_lt in F.
  - pose proof (convex_comb_far (ax - px) (bx - px) R tn td HR ltac:(lia) ltac:(lia) Htd Htn) as C.
    assert (E : X = - ((td - tn) * (ax - px) + tn * (bx - px))) by (unfold X; ring).
    pose proof (sq_gt _ _ HtR C) as S. rewrite E, Z.mul_opp_opp. lia.
  - pose proof (convex_comb_far (px - ax) (px - bx) R tn td HR ltac:(lia) ltac:(lia) Htd Htn) as C.
    assert (E : X = (td - tn) * (px - ax) + tn * (px - bx)) by (unfold X; ring).
    pose proof (sq_gt _ _ HtR C) as S. rewrite E. lia.
  - pose proof (convex_comb_far (ay - py) (by_ - py) R tn td HR ltac:(lia) ltac:(lia) Htd Htn) as C.
    assert (E : Y = - ((td - tn) * (ay - py) + tn * (by_ - py))) by (unfold Y; ring).
    pose proof (sq_gt _ _ HtR C) as S. rewrite E, Z.mul_opp_opp. lia.
  - pose proof (convex_comb_far (py - ay) (py - by_) R tn td HR ltac:(lia) ltac:(lia) Htd Htn) as C.
    assert (E : Y = (td - tn) * (py - ay) + tn * (py - by_)) by (unfold Y; ring).
    pose proof (sq_gt _ _ HtR C) as S. rewrite E. lia.
Qed.

Lemma seg_within_fast_ok : forall R T p e, 0 <= R -> T <= R * R ->
  seg_within_fast R T p e = seg_within T p e.
Proof.
  intros R T p e HR HT. unfold seg_within_fast. destruct (far_box R p e) eqn:F; [|reflexivity].
  destruct (seg_within T p e) eqn:W; [|reflexivity]. exfalso.
  apply seg_within_iff in W. destruct W as [tn [td [Htd [Htn H]]]].
  pose proof (far_box_spec R p e HR F tn td Htd Htn).
  assert (0 <= (R * R - T) * (td * td)) by (apply Z.mul_nonneg_nonneg; nia). lia.
Qed.

Lemma seg_beyond_fast_ok : forall R T p e, 0 <= R -> T <= R * R ->
  seg_beyond_fast R T p e = seg_beyond T p e.
Proof.
  intros R T p e HR HT. unfold seg_beyond_fast. destruct (far_box R p e) eqn:F; [|reflexivity].
  symmetry. apply seg_beyond_iff. intros tn td Htd Htn.
  pose proof (far_box_spec R p e HR F tn td Htd Htn).
  assert (0 <= (R * R - T) * (td * td)) by (apply Z.mul_nonneg_nonneg; nia). lia.
Qed.

Lemma rect_within_fast_ok : forall R side T p e, 0 <= R -> T <= R * R ->
  rect_within_fast R side T p e = rect_within side T p e.
Proof.
  intros R side T p e HR HT. unfold rect_within_fast. destruct (far_box R p e) eqn:F; [|reflexivity].
  destruct (rect_within side T p e) eqn:W; [|reflexivity]. exfalso.
  destruct p as [px py]. destruct e as [[ax ay] [bx by_]].
  unfold rect_within, sub, dot, crs in W. cbn [fst snd] in W.
  set (ux := bx - ax) in *. set (uy := by_ - ay) in *. set (wx := px - ax) in *. set (wy := py - ay) in *.
  apply andb_prop in W. destruct W as [W W4]. apply andb_prop in W. destruct W as [W W3].
  apply andb_prop in W. destruct W as [W1 W2].
  apply Z.ltb_lt in W1. apply Z.ltb_lt in W2. apply Z.ltb_lt in W4.
  pose proof (far_box_spec R (px, py) ((ax, ay), (bx, by_)) HR F (ux * wx + uy * wy) (ux * ux + uy * uy) ltac:(lia) ltac:(lia)) as FB.
  unfold seg_d2 in FB. cbn [fst snd] in FB. fold ux uy wx wy in FB.
  rewrite (W_mid ux uy wx wy) in FB.
  set (L := ux * ux + uy * uy) in *. set (c := ux * wy - uy * wx) in *.
  assert (0 < L) by lia.
  assert (0 <= (R * R - T) * (L * L)) by (apply Z.mul_nonneg_nonneg; nia).
  assert (L * (c * c) < L * (T * L)) by (apply Z.mul_lt_mono_pos_l; lia).
  lia.
Qed.

Lemma cross1_fast_ok : forall p e, cross1_fast p e = cross1 p e.
Proof.
  intros [px py] [[ax ay] [bx by_]]. unfold cross1_fast, cross1, orient. cbn [fst snd].
  destruct ((py <? Z.min ay by_) || (Z.max ay by_ <=? py) || (Z.max ax bx <? px)) eqn:F; [|reflexivity].
  apply orb_prop in F. destruct F as [F|F]; [apply orb_prop in F; destruct F as [F|F]|].
  - apply Z.ltb_lt in F.
    destruct (Z.leb_spec ay py); destruct (Z.ltb_spec py by_); destruct (Z.leb_spec by_ py); destruct (Z.ltb_spec py ay);
      cbn [andb]; try reflexivity; lia.
  - apply Z.leb_le in F.
    destruct (Z.leb_spec ay py); destruct (Z.ltb_spec py by_); destruct (Z.leb_spec by_ py); destruct (Z.ltb_spec py ay);
      cbn [andb]; try reflexivity; lia.
  - apply Z.ltb_lt in F.
    destruct (Z.leb_spec ay py); destruct (Z.ltb_spec py by_); cbn [andb].
    + (* upward edge, p to the right of both endpoints: orient < 0 *)
      destruct (Z.ltb_spec 0 ((bx - ax) * (py - ay) - (by_ - ay) * (px - ax))) as [Ho|Ho]; [exfalso|reflexivity].
      assert (0 < (by_ - ay) * (px - ax) - (bx - ax) * (py - ay)); [|lia].
      destruct (Z_le_gt_dec (bx - ax) 0).
      * assert ((bx - ax) * (py - ay) <= 0) by (apply Z.mul_nonpos_nonneg; lia).
        assert (0 < (by_ - ay) * (px - ax)) by (apply Z.mul_pos_pos; lia). lia.
      * assert ((bx - ax) * (py - ay) <= (px - ax) * (py - ay)) by (apply Z.mul_le_mono_nonneg_r; lia).
        assert ((px - ax) * (py - ay) < (px - ax) * (by_ - ay)) by (apply Z.mul_lt_mono_pos_l; lia). lia.
    + destruct (Z.leb_spec by_ py); destruct (Z.ltb_spec py ay); cbn [andb]; try reflexivity; lia.
    + destruct (Z.leb_spec by_ py); destruct (Z.ltb_spec py ay); cbn [andb]; try reflexivity.
      (* downward edge *)
      destruct (Z.ltb_spec ((bx - ax) * (py - ay) - (by_ - ay) * (px - ax)) 0) as [Ho|Ho]; [exfalso|reflexivity].
      assert (0 < (bx - ax) * (py - ay) - (by_ - ay) * (px - ax)); [|lia].
      (* with a' = b, b' = a this is the upward case: use px > bx *)
      assert (E : (bx - ax) * (py - ay) - (by_ - ay) * (px - ax) = (ay - by_) * (px - bx) - (ax - bx) * (py - by_)) by ring.
      rewrite E.
      destruct (Z_le_gt_dec (ax - bx) 0).
      * assert ((ax - bx) * (py - by_) <= 0) by (apply Z.mul_nonpos_nonneg; lia).
        assert (0 < (ay - by_) * (px - bx)) by (apply Z.mul_pos_pos; lia). lia.
      * assert ((ax - bx) * (py - by_) <= (px - bx) * (py - by_)) by (apply Z.mul_le_mono_nonneg_r; lia).
        assert ((px - bx) * (py - by_) < (px - bx) * (ay - by_)) by (apply Z.mul_lt_mono_pos_l; lia). lia.
    + destruct (Z.leb_spec by_ py); destruct (Z.ltb_spec py ay); cbn [andb]; try reflexivity.
      destruct (Z.ltb_spec ((bx - ax) * (py - ay) - (by_ - ay) * (px - ax)) 0) as [Ho|Ho]; [exfalso|reflexivity].
      assert (0 < (bx - ax) * (py - ay) - (by_ - ay) * (px - ax)); [|lia].
      assert (E : (bx - ax) * (py - ay) - (by_ - ay) * (px - ax) = (ay - by_) * (px - bx) - (ax - bx) * (py - by_)) by ring.
      rewrite E.
      destruct (Z_le_gt_dec (ax - bx) 0).
      * assert ((ax - bx) * (py - by_) <= 0) by (apply Z.mul_nonpos_nonneg; lia).
        assert (0 < (ay - by_) * (px - bx)) by (apply Z.mul_pos_pos; lia). lia.
      * assert ((ax - bx) * (py - by_) <= (px - bx) * (py - by_)) by (apply Z.mul_le_mono_nonneg_r; lia).
        assert ((px - bx) * (py - by_) < (px - bx) * (ay - by_)) by (apply Z.mul_lt_mono_pos_l; lia). lia.
Qed.

Lemma wind_fast_ok : forall es p, wind_fast es p = wind_edges es p.
Proof.
  intros es p. unfold wind_fast, wind_edges. f_equal. apply map_ext. intros e. apply cross1_fast_ok.
Qed.

(* ---- what the checker decides, declaratively ----
   near: some boundary point of the input is closer than r_in (round joins) /
   the sample lies in the rectangle swept by an input edge moved by < r_in to
   the given side (other joins);  far: every boundary point is farther than r_out. *)
Definition near_spec (P : oparams) (side : bool) (ein : list seg) (s : pt) : Prop :=
  exists e, In e ein /\
    (if o_round P then within_spec (o_Tin P) s e else rect_within side (o_Tin P) s e = true).
Definition far_spec (P : oparams) (ein : list seg) (s : pt) : Prop :=
  forall e, In e ein -> beyond_spec (o_Tout P) s e.

Definition must_in_spec (P : oparams) (ein : list seg) (s : pt) : Prop :=
  if o_grow P then wind_edges ein s <> 0 \/ near_spec P false ein s
  else wind_edges ein s <> 0 /\ far_spec P ein s.
Definition must_out_spec (P : oparams) (ein : list seg) (s : pt) : Prop :=
  if o_grow P then wind_edges ein s = 0 /\ far_spec P ein s
  else wind_edges ein s = 0 \/ near_spec P true ein s.

Lemma params_ok_spec : forall P, params_ok P = true ->
  0 <= o_R P /\ o_Tin P <= o_R P * o_R P /\ o_Tout P <= o_R P * o_R P.
Proof.
  intros P H. unfold params_ok in H. repeat (apply andb_prop in H; destruct H as [H ?]).
  repeat match goal with H : (_ <=? _) = true |- _ => apply Z.leb_le in H end. lia.
Qed.

Lemma near_iff : forall P side ein s, params_ok P = true ->
  (if o_round P then existsb (seg_within_fast (o_R P) (o_Tin P) s) ein
   else existsb (rect_within_fast (o_R P) side (o_Tin P) s) ein) = true <-> near_spec P side ein s.
Proof.
  intros P side ein s HP. destruct (params_ok_spec P HP) as [HR [HI HO]]. unfold near_spec.
  destruct (o_round P); rewrite existsb_exists; split; intros [e [He H]]; exists e; split; try exact He.
  - rewrite seg_within_fast_ok in H by assumption. apply seg_within_iff. exact H.
  - rewrite seg_within_fast_ok by assumption. apply seg_within_iff. exact H.
  - rewrite rect_within_fast_ok in H by assumption. exact H.
  - rewrite rect_within_fast_ok by assumption. exact H.
Qed.

Lemma far_iff : forall P ein s, params_ok P = true ->
  forallb (seg_beyond_fast (o_R P) (o_Tout P) s) ein = true <-> far_spec P ein s.
Proof.
  intros P ein s HP. destruct (params_ok_spec P HP) as [HR [HI HO]]. unfold far_spec.
  rewrite forallb_forall. split; intros H e He; specialize (H e He).
  - rewrite seg_beyond_fast_ok in H by assumption. apply seg_beyond_iff. exact H.
  - rewrite seg_beyond_fast_ok by assumption. apply seg_beyond_iff. exact H.
Qed.

Lemma must_in_iff : forall P ein s, params_ok P = true -> must_in P ein s = true <-> must_in_spec P ein s.
Proof.
  intros P ein s HP. unfold must_in, must_in_spec. rewrite wind_fast_ok.
  pose proof (near_iff P false ein s HP) as N. pose proof (far_iff P ein s HP) as F.
  destruct (o_grow P).
  - rewrite orb_true_iff, negb_true_iff, Z.eqb_neq. rewrite N. tauto.
  - rewrite andb_true_iff, negb_true_iff, Z.eqb_neq. rewrite F. tauto.
Qed.

Lemma must_out_iff : forall P ein s, params_ok P = true -> must_out P ein s = true <-> must_out_spec P ein s.
Proof.
  intros P ein s HP. unfold must_out, must_out_spec. rewrite wind_fast_ok.
  pose proof (near_iff P true ein s HP) as N. pose proof (far_iff P ein s HP) as F.
  destruct (o_grow P).
  - rewrite andb_true_iff, Z.eqb_eq. rewrite F. tauto.
  - rewrite orb_true_iff, Z.eqb_eq. rewrite N. tauto.
Qed.

Theorem offset_check_sound : forall P inp out samples,
  offset_check P inp out samples = true ->
  forall s, In s samples ->
    (wind2 out s = 0 \/ wind2 out s = 1) /\
    (must_in_spec P (all_edges inp) s -> wind2 out s = 1) /\
    (must_out_spec P (all_edges inp) s -> wind2 out s = 0).
Proof.
  intros P inp out samples C s Hs. unfold offset_check in C.
  apply andb_prop in C. destruct C as [HP C]. rewrite forallb_forall in C. specialize (C s Hs).
  unfold sample_verdict in C. rewrite wind_fast_ok, <- wind2_all_edges in C.
  apply andb_prop in C. destruct C as [C C3]. apply andb_prop in C. destruct C as [C1 C2].
  split; [|split].
  - apply orb_prop in C1. destruct C1 as [E|E]; apply Z.eqb_eq in E; [left|right]; exact E.
  - intros M. apply (must_in_iff P _ s HP) in M. rewrite M in C2. apply Z.eqb_eq. exact C2.
  - intros M. apply (must_out_iff P _ s HP) in M. rewrite M in C3. apply Z.eqb_eq. exact C3.
Qed.

(* monotonicity check *)
Theorem mono_check_sound : forall Rs Ts out1 out2 samples,
  mono_check Rs Ts out1 out2 samples = true ->
  forall s, In s samples ->
    wind2 out1 s <> 0 -> (forall e, In e (all_edges out1) -> beyond_spec Ts s e) -> wind2 out2 s <> 0.
Proof.
  intros Rs Ts out1 out2 samples C s Hs W1 B. unfold mono_check in C.
  apply andb_prop in C. destruct C as [C C3]. apply andb_prop in C. destruct C as [C1 C2].
  apply Z.leb_le in C1. apply Z.leb_le in C2.
  rewrite forallb_forall in C3. specialize (C3 s Hs).
  rewrite !wind_fast_ok, <- !wind2_all_edges in C3.
  assert (F : forallb (seg_beyond_fast Rs Ts s) (all_edges out1) = true).
  { apply forallb_forall. intros e He. rewrite seg_beyond_fast_ok by assumption. apply seg_beyond_iff. apply B. exact He. }
  rewrite F in C3. apply Z.eqb_neq in W1. rewrite W1 in C3. cbn in C3.
  apply negb_true_iff in C3. apply Z.eqb_neq in C3. exact C3.
Qed.

(* regularity check: no pair of output edges crosses transversally and deeply *)
Lemma no_deep_cross_sound : forall Ts es, no_deep_cross Ts es = true ->
  forall l1 e l2 f l3, es = l1 ++ e :: l2 ++ f :: l3 -> deep_cross Ts e f = false.
Proof.
  intros Ts es. induction es as [|a es IH]; intros C l1 e l2 f l3 E.
  - destruct l1; discriminate.
  - cbn [no_deep_cross] in C. apply andb_prop in C. destruct C as [C1 C2].
    destruct l1 as [|b l1]; cbn [app] in E; inversion E; subst.
    + rewrite forallb_forall in C1. apply negb_true_iff. apply C1. apply in_or_app. right. left. reflexivity.
    + apply (IH C2 l1 e l2 f l3 eq_refl).
Qed.
