(* C18 — lemmas about the definitions of MeasureDefs.v. *)
From Coq Require Import ZArith List Bool Lia Permutation QArith Lqa Psatz.
From MV Require Import Geo.WindingDefs Geo.Winding Geo.MeasureDefs Bvh.BvhDefs Bvh.BvhModel.
Import ListNotations.
Local Open Scope Z_scope.

(* ================================================================== 1 == *)
(* area: floor square roots bracket 2*area of every triangle *)
Lemma norm2_nonneg u : 0 <= norm2 u.
Proof. unfold norm2, dot. nia. Qed.

Lemma cross2_nonneg t : 0 <= cross2 t.
Proof. destruct t as [[a b] c]. unfold cross2. apply norm2_nonneg. Qed.

Lemma area_bracket_l t :
  Z.sqrt (cross2 t) * Z.sqrt (cross2 t) <= cross2 t < (Z.sqrt (cross2 t) + 1) * (Z.sqrt (cross2 t) + 1).
Proof. pose proof (Z.sqrt_spec (cross2 t) (cross2_nonneg t)) as H. unfold Z.succ in H. lia. Qed.

Lemma area_hi_lo tris : area_hi tris = area_lo tris + Z.of_nat (length tris).
Proof. induction tris as [|t l IH]; [reflexivity|]. cbn [area_hi area_lo fold_right length]. fold (area_hi l) (area_lo l). lia. Qed.

(* the term of GetProperty is the determinant: dot(cross(b-a,c-a),a) = det3 a b c *)
Lemma volume_term_is_det a b c : dot (cross (psub b a) (psub c a)) a = det3 a b c.
Proof. destruct a as [[ax ay] az], b as [[bx by_] bz], c as [[cx cy] cz]. unfold dot, cross, psub, det3, px, py, pz; cbn. ring. Qed.

Lemma abs_mul_le x y m : Z.abs y <= m -> Z.abs (x * y) <= Z.abs x * m.
Proof. intros H. rewrite Z.abs_mul. apply Z.mul_le_mono_nonneg_l; [apply Z.abs_nonneg|exact H]. Qed.

Lemma det_le_perm a b c : Z.abs (det3 a b c) <= perm3 a (psub b a) (psub c a).
Proof.
  rewrite <- volume_term_is_det.
  destruct a as [[ax ay] az]. remember (psub b (ax, ay, az)) as u. remember (psub c (ax, ay, az)) as v.
  destruct u as [[ux uy] uz], v as [[vx vy] vz].
  unfold dot, cross, perm3, px, py, pz; cbn [fst snd].
  assert (T : forall p q, Z.abs (p - q) <= Z.abs p + Z.abs q) by (intros; lia).
  pose proof (T (uy * vz) (uz * vy)). pose proof (T (uz * vx) (ux * vz)). pose proof (T (ux * vy) (uy * vx)).
  pose proof (abs_mul_le ax _ _ H). pose proof (abs_mul_le ay _ _ H0). pose proof (abs_mul_le az _ _ H1).
  rewrite (Z.mul_comm _ ax), (Z.mul_comm _ ay), (Z.mul_comm _ az). lia.
Qed.

Lemma vol_mag_bounds_l tris : Z.abs (volume6 tris) <= vol_mag tris.
Proof.
  induction tris as [|[[a b] c] l IH]; [cbn; lia|].
  rewrite volume6_cons. cbn [vol_mag fold_right]. fold (vol_mag l).
  pose proof (det_le_perm a b c). lia.
Qed.

(* an exactly reported volume passes, whatever the power of two *)
Lemma vol_check_exact_l tris up : 0 <= up -> vol_check tris (up * volume6 tris) up = true.
Proof.
  intros H. unfold vol_check. rewrite Z.sub_diag. cbn [Z.abs Z.mul]. apply Z.leb_le.
  pose proof (vol_mag_bounds_l tris). apply Z.mul_nonneg_nonneg; [|lia]. nia.
Qed.

(* ================================================================== 2 == *)
Lemma xmin_comm a b : xmin a b = xmin b a.
Proof. destruct a, b; cbn; try reflexivity. destruct (Z.leb_spec z z0), (Z.leb_spec z0 z); try reflexivity; f_equal; lia. Qed.
Lemma xmax_comm a b : xmax a b = xmax b a.
Proof. destruct a, b; cbn; try reflexivity. destruct (Z.leb_spec z z0), (Z.leb_spec z0 z); try reflexivity; f_equal; lia. Qed.
Lemma xmin_assoc a b c : xmin a (xmin b c) = xmin (xmin a b) c.
Proof.
  destruct a as [|x|], b as [|y|], c as [|z|]; cbn; try reflexivity;
  repeat match goal with |- context [Z.leb ?p ?q] => destruct (Z.leb_spec p q); cbn end; try reflexivity; try (f_equal; lia); try lia.
Qed.
Lemma xmax_assoc a b c : xmax a (xmax b c) = xmax (xmax a b) c.
Proof.
  destruct a as [|x|], b as [|y|], c as [|z|]; cbn; try reflexivity;
  repeat match goal with |- context [Z.leb ?p ?q] => destruct (Z.leb_spec p q); cbn end; try reflexivity; try (f_equal; lia); try lia.
Qed.
Lemma xmin_pinf a : xmin PInf a = a.  Proof. destruct a; reflexivity. Qed.
Lemma xmax_ninf a : xmax NInf a = a.  Proof. destruct a; reflexivity. Qed.

Lemma cmin_comm a b : cmin a b = cmin b a.
Proof. destruct a, b; cbn; try reflexivity. f_equal; apply xmin_comm. Qed.
Lemma cmax_comm a b : cmax a b = cmax b a.
Proof. destruct a, b; cbn; try reflexivity. f_equal; apply xmax_comm. Qed.
Lemma cmin_assoc a b c : cmin a (cmin b c) = cmin (cmin a b) c.
Proof. destruct a, b, c; cbn; try reflexivity. f_equal; apply xmin_assoc. Qed.
Lemma cmax_assoc a b c : cmax a (cmax b c) = cmax (cmax a b) c.
Proof. destruct a, b, c; cbn; try reflexivity. f_equal; apply xmax_assoc. Qed.
(* +inf / -inf are identities on everything a reduction can produce from
   them (never a tombstone by itself: cmin id VNaN = id) *)
Lemma cmin_id_l a : a <> VNaN -> cmin id_min a = a.
Proof. destruct a; [congruence|]. intros _. cbn. now rewrite !xmin_pinf. Qed.
Lemma cmax_id_l a : a <> VNaN -> cmax id_max a = a.
Proof. destruct a; [congruence|]. intros _. cbn. now rewrite !xmax_ninf. Qed.
Lemma cmin_id_nan : cmin id_min VNaN = id_min.  Proof. reflexivity. Qed.

Section Reduce.
  Variable f : vert -> vert -> vert.
  Variable init : vert.
  Hypothesis f_comm : forall a b, f a b = f b a.
  Hypothesis f_assoc : forall a b c, f a (f b c) = f (f a b) c.
  Hypothesis f_init_idem : f init init = init.

  Lemma fold_init_absorb l : f init (fold_right f init l) = fold_right f init l.
  Proof.
    induction l as [|x l IH]; cbn; [apply f_init_idem|].
    rewrite f_assoc, (f_comm init x), <- f_assoc, IH. reflexivity.
  Qed.

  Lemma fold_app_f l1 l2 : f (fold_right f init l1) (fold_right f init l2) = fold_right f init (l1 ++ l2).
  Proof.
    induction l1 as [|x l IH]; cbn; [apply fold_init_absorb|].
    rewrite <- f_assoc, IH. reflexivity.
  Qed.

  Lemma reval_fold t : f init (reval f init t) = fold_right f init (rleaves t).
  Proof.
    induction t as [v| |l IHl r IHr]; cbn [reval rleaves].
    - cbn. apply f_comm.
    - cbn. apply f_init_idem.
    - rewrite <- fold_app_f, <- IHl, <- IHr.
      rewrite (f_assoc (f init (reval f init l))), <- (f_assoc init (reval f init l) init),
              (f_comm (reval f init l) init), (f_assoc init init), f_init_idem, <- f_assoc. reflexivity.
  Qed.

  Lemma fold_perm l1 l2 : Permutation l1 l2 -> fold_right f init l1 = fold_right f init l2.
  Proof.
    induction 1; cbn; try congruence.
    rewrite !f_assoc, (f_comm y x). reflexivity.
  Qed.

  (* any reduction tree over any permutation of the vertices, with any number
     of extra copies of init, gives the sequential fold *)
  Lemma reduce_tree_any t vs : Permutation (rleaves t) vs -> reduce_tree f init t = fold_right f init vs.
  Proof. intros P. unfold reduce_tree. rewrite reval_fold. apply fold_perm, P. Qed.
End Reduce.

Lemma bbox_reduce_min_l t vs : Permutation (rleaves t) vs -> reduce_tree cmin id_min t = tight_min vs.
Proof. apply reduce_tree_any; [apply cmin_comm|apply cmin_assoc|reflexivity]. Qed.
Lemma bbox_reduce_max_l t vs : Permutation (rleaves t) vs -> reduce_tree cmax id_max t = tight_max vs.
Proof. apply reduce_tree_any; [apply cmax_comm|apply cmax_assoc|reflexivity]. Qed.

(* the fold is the tight box *)
Lemma tight_min_not_nan vs : tight_min vs <> VNaN.
Proof. induction vs as [|v l IH]; cbn; [discriminate|]. fold (tight_min l). destruct v, (tight_min l); cbn; congruence. Qed.
Lemma tight_max_not_nan vs : tight_max vs <> VNaN.
Proof. induction vs as [|v l IH]; cbn; [discriminate|]. fold (tight_max l). destruct v, (tight_max l); cbn; congruence. Qed.

Lemma xle_refl a : xle a a = true.
Proof. destruct a; cbn; try reflexivity. apply Z.leb_refl. Qed.
Lemma xle_trans a b c : xle a b = true -> xle b c = true -> xle a c = true.
Proof. destruct a, b, c; cbn; try congruence; rewrite !Z.leb_le; lia. Qed.
Lemma xmin_le_l a b : xle (xmin a b) a = true.
Proof. unfold xmin. destruct (xle a b) eqn:E; [apply xle_refl|]. destruct a, b; cbn in *; try congruence. apply Z.leb_le. apply Z.leb_gt in E. lia. Qed.
Lemma xmin_le_r a b : xle (xmin a b) b = true.
Proof. rewrite xmin_comm. apply xmin_le_l. Qed.
Lemma xmax_ge_l a b : xle a (xmax a b) = true.
Proof. unfold xmax. destruct (xle a b) eqn:E; [exact E|apply xle_refl]. Qed.
Lemma xmax_ge_r a b : xle b (xmax a b) = true.
Proof. rewrite xmax_comm. apply xmax_ge_l. Qed.
Lemma xmin_cases a b : xmin a b = a \/ xmin a b = b.
Proof. unfold xmin; destruct (xle a b); auto. Qed.
Lemma xmax_cases a b : xmax a b = a \/ xmax a b = b.
Proof. unfold xmax; destruct (xle a b); auto. Qed.

Definition vle (a b : vert) : Prop :=
  match a, b with V x y z, V x' y' z' => xle x x' = true /\ xle y y' = true /\ xle z z' = true | _, _ => False end.

Lemma tight_min_lower vs x y z : In (V x y z) vs -> vle (tight_min vs) (V x y z).
Proof.
  induction vs as [|v l IH]; [intros []|]. intros [E|I]; cbn [tight_min fold_right]; fold (tight_min l).
  - subst v. pose proof (tight_min_not_nan l). destruct (tight_min l) as [|a b c]; [congruence|].
    cbn. repeat split; apply xmin_le_l.
  - specialize (IH I). destruct (tight_min l) as [|a b c]; [destruct IH|]. destruct v as [|p q r]; [exact IH|].
    cbn in *. destruct IH as (A & B & C). repeat split; eapply xle_trans; try apply xmin_le_r; assumption.
Qed.
Lemma tight_max_upper vs x y z : In (V x y z) vs -> vle (V x y z) (tight_max vs).
Proof.
  induction vs as [|v l IH]; [intros []|]. intros [E|I]; cbn [tight_max fold_right]; fold (tight_max l).
  - subst v. pose proof (tight_max_not_nan l). destruct (tight_max l) as [|a b c]; [congruence|].
    cbn. repeat split; apply xmax_ge_l.
  - specialize (IH I). destruct (tight_max l) as [|a b c]; [destruct IH|]. destruct v as [|p q r]; [exact IH|].
    cbn in *. destruct IH as (A & B & C). repeat split; eapply xle_trans; try apply xmax_ge_r; assumption.
Qed.

(* each face of the box is touched by a (non-tombstone) vertex, or is still
   the identity when there is none *)
Lemma tight_min_attained_x vs : vx (tight_min vs) = PInf \/ exists y z, In (V (vx (tight_min vs)) y z) vs.
Proof.
  induction vs as [|v l IH]; [left; reflexivity|]. cbn [tight_min fold_right]; fold (tight_min l).
  pose proof (tight_min_not_nan l) as N. destruct (tight_min l) as [|a b c] eqn:E; [congruence|].
  destruct v as [|p q r]; cbn [cmin vx] in *.
  - destruct IH as [IH|(y & z & I)]; [left; exact IH|right; exists y, z; right; exact I].
  - destruct (xmin_cases p a) as [H|H]; rewrite H.
    + right. exists q, r. left. reflexivity.
    + destruct IH as [IH|(y & z & I)]; [left; exact IH|right; exists y, z; right; exact I].
Qed.
Lemma tight_min_attained_y vs : vy (tight_min vs) = PInf \/ exists x z, In (V x (vy (tight_min vs)) z) vs.
Proof.
  induction vs as [|v l IH]; [left; reflexivity|]. cbn [tight_min fold_right]; fold (tight_min l).
  pose proof (tight_min_not_nan l) as N. destruct (tight_min l) as [|a b c] eqn:E; [congruence|].
  destruct v as [|p q r]; cbn [cmin vy] in *.
  - destruct IH as [IH|(y & z & I)]; [left; exact IH|right; exists y, z; right; exact I].
  - destruct (xmin_cases q b) as [H|H]; rewrite H.
    + right. exists p, r. left. reflexivity.
    + destruct IH as [IH|(y & z & I)]; [left; exact IH|right; exists y, z; right; exact I].
Qed.
Lemma tight_min_attained_z vs : vz (tight_min vs) = PInf \/ exists x y, In (V x y (vz (tight_min vs))) vs.
Proof.
  induction vs as [|v l IH]; [left; reflexivity|]. cbn [tight_min fold_right]; fold (tight_min l).
  pose proof (tight_min_not_nan l) as N. destruct (tight_min l) as [|a b c] eqn:E; [congruence|].
  destruct v as [|p q r]; cbn [cmin vz] in *.
  - destruct IH as [IH|(y & z & I)]; [left; exact IH|right; exists y, z; right; exact I].
  - destruct (xmin_cases r c) as [H|H]; rewrite H.
    + right. exists p, q. left. reflexivity.
    + destruct IH as [IH|(y & z & I)]; [left; exact IH|right; exists y, z; right; exact I].
Qed.
