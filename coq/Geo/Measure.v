(* C18 — lemmas about the definitions of MeasureDefs.v. *)
From Coq Require Import ZArith List Bool Lia Permutation QArith Lqa Psatz.
From MV Require Import Geo.WindingDefs Geo.Winding Geo.MeasureDefs Bvh.BvhDefs Bvh.BvhModel.
Import ListNotations.
Local Open Scope Z_scope.

(* ================================================================== 1 == *)
(* area: floor square roots bracket 2*area of every triangle *)
Lemma norm2_nonneg u : 0 <= norm2 u.
Proof. unfold norm2, dot. nia. Qed.

Lemma cross2_nonneg t : 0 <= cross2 t.
Proof. destruct t as [[a b] c]. unfold cross2. apply norm2_nonneg. Qed.

Lemma area_bracket_l t :
  Z.sqrt (cross2 t) * Z.sqrt (cross2 t) <= cross2 t < (Z.sqrt (cross2 t) + 1) * (Z.sqrt (cross2 t) + 1).
Proof. pose proof (Z.sqrt_spec (cross2 t) (cross2_nonneg t)) as H. unfold Z.succ in H. lia. Qed.

Lemma area_hi_lo tris : area_hi tris = area_lo tris + Z.of_nat (length tris).
Proof. induction tris as [|t l IH]; [reflexivity|]. cbn [area_hi area_lo fold_right length]. fold (area_hi l) (area_lo l). lia. Qed.

(* the term of GetProperty is the determinant: dot(cross(b-a,c-a),a) = det3 a b c *)
Lemma volume_term_is_det a b c : dot (cross (psub b a) (psub c a)) a = det3 a b c.
Proof. destruct a as [[ax ay] az], b as [[bx by_] bz], c as [[cx cy] cz]. unfold dot, cross, psub, det3, px, py, pz; cbn. ring. Qed.

Lemma abs_mul_le x y m : Z.abs y <= m -> Z.abs (x * y) <= Z.abs x * m.
Proof. intros H. rewrite Z.abs_mul. apply Z.mul_le_mono_nonneg_l; [apply Z.abs_nonneg|exact H]. Qed.

Lemma det_le_perm a b c : Z.abs (det3 a b c) <= perm3 a (psub b a) (psub c a).
Proof.
  rewrite <- volume_term_is_det.
  destruct a as [[ax ay] az]. remember (psub b (ax, ay, az)) as u. remember (psub c (ax, ay, az)) as v.
  destruct u as [[ux uy] uz], v as [[vx vy] vz].
  unfold dot, cross, perm3, px, py, pz; cbn [fst snd].
  assert (K : forall x p q, Z.abs ((p - q) * x) <= Z.abs x * (Z.abs p + Z.abs q)).
  { intros x p q. rewrite Z.abs_mul, Z.mul_comm. apply Z.mul_le_mono_nonneg_l; lia. }
  eapply Z.le_trans; [apply Z.abs_triangle|]. apply Z.add_le_mono; [|apply K].
  eapply Z.le_trans; [apply Z.abs_triangle|]. apply Z.add_le_mono; apply K.
Qed.

Lemma vol_mag_bounds_l tris : Z.abs (volume6 tris) <= vol_mag tris.
Proof.
  induction tris as [|[[a b] c] l IH]; [cbn; lia|].
  rewrite volume6_cons. cbn [vol_mag fold_right]. fold (vol_mag l).
  pose proof (det_le_perm a b c). lia.
Qed.

(* an exactly reported volume passes, whatever the power of two *)
Lemma vol_check_exact_l tris up : 0 <= up -> vol_check tris (up * volume6 tris) up = true.
Proof.
  intros H. unfold vol_check. apply Z.leb_le. rewrite Z.sub_diag. change (Z.abs 0) with 0. rewrite Z.mul_0_l.
  pose proof (vol_mag_bounds_l tris). pose proof (Z.abs_nonneg (volume6 tris)).
  assert (0 <= Z.of_nat (length tris) + 16) by lia.
  repeat apply Z.mul_nonneg_nonneg; lia.
Qed.

(* ================================================================== 2 == *)
Ltac xz_solve :=
  unfold xmin, xmax, xle; cbv beta iota;
  repeat match goal with
         | |- context [Z.leb ?p ?q] => let E := fresh "E" in destruct (Z.leb p q) eqn:E; [apply Z.leb_le in E | apply Z.leb_gt in E]; cbv beta iota
         end; try reflexivity; try (f_equal; lia); try lia.
Lemma xmin_comm a b : xmin a b = xmin b a.
Proof. destruct a, b; xz_solve. Qed.
Lemma xmax_comm a b : xmax a b = xmax b a.
Proof. destruct a, b; xz_solve. Qed.
Lemma xmin_assoc a b c : xmin a (xmin b c) = xmin (xmin a b) c.
Proof. destruct a as [|x|], b as [|y|], c as [|z|]; xz_solve. Qed.
Lemma xmax_assoc a b c : xmax a (xmax b c) = xmax (xmax a b) c.
Proof. destruct a as [|x|], b as [|y|], c as [|z|]; xz_solve. Qed.
Lemma xmin_pinf a : xmin PInf a = a.  Proof. destruct a; reflexivity. Qed.
Lemma xmax_ninf a : xmax NInf a = a.  Proof. destruct a; reflexivity. Qed.

Lemma cmin_comm a b : cmin a b = cmin b a.
Proof. destruct a, b; cbn; try reflexivity. f_equal; apply xmin_comm. Qed.
Lemma cmax_comm a b : cmax a b = cmax b a.
Proof. destruct a, b; cbn; try reflexivity. f_equal; apply xmax_comm. Qed.
Lemma cmin_assoc a b c : cmin a (cmin b c) = cmin (cmin a b) c.
Proof. destruct a, b, c; cbn; try reflexivity. f_equal; apply xmin_assoc. Qed.
Lemma cmax_assoc a b c : cmax a (cmax b c) = cmax (cmax a b) c.
Proof. destruct a, b, c; cbn; try reflexivity. f_equal; apply xmax_assoc. Qed.
(* +inf / -inf are identities on everything a reduction can produce from
   them (never a tombstone by itself: cmin id VNaN = id) *)
Lemma cmin_id_l a : a <> VNaN -> cmin id_min a = a.
Proof. destruct a; [congruence|]. intros _. cbn. now rewrite ?xmin_pinf. Qed.
Lemma cmax_id_l a : a <> VNaN -> cmax id_max a = a.
Proof. destruct a; [congruence|]. intros _. cbn. now rewrite ?xmax_ninf. Qed.
Lemma cmin_id_nan : cmin id_min VNaN = id_min.  Proof. reflexivity. Qed.

Section Reduce.
  Variable f : vert -> vert -> vert.
  Variable init : vert.
  Hypothesis f_comm : forall a b, f a b = f b a.
  Hypothesis f_assoc : forall a b c, f a (f b c) = f (f a b) c.
  Hypothesis f_init_idem : f init init = init.

  Lemma fold_init_absorb l : f init (fold_right f init l) = fold_right f init l.
  Proof.
    induction l as [|x l IH]; cbn; [apply f_init_idem|].
    rewrite f_assoc, (f_comm init x), <- f_assoc, IH. reflexivity.
  Qed.

  Lemma fold_app_f l1 l2 : f (fold_right f init l1) (fold_right f init l2) = fold_right f init (l1 ++ l2).
  Proof.
    induction l1 as [|x l IH]; cbn; [apply fold_init_absorb|].
    rewrite <- f_assoc, IH. reflexivity.
  Qed.

  Lemma reval_fold t : f init (reval f init t) = fold_right f init (rleaves t).
  Proof.
    induction t as [v| |l IHl r IHr]; cbn [reval rleaves].
    - cbn. apply f_comm.
    - cbn. apply f_init_idem.
    - rewrite <- fold_app_f, <- IHl, <- IHr.
      rewrite (f_assoc (f init (reval f init l))), <- (f_assoc init (reval f init l) init),
              (f_comm (reval f init l) init), (f_assoc init init), f_init_idem, <- f_assoc. reflexivity.
  Qed.

  Lemma fold_perm l1 l2 : Permutation l1 l2 -> fold_right f init l1 = fold_right f init l2.
  Proof.
    induction 1; cbn; try congruence.
  Qed.

  (* any reduction tree over any permutation of the vertices, with any number
     of extra copies of init, gives the sequential fold *)
  Lemma reduce_tree_any t vs : Permutation (rleaves t) vs -> reduce_tree f init t = fold_right f init vs.
  Proof. intros P. unfold reduce_tree. rewrite reval_fold. apply fold_perm, P. Qed.
End Reduce.

Lemma bbox_reduce_min_l t vs : Permutation (rleaves t) vs -> reduce_tree cmin id_min t = tight_min vs.
Proof. apply reduce_tree_any; [apply cmin_comm|apply cmin_assoc|reflexivity]. Qed.
Lemma bbox_reduce_max_l t vs : Permutation (rleaves t) vs -> reduce_tree cmax id_max t = tight_max vs.
Proof. apply reduce_tree_any; [apply cmax_comm|apply cmax_assoc|reflexivity]. Qed.

(* the fold is the tight box *)
Lemma tight_min_not_nan vs : tight_min vs <> VNaN.
Proof. induction vs as [|v l IH]; cbn; [discriminate|]. fold (tight_min l). destruct v, (tight_min l); cbn; congruence. Qed.
Lemma tight_max_not_nan vs : tight_max vs <> VNaN.
Proof. induction vs as [|v l IH]; cbn; [discriminate|]. fold (tight_max l). destruct v, (tight_max l); cbn; congruence. Qed.

Lemma xle_refl a : xle a a = true.
Proof. destruct a; cbn -[Z.leb]; try reflexivity. apply Z.leb_refl. Qed.
Lemma xle_trans a b c : xle a b = true -> xle b c = true -> xle a c = true.
Proof. destruct a, b, c; cbn -[Z.leb]; try congruence; rewrite !Z.leb_le; lia. Qed.
Lemma xmin_le_l a b : xle (xmin a b) a = true.
Proof. unfold xmin. destruct (xle a b) eqn:E; [apply xle_refl|]. destruct a, b; cbn -[Z.leb] in *; try congruence. apply Z.leb_le. apply Z.leb_gt in E. lia. Qed.
Lemma xmin_le_r a b : xle (xmin a b) b = true.
Proof. rewrite xmin_comm. apply xmin_le_l. Qed.
Lemma xmax_ge_l a b : xle a (xmax a b) = true.
Proof. unfold xmax. destruct (xle a b) eqn:E; [exact E|apply xle_refl]. Qed.
Lemma xmax_ge_r a b : xle b (xmax a b) = true.
Proof. rewrite xmax_comm. apply xmax_ge_l. Qed.
Lemma xmin_cases a b : xmin a b = a \/ xmin a b = b.
Proof. unfold xmin; destruct (xle a b); auto. Qed.
Lemma xmax_cases a b : xmax a b = a \/ xmax a b = b.
Proof. unfold xmax; destruct (xle a b); auto. Qed.

Definition vle (a b : vert) : Prop :=
  match a, b with V x y z, V x' y' z' => xle x x' = true /\ xle y y' = true /\ xle z z' = true | _, _ => False end.

Lemma tight_min_lower vs x y z : In (V x y z) vs -> vle (tight_min vs) (V x y z).
Proof.
  induction vs as [|v l IH]; [intros []|]. intros [E|I]; cbn [tight_min fold_right]; fold (tight_min l).
  - subst v. pose proof (tight_min_not_nan l). destruct (tight_min l) as [|a b c]; [congruence|].
    cbn. repeat split; apply xmin_le_l.
  - specialize (IH I). destruct (tight_min l) as [|a b c]; [destruct IH|]. destruct v as [|p q r]; [exact IH|].
    cbn in *. destruct IH as (A & B & C). repeat split; (eapply xle_trans; [apply xmin_le_r|eassumption]).
Qed.
Lemma tight_max_upper vs x y z : In (V x y z) vs -> vle (V x y z) (tight_max vs).
Proof.
  induction vs as [|v l IH]; [intros []|]. intros [E|I]; cbn [tight_max fold_right]; fold (tight_max l).
  - subst v. pose proof (tight_max_not_nan l). destruct (tight_max l) as [|a b c]; [congruence|].
    cbn. repeat split; apply xmax_ge_l.
  - specialize (IH I). destruct (tight_max l) as [|a b c]; [destruct IH|]. destruct v as [|p q r]; [exact IH|].
    cbn in *. destruct IH as (A & B & C). repeat split; (eapply xle_trans; [eassumption|apply xmax_ge_r]).
Qed.

(* each face of the box is touched by a (non-tombstone) vertex, or is still
   the identity when there is none *)
Lemma tight_min_attained_x vs : vx (tight_min vs) = PInf \/ exists y z, In (V (vx (tight_min vs)) y z) vs.
Proof.
  induction vs as [|v l IH]; [left; reflexivity|]. cbn [tight_min fold_right]; fold (tight_min l).
  pose proof (tight_min_not_nan l) as N. destruct (tight_min l) as [|a b c] eqn:E; [congruence|].
  destruct v as [|p q r]; cbn [cmin vx] in *.
  - destruct IH as [IH|(y & z & I)]; [left; exact IH|right; exists y, z; right; exact I].
  - destruct (xmin_cases p a) as [H|H]; rewrite H.
    + right. exists q, r. left. reflexivity.
    + destruct IH as [IH|(y & z & I)]; [left; exact IH|right; exists y, z; right; exact I].
Qed.
Lemma tight_min_attained_y vs : vy (tight_min vs) = PInf \/ exists x z, In (V x (vy (tight_min vs)) z) vs.
Proof.
  induction vs as [|v l IH]; [left; reflexivity|]. cbn [tight_min fold_right]; fold (tight_min l).
  pose proof (tight_min_not_nan l) as N. destruct (tight_min l) as [|a b c] eqn:E; [congruence|].
  destruct v as [|p q r]; cbn [cmin vy] in *.
  - destruct IH as [IH|(y & z & I)]; [left; exact IH|right; exists y, z; right; exact I].
  - destruct (xmin_cases q b) as [H|H]; rewrite H.
    + right. exists p, r. left. reflexivity.
    + destruct IH as [IH|(y & z & I)]; [left; exact IH|right; exists y, z; right; exact I].
Qed.
Lemma tight_min_attained_z vs : vz (tight_min vs) = PInf \/ exists x y, In (V x y (vz (tight_min vs))) vs.
Proof.
  induction vs as [|v l IH]; [left; reflexivity|]. cbn [tight_min fold_right]; fold (tight_min l).
  pose proof (tight_min_not_nan l) as N. destruct (tight_min l) as [|a b c] eqn:E; [congruence|].
  destruct v as [|p q r]; cbn [cmin vz] in *.
  - destruct IH as [IH|(y & z & I)]; [left; exact IH|right; exists y, z; right; exact I].
  - destruct (xmin_cases r c) as [H|H]; rewrite H.
    + right. exists p, q. left. reflexivity.
    + destruct IH as [IH|(y & z & I)]; [left; exact IH|right; exists y, z; right; exact I].
Qed.

(* ================================================================== 3 == *)
(* one coordinate: rational points P/w in [lo1,hi1] and Q/w' in [lo2,hi2]
   closer than L force the intervals, one inflated by L, to overlap *)
Lemma close_1d w w' L lo1 hi1 lo2 hi2 P Q :
  0 < w -> 0 < w' -> 0 <= L ->
  w * lo1 <= P <= w * hi1 -> w' * lo2 <= Q <= w' * hi2 ->
  (w' * P - w * Q) * (w' * P - w * Q) < (L * (w * w')) * (L * (w * w')) ->
  lo1 <= hi2 + L /\ lo2 - L <= hi1.
Proof.
  intros Hw Hw' HL [A1 A2] [B1 B2] D.
  assert (W : 0 < w * w') by nia.
  assert (S : forall d, 0 <= L * (w * w') <= d -> (L * (w * w')) * (L * (w * w')) <= d * d) by (intros; nia).
  split.
  - destruct (Z_le_gt_dec lo1 (hi2 + L)) as [|G]; [assumption|exfalso].
    assert (L * (w * w') <= w' * P - w * Q) by nia.
    specialize (S (w' * P - w * Q)). nia.
  - destruct (Z_le_gt_dec (lo2 - L) hi1) as [|G]; [assumption|exfalso].
    assert (L * (w * w') <= w * Q - w' * P) by nia.
    specialize (S (w * Q - w' * P)). nia.
Qed.

Definition hdiff (P : pt) (w : Z) (Q : pt) (w' : Z) : pt :=
  (w' * px P - w * px Q, w' * py P - w * py Q, w' * pz P - w * pz Q).

Lemma sq_le_norm2 x y z : x * x <= x * x + y * y + z * z /\ y * y <= x * x + y * y + z * z /\ z * z <= x * x + y * y + z * z.
Proof. nia. Qed.

(* if the triangles' boxes b1, b2 contain points P/w and Q/w' closer than L,
   box b2 inflated by L overlaps b1: the collider query of MinGap reports the pair *)
Lemma mingap_candidates_complete_l b1 b2 P w Q w' L :
  0 < w -> 0 < w' -> 0 <= L ->
  in_box_h b1 P w -> in_box_h b2 Q w' ->
  norm2 (hdiff P w Q w') < (L * (w * w')) * (L * (w * w')) ->
  overlap b1 (inflate b2 L) = true.
Proof.
  intros Hw Hw' HL (X1 & Y1 & Z1) (X2 & Y2 & Z2) D.
  unfold norm2, dot, hdiff in D; cbn [px py pz fst snd] in D.
  destruct (sq_le_norm2 (w' * px P - w * px Q) (w' * py P - w * py Q) (w' * pz P - w * pz Q)) as (SX & SY & SZ).
  destruct (close_1d w w' L _ _ _ _ _ _ Hw Hw' HL X1 X2) as [ax bx]; [lia|].
  destruct (close_1d w w' L _ _ _ _ _ _ Hw Hw' HL Y1 Y2) as [ay by_]; [lia|].
  destruct (close_1d w w' L _ _ _ _ _ _ Hw Hw' HL Z1 Z2) as [az bz]; [lia|].
  unfold overlap, inflate; cbn [bminx bminy bminz bmaxx bmaxy bmaxz].
  rewrite !andb_true_iff, !Z.geb_leb, !Z.leb_le. lia.
Qed.

(* points of a triangle lie in its box *)
Lemma comb1 l1 l2 l3 a b c w :
  0 <= l1 -> 0 <= l2 -> 0 <= l3 -> l1 + l2 + l3 = w ->
  w * min3 a b c <= l1 * a + l2 * b + l3 * c <= w * max3 a b c.
Proof.
  intros. subst w. unfold min3, max3.
  assert (Z.min a (Z.min b c) <= a /\ Z.min a (Z.min b c) <= b /\ Z.min a (Z.min b c) <= c) by lia.
  assert (a <= Z.max a (Z.max b c) /\ b <= Z.max a (Z.max b c) /\ c <= Z.max a (Z.max b c)) by lia.
  generalize dependent (Z.min a (Z.min b c)). generalize dependent (Z.max a (Z.max b c)). intros; nia.
Qed.

Lemma comb_in_box t l w : weights_ok l w -> in_box_h (tri_box t) (comb t l) w.
Proof.
  destruct t as [[a b] c]. intros (A & B & C & S & W).
  unfold in_box_h, tri_box, comb; cbn [bminx bminy bminz bmaxx bmaxy bmaxz px py pz fst snd].
  repeat split; apply comb1; assumption.
Qed.

(* the squared box gap is a lower bound of the squared distance (pruning rule
   of the brute-force minimum) *)
Lemma gap_1d w w' lo1 hi1 lo2 hi2 P Q :
  0 < w -> 0 < w' -> w * lo1 <= P <= w * hi1 -> w' * lo2 <= Q <= w' * hi2 ->
  (gap1 lo1 hi1 lo2 hi2 * (w * w')) * (gap1 lo1 hi1 lo2 hi2 * (w * w')) <= (w' * P - w * Q) * (w' * P - w * Q).
Proof.
  intros Hw Hw' [A1 A2] [B1 B2]. unfold gap1.
  assert (W : 0 < w * w') by nia.
  assert (SQ : forall g d, 0 <= g <= d -> g * g <= d * d) by (intros; nia).
  destruct (Z_lt_le_dec 0 (lo1 - hi2)) as [G1|G1]; destruct (Z_lt_le_dec 0 (lo2 - hi1)) as [G2|G2].
  - exfalso. nia.
  - replace (Z.max 0 (Z.max (lo2 - hi1) (lo1 - hi2))) with (lo1 - hi2) by lia.
    apply SQ. split; [nia|]. 
    assert (w' * (w * lo1) <= w' * P) by (apply Z.mul_le_mono_nonneg_l; lia).
    assert (w * Q <= w * (w' * hi2)) by (apply Z.mul_le_mono_nonneg_l; lia).
    replace ((lo1 - hi2) * (w * w')) with (w' * (w * lo1) - w * (w' * hi2)) by ring. lia.
  - replace (Z.max 0 (Z.max (lo2 - hi1) (lo1 - hi2))) with (lo2 - hi1) by lia.
    replace ((w' * P - w * Q) * (w' * P - w * Q)) with ((w * Q - w' * P) * (w * Q - w' * P)) by ring.
    apply SQ. split; [nia|].
    assert (w' * P <= w' * (w * hi1)) by (apply Z.mul_le_mono_nonneg_l; lia).
    assert (w * (w' * lo2) <= w * Q) by (apply Z.mul_le_mono_nonneg_l; lia).
    replace ((lo2 - hi1) * (w * w')) with (w * (w' * lo2) - w' * (w * hi1)) by ring. lia.
  - replace (Z.max 0 (Z.max (lo2 - hi1) (lo1 - hi2))) with 0 by lia. rewrite !Z.mul_0_l. apply Z.square_nonneg.
Qed.

Lemma box_gap2_lower_l b1 b2 P w Q w' :
  0 < w -> 0 < w' -> in_box_h b1 P w -> in_box_h b2 Q w' ->
  box_gap2 b1 b2 * ((w * w') * (w * w')) <= norm2 (hdiff P w Q w').
Proof.
  intros Hw Hw' (X1 & Y1 & Z1) (X2 & Y2 & Z2).
  pose proof (gap_1d w w' _ _ _ _ _ _ Hw Hw' X1 X2).
  pose proof (gap_1d w w' _ _ _ _ _ _ Hw Hw' Y1 Y2).
  pose proof (gap_1d w w' _ _ _ _ _ _ Hw Hw' Z1 Z2).
  unfold box_gap2, norm2, dot, hdiff; cbn [px py pz fst snd]. 
  generalize dependent (gap1 (bminx b1) (bmaxx b1) (bminx b2) (bmaxx b2)).
  generalize dependent (gap1 (bminy b1) (bmaxy b1) (bminy b2) (bmaxy b2)).
  generalize dependent (gap1 (bminz b1) (bmaxz b1) (bminz b2) (bmaxz b2)). intros. nia.
Qed.

(* ---- exact triangle distance ------------------------------------------- *)
Local Open Scope Q_scope.

Lemma qdot_self_nonneg v : 0 <= qdot v v.
Proof. destruct v as [[x y] z]. unfold qdot, qx, qy, qz; cbn [fst snd]. nra. Qed.
Lemma qd2_nonneg a b : 0 <= qd2 a b.
Proof. apply qdot_self_nonneg. Qed.

Lemma bvalidb_ok w : bvalidb w = true -> bvalid w.
Proof. unfold bvalidb, bvalid. rewrite !andb_true_iff, !Qle_bool_iff, Qeq_bool_iff. tauto. Qed.

Lemma d2_identity (a1 a2 a3 b1 b2 b3 x y : qpt) (l1 l2 l3 m1 m2 m3 : Q) :
  qd2 (bpoint (a1, a2, a3) (l1, l2, l3)) (bpoint (b1, b2, b3) (m1, m2, m3)) ==
  qd2 x y
  + 2 * ((l1 * qdot (qsub x y) (qsub a1 x) + l2 * qdot (qsub x y) (qsub a2 x) + l3 * qdot (qsub x y) (qsub a3 x)
          + (l1 + l2 + l3 - 1) * qdot (qsub x y) x)
       - (m1 * qdot (qsub x y) (qsub b1 y) + m2 * qdot (qsub x y) (qsub b2 y) + m3 * qdot (qsub x y) (qsub b3 y)
          + (m1 + m2 + m3 - 1) * qdot (qsub x y) y))
  + qd2 (qsub (bpoint (a1, a2, a3) (l1, l2, l3)) (bpoint (b1, b2, b3) (m1, m2, m3))) (qsub x y).
Proof.
  destruct a1 as [[a1x a1y] a1z], a2 as [[a2x a2y] a2z], a3 as [[a3x a3y] a3z],
           b1 as [[b1x b1y] b1z], b2 as [[b2x b2y] b2z], b3 as [[b3x b3y] b3z],
           x as [[xx xy] xz], y as [[yx yy] yz].
  unfold qd2, qdot, qsub, bpoint, qx, qy, qz; cbn [fst snd]. ring.
Qed.

(* first-order optimality: the certificate makes (x,y) a global minimiser *)
Lemma cert_lower t1 t2 c u1 u2 :
  certificate t1 t2 c = true -> bvalid u1 -> bvalid u2 ->
  qd2 (bpoint t1 (fst c)) (bpoint t2 (snd c)) <= qd2 (bpoint t1 u1) (bpoint t2 u2).
Proof.
  destruct t1 as [[a1 a2] a3], t2 as [[b1 b2] b3], u1 as [[l1 l2] l3], u2 as [[m1 m2] m3].
  unfold certificate. set (x := bpoint (a1, a2, a3) (fst c)). set (y := bpoint (b1, b2, b3) (snd c)).
  cbn [forallb idx3 tv]. rewrite !andb_true_iff, !Qle_bool_iff.
  intros [(S1 & S2 & S3 & _) (R1 & R2 & R3 & _)] (L1 & L2 & L3 & LS) (M1 & M2 & M3 & MS).
  unfold qx, qy, qz in L1, L2, L3, LS, M1, M2, M3, MS; cbn [fst snd] in L1, L2, L3, LS, M1, M2, M3, MS.
  rewrite (d2_identity a1 a2 a3 b1 b2 b3 x y l1 l2 l3 m1 m2 m3).
  pose proof (qd2_nonneg (qsub (bpoint (a1, a2, a3) (l1, l2, l3)) (bpoint (b1, b2, b3) (m1, m2, m3))) (qsub x y)) as N.
  assert (ZL : (l1 + l2 + l3 - 1) * qdot (qsub x y) x == 0) by (rewrite LS; ring).
  assert (ZM : (m1 + m2 + m3 - 1) * qdot (qsub x y) y == 0) by (rewrite MS; ring).
  pose proof (Qmult_le_0_compat _ _ L1 S1) as P1. pose proof (Qmult_le_0_compat _ _ L2 S2) as P2.
  pose proof (Qmult_le_0_compat _ _ L3 S3) as P3.
  assert (Q1 : m1 * qdot (qsub x y) (qsub b1 y) <= 0) by (rewrite <- (Qmult_0_r m1); apply Qmult_le_l' || nra).
  assert (Q2 : m2 * qdot (qsub x y) (qsub b2 y) <= 0) by nra.
  assert (Q3 : m3 * qdot (qsub x y) (qsub b3 y) <= 0) by nra.
  revert N ZL ZM P1 P2 P3 Q1 Q2 Q3.
  generalize (qd2 (qsub (bpoint (a1, a2, a3) (l1, l2, l3)) (bpoint (b1, b2, b3) (m1, m2, m3))) (qsub x y)).
  generalize (qd2 x y).
  generalize ((l1 + l2 + l3 - 1) * qdot (qsub x y) x) ((m1 + m2 + m3 - 1) * qdot (qsub x y) y).
  generalize (l1 * qdot (qsub x y) (qsub a1 x)) (l2 * qdot (qsub x y) (qsub a2 x)) (l3 * qdot (qsub x y) (qsub a3 x)).
  generalize (m1 * qdot (qsub x y) (qsub b1 y)) (m2 * qdot (qsub x y) (qsub b2 y)) (m3 * qdot (qsub x y) (qsub b3 y)).
  intros. lra.
Qed.

Lemma best_inv t1 t2 cs acc :
  fst acc == qd2 (bpoint t1 (fst (snd acc))) (bpoint t2 (snd (snd acc))) ->
  fst (best t1 t2 cs acc) == qd2 (bpoint t1 (fst (snd (best t1 t2 cs acc)))) (bpoint t2 (snd (snd (best t1 t2 cs acc)))).
Proof.
  revert acc. induction cs as [|c cs IH]; intros acc H; [exact H|].
  cbn [best]. destruct (Qle_bool (fst acc) (cand_d2 t1 t2 c)); apply IH; [exact H|].
  cbn [fst snd]. unfold cand_d2. apply Qred_correct.
Qed.

(* tri_dist2 returns the exact squared distance: it is attained by a pair of
   points of the two triangles and no pair of points is closer *)
Lemma tri_dist2_gen_exact gen t1 t2 d w1 w2 :
  tri_dist2_gen gen t1 t2 = Some (d, (w1, w2)) ->
  bvalid w1 /\ bvalid w2 /\ d == qd2 (bpoint t1 w1) (bpoint t2 w2) /\
  forall u1 u2, bvalid u1 -> bvalid u2 -> d <= qd2 (bpoint t1 u1) (bpoint t2 u2).
Proof.
  unfold tri_dist2_gen.
  set (c0 := (on_vert 0, on_vert 0)).
  pose proof (best_inv t1 t2 (gen t1 t2) (cand_d2 t1 t2 c0, c0)) as B.
  specialize (B (Qred_correct _)).
  destruct (best t1 t2 (gen t1 t2) (cand_d2 t1 t2 c0, c0)) as [d' [w1' w2']].
  cbn [fst snd] in *.
  destruct (bvalidb w1' && bvalidb w2' && certificate t1 t2 (w1', w2')) eqn:E; [|discriminate].
  intros H; injection H as -> -> ->.
  rewrite !andb_true_iff in E. destruct E as [[V1 V2] C].
  split; [apply bvalidb_ok; assumption|]. split; [apply bvalidb_ok; assumption|]. split; [exact B|].
  intros u1 u2 U1 U2. rewrite B. apply (cert_lower t1 t2 (w1, w2) u1 u2 C U1 U2).
Qed.

Lemma tri_dist2_exact_l t1 t2 d w1 w2 :
  tri_dist2 t1 t2 = Some (d, (w1, w2)) ->
  bvalid w1 /\ bvalid w2 /\ d == qd2 (bpoint t1 w1) (bpoint t2 w2) /\
  forall u1 u2, bvalid u1 -> bvalid u2 -> d <= qd2 (bpoint t1 u1) (bpoint t2 u2).
Proof. apply tri_dist2_gen_exact. Qed.

(* point-triangle distance: d is the exact squared distance from p to t *)
Lemma pt_tri_dist2_exact_l p t d :
  pt_tri_dist2 p t = Some d ->
  (exists w, bvalid w /\ d == qd2 (qpt_of p) (bpoint (qtri_of t) w)) /\
  forall u, bvalid u -> d <= qd2 (qpt_of p) (bpoint (qtri_of t) u).
Proof.
  unfold pt_tri_dist2. destruct (tri_dist2_gen cand_pt (qtri_of (p, p, p)) (qtri_of t)) as [[d' [w1 w2]]|] eqn:E; [|discriminate].
  intros H; injection H as ->. destruct (tri_dist2_gen_exact _ _ _ _ _ _ E) as (V1 & V2 & D & L).
  assert (P : forall w, bvalid w -> qd2 (bpoint (qtri_of (p, p, p)) w) (bpoint (qtri_of t) w2) == qd2 (qpt_of p) (bpoint (qtri_of t) w2)
                                 /\ forall u, qd2 (bpoint (qtri_of (p, p, p)) w) (bpoint (qtri_of t) u) == qd2 (qpt_of p) (bpoint (qtri_of t) u)).
  { intros [[a b] c] (_ & _ & _ & S). unfold qx, qy, qz in S; cbn [fst snd] in S.
    assert (G : forall y, qd2 (bpoint (qtri_of (p, p, p)) (a, b, c)) y == qd2 (qpt_of p) y).
    { intros [[y1 y2] y3]. destruct p as [[p1 p2] p3]. unfold qd2, qdot, qsub, bpoint, qtri_of, qpt_of, qx, qy, qz, px, py, pz; cbn [fst snd].
      setoid_replace c with (1 - a - b) by (rewrite <- S; ring). ring. }
    split; [apply G|intros; apply G]. }
  split.
  - exists w2. split; [exact V2|]. rewrite D. apply (P w1 V1).
  - intros u U. specialize (L (1, 0, 0) u). 
    assert (V0 : bvalid (1, 0, 0)) by (unfold bvalid, qx, qy, qz; cbn [fst snd]; repeat split; lra).
    specialize (L V0 U). rewrite (proj2 (P (1,0,0) V0) u) in L. exact L.
Qed.

Lemma tri_dist2_zero_l t1 t2 d w u1 u2 :
  tri_dist2 t1 t2 = Some (d, w) -> bvalid u1 -> bvalid u2 ->
  qd2 (bpoint t1 u1) (bpoint t2 u2) == 0 -> d == 0.
Proof.
  destruct w as [w1 w2]. intros H U1 U2 Z.
  destruct (tri_dist2_exact_l _ _ _ _ _ H) as (_ & _ & E & L).
  specialize (L u1 u2 U1 U2). rewrite Z in L. pose proof (qd2_nonneg (bpoint t1 w1) (bpoint t2 w2)). rewrite <- E in H0. lra.
Qed.
Local Close Scope Q_scope.

(* with C14: the traversal reports every close pair *)
Local Open Scope Z_scope.
Lemma mingap_no_pair_missed_l children bbox n (tris : Z -> tri) t2 L qi :
    wf_check children bbox n = true ->
    (forall i, 0 <= i < n -> bbox (leaf2node i) = tri_box (tris i)) ->
    0 <= L ->
    exists res, find_collision children bbox false (fun b => overlap b (inflate (tri_box t2) L)) qi (Z.to_nat (2 * n)) = Some res /\
      forall i l1 w1 l2 w2, 0 <= i < n -> weights_ok l1 w1 -> weights_ok l2 w2 ->
        norm2 (hdiff (comb (tris i) l1) w1 (comb t2 l2) w2) < (L * (w1 * w2)) * (L * (w1 * w2)) -> In i res.
Proof.
  intros W B HL.
  destruct (wf_check_collisions_exact children bbox n false (fun b => overlap b (inflate (tri_box t2) L)) qi
              (fun a b => overlap_union_l a b _) (fun a b => overlap_union_r a b _) W) as (res & F & _ & I).
  exists res. split; [exact F|]. intros i l1 w1 l2 w2 Hi H1 H2 D. apply I. split; [exact Hi|]. split.
  - rewrite (B i Hi).
    apply (mingap_candidates_complete_l (tri_box (tris i)) (tri_box t2) (comb (tris i) l1) w1 (comb t2 l2) w2 L);
      try assumption; try (apply comb_in_box; assumption).
    + apply H1. + apply H2.
  - intros [X _]. discriminate.
Qed.

(* ================================================================== 4 == *)
Lemma conn_incl es es' x y : (forall e, In e es -> In e es') -> conn es x y -> conn es' x y.
Proof.
  intros H C. induction C.
  - apply conn_refl. - apply conn_edge; auto. - apply conn_sym; auto. - eapply conn_trans; eauto.
Qed.

(* adding one edge (a,b): the new relation in terms of the old one *)
Lemma conn_add_edge es a b x y :
  conn ((a, b) :: es) x y <->
  conn es x y \/ (conn es x a /\ conn es b y) \/ (conn es x b /\ conn es a y).
Proof.
  split.
  - intros C. induction C as [x|p q I|x y C IH|x y z C1 IH1 C2 IH2].
    + left. apply conn_refl.
    + destruct I as [E|I]; [injection E as <- <-; right; left; split; apply conn_refl|left; apply conn_edge; exact I].
    + destruct IH as [H|[[H1 H2]|[H1 H2]]].
      * left. apply conn_sym, H.
      * right; right. split; apply conn_sym; assumption.
      * right; left. split; apply conn_sym; assumption.
    + assert (T := conn_trans es). assert (S := conn_sym es).
      destruct IH1 as [H|[[H1 H2]|[H1 H2]]], IH2 as [K|[[K1 K2]|[K1 K2]]]; eauto 7.
  - assert (I : forall u v, conn es u v -> conn ((a, b) :: es) u v) by (intros; eapply conn_incl; [|eassumption]; intros; right; assumption).
    assert (AB : conn ((a, b) :: es) a b) by (apply conn_edge; left; reflexivity).
    intros [H|[[H1 H2]|[H1 H2]]].
    + apply I, H.
    + eapply conn_trans; [apply I, H1|]. eapply conn_trans; [exact AB|apply I, H2].
    + eapply conn_trans; [apply I, H1|]. eapply conn_trans; [apply conn_sym, AB|apply I, H2].
Qed.

Definition in_range (n : nat) (v : Z) : Prop := 0 <= v < Z.of_nat n.

Lemma lab_map g l v : in_range (length l) v -> lab (map g l) v = g (lab l v).
Proof.
  intros [H1 H2]. unfold lab. rewrite (nth_indep _ (-1) (g (-1))) by (rewrite map_length; lia). apply map_nth.
Qed.

Lemma unite_length l a b : length (unite l a b) = length l.
Proof. unfold unite. destruct (lab l a =? lab l b); [reflexivity|apply map_length]. Qed.

Lemma lab_unite l a b v : in_range (length l) v ->
  lab (unite l a b) v = if lab l v =? lab l a then lab l b else lab l v.
Proof.
  intros R. unfold unite. destruct (lab l a =? lab l b) eqn:E.
  - apply Z.eqb_eq in E. destruct (lab l v =? lab l a) eqn:F; [apply Z.eqb_eq in F; congruence|reflexivity].
  - rewrite (lab_map _ l v R). reflexivity.
Qed.

Lemma lab_init n v : in_range n v -> lab (init_labels n) v = v.
Proof.
  intros [H1 H2]. unfold lab, init_labels.
  rewrite (nth_indep _ (-1) (Z.of_nat 0)) by (rewrite map_length, seq_length; lia).
  rewrite map_nth, seq_nth by lia. lia.
Qed.

Definition uf_inv (n : nat) (l : labels) (es : list (Z * Z)) : Prop :=
  length l = n /\ forall u v, in_range n u -> in_range n v -> (lab l u = lab l v <-> conn es u v).

Lemma conn_in_range n es x y : (forall a b, In (a, b) es -> in_range n a /\ in_range n b) ->
  conn es x y -> x = y \/ (in_range n x /\ in_range n y).
Proof.
  intros R C. induction C as [x|p q I|x y C IH|x y z C1 IH1 C2 IH2].
  - left; reflexivity.
  - right. apply R, I.
  - destruct IH as [->|[? ?]]; auto.
  - destruct IH1 as [->|[? ?]], IH2 as [->|[? ?]]; auto.
Qed.

Lemma conn_nil x y : conn [] x y -> x = y.
Proof. intros C. induction C as [x|p q I|x y C IH|x y z C1 IH1 C2 IH2]; try congruence. destruct I. Qed.

Lemma uf_step n l es a b : in_range n a -> in_range n b -> uf_inv n l es -> uf_inv n (unite l a b) ((a, b) :: es).
Proof.
  intros Ra Rb [L I]. split; [rewrite unite_length; exact L|].
  intros u v Ru Rv. rewrite conn_add_edge.
  rewrite !lab_unite by (rewrite L; assumption).
  rewrite <- (I u v Ru Rv), <- (I u a Ru Ra), <- (I b v Rb Rv), <- (I u b Ru Rb), <- (I a v Ra Rv).
  destruct (Z.eqb_spec (lab l u) (lab l a)), (Z.eqb_spec (lab l v) (lab l a)); split; intros; try lia;
    repeat match goal with H : _ \/ _ |- _ => destruct H | H : _ /\ _ |- _ => destruct H end; try lia; try congruence.
Qed.

Lemma uf_fold n es : forall l done,
  (forall a b, In (a, b) es -> in_range n a /\ in_range n b) ->
  uf_inv n l done -> uf_inv n (fold_left (fun l e => unite l (fst e) (snd e)) es l) (rev es ++ done).
Proof.
  induction es as [|[a b] es IH]; intros l done R I; [exact I|].
  cbn [fold_left rev fst snd]. rewrite <- app_assoc. cbn [app].
  apply IH; [intros; apply R; right; assumption|].
  destruct (R a b (or_introl eq_refl)). apply uf_step; assumption.
Qed.

(* the labels computed by the union-find over the edge list are exactly the
   connected components of the edge graph *)
Lemma uf_edges_conn n es u v :
  (forall a b, In (a, b) es -> in_range n a /\ in_range n b) -> in_range n u -> in_range n v ->
  (lab (uf_edges n es) u = lab (uf_edges n es) v <-> conn es u v).
Proof.
  intros R Ru Rv. unfold uf_edges.
  assert (I0 : uf_inv n (init_labels n) []).
  { split; [unfold init_labels; rewrite map_length, seq_length; reflexivity|].
    intros x y Rx Ry. rewrite !lab_init by assumption. split; [intros ->; apply conn_refl|].
    intros C. apply conn_nil in C. congruence. }
  destruct (uf_fold n es _ _ R I0) as [_ I]. rewrite (I u v Ru Rv). rewrite app_nil_r.
  split; apply conn_incl; intros e; rewrite <- in_rev; auto.
Qed.

(* the three corners of a face carry the same label *)
Lemma face_label_uniform n ts a b c :
  (forall p q, In (p, q) (mesh_edges ts) -> in_range n p /\ in_range n q) -> In (a, b, c) ts ->
  lab (uf_edges n (mesh_edges ts)) a = lab (uf_edges n (mesh_edges ts)) b /\
  lab (uf_edges n (mesh_edges ts)) b = lab (uf_edges n (mesh_edges ts)) c.
Proof.
  intros R I.
  assert (E : forall p q, In (p, q) (itri_edges (a, b, c)) -> In (p, q) (mesh_edges ts)).
  { intros p q H. unfold mesh_edges. apply in_flat_map. exists (a, b, c). split; assumption. }
  assert (Eab := E a b (or_introl eq_refl)). assert (Ebc := E b c (or_intror (or_introl eq_refl))).
  destruct (R _ _ Eab), (R _ _ Ebc).
  split; apply uf_edges_conn; try assumption; apply conn_edge; assumption.
Qed.

(* faces are partitioned and volume6 is additive over the partition *)
Lemma dedup_in l x : In x (dedup l) <-> In x l.
Proof.
  induction l as [|y l IH]; [reflexivity|]. cbn [dedup]. destruct (existsb (Z.eqb y) l) eqn:E.
  - rewrite IH. split; [right; assumption|]. intros [->|H]; [|exact H].
    apply existsb_exists in E. destruct E as (z & Hz & Ez). apply Z.eqb_eq in Ez. subst z. exact Hz.
  - cbn [In]. rewrite IH. reflexivity.
Qed.
Lemma dedup_nodup l : NoDup (dedup l).
Proof.
  induction l as [|y l IH]; [constructor|]. cbn [dedup]. destruct (existsb (Z.eqb y) l) eqn:E; [exact IH|].
  constructor; [|exact IH]. rewrite dedup_in. intros H.
  assert (existsb (Z.eqb y) l = true) by (apply existsb_exists; exists y; split; [exact H|apply Z.eqb_refl]). congruence.
Qed.

Section Partition.
  Variable key : itri -> Z.
  Variable F : itri -> Z.
  Definition Fsum (l : list itri) : Z := fold_right (fun t acc => F t + acc) 0 l.
  Definition part (ts : list itri) (c : Z) := filter (fun t => key t =? c) ts.

  Lemma sum_indicator cs x v : NoDup cs -> In x cs ->
    fold_right (fun c acc => (if x =? c then v else 0) + acc) 0 cs = v.
  Proof.
    induction cs as [|c cs IH]; [intros _ []|]. intros N I. inversion N as [|? ? Nc N']; subst.
    cbn [fold_right]. destruct I as [->|I].
    - rewrite Z.eqb_refl.
      assert (Z0 : fold_right (fun c acc => (if x =? c then v else 0) + acc) 0 cs = 0).
      { clear IH N N'. induction cs as [|d cs IH]; [reflexivity|]. cbn [fold_right].
        destruct (Z.eqb_spec x d); [subst; exfalso; apply Nc; left; reflexivity|].
        rewrite IH; [lia|]. intros H; apply Nc; right; exact H. }
      lia.
    - destruct (Z.eqb_spec x c); [subst; contradiction|]. rewrite IH by assumption. lia.
  Qed.

  Lemma part_cons t ts c : Fsum (part (t :: ts) c) = (if key t =? c then F t else 0) + Fsum (part ts c).
  Proof. unfold Fsum, part. cbn [filter]. destruct (key t =? c); cbn [fold_right]; lia. Qed.

  Lemma partition_sum ts cs : NoDup cs -> (forall t, In t ts -> In (key t) cs) ->
    fold_right (fun c acc => Fsum (part ts c) + acc) 0 cs = Fsum ts.
  Proof.
    intros N. induction ts as [|t ts IH]; intros H.
    - clear N H. induction cs as [|c cs IHc]; [reflexivity|]. cbn [fold_right]. rewrite IHc. reflexivity.
    - assert (E : forall cs', fold_right (fun c acc => Fsum (part (t :: ts) c) + acc) 0 cs' =
                    fold_right (fun c acc => (if key t =? c then F t else 0) + acc) 0 cs' +
                    fold_right (fun c acc => Fsum (part ts c) + acc) 0 cs').
      { induction cs' as [|c cs' IHc]; [reflexivity|]. cbn [fold_right]. rewrite IHc, part_cons. lia. }
      rewrite E, IH by (intros; apply H; right; assumption).
      rewrite (sum_indicator cs (key t) (F t) N (H t (or_introl eq_refl))). reflexivity.
  Qed.
End Partition.

Lemma volume6_as_Fsum pos l : volume6 (map (geom pos) l) = Fsum (fun t => volume6 [geom pos t]) l.
Proof.
  induction l as [|[[a b] c] l IH]; [reflexivity|]. cbn [map Fsum fold_right]. fold (Fsum (fun t => volume6 [geom pos t]) l).
  rewrite <- IH. cbn [geom]. rewrite volume6_cons. cbn [volume6 fold_right]. lia.
Qed.

(* Decompose: the volumes of the parts sum to the volume of the whole, exactly *)
Lemma decompose_volume_l n ts pos :
  fold_right (fun part acc => volume6 (map (geom pos) part) + acc) 0 (decompose n ts) = volume6 (map (geom pos) ts).
Proof.
  unfold decompose. set (l := uf_edges n (mesh_edges ts)).
  rewrite volume6_as_Fsum.
  rewrite <- (partition_sum (fun t => lab l (itri_v0 t)) (fun t => volume6 [geom pos t]) ts (comp_labels l ts)).
  - unfold comp_faces, part. induction (comp_labels l ts) as [|c cs IH]; [reflexivity|].
    cbn [map fold_right]. rewrite IH, volume6_as_Fsum. reflexivity.
  - apply dedup_nodup.
  - intros t I. unfold comp_labels. rewrite dedup_in. apply in_map_iff. exists t. split; [reflexivity|exact I].
Qed.

(* every face lands in exactly one part *)
Lemma decompose_partition_l n ts t : In t ts ->
  exists c, In c (comp_labels (uf_edges n (mesh_edges ts)) ts) /\ In t (comp_faces (uf_edges n (mesh_edges ts)) ts c) /\
    forall c', In t (comp_faces (uf_edges n (mesh_edges ts)) ts c') -> c' = c.
Proof.
  intros I. set (l := uf_edges n (mesh_edges ts)). exists (lab l (itri_v0 t)). split; [|split].
  - unfold comp_labels. rewrite dedup_in. apply in_map_iff. exists t. split; [reflexivity|exact I].
  - unfold comp_faces. apply filter_In. split; [exact I|apply Z.eqb_refl].
  - intros c' H. unfold comp_faces in H. apply filter_In in H. destruct H as [_ H]. apply Z.eqb_eq in H. lia.
Qed.
