(* Integer part of Winding03_ (src/boolean3.cpp): which halfedges are
   "unbroken", union of their end points, one Kernel02 sum per component
   representative, flood fill  w03[i] = w03[find i].  Model only.

   DisjointSets (src/disjoint_sets.h, a lock-free rank-based union-find whose
   internals are C13's subject) is modelled by its specification-level
   behaviour "quick-find": a representative map vertex -> representative,
   unite a b redirects the whole class of a to the representative of b.  WHICH
   vertex represents a class differs from the C++ (there it depends on ranks,
   ids and the schedule); Flood.winding03_spec shows the result of Winding03
   does not depend on that choice. *)
From Coq Require Import ZArith List Bool.
Import ListNotations.
Local Open Scope Z_scope.

Definition uf := Z -> Z.
Definition uf_init : uf := fun i => i.
Definition uf_find (u : uf) (i : Z) : Z := u i.
Definition uf_unite (u : uf) (a b : Z) : uf := fun i => if u i =? u a then u b else u i.
Definition uf_build (edges : list (Z * Z)) : uf :=
  fold_left (fun u ab => uf_unite u (fst ab) (snd ab)) edges uf_init.

(* "check if the edge is broken": std::lower_bound over p1q2 sorted by the edge
   index = membership of the edge among the recorded intersection pairs *)
Definition is_broken (broken : list Z) (e : Z) : bool := existsb (Z.eqb e) broken.

(* the halfedges the first loop unites: forward ones (start < end) without a
   recorded intersection *)
Definition unbroken_edges (hstart hend : Z -> Z) (nHalfedge : nat) (broken : list Z) : list (Z * Z) :=
  flat_map (fun k => let e := Z.of_nat k in
                     if (hstart e <? hend e) && negb (is_broken broken e) then [(hstart e, hend e)] else [])
           (seq 0 nHalfedge).

(* w03 after the flood fill, given the sum computed at a representative *)
Definition winding03 (edges : list (Z * Z)) (wroot : Z -> Z) : Z -> Z :=
  fun i => wroot (uf_find (uf_build edges) i).
