(* C12 — CrossSection::Decompose: port of DecomposeByContainment
   (src/boolean2_offset.cpp:364-432) over ring indices, with the geometric
   decisions (containment, signed area) as Section variables, and the exact
   containment test / checker used on integer (scaled dyadic) coordinates.
   Definitions only; lemmas in Decomp2.v.

   The model starts after the keep-filter (rings with >= 3 vertices and
   |area| > maxelem(size) * eps are renumbered 0..n-1 in input order). *)
From Coq Require Import ZArith List Bool.
From MV Require Import Geo.Wind2Defs.
Import ListNotations.
Local Open Scope Z_scope.

Definition ziota (n : Z) : list Z := map Z.of_nat (seq 0 (Z.to_nat n)).

(* components[k].push_back(x) *)
Fixpoint push_at {A} (k : nat) (x : A) (cs : list (list A)) : list (list A) :=
  match cs, k with
  | [], _ => []
  | c :: r, O => (c ++ [x]) :: r
  | c :: r, S k' => c :: push_at k' x r
  end.

Section Decompose.
  Variable n : Z.
  Variable inside : Z -> Z -> bool.   (* BoxInside(info[i], info[j]) && RingInside(rings[i], rings[j], eps_j) *)
  Variable area : Z -> Z.             (* info[i].area (signed; any order-preserving image) *)

  (* aj < bestParentArea with bestParentArea = +infinity initially *)
  Definition lt_best (a : Z) (best : option Z) : bool :=
    match best with None => true | Some b => a <? b end.

  (* parent[i]: the smallest-|area| ring containing i, first one on ties; -1 if none *)
  Definition parent_step (i : Z) (acc : option Z * Z) (j : Z) : option Z * Z :=
    if negb (i =? j) && inside i j && lt_best (Z.abs (area j)) (fst acc)
    then (Some (Z.abs (area j)), j) else acc.
  Definition parent_of (i : Z) : Z := snd (fold_left (parent_step i) (ziota n) (None, -1)).

  (* for (hops = 0; p >= 0 && info[p].area < 0 && hops <= n; ++hops) p = parent[p]; *)
  Fixpoint walk (fuel : nat) (p : Z) : Z :=
    match fuel with
    | O => p
    | S f => if (0 <=? p) && (area p <? 0) then walk f (parent_of p) else p
    end.
  Definition ancestor (i : Z) : Z := walk (Z.to_nat (n + 1)) (parent_of i).

  Definition positive (i : Z) : bool := 0 <? area i.
  Definition positives : list Z := filter positive (ziota n).
  (* compOf[i] = components.size() when ring i is visited, -1 for non-positive rings *)
  Definition comp_of (p : Z) : Z :=
    if positive p then Z.of_nat (length (filter positive (ziota p))) else -1.

  (* second loop: holes in index order are appended to their ancestor's component *)
  Definition attach (cs : list (list Z)) (i : Z) : list (list Z) :=
    if positive i then cs
    else let p := ancestor i in
         if (p <? 0) || (comp_of p <? 0) then cs            (* orphan hole: dropped *)
         else push_at (Z.to_nat (comp_of p)) i cs.

  Definition decompose : list (list Z) :=
    fold_left attach (ziota n) (map (fun i => [i]) positives).

  (* specification form *)
  Definition holes_of (h : Z) : list Z :=
    filter (fun i => negb (positive i) && (ancestor i =? h)) (ziota n).
  Definition decompose_spec : list (list Z) := map (fun h => h :: holes_of h) positives.
End Decompose.

(* ---- exact containment on integer points (the regime of the correspondence
   run: there the eps-tolerant tests of the code coincide with these) ---- *)

(* PointOnSegment(p, a, b, eps) at eps -> 0 *)
Definition on_segment (p a b : pt) : bool :=
  (Z.min (fst a) (fst b) <=? fst p) && (fst p <=? Z.max (fst a) (fst b)) &&
  (Z.min (snd a) (snd b) <=? snd p) && (snd p <=? Z.max (snd a) (snd b)) &&
  (orient a b p =? 0).

(* (a.y > p.y) != (b.y > p.y) && p.x < (b.x-a.x)*(p.y-a.y)/(b.y-a.y) + a.x, exactly *)
Definition ray_hits (p a b : pt) : bool :=
  negb (Bool.eqb (snd p <? snd a) (snd p <? snd b)) &&
  (if snd a <? snd b
   then (fst p - fst a) * (snd b - snd a) <? (fst b - fst a) * (snd p - snd a)
   else (fst b - fst a) * (snd p - snd a) <? (fst p - fst a) * (snd b - snd a)).

(* PointInRing: inside or on the boundary *)
Definition point_in_ring (p : pt) (ring : contour) : bool :=
  existsb (fun e => on_segment p (fst e) (snd e)) (contour_edges ring) ||
  fold_left (fun ins e => if ray_hits p (snd e) (fst e) then negb ins else ins) (contour_edges ring) false.

Definition bbox_inside (a b : contour) : bool :=
  match a, b with
  | pa :: _, pb :: _ =>
    let mn f l d := fold_left Z.min (map f l) d in
    let mx f l d := fold_left Z.max (map f l) d in
    (mn fst b (fst pb) <=? mn fst a (fst pa)) && (mn snd b (snd pb) <=? mn snd a (snd pa)) &&
    (mx fst a (fst pa) <=? mx fst b (fst pb)) && (mx snd a (snd pa) <=? mx snd b (snd pb))
  | _, _ => false
  end.

Definition ring_inside (a b : contour) : bool :=
  bbox_inside a b && forallb (fun p => point_in_ring p b) a.

Definition nthc (rings : list contour) (i : Z) : contour := nth (Z.to_nat i) rings [].

(* DecomposeByContainment on integer rings that all pass the keep-filter *)
Definition decompose_rings (rings : list contour) : list (list Z) :=
  decompose (Z.of_nat (length rings))
            (fun i j => ring_inside (nthc rings i) (nthc rings j))
            (fun i => area2_contour (nthc rings i)).

(* ---- checker for the library's Decompose output (any dyadic coordinates) ----
   comps: the components as returned (outline first, then holes);
   whole: the kept input contours; samples: test points. *)
Definition comp_shape_ok (c : list contour) : bool :=
  match c with
  | [] => false
  | outline :: holes =>
    (0 <? area2_contour outline) &&
    forallb (fun h => (area2_contour h <? 0) && forallb (fun p => point_in_ring p outline) h) holes
  end.

Definition count_nonzero (l : list Z) : Z := zsum (map (fun w => if w =? 0 then 0 else 1) l).

Definition sample_ok (whole : list contour) (comps : list (list contour)) (s : pt) : bool :=
  let ws := map (fun c => wind2 c s) comps in
  (zsum ws =? wind2 whole s) && (count_nonzero ws <=? 1) &&
  forallb (fun w => (w =? 0) || (w =? 1)) ws.

Definition decomp_check (whole : list contour) (comps : list (list contour)) (samples : list pt) : bool :=
  (zsum (map area2 comps) =? area2 whole) &&
  forallb comp_shape_ok comps &&
  forallb (sample_ok whole comps) samples.
