(* C18 — measurements and queries: exact definitions and executable checkers.
   Model/definitions only: no proofs here (Measure.v has the lemmas).

   Coordinates are integers: the driver scales all doubles of one test by a
   common power of two (WindingDefs.v conventions: pt, tri, det3, volume6).

   Contents
   1. volume / area:   vol_mag, vol_check, cross2, area_lo/hi, area_check
   2. bbox_reduce:     CalculateBBox's NaN-skipping min/max combiner, reduction trees
   3. MinGap:          inflate (box by L), tri_box; exact squared triangle distance
                       tri_dist2 over Q with an optimality certificate; mingap2
   4. Decompose:       quick-find union-find over the edge graph, components
   5. segment/triangle crossing (RayCast), 2-D winding (Slice/Project)            *)
From Coq Require Import ZArith List Bool QArith Qminmax.
From MV Require Import Geo.WindingDefs Bvh.BvhDefs.
Import ListNotations.
Local Open Scope Z_scope.

(* ------------------------------------------------------------------ 1 -- *)
(* GetProperty (src/properties.cpp): term(tri) = dot(cross(b-a, c-a), a)/6,
   which equals det3 a b c / 6 exactly; in floating point each term carries an
   error bounded by a small multiple of u times the "permanent" below. *)
Definition perm3 (a u v : pt) : Z :=
    Z.abs (px a) * (Z.abs (py u * pz v) + Z.abs (pz u * py v))
  + Z.abs (py a) * (Z.abs (pz u * px v) + Z.abs (px u * pz v))
  + Z.abs (pz a) * (Z.abs (px u * py v) + Z.abs (py u * px v)).

Definition vol_mag (tris : list tri) : Z :=
  fold_right (fun t acc => let '(a, b, c) := t in perm3 a (psub b a) (psub c a) + acc) 0 tris.

(* |rep - up * volume6| * 2^53 <= 2 (n+16) * up * vol_mag     (u = 2^-53)
   rep = 6 * Volume() * 2^(3s) * up, up a power of two chosen by the driver so
   that rep is an integer. *)
Definition vol_check (tris : list tri) (rep up : Z) : bool :=
  Z.abs (rep - up * volume6 tris) * 2 ^ 53 <=? 2 * (Z.of_nat (length tris) + 16) * up * vol_mag tris.

Definition cross (u v : pt) : pt :=
  (py u * pz v - pz u * py v, pz u * px v - px u * pz v, px u * py v - py u * px v).
Definition dot (u v : pt) : Z := px u * px v + py u * py v + pz u * pz v.
Definition norm2 (u : pt) : Z := dot u u.

(* |(b-a) x (c-a)|^2 = (2 area)^2 *)
Definition cross2 (t : tri) : Z := let '(a, b, c) := t in norm2 (cross (psub b a) (psub c a)).
Definition cross_l1 (t : tri) : Z :=
  let '(a, b, c) := t in let u := psub b a in let v := psub c a in
    Z.abs (py u * pz v) + Z.abs (pz u * py v) + Z.abs (pz u * px v) + Z.abs (px u * pz v)
  + Z.abs (px u * py v) + Z.abs (py u * px v).

(* sum of floor(sqrt(.)) <= 2*area < sum of floor(sqrt(.)) + 1 *)
Definition area_lo (tris : list tri) : Z := fold_right (fun t acc => Z.sqrt (cross2 t) + acc) 0 tris.
Definition area_hi (tris : list tri) : Z := fold_right (fun t acc => Z.sqrt (cross2 t) + 1 + acc) 0 tris.
Definition area_mag (tris : list tri) : Z := fold_right (fun t acc => cross_l1 t + acc) 0 tris.

(* rep = 2 * SurfaceArea() * 2^(2s) * up *)
Definition area_check (tris : list tri) (rep up : Z) : bool :=
  let tol := 2 * (Z.of_nat (length tris) + 16) * up * area_mag tris in
  ((up * area_lo tris - rep) * 2 ^ 53 <=? tol) && ((rep - up * area_hi tris) * 2 ^ 53 <=? tol).

(* ------------------------------------------------------------------ 2 -- *)
(* CalculateBBox: reduce(vertPos, init = vec3(+inf), f) with
     f a b = if isnan(a.x) then b else if isnan(b.x) then a else min(a,b)
   (and the mirror image with -inf / max).  A tombstoned vertex is NaN in all
   coordinates: modelled as the separate constructor VNaN.  *)
Inductive xz := NInf | Fin (z : Z) | PInf.

Definition xle (a b : xz) : bool :=
  match a, b with
  | NInf, _ => true | _, PInf => true
  | Fin x, Fin y => x <=? y
  | _, _ => false
  end.
Definition xmin (a b : xz) : xz := if xle a b then a else b.
Definition xmax (a b : xz) : xz := if xle a b then b else a.

Inductive vert := VNaN | V (x y z : xz).

Definition cmin (a b : vert) : vert :=
  match a, b with
  | VNaN, _ => b
  | _, VNaN => a
  | V x y z, V x' y' z' => V (xmin x x') (xmin y y') (xmin z z')
  end.
Definition cmax (a b : vert) : vert :=
  match a, b with
  | VNaN, _ => b
  | _, VNaN => a
  | V x y z, V x' y' z' => V (xmax x x') (xmax y y') (xmax z z')
  end.
Definition id_min : vert := V PInf PInf PInf.
Definition id_max : vert := V NInf NInf NInf.

(* every way `reduce` may evaluate: a binary tree whose leaves are vertices
   or further copies of the initial value (TBB re-uses `init` as the identity
   of every split range), combined with init at the root *)
Inductive rtree := RLeaf (v : vert) | RInit | RNode (l r : rtree).

Fixpoint rleaves (t : rtree) : list vert :=
  match t with RLeaf v => [v] | RInit => [] | RNode l r => rleaves l ++ rleaves r end.
Fixpoint reval (f : vert -> vert -> vert) (init : vert) (t : rtree) : vert :=
  match t with RLeaf v => v | RInit => init | RNode l r => f (reval f init l) (reval f init r) end.
Definition reduce_tree (f : vert -> vert -> vert) (init : vert) (t : rtree) : vert :=
  f init (reval f init t).

(* the specification: the tight box of the non-tombstone vertices *)
Definition tight_min (vs : list vert) : vert := fold_right cmin id_min vs.
Definition tight_max (vs : list vert) : vert := fold_right cmax id_max vs.

Definition vx (v : vert) : xz := match v with VNaN => PInf | V x _ _ => x end.
Definition vy (v : vert) : xz := match v with VNaN => PInf | V _ y _ => y end.
Definition vz (v : vert) : xz := match v with VNaN => PInf | V _ _ z => z end.

(* executable check used on exports (all vertices finite): *)
Definition pt_vert (p : pt) : vert := V (Fin (px p)) (Fin (py p)) (Fin (pz p)).
Definition bbox_check (vs : list pt) (lo hi : pt) : bool :=
  match tight_min (map pt_vert vs), tight_max (map pt_vert vs) with
  | V (Fin a) (Fin b) (Fin c), V (Fin d) (Fin e) (Fin f) =>
      (a =? px lo) && (b =? py lo) && (c =? pz lo) && (d =? px hi) && (e =? py hi) && (f =? pz hi)
  | _, _ => false
  end.

(* ------------------------------------------------------------------ 3 -- *)
(* MinGap: face boxes of `other` are inflated by searchLength, the collider
   reports the overlapping (box, box) pairs (C14), and the squared triangle
   distance is evaluated on those pairs only. *)
Definition inflate (b : box) (L : Z) : box :=
  mkBox (bminx b - L) (bminy b - L) (bminz b - L) (bmaxx b + L) (bmaxy b + L) (bmaxz b + L).

Definition tri_box (t : tri) : box :=
  let '(a, b, c) := t in
  mkBox (min3 (px a) (px b) (px c)) (min3 (py a) (py b) (py c)) (min3 (pz a) (pz b) (pz c))
        (max3 (px a) (px b) (px c)) (max3 (py a) (py b) (py c)) (max3 (pz a) (pz b) (pz c)).

(* a rational point P/w (w > 0) lies in box b *)
Definition in_box_h (b : box) (P : pt) (w : Z) : Prop :=
  w * bminx b <= px P <= w * bmaxx b /\ w * bminy b <= py P <= w * bmaxy b /\
  w * bminz b <= pz P <= w * bmaxz b.

(* integer barycentric weights (l1,l2,l3), all >= 0, sum w > 0: the point
   (l1 a + l2 b + l3 c) / w of triangle (a,b,c) *)
Definition comb (t : tri) (l : pt) : pt :=
  let '(a, b, c) := t in
  (px l * px a + py l * px b + pz l * px c,
   px l * py a + py l * py b + pz l * py c,
   px l * pz a + py l * pz b + pz l * pz c).
Definition weights_ok (l : pt) (w : Z) : Prop :=
  0 <= px l /\ 0 <= py l /\ 0 <= pz l /\ px l + py l + pz l = w /\ 0 < w.

(* squared gap between boxes (0 when they overlap): a lower bound of the
   squared distance of any two points of the boxes; used as the exact
   pre-filter of the brute-force minimum *)
Definition gap1 (lo1 hi1 lo2 hi2 : Z) : Z := Z.max 0 (Z.max (lo2 - hi1) (lo1 - hi2)).
Definition box_gap2 (a b : box) : Z :=
  let gx := gap1 (bminx a) (bmaxx a) (bminx b) (bmaxx b) in
  let gy := gap1 (bminy a) (bmaxy a) (bminy b) (bmaxy b) in
  let gz := gap1 (bminz a) (bmaxz a) (bminz b) (bmaxz b) in
  gx * gx + gy * gy + gz * gz.

(* ---- exact squared distance of two triangles over Q -------------------- *)
Local Open Scope Q_scope.
Definition qpt : Type := (Q * Q * Q)%type.
Definition qtri : Type := (qpt * qpt * qpt)%type.
Definition qx (p : qpt) : Q := fst (fst p).
Definition qy (p : qpt) : Q := snd (fst p).
Definition qz (p : qpt) : Q := snd p.
Definition qsub (a b : qpt) : qpt := (qx a - qx b, qy a - qy b, qz a - qz b).
Definition qdot (a b : qpt) : Q := qx a * qx b + qy a * qy b + qz a * qz b.
Definition qcross (u v : qpt) : qpt :=
  (qy u * qz v - qz u * qy v, qz u * qx v - qx u * qz v, qx u * qy v - qy u * qx v).
Definition qd2 (a b : qpt) : Q := qdot (qsub a b) (qsub a b).

(* barycentric weights and the point they denote *)
Definition bary : Type := (Q * Q * Q)%type.
Definition bpoint (t : qtri) (w : bary) : qpt :=
  let '(a, b, c) := t in
  (qx w * qx a + qy w * qx b + qz w * qx c,
   qx w * qy a + qy w * qy b + qz w * qy c,
   qx w * qz a + qy w * qz b + qz w * qz c).
Definition bvalid (w : bary) : Prop := 0 <= qx w /\ 0 <= qy w /\ 0 <= qz w /\ qx w + qy w + qz w == 1.
Definition bvalidb (w : bary) : bool :=
  Qle_bool 0 (qx w) && Qle_bool 0 (qy w) && Qle_bool 0 (qz w) && Qeq_bool (qx w + qy w + qz w) 1.

Definition tv (t : qtri) (i : nat) : qpt :=
  let '(a, b, c) := t in match i with O => a | S O => b | _ => c end.
Definition nxt (i : nat) : nat := match i with O => 1%nat | S O => 2%nat | _ => O end.
Definition on_vert (i : nat) : bary := match i with O => (1, 0, 0) | S O => (0, 1, 0) | _ => (0, 0, 1) end.
(* (1-t) at vertex i, t at vertex i+1 *)
Definition on_edge (i : nat) (t : Q) : bary :=
  match i with O => (1 - t, t, 0) | S O => (0, 1 - t, t) | _ => (t, 0, 1 - t) end.
Definition clamp01 (t : Q) : Q := if Qle_bool t 0 then 0 else if Qle_bool 1 t then 1 else t.

(* closest point of segment (p,q) to v, as the parameter t *)
Definition seg_param (p q v : qpt) : Q :=
  let e := qsub q p in let ee := qdot e e in
  if Qeq_bool ee 0 then 0 else clamp01 (Qred (qdot (qsub v p) e / ee)).

(* barycentric coordinates of the orthogonal projection of v on the plane of t *)
Definition face_bary (t : qtri) (v : qpt) : option bary :=
  let '(a, b, c) := t in
  let u := qsub b a in let w := qsub c a in let r := qsub v a in
  let uu := qdot u u in let uw := qdot u w in let ww := qdot w w in
  let ur := qdot u r in let wr := qdot w r in
  let det := uu * ww - uw * uw in
  if Qeq_bool det 0 then None else
  let be := Qred ((ww * ur - uw * wr) / det) in
  let ga := Qred ((uu * wr - uw * ur) / det) in
  Some (1 - be - ga, be, ga).

Definition idx3 : list nat := [0; 1; 2]%nat.

(* candidate pairs of weights (on t1, on t2) *)
Definition cand_vv (t1 t2 : qtri) : list (bary * bary) :=
  flat_map (fun i => map (fun j => (on_vert i, on_vert j)) idx3) idx3.
Definition cand_ve (t1 t2 : qtri) : list (bary * bary) :=
  flat_map (fun i => map (fun j =>
     (on_vert i, on_edge j (seg_param (tv t2 j) (tv t2 (nxt j)) (tv t1 i)))) idx3) idx3.
Definition cand_ev (t1 t2 : qtri) : list (bary * bary) :=
  flat_map (fun i => map (fun j =>
     (on_edge i (seg_param (tv t1 i) (tv t1 (nxt i)) (tv t2 j)), on_vert j)) idx3) idx3.
Definition cand_vf (t1 t2 : qtri) : list (bary * bary) :=
  flat_map (fun i => match face_bary t2 (tv t1 i) with Some w => [(on_vert i, w)] | None => [] end) idx3.
Definition cand_fv (t1 t2 : qtri) : list (bary * bary) :=
  flat_map (fun j => match face_bary t1 (tv t2 j) with Some w => [(w, on_vert j)] | None => [] end) idx3.
Definition cand_ee (t1 t2 : qtri) : list (bary * bary) :=
  flat_map (fun i => flat_map (fun j =>
     let p := tv t1 i in let e := qsub (tv t1 (nxt i)) p in
     let q := tv t2 j in let f := qsub (tv t2 (nxt j)) q in
     let T := qsub q p in
     let ee := qdot e e in let ff := qdot f f in let ef := qdot e f in
     let eT := qdot e T in let fT := qdot f T in
     let den := ee * ff - ef * ef in
     if Qeq_bool den 0 then [] else
       [(on_edge i (Qred ((eT * ff - fT * ef) / den)), on_edge j (Qred ((eT * ef - fT * ee) / den)))]) idx3) idx3.
(* edge i of s pierces the plane of face t *)
Definition pierce (s t : qtri) (i : nat) : option (bary * bary) :=
  let '(a, b, c) := t in
  let n := qcross (qsub b a) (qsub c a) in
  let p := tv s i in let d := qsub (tv s (nxt i)) p in
  let dn := qdot n d in
  if Qeq_bool dn 0 then None else
  let tt := Qred (qdot n (qsub a p) / dn) in
  let x := (qx p + tt * qx d, qy p + tt * qy d, qz p + tt * qz d) in
  match face_bary t x with Some w => Some (on_edge i tt, w) | None => None end.
Definition cand_ef (t1 t2 : qtri) : list (bary * bary) :=
  flat_map (fun i => match pierce t1 t2 i with Some c => [c] | None => [] end) idx3.
Definition cand_fe (t1 t2 : qtri) : list (bary * bary) :=
  flat_map (fun j => match pierce t2 t1 j with Some (w2, w1) => [(w1, w2)] | None => [] end) idx3.

Definition candidates (t1 t2 : qtri) : list (bary * bary) :=
  filter (fun c => bvalidb (fst c) && bvalidb (snd c))
    (cand_vv t1 t2 ++ cand_ve t1 t2 ++ cand_ev t1 t2 ++ cand_vf t1 t2 ++ cand_fv t1 t2 ++
     cand_ee t1 t2 ++ cand_ef t1 t2 ++ cand_fe t1 t2).

Definition cand_d2 (t1 t2 : qtri) (c : bary * bary) : Q := Qred (qd2 (bpoint t1 (fst c)) (bpoint t2 (snd c))).

Fixpoint best (t1 t2 : qtri) (cs : list (bary * bary)) (acc : Q * (bary * bary)) : Q * (bary * bary) :=
  match cs with
  | [] => acc
  | c :: r => let d := cand_d2 t1 t2 c in
              if Qle_bool (fst acc) d then best t1 t2 r acc else best t1 t2 r (d, c)
  end.

(* optimality certificate for the pair (x on t1, y on t2), v = x - y:
   <v, a_i - x> >= 0 for the vertices a_i of t1 and <v, b_j - y> <= 0 for the
   vertices b_j of t2  (first-order condition of the convex problem) *)
Definition certificate (t1 t2 : qtri) (c : bary * bary) : bool :=
  let x := bpoint t1 (fst c) in let y := bpoint t2 (snd c) in
  let v := qsub x y in
  forallb (fun i => Qle_bool 0 (qdot v (qsub (tv t1 i) x))) idx3 &&
  forallb (fun j => Qle_bool (qdot v (qsub (tv t2 j) y)) 0) idx3.

(* any candidate generator may be used: soundness comes from the certificate *)
Definition tri_dist2_gen (gen : qtri -> qtri -> list (bary * bary)) (t1 t2 : qtri) : option (Q * (bary * bary)) :=
  let c0 := (on_vert 0, on_vert 0) in
  let r := best t1 t2 (gen t1 t2) (cand_d2 t1 t2 c0, c0) in
  if bvalidb (fst (snd r)) && bvalidb (snd (snd r)) && certificate t1 t2 (snd r) then Some r else None.

Definition tri_dist2 (t1 t2 : qtri) : option (Q * (bary * bary)) := tri_dist2_gen candidates t1 t2.

(* point (as the degenerate triangle (p,p,p)) against a triangle: 7 candidates *)
Definition cand_pt (t1 t2 : qtri) : list (bary * bary) :=
  filter (fun c => bvalidb (fst c) && bvalidb (snd c))
    (map (fun j => (on_vert 0, on_vert j)) idx3 ++
     map (fun j => (on_vert 0, on_edge j (seg_param (tv t2 j) (tv t2 (nxt j)) (tv t1 0%nat)))) idx3 ++
     match face_bary t2 (tv t1 0%nat) with Some w => [(on_vert 0, w)] | None => [] end).

Definition qpt_of (p : pt) : qpt := (inject_Z (px p), inject_Z (py p), inject_Z (pz p)).
Definition qtri_of (t : tri) : qtri := let '(a, b, c) := t in (qpt_of a, qpt_of b, qpt_of c).

(* brute-force minimum over all pairs, pruned by the exact box lower bound:
   a pair is evaluated only when its box gap does not exceed the best value
   so far (Measure.box_gap2_lower: the box gap is a lower bound).  `ub` is an
   upper bound supplied by the caller (e.g. L^2 or a vertex-vertex distance).
   None = a certificate failed (checker bug, not an implementation defect). *)
Fixpoint mingap_row (t1 : tri) (b1 : box) (l2 : list (tri * box)) (acc : Q) : option Q :=
  match l2 with
  | [] => Some acc
  | (t2, b2) :: r =>
      if Qle_bool acc 0 then Some acc else
      if Qle_bool acc (inject_Z (box_gap2 b1 b2)) then mingap_row t1 b1 r acc else
      match tri_dist2 (qtri_of t1) (qtri_of t2) with
      | None => None
      | Some (d, _) => mingap_row t1 b1 r (if Qle_bool acc d then acc else d)
      end
  end.
Fixpoint mingap_all (l1 l2 : list (tri * box)) (acc : Q) : option Q :=
  match l1 with
  | [] => Some acc
  | (t1, b1) :: r => match mingap_row t1 b1 l2 acc with None => None | Some a => mingap_all r l2 a end
  end.
Definition with_box (l : list tri) : list (tri * box) := map (fun t => (t, tri_box t)) l.
Definition mingap2 (m1 m2 : list tri) (ub : Q) : option Q := mingap_all (with_box m1) (with_box m2) ub.
Definition pt_tri_dist2 (p : pt) (t : tri) : option Q :=
  match tri_dist2_gen cand_pt (qtri_of (p, p, p)) (qtri_of t) with Some (d, _) => Some d | None => None end.
Local Close Scope Q_scope.

(* ------------------------------------------------------------------ 4 -- *)
(* Decompose: DisjointSets over the vertices, one unite per forward halfedge;
   specification-level union-find (quick-find): a labelling of the vertices
   0..n-1; unite relabels one class.  *)
Definition labels := list Z.
Definition lab (l : labels) (v : Z) : Z := nth (Z.to_nat v) l (-1).
Definition init_labels (n : nat) : labels := map Z.of_nat (seq 0 n).
Definition unite (l : labels) (a b : Z) : labels :=
  let la := lab l a in let lb := lab l b in
  if la =? lb then l else map (fun x => if x =? la then lb else x) l.
Definition uf_edges (n : nat) (es : list (Z * Z)) : labels :=
  fold_left (fun l e => unite l (fst e) (snd e)) es (init_labels n).

(* connectivity in the (undirected) edge graph *)
Inductive conn (es : list (Z * Z)) : Z -> Z -> Prop :=
| conn_refl : forall x, conn es x x
| conn_edge : forall a b, In (a, b) es -> conn es a b
| conn_sym : forall x y, conn es x y -> conn es y x
| conn_trans : forall x y z, conn es x y -> conn es y z -> conn es x z.

(* index triangles (as in Topo/CheckMeshDefs.v) *)
Definition itri : Type := (Z * Z * Z)%type.
Definition itri_edges (t : itri) : list (Z * Z) := let '(a, b, c) := t in [(a, b); (b, c); (c, a)].
Definition mesh_edges (ts : list itri) : list (Z * Z) := flat_map itri_edges ts.
Definition itri_v0 (t : itri) : Z := fst (fst t).

(* Decompose assigns face f to the component of its first vertex *)
Definition comp_faces (l : labels) (ts : list itri) (c : Z) : list itri :=
  filter (fun t => lab l (itri_v0 t) =? c) ts.
Fixpoint dedup (l : list Z) : list Z :=
  match l with [] => [] | x :: r => if existsb (Z.eqb x) r then dedup r else x :: dedup r end.
Definition comp_labels (l : labels) (ts : list itri) : list Z := dedup (map (fun t => lab l (itri_v0 t)) ts).
Definition decompose (n : nat) (ts : list itri) : list (list itri) :=
  let l := uf_edges n (mesh_edges ts) in map (comp_faces l ts) (comp_labels l ts).

Definition geom (pos : Z -> pt) (t : itri) : tri := let '(a, b, c) := t in (pos a, pos b, pos c).

(* ------------------------------------------------------------------ 5 -- *)
(* RayCast oracle: does the open segment (p,q) cross triangle (a,b,c)
   transversally through its interior?  generic = no orientation vanishes. *)
Definition o3 (a b c d : pt) : Z := det3 (psub a d) (psub b d) (psub c d).

(* 1: proper crossing through the interior; 0: clearly no crossing;
   2: degenerate position (some determinant vanishes while a crossing is not excluded) *)
Definition seg_tri (p q : pt) (t : tri) : Z :=
  let '(a, b, c) := t in
  let sp := Z.sgn (o3 a b c p) in let sq := Z.sgn (o3 a b c q) in
  if (sp * sq =? 1) then 0 else
  let s1 := Z.sgn (o3 p q a b) in let s2 := Z.sgn (o3 p q b c) in let s3 := Z.sgn (o3 p q c a) in
  if ((s1 =? 1) && (s2 =? 1) && (s3 =? 1)) || ((s1 =? -1) && (s2 =? -1) && (s3 =? -1))
  then (if (sp =? 0) || (sq =? 0) then 2 else 1)
  else if ((0 <=? s1) && (0 <=? s2) && (0 <=? s3)) || ((s1 <=? 0) && (s2 <=? 0) && (s3 <=? 0))
  then 2 else 0.

(* (number of proper crossings, number of degenerate incidences) *)
Definition seg_crossings (p q : pt) (tris : list tri) : Z * Z :=
  fold_right (fun t acc => let s := seg_tri p q t in
                           (fst acc + (if s =? 1 then 1 else 0), snd acc + (if s =? 2 then 1 else 0))) (0, 0) tris.

(* 2-D winding of closed polygons (Slice / Project output) at q, same
   half-open rule as WindingDefs.edge_cross *)
Fixpoint poly_edges (first : pt) (l : list pt) : list (pt * pt) :=
  match l with
  | [] => []
  | a :: r => match r with [] => [(a, first)] | b :: _ => (a, b) :: poly_edges first r end
  end.
Definition poly_wind (poly : list pt) (q : pt) : Z :=
  match poly with
  | [] => 0
  | f :: _ => fold_right (fun e acc => edge_cross (fst e) (snd e) q + acc) 0 (poly_edges f poly)
  end.
Definition polys_wind (polys : list (list pt)) (q : pt) : Z :=
  fold_right (fun p acc => poly_wind p q + acc) 0 polys.

(* number of triangles whose xy-projection contains q (half-open rule):
   Project's shadow contains q iff this is non-zero *)
Definition shadow_count (tris : list tri) (q : pt) : Z :=
  fold_right (fun t acc => let '(a, b, c) := t in (if wn2 a b c q =? 0 then 0 else 1) + acc) 0 tris.
