(* Exact-arithmetic (Q) port of the intersection kernels of src/boolean3.cpp:
   Interpolate / Intersect (src/shared.h), Shadow01, Kernel02, Kernel11,
   Kernel12, LoadFaceEdges, and the per-vertex winding sum of Winding03.
   Model only: no proofs.

   Conventions
   * every floating-point division is an exact rational division; the
     "!isfinite(lambda)" fall-backs of the C++ (division by zero) are the
     branches "denominator == 0";
   * the branch choices useL / useA (which endpoint the interpolation is
     anchored at) are ported although they do not change an exact value,
     because they select the result in the degenerate (denominator 0) case;
   * Shadows / withSign are NOT written here: Gen/BoolConsts.v regenerates
     gen_shadowsQ / gen_withSignQ from src/shared.h on every run;
   * a kernel that would read its uninitialised bracket arrays (s != 0 but
     fewer than two bracketing samples: the DEBUG_ASSERT(k == 2) of the C++,
     compiled out in release builds) returns None;
   * "z is finite" in the C++ (NaN marks "Shadow01 found no x-overlap") is
     the option type here.
   * vertNormal_ / faceNormal_ are inputs (the doubles the library computed,
     decoded exactly); sums/differences of them are exact here while the C++
     rounds them, which preserves the sign of a sum/difference of two doubles. *)
From Coq Require Import ZArith QArith Qabs List Bool.
From MV Require Import Geo.WindingDefs Geo.QOps Gen.BoolConsts.
Import ListNotations.

Record v3 := V3 { vx : Q; vy : Q; vz : Q }.

Record kmesh := KMesh {
  vpos : Z -> v3;      (* vertPos_ *)
  vnorm : Z -> v3;     (* vertNormal_ *)
  fnorm : Z -> v3;     (* faceNormal_ *)
  hstart : Z -> Z;     (* halfedge_.Start *)
  hpair : Z -> Z       (* halfedge_.Pair *)
}.

Local Open Scope Z_scope.
Definition next_he (h : Z) : Z := if h mod 3 =? 2 then h - 2 else h + 1.   (* NextHalfedge *)
Definition next3 (i : Z) : Z := (i + 1) mod 3.                              (* Next3 *)
Definition hend (m : kmesh) (h : Z) : Z := hstart m (next_he h).            (* halfedge_.End *)

(* LoadFaceEdges: (edge, start, end, isForward) for the three sides of tri *)
Definition face_edge (m : kmesh) (tri i : Z) : Z * Z * Z * bool :=
  let h := 3 * tri + i in
  let s := hstart m h in
  let e := hstart m (3 * tri + next3 i) in
  if s <? e then (h, s, e, true) else (hpair m h, e, s, false).
Definition face_edges (m : kmesh) (tri : Z) : list (Z * Z * Z * bool) :=
  [face_edge m tri 0; face_edge m tri 1; face_edge m tri 2].
Local Close Scope Z_scope.

Local Open Scope Q_scope.

(* shared.h Interpolate(aL, aR, x): (y, z) of the segment at x *)
Definition interpolate (aL aR : v3) (x : Q) : Q * Q :=
  let dx := vx aR - vx aL in
  if Qeqb dx 0 then (vy aL, vz aL)
  else
    let dxL := x - vx aL in
    let dxR := x - vx aR in
    let useL := Qltb (Qabs dxL) (Qabs dxR) in
    let lambda := (if useL then dxL else dxR) / dx in
    (lambda * (vy aR - vy aL) + (if useL then vy aL else vy aR),
     lambda * (vz aR - vz aL) + (if useL then vz aL else vz aR)).

(* shared.h Intersect(aL, aR, bL, bR): (x, y, a.z, b.z) at the crossing *)
Definition intersect (aL aR bL bR : v3) : Q * Q * Q * Q :=
  let dyL := vy bL - vy aL in
  let dyR := vy bR - vy aR in
  let useL := Qltb (Qabs dyL) (Qabs dyR) in
  let dx := vx aR - vx aL in
  let den := dyL - dyR in
  let lambda := if Qeqb den 0 then 0 else (if useL then dyL else dyR) / den in
  let aDy := vy aR - vy aL in
  let bDy := vy bR - vy bL in
  let useA := Qltb (Qabs aDy) (Qabs bDy) in
  (lambda * dx + (if useL then vx aL else vx aR),
   lambda * (if useA then aDy else bDy)
     + (if useL then (if useA then vy aL else vy bL) else (if useA then vy aR else vy bR)),
   lambda * (vz aR - vz aL) + (if useL then vz aL else vz aR),
   lambda * (vz bR - vz bL) + (if useL then vz bL else vz bR)).

Definition bz (b : bool) : Z := if b then 1%Z else 0%Z.

(* the "k / shadows" bookkeeping shared by Kernel02/11/12: keep the first
   sample and the first later sample whose shadow flag differs *)
Record sel (T : Type) := Sel { sk : nat; ssh : bool; s0 : option T; s1 : option T }.
Arguments Sel {T}. Arguments sk {T}. Arguments ssh {T}. Arguments s0 {T}. Arguments s1 {T}.
Definition sel_empty {T} : sel T := Sel 0%nat false None None.
Definition sel_push {T} (st : sel T) (nz : bool) (v : T) : sel T :=
  match sk st with
  | O => Sel 1%nat nz (Some v) (s1 st)
  | S O => if negb (Bool.eqb nz (ssh st)) then Sel 2%nat nz (s0 st) (Some v) else st
  | _ => st
  end.

Section Kernels.
  (* the comparison primitive is a parameter so that the correspondence driver
     can instrument it (it records how close to a tie each decision on COMPUTED
     values was); the kernels proper are the instances with gen_shadowsQ below.
     shx: comparisons of input coordinates; shc: comparisons involving an
     interpolated / intersected value *)
  Variables shx shc : Q -> Q -> Q -> bool.

(* Shadow01<expandP, forward>(a0, b1, b1s, b1e, inA, inB) *)
Definition shadow01_g (expandP forward : bool) (a0 b1 b1s b1e : Z) (inA inB : kmesh) : Z * option (Q * Q) :=
  let a0x := vx (vpos inA a0) in
  let b1sx := vx (vpos inB b1s) in
  let b1ex := vx (vpos inB b1e) in
  let a0xp := vx (vnorm inA a0) in
  let b1sxp := vx (vnorm inB b1s) in
  let b1exp := vx (vnorm inB b1e) in
  let s01 :=
    if forward
    then (bz (shx a0x b1ex (gen_withSignQ expandP a0xp - b1exp))
          - bz (shx a0x b1sx (gen_withSignQ expandP a0xp - b1sxp)))%Z
    else (bz (shx b1sx a0x (gen_withSignQ expandP b1sxp - a0xp))
          - bz (shx b1ex a0x (gen_withSignQ expandP b1exp - a0xp)))%Z in
  if (s01 =? 0)%Z then (0%Z, None)
  else
    let yz01 := interpolate (vpos inB b1s) (vpos inB b1e) a0x in
    let b1pair := hpair inB b1 in
    let dir := vy (fnorm inB (b1 / 3)%Z) + vy (fnorm inB (b1pair / 3)%Z) in
    let keep :=
      if forward then shc (vy (vpos inA a0)) (fst yz01) (- dir)
      else shc (fst yz01) (vy (vpos inA a0)) (gen_withSignQ expandP dir) in
    ((if keep then s01 else 0%Z), Some yz01).

(* Kernel02<expandP, forward>{inA, inB}(a0, b2) *)
Definition kernel02_g (expandP forward : bool) (inA inB : kmesh) (a0 b2 : Z) : option (Z * option Q) :=
  let step (acc : Z * sel v3) (fe : Z * Z * Z * bool) :=
    let '(e, s, en, isF) := fe in
    let '(s01, yz) := shadow01_g expandP forward a0 e s en inA inB in
    match yz with
    | None => acc
    | Some yz01 =>
      ((fst acc + s01 * (if Bool.eqb forward isF then -1 else 1))%Z,
       sel_push (snd acc) (negb (s01 =? 0)%Z) (V3 (fst yz01) (snd yz01) (snd yz01)))
    end in
  let '(s02, st) := fold_left step (face_edges inB b2) (0%Z, sel_empty) in
  if (s02 =? 0)%Z then Some (0%Z, None)
  else
    match s0 st, s1 st with
    | Some l, Some r =>
      let p := vpos inA a0 in
      let z02 := snd (interpolate l r (vy p)) in
      let keep :=
        if forward then shc (vz p) z02 (- vz (fnorm inB b2))
        else shc z02 (vz p) (gen_withSignQ expandP (vz (fnorm inB b2))) in
      Some ((if keep then s02 else 0%Z), Some z02)
    | _, _ => None
    end.

(* Kernel11<expandP>{inP, inQ}(p1, p1s, p1e, q1, q1s, q1e) *)
Definition kernel11_g (expandP : bool) (inP inQ : kmesh) (p1 p1s p1e q1 q1s q1e : Z)
  : option (Z * option (Q * Q * Q * Q)) :=
  let stepP (acc : Z * sel (v3 * v3)) (iv : bool * Z) :=
    let '(first, v) := iv in
    let '(s01, yz) := shadow01_g expandP true v q1 q1s q1e inP inQ in
    match yz with
    | None => acc
    | Some yz01 =>
      let pv := vpos inP v in
      ((fst acc + s01 * (if first then -1 else 1))%Z,
       sel_push (snd acc) (negb (s01 =? 0)%Z) (pv, V3 (vx pv) (fst yz01) (snd yz01)))
    end in
  let stepQ (acc : Z * sel (v3 * v3)) (iv : bool * Z) :=
    let '(first, v) := iv in
    let '(s10, yz) := shadow01_g expandP false v p1 p1s p1e inQ inP in
    match yz with
    | None => acc
    | Some yz10 =>
      let qv := vpos inQ v in
      ((fst acc + s10 * (if first then -1 else 1))%Z,
       sel_push (snd acc) (negb (s10 =? 0)%Z) (V3 (vx qv) (fst yz10) (snd yz10), qv))
    end in
  let acc1 := fold_left stepP [(true, p1s); (false, p1e)] (0%Z, sel_empty) in
  let '(s11, st) := fold_left stepQ [(true, q1s); (false, q1e)] acc1 in
  if (s11 =? 0)%Z then Some (0%Z, None)
  else
    match s0 st, s1 st with
    | Some (pL, qL), Some (pR, qR) =>
      let xyzz := intersect pL pR qL qR in
      let '(_, _, z, w) := xyzz in
      let dirP := vz (fnorm inP (p1 / 3)%Z) + vz (fnorm inP (hpair inP p1 / 3)%Z) in
      let dirQ := vz (fnorm inQ (q1 / 3)%Z) + vz (fnorm inQ (hpair inQ q1 / 3)%Z) in
      let keep := shc z w (gen_withSignQ expandP dirP - dirQ) in
      Some ((if keep then s11 else 0%Z), Some xyzz)
    | _, _ => None
    end.

(* Kernel12<expandP, forward>{inA, inB, k02, k11}(a1, b2);  A = P when forward, Q otherwise *)
Definition kernel12_g (expandP forward : bool) (inP inQ : kmesh) (a1 b2 : Z) : option (Z * option v3) :=
  let inA := if forward then inP else inQ in
  let inB := if forward then inQ else inP in
  let eAs := hstart inA a1 in
  let eAe := hend inA a1 in
  let edgeB := face_edges inB b2 in
  let stepV (acc : option (Z * sel (v3 * v3))) (iv : bool * Z) :=
    match acc with
    | None => None
    | Some acc =>
      let '(isStart, vertA) := iv in
      match kernel02_g expandP forward inA inB vertA b2 with
      | None => None
      | Some (_, None) => Some acc
      | Some (s, Some z) =>
        let p := vpos inA vertA in
        Some ((fst acc + s * (if Bool.eqb isStart forward then 1 else -1))%Z,
              sel_push (snd acc) (negb (s =? 0)%Z) (V3 (vx p) (vz p) (vy p), V3 (vx p) z (vy p)))
      end
    end in
  let stepE (acc : option (Z * sel (v3 * v3))) (fe : Z * Z * Z * bool) :=
    match acc with
    | None => None
    | Some acc =>
      let '(e, s, en, isF) := fe in
      let r := if forward then kernel11_g expandP inP inQ a1 eAs eAe e s en
               else kernel11_g expandP inP inQ e s en a1 eAs eAe in
      match r with
      | None => None
      | Some (_, None) => Some acc
      | Some (s11, Some (x, y, z, w)) =>
        let l0 := V3 x z y in
        let l1 := V3 x w y in
        Some ((fst acc - s11 * (if isF then 1 else -1))%Z,
              sel_push (snd acc) (negb (s11 =? 0)%Z) (if forward then (l0, l1) else (l1, l0)))
      end
    end in
  let acc1 := fold_left stepV [(true, eAs); (false, eAe)] (Some (0%Z, sel_empty)) in
  match fold_left stepE edgeB acc1 with
  | None => None
  | Some (x12, st) =>
    if (x12 =? 0)%Z then Some (0%Z, None)
    else
      match s0 st, s1 st with
      | Some (a0_, b0_), Some (a1_, b1_) =>
        let '(x, z, y, _) := intersect a0_ a1_ b0_ b1_ in
        Some (x12, Some (V3 x y z))
      | _, _ => None
      end
  end.

(* Winding03: the value accumulated for a vertex v of A over the faces of B,
   w03[v] += s02 * (forward ? 1 : -1)  for every face whose z02 is finite *)
Definition w03_sum_g (expandP forward : bool) (inA inB : kmesh) (faces : list Z) (v : Z) : option Z :=
  fold_left (fun (acc : option Z) (b : Z) =>
    match acc with
    | None => None
    | Some a =>
      match kernel02_g expandP forward inA inB v b with
      | None => None
      | Some (s, _) => Some (a + s * (if forward then 1 else -1))%Z
      end
    end) faces (Some 0%Z).
End Kernels.

Definition shadow01 := shadow01_g gen_shadowsQ gen_shadowsQ.
Definition kernel02 := kernel02_g gen_shadowsQ gen_shadowsQ.
Definition kernel11 := kernel11_g gen_shadowsQ gen_shadowsQ.
Definition kernel12 := kernel12_g gen_shadowsQ gen_shadowsQ.
Definition w03_sum := w03_sum_g gen_shadowsQ gen_shadowsQ.

(* executable form of Kernel.closed_mesh (evaluated by the correspondence
   driver on every operand the implementation hands to Boolean3) *)
Definition closed_meshb (m : kmesh) (nTri : nat) : bool :=
  forallb (fun k => let h := Z.of_nat k in
     ((0 <=? hpair m h) && (hpair m h <? 3 * Z.of_nat nTri) && (hpair m (hpair m h) =? h)
      && (hstart m (hpair m h) =? hend m h) && (hend m (hpair m h) =? hstart m h)
      && negb (hstart m h =? hend m h))%Z) (seq 0 (3 * nTri)).
