(* Lemmas about the exact port of the boolean3.cpp kernels (KernelDefs.v). *)
From Coq Require Import ZArith QArith Qabs List Bool Lia Permutation.
From MV Require Import Geo.WindingDefs Geo.QOps Gen.BoolConsts Geo.KernelDefs Geo.FloodDefs Geo.Flood.
Import ListNotations.

(* ---------- Shadows over Q: strict order on infinitesimally perturbed values *)
Definition plt (p dp q dq : Q) : Prop := (p < q \/ (p == q /\ dp < dq))%Q.

Lemma Qltb_lt a b : Qltb a b = true <-> (a < b)%Q.
Proof.
  unfold Qltb. rewrite negb_true_iff. split.
  - intros H. apply Qnot_le_lt. intros L. apply Qle_bool_iff in L. congruence.
  - intros H. destruct (Qle_bool b a) eqn:E; [|reflexivity].
    apply Qle_bool_iff in E. exfalso. exact (Qlt_not_le _ _ H E).
Qed.

Lemma shadowsQ_lex p q dir :
  gen_shadowsQ p q dir = true <-> (p < q \/ (p == q /\ dir < 0))%Q.
Proof.
  unfold gen_shadowsQ, Qeqb. destruct (Qeq_bool p q) eqn:E.
  - apply Qeq_bool_iff in E. rewrite Qltb_lt. split.
    + intros H. right. split; assumption.
    + intros [H|[_ H]]; [|exact H]. rewrite E in H. exfalso. exact (Qlt_irrefl _ H).
  - apply Qeq_bool_neq in E. rewrite Qltb_lt. split.
    + intros H. left. exact H.
    + intros [H|[H _]]; [exact H|contradiction].
Qed.

Lemma shadowsQ_perturbed p q dp dq : gen_shadowsQ p q (dp - dq) = true <-> plt p dp q dq.
Proof.
  rewrite shadowsQ_lex. unfold plt. split; intros [H|[H1 H2]]; auto; right; split; auto.
  - apply Qlt_minus_iff in H2. apply Qlt_minus_iff. setoid_replace (dq + - dp)%Q with (0 + - (dp - dq))%Q by ring. exact H2.
  - apply Qlt_minus_iff. apply Qlt_minus_iff in H2. setoid_replace (0 + - (dp - dq))%Q with (dq + - dp)%Q by ring. exact H2.
Qed.

(* antisymmetry: the two directions never both hold, and exactly one holds unless p == q and dir == 0 *)
Lemma shadowsQ_asym p q dir : gen_shadowsQ p q dir = true -> gen_shadowsQ q p (- dir) = false.
Proof.
  intros H. destruct (gen_shadowsQ q p (- dir)) eqn:E; [|reflexivity]. exfalso.
  apply shadowsQ_lex in H. apply shadowsQ_lex in E.
  destruct H as [H|[H1 H2]], E as [E|[E1 E2]].
  - exact (Qlt_irrefl _ (Qlt_trans _ _ _ H E)).
  - rewrite E1 in H. exact (Qlt_irrefl _ H).
  - rewrite H1 in E. exact (Qlt_irrefl _ E).
  - apply Qlt_minus_iff in E2. setoid_replace (0 + - - dir)%Q with dir in E2 by ring.
    exact (Qlt_irrefl _ (Qlt_trans _ _ _ H2 E2)).
Qed.

Lemma shadowsQ_total p q dir :
  (~ p == q \/ ~ dir == 0)%Q -> gen_shadowsQ p q dir = negb (gen_shadowsQ q p (- dir)).
Proof.
  intros H. destruct (gen_shadowsQ p q dir) eqn:E1.
  - rewrite (shadowsQ_asym _ _ _ E1). reflexivity.
  - destruct (gen_shadowsQ q p (- dir)) eqn:E2; [reflexivity|exfalso].
    assert (N1 : ~ (p < q \/ (p == q /\ dir < 0))%Q) by (intros X; apply shadowsQ_lex in X; congruence).
    assert (N2 : ~ (q < p \/ (q == p /\ - dir < 0))%Q) by (intros X; apply shadowsQ_lex in X; congruence).
    destruct (Q_dec p q) as [[L|G]|Eq].
    + apply N1. left. exact L.
    + apply N2. left. exact G.
    + destruct (Q_dec dir 0) as [[L|G]|Eq'].
      * apply N1. right. split; assumption.
      * apply N2. right. split; [symmetry; exact Eq|]. apply Qlt_minus_iff.
        setoid_replace (0 + - - dir)%Q with dir by ring. exact G.
      * destruct H as [H|H]; contradiction.
Qed.

(* ---------- Shadow01 ------------------------------------------------------ *)
(* "P-vertex a (perturbed along s * its normal) is left of Q-vertex b (perturbed
   along its normal)": the ONE question both the forward and the backward
   kernel ask about x coordinates *)
Definition xleft (expandP : bool) (inP inQ : kmesh) (a b : Z) : bool :=
  gen_shadowsQ (vx (vpos inP a)) (vx (vpos inQ b))
               (gen_withSignQ expandP (vx (vnorm inP a)) - vx (vnorm inQ b)).

Lemma xleft_perturbed ex inP inQ a b :
  xleft ex inP inQ a b = true <->
  plt (vx (vpos inP a)) (gen_withSignQ ex (vx (vnorm inP a))) (vx (vpos inQ b)) (vx (vnorm inQ b)).
Proof. apply shadowsQ_perturbed. Qed.

(* the value Shadow01 returns, in terms of xleft and the y test *)
Definition s01_x (expandP forward : bool) (inP inQ : kmesh) (a0 b1s b1e : Z) : Z :=
  if forward then (bz (xleft expandP inP inQ a0 b1e) - bz (xleft expandP inP inQ a0 b1s))%Z
  else (bz (xleft expandP inP inQ b1s a0) - bz (xleft expandP inP inQ b1e a0))%Z.

Lemma shadow01_forward_spec ex inP inQ a0 b1 b1s b1e :
  let sx := s01_x ex true inP inQ a0 b1s b1e in
  let yz := interpolate (vpos inQ b1s) (vpos inQ b1e) (vx (vpos inP a0)) in
  let dir := (vy (fnorm inQ (b1 / 3)%Z) + vy (fnorm inQ (hpair inQ b1 / 3)%Z))%Q in
  shadow01 ex true a0 b1 b1s b1e inP inQ =
  if (sx =? 0)%Z then (0%Z, None)
  else ((if gen_shadowsQ (vy (vpos inP a0)) (fst yz) (- dir) then sx else 0%Z), Some yz).
Proof. reflexivity. Qed.

Lemma shadow01_backward_spec ex inP inQ a0 b1 b1s b1e :
  (* a0 is a vertex of Q, (b1, b1s, b1e) an edge of P *)
  let sx := s01_x ex false inP inQ a0 b1s b1e in
  let yz := interpolate (vpos inP b1s) (vpos inP b1e) (vx (vpos inQ a0)) in
  let dir := (vy (fnorm inP (b1 / 3)%Z) + vy (fnorm inP (hpair inP b1 / 3)%Z))%Q in
  shadow01 ex false a0 b1 b1s b1e inQ inP =
  if (sx =? 0)%Z then (0%Z, None)
  else ((if gen_shadowsQ (fst yz) (vy (vpos inQ a0)) (gen_withSignQ ex dir) then sx else 0%Z), Some yz).
Proof. reflexivity. Qed.

(* s01_x is +1 / -1 exactly when the vertex lies in the perturbed half-open x-interval of the edge *)
Lemma s01_x_forward_cases ex inP inQ a0 b1s b1e :
  let s := s01_x ex true inP inQ a0 b1s b1e in
  (s = 1%Z <-> xleft ex inP inQ a0 b1e = true /\ xleft ex inP inQ a0 b1s = false) /\
  (s = (-1)%Z <-> xleft ex inP inQ a0 b1e = false /\ xleft ex inP inQ a0 b1s = true) /\
  (s = 0%Z <-> xleft ex inP inQ a0 b1e = xleft ex inP inQ a0 b1s) /\ (-1 <= s <= 1)%Z.
Proof.
  cbv zeta. unfold s01_x, bz. destruct (xleft ex inP inQ a0 b1e), (xleft ex inP inQ a0 b1s);
  repeat split; intros; try lia; try tauto; try discriminate; try (destruct H; discriminate).
Qed.

Lemma s01_x_backward_cases ex inP inQ a0 b1s b1e :
  let s := s01_x ex false inP inQ a0 b1s b1e in
  (s = 1%Z <-> xleft ex inP inQ b1s a0 = true /\ xleft ex inP inQ b1e a0 = false) /\
  (s = (-1)%Z <-> xleft ex inP inQ b1s a0 = false /\ xleft ex inP inQ b1e a0 = true) /\
  (s = 0%Z <-> xleft ex inP inQ b1s a0 = xleft ex inP inQ b1e a0) /\ (-1 <= s <= 1)%Z.
Proof.
  cbv zeta. unfold s01_x, bz. destruct (xleft ex inP inQ b1s a0), (xleft ex inP inQ b1e a0);
  repeat split; intros; try lia; try tauto; try discriminate; try (destruct H; discriminate).
Qed.

Lemma shadow01_range ex fw a0 b1 b1s b1e inA inB : (-1 <= fst (shadow01 ex fw a0 b1 b1s b1e inA inB) <= 1)%Z.
Proof.
  unfold shadow01, shadow01_g, bz.
  destruct fw;
  repeat match goal with |- context [gen_shadowsQ ?a ?b ?c] => destruct (gen_shadowsQ a b c) end; cbn; lia.
Qed.

(* ---------- Kernel12: x12 is a signed sum of Kernel02 and Kernel11 values -- *)
Definition k02s (ex fw : bool) (inA inB : kmesh) (v b : Z) : Z :=
  match kernel02 ex fw inA inB v b with Some (s, _) => s | None => 0%Z end.
Definition k11s (ex fw : bool) (inP inQ : kmesh) (a1 eAs eAe : Z) (fe : Z * Z * Z * bool) : Z :=
  let '(e, s, en, _) := fe in
  match (if fw then kernel11 ex inP inQ a1 eAs eAe e s en else kernel11 ex inP inQ e s en a1 eAs eAe) with
  | Some (s11, _) => s11 | None => 0%Z end.
Definition fsign (fe : Z * Z * Z * bool) : Z := if snd fe then 1%Z else (-1)%Z.

Lemma kernel02_none_zero ex fw inA inB v b s :
  kernel02 ex fw inA inB v b = Some (s, None) -> s = 0%Z.
Proof.
  unfold kernel02, kernel02_g.
  destruct (fold_left _ (face_edges inB b) (0%Z, sel_empty)) as [s02 st].
  destruct (s02 =? 0)%Z; [intros H; injection H as <-; reflexivity|].
  destruct (s0 st), (s1 st); intros H; try discriminate; injection H as _ H; discriminate.
Qed.

Lemma kernel11_none_zero ex inP inQ p1 p1s p1e q1 q1s q1e s :
  kernel11 ex inP inQ p1 p1s p1e q1 q1s q1e = Some (s, None) -> s = 0%Z.
Proof.
  unfold kernel11, kernel11_g.
  destruct (fold_left _ [(true, q1s); (false, q1e)] _) as [s11 st].
  destruct (s11 =? 0)%Z; [intros H; injection H as <-; reflexivity|].
  destruct (s0 st) as [[? ?]|], (s1 st) as [[? ?]|]; intros H; try discriminate.
Qed.

(* whenever Kernel12 is defined, its integer is
     sigma * (s02(start) - s02(end)) - sum over the three sides of B's face of (+-1) * s11 *)
Lemma kernel12_x12 ex fw inP inQ a1 b2 x v :
  kernel12 ex fw inP inQ a1 b2 = Some (x, v) ->
  let inA := if fw then inP else inQ in
  let inB := if fw then inQ else inP in
  let eAs := hstart inA a1 in
  let eAe := hend inA a1 in
  x = ((if fw then 1 else -1) * (k02s ex fw inA inB eAs b2 - k02s ex fw inA inB eAe b2)
       - fold_right (fun fe acc => fsign fe * k11s ex fw inP inQ a1 eAs eAe fe + acc) 0 (face_edges inB b2))%Z.
Proof.
  cbv zeta. unfold kernel12, kernel12_g. fold (kernel02 ex fw) (kernel11 ex).
  set (inA := if fw then inP else inQ). set (inB := if fw then inQ else inP).
  set (eAs := hstart inA a1). set (eAe := hend inA a1).
  unfold face_edges. cbn [fold_left fold_right].
  unfold k02s, k11s, fsign.
  destruct (face_edge inB b2 0) as [[[e0 s0_] n0] f0].
  destruct (face_edge inB b2 1) as [[[e1 s1_] n1] f1].
  destruct (face_edge inB b2 2) as [[[e2 s2_] n2] f2].
  cbn [snd].
  destruct (kernel02 ex fw inA inB eAs b2) as [[sa za]|] eqn:Ka; [|discriminate].
  assert (Za : za = None -> sa = 0%Z) by (intros ->; eapply kernel02_none_zero; exact Ka).
  destruct (kernel02 ex fw inA inB eAe b2) as [[sb zb]|] eqn:Kb; [|destruct za; discriminate].
  assert (Zb : zb = None -> sb = 0%Z) by (intros ->; eapply kernel02_none_zero; exact Kb).
  assert (N11 : forall a b c d e f s, kernel11 ex inP inQ a b c d e f = Some (s, None) -> s = 0%Z)
    by (intros; eapply kernel11_none_zero; eassumption).
  set (K0 := if fw then kernel11 ex inP inQ a1 eAs eAe e0 s0_ n0 else kernel11 ex inP inQ e0 s0_ n0 a1 eAs eAe).
  set (K1 := if fw then kernel11 ex inP inQ a1 eAs eAe e1 s1_ n1 else kernel11 ex inP inQ e1 s1_ n1 a1 eAs eAe).
  set (K2 := if fw then kernel11 ex inP inQ a1 eAs eAe e2 s2_ n2 else kernel11 ex inP inQ e2 s2_ n2 a1 eAs eAe).
  assert (Z0_ : forall s, K0 = Some (s, None) -> s = 0%Z) by (intros s; unfold K0; destruct fw; apply N11).
  assert (Z1_ : forall s, K1 = Some (s, None) -> s = 0%Z) by (intros s; unfold K1; destruct fw; apply N11).
  assert (Z2_ : forall s, K2 = Some (s, None) -> s = 0%Z) by (intros s; unfold K2; destruct fw; apply N11).
  clearbody K0 K1 K2. clear N11 Ka Kb.
  destruct za as [za|]; [|specialize (Za eq_refl); subst sa];
  (destruct zb as [zb|]; [|specialize (Zb eq_refl); subst sb]).
  all: destruct K0 as [[c0 [[[[? ?] ?] ?]|]]|]; try discriminate; try (specialize (Z0_ _ eq_refl); subst c0).
  all: destruct K1 as [[c1 [[[[? ?] ?] ?]|]]|]; try discriminate; try (specialize (Z1_ _ eq_refl); subst c1).
  all: destruct K2 as [[c2 [[[[? ?] ?] ?]|]]|]; try discriminate; try (specialize (Z2_ _ eq_refl); subst c2).
  all: cbn [fst snd].
  all: match goal with
       | |- context [(?X =? 0)%Z] => destruct (X =? 0)%Z eqn:EX
       end.
  all: intros H; try (injection H as <- _; apply Z.eqb_eq in EX; destruct fw, f0, f1, f2; cbn [Bool.eqb] in *; lia).
  all: match type of H with
       | match ?A with _ => _ end = _ => destruct A as [[? ?]|]; try discriminate
       end.
  all: match type of H with
       | match ?A with _ => _ end = _ => destruct A as [[? ?]|]; try discriminate
       end.
  all: match type of H with
       | context [intersect ?a ?b ?c ?d] => destruct (intersect a b c d) as [[[? ?] ?] ?]
       end.
  all: injection H as <- _; destruct fw, f0, f1, f2; cbn [Bool.eqb]; lia.
Qed.

(* ---------- sums over the faces of a closed mesh ---------------------------- *)
Local Open Scope Z_scope.

Definition lsum (g : Z -> Z) (l : list Z) : Z := fold_right (fun x acc => g x + acc) 0 l.
Definition zsum (g : Z -> Z) (n : nat) : Z := lsum g (map Z.of_nat (seq 0 n)).

Lemma lsum_cons g x l : lsum g (x :: l) = g x + lsum g l.
Proof. reflexivity. Qed.

Lemma lsum_app g l1 l2 : lsum g (l1 ++ l2) = lsum g l1 + lsum g l2.
Proof. induction l1 as [|x l IH]; [reflexivity|]. rewrite <- app_comm_cons, !lsum_cons, IH. lia. Qed.

Lemma lsum_perm g l1 l2 : Permutation l1 l2 -> lsum g l1 = lsum g l2.
Proof.
  induction 1 as [|x l l' _ IH|x y l|l l' l'' _ IH1 _ IH2]; rewrite ?lsum_cons; lia.
Qed.

Lemma lsum_ext g h l : (forall x, In x l -> g x = h x) -> lsum g l = lsum h l.
Proof.
  induction l as [|x l IH]; intros H; [reflexivity|]. rewrite !lsum_cons.
  rewrite IH by (intros; apply H; right; assumption).
  rewrite (H x) by (left; reflexivity). reflexivity.
Qed.

Lemma lsum_map g f l : lsum g (map f l) = lsum (fun x => g (f x)) l.
Proof. induction l as [|x l IH]; [reflexivity|]. cbn [map]. rewrite !lsum_cons, IH. reflexivity. Qed.

Lemma lsum_opp g l : lsum (fun x => - g x) l = - lsum g l.
Proof. induction l as [|x l IH]; [reflexivity|]. rewrite !lsum_cons, IH. lia. Qed.

Lemma lsum_zero g l : (forall x, In x l -> g x = 0) -> lsum g l = 0.
Proof.
  induction l as [|x l IH]; intros H; [reflexivity|]. rewrite lsum_cons, IH by (intros; apply H; right; assumption).
  rewrite (H x) by (left; reflexivity). reflexivity.
Qed.

Lemma lsum_plus g h l : lsum (fun x => g x + h x) l = lsum g l + lsum h l.
Proof. induction l as [|x l IH]; [reflexivity|]. rewrite !lsum_cons, IH. lia. Qed.

Lemma lsum_scale c g l : lsum (fun x => c * g x) l = c * lsum g l.
Proof. induction l as [|x l IH]; [cbn; lia|]. rewrite !lsum_cons, IH. lia. Qed.

Lemma in_range n x : In x (map Z.of_nat (seq 0 n)) <-> 0 <= x < Z.of_nat n.
Proof.
  rewrite in_map_iff. split.
  - intros [k [<- H]]. apply in_seq in H. lia.
  - intros H. exists (Z.to_nat x). split; [lia|]. apply in_seq. lia.
Qed.

Lemma range_NoDup n : NoDup (map Z.of_nat (seq 0 n)).
Proof.
  apply FinFun.Injective_map_NoDup; [|apply seq_NoDup]. intros a b H. lia.
Qed.

(* a sum over 0..n-1 of a function that changes sign under an involution of the range vanishes *)
Lemma involution_sum n (pr g : Z -> Z) :
  (forall h, 0 <= h < Z.of_nat n -> 0 <= pr h < Z.of_nat n /\ pr (pr h) = h /\ g (pr h) = - g h) ->
  zsum g n = 0.
Proof.
  intros H. unfold zsum. set (L := map Z.of_nat (seq 0 n)).
  assert (P : Permutation (map pr L) L).
  { apply NoDup_Permutation_bis.
    - (* injective on L *)
      assert (Inj : forall l, NoDup l -> (forall x, In x l -> In x L) -> NoDup (map pr l)).
      { induction l as [|x l IH]; intros ND Hin; cbn [map]; constructor.
        - inversion ND as [|? ? Hn ND']; subst. intros I. apply in_map_iff in I. destruct I as [y [E Iy]].
          assert (y = x).
          { destruct (H x) as [_ [Hx _]]; [apply in_range, Hin; left; reflexivity|].
            destruct (H y) as [_ [Hy _]]; [apply in_range, Hin; right; exact Iy|]. congruence. }
          subst y. contradiction.
        - inversion ND; subst. apply IH; [assumption|]. intros; apply Hin; right; assumption. }
      apply Inj; [apply range_NoDup|auto].
    - rewrite map_length. lia.
    - intros y I. apply in_map_iff in I. destruct I as [x [<- Ix]]. apply in_range. apply H. apply in_range. exact Ix. }
  assert (E : lsum g L = - lsum g L).
  { rewrite <- (lsum_perm g _ _ P) at 1. rewrite lsum_map. rewrite <- lsum_opp.
    apply lsum_ext. intros x Ix. apply H. apply in_range. exact Ix. }
  lia.
Qed.

Lemma zsum_S g n : zsum g (S n) = zsum g n + g (Z.of_nat n).
Proof.
  unfold zsum. rewrite seq_S, map_app, lsum_app. cbn [map plus]. rewrite lsum_cons. cbn [lsum fold_right]. lia.
Qed.

(* closed oriented halfedge structure: pairing is an involution that reverses the edge *)
Definition closed_mesh (m : kmesh) (nTri : nat) : Prop :=
  forall h, 0 <= h < 3 * Z.of_nat nTri ->
    0 <= hpair m h < 3 * Z.of_nat nTri /\ hpair m (hpair m h) = h /\
    hstart m (hpair m h) = hend m h /\ hend m (hpair m h) = hstart m h /\ hstart m h <> hend m h.

Lemma face_edge_he m h : 0 <= h ->
  face_edge m (h / 3) (h mod 3) =
  if hstart m h <? hend m h then (h, hstart m h, hend m h, true) else (hpair m h, hend m h, hstart m h, false).
Proof.
  intros Hh. unfold face_edge, hend, next_he, next3.
  pose proof (Z.div_mod h 3 ltac:(lia)) as D. pose proof (Z.mod_pos_bound h 3 ltac:(lia)) as B.
  replace (3 * (h / 3) + h mod 3) with h by lia.
  assert (E : 3 * (h / 3) + (h mod 3 + 1) mod 3 = (if h mod 3 =? 2 then h - 2 else h + 1)).
  { destruct (h mod 3 =? 2) eqn:E2.
    - apply Z.eqb_eq in E2. rewrite E2. change ((2 + 1) mod 3) with 0. lia.
    - apply Z.eqb_neq in E2. rewrite Z.mod_small by lia. lia. }
  rewrite E. reflexivity.
Qed.

(* the three-sides sum over all faces is a sum over all halfedges *)
Lemma faces_sum_halfedges m (T : Z * Z * Z * bool -> Z) nTri :
  zsum (fun b => fold_right (fun fe acc => T fe + acc) 0 (face_edges m b)) nTri =
  zsum (fun h => T (face_edge m (h / 3) (h mod 3))) (3 * nTri).
Proof.
  induction nTri as [|n IH]; [reflexivity|].
  rewrite zsum_S, IH. replace (3 * S n)%nat with (S (S (S (3 * n)))) by lia.
  rewrite !zsum_S. unfold face_edges. cbn [fold_right].
  replace (Z.of_nat (3 * n)) with (3 * Z.of_nat n) by lia.
  replace (Z.of_nat (S (3 * n))) with (3 * Z.of_nat n + 1) by lia.
  replace (Z.of_nat (S (S (3 * n)))) with (3 * Z.of_nat n + 2) by lia.
  replace (3 * Z.of_nat n / 3) with (Z.of_nat n) by (apply Z.div_unique with 0; lia).
  replace ((3 * Z.of_nat n + 1) / 3) with (Z.of_nat n) by (apply Z.div_unique with 1; lia).
  replace ((3 * Z.of_nat n + 2) / 3) with (Z.of_nat n) by (apply Z.div_unique with 2; lia).
  replace (3 * Z.of_nat n mod 3) with 0 by (apply Z.mod_unique with (Z.of_nat n); lia).
  replace ((3 * Z.of_nat n + 1) mod 3) with 1 by (apply Z.mod_unique with (Z.of_nat n); lia).
  replace ((3 * Z.of_nat n + 2) mod 3) with 2 by (apply Z.mod_unique with (Z.of_nat n); lia).
  lia.
Qed.

(* any quantity attached to the undirected edges of a closed mesh, counted with
   the LoadFaceEdges direction flag over all faces, cancels *)
Lemma closed_mesh_edge_terms_cancel m nTri (K : Z * Z * Z -> Z) :
  closed_mesh m nTri ->
  zsum (fun b => fold_right (fun fe acc => fsign fe * K (fst fe) + acc) 0 (face_edges m b)) nTri = 0.
Proof.
  intros C. rewrite (faces_sum_halfedges m (fun fe => fsign fe * K (fst fe))).
  apply (involution_sum (3 * nTri) (hpair m)). intros h Hh.
  replace (Z.of_nat (3 * nTri)) with (3 * Z.of_nat nTri) in * by lia.
  destruct (C h Hh) as [R [I [S1 [S2 Ne]]]]. split; [exact R|]. split; [exact I|].
  rewrite !face_edge_he by lia. rewrite S1, S2, I.
  destruct (hstart m h <? hend m h) eqn:E1, (hend m h <? hstart m h) eqn:E2; unfold fsign; cbn [fst snd]; try lia.
Qed.

(* ---------- from the kernels to the winding numbers ------------------------- *)
Definition x12v (ex fw : bool) (inP inQ : kmesh) (a1 b : Z) : Z :=
  match kernel12 ex fw inP inQ a1 b with Some (x, _) => x | None => 0 end.

(* the quantity Winding03 accumulates for a vertex: sigma * sum over the faces of B of s02 *)
Definition vertex_winding (ex fw : bool) (inA inB : kmesh) (nTriB : nat) (v : Z) : Z :=
  (if fw then 1 else -1) * zsum (k02s ex fw inA inB v) nTriB.

(* Summed over ALL faces of a closed mesh B, the x12 of an edge of A is the
   difference of the vertex windings of its end points: the Kernel11 terms
   cancel because every edge of B is seen once in each direction. *)
Lemma x12_sum_l (ex fw : bool) (inP inQ : kmesh) (nTriB : nat) (a1 : Z) :
  let inA := if fw then inP else inQ in
  let inB := if fw then inQ else inP in
  closed_mesh inB nTriB ->
  (forall b, 0 <= b < Z.of_nat nTriB -> kernel12 ex fw inP inQ a1 b <> None) ->
  zsum (x12v ex fw inP inQ a1) nTriB =
  (if fw then 1 else -1) *
  (zsum (k02s ex fw inA inB (hstart inA a1)) nTriB - zsum (k02s ex fw inA inB (hend inA a1)) nTriB).
Proof.
  cbv zeta. set (inA := if fw then inP else inQ). set (inB := if fw then inQ else inP).
  intros C D. unfold zsum.
  set (K := fun t : Z * Z * Z => k11s ex fw inP inQ a1 (hstart inA a1) (hend inA a1) (t, true)).
  rewrite (lsum_ext _ (fun b => ((if fw then 1 else -1) * k02s ex fw inA inB (hstart inA a1) b
                                 + - ((if fw then 1 else -1) * k02s ex fw inA inB (hend inA a1) b))
                                + - fold_right (fun fe acc => fsign fe * K (fst fe) + acc) 0 (face_edges inB b))).
  - rewrite !lsum_plus, !lsum_opp, !lsum_scale.
    pose proof (closed_mesh_edge_terms_cancel inB nTriB K C) as Z0. unfold zsum in Z0. rewrite Z0. lia.
  - intros b Hb. apply in_range in Hb. unfold x12v.
    destruct (kernel12 ex fw inP inQ a1 b) as [[x v]|] eqn:E; [|exfalso; exact (D b Hb E)].
    rewrite (kernel12_x12 ex fw inP inQ a1 b x v E). fold inA inB.
    assert (F : forall l, fold_right (fun fe acc => fsign fe * k11s ex fw inP inQ a1 (hstart inA a1) (hend inA a1) fe + acc) 0 l
                        = fold_right (fun fe acc => fsign fe * K (fst fe) + acc) 0 l).
    { induction l as [|[[[e s] en] f] l IH]; [reflexivity|]. cbn [fold_right]. rewrite IH. reflexivity. }
    rewrite F. lia.
Qed.

(* Winding03: every vertex of A receives its own vertex winding, whatever
   representatives the union-find picked, provided the recorded intersection
   list is complete (an unbroken edge has x12 = 0 against every face of B). *)
Lemma winding03_is_vertex_winding_l (ex fw : bool) (inP inQ : kmesh) (nHalfA nTriB : nat) (broken : list Z) :
  let inA := if fw then inP else inQ in
  let inB := if fw then inQ else inP in
  closed_mesh inB nTriB ->
  (forall e b, 0 <= e < Z.of_nat nHalfA -> 0 <= b < Z.of_nat nTriB -> kernel12 ex fw inP inQ e b <> None) ->
  (forall e b, 0 <= e < Z.of_nat nHalfA -> hstart inA e < hend inA e -> is_broken broken e = false ->
               0 <= b < Z.of_nat nTriB -> x12v ex fw inP inQ e b = 0) ->
  forall v, winding03 (unbroken_edges (hstart inA) (hend inA) nHalfA broken)
                      (vertex_winding ex fw inA inB nTriB) v
            = vertex_winding ex fw inA inB nTriB v.
Proof.
  cbv zeta. intros C D U v. apply winding03_spec_l; [|reflexivity].
  intros x y I. apply in_unbroken_edges in I. destruct I as [e [He [Hs [Hn [Hlt Hb]]]]].
  pose proof (x12_sum_l ex fw inP inQ nTriB e C (fun b Hb' => D e b He Hb')) as S. cbv zeta in S.
  assert (Z0 : zsum (x12v ex fw inP inQ e) nTriB = 0).
  { unfold zsum. apply lsum_zero. intros b Ib. apply in_range in Ib. apply U; try assumption. rewrite Hs, Hn. exact Hlt. }
  rewrite Z0, Hs, Hn in S. unfold vertex_winding. destruct fw; lia.
Qed.

(* the executable sum of KernelDefs is that quantity *)
Lemma w03_sum_value ex fw inA inB nTriB v :
  (forall b, 0 <= b < Z.of_nat nTriB -> kernel02 ex fw inA inB v b <> None) ->
  w03_sum ex fw inA inB (map Z.of_nat (seq 0 nTriB)) v = Some (vertex_winding ex fw inA inB nTriB v).
Proof.
  intros D. unfold w03_sum, w03_sum_g, vertex_winding, zsum. fold (kernel02 ex fw).
  set (L := map Z.of_nat (seq 0 nTriB)).
  assert (G : forall l acc, (forall b, In b l -> kernel02 ex fw inA inB v b <> None) ->
    fold_left (fun (a : option Z) (b : Z) =>
      match a with
      | None => None
      | Some a0 => match kernel02 ex fw inA inB v b with
                   | None => None
                   | Some (s, _) => Some (a0 + s * (if fw then 1 else -1))
                   end
      end) l (Some acc) = Some (acc + (if fw then 1 else -1) * lsum (k02s ex fw inA inB v) l)).
  { induction l as [|b l IH]; intros acc Hd; cbn [fold_left].
    - cbn. f_equal. lia.
    - rewrite lsum_cons. unfold k02s at 1.
      destruct (kernel02 ex fw inA inB v b) as [[s z]|] eqn:E; [|exfalso; apply (Hd b); [left; reflexivity|exact E]].
      rewrite IH by (intros; apply Hd; right; assumption). f_equal. lia. }
  rewrite G; [f_equal; lia|]. intros b Ib. apply D. apply in_range. exact Ib.
Qed.

(* ---------- Kernel02 / Kernel11 as crossing sums ---------------------------- *)
(* Kernel02: before the z test, s02 is the crossing number of the +y ray from
   the (perturbed) vertex with the three (perturbed) sides of the face in the
   xy-projection: each side contributes its Shadow01 value with the sign of its
   direction.  After the test it is that number when the face is above the
   vertex in the perturbed z order, and 0 otherwise. *)
Definition s02_pre (ex fw : bool) (inA inB : kmesh) (a0 b2 : Z) : Z :=
  fold_right (fun fe acc =>
    let '(e, s, en, isF) := fe in
    (if Bool.eqb fw isF then -1 else 1) * fst (shadow01 ex fw a0 e s en inA inB) + acc) 0 (face_edges inB b2).

Lemma shadow01_none_zero ex fw a0 b1 b1s b1e inA inB s :
  shadow01 ex fw a0 b1 b1s b1e inA inB = (s, None) -> s = 0.
Proof.
  unfold shadow01, shadow01_g.
  match goal with |- context [(?X =? 0)] => destruct (X =? 0) end; intros H; [injection H as <-; reflexivity|discriminate].
Qed.

Lemma kernel02_s02 ex fw inA inB a0 b2 s z :
  kernel02 ex fw inA inB a0 b2 = Some (s, z) ->
  (s = 0 \/ s = s02_pre ex fw inA inB a0 b2) /\
  (s <> 0 -> exists z02, z = Some z02 /\
     (if fw then gen_shadowsQ (vz (vpos inA a0)) z02 (- vz (fnorm inB b2))%Q
      else gen_shadowsQ z02 (vz (vpos inA a0)) (gen_withSignQ ex (vz (fnorm inB b2)))) = true).
Proof.
  unfold kernel02, kernel02_g, s02_pre. fold (shadow01 ex fw).
  unfold face_edges. cbn [fold_left fold_right].
  destruct (face_edge inB b2 0) as [[[e0 s0_] n0] f0].
  destruct (face_edge inB b2 1) as [[[e1 s1_] n1] f1].
  destruct (face_edge inB b2 2) as [[[e2 s2_] n2] f2].
  destruct (shadow01 ex fw a0 e0 s0_ n0 inA inB) as [c0 y0] eqn:E0.
  destruct (shadow01 ex fw a0 e1 s1_ n1 inA inB) as [c1 y1] eqn:E1.
  destruct (shadow01 ex fw a0 e2 s2_ n2 inA inB) as [c2 y2] eqn:E2.
  assert (Z0 : y0 = None -> c0 = 0) by (intros ->; eapply shadow01_none_zero; exact E0).
  assert (Z1 : y1 = None -> c1 = 0) by (intros ->; eapply shadow01_none_zero; exact E1).
  assert (Z2 : y2 = None -> c2 = 0) by (intros ->; eapply shadow01_none_zero; exact E2).
  clear E0 E1 E2. cbn [fst].
  destruct y0 as [y0|]; [|specialize (Z0 eq_refl); subst c0];
  (destruct y1 as [y1|]; [|specialize (Z1 eq_refl); subst c1]);
  (destruct y2 as [y2|]; [|specialize (Z2 eq_refl); subst c2]); cbn [fst snd].
  all: match goal with |- context [(?X =? 0)] =>
         destruct (X =? 0) eqn:EX;
         [intros H; injection H as <- <-; split; [left; reflexivity|intros N; exfalso; apply N; reflexivity]|intros H]
       end.
  all: match type of H with match ?A with _ => _ end = _ => destruct A; try discriminate end.
  all: match type of H with match ?A with _ => _ end = _ => destruct A; try discriminate end.
  all: injection H as <- <-.
  all: match goal with |- context [if ?C then _ else 0] => destruct C eqn:EC end.
  all: split; [first [left; reflexivity|right; lia]|].
  all: intros N; try (exfalso; apply N; reflexivity).
  all: eexists; split; [reflexivity|]; destruct fw; exact EC.
Qed.

Lemma closed_meshb_sound m nTri : closed_meshb m nTri = true -> closed_mesh m nTri.
Proof.
  unfold closed_meshb, closed_mesh. intros H h Hh. rewrite forallb_forall in H.
  specialize (H (Z.to_nat h) ltac:(apply in_seq; lia)). cbv zeta in H. rewrite Z2Nat.id in H by lia.
  rewrite !andb_true_iff, negb_true_iff in H. destruct H as [[[[[H1 H2] H3] H4] H5] H6].
  repeat split; lia.
Qed.

(* a concrete instance of all hypotheses of the chain: two tetrahedra (the halfedge
   table of Manifold::Tetrahedron), the second translated into general position *)
Local Open Scope Q_scope.
Definition ex_tet_start : list Z := [2;0;1; 0;3;1; 2;3;0; 3;2;1]%Z.
Definition ex_tet_pair : list Z := [8;5;10; 7;11;1; 9;3;0; 6;2;4]%Z.
Definition ex_tet_pos (dx dy dz : Q) : list v3 :=
  [V3 (-1 + dx) (-1 + dy) (1 + dz); V3 (-1 + dx) (1 + dy) (-1 + dz); V3 (1 + dx) (-1 + dy) (-1 + dz); V3 (1 + dx) (1 + dy) (1 + dz)].
Definition ex_tet (dx dy dz : Q) : kmesh :=
  KMesh (fun i => nth (Z.to_nat i) (ex_tet_pos dx dy dz) (V3 0 0 0))
        (fun i => nth (Z.to_nat i) (ex_tet_pos 0 0 0) (V3 0 0 0))
        (fun i => nth (Z.to_nat i) [V3 (-1) (-1) (-1); V3 (-1) 1 1; V3 1 (-1) 1; V3 1 1 (-1)] (V3 0 0 0))
        (fun i => nth (Z.to_nat i) ex_tet_start (-1)%Z)
        (fun i => nth (Z.to_nat i) ex_tet_pair (-1)%Z).
Local Close Scope Q_scope.

Example kernel_chain_example :
  let P := ex_tet 0 0 0 in
  let Q := ex_tet (1 # 2) (1 # 3) (1 # 5) in
  closed_mesh Q 4 /\ closed_mesh P 4 /\
  (forall e b, 0 <= e < 12 -> 0 <= b < 4 -> kernel12 false true P Q e b <> None) /\
  map (fun v => vertex_winding false true P Q 4 v) [0; 1; 2; 3] = [0; 0; 0; 1] /\
  map (fun e => zsum (x12v false true P Q e) 4) [1; 3; 6] = [0; -1; -1].
Proof.
  cbv zeta. split; [apply closed_meshb_sound; vm_compute; reflexivity|].
  split; [apply closed_meshb_sound; vm_compute; reflexivity|].
  split.
  - intros e b He Hb.
    assert (E : In e [0;1;2;3;4;5;6;7;8;9;10;11]) by (cbn; lia).
    assert (B : In b [0;1;2;3]) by (cbn; lia).
    assert (A : forallb (fun e => forallb (fun b => match kernel12 false true (ex_tet 0 0 0) (ex_tet (1 # 2) (1 # 3) (1 # 5)) e b with
                                                   | Some _ => true | None => false end) [0;1;2;3])
                        [0;1;2;3;4;5;6;7;8;9;10;11] = true) by (vm_compute; reflexivity).
    rewrite forallb_forall in A. specialize (A e E). rewrite forallb_forall in A. specialize (A b B).
    destruct (kernel12 false true (ex_tet 0 0 0) (ex_tet (1 # 2) (1 # 3) (1 # 5)) e b); [discriminate|discriminate A].
  - split; vm_compute; reflexivity.
Qed.
