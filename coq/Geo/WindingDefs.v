(* Exact point-in-solid classifier over integer coordinates (C02; reused by
   C03, C16, C17, C18).  Model only: no proofs here.

   Coordinates are integers: the driver scales all doubles of one test by a
   common power of two (doubles are dyadic rationals), so every predicate below
   (orientation determinants) is exact.

   winding tris p = signed number of crossings of the ray {p + t*(0,0,1), t>0}
   with the oriented triangles, counted with a half-open rule on the
   xy-projection, so that it is total and well defined when the ray passes
   through an edge or a vertex of the projection:

   * edge_cross a b q : the usual crossing-number rule for the 2-D ray from q
     in direction +x: an upward edge (a.y <= q.y < b.y) counts +1 when q is
     strictly left of it, a downward edge (b.y <= q.y < a.y) counts -1 when q
     is strictly right of the reversed edge; horizontal edges never count.
     (Equivalent to classifying the symbolically perturbed point
     q + (eps^2, eps).)  edge_cross b a q = - edge_cross a b q, so a projected
     point is attributed to exactly one of two triangles sharing an edge.
   * wn2 a b c q = sum over the three directed edges: +1 / -1 when the
     (perturbed) q is inside a counter-clockwise / clockwise projected
     triangle, 0 outside and for degenerate projections.
   * the triangle is hit when the point of its plane above q is strictly above
     p:  det(a-p, b-p, c-p) = (z_plane(q) - p.z) * orient2(a,b,c), so the test
     is  wn2 * det > 0.

   Convention: an outward-oriented closed surface has winding 1 inside.  *)
From Coq Require Import ZArith List Bool.
Import ListNotations.
Local Open Scope Z_scope.

Definition pt : Type := (Z * Z * Z)%type.
Definition tri : Type := (pt * pt * pt)%type.

Definition px (p : pt) : Z := fst (fst p).
Definition py (p : pt) : Z := snd (fst p).
Definition pz (p : pt) : Z := snd p.

(* twice the signed area of (a,b,q) in the xy-projection *)
Definition orient2 (a b q : pt) : Z :=
  (px b - px a) * (py q - py a) - (py b - py a) * (px q - px a).

Definition det3 (a b c : pt) : Z :=
    px a * (py b * pz c - pz b * py c)
  - py a * (px b * pz c - pz b * px c)
  + pz a * (px b * py c - py b * px c).

Definition psub (a p : pt) : pt := (px a - px p, py a - py p, pz a - pz p).

Definition edge_cross (a b q : pt) : Z :=
  if (py a <=? py q) && (py q <? py b) then (if 0 <? orient2 a b q then 1 else 0)
  else if (py b <=? py q) && (py q <? py a) then (if orient2 a b q <? 0 then -1 else 0)
  else 0.

Definition wn2 (a b c q : pt) : Z := edge_cross a b q + edge_cross b c q + edge_cross c a q.

(* specification form: no filtering *)
Definition tri_cross (t : tri) (p : pt) : Z :=
  let '(a, b, c) := t in
  let w := wn2 a b c p in
  if w =? 0 then 0
  else if 0 <? w * det3 (psub a p) (psub b p) (psub c p) then w else 0.

Definition winding (tris : list tri) (p : pt) : Z :=
  fold_right (fun t acc => tri_cross t p + acc) 0 tris.

(* executable form: bounding-interval rejection by comparisons before any
   multiplication (Winding.tri_cross_fast_ok proves it equal to tri_cross) *)
Definition min3 (a b c : Z) : Z := Z.min a (Z.min b c).
Definition max3 (a b c : Z) : Z := Z.max a (Z.max b c).

Definition tri_cross_fast (t : tri) (p : pt) : Z :=
  let '(a, b, c) := t in
  if (py p <? min3 (py a) (py b) (py c)) || (max3 (py a) (py b) (py c) <=? py p)
     || (max3 (px a) (px b) (px c) <? px p) then 0
  else tri_cross t p.

Definition winding_fast (tris : list tri) (p : pt) : Z :=
  fold_right (fun t acc => tri_cross_fast t p + acc) 0 tris.

Definition inside (tris : list tri) (p : pt) : bool := negb (winding_fast tris p =? 0).

(* 6 x signed volume *)
Definition volume6 (tris : list tri) : Z :=
  fold_right (fun t acc => let '(a, b, c) := t in det3 a b c + acc) 0 tris.

Definition flip_tri (t : tri) : tri := let '(a, b, c) := t in (a, c, b).
Definition rot_tri (t : tri) : tri := let '(a, b, c) := t in (b, c, a).

(* ---- the cube of Manifold::Impl::Impl(Shape::Cube) (src/impl.cpp) ---------
   vertPos k = ((k>>2)&1, (k>>1)&1, k&1); the check compares both tables with
   the source text on every run. *)
Definition cube_vert_bits : list (Z * Z * Z) :=
  [(0,0,0); (0,0,1); (0,1,0); (0,1,1); (1,0,0); (1,0,1); (1,1,0); (1,1,1)].
Definition cube_tri_verts : list (nat * nat * nat) :=
  [(1,0,4); (2,4,0); (1,3,0); (3,1,5); (3,2,0); (3,7,2);
   (5,4,6); (5,1,4); (6,4,2); (7,6,2); (7,3,5); (7,5,6)]%nat.

(* vertex k of the cube scaled/translated to the box [lo,hi] *)
Definition box_vert (lo hi : pt) (k : nat) : pt :=
  let '(bx, by_, bz) := nth k cube_vert_bits (0,0,0) in
  (if bx =? 0 then px lo else px hi,
   if by_ =? 0 then py lo else py hi,
   if bz =? 0 then pz lo else pz hi).

Definition box_tris (lo hi : pt) : list tri :=
  map (fun t : nat * nat * nat => let '(i, j, k) := t in
         (box_vert lo hi i, box_vert lo hi j, box_vert lo hi k)) cube_tri_verts.

Definition in_box (lo hi p : pt) : bool :=
  (px lo <? px p) && (px p <? px hi) && (py lo <? py p) && (py p <? py hi) &&
  (pz lo <? pz p) && (pz p <? pz hi).

(* ---- CSG expressions over lattice solids: the specification side ---------- *)
Inductive optype := Add | Subtract | Intersect.

Definition formula (o : optype) (a b : bool) : bool :=
  match o with Add => a || b | Subtract => a && negb b | Intersect => a && b end.

(* leaves: axis-aligned boxes (meshes built by Manifold::Cube + Scale +
   Translate) and open half-spaces  {x_axis > off} / {x_axis < off}
   (the two parts of SplitByPlane / TrimByPlane) *)
Inductive csg :=
| LBox (lo hi : pt)
| LHalf (axis : nat) (greater : bool) (off : Z)
| Node (o : optype) (a b : csg).

Definition coord (axis : nat) (p : pt) : Z :=
  match axis with O => px p | S O => py p | _ => pz p end.

(* spec as the property states it: membership in a leaf solid is "winding
   number of the leaf's own mesh is non-zero" *)
Fixpoint csg_inside_w (e : csg) (p : pt) : bool :=
  match e with
  | LBox lo hi => negb (winding (box_tris lo hi) p =? 0)
  | LHalf ax g off => if g then off <? coord ax p else coord ax p <? off
  | Node o a b => formula o (csg_inside_w a p) (csg_inside_w b p)
  end.

(* executable spec: comparisons only (Winding.voxel_spec: equal to the above
   on points in general position w.r.t. the leaves) *)
Fixpoint csg_inside (e : csg) (p : pt) : bool :=
  match e with
  | LBox lo hi => in_box lo hi p
  | LHalf ax g off => if g then off <? coord ax p else coord ax p <? off
  | Node o a b => formula o (csg_inside a p) (csg_inside b p)
  end.

(* every leaf coordinate even (doubled lattice), boxes non-empty *)
Definition even_pt (p : pt) : bool := Z.even (px p) && Z.even (py p) && Z.even (pz p).
Definition odd_pt (p : pt) : bool := Z.odd (px p) && Z.odd (py p) && Z.odd (pz p).
Fixpoint csg_wf (e : csg) : bool :=
  match e with
  | LBox lo hi => even_pt lo && even_pt hi && (px lo <? px hi) && (py lo <? py hi) && (pz lo <? pz hi)
  | LHalf ax g off => Z.even off
  | Node _ a b => csg_wf a && csg_wf b
  end.

(* ---- the lattice checker run on the implementation's output ---------------
   Coordinates are scaled by s = 2^k (k >= 1) by the driver; voxel [i,i+1)^3
   of the grid {0..n-1}^3 has centre ((2i+1) s/2, ...).  Returns
   (number of voxel centres where the output's winding differs from the
    indicator of the formula, number of voxels inside by the formula,
    volume6 of the output). *)
Fixpoint zrange (lo : Z) (n : nat) : list Z :=
  match n with O => [] | S k => lo :: zrange (lo + 1) k end.

Definition centres (n : nat) (h : Z) : list pt :=
  flat_map (fun i => flat_map (fun j => map (fun k => ((2*i+1)*h, (2*j+1)*h, (2*k+1)*h))
                                             (zrange 0 n)) (zrange 0 n)) (zrange 0 n).

Definition b2z (b : bool) : Z := if b then 1 else 0.

(* e is given in doubled lattice coordinates (unit voxel = 2), the output in
   coordinates scaled by 2*h *)
Definition scale_pt (h : Z) (p : pt) : pt := (px p * h, py p * h, pz p * h).

Definition lattice_check (e : csg) (out : list tri) (n : nat) (h : Z) : Z * Z * Z :=
  let cs := centres n 1 in
  let bad := fold_right (fun c acc =>
               if winding_fast out (scale_pt h c) =? b2z (csg_inside e c) then acc else acc + 1) 0 cs in
  let cnt := fold_right (fun c acc => acc + b2z (csg_inside e c)) 0 cs in
  (bad, cnt, volume6 out).
