(* C16 — exact convex-hull checker over integer coordinates (definitions only).
   Coordinates are integers (all doubles of one test scaled by a common power
   of two); eps2 is an integer upper bound of (epsilon * scale)^2.

   hull_check vpos tris pts eps2 accepts the output (vpos, tris) of
   Manifold::Hull for the input points pts when
   - the result has no triangles and the input lies in a plane, or
   - the mesh is a closed oriented 2-manifold (Topo/CheckMeshDefs.check_mesh),
     every mesh vertex is (bit-)equal to an input point, every input point is
     on the inner side of every face plane within eps (exact), and either the
     input lies in a plane (then so does the mesh: a flat, zero-volume surface,
     which is what the pinned library returns for degenerate clouds - its
     tests assert !IsEmpty() and Simplify().IsEmpty() for them) or some mesh
     vertex is strictly on the inner side of some face (the mesh spans volume). *)
From Coq Require Import ZArith List Bool.
From MV Require Import Geo.WindingDefs Geo.MeasureDefs Topo.CheckMeshDefs.
Import ListNotations.
Local Open Scope Z_scope.

Definition pt_eqb (a b : pt) : bool := (px a =? px b) && (py a =? py b) && (pz a =? pz b).
Definition is_zero (u : pt) : bool := (px u =? 0) && (py u =? 0) && (pz u =? 0).

(* outward normal of the counter-clockwise face (a,b,c) and the signed
   "height" of p over its plane (times |n|): positive = outside *)
Definition fnormal (a b c : pt) : pt := cross (psub b a) (psub c a).
Definition side (a b c p : pt) : Z := dot (fnormal a b c) (psub p a).

(* p is below the plane of (a,b,c) or at most eps above it:
   side / |n| <= eps, decided as side <= 0 \/ side^2 <= eps^2 |n|^2 *)
Definition within_eps (a b c p : pt) (eps2 : Z) : bool :=
  let s := side a b c p in (s <=? 0) || (s * s <=? eps2 * norm2 (fnormal a b c)).

Definition pos (vpos : list pt) (i : Z) : pt := nth (Z.to_nat i) vpos (0, 0, 0).
Definition face_pts (vpos : list pt) (t : Z * Z * Z) : WindingDefs.tri :=
  let '(i, j, k) := t in (pos vpos i, pos vpos j, pos vpos k).

(* ---- degenerate input: all points in one plane ------------------------- *)
Fixpoint first_such (f : pt -> bool) (l : list pt) : option pt :=
  match l with [] => None | p :: r => if f p then Some p else first_such f r end.

(* a non-zero vector orthogonal to u <> 0 *)
Definition ortho (u : pt) : pt :=
  if (px u =? 0) && (py u =? 0) then (0, - pz u, py u) (* e_x x u *) else (- py u, px u, 0) (* e_z x u *).

(* the plane (point, normal) found by scanning the input, None when the input
   has no two distinct points (any plane through the point will do) *)
Definition find_plane (pts : list pt) : option (pt * pt) :=
  match pts with
  | [] => None
  | p0 :: r =>
    match first_such (fun p => negb (pt_eqb p p0)) r with
    | None => Some (p0, (0, 0, 1))
    | Some p1 =>
      let u := psub p1 p0 in
      match first_such (fun p => negb (is_zero (cross u (psub p p0)))) r with
      | None => Some (p0, ortho u)
      | Some p2 => Some (p0, cross u (psub p2 p0))
      end
    end
  end.

Definition flat_check (pts : list pt) : bool :=
  match find_plane pts with
  | None => true
  | Some (p0, n) => negb (is_zero n) && forallb (fun p => dot n (psub p p0) =? 0) pts
  end.

(* ---- the checker --------------------------------------------------------- *)
(* 0 accept; 1 not a closed 2-manifold; 2 a mesh vertex is not an input point;
   3 an input point is more than eps outside a face plane; 4 empty result but
   the input spans volume; 5 non-empty result that spans no volume *)
Definition hull_check_code (vpos : list pt) (tris : list (Z * Z * Z)) (pts : list pt) (eps2 : Z) : Z :=
  match tris with
  | [] => if flat_check pts then 0 else 4
  | _ =>
    if negb (check_mesh (Z.of_nat (length vpos)) tris) then 1
    else if negb (forallb (fun v => existsb (pt_eqb v) pts) vpos) then 2
    else if negb (forallb (fun t => let '(a, b, c) := face_pts vpos t in
                                    forallb (fun p => within_eps a b c p eps2) pts) tris) then 3
    else if flat_check pts then 0
    else if negb (existsb (fun t => let '(a, b, c) := face_pts vpos t in
                                    existsb (fun v => side a b c v <? 0) vpos) tris) then 5
    else 0
  end.

(* is the input degenerate (driver: then Simplify().IsEmpty() and zero volume are required) *)
Definition hull_input_flat (pts : list pt) : bool := flat_check pts.

Definition hull_check (vpos : list pt) (tris : list (Z * Z * Z)) (pts : list pt) (eps2 : Z) : bool :=
  hull_check_code vpos tris pts eps2 =? 0.

(* ---- declarative side ---------------------------------------------------- *)
Definition InPlane (pts : list pt) : Prop :=
  exists p0 n, n <> (0, 0, 0) /\ forall p, In p pts -> dot n (psub p p0) = 0.

Definition SpansVolume (pts : list pt) : Prop :=
  exists a b c d, In a pts /\ In b pts /\ In c pts /\ In d pts /\ side a b c d <> 0.

Definition WithinEps (a b c p : pt) (eps2 : Z) : Prop :=
  side a b c p <= 0 \/ side a b c p * side a b c p <= eps2 * norm2 (fnormal a b c).

Definition HullFacts (vpos : list pt) (tris : list (Z * Z * Z)) (pts : list pt) (eps2 : Z) : Prop :=
  Closed2Manifold (Z.of_nat (length vpos)) tris /\
  (forall v, In v vpos -> In v pts) /\
  (forall i j k p, In (i, j, k) tris -> In p pts -> WithinEps (pos vpos i) (pos vpos j) (pos vpos k) p eps2) /\
  (InPlane pts \/ SpansVolume vpos).
