(* The AbsSum exclusive scans of Boolean3::Result (src/boolean_result.cpp)
   under the PARALLEL scan protocol of src/parallel.h.

   The library calls
       exclusive_scan(i03.begin(), i03.end(), vP2R.begin(), init, AbsSum())
   with AbsSum(a,b) = |a| + |b| and the identity argument left at its default 0.
   Under TBB this is tbb::parallel_scan with a ScanBody; the protocol is
   modelled by Par/ParDefs.v (scan_par, cstep, excl_scan_par) over the schedules
   of Par/Sched.v (legal_scan).  Properties_C13.scan_spec proves schedule
   independence for an ASSOCIATIVE f with a TWO-SIDED identity.  AbsSum happens
   to be associative on all of Z (both groupings give |a|+|b|+|c|:
   gen_abssum_assoc below), but 0 is NOT an identity for it on negative
   numbers: AbsSum 0 (-3) = 3 <> -3 and AbsSum (-3) 0 = 3 <> -3, and no other
   integer is one either (gen_abssum_no_identity).  So two of scan_spec's
   three hypotheses are false and it does not apply directly.

   WHY THE RESULT IS SCHEDULE INDEPENDENT ANYWAY.  The protocol never applies
   AbsSum to an arbitrary pair of integers.  Every running sum a body ever
   holds is one of: the raw identity 0 (a body fresh from the splitting
   constructor), the caller's init (assumed >= 0: it is 0 or a previous vertex
   count), or a value that AbsSum itself returned (|a|+|b| >= 0).  The left
   argument of every call "temp = f(temp, input[i])" and BOTH arguments of
   every "sum = f(a.sum, sum)" in reverse_join are therefore non-negative, and
   on that domain AbsSum acc x = acc + |x| and AbsSum a b = a + b.  Only the
   RIGHT argument of the per-element call can be negative, and there AbsSum
   takes its absolute value exactly as the sequential loop does.  Hence a run
   of the protocol with (AbsSum, inputs xs) coincides STEP FOR STEP -- for
   every op list, legal or not -- with the run with (Z.add, inputs map Z.abs
   xs), and (Z, +, 0) is a monoid, to which the C13 theorem applies.  In other
   words AbsSum is "a monoid action of (Z>=0,+) through |.|" on the values that
   actually occur, and 0 IS a two-sided identity on Z>=0; the missing identity
   on negatives is never exercised because a negative number is never an
   accumulator. *)
From Coq Require Import ZArith List Bool Arith Lia.
From MV Require Import Par.Sched Par.ParDefs Par.ScanModel Par.InstModel.
From MV Require Import Geo.WindingDefs Gen.BoolConsts Geo.InclDefs Geo.Incl.
Import ListNotations.
Local Open Scope Z_scope.

(* ------------------------------------------------------------------ AbsSum *)
Lemma gen_abssum_nonneg : forall a b : Z, 0 <= gen_abssum a b.
Proof. intros a b. unfold gen_abssum. lia. Qed.

Lemma gen_abssum_acc : forall a x : Z, 0 <= a -> gen_abssum a x = a + Z.abs x.
Proof. intros a x Ha. unfold gen_abssum. lia. Qed.

Lemma gen_abssum_join : forall a b : Z, 0 <= a -> 0 <= b -> gen_abssum a b = a + b.
Proof. intros a b Ha Hb. unfold gen_abssum. lia. Qed.

(* AbsSum is associative on Z ... *)
Lemma gen_abssum_assoc : forall a b c : Z,
    gen_abssum (gen_abssum a b) c = gen_abssum a (gen_abssum b c).
Proof. intros a b c. unfold gen_abssum. lia. Qed.

(* ... but the identity argument 0 the call passes is neither a left nor a right
   identity on Z, and no integer is: scan_spec's id_l / id_r are false for it *)
Lemma gen_abssum_no_identity :
  gen_abssum 0 (-3) = 3 /\ gen_abssum (-3) 0 = 3 /\
  forall e : Z, gen_abssum e (-3) <> -3 /\ gen_abssum (-3) e <> -3.
Proof.
  split; [reflexivity|]. split; [reflexivity|].
  intros e. unfold gen_abssum. lia.
Qed.

(* ------------------------------------------------------------------- lists *)
Definition nonneg_all (l : list Z) : Prop := Forall (fun z => 0 <= z) l.

Lemma nonneg_nth : forall (l : list Z) (b : nat), nonneg_all l -> 0 <= nth b l 0.
Proof.
  intros l b H. unfold nonneg_all in H.
  destruct (nth_in_or_default b l 0) as [Hin | Hd].
  - rewrite Forall_forall in H. apply H. exact Hin.
  - rewrite Hd. lia.
Qed.

Lemma nonneg_firstn : forall (k : nat) (l : list Z), nonneg_all l -> nonneg_all (firstn k l).
Proof.
  unfold nonneg_all. induction k as [|k IH]; intros l H; [constructor|].
  destruct l as [|x l]; [constructor|]. cbn [firstn]. inversion H; subst. constructor; auto.
Qed.

Lemma nonneg_skipn : forall (k : nat) (l : list Z), nonneg_all l -> nonneg_all (skipn k l).
Proof.
  unfold nonneg_all. induction k as [|k IH]; intros l H; [exact H|].
  destruct l as [|x l]; [constructor|]. cbn [skipn]. inversion H; subst. auto.
Qed.

Lemma nonneg_set_nth : forall (b : nat) (x : Z) (l : list Z),
    nonneg_all l -> 0 <= x -> nonneg_all (set_nth b x l).
Proof.
  intros b x l H Hx. unfold set_nth, nonneg_all. apply Forall_app. split.
  - apply nonneg_firstn. exact H.
  - constructor; [exact Hx|]. apply nonneg_skipn. exact H.
Qed.

Lemma nonneg_snoc : forall (x : Z) (l : list Z), nonneg_all l -> 0 <= x -> nonneg_all (l ++ [x]).
Proof.
  intros x l H Hx. unfold nonneg_all. apply Forall_app. split; [exact H|]. constructor; [exact Hx|constructor].
Qed.

Lemma nth_map_abs : forall (xs : list Z) (i : nat), nth i (map Z.abs xs) 0 = Z.abs (nth i xs 0).
Proof. intros xs i. change 0 with (Z.abs 0) at 1. apply map_nth. Qed.

(* ------------------------------------------------- step-for-step simulation *)
Section Sim.
  Variable xs : list Z.
  (* the exclusive-scan emit of ScanBody: output[i] = temp *)
  Definition emitx (t : Z) (i : nat) : option (nat * Z) := Some (i, t).
  Definition m_raw (i : nat) : Z := nth i xs 0.
  Definition m_abs (i : nat) : Z := nth i (map Z.abs xs) 0.

  (* Body::operator()(range, tag): same result with (AbsSum, x) and (+, |x|) from a non-negative temp *)
  Lemma scan_range_sim : forall (final : bool) (idxs : list nat) (temp : Z) (out : nat -> Z),
      0 <= temp ->
      scan_range gen_abssum m_raw emitx final idxs temp out
      = scan_range Z.add m_abs emitx final idxs temp out /\
      0 <= fst (scan_range Z.add m_abs emitx final idxs temp out).
  Proof.
    intros final idxs. induction idxs as [|i r IH]; intros temp out Ht.
    - cbn [scan_range fst]. split; [reflexivity|exact Ht].
    - cbn [scan_range].
      assert (E : gen_abssum temp (m_raw i) = temp + m_abs i).
      { unfold m_raw, m_abs. rewrite nth_map_abs. apply gen_abssum_acc. exact Ht. }
      rewrite E. apply IH. unfold m_abs. rewrite nth_map_abs. lia.
  Qed.

  (* one protocol step: all stored sums >= 0 is an invariant, and under it the two steps agree *)
  Lemma cstep_sim : forall (sums : list Z) (out : nat -> Z) (op : scan_op),
      nonneg_all sums ->
      cstep 0 gen_abssum m_raw emitx (sums, out) op = cstep 0 Z.add m_abs emitx (sums, out) op /\
      nonneg_all (fst (cstep 0 Z.add m_abs emitx (sums, out) op)).
  Proof.
    intros sums out op Hs.
    destruct op as [b c|b lo hi|b lo hi|b a|b a]; cbn [cstep].
    - cbn [fst]. split; [reflexivity|]. apply nonneg_snoc; [exact Hs|lia].
    - destruct (scan_range_sim false (seq lo (hi - lo)) (nth b sums 0) out (nonneg_nth sums b Hs)) as [E Hn].
      rewrite E. destruct (scan_range Z.add m_abs emitx false (seq lo (hi - lo)) (nth b sums 0) out) as [s o].
      cbn [fst] in *. split; [reflexivity|]. apply nonneg_set_nth; assumption.
    - destruct (scan_range_sim true (seq lo (hi - lo)) (nth b sums 0) out (nonneg_nth sums b Hs)) as [E Hn].
      rewrite E. destruct (scan_range Z.add m_abs emitx true (seq lo (hi - lo)) (nth b sums 0) out) as [s o].
      cbn [fst] in *. split; [reflexivity|]. apply nonneg_set_nth; assumption.
    - pose proof (nonneg_nth sums a Hs) as Ha. pose proof (nonneg_nth sums b Hs) as Hb.
      rewrite (gen_abssum_join _ _ Ha Hb). cbn [fst]. split; [reflexivity|].
      apply nonneg_set_nth; [exact Hs|lia].
    - cbn [fst]. split; [reflexivity|]. apply nonneg_set_nth; [exact Hs|]. apply nonneg_nth. exact Hs.
  Qed.

  (* the whole run, for EVERY op list (legality is not needed for the simulation) *)
  Lemma run_sim : forall (ops : list scan_op) (sums : list Z) (out : nat -> Z),
      nonneg_all sums ->
      fold_left (cstep 0 gen_abssum m_raw emitx) ops (sums, out)
      = fold_left (cstep 0 Z.add m_abs emitx) ops (sums, out).
  Proof.
    induction ops as [|op ops IH]; intros sums out Hs; [reflexivity|].
    cbn [fold_left]. destruct (cstep_sim sums out op Hs) as [E Hn]. rewrite E.
    destruct (cstep 0 Z.add m_abs emitx (sums, out) op) as [sums1 out1]. cbn [fst] in Hn.
    apply IH. exact Hn.
  Qed.

  Lemma abs_sum_scan_sim : forall (init : Z) (ops : list scan_op) (out0 : nat -> Z),
      0 <= init ->
      excl_scan_par 0 gen_abssum xs init ops out0 = excl_scan_par 0 Z.add (map Z.abs xs) init ops out0.
  Proof.
    intros init ops out0 Hi. unfold excl_scan_par, scan_par.
    change (fun i : nat => nth i xs 0) with m_raw.
    change (fun i : nat => nth i (map Z.abs xs) 0) with m_abs.
    change (fun (t : Z) (i : nat) => Some (i, t)) with emitx.
    rewrite run_sim; [reflexivity|]. constructor; [exact Hi|constructor].
  Qed.
End Sim.

(* ------------------------------------------------------- sequential values *)
Lemma fold_add_abs : forall (l : list Z) (init : Z), fold_left Z.add (map Z.abs l) init = init + sum_abs l.
Proof.
  induction l as [|x l IH]; intros init.
  - cbn. lia.
  - cbn [map fold_left]. rewrite IH. cbn [sum_abs fold_right]. fold (sum_abs l). lia.
Qed.

(* ============================ the AbsSum scan under every legal schedule *)
Lemma abs_sum_scan_par :
  forall (xs : list Z) (init : Z) (ops : list scan_op) (out0 : nat -> Z),
    0 <= init ->
    legal_scan (length xs) ops = true ->
    fst (excl_scan_par 0 gen_abssum xs init ops out0) = init + sum_abs xs /\
    forall p : nat, snd (excl_scan_par 0 gen_abssum xs init ops out0) p =
                    if (p <? length xs)%nat then init + sum_abs (firstn p xs) else out0 p.
Proof.
  intros xs init ops out0 Hi HL.
  rewrite (abs_sum_scan_sim xs init ops out0 Hi).
  assert (HL' : legal_scan (length (map Z.abs xs)) ops = true) by (rewrite map_length; exact HL).
  destruct (excl_scan_correct 0 Z.add (fun a b c => eq_sym (Z.add_assoc a b c)) Z.add_0_l Z.add_0_r
              (map Z.abs xs) init ops out0 HL') as [C1 C2].
  split.
  - rewrite C1. apply fold_add_abs.
  - intros p. rewrite C2, map_length.
    destruct (p <? length xs)%nat; [|reflexivity].
    rewrite firstn_map. apply fold_add_abs.
Qed.

(* ----------------------------- connection to the sequential model InclDefs *)
Lemma exclusive_scan_nth : forall (xs : list Z) (init : Z) (p : nat),
    0 <= init -> (p < length xs)%nat ->
    init + sum_abs (firstn p xs) = nth p (exclusive_scan gen_abssum init xs) 0.
Proof.
  induction xs as [|x xs IH]; intros init p Hi Hp; [cbn in Hp; lia|].
  cbn [exclusive_scan]. destruct p as [|p].
  - cbn. lia.
  - cbn [firstn nth sum_abs fold_right]. fold (sum_abs (firstn p xs)).
    rewrite <- IH; [|apply gen_abssum_nonneg|cbn in Hp; lia].
    rewrite gen_abssum_acc by exact Hi. lia.
Qed.

(* vP2R as the parallel run leaves it = vP2R as std::exclusive_scan leaves it,
   and the body's final sum = numVertR of the sequential model (scan_total) *)
Corollary abs_sum_scan_par_is_sequential :
  forall (xs : list Z) (init : Z) (ops : list scan_op) (out0 : nat -> Z),
    0 <= init ->
    legal_scan (length xs) ops = true ->
    map (snd (excl_scan_par 0 gen_abssum xs init ops out0)) (seq 0 (length xs))
      = exclusive_scan gen_abssum init xs /\
    (forall p : nat, (length xs <= p)%nat -> snd (excl_scan_par 0 gen_abssum xs init ops out0) p = out0 p) /\
    (xs <> [] -> scan_total gen_abssum init xs = Some (fst (excl_scan_par 0 gen_abssum xs init ops out0))).
Proof.
  intros xs init ops out0 Hi HL.
  destruct (abs_sum_scan_par xs init ops out0 Hi HL) as [C1 C2].
  split; [|split].
  - apply (nth_ext _ _ 0 0).
    + rewrite map_length, seq_length, exclusive_scan_length. reflexivity.
    + intros p Hp. rewrite map_length, seq_length in Hp.
      rewrite <- (exclusive_scan_nth xs init p Hi Hp).
      rewrite (nth_indep _ 0 (snd (excl_scan_par 0 gen_abssum xs init ops out0) 0%nat))
        by (rewrite map_length, seq_length; exact Hp).
      rewrite map_nth, seq_nth by exact Hp. cbn [plus]. rewrite C2.
      apply Nat.ltb_lt in Hp. rewrite Hp. reflexivity.
  - intros p Hp. rewrite C2. apply Nat.ltb_ge in Hp. rewrite Hp. reflexivity.
  - intros Hne. rewrite C1. apply scan_total_value; assumption.
Qed.

(* ----------------------------------------------------------------- example *)
(* TBB's two-pass schedule with every right child stolen (three bodies, two
   reverse_joins, one assign) and the serial schedule, on inputs with negative
   entries and a non-zero init: both are legal, both give the vertex ranges of
   the sequential scan, and the body's final sum is the vertex count. *)
Example abs_sum_scan_par_example :
  let xs := [3; -2; 0; -5; 4] in
  let t := Sched.Node 2 Sched.Leaf (Sched.Node 3 Sched.Leaf Sched.Leaf) in
  legal_scan 5 (scan_ops_two_pass 5 t) = true /\
  legal_scan 5 (scan_ops_serial 5 t) = true /\
  map (snd (excl_scan_par 0 gen_abssum xs 7 (scan_ops_two_pass 5 t) (fun _ => -1))) (seq 0 6)
    = [7; 10; 12; 12; 17; -1] /\
  map (snd (excl_scan_par 0 gen_abssum xs 7 (scan_ops_serial 5 t) (fun _ => -1))) (seq 0 6)
    = [7; 10; 12; 12; 17; -1] /\
  exclusive_scan gen_abssum 7 xs = [7; 10; 12; 12; 17] /\
  fst (excl_scan_par 0 gen_abssum xs 7 (scan_ops_two_pass 5 t) (fun _ => -1)) = 21 /\
  scan_total gen_abssum 7 xs = Some 21.
Proof. vm_compute. repeat split. Qed.

Print Assumptions abs_sum_scan_par.
Print Assumptions abs_sum_scan_par_is_sequential.
