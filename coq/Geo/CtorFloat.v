(* C17 — sind/cosd at multiples of 90 degrees. *)
From Coq Require Import ZArith Floats List Bool Lia.
From MV Require Import Geo.CtorFloatDefs.
Import ListNotations.
Local Open Scope Z_scope.

(* float level, evaluated on the hardware-backed primitive floats: for every
   k in [-720, 720], sind(90k) and cosd(90k) are exactly 0, 1 or -1 as the
   quadrant table says *)
Lemma sind_cosd_sweep : forallb sind_cosd_ok (zrange_from (-720) 1441) = true.
Proof. vm_compute. reflexivity. Qed.

Lemma in_zrange_from x lo n : lo <= x < lo + Z.of_nat n -> In x (zrange_from lo n).
Proof.
  revert lo; induction n as [|n IH]; intros lo H; [lia|]. cbn [zrange_from].
  destruct (Z.eq_dec x lo); [left; auto|right]. apply IH. lia.
Qed.

Lemma sind_cosd_exact_l k : -720 <= k <= 720 -> sind_cosd_ok k = true.
Proof.
  intros H. pose proof sind_cosd_sweep as S. rewrite forallb_forall in S. apply S.
  apply in_zrange_from. lia.
Qed.

(* integer level, for every k: the quotient/remainder kernel of remquo maps an
   exact multiple k*d to quotient k and remainder 0, and the quadrant selected
   by  (quo mod 8) mod 4  is k mod 4 *)
Lemma remquo_z_multiple k d : 0 < d -> remquo_z (k * d) d = (k, 0).
Proof.
  intros Hd. unfold remquo_z. rewrite Z.div_mul, Z.mod_mul by lia.
  replace (2 * 0 <? d) with true by (symmetry; apply Z.ltb_lt; lia).
  f_equal. lia.
Qed.

Lemma quadrant_of_quo k : 0 <= k -> (k mod 8) mod 4 = k mod 4.
Proof.
  intros Hk. pose proof (Z.mod_pos_bound k 8 ltac:(lia)). pose proof (Z.div_mod k 8 ltac:(lia)).
  pose proof (Z.div_mod (k mod 8) 4 ltac:(lia)). pose proof (Z.mod_pos_bound (k mod 8) 4 ltac:(lia)).
  apply (Z.mod_unique k 4 (2 * (k / 8) + (k mod 8) / 4)); lia.
Qed.

(* the kernels at the reduced argument +0 *)
Lemma msin_zero : (msin (radians 0) =? 0)%float = true.
Proof. vm_compute. reflexivity. Qed.
Lemma mcos_zero : (mcos (radians 0) =? 1)%float = true.
Proof. vm_compute. reflexivity. Qed.
