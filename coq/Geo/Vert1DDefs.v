(* Vert1DDefs.v -- definitions only (no proofs).

   Models of two integer/bookkeeping kernels of the 2D Boolean sweep in
   /repo/src/boolean2_sweep.cpp (lines 96-160):

     PART A  MergeVerticals1D, restricted to one x-group (purely 1-D);
     PART B  PolySet2 / PolySetAdd as a signed chain of directed edges.

   Coordinates are modelled as Z: finite doubles embed order-isomorphically and
   only comparisons of coordinates and +/- of integer multiplicities are used.
   Everything here is computable and is extracted to OCaml. *)

Require Import ZArith List Bool.
Import ListNotations.
Open Scope Z_scope.

(* ------------------------------------------------------------------ *)
(* PART A : MergeVerticals1D on one x-group                            *)
(* ------------------------------------------------------------------ *)

(* (ylo, yhi, m): a vertical edge from y=ylo to y=yhi, signed multiplicity m *)
Definition vseg := (Z * Z * Z)%type.

(* std::map<double,int64>::operator[](y) += m on an association list kept
   strictly sorted by key.  A key whose value becomes 0 is KEPT (as std::map
   does); a fresh key is created with value 0 + m. *)
Fixpoint delta_add (y m : Z) (d : list (Z * Z)) : list (Z * Z) :=
  match d with
  | [] => [(y, m)]
  | (k, v) :: r =>
      if y <? k then (y, m) :: (k, v) :: r
      else if y =? k then (k, v + m) :: r
      else (k, v) :: delta_add y m r
  end.

(* delta[ylo] += m; delta[yhi] -= m; *)
Definition delta_step (d : list (Z * Z)) (s : vseg) : list (Z * Z) :=
  match s with
  | (lo, hi, m) => delta_add hi (- m) (delta_add lo m d)
  end.

Definition build_delta (segs : list vseg) : list (Z * Z) :=
  fold_left delta_step segs [].

(* for (d : delta) { if (have && cover != 0) emit (prevY, d.first, cover);
                     cover += d.second; prevY = d.first; have = true; } *)
Fixpoint emit_cover (d : list (Z * Z)) (have : bool) (prevY cover : Z)
  : list vseg :=
  match d with
  | [] => []
  | (y, dm) :: r =>
      (if have && negb (cover =? 0) then [(prevY, y, cover)] else [])
        ++ emit_cover r true y (cover + dm)
  end.

Definition merge_verticals_1d (segs : list vseg) : list vseg :=
  emit_cover (build_delta segs) false 0 0.

(* signed coverage at ordinate t, half-open convention [lo,hi) *)
Definition seg_cov (s : vseg) (t : Z) : Z :=
  match s with
  | (lo, hi, m) =>
      m * ((if lo <=? t then 1 else 0) - (if hi <=? t then 1 else 0))
  end.

Fixpoint cov (segs : list vseg) (t : Z) : Z :=
  match segs with
  | [] => 0
  | s :: r => seg_cov s t + cov r t
  end.

(* running sum of the delta map up to and including key t *)
Fixpoint dsum (d : list (Z * Z)) (t : Z) : Z :=
  match d with
  | [] => 0
  | (k, v) :: r => (if k <=? t then v else 0) + dsum r t
  end.

(* total of the delta map *)
Fixpoint dtotal (d : list (Z * Z)) : Z :=
  match d with
  | [] => 0
  | (_, v) :: r => v + dtotal r
  end.

(* all ylo / yhi values of the input *)
Fixpoint endpoints (segs : list vseg) : list Z :=
  match segs with
  | [] => []
  | (lo, hi, _) :: r => lo :: hi :: endpoints r
  end.

Definition seg_lo (s : vseg) : Z := fst (fst s).
Definition seg_hi (s : vseg) : Z := snd (fst s).
Definition seg_m (s : vseg) : Z := snd s.

(* s1 lies entirely at or below s2 *)
Definition seg_before (s1 s2 : vseg) : Prop := seg_hi s1 <= seg_lo s2.

(* per-segment invariant of the emit loop: the segment starts at or after the
   pending breakpoint p, is non-degenerate, has non-zero multiplicity, and its
   endpoints are breakpoints *)
Definition seg_ok (p : Z) (keys : list Z) (s : vseg) : Prop :=
  p <= seg_lo s /\ seg_lo s < seg_hi s /\ seg_m s <> 0 /\
  In (seg_lo s) (p :: keys) /\ In (seg_hi s) keys.

(* strict key order of the delta map *)
Definition key_lt (e1 e2 : Z * Z) : Prop := fst e1 < fst e2.

(* ------------------------------------------------------------------ *)
(* PART B : PolySet2 as a chain                                        *)
(* ------------------------------------------------------------------ *)

Definition pt := (Z * Z)%type.

(* kLexLess: x then y *)
Definition lex_lt (a b : pt) : bool :=
  (fst a <? fst b) || ((fst a =? fst b) && (snd a <? snd b)).

Definition pt_eqb (a b : pt) : bool :=
  (fst a =? fst b) && (snd a =? snd b).

Definition key_eqb (k1 k2 : pt * pt) : bool :=
  pt_eqb (fst k1) (fst k2) && pt_eqb (snd k1) (snd k2).

(* model of std::map<pair<vec2,vec2>, int64_t>: association list, unique keys *)
Definition polyset := list ((pt * pt) * Z).

(* find k; absent -> emplace (k,m); present -> += m and erase if the sum is 0 *)
Fixpoint ps_insert (k : pt * pt) (m : Z) (ps : polyset) : polyset :=
  match ps with
  | [] => [(k, m)]
  | (k', v) :: r =>
      if key_eqb k k'
      then (if v + m =? 0 then r else (k', v + m) :: r)
      else (k', v) :: ps_insert k m r
  end.

(* PolySetAdd *)
Definition polyset_add (ps : polyset) (a b : pt) (m : Z) : polyset :=
  if pt_eqb a b || (m =? 0) then ps
  else if lex_lt b a then ps_insert (b, a) (- m) ps
  else ps_insert (a, b) m ps.

(* ps.find(k), 0 when absent *)
Fixpoint ps_lookup (k : pt * pt) (ps : polyset) : Z :=
  match ps with
  | [] => 0
  | (k', v) :: r => if key_eqb k k' then v else ps_lookup k r
  end.

(* 0-boundary coefficient at vertex v: in-degree minus out-degree, with
   multiplicity *)
Definition entry_bdry (e : (pt * pt) * Z) (v : pt) : Z :=
  match e with
  | ((lo, hi), m) =>
      m * ((if pt_eqb hi v then 1 else 0) - (if pt_eqb lo v then 1 else 0))
  end.

Fixpoint bdry (ps : polyset) (v : pt) : Z :=
  match ps with
  | [] => 0
  | e :: r => entry_bdry e v + bdry r v
  end.

(* signed multiplicity of the directed edge a->b: +m if (a,b) is a key,
   -m if (b,a) is a key, summed over entries *)
Definition entry_coef (e : (pt * pt) * Z) (a b : pt) : Z :=
  match e with
  | (k, m) =>
      m * ((if key_eqb k (a, b) then 1 else 0)
           - (if key_eqb k (b, a) then 1 else 0))
  end.

Fixpoint coef (ps : polyset) (a b : pt) : Z :=
  match ps with
  | [] => 0
  | e :: r => entry_coef e a b + coef r a b
  end.

(* representation invariant of PolySet2: keys unique, keys lex-normalised
   (lo strictly lex-below hi, hence no zero-length edge), no zero multiplicity *)
Definition entry_ok (e : (pt * pt) * Z) : Prop :=
  lex_lt (fst (fst e)) (snd (fst e)) = true /\ snd e <> 0.

Definition polyset_wf (ps : polyset) : Prop :=
  NoDup (map fst ps) /\ Forall entry_ok ps.

(* closed contours -> cyclic consecutive edges *)
Fixpoint path_edges (first : pt) (c : list pt) : list (pt * pt) :=
  match c with
  | [] => []
  | a :: r =>
      match r with
      | [] => [(a, first)]
      | b :: _ => (a, b) :: path_edges first r
      end
  end.

Definition contour_edges (c : list pt) : list (pt * pt) :=
  match c with
  | [] => []
  | a :: _ => path_edges a c
  end.

(* 0-boundary of a bare list of directed unit edges at vertex v *)
Fixpoint edges_bdry (es : list (pt * pt)) (v : pt) : Z :=
  match es with
  | [] => 0
  | (a, b) :: r =>
      ((if pt_eqb b v then 1 else 0) - (if pt_eqb a v then 1 else 0))
        + edges_bdry r v
  end.

Definition add_edges (ps : polyset) (es : list (pt * pt)) (m : Z) : polyset :=
  fold_left (fun p e => polyset_add p (fst e) (snd e) m) es ps.

(* a contour with its (single) multiplicity *)
Definition add_contour (ps : polyset) (cm : list pt * Z) : polyset :=
  add_edges ps (contour_edges (fst cm)) (snd cm).

Definition build_polyset (cs : list (list pt * Z)) : polyset :=
  fold_left add_contour cs [].
