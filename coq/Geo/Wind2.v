(* C11/C12 — lemmas about the exact 2-D winding number (Wind2Defs.v). *)
From Coq Require Import ZArith List Bool Lia Permutation ZifyBool.
From MV Require Import Geo.Wind2Defs.
Import ListNotations.
Local Open Scope Z_scope.

(* ---------- sums ---------- *)
Lemma zsum_app : forall l1 l2, zsum (l1 ++ l2) = zsum l1 + zsum l2.
Proof. unfold zsum. induction l1; intros; cbn [app fold_right]; [lia | rewrite IHl1; lia]. Qed.

Lemma zsum_perm : forall l1 l2, Permutation l1 l2 -> zsum l1 = zsum l2.
Proof. induction 1; unfold zsum in *; cbn [fold_right] in *; lia. Qed.

Lemma zsum_map_opp : forall (A : Type) (f : A -> Z) l, zsum (map (fun x => - f x) l) = - zsum (map f l).
Proof. induction l; unfold zsum in *; cbn [map fold_right] in *; lia. Qed.

Lemma zsum_rev : forall l, zsum (rev l) = zsum l.
Proof. intros. apply zsum_perm. apply Permutation_sym, Permutation_rev. Qed.

Lemma wind_edges_app : forall e1 e2 p, wind_edges (e1 ++ e2) p = wind_edges e1 p + wind_edges e2 p.
Proof. intros. unfold wind_edges. rewrite map_app, zsum_app. reflexivity. Qed.

Lemma wind_edges_perm : forall e1 e2 p, Permutation e1 e2 -> wind_edges e1 p = wind_edges e2 p.
Proof. intros. unfold wind_edges. apply zsum_perm, Permutation_map, H. Qed.

(* ---------- wind2 is additive over concatenation of contour lists ---------- *)
Lemma wind2_app : forall cs1 cs2 p, wind2 (cs1 ++ cs2) p = wind2 cs1 p + wind2 cs2 p.
Proof. intros. unfold wind2. rewrite map_app, zsum_app. reflexivity. Qed.

Lemma wind2_cons : forall c cs p, wind2 (c :: cs) p = wind_contour c p + wind2 cs p.
Proof. reflexivity. Qed.

Lemma wind2_all_edges : forall cs p, wind2 cs p = wind_edges (all_edges cs) p.
Proof.
  induction cs; intros; [reflexivity|].
  rewrite wind2_cons. unfold all_edges in *. cbn [map concat]. rewrite wind_edges_app, <- IHcs. reflexivity.
Qed.

Lemma area2_app : forall cs1 cs2, area2 (cs1 ++ cs2) = area2 cs1 + area2 cs2.
Proof. intros. unfold area2. rewrite map_app, zsum_app. reflexivity. Qed.

(* ---------- rotation ---------- *)
Lemma path_edges_cons2 : forall a b t, path_edges (a :: b :: t) = (a, b) :: path_edges (b :: t).
Proof. reflexivity. Qed.

Lemma path_edges_snoc : forall l x y, path_edges (l ++ [x; y]) = path_edges (l ++ [x]) ++ [(x, y)].
Proof.
  induction l as [|a l IH]; intros; [reflexivity|].
  destruct l as [|b l].
  - reflexivity.
  - change ((a :: b :: l) ++ [x; y]) with (a :: b :: (l ++ [x; y])).
    change ((a :: b :: l) ++ [x]) with (a :: b :: (l ++ [x])).
    rewrite !path_edges_cons2.
    change (b :: l ++ [x; y]) with ((b :: l) ++ [x; y]).
    change (b :: l ++ [x]) with ((b :: l) ++ [x]).
    rewrite IH. reflexivity.
Qed.

Lemma contour_edges_cons : forall a l, contour_edges (a :: l) = path_edges (a :: l ++ [a]).
Proof. reflexivity. Qed.

Lemma contour_edges_rot1 : forall c, Permutation (contour_edges (rot1 c)) (contour_edges c).
Proof.
  intros [|a l]; [constructor|].
  destruct l as [|b l].
  - apply Permutation_refl.
  - change (rot1 (a :: b :: l)) with (b :: (l ++ [a])).
    rewrite !contour_edges_cons.
    replace (b :: (l ++ [a]) ++ [b]) with ((b :: l) ++ [a; b]) by (cbn [app]; rewrite <- app_assoc; reflexivity).
    rewrite path_edges_snoc.
    change (a :: (b :: l) ++ [a]) with (a :: b :: (l ++ [a])).
    rewrite path_edges_cons2.
    apply Permutation_sym, Permutation_cons_append.
Qed.

Lemma wind_rot1 : forall c p, wind_contour (rot1 c) p = wind_contour c p.
Proof. intros. apply wind_edges_perm, contour_edges_rot1. Qed.

Lemma skipn_firstn_S : forall n (c : list pt) x t, skipn n c = x :: t ->
  skipn (S n) c = t /\ firstn (S n) c = firstn n c ++ [x].
Proof.
  induction n; intros c x t E.
  - cbn [skipn] in E. subst c. split; reflexivity.
  - destruct c as [|y c]; [discriminate|].
    change (skipn (S n) (y :: c)) with (skipn n c) in E.
    destruct (IHn c x t E) as [H1 H2]. split.
    + change (skipn (S (S n)) (y :: c)) with (skipn (S n) c). exact H1.
    + change (firstn (S (S n)) (y :: c)) with (y :: firstn (S n) c). rewrite H2. reflexivity.
Qed.

Lemma rotl_S : forall n c, (S n <= length c)%nat -> rotl (S n) c = rot1 (rotl n c).
Proof.
  intros n c H. unfold rotl.
  destruct (skipn n c) as [|x t] eqn:E.
  - assert (length (skipn n c) = 0%nat) by (rewrite E; reflexivity). rewrite skipn_length in H0. lia.
  - destruct (skipn_firstn_S n c x t E) as [Hs Hf].
    rewrite Hs, Hf. cbn [rot1 app]. rewrite <- app_assoc. reflexivity.
Qed.

Lemma contour_edges_rotl : forall n c, (n <= length c)%nat -> Permutation (contour_edges (rotl n c)) (contour_edges c).
Proof.
  induction n; intros c H.
  - unfold rotl. cbn [skipn firstn]. rewrite app_nil_r. apply Permutation_refl.
  - rewrite rotl_S by exact H. eapply Permutation_trans; [apply contour_edges_rot1|]. apply IHn. lia.
Qed.

(* invariance under rotating a contour's start *)
Lemma wind2_rotate : forall n c p, (n <= length c)%nat -> wind_contour (rotl n c) p = wind_contour c p.
Proof. intros. apply wind_edges_perm, contour_edges_rotl, H. Qed.

Lemma area2_rotate : forall n c, (n <= length c)%nat -> area2_contour (rotl n c) = area2_contour c.
Proof. intros. unfold area2_contour. apply zsum_perm, Permutation_map, contour_edges_rotl, H. Qed.

(* ---------- reversal ---------- *)
Definition swap (e : seg) : seg := (snd e, fst e).

Lemma orient_swap : forall a b p, orient b a p = - orient a b p.
Proof. intros. unfold orient. ring. Qed.

Lemma cross1_swap : forall p e, cross1 p (swap e) = - cross1 p e.
Proof.
  intros p [a b]. unfold swap, cross1. cbn [fst snd]. rewrite (orient_swap a b p).
  destruct (snd a <=? snd p) eqn:E1, (snd p <? snd b) eqn:E2, (snd b <=? snd p) eqn:E3, (snd p <? snd a) eqn:E4;
    cbn [andb]; try lia;
    destruct (0 <? orient a b p) eqn:E5, (orient a b p <? 0) eqn:E6, (0 <? - orient a b p) eqn:E7, (- orient a b p <? 0) eqn:E8; lia.
Qed.

Lemma path_edges_rev : forall l, path_edges (rev l) = map swap (rev (path_edges l)).
Proof.
  induction l as [|a l IH]; [reflexivity|].
  destruct l as [|b l]; [reflexivity|].
  change (rev (a :: b :: l)) with ((rev l ++ [b]) ++ [a]). rewrite <- app_assoc. cbn [app].
  rewrite path_edges_snoc.
  change (rev l ++ [b]) with (rev (b :: l)). rewrite IH.
  rewrite path_edges_cons2. cbn [rev]. rewrite map_app. reflexivity.
Qed.

Lemma contour_edges_rev : forall c, Permutation (contour_edges (rev c)) (map swap (rev (contour_edges c))).
Proof.
  intros [|a l]; [constructor|].
  cbn [rev]. change (rev l ++ [a]) with (rot1 (a :: rev l)).
  eapply Permutation_trans; [apply contour_edges_rot1|].
  rewrite !contour_edges_cons. rewrite <- path_edges_rev.
  replace (rev (a :: l ++ [a])) with (a :: rev l ++ [a]); [apply Permutation_refl|].
  change (a :: l ++ [a]) with ((a :: l) ++ [a]).
  rewrite rev_app_distr. reflexivity.
Qed.

Lemma wind2_reverse : forall c p, wind_contour (rev c) p = - wind_contour c p.
Proof.
  intros. unfold wind_contour.
  rewrite (wind_edges_perm _ _ p (contour_edges_rev c)).
  unfold wind_edges. rewrite map_map.
  rewrite (map_ext (fun x => cross1 p (swap x)) (fun x => - cross1 p x)) by (intros; apply cross1_swap).
  rewrite zsum_map_opp. rewrite map_rev, zsum_rev. reflexivity.
Qed.

Lemma area2_reverse : forall c, area2_contour (rev c) = - area2_contour c.
Proof.
  intros. unfold area2_contour.
  rewrite (zsum_perm _ _ (Permutation_map shoelace1 (contour_edges_rev c))).
  rewrite map_map.
  rewrite (map_ext (fun x => shoelace1 (swap x)) (fun x => - shoelace1 x)).
  - rewrite zsum_map_opp, map_rev, zsum_rev. reflexivity.
  - intros [a b]. unfold swap, shoelace1. cbn [fst snd]. ring.
Qed.

(* ---------- a CCW rectangle ---------- *)
Lemma wind_rect_formula : forall x0 y0 x1 y1 px py,
  x0 < x1 -> y0 < y1 ->
  wind_contour (rect x0 y0 x1 y1) (px, py) =
  (if (y0 <=? py) && (py <? y1) then (if px <? x1 then 1 else 0) - (if px <? x0 then 1 else 0) else 0).
Proof.
  intros x0 y0 x1 y1 px py Hx Hy.
  unfold wind_contour, rect, contour_edges, wind_edges. cbn [app path_edges map zsum fold_right].
  unfold cross1, orient. cbn [fst snd].
  replace ((x1 - x0) * (py - y0) - (y0 - y0) * (px - x0)) with ((x1 - x0) * (py - y0)) by ring.
  replace ((x1 - x1) * (py - y0) - (y1 - y0) * (px - x1)) with ((y1 - y0) * (x1 - px)) by ring.
  replace ((x0 - x1) * (py - y1) - (y1 - y1) * (px - x1)) with ((x0 - x1) * (py - y1)) by ring.
  replace ((x0 - x0) * (py - y1) - (y0 - y1) * (px - x0)) with ((y1 - y0) * (px - x0)) by ring.
  assert (P1 : 0 < (y1 - y0) * (x1 - px) <-> px < x1) by nia.
  assert (P2 : (y1 - y0) * (px - x0) < 0 <-> px < x0) by nia.
  destruct (y0 <=? py) eqn:E1, (py <? y1) eqn:E2, (py <? y0) eqn:E3, (y1 <=? py) eqn:E4; cbn [andb]; try lia;
  destruct (px <? x1) eqn:E5, (px <? x0) eqn:E6,
           (0 <? (y1 - y0) * (x1 - px)) eqn:E7, ((y1 - y0) * (px - x0) <? 0) eqn:E8; try lia.
Qed.

(* winding 1 strictly inside, 0 strictly outside *)
Lemma wind2_rect : forall x0 y0 x1 y1 px py,
  x0 < x1 -> y0 < y1 ->
  (x0 < px < x1 -> y0 < py < y1 -> wind2 [rect x0 y0 x1 y1] (px, py) = 1) /\
  (px < x0 \/ x1 < px \/ py < y0 \/ y1 < py -> wind2 [rect x0 y0 x1 y1] (px, py) = 0).
Proof.
  intros. unfold wind2. cbn [map zsum fold_right]. rewrite wind_rect_formula by assumption.
  split; intros.
  - destruct (y0 <=? py) eqn:E1, (py <? y1) eqn:E2, (px <? x1) eqn:E5, (px <? x0) eqn:E6; cbn [andb]; lia.
  - destruct (y0 <=? py) eqn:E1, (py <? y1) eqn:E2, (px <? x1) eqn:E5, (px <? x0) eqn:E6; cbn [andb]; lia.
Qed.

(* pixel centres in doubled coordinates: the winding number of a lattice
   rectangle at the centre of pixel (i,j) is the pixel's indicator *)
Lemma wind2_rect_pixel : forall x0 y0 x1 y1 i j,
  x0 < x1 -> y0 < y1 ->
  wind2 [rect2 x0 y0 x1 y1] (centre i j) = b2z (in_rect x0 y0 x1 y1 i j).
Proof.
  intros. unfold wind2, rect2, centre. cbn [map zsum fold_right]. rewrite wind_rect_formula by lia.
  unfold in_rect, b2z.
  destruct (2 * y0 <=? 2 * j + 1) eqn:E1, (2 * j + 1 <? 2 * y1) eqn:E2, (2 * i + 1 <? 2 * x1) eqn:E5, (2 * i + 1 <? 2 * x0) eqn:E6,
    (x0 <=? i) eqn:F1, (i <? x1) eqn:F2, (y0 <=? j) eqn:F3, (j <? y1) eqn:F4; cbn [andb]; lia.
Qed.

(* for any Boolean expression over lattice rectangles the specification-side
   (winding-number) classification of a pixel centre is the Boolean formula of
   the leaves' pixel indicators *)
Lemma pixel_spec : forall e i j, rexpr_wf e = true -> spec_inside e (centre i j) = pix e i j.
Proof.
  induction e; intros i j W; cbn [rexpr_wf spec_inside pix] in *.
  - apply andb_prop in W. destruct W as [W1 W2].
    rewrite wind2_rect_pixel by lia. unfold b2z. destruct (in_rect x0 y0 x1 y1 i j); reflexivity.
  - apply andb_prop in W. destruct W. rewrite IHe1, IHe2 by assumption. reflexivity.
  - apply andb_prop in W. destruct W. rewrite IHe1, IHe2 by assumption. reflexivity.
  - apply andb_prop in W. destruct W. rewrite IHe1, IHe2 by assumption. reflexivity.
  - apply andb_prop in W. destruct W. rewrite IHe1, IHe2 by assumption. reflexivity.
Qed.

(* ---------- the fill rules of the code on unit operands ---------- *)
Lemma fill_rule_table : forall (a b : bool),
  boolean2d_inside OpAdd (b2z a) (b2z b) = a || b /\
  boolean2d_inside OpIntersect (b2z a) (b2z b) = a && b /\
  boolean2d_inside OpSubtract (b2z a) (b2z b) = a && negb b /\
  is_inside WEvenOdd (b2z a + b2z b) = xorb a b /\
  is_inside WAdd (b2z a) = a /\ is_inside WEvenOdd (b2z a) = a /\ is_inside WEvenOdd (- b2z a) = a.
Proof. intros [|] [|]; vm_compute; repeat split. Qed.

Lemma fill_rule_table_op : forall op wa wb, (wa = 0 \/ wa = 1) -> (wb = 0 \/ wb = 1) ->
  boolean2d_inside op wa wb = set_op op (0 <? wa) (0 <? wb).
Proof. intros op wa wb [-> | ->] [-> | ->]; destruct op; reflexivity. Qed.

(* Positive fill of n stacked unit operands (BatchBoolean Add concatenates the
   clips): inside iff some operand is inside *)
Lemma add_rule_many : forall ws, Forall (fun w => w = 0 \/ w = 1) ws ->
  is_inside WAdd (zsum ws) = existsb (fun w => 0 <? w) ws.
Proof.
  intros ws H. unfold is_inside.
  assert (G : 0 <= zsum ws /\ ((0 <? zsum ws) = existsb (fun w => 0 <? w) ws)).
  { induction H; unfold zsum in *; cbn [fold_right existsb]; [split; [lia|reflexivity]|].
    destruct IHForall as [G1 G2]. split; [lia|]. rewrite <- G2. destruct H as [-> | ->]; lia. }
  apply G.
Qed.

(* BatchBoolean Subtract: subject minus the concatenated clips under the Add rule *)
Lemma subtract_rule_many : forall wa ws, (wa = 0 \/ wa = 1) -> Forall (fun w => w = 0 \/ w = 1) ws ->
  is_inside WAdd (wa + -1 * zsum ws) = (0 <? wa) && negb (existsb (fun w => 0 <? w) ws).
Proof.
  intros wa ws Ha H. unfold is_inside.
  assert (G : 0 <= zsum ws /\ ((0 <? zsum ws) = existsb (fun w => 0 <? w) ws)).
  { induction H; unfold zsum in *; cbn [fold_right existsb]; [split; [lia|reflexivity]|].
    destruct IHForall as [G1 G2]. split; [lia|]. rewrite <- G2. destruct H as [-> | ->]; lia. }
  destruct G as [G1 G2]. rewrite <- G2. destruct Ha as [-> | ->]; lia.
Qed.
