(* C12 — the per-vertex decision logic of OffsetContour
   (src/boolean2_offset.cpp:38-240) transcribed over the real numbers.
   Definitions only; lemmas in Offset2.v.  These are the *expressions* the code
   evaluates in doubles; the lemmas state what they mean in exact arithmetic.
   (UnitFromScaled divides by max(|x|,|y|) before normalising: a device against
   overflow, the same value over R.) *)
From Coq Require Import Reals.
Local Open Scope R_scope.

Definition vec : Type := (R * R)%type.
Definition vdot (u v : vec) : R := fst u * fst v + snd u * snd v.
Definition vcross (u v : vec) : R := fst u * snd v - snd u * fst v.
Definition vadd (u v : vec) : vec := (fst u + fst v, snd u + snd v).
Definition vsub (u v : vec) : vec := (fst u - fst v, snd u - snd v).
Definition vscale (k : R) (v : vec) : vec := (k * fst v, k * snd v).
Definition vlen2 (v : vec) : R := vdot v v.
Definition vlen (v : vec) : R := sqrt (vlen2 v).

(* vec2 OutwardNormal(edge): unit right-perpendicular (dir.unit.y, -dir.unit.x) *)
Definition outward_normal (e : vec) : vec := (snd e / vlen e, - fst e / vlen e).

(* const vec2 endPrev = V + delta * nPrev;  startNext = V + delta * nNext *)
Definition offset_pt (V n : vec) (delta : R) : vec := vadd V (vscale delta n).

(* deltaSign = delta >= 0 ? 1 : -1 *)
Definition delta_sign (delta : R) : R := if Rle_dec 0 delta then 1 else -1.

(* const bool convex = cross(ePrev, eNext) * deltaSign > 0 *)
Definition convex_test (ePrev eNext : vec) (delta : R) : Prop :=
  vcross ePrev eNext * delta_sign delta > 0.

(* vec2 MiterPoint(V, nPrev, nNext, delta) *)
Definition miter_point (V nPrev nNext : vec) (delta : R) : vec :=
  let dotN := vdot nPrev nNext in
  if Rle_dec (1 + dotN) 0 then vadd V (vscale delta nPrev)
  else vadd V (vscale delta (vscale (/ (1 + dotN)) (vadd nPrev nNext))).

(* const double miterCosThresh = 2.0 / (miterLimit * miterLimit) - 1.0;
   the join is squared when dotN (+ tie tolerance) < miterCosThresh *)
Definition miter_cos_thresh (L : R) : R := 2 / (L * L) - 1.

(* vec2 RotateDegrees(v, angle) with the angle in radians *)
Definition rot (v : vec) (a : R) : vec :=
  (fst v * cos a - snd v * sin a, fst v * sin a + snd v * cos a).

(* AppendRoundJoin emits V + delta * rot(nPrev, rotSign * i * subStep), i = 1..nSub-1,
   between endPrev (i = 0) and startNext (i = nSub); subStep = sweep / nSub with
   nSub = max(1, ceil(sweep / fullStep)), fullStep = 2 pi / segments. *)
Definition round_pt (V nPrev : vec) (delta a : R) : vec := vadd V (vscale delta (rot nPrev a)).

(* a point of the chord between two consecutive join points *)
Definition lerp (t : R) (A B : vec) : vec := vadd (vscale (1 - t) A) (vscale t B).
