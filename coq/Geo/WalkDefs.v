(* Loop extraction from retained directed edges: model of
   /repo/src/boolean2.cpp
     CcwTurnGroup / CcwTurnLess            (lines 53-79)
     PushLoopIfNondegenerate / PushSimpleLoops (lines 81-109)
     OutEdgesToPolygons                    (lines 157-216)
   Definitions only: no proofs here (see Walk.v).

   Vertices and edge ids are [nat]; an edge is the pair (v0, v1); a graph is
   the list of its edges and the id of an edge is its position.

   The geometric choice made by the C++ (the unvisited outgoing edge of the
   current destination vertex that minimises CcwTurnLess, a floating point
   test) is an ORACLE [pick cur candidates]: [cur] is the current edge id,
   [candidates] is the non-empty list of unvisited edge ids leaving the
   destination vertex, in increasing id order (= the order of
   outgoing[destV] with visited entries skipped).  The theorems of Walk.v hold
   for every oracle that returns one of its candidates.

   [visited] is a [list bool] of the same length as [edges]
   (std::vector<bool> visited(nE,false)); an index outside the list reads as
   visited.  *)
From Coq Require Import List Arith Bool ZArith.
Import ListNotations.

Definition edge : Type := (nat * nat)%type.

Definition edge_of (edges : list edge) (e : nat) : edge := nth e edges (0, 0).

(* visited[e] = true *)
Fixpoint mark (e : nat) (vis : list bool) {struct vis} : list bool :=
  match vis with
  | [] => []
  | b :: t => match e with
              | 0 => true :: t
              | S e' => b :: mark e' t
              end
  end.

Definition is_visited (e : nat) (vis : list bool) : bool := nth e vis true.

(* ids i+k (increasing) of the edges k of [edges] with v0 = v and
   visited[k] = false *)
Fixpoint out_unv_from (i : nat) (edges : list edge) (vis : list bool)
         (v : nat) : list nat :=
  match edges, vis with
  | e :: es, b :: t =>
    if negb b && (fst e =? v)
    then i :: out_unv_from (S i) es t v
    else out_unv_from (S i) es t v
  | _, _ => []
  end.

(* outgoing[v] restricted to unvisited edges, in increasing id order *)
Definition out_unvisited (edges : list edge) (vis : list bool) (v : nat)
  : list nat := out_unv_from 0 edges vis v.

(* ---------------------------------------------------------------------- *)
(* PushSimpleLoops on vertex ids.

   One round of the C++ double loop finds the smallest i such that
   loopVerts[i] occurs in loopVerts[0..i), then the smallest (in fact the
   only) j < i with loopVerts[j] = loopVerts[i]; it emits
   simple = loopVerts[j..i) and erases positions j+1..i.

   [first_repeat pre l] is that scan with pre = loopVerts[0..i) and
   l = loopVerts[i..): it returns (a, piece, rest) with
     a     = loopVerts[0..j)
     piece = loopVerts[j..i)        (the emitted candidate loop)
     rest  = loopVerts[i..)
   so that the erased vector is a ++ rest
   (= loopVerts[0..j] ++ loopVerts[i+1..) because loopVerts[j]=loopVerts[i]).*)

(* l = a ++ x :: b with x not in a *)
Fixpoint split_at (x : nat) (l : list nat) : option (list nat * list nat) :=
  match l with
  | [] => None
  | y :: t =>
    if x =? y then Some ([], t)
    else match split_at x t with
         | Some (a, b) => Some (y :: a, b)
         | None => None
         end
  end.

Fixpoint first_repeat (pre l : list nat)
  : option (list nat * list nat * list nat) :=
  match l with
  | [] => None
  | x :: t =>
    match split_at x pre with
    | Some (a, b) => Some (a, x :: b, x :: t)
    | None => first_repeat (pre ++ [x]) t
    end
  end.

(* All pieces in emission order, the remainder last, INCLUDING the pieces that
   PushLoopIfNondegenerate drops for having fewer than 3 vertices. *)
Fixpoint push_simple_loops_all (fuel : nat) (loopVerts : list nat)
  : option (list (list nat)) :=
  match fuel with
  | 0 => None
  | S f =>
    match first_repeat [] loopVerts with
    | None => Some [loopVerts]
    | Some (a, piece, rest) =>
      match push_simple_loops_all f (a ++ rest) with
      | None => None
      | Some ps => Some (piece :: ps)
      end
    end
  end.

Definition nondegenerate (l : list nat) : bool := 3 <=? length l.

(* The loops actually pushed to polys (as lists of vertex ids). *)
Definition push_simple_loops (fuel : nat) (loopVerts : list nat)
  : option (list (list nat)) :=
  match push_simple_loops_all fuel loopVerts with
  | None => None
  | Some ps => Some (filter nondegenerate ps)
  end.

(* The pieces dropped by PushLoopIfNondegenerate. *)
Definition push_simple_loops_dropped (fuel : nat) (loopVerts : list nat)
  : option (list (list nat)) :=
  match push_simple_loops_all fuel loopVerts with
  | None => None
  | Some ps => Some (filter (fun l => negb (nondegenerate l)) ps)
  end.

(* cyclic consecutive pairs: [a] -> [(a,a)], [a;b] -> [(a,b);(b,a)] *)
Fixpoint path_pairs (l : list nat) (endv : nat) : list edge :=
  match l with
  | [] => []
  | x :: t => (x, hd endv t) :: path_pairs t endv
  end.

Definition cyc_pairs (l : list nat) : list edge :=
  match l with
  | [] => []
  | x :: _ => path_pairs l x
  end.

(* signed chain coefficient of the directed pair a->b in a list of pairs *)
Definition edge_eqb (p q : edge) : bool :=
  (fst p =? fst q) && (snd p =? snd q).

Definition count_pair (p : edge) (l : list edge) : nat :=
  length (filter (edge_eqb p) l).

Definition coefc (l : list edge) (a b : nat) : Z :=
  (Z.of_nat (count_pair (a, b) l) - Z.of_nat (count_pair (b, a) l))%Z.

(* ---------------------------------------------------------------------- *)
(* walk record: (loopVerts, edge ids in walk order, closed) *)
Definition walk_rec : Type := (list nat * list nat * bool)%type.

Definition walk_verts (w : walk_rec) : list nat := fst (fst w).
Definition walk_edges (w : walk_rec) : list nat := snd (fst w).
Definition walk_closed (w : walk_rec) : bool := snd w.

Section Walk.
  Variable pick : nat -> list nat -> nat.

  (* The inner while loop of OutEdgesToPolygons, one iteration per unit of
     fuel:
       while (cur >= 0 && !visited[cur]) {
         visited[cur] = true; loopVerts.push_back(v0(cur));
         if (v1(cur) == startV) { closed = true; break; }
         if (no unvisited outgoing edge at v1(cur)) { cur = -1; break; }
         cur = pick ...;
       }
     Result: (loopVerts, visited edge ids in order, visited', closed).  *)
  Fixpoint walk (fuel : nat) (edges : list edge) (vis : list bool)
           (startV cur : nat)
    : option (list nat * list nat * list bool * bool) :=
    match fuel with
    | 0 => None
    | S f =>
      if is_visited cur vis then Some ([], [], vis, false)
      else
        let e := edge_of edges cur in
        let vis' := mark cur vis in
        if snd e =? startV then Some ([fst e], [cur], vis', true)
        else
          match out_unvisited edges vis' (snd e) with
          | [] => Some ([fst e], [cur], vis', false)
          | c :: cs =>
            match walk f edges vis' startV (pick cur (c :: cs)) with
            | None => None
            | Some (vs, es, vis'', cl) => Some (fst e :: vs, cur :: es, vis'', cl)
            end
          end
    end.

  (* for (start = 0; start < nE; ++start) { if (visited[start]) continue; ... *)
  Fixpoint walks_from (edges : list edge) (starts : list nat)
           (vis : list bool) : option (list walk_rec) :=
    match starts with
    | [] => Some []
    | s :: rest =>
      if is_visited s vis then walks_from edges rest vis
      else
        match walk (S (length edges)) edges vis (fst (edge_of edges s)) s with
        | None => None
        | Some (vs, es, vis', cl) =>
          match walks_from edges rest vis' with
          | None => None
          | Some ws => Some ((vs, es, cl) :: ws)
          end
        end
    end.

  (* every raw walk, in start order, closed or not *)
  Definition walks_full (edges : list edge) : option (list walk_rec) :=
    walks_from edges (seq 0 (length edges)) (repeat false (length edges)).

  (* (loopVerts, closed) only *)
  Definition walks_of (edges : list edge) : option (list (list nat * bool)) :=
    match walks_full edges with
    | None => None
    | Some ws => Some (map (fun w => (walk_verts w, walk_closed w)) ws)
    end.

  (* the walks the C++ drops with DEBUG_ASSERT(false, ...) (silently in
     release builds) *)
  Definition dropped_walks (edges : list edge) : option (list (list nat)) :=
    match walks_full edges with
    | None => None
    | Some ws => Some (map walk_verts (filter (fun w => negb (walk_closed w)) ws))
    end.

  (* if (!closed) continue; if (loopVerts.size() >= 3) PushSimpleLoops(...) *)
  Fixpoint loops_of_walks (ws : list walk_rec) : option (list (list nat)) :=
    match ws with
    | [] => Some []
    | w :: rest =>
      if walk_closed w && (3 <=? length (walk_verts w)) then
        match push_simple_loops (S (length (walk_verts w))) (walk_verts w) with
        | None => None
        | Some ls =>
          match loops_of_walks rest with
          | None => None
          | Some ls' => Some (ls ++ ls')
          end
        end
      else loops_of_walks rest
    end.

  Definition out_edges_to_loops (edges : list edge)
    : option (list (list nat)) :=
    match walks_full edges with
    | None => None
    | Some ws => loops_of_walks ws
    end.
End Walk.

(* ---------------------------------------------------------------------- *)
(* Concrete oracle over integer points: exact ports of CcwTurnGroup,
   CcwTurnLess and of the candidate scan of OutEdgesToPolygons. *)
Local Open Scope Z_scope.

Definition zpt : Type := (Z * Z)%type.

Definition zsub (a b : zpt) : zpt := (fst a - fst b, snd a - snd b).
Definition zcross (a b : zpt) : Z := fst a * snd b - snd a * fst b.
Definition zdot (a b : zpt) : Z := fst a * fst b + snd a * snd b.

Definition ccw_turn_group (ref dir : zpt) : Z :=
  let c := zcross ref dir in
  if 0 <? c then 0
  else if c <? 0 then 1
  else if zdot ref dir <? 0 then 0 else 2.

Definition ccw_turn_less (ref a : zpt) (edgeA : nat) (b : zpt) (edgeB : nat)
  : bool :=
  let ga := ccw_turn_group ref a in
  let gb := ccw_turn_group ref b in
  if negb (ga =? gb) then ga <? gb
  else
    let c := zcross a b in
    if negb (c =? 0) then 0 <? c
    else
      let da := zdot a a in
      let db := zdot b b in
      if negb (da =? db) then da <? db
      else Nat.ltb edgeA edgeB.

(* for (int e : lst) { if (visited[e]) continue; d = verts[v1 e] - vp;
     if (next < 0 || CcwTurnLess(ref, d, e, bestDir, next)) { next = e; bestDir = d; } }
   state None = (next < 0) *)
Fixpoint ccw_scan (verts : nat -> zpt) (edges : list edge) (vp ref : zpt)
         (st : option (nat * zpt)) (cands : list nat) : option (nat * zpt) :=
  match cands with
  | [] => st
  | e :: t =>
    let d := zsub (verts (snd (edge_of edges e))) vp in
    let st' :=
        match st with
        | None => Some (e, d)
        | Some (next, bestDir) =>
          if ccw_turn_less ref d e bestDir next then Some (e, d) else st
        end in
    ccw_scan verts edges vp ref st' t
  end.

Definition pick_ccw (verts : nat -> zpt) (edges : list edge)
           (cur : nat) (cands : list nat) : nat :=
  let e := edge_of edges cur in
  let vp := verts (snd e) in
  let ref := zsub (verts (fst e)) vp in
  match ccw_scan verts edges vp ref None cands with
  | Some (next, _) => next
  | None => O
  end.

Local Close Scope Z_scope.

Definition edges_in_range (nV : nat) (edges : list edge) : bool :=
  forallb (fun e => (fst e <? nV) && (snd e <? nV)) edges.

(* OutEdgesToPolygons over integer points.  None when an edge endpoint is not
   a valid vertex index (the C++ indexes outgoing[]/verts[] with it). *)
Definition out_edges_to_polygons_z (verts : list (Z * Z)) (edges : list edge)
  : option (list (list (Z * Z))) :=
  if edges_in_range (length verts) edges then
    let vf := fun i => nth i verts (0%Z, 0%Z) in
    match out_edges_to_loops (pick_ccw vf edges) edges with
    | None => None
    | Some ls => Some (map (map vf) ls)
    end
  else None.

(* the walks of the integer instance, for the correspondence run *)
Definition walks_z (verts : list (Z * Z)) (edges : list edge)
  : option (list (list nat * bool)) :=
  if edges_in_range (length verts) edges then
    walks_of (pick_ccw (fun i => nth i verts (0%Z, 0%Z)) edges) edges
  else None.
