(* C17 — lemmas about the index arithmetic of Extrude and Revolve
   (models in Geo/CtorDefs.v): index bounds and boundary chains, for all
   parameters. *)
From Coq Require Import ZArith List Bool Lia Arith.
From MV Require Import Geo.CtorDefs.
Import ListNotations.
Local Open Scope Z_scope.

(* ------------------------------------------------------------------ chains *)
Lemma ecoef_rev x y a b : ecoef (y, x) a b = - ecoef (x, y) a b.
Proof. unfold ecoef; cbn [fst snd]. rewrite (andb_comm (y =? a)), (andb_comm (y =? b)). lia. Qed.

Lemma ecoef_loop x a b : ecoef (x, x) a b = 0.
Proof. unfold ecoef; cbn [fst snd]. destruct (x =? a) eqn:E1, (x =? b) eqn:E2; cbn; lia. Qed.

Lemma ccoef_app c d a b : ccoef (c ++ d) a b = ccoef c a b + ccoef d a b.
Proof. induction c as [|e c IH]; cbn [ccoef app]; lia. Qed.

Lemma tchain_app s t : tchain (s ++ t) = tchain s ++ tchain t.
Proof. unfold tchain. apply flat_map_app. Qed.

Lemma tcoef_app s t a b : tcoef (s ++ t) a b = tcoef s a b + tcoef t a b.
Proof. unfold tcoef. rewrite tchain_app, ccoef_app. reflexivity. Qed.

Lemma tcoef_nil a b : tcoef [] a b = 0.
Proof. reflexivity. Qed.

Lemma tcoef_cons t ts a b : tcoef (t :: ts) a b = tcoef [t] a b + tcoef ts a b.
Proof. change (t :: ts) with ([t] ++ ts). apply tcoef_app. Qed.

Lemma tcoef_one x y z a b :
  tcoef [(x, y, z)] a b = ecoef (x, y) a b + ecoef (y, z) a b + ecoef (z, x) a b.
Proof. unfold tcoef, tchain; cbn. lia. Qed.

(* sums over lists *)
Fixpoint lsum {A} (f : A -> Z) (l : list A) : Z :=
  match l with [] => 0 | x :: r => f x + lsum f r end.

Lemma lsum_app {A} (f : A -> Z) l1 l2 : lsum f (l1 ++ l2) = lsum f l1 + lsum f l2.
Proof. induction l1 as [|x l1 IH]; cbn [lsum app]; lia. Qed.

Lemma lsum_ext {A} (f g : A -> Z) l : (forall x, In x l -> f x = g x) -> lsum f l = lsum g l.
Proof.
  induction l as [|x l IH]; intros H; cbn [lsum]; [reflexivity|].
  rewrite (H x (or_introl eq_refl)), IH; [reflexivity|]. intros y Hy. apply H. right; exact Hy.
Qed.

Lemma lsum_plus {A} (f g : A -> Z) l : lsum (fun x => f x + g x) l = lsum f l + lsum g l.
Proof. induction l as [|x l IH]; cbn [lsum]; lia. Qed.

Lemma lsum_minus {A} (f g : A -> Z) l : lsum (fun x => f x - g x) l = lsum f l - lsum g l.
Proof. induction l as [|x l IH]; cbn [lsum]; lia. Qed.

Lemma lsum_zero {A} (l : list A) : lsum (fun _ => 0) l = 0.
Proof. induction l; cbn [lsum]; lia. Qed.

Lemma tcoef_flat_map {A} (g : A -> list itri) l a b :
  tcoef (flat_map g l) a b = lsum (fun k => tcoef (g k) a b) l.
Proof.
  induction l as [|x l IH]; cbn [flat_map]; [reflexivity|].
  rewrite tcoef_app, IH. reflexivity.
Qed.

Lemma ccoef_map {A} (g : A -> edge) l a b :
  ccoef (map g l) a b = lsum (fun k => ecoef (g k) a b) l.
Proof. induction l as [|x l IH]; cbn; [reflexivity|]. rewrite IH. reflexivity. Qed.

(* shifting a sum over seq *)
Lemma lsum_seq_shift (h : nat -> Z) lo n :
  lsum (fun k => h (Nat.pred k)) (seq (S lo) n) = lsum h (seq lo n).
Proof.
  revert lo; induction n as [|n IH]; intros lo; cbn [seq]; [reflexivity|].
  cbn [lsum fold_right]. cbn [Nat.pred]. f_equal. apply (IH (S lo)).
Qed.

Lemma lsum_seq_last (h : nat -> Z) lo n :
  lsum h (seq lo (S n)) = lsum h (seq lo n) + h (lo + n)%nat.
Proof.
  rewrite seq_S, lsum_app. cbn. lia.
Qed.

(* cyclic shift: sum of h over the predecessors = sum of h *)
Lemma lsum_cyc (h : nat -> Z) n :
  lsum (fun v => h (lastv n v)) (seq 0 n) = lsum h (seq 0 n).
Proof.
  destruct n as [|n]; [reflexivity|].
  cbn [seq]. cbn [lsum fold_right]. unfold lastv at 1. cbn [Nat.eqb].
  replace (S n - 1)%nat with n by lia.
  transitivity (h n + lsum (fun k => h (Nat.pred k)) (seq 1 n)).
  - f_equal. apply lsum_ext. intros x Hx. apply in_seq in Hx. unfold lastv.
    destruct x as [|x]; [lia|]. cbn [Nat.eqb]. f_equal. lia.
  - rewrite lsum_seq_shift. change (h 0%nat + lsum h (seq 1 n)) with (lsum h (seq 0 (S n))).
    rewrite lsum_seq_last. cbn. lia.
Qed.

Lemma lsum_tele (h : nat -> Z) lo n :
  lsum (fun k => h (Nat.pred k) - h k) (seq (S lo) n) = h lo - h (lo + n)%nat.
Proof.
  revert lo; induction n as [|n IH]; intros lo; cbn [seq].
  - cbn. replace (lo + 0)%nat with lo by lia. lia.
  - cbn [lsum fold_right]. fold (lsum (fun k => h (Nat.pred k) - h k) (seq (S (S lo)) n)).
    rewrite (IH (S lo)). cbn [Nat.pred]. replace (lo + S n)%nat with (S lo + n)%nat by lia. lia.
Qed.

Lemma ecoef_eq x y x' y' a b : x = x' -> y = y' -> ecoef (x, y) a b = ecoef (x', y') a b.
Proof. intros -> ->. reflexivity. Qed.

(* ----------------------------------------------------------------- Extrude *)
Definition zid (x : Z) : Z := x.

(* one side quad: (t,l,t') (l,l',t')  with t' = t-N, l' = l-N *)
Lemma quad_coef t l t' l' a b :
  tcoef [(t, l, t'); (l, l', t')] a b =
  ecoef (l', t') a b - ecoef (l, t) a b + (ecoef (t', t) a b - ecoef (l', l) a b).
Proof.
  rewrite tcoef_cons, !tcoef_one.
  pose proof (ecoef_rev l t a b). pose proof (ecoef_rev l t' a b). pose proof (ecoef_rev l' l a b).
  lia.
Qed.

Lemma fan_coef ap l' t' a b :
  tcoef [(ap, l', t')] a b = ecoef (l', t') a b + (ecoef (t', ap) a b - ecoef (l', ap) a b).
Proof. rewrite tcoef_one. pose proof (ecoef_rev l' ap a b). lia. Qed.

Lemma zn_lastv n v : (v < n)%nat -> zn (lastv n v) = (if Nat.eqb v 0 then zn n else zn v) - 1.
Proof. unfold lastv, zn. intros H. destruct v; cbn [Nat.eqb]; lia. Qed.

Lemma ext_ring_coef n off N a b :
  tcoef (ext_ring n off N None) a b =
  ccoef (contour zid (off - N) n) a b - ccoef (contour zid off n) a b.
Proof.
  unfold ext_ring, contour. rewrite tcoef_flat_map, !ccoef_map, <- lsum_minus.
  set (V := fun u : nat => ecoef (zn u + off - N, zn u + off) a b).
  transitivity (lsum (fun v => (ecoef (zid (off - N + zn (lastv n v)), zid (off - N + zn v)) a b
                               - ecoef (zid (off + zn (lastv n v)), zid (off + zn v)) a b)
                              + (V v - V (lastv n v))) (seq 0 n)).
  - apply lsum_ext. intros v Hv. apply in_seq in Hv. unfold ext_vert. rewrite quad_coef.
    unfold V, zid. rewrite (zn_lastv n v) by lia.
    destruct v; cbn [Nat.eqb]; repeat first [lia | f_equal].
  - rewrite lsum_plus, !lsum_minus, (lsum_cyc V). lia.
Qed.

Lemma ext_ring_cone_coef n off N ap a b :
  tcoef (ext_ring n off N (Some ap)) a b = ccoef (contour zid (off - N) n) a b.
Proof.
  unfold ext_ring, contour. rewrite tcoef_flat_map, ccoef_map.
  set (V := fun u : nat => ecoef (zn u + off - N, ap) a b).
  transitivity (lsum (fun v => ecoef (zid (off - N + zn (lastv n v)), zid (off - N + zn v)) a b
                              + (V v - V (lastv n v))) (seq 0 n)).
  - apply lsum_ext. intros v Hv. apply in_seq in Hv. unfold ext_vert. rewrite fan_coef.
    unfold V, zid. rewrite (zn_lastv n v) by lia.
    destruct v; cbn [Nat.eqb]; repeat first [lia | f_equal].
  - rewrite lsum_plus, lsum_minus, (lsum_cyc V). lia.
Qed.

Lemma ext_level_coef sizes N i idx j a b :
  tcoef (ext_level sizes N i false idx j) a b =
  ccoef (contours zid (idx + N * i - N) sizes) a b - ccoef (contours zid (idx + N * i) sizes) a b.
Proof.
  revert idx j; induction sizes as [|n rest IH]; intros idx j; cbn [ext_level contours].
  - reflexivity.
  - rewrite tcoef_app, !ccoef_app, ext_ring_coef, IH.
    replace (idx + zn n + N * i - N) with (idx + N * i - N + zn n) by lia.
    replace (idx + zn n + N * i) with (idx + N * i + zn n) by lia. lia.
Qed.

Lemma ext_level_cone_coef sizes N i idx j a b :
  tcoef (ext_level sizes N i true idx j) a b = ccoef (contours zid (idx + N * i - N) sizes) a b.
Proof.
  revert idx j; induction sizes as [|n rest IH]; intros idx j; cbn [ext_level contours].
  - reflexivity.
  - rewrite tcoef_app, !ccoef_app, ext_ring_cone_coef, IH.
    replace (idx + zn n + N * i - N) with (idx + N * i - N + zn n) by lia. lia.
Qed.

Lemma ext_sides_coef sizes nDivArg isCone a b :
  tcoef (ext_sides sizes nDivArg isCone) a b =
  ccoef (contours zid 0 sizes) a b -
  (if isCone then 0 else ccoef (contours zid (total sizes * zn (S nDivArg)) sizes) a b).
Proof.
  unfold ext_sides. set (N := total sizes).
  set (C := fun i : nat => ccoef (contours zid (N * zn i) sizes) a b).
  assert (Hlev : forall i, (1 <= i)%nat ->
            tcoef (ext_level sizes N (zn i) false 0 0) a b = C (Nat.pred i) - C i).
  { intros i Hi. rewrite ext_level_coef. unfold C.
    replace (zn (Nat.pred i)) with (zn i - 1) by (unfold zn; lia).
    replace (0 + N * zn i - N) with (N * (zn i - 1)) by lia.
    replace (0 + N * zn i) with (N * zn i) by lia. reflexivity. }
  rewrite tcoef_flat_map.
  destruct isCone; cbn [andb].
  - (* cone: levels 1..nDivArg are quads, the last is the fan *)
    rewrite seq_S, lsum_app. cbn [lsum].
    replace (Nat.eqb (1 + nDivArg) (S nDivArg)) with true by (symmetry; apply Nat.eqb_eq; lia).
    rewrite ext_level_cone_coef.
    rewrite (lsum_ext _ (fun k => C (Nat.pred k) - C k)).
    + rewrite lsum_tele. unfold C.
      replace (0 + N * zn (1 + nDivArg) - N) with (N * zn (1 + nDivArg)%nat - N) by lia.
      replace (N * zn (1 + nDivArg) - N) with (N * zn nDivArg) by (unfold zn; lia).
      replace (N * zn 0) with 0 by (unfold zn; lia).
      replace (1 + nDivArg)%nat with (S nDivArg) by lia.
      replace (0 + nDivArg)%nat with nDivArg by lia. lia.
    + intros k Hk. apply in_seq in Hk.
      replace (Nat.eqb k (S nDivArg)) with false by (symmetry; apply Nat.eqb_neq; lia).
      apply Hlev. lia.
  - rewrite (lsum_ext _ (fun k => C (Nat.pred k) - C k)).
    + rewrite lsum_tele. unfold C. replace (N * zn 0) with 0 by (unfold zn; lia).
      replace (0 + S nDivArg)%nat with (S nDivArg) by lia. reflexivity.
    + intros k Hk. apply in_seq in Hk. apply Hlev. lia.
Qed.

(* shifting a contour *)
Lemma ecoef_shift x y k a b : ecoef (x + k, y + k) a b = ecoef (x, y) (a - k) (b - k).
Proof.
  unfold ecoef; cbn [fst snd].
  replace (x + k =? a) with (x =? a - k) by (destruct (x =? a - k) eqn:E; symmetry; lia).
  replace (y + k =? b) with (y =? b - k) by (destruct (y =? b - k) eqn:E; symmetry; lia).
  replace (x + k =? b) with (x =? b - k) by (destruct (x =? b - k) eqn:E; symmetry; lia).
  replace (y + k =? a) with (y =? a - k) by (destruct (y =? a - k) eqn:E; symmetry; lia).
  reflexivity.
Qed.

Lemma contour_shift off k n a b :
  ccoef (contour zid (off + k) n) a b = ccoef (contour zid off n) (a - k) (b - k).
Proof.
  unfold contour. rewrite !ccoef_map. apply lsum_ext. intros v _. unfold zid.
  rewrite <- ecoef_shift. repeat first [lia | f_equal].
Qed.

Lemma contours_shift sizes off k a b :
  ccoef (contours zid (off + k) sizes) a b = ccoef (contours zid off sizes) (a - k) (b - k).
Proof.
  revert off; induction sizes as [|n rest IH]; intros off; cbn [contours]; [reflexivity|].
  rewrite !ccoef_app, contour_shift. replace (off + k + zn n) with (off + zn n + k) by lia.
  rewrite IH. reflexivity.
Qed.

Lemma tcoef_flip t a b : tcoef [flip_itri t] a b = - tcoef [t] a b.
Proof.
  destruct t as [[x y] z]. unfold flip_itri. rewrite !tcoef_one.
  pose proof (ecoef_rev x y a b). pose proof (ecoef_rev y z a b). pose proof (ecoef_rev z x a b). lia.
Qed.

Lemma tcoef_shift t k a b : tcoef [shift_tri k t] a b = tcoef [t] (a - k) (b - k).
Proof.
  destruct t as [[x y] z]. unfold shift_tri. rewrite !tcoef_one, !ecoef_shift. reflexivity.
Qed.

Lemma ext_caps_coef top N nd isCone a b :
  tcoef (ext_caps top N nd isCone) a b =
  - tcoef top a b + (if isCone then 0 else tcoef top (a - N * zn nd) (b - N * zn nd)).
Proof.
  unfold ext_caps. induction top as [|t top IH]; cbn [flat_map].
  - destruct isCone; reflexivity.
  - rewrite tcoef_app, IH, (tcoef_cons t top a b), (tcoef_cons t top (a - N * zn nd)).
    destruct isCone.
    + cbn [app]. rewrite tcoef_flip. lia.
    + cbn [app]. rewrite tcoef_cons, tcoef_flip, tcoef_shift. lia.
Qed.

(* the whole list is closed as soon as the cap triangulation has the contours
   as boundary (the triangulator's contract, property C10) *)
Lemma extrude_closed_l sizes nDivArg isCone top :
  (forall a b, tcoef top a b = ccoef (contours zid 0 sizes) a b) ->
  closed (extrude_tris sizes nDivArg isCone top).
Proof.
  intros Htop a b. unfold extrude_tris. rewrite tcoef_app, ext_sides_coef, ext_caps_coef.
  rewrite !Htop. destruct isCone; [lia|].
  rewrite <- (contours_shift sizes 0 (total sizes * zn (S nDivArg))).
  replace (0 + total sizes * zn (S nDivArg)) with (total sizes * zn (S nDivArg)) by lia. lia.
Qed.

(* ---- index bounds *)
Definition tri_all (P : Z -> Prop) (t : itri) : Prop :=
  let '(a, b, c) := t in P a /\ P b /\ P c.

Lemma Forall_flat_map {A B} (P : B -> Prop) (g : A -> list B) l :
  (forall x, In x l -> Forall P (g x)) -> Forall P (flat_map g l).
Proof.
  induction l as [|x l IH]; intros H; cbn [flat_map]; [constructor|].
  apply Forall_app. split; [apply H; left; reflexivity|]. apply IH. intros y Hy. apply H. right; exact Hy.
Qed.

Lemma Forall_impl_in {A} (P Q : A -> Prop) l :
  (forall x, In x l -> P x -> Q x) -> Forall P l -> Forall Q l.
Proof.
  intros H HP. apply Forall_forall. intros x Hx. apply (H x Hx).
  revert x Hx. apply Forall_forall. exact HP.
Qed.

Lemma tri_all_impl (P Q : Z -> Prop) t : (forall x, P x -> Q x) -> tri_all P t -> tri_all Q t.
Proof. destruct t as [[x y] z]. cbn. intros H (H1 & H2 & H3). auto. Qed.

Lemma ext_ring_range n off N apex :
  0 <= N ->
  Forall (tri_all (fun x => (off - N <= x < off + zn n) \/ apex = Some x)) (ext_ring n off N apex).
Proof.
  intros HN. unfold ext_ring. apply Forall_flat_map. intros v Hv. apply in_seq in Hv.
  unfold ext_vert. assert (Hz : 0 <= zn v < zn n) by (unfold zn; lia).
  destruct apex as [ap|]; repeat (apply Forall_cons; [cbn; repeat split|]); try apply Forall_nil;
    destruct (Nat.eqb v 0) eqn:E; try (right; reflexivity); left;
    try apply Nat.eqb_neq in E; unfold zn in *; lia.
Qed.

Lemma total_nonneg sizes : 0 <= total sizes.
Proof. induction sizes as [|n r IH]; cbn; unfold zn; lia. Qed.

Lemma ext_level_range sizes N i cone idx j :
  0 <= N ->
  Forall (tri_all (fun x => (idx + N * i - N <= x < idx + N * i + total sizes) \/
                            (cone = true /\ N * i + j <= x < N * i + j + zn (length sizes))))
         (ext_level sizes N i cone idx j).
Proof.
  intros HN. remember (N * i) as B eqn:EB. clear EB.
  revert idx j; induction sizes as [|n rest IH]; intros idx j; cbn [ext_level]; [constructor|].
  pose proof (total_nonneg rest) as Ht.
  apply Forall_app; split.
  - eapply Forall_impl; [|apply ext_ring_range; exact HN].
    intros t. apply tri_all_impl. intros x [Hx|Hx].
    + left. cbn [total fold_right]. fold (total rest). lia.
    + right. destruct cone; [|discriminate]. inversion Hx; subst x. split; [reflexivity|].
      cbn [length]. unfold zn. lia.
  - eapply Forall_impl; [|apply IH].
    intros t. apply tri_all_impl. intros x [Hx|Hx].
    + left. cbn [total fold_right]. fold (total rest). unfold zn in *. lia.
    + right. destruct Hx as [Hc Hx]. split; [exact Hc|]. cbn [length]. unfold zn in *. lia.
Qed.

Lemma ext_sides_range sizes nDivArg isCone :
  Forall (tri_in_range (ext_nverts sizes nDivArg isCone)) (ext_sides sizes nDivArg isCone).
Proof.
  unfold ext_sides. pose proof (total_nonneg sizes) as HN. set (N := total sizes) in *.
  apply Forall_flat_map. intros i Hi. apply in_seq in Hi.
  eapply Forall_impl; [|apply ext_level_range; exact HN].
  intros [[x y] z]. unfold tri_all, tri_in_range, ext_nverts. fold N.
  assert (Hi1 : 1 <= zn i <= zn (S nDivArg)) by (unfold zn; lia).
  assert (Hcone : (isCone && Nat.eqb i (S nDivArg)) = true -> isCone = true /\ zn i = zn (S nDivArg)).
  { intros H. apply andb_true_iff in H. destruct H as [H1 H2]. apply Nat.eqb_eq in H2. subst i. auto. }
  assert (Hq : (isCone && Nat.eqb i (S nDivArg)) = false -> isCone = true -> zn i + 1 <= zn (S nDivArg)).
  { intros H Hc. subst isCone. cbn in H. apply Nat.eqb_neq in H. unfold zn. lia. }
  assert (Hlen : 0 <= zn (length sizes)) by (unfold zn; lia).
  assert (Key : forall x,
    (0 + N * zn i - N <= x < 0 + N * zn i + N) \/
    ((isCone && Nat.eqb i (S nDivArg)) = true /\ N * zn i + 0 <= x < N * zn i + 0 + zn (length sizes)) ->
    0 <= x < (if isCone then N * zn (S nDivArg) + zn (length sizes) else N * (zn (S nDivArg) + 1))).
  { intros w [Hw|[Hc Hw]].
    - destruct (isCone && Nat.eqb i (S nDivArg)) eqn:Ec.
      + destruct (Hcone eq_refl) as [-> Hi2]. rewrite <- Hi2. nia.
      + destruct isCone; [specialize (Hq eq_refl eq_refl)|]; nia.
    - destruct (Hcone Hc) as [-> Hi2]. rewrite <- Hi2. nia. }
  intros (H1 & H2 & H3). repeat split; try (apply Key; assumption).
  all: try (apply (proj1 (Key _ ltac:(eassumption)))); try (apply (proj2 (Key _ ltac:(eassumption)))).
Qed.
