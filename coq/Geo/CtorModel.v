(* C17 — lemmas about the index arithmetic of Extrude and Revolve
   (models in Geo/CtorDefs.v): index bounds and boundary chains, for all
   parameters. *)
From Coq Require Import ZArith List Bool Lia Arith.
From MV Require Import Geo.CtorDefs.
Import ListNotations.
Local Open Scope Z_scope.

(* ------------------------------------------------------------------ chains *)
Lemma ecoef_rev x y a b : ecoef (y, x) a b = - ecoef (x, y) a b.
Proof. unfold ecoef; cbn [fst snd]. rewrite (andb_comm (y =? a)), (andb_comm (y =? b)). lia. Qed.

Lemma ecoef_loop x a b : ecoef (x, x) a b = 0.
Proof. unfold ecoef; cbn [fst snd]. destruct (x =? a) eqn:E1, (x =? b) eqn:E2; cbn; lia. Qed.

Lemma ccoef_app c d a b : ccoef (c ++ d) a b = ccoef c a b + ccoef d a b.
Proof. induction c as [|e c IH]; cbn [ccoef app]; lia. Qed.

Lemma tchain_app s t : tchain (s ++ t) = tchain s ++ tchain t.
Proof. unfold tchain. apply flat_map_app. Qed.

Lemma tcoef_app s t a b : tcoef (s ++ t) a b = tcoef s a b + tcoef t a b.
Proof. unfold tcoef. rewrite tchain_app, ccoef_app. reflexivity. Qed.

Lemma tcoef_nil a b : tcoef [] a b = 0.
Proof. reflexivity. Qed.

Lemma tcoef_cons t ts a b : tcoef (t :: ts) a b = tcoef [t] a b + tcoef ts a b.
Proof. change (t :: ts) with ([t] ++ ts). apply tcoef_app. Qed.

Lemma tcoef_one x y z a b :
  tcoef [(x, y, z)] a b = ecoef (x, y) a b + ecoef (y, z) a b + ecoef (z, x) a b.
Proof. unfold tcoef, tchain; cbn. lia. Qed.

(* sums over lists *)
Fixpoint lsum {A} (f : A -> Z) (l : list A) : Z :=
  match l with [] => 0 | x :: r => f x + lsum f r end.

Lemma lsum_app {A} (f : A -> Z) l1 l2 : lsum f (l1 ++ l2) = lsum f l1 + lsum f l2.
Proof. induction l1 as [|x l1 IH]; cbn [lsum app]; lia. Qed.

Lemma lsum_ext {A} (f g : A -> Z) l : (forall x, In x l -> f x = g x) -> lsum f l = lsum g l.
Proof.
  induction l as [|x l IH]; intros H; cbn [lsum]; [reflexivity|].
  rewrite (H x (or_introl eq_refl)), IH; [reflexivity|]. intros y Hy. apply H. right; exact Hy.
Qed.

Lemma lsum_plus {A} (f g : A -> Z) l : lsum (fun x => f x + g x) l = lsum f l + lsum g l.
Proof. induction l as [|x l IH]; cbn [lsum]; lia. Qed.

Lemma lsum_minus {A} (f g : A -> Z) l : lsum (fun x => f x - g x) l = lsum f l - lsum g l.
Proof. induction l as [|x l IH]; cbn [lsum]; lia. Qed.

Lemma lsum_zero {A} (l : list A) : lsum (fun _ => 0) l = 0.
Proof. induction l; cbn [lsum]; lia. Qed.

Lemma tcoef_flat_map {A} (g : A -> list itri) l a b :
  tcoef (flat_map g l) a b = lsum (fun k => tcoef (g k) a b) l.
Proof.
  induction l as [|x l IH]; cbn [flat_map]; [reflexivity|].
  rewrite tcoef_app, IH. reflexivity.
Qed.

Lemma ccoef_map {A} (g : A -> edge) l a b :
  ccoef (map g l) a b = lsum (fun k => ecoef (g k) a b) l.
Proof. induction l as [|x l IH]; cbn; [reflexivity|]. rewrite IH. reflexivity. Qed.

(* shifting a sum over seq *)
Lemma lsum_seq_shift (h : nat -> Z) lo n :
  lsum (fun k => h (Nat.pred k)) (seq (S lo) n) = lsum h (seq lo n).
Proof.
  revert lo; induction n as [|n IH]; intros lo; cbn [seq]; [reflexivity|].
  cbn [lsum fold_right]. cbn [Nat.pred]. f_equal. apply (IH (S lo)).
Qed.

Lemma lsum_seq_last (h : nat -> Z) lo n :
  lsum h (seq lo (S n)) = lsum h (seq lo n) + h (lo + n)%nat.
Proof.
  rewrite seq_S, lsum_app. cbn. lia.
Qed.

(* cyclic shift: sum of h over the predecessors = sum of h *)
Lemma lsum_cyc (h : nat -> Z) n :
  lsum (fun v => h (lastv n v)) (seq 0 n) = lsum h (seq 0 n).
Proof.
  destruct n as [|n]; [reflexivity|].
  cbn [seq]. cbn [lsum fold_right]. unfold lastv at 1. cbn [Nat.eqb].
  replace (S n - 1)%nat with n by lia.
  transitivity (h n + lsum (fun k => h (Nat.pred k)) (seq 1 n)).
  - f_equal. apply lsum_ext. intros x Hx. apply in_seq in Hx. unfold lastv.
    destruct x as [|x]; [lia|]. cbn [Nat.eqb]. f_equal. lia.
  - rewrite lsum_seq_shift. change (h 0%nat + lsum h (seq 1 n)) with (lsum h (seq 0 (S n))).
    rewrite lsum_seq_last. cbn. lia.
Qed.

Lemma lsum_tele (h : nat -> Z) lo n :
  lsum (fun k => h (Nat.pred k) - h k) (seq (S lo) n) = h lo - h (lo + n)%nat.
Proof.
  revert lo; induction n as [|n IH]; intros lo; cbn [seq].
  - cbn. replace (lo + 0)%nat with lo by lia. lia.
  - cbn [lsum fold_right]. fold (lsum (fun k => h (Nat.pred k) - h k) (seq (S (S lo)) n)).
    rewrite (IH (S lo)). cbn [Nat.pred]. replace (lo + S n)%nat with (S lo + n)%nat by lia. lia.
Qed.

Lemma ecoef_eq x y x' y' a b : x = x' -> y = y' -> ecoef (x, y) a b = ecoef (x', y') a b.
Proof. intros -> ->. reflexivity. Qed.

(* ----------------------------------------------------------------- Extrude *)
Definition zid (x : Z) : Z := x.

(* one side quad: (t,l,t') (l,l',t')  with t' = t-N, l' = l-N *)
Lemma quad_coef t l t' l' a b :
  tcoef [(t, l, t'); (l, l', t')] a b =
  ecoef (l', t') a b - ecoef (l, t) a b + (ecoef (t', t) a b - ecoef (l', l) a b).
Proof.
  rewrite tcoef_cons, !tcoef_one.
  pose proof (ecoef_rev l t a b). pose proof (ecoef_rev l t' a b). pose proof (ecoef_rev l' l a b).
  lia.
Qed.

Lemma fan_coef ap l' t' a b :
  tcoef [(ap, l', t')] a b = ecoef (l', t') a b + (ecoef (t', ap) a b - ecoef (l', ap) a b).
Proof. rewrite tcoef_one. pose proof (ecoef_rev l' ap a b). lia. Qed.

Lemma zn_lastv n v : (v < n)%nat -> zn (lastv n v) = (if Nat.eqb v 0 then zn n else zn v) - 1.
Proof. unfold lastv, zn. intros H. destruct v; cbn [Nat.eqb]; lia. Qed.

Lemma ext_ring_coef n off N a b :
  tcoef (ext_ring n off N None) a b =
  ccoef (contour zid (off - N) n) a b - ccoef (contour zid off n) a b.
Proof.
  unfold ext_ring, contour. rewrite tcoef_flat_map, !ccoef_map, <- lsum_minus.
  set (V := fun u : nat => ecoef (zn u + off - N, zn u + off) a b).
  transitivity (lsum (fun v => (ecoef (zid (off - N + zn (lastv n v)), zid (off - N + zn v)) a b
                               - ecoef (zid (off + zn (lastv n v)), zid (off + zn v)) a b)
                              + (V v - V (lastv n v))) (seq 0 n)).
  - apply lsum_ext. intros v Hv. apply in_seq in Hv. unfold ext_vert. rewrite quad_coef.
    unfold V, zid. rewrite (zn_lastv n v) by lia.
    destruct v; cbn [Nat.eqb]; repeat first [lia | f_equal].
  - rewrite lsum_plus, !lsum_minus, (lsum_cyc V). lia.
Qed.

Lemma ext_ring_cone_coef n off N ap a b :
  tcoef (ext_ring n off N (Some ap)) a b = ccoef (contour zid (off - N) n) a b.
Proof.
  unfold ext_ring, contour. rewrite tcoef_flat_map, ccoef_map.
  set (V := fun u : nat => ecoef (zn u + off - N, ap) a b).
  transitivity (lsum (fun v => ecoef (zid (off - N + zn (lastv n v)), zid (off - N + zn v)) a b
                              + (V v - V (lastv n v))) (seq 0 n)).
  - apply lsum_ext. intros v Hv. apply in_seq in Hv. unfold ext_vert. rewrite fan_coef.
    unfold V, zid. rewrite (zn_lastv n v) by lia.
    destruct v; cbn [Nat.eqb]; repeat first [lia | f_equal].
  - rewrite lsum_plus, lsum_minus, (lsum_cyc V). lia.
Qed.

Lemma ext_level_coef sizes N i idx j a b :
  tcoef (ext_level sizes N i false idx j) a b =
  ccoef (contours zid (idx + N * i - N) sizes) a b - ccoef (contours zid (idx + N * i) sizes) a b.
Proof.
  revert idx j; induction sizes as [|n rest IH]; intros idx j; cbn [ext_level contours].
  - reflexivity.
  - rewrite tcoef_app, !ccoef_app, ext_ring_coef, IH.
    replace (idx + zn n + N * i - N) with (idx + N * i - N + zn n) by lia.
    replace (idx + zn n + N * i) with (idx + N * i + zn n) by lia. lia.
Qed.

Lemma ext_level_cone_coef sizes N i idx j a b :
  tcoef (ext_level sizes N i true idx j) a b = ccoef (contours zid (idx + N * i - N) sizes) a b.
Proof.
  revert idx j; induction sizes as [|n rest IH]; intros idx j; cbn [ext_level contours].
  - reflexivity.
  - rewrite tcoef_app, !ccoef_app, ext_ring_cone_coef, IH.
    replace (idx + zn n + N * i - N) with (idx + N * i - N + zn n) by lia. lia.
Qed.

Lemma ext_sides_coef sizes nDivArg isCone a b :
  tcoef (ext_sides sizes nDivArg isCone) a b =
  ccoef (contours zid 0 sizes) a b -
  (if isCone then 0 else ccoef (contours zid (total sizes * zn (S nDivArg)) sizes) a b).
Proof.
  unfold ext_sides. set (N := total sizes).
  set (C := fun i : nat => ccoef (contours zid (N * zn i) sizes) a b).
  assert (Hlev : forall i, (1 <= i)%nat ->
            tcoef (ext_level sizes N (zn i) false 0 0) a b = C (Nat.pred i) - C i).
  { intros i Hi. rewrite ext_level_coef. unfold C.
    replace (zn (Nat.pred i)) with (zn i - 1) by (unfold zn; lia).
    replace (0 + N * zn i - N) with (N * (zn i - 1)) by lia.
    replace (0 + N * zn i) with (N * zn i) by lia. reflexivity. }
  rewrite tcoef_flat_map.
  destruct isCone; cbn [andb].
  - (* cone: levels 1..nDivArg are quads, the last is the fan *)
    rewrite seq_S, lsum_app. cbn [lsum].
    replace (Nat.eqb (1 + nDivArg) (S nDivArg)) with true by (symmetry; apply Nat.eqb_eq; lia).
    rewrite ext_level_cone_coef.
    rewrite (lsum_ext _ (fun k => C (Nat.pred k) - C k)).
    + rewrite lsum_tele. unfold C.
      replace (0 + N * zn (1 + nDivArg) - N) with (N * zn (1 + nDivArg)%nat - N) by lia.
      replace (N * zn (1 + nDivArg) - N) with (N * zn nDivArg) by (unfold zn; lia).
      replace (N * zn 0) with 0 by (unfold zn; lia).
      replace (1 + nDivArg)%nat with (S nDivArg) by lia.
      replace (0 + nDivArg)%nat with nDivArg by lia. lia.
    + intros k Hk. apply in_seq in Hk.
      replace (Nat.eqb k (S nDivArg)) with false by (symmetry; apply Nat.eqb_neq; lia).
      apply Hlev. lia.
  - rewrite (lsum_ext _ (fun k => C (Nat.pred k) - C k)).
    + rewrite lsum_tele. unfold C. replace (N * zn 0) with 0 by (unfold zn; lia).
      replace (0 + S nDivArg)%nat with (S nDivArg) by lia. reflexivity.
    + intros k Hk. apply in_seq in Hk. apply Hlev. lia.
Qed.

(* shifting a contour *)
Lemma ecoef_shift x y k a b : ecoef (x + k, y + k) a b = ecoef (x, y) (a - k) (b - k).
Proof.
  unfold ecoef; cbn [fst snd].
  replace (x + k =? a) with (x =? a - k) by (destruct (x =? a - k) eqn:E; symmetry; lia).
  replace (y + k =? b) with (y =? b - k) by (destruct (y =? b - k) eqn:E; symmetry; lia).
  replace (x + k =? b) with (x =? b - k) by (destruct (x =? b - k) eqn:E; symmetry; lia).
  replace (y + k =? a) with (y =? a - k) by (destruct (y =? a - k) eqn:E; symmetry; lia).
  reflexivity.
Qed.

Lemma contour_shift off k n a b :
  ccoef (contour zid (off + k) n) a b = ccoef (contour zid off n) (a - k) (b - k).
Proof.
  unfold contour. rewrite !ccoef_map. apply lsum_ext. intros v _. unfold zid.
  rewrite <- ecoef_shift. repeat first [lia | f_equal].
Qed.

Lemma contours_shift sizes off k a b :
  ccoef (contours zid (off + k) sizes) a b = ccoef (contours zid off sizes) (a - k) (b - k).
Proof.
  revert off; induction sizes as [|n rest IH]; intros off; cbn [contours]; [reflexivity|].
  rewrite !ccoef_app, contour_shift. replace (off + k + zn n) with (off + zn n + k) by lia.
  rewrite IH. reflexivity.
Qed.

Lemma tcoef_flip t a b : tcoef [flip_itri t] a b = - tcoef [t] a b.
Proof.
  destruct t as [[x y] z]. unfold flip_itri. rewrite !tcoef_one.
  pose proof (ecoef_rev x y a b). pose proof (ecoef_rev y z a b). pose proof (ecoef_rev z x a b). lia.
Qed.

Lemma tcoef_shift t k a b : tcoef [shift_tri k t] a b = tcoef [t] (a - k) (b - k).
Proof.
  destruct t as [[x y] z]. unfold shift_tri. rewrite !tcoef_one, !ecoef_shift. reflexivity.
Qed.

Lemma ext_caps_coef top N nd isCone a b :
  tcoef (ext_caps top N nd isCone) a b =
  - tcoef top a b + (if isCone then 0 else tcoef top (a - N * zn nd) (b - N * zn nd)).
Proof.
  unfold ext_caps. induction top as [|t top IH]; cbn [flat_map].
  - destruct isCone; reflexivity.
  - rewrite tcoef_app, IH, (tcoef_cons t top a b), (tcoef_cons t top (a - N * zn nd)).
    destruct isCone.
    + cbn [app]. rewrite tcoef_flip. lia.
    + cbn [app]. rewrite tcoef_cons, tcoef_flip, tcoef_shift. lia.
Qed.

(* the whole list is closed as soon as the cap triangulation has the contours
   as boundary (the triangulator's contract, property C10) *)
Lemma extrude_closed_l sizes nDivArg isCone top :
  (forall a b, tcoef top a b = ccoef (contours zid 0 sizes) a b) ->
  closed (extrude_tris sizes nDivArg isCone top).
Proof.
  intros Htop a b. unfold extrude_tris. rewrite tcoef_app, ext_sides_coef, ext_caps_coef.
  rewrite !Htop. destruct isCone; [lia|].
  rewrite <- (contours_shift sizes 0 (total sizes * zn (S nDivArg))).
  replace (0 + total sizes * zn (S nDivArg)) with (total sizes * zn (S nDivArg)) by lia. lia.
Qed.

(* ---- index bounds *)
Definition tri_all (P : Z -> Prop) (t : itri) : Prop :=
  let '(a, b, c) := t in P a /\ P b /\ P c.

Lemma Forall_flat_map {A B} (P : B -> Prop) (g : A -> list B) l :
  (forall x, In x l -> Forall P (g x)) -> Forall P (flat_map g l).
Proof.
  induction l as [|x l IH]; intros H; cbn [flat_map]; [constructor|].
  apply Forall_app. split; [apply H; left; reflexivity|]. apply IH. intros y Hy. apply H. right; exact Hy.
Qed.

Lemma Forall_impl_in {A} (P Q : A -> Prop) l :
  (forall x, In x l -> P x -> Q x) -> Forall P l -> Forall Q l.
Proof.
  intros H HP. apply Forall_forall. intros x Hx. apply (H x Hx).
  revert x Hx. apply Forall_forall. exact HP.
Qed.

Lemma tri_all_impl (P Q : Z -> Prop) t : (forall x, P x -> Q x) -> tri_all P t -> tri_all Q t.
Proof. destruct t as [[x y] z]. cbn. intros H (H1 & H2 & H3). auto. Qed.

Lemma ext_ring_range n off N apex :
  0 <= N ->
  Forall (tri_all (fun x => (off - N <= x < off + zn n - (match apex with Some _ => N | None => 0 end))
                            \/ apex = Some x)) (ext_ring n off N apex).
Proof.
  intros HN. unfold ext_ring. apply Forall_flat_map. intros v Hv. apply in_seq in Hv.
  unfold ext_vert. assert (Hz : 0 <= zn v < zn n) by (unfold zn; lia).
  destruct apex as [ap|]; repeat (apply Forall_cons; [cbn; repeat split|]); try apply Forall_nil;
    destruct (Nat.eqb v 0) eqn:E; try (right; reflexivity); left;
    try apply Nat.eqb_neq in E; unfold zn in *; lia.
Qed.

Lemma total_cons n r : total (n :: r) = zn n + total r.
Proof. reflexivity. Qed.

Lemma total_nonneg sizes : 0 <= total sizes.
Proof. induction sizes as [|n r IH]; [cbn; lia|]. rewrite total_cons. unfold zn. lia. Qed.

Lemma ext_level_range sizes N i cone idx j :
  0 <= N ->
  Forall (tri_all (fun x => (idx + N * i - N <= x < idx + N * i + total sizes - (if cone : bool then N else 0)) \/
                            (cone = true /\ N * i + j <= x < N * i + j + zn (length sizes))))
         (ext_level sizes N i cone idx j).
Proof.
  intros HN.
  revert idx j; induction sizes as [|n rest IH]; intros idx j; cbn [ext_level]; [constructor|].
  pose proof (total_nonneg rest) as Ht.
  apply Forall_app; split.
  - eapply Forall_impl; [|apply ext_ring_range; exact HN].
    intros t. apply tri_all_impl. intros x [Hx|Hx].
    + left. rewrite total_cons. destruct cone; cbn beta iota in *; lia.
    + right. destruct cone; [|discriminate]. inversion Hx; subst x. split; [reflexivity|].
      cbn [length]. unfold zn. lia.
  - eapply Forall_impl; [|apply IH].
    intros t. apply tri_all_impl. intros x [Hx|Hx].
    + left. rewrite total_cons. unfold zn in *. destruct cone; lia.
    + right. destruct Hx as [Hc Hx]. split; [exact Hc|]. cbn [length]. unfold zn in *. lia.
Qed.

Lemma ext_sides_range sizes nDivArg isCone :
  Forall (tri_in_range (ext_nverts sizes nDivArg isCone)) (ext_sides sizes nDivArg isCone).
Proof.
  unfold ext_sides. pose proof (total_nonneg sizes) as HN. set (N := total sizes) in *.
  apply Forall_flat_map. intros i Hi. apply in_seq in Hi.
  eapply Forall_impl; [|apply ext_level_range; exact HN].
  intros [[x y] z]. unfold tri_all, tri_in_range, ext_nverts. fold N.
  assert (Hi1 : 1 <= zn i <= zn (S nDivArg)) by (unfold zn; lia).
  assert (Hcone : (isCone && Nat.eqb i (S nDivArg)) = true -> isCone = true /\ zn i = zn (S nDivArg)).
  { intros H. apply andb_true_iff in H. destruct H as [H1 H2]. apply Nat.eqb_eq in H2. subst i. auto. }
  assert (Hq : (isCone && Nat.eqb i (S nDivArg)) = false -> isCone = true -> zn i + 1 <= zn (S nDivArg)).
  { intros H Hc. subst isCone. cbn in H. apply Nat.eqb_neq in H. unfold zn. lia. }
  assert (Hlen : 0 <= zn (length sizes)) by (unfold zn; lia).
  assert (Key : forall x,
    (0 + N * zn i - N <= x < 0 + N * zn i + N - (if (isCone && Nat.eqb i (S nDivArg)) then N else 0)) \/
    ((isCone && Nat.eqb i (S nDivArg)) = true /\ N * zn i + 0 <= x < N * zn i + 0 + zn (length sizes)) ->
    0 <= x < (if isCone then N * zn (S nDivArg) + zn (length sizes) else N * (zn (S nDivArg) + 1))).
  { intros w [Hw|[Hc Hw]].
    - destruct (isCone && Nat.eqb i (S nDivArg)) eqn:Ec.
      + destruct (Hcone eq_refl) as [-> Hi2]. rewrite <- Hi2. nia.
      + destruct isCone; [specialize (Hq eq_refl eq_refl)|]; nia.
    - destruct (Hcone Hc) as [-> Hi2]. rewrite <- Hi2. nia. }
  intros (H1 & H2 & H3). repeat split; try (apply Key; assumption).
  all: try (apply (proj1 (Key _ ltac:(eassumption)))); try (apply (proj2 (Key _ ltac:(eassumption)))).
Qed.

(* ----------------------------------------------------------------- Revolve *)
(* vertex k of the column of a polygon vertex with first index S: positive
   vertices have one vertex per slice, axis vertices a single one *)
Definition col (S : Z) (p : bool) (k : Z) : Z := if p then S + k else S.

Lemma slice_coef s ps (cur prev : bool) la sl a b :
  tcoef ((if cur then [(s + sl, s + la, if prev then ps + la else ps)] else [])
         ++ (if prev then [(ps + la, ps + sl, if cur then s + sl else s)] else [])) a b =
  (ecoef (col ps prev la, col ps prev sl) a b - ecoef (col s cur la, col s cur sl) a b) +
  (ecoef (col s cur la, col ps prev la) a b - ecoef (col s cur sl, col ps prev sl) a b).
Proof.
  unfold col. destruct cur, prev; cbn [app].
  - rewrite tcoef_cons, !tcoef_one.
    pose proof (ecoef_rev (s + la) (s + sl) a b). pose proof (ecoef_rev (s + sl) (ps + la) a b).
    pose proof (ecoef_rev (s + sl) (ps + sl) a b). lia.
  - rewrite tcoef_one, ecoef_loop.
    pose proof (ecoef_rev (s + la) (s + sl) a b). pose proof (ecoef_rev (s + sl) ps a b). lia.
  - rewrite tcoef_one, ecoef_loop. pose proof (ecoef_rev s (ps + sl) a b). lia.
  - rewrite tcoef_nil, !ecoef_loop. lia.
Qed.

Definition ringc (nDiv : nat) (full : bool) (S : Z) (p : bool) (a b : Z) : Z :=
  if full then lsum (fun v => ecoef (col S p (zn (lastv nDiv v)), col S p (zn v)) a b) (seq 0 nDiv)
  else lsum (fun k => ecoef (col S p (zn (Nat.pred k)), col S p (zn k)) a b) (seq 1 nDiv).

Lemma rev_vert_coef nDiv (full : bool) s ps (cur prev : bool) a b :
  tcoef (rev_vert nDiv (rev_nslices nDiv full) full s ps cur prev) a b =
  ringc nDiv full ps prev a b - ringc nDiv full s cur a b +
  (if full then 0
   else ecoef (col s cur 0, col ps prev 0) a b - ecoef (col s cur (zn nDiv), col ps prev (zn nDiv)) a b).
Proof.
  unfold rev_vert, ringc, rev_nslices. rewrite tcoef_flat_map. destruct full; cbn [orb].
  - set (G := fun k : nat => ecoef (col s cur (zn k), col ps prev (zn k)) a b).
    rewrite (lsum_ext _ (fun v =>
       (ecoef (col ps prev (zn (lastv nDiv v)), col ps prev (zn v)) a b
        - ecoef (col s cur (zn (lastv nDiv v)), col s cur (zn v)) a b) + (G (lastv nDiv v) - G v))).
    + rewrite lsum_plus, !lsum_minus, (lsum_cyc G). lia.
    + intros v Hv. apply in_seq in Hv. rewrite <- (zn_lastv nDiv v) by lia. apply slice_coef.
  - cbn [seq lsum Nat.eqb negb]. rewrite tcoef_nil.
    set (G := fun k : nat => ecoef (col s cur (zn k), col ps prev (zn k)) a b).
    rewrite (lsum_ext _ (fun k =>
       (ecoef (col ps prev (zn (Nat.pred k)), col ps prev (zn k)) a b
        - ecoef (col s cur (zn (Nat.pred k)), col s cur (zn k)) a b) + (G (Nat.pred k) - G k))).
    + rewrite lsum_plus, lsum_minus, (lsum_tele G). unfold G. cbn [Nat.add]. change (zn 0) with 0. lia.
    + intros k Hk. apply in_seq in Hk. destruct k as [|k]; [lia|]. cbn [Nat.eqb negb Nat.pred].
      replace (zn (S k) - 1) with (zn k) by (unfold zn; lia). apply slice_coef.
Qed.

(* prefix sums of column widths *)
Fixpoint wsum (nSlices : nat) (fl : list bool) : Z :=
  match fl with [] => 0 | c :: r => col_width nSlices c + wsum nSlices r end.

Fixpoint rev_go_tris (all rem : list bool) (nDiv nSlices : nat) (full : bool)
         (nAxis nPos : Z) (pv : nat) (s : Z) : list itri :=
  match rem with
  | [] => []
  | cur :: rest =>
      let prev := nth (if Nat.eqb pv 0 then length all - 1 else pv - 1)%nat all false in
      let prevStart := s + (if Nat.eqb pv 0 then nAxis + zn nSlices * nPos else 0)
                         + (if prev then - zn nSlices else -1) in
      rev_vert nDiv nSlices full s prevStart cur prev
      ++ rev_go_tris all rest nDiv nSlices full nAxis nPos (S pv) (s + col_width nSlices cur)
  end.

Fixpoint cs_from (nSlices : nat) (rem : list bool) (s : Z) : list Z :=
  match rem with [] => [] | c :: r => s :: cs_from nSlices r (s + col_width nSlices c) end.
Fixpoint en_from (nSlices : nat) (rem : list bool) (s : Z) : list Z :=
  match rem with [] => [] | c :: r => (s + col_width nSlices c - 1) :: en_from nSlices r (s + col_width nSlices c) end.

Lemma rev_poly_go_eq all rem nDiv nSlices full nAxis nPos pv s :
  rev_poly_go all rem nDiv nSlices full nAxis nPos pv s =
  (rev_go_tris all rem nDiv nSlices full nAxis nPos pv s, cs_from nSlices rem s, en_from nSlices rem s,
   s + wsum nSlices rem).
Proof.
  revert pv s; induction rem as [|c r IH]; intros pv s; cbn [rev_poly_go rev_go_tris cs_from en_from wsum].
  - f_equal. lia.
  - rewrite IH. f_equal. lia.
Qed.

Lemma wsum_app k l1 l2 : wsum k (l1 ++ l2) = wsum k l1 + wsum k l2.
Proof. induction l1 as [|c r IH]; cbn [wsum app]; lia. Qed.

Lemma wsum_counts k fl : (1 <= k)%nat -> wsum k fl = count_axis fl + zn k * count_pos fl.
Proof.
  intros Hk. unfold count_axis, count_pos. induction fl as [|c r IH]; cbn [wsum filter]; [cbn; lia|].
  rewrite IH. unfold col_width. replace (Nat.eqb k 0) with false by (symmetry; apply Nat.eqb_neq; lia).
  destruct c; cbn [negb length]; unfold zn; lia.
Qed.

Lemma firstn_S_nth {A} (d : A) l u : (u < length l)%nat -> firstn (S u) l = firstn u l ++ [nth u l d].
Proof.
  revert u; induction l as [|x l IH]; intros u Hu; cbn [length] in Hu; [lia|].
  destruct u; cbn [firstn nth app]; [reflexivity|]. f_equal. apply IH. lia.
Qed.

(* start index of the column of vertex u of the polygon `all` that begins at s0 *)
Definition cstart (k : nat) (all : list bool) (s0 : Z) (u : nat) : Z := s0 + wsum k (firstn u all).

Lemma cstart_S k all s0 u : (u < length all)%nat ->
  cstart k all s0 (S u) = cstart k all s0 u + col_width k (nth u all false).
Proof.
  intros Hu. unfold cstart. rewrite (firstn_S_nth false) by exact Hu. rewrite wsum_app. cbn [wsum]. lia.
Qed.

Lemma cstart_len k all s0 : cstart k all s0 (length all) = s0 + wsum k all.
Proof. unfold cstart. rewrite firstn_all. reflexivity. Qed.

Lemma col_width_neg k (p : bool) : (1 <= k)%nat -> (if p then - zn k else -1) = - col_width k p.
Proof.
  intros Hk. unfold col_width. replace (Nat.eqb k 0) with false by (symmetry; apply Nat.eqb_neq; lia).
  destruct p; lia.
Qed.

(* what the polygon contributes per vertex *)
Definition vterm nDiv (full : bool) k (all : list bool) s0 (a b : Z) (u : nat) : Z :=
  let n := length all in
  let H := fun w => ringc nDiv full (cstart k all s0 w) (nth w all false) a b in
  H (lastv n u) - H u +
  (if full then 0
   else ecoef (cstart k all s0 u, cstart k all s0 (lastv n u)) a b
        - ecoef (col (cstart k all s0 u) (nth u all false) (zn nDiv),
                 col (cstart k all s0 (lastv n u)) (nth (lastv n u) all false) (zn nDiv)) a b).

Lemma rev_go_tris_coef all pre rem nDiv full s0 a b :
  let k := rev_nslices nDiv full in
  (1 <= k)%nat ->
  all = pre ++ rem ->
  tcoef (rev_go_tris all rem nDiv k full (count_axis all) (count_pos all) (length pre)
                     (cstart k all s0 (length pre))) a b =
  lsum (vterm nDiv full k all s0 a b) (seq (length pre) (length rem)).
Proof.
  intros k Hk. revert pre; induction rem as [|c r IH]; intros pre Hall; cbn [rev_go_tris length seq lsum].
  - reflexivity.
  - assert (Hlen : length all = (length pre + S (length r))%nat) by (subst all; rewrite app_length; reflexivity).
    assert (Hc : nth (length pre) all false = c).
    { subst all. rewrite app_nth2 by lia. replace (length pre - length pre)%nat with 0%nat by lia. reflexivity. }
    rewrite tcoef_app.
    specialize (IH (pre ++ [c])). rewrite app_length in IH. cbn [length] in IH.
    replace (length pre + 1)%nat with (S (length pre)) in IH by lia.
    rewrite cstart_S in IH by lia. rewrite Hc in IH.
    rewrite IH by (subst all; rewrite <- app_assoc; reflexivity).
    f_equal.
    (* the vertex itself *)
    fold k.
    set (pv := length pre) in *.
    assert (Hprev : (if Nat.eqb pv 0 then length all - 1 else pv - 1)%nat = lastv (length all) pv).
    { unfold lastv. destruct (Nat.eqb pv 0); reflexivity. }
    rewrite Hprev. set (pu := lastv (length all) pv).
    assert (Hpu : (pu < length all)%nat).
    { unfold pu, lastv. destruct (Nat.eqb pv 0) eqn:E; [lia|]. apply Nat.eqb_neq in E. lia. }
    assert (Hps : cstart k all s0 pv + (if Nat.eqb pv 0 then count_axis all + zn k * count_pos all else 0)
                  + (if nth pu all false then - zn k else -1) = cstart k all s0 pu).
    { rewrite col_width_neg by exact Hk. unfold pu, lastv. destruct (Nat.eqb pv 0) eqn:E.
      - apply Nat.eqb_eq in E. rewrite E. rewrite <- wsum_counts by exact Hk.
        pose proof (cstart_S k all s0 (length all - 1) ltac:(lia)) as HS.
        replace (S (length all - 1)) with (length all) in HS by lia.
        rewrite cstart_len in HS. unfold cstart at 1. cbn [firstn wsum]. lia.
      - apply Nat.eqb_neq in E.
        pose proof (cstart_S k all s0 (pv - 1) ltac:(lia)) as HS.
        replace (S (pv - 1)) with pv in HS by lia. lia. }
    rewrite Hps. subst k. rewrite rev_vert_coef. unfold vterm. fold pu. rewrite Hc.
    unfold col at 1 2. destruct c, (nth pu all false); cbn beta iota;
      rewrite ?Z.add_0_r; reflexivity.
Qed.

Lemma nth_cs_from k rem s u :
  (u < length rem)%nat -> nth u (cs_from k rem s) (-1) = s + wsum k (firstn u rem).
Proof.
  revert s u; induction rem as [|c r IH]; intros s u Hu; cbn [length] in Hu; [lia|].
  destruct u; cbn [cs_from nth firstn wsum]; [lia|]. rewrite IH by lia. lia.
Qed.

Lemma nth_en_from k rem s u :
  (u < length rem)%nat ->
  nth u (en_from k rem s) (-1) = s + wsum k (firstn u rem) + col_width k (nth u rem false) - 1.
Proof.
  revert s u; induction rem as [|c r IH]; intros s u Hu; cbn [length] in Hu; [lia|].
  destruct u; cbn [en_from nth firstn wsum]; [lia|]. rewrite IH by lia. lia.
Qed.

Lemma length_cs_from k rem s : length (cs_from k rem s) = length rem.
Proof. revert s; induction rem; intros s; cbn; [reflexivity|]. rewrite IHrem. reflexivity. Qed.
Lemma length_en_from k rem s : length (en_from k rem s) = length rem.
Proof. revert s; induction rem; intros s; cbn; [reflexivity|]. rewrite IHrem. reflexivity. Qed.

Lemma lastv_lt n v : (v < n)%nat -> (lastv n v < n)%nat.
Proof. unfold lastv. destruct v; cbn [Nat.eqb]; lia. Qed.

Lemma nthz_nat l u : nthz l (zn u) = nth u l (-1).
Proof. unfold nthz, zn. rewrite Nat2Z.id. reflexivity. Qed.

(* one polygon *)
Lemma rev_poly_coef fl nDiv full s0 a b :
  let k := rev_nslices nDiv full in
  (1 <= k)%nat ->
  let '(ts, st, en, s1) := rev_poly fl nDiv k full s0 in
  tcoef ts a b =
  (if full then 0
   else ccoef (contour (nthz en) 0 (length fl)) a b - ccoef (contour (nthz st) 0 (length fl)) a b)
  /\ st = cs_from k fl s0 /\ en = en_from k fl s0 /\ s1 = s0 + wsum k fl.
Proof.
  intros k Hk. unfold rev_poly. rewrite rev_poly_go_eq.
  split; [|auto].
  pose proof (rev_go_tris_coef fl [] fl nDiv full s0 a b Hk eq_refl) as H.
  cbn [length] in H. unfold cstart at 1 in H. cbn [firstn wsum] in H.
  replace (s0 + 0) with s0 in H by lia. fold k in H. rewrite H. clear H.
  set (n := length fl).
  set (Hf := fun w => ringc nDiv full (cstart k fl s0 w) (nth w fl false) a b).
  unfold vterm. fold n.
  rewrite lsum_plus, lsum_minus.
  pose proof (lsum_cyc Hf n) as Hc. unfold Hf in Hc. cbn beta in Hc. rewrite Hc. clear Hc.
  destruct full.
  - rewrite lsum_zero. lia.
  - unfold contour. rewrite !ccoef_map.
    assert (Hk' : k = S nDiv) by reflexivity.
    rewrite <- (lsum_minus (fun k0 => ecoef (nthz (en_from k fl s0) (0 + zn (lastv n k0)), nthz (en_from k fl s0) (0 + zn k0)) a b)).
    match goal with |- ?X - ?X + ?L = ?R => enough (L = R) by lia end.
    apply lsum_ext. intros u Hu. apply in_seq in Hu.
    pose proof (lastv_lt n u ltac:(lia)) as Hl.
    rewrite !Z.add_0_l, !nthz_nat.
    rewrite !nth_cs_from, !nth_en_from by (fold n; lia).
    fold (cstart k fl s0 u). fold (cstart k fl s0 (lastv n u)).
    rewrite (ecoef_rev (cstart k fl s0 (lastv n u)) (cstart k fl s0 u)).
    rewrite (ecoef_rev (col (cstart k fl s0 (lastv n u)) (nth (lastv n u) fl false) (zn nDiv))).
    assert (Hcol : forall w, col (cstart k fl s0 w) (nth w fl false) (zn nDiv) =
                             cstart k fl s0 w + col_width k (nth w fl false) - 1).
    { intros w. unfold col, col_width. rewrite Hk'. cbn [Nat.eqb]. destruct (nth w fl false); unfold zn; lia. }
    rewrite !Hcol. lia.
Qed.

Lemma contour_ext f g off off' n :
  (forall i, 0 <= i < zn n -> f (off + i) = g (off' + i)) -> contour f off n = contour g off' n.
Proof.
  intros H. unfold contour. apply map_ext_in. intros v Hv. apply in_seq in Hv.
  pose proof (lastv_lt n v ltac:(lia)) as Hl.
  rewrite !H by (unfold zn; lia). reflexivity.
Qed.

Lemma contours_ext f g off off' sizes :
  (forall i, 0 <= i < total sizes -> f (off + i) = g (off' + i)) ->
  contours f off sizes = contours g off' sizes.
Proof.
  revert off off'; induction sizes as [|n r IH]; intros off off' H; cbn [contours]; [reflexivity|].
  rewrite total_cons in H. pose proof (total_nonneg r) as Hr. f_equal.
  - apply contour_ext. intros i Hi. apply H. lia.
  - apply IH. intros i Hi. replace (off + zn n + i) with (off + (zn n + i)) by lia.
    replace (off' + zn n + i) with (off' + (zn n + i)) by lia. apply H. unfold zn in *. lia.
Qed.

Lemma nthz_app_l l1 l2 i : 0 <= i < zn (length l1) -> nthz (l1 ++ l2) i = nthz l1 i.
Proof. intros H. unfold nthz. apply app_nth1. unfold zn in H. lia. Qed.

Lemma nthz_app_r l1 l2 i : 0 <= i -> nthz (l1 ++ l2) (zn (length l1) + i) = nthz l2 i.
Proof.
  intros H. unfold nthz. rewrite app_nth2 by (unfold zn; lia). f_equal. unfold zn. lia.
Qed.

Definition sizes_of (polys : list (list bool)) : list nat := map (@length bool) polys.

Lemma rev_polys_coef polys nDiv full s a b :
  let k := rev_nslices nDiv full in
  (1 <= k)%nat ->
  let '(ts, st, en, s1) := rev_polys polys nDiv k full s in
  tcoef ts a b =
  (if full then 0
   else ccoef (contours (nthz en) 0 (sizes_of polys)) a b - ccoef (contours (nthz st) 0 (sizes_of polys)) a b)
  /\ zn (length st) = total (sizes_of polys) /\ zn (length en) = total (sizes_of polys).
Proof.
  intros k Hk. revert s; induction polys as [|fl rest IH]; intros s; cbn [rev_polys sizes_of map].
  - cbn. destruct full; auto.
  - pose proof (rev_poly_coef fl nDiv full s a b Hk) as H1. fold k in H1.
    destruct (rev_poly fl nDiv k full s) as [[[t1 st1] en1] s1].
    destruct H1 as (H1 & Hst & Hen & Hs1).
    specialize (IH s1). destruct (rev_polys rest nDiv k full s1) as [[[t2 st2] en2] s2].
    destruct IH as (IH & Hl2 & Hl2').
    assert (Hl1 : length st1 = length fl) by (rewrite Hst; apply length_cs_from).
    assert (Hl1' : length en1 = length fl) by (rewrite Hen; apply length_en_from).
    rewrite !app_length, total_cons. fold (sizes_of rest).
    split; [|unfold zn in *; lia].
    rewrite tcoef_app, H1, IH. destruct full; [lia|].
    cbn [contours]. rewrite !ccoef_app.
    rewrite (contour_ext (nthz (en1 ++ en2)) (nthz en1) 0 0) by (intros i Hi; apply nthz_app_l; unfold zn in *; lia).
    rewrite (contour_ext (nthz (st1 ++ st2)) (nthz st1) 0 0) by (intros i Hi; apply nthz_app_l; unfold zn in *; lia).
    rewrite (contours_ext (nthz (en1 ++ en2)) (nthz en2) (0 + zn (length fl)) 0).
    2:{ intros i Hi. rewrite <- Hl1'. rewrite !Z.add_0_l. apply nthz_app_r. lia. }
    rewrite (contours_ext (nthz (st1 ++ st2)) (nthz st2) (0 + zn (length fl)) 0).
    2:{ intros i Hi. rewrite <- Hl1. rewrite !Z.add_0_l. apply nthz_app_r. lia. }
    lia.
Qed.

(* map_tri pushes a boundary chain forward *)
Lemma tcoef_map_rev f t a b : tcoef [rev_tri (map_tri f t)] a b = - tcoef [map_tri f t] a b.
Proof.
  destruct t as [[x y] z]. unfold rev_tri, map_tri. rewrite !tcoef_one.
  pose proof (ecoef_rev (f x) (f y) a b). pose proof (ecoef_rev (f y) (f z) a b).
  pose proof (ecoef_rev (f z) (f x) a b). lia.
Qed.

Lemma tcoef_map_rev_l f ts a b :
  tcoef (map (fun t => rev_tri (map_tri f t)) ts) a b = - tcoef (map (map_tri f) ts) a b.
Proof.
  induction ts as [|t ts IH]; cbn [map]; [reflexivity|].
  rewrite tcoef_cons, (tcoef_cons (map_tri f t)), IH, tcoef_map_rev. lia.
Qed.

(* Revolve: boundary of the side triangles, and closedness of the whole list
   once the caps' images have the contours as boundary *)
Lemma revolve_sides_l polys nDiv full a b :
  (1 <= nDiv)%nat ->
  let '(ts, st, en, nv) := rev_polys polys nDiv (rev_nslices nDiv full) full 0 in
  tcoef ts a b =
  (if full then 0
   else ccoef (contours (nthz en) 0 (sizes_of polys)) a b - ccoef (contours (nthz st) 0 (sizes_of polys)) a b).
Proof.
  intros Hn. assert (Hk : (1 <= rev_nslices nDiv full)%nat) by (unfold rev_nslices; destruct full; lia).
  pose proof (rev_polys_coef polys nDiv full 0 a b Hk) as H.
  destruct (rev_polys polys nDiv (rev_nslices nDiv full) full 0) as [[[ts st] en] nv].
  exact (proj1 H).
Qed.

Lemma revolve_closed_l polys nDiv full front :
  (1 <= nDiv)%nat ->
  let '(_, st, en, _) := rev_polys polys nDiv (rev_nslices nDiv full) full 0 in
  (full = false ->
   (forall a b, tcoef (map (map_tri (nthz st)) front) a b = ccoef (contours (nthz st) 0 (sizes_of polys)) a b) /\
   (forall a b, tcoef (map (map_tri (nthz en)) front) a b = ccoef (contours (nthz en) 0 (sizes_of polys)) a b)) ->
  closed (fst (revolve_tris polys nDiv full front)).
Proof.
  intros Hn. unfold revolve_tris.
  pose proof (fun a b => revolve_sides_l polys nDiv full a b Hn) as H.
  destruct (rev_polys polys nDiv (rev_nslices nDiv full) full 0) as [[[ts st] en] nv].
  intros Hcaps a b. cbn [fst]. rewrite tcoef_app, H. destruct full.
  - rewrite tcoef_nil. lia.
  - destruct (Hcaps eq_refl) as [Hs He]. rewrite tcoef_app, tcoef_map_rev_l, Hs, He. lia.
Qed.

(* ---- Revolve index bounds *)
Lemma rev_vert_range nDiv full s ps (cur prev : bool) :
  let k := rev_nslices nDiv full in
  (1 <= nDiv)%nat ->
  Forall (tri_all (fun x => (s <= x < s + col_width k cur) \/ (ps <= x < ps + col_width k prev)))
         (rev_vert nDiv k full s ps cur prev).
Proof.
  intros k Hn. unfold rev_vert. apply Forall_flat_map. intros sl Hsl. apply in_seq in Hsl.
  assert (Hw : forall p, col_width k p = if p then zn k else 1).
  { intros p. unfold col_width. replace (Nat.eqb k 0) with false; [reflexivity|].
    symmetry. apply Nat.eqb_neq. unfold k, rev_nslices. destruct full; lia. }
  rewrite !Hw.
  assert (Hla : 0 <= (if Nat.eqb sl 0 then zn nDiv else zn sl) - 1 < zn k).
  { destruct sl; cbn [Nat.eqb]; unfold k, rev_nslices, zn in *; destruct full; lia. }
  assert (Hs : 0 <= zn sl < zn k) by (unfold zn; lia).
  destruct (full || negb (Nat.eqb sl 0)); [|constructor].
  set (la := (if Nat.eqb sl 0 then zn nDiv else zn sl) - 1) in *.
  destruct cur, prev; cbn [app]; repeat (apply Forall_cons; [cbn; repeat split|]); try apply Forall_nil; lia.
Qed.

Lemma wsum_nonneg k fl : 0 <= wsum k fl.
Proof.
  induction fl as [|c r IH]; cbn [wsum]; [lia|]. unfold col_width.
  destruct c, (Nat.eqb k 0); unfold zn; lia.
Qed.

Lemma cstart_bounds k all s0 u : (u < length all)%nat ->
  s0 <= cstart k all s0 u /\ cstart k all s0 u + col_width k (nth u all false) <= s0 + wsum k all.
Proof.
  intros Hu. split; [unfold cstart; pose proof (wsum_nonneg k (firstn u all)); lia|].
  rewrite <- cstart_S by exact Hu. unfold cstart.
  rewrite <- (firstn_skipn (S u) all) at 2. rewrite wsum_app.
  pose proof (wsum_nonneg k (skipn (S u) all)). lia.
Qed.

Lemma rev_go_tris_range all pre rem nDiv full s0 :
  let k := rev_nslices nDiv full in
  (1 <= nDiv)%nat ->
  all = pre ++ rem ->
  Forall (tri_all (fun x => s0 <= x < s0 + wsum k all))
         (rev_go_tris all rem nDiv k full (count_axis all) (count_pos all) (length pre)
                      (cstart k all s0 (length pre))).
Proof.
  intros k Hn. assert (Hk : (1 <= k)%nat) by (unfold k, rev_nslices; destruct full; lia).
  revert pre; induction rem as [|c r IH]; intros pre Hall; cbn [rev_go_tris]; [constructor|].
  assert (Hlen : length all = (length pre + S (length r))%nat) by (subst all; rewrite app_length; reflexivity).
  assert (Hc : nth (length pre) all false = c).
  { subst all. rewrite app_nth2 by lia. replace (length pre - length pre)%nat with 0%nat by lia. reflexivity. }
  apply Forall_app; split.
  - set (pv := length pre) in *.
    assert (Hprev : (if Nat.eqb pv 0 then length all - 1 else pv - 1)%nat = lastv (length all) pv).
    { unfold lastv. destruct (Nat.eqb pv 0); reflexivity. }
    rewrite Hprev. set (pu := lastv (length all) pv).
    assert (Hpu : (pu < length all)%nat) by (apply lastv_lt; lia).
    assert (Hps : cstart k all s0 pv + (if Nat.eqb pv 0 then count_axis all + zn k * count_pos all else 0)
                  + (if nth pu all false then - zn k else -1) = cstart k all s0 pu).
    { rewrite col_width_neg by exact Hk. unfold pu, lastv. destruct (Nat.eqb pv 0) eqn:E.
      - apply Nat.eqb_eq in E. rewrite E. rewrite <- wsum_counts by exact Hk.
        pose proof (cstart_S k all s0 (length all - 1) ltac:(lia)) as HS.
        replace (S (length all - 1)) with (length all) in HS by lia.
        rewrite cstart_len in HS. unfold cstart at 1. cbn [firstn wsum]. lia.
      - apply Nat.eqb_neq in E.
        pose proof (cstart_S k all s0 (pv - 1) ltac:(lia)) as HS.
        replace (S (pv - 1)) with pv in HS by lia. lia. }
    rewrite Hps.
    eapply Forall_impl; [|apply rev_vert_range; exact Hn].
    intros t. apply tri_all_impl. intros x Hx.
    pose proof (cstart_bounds k all s0 pv ltac:(lia)) as B1. rewrite Hc in B1.
    pose proof (cstart_bounds k all s0 pu Hpu) as B2. fold k in Hx. lia.
  - specialize (IH (pre ++ [c])). rewrite app_length in IH. cbn [length] in IH.
    replace (length pre + 1)%nat with (S (length pre)) in IH by lia.
    rewrite cstart_S in IH by lia. rewrite Hc in IH.
    apply IH. subst all. rewrite <- app_assoc. reflexivity.
Qed.

Lemma rev_polys_range polys nDiv full s :
  let k := rev_nslices nDiv full in
  (1 <= nDiv)%nat ->
  let '(ts, st, en, s1) := rev_polys polys nDiv k full s in
  s <= s1 /\ Forall (tri_all (fun x => s <= x < s1)) ts.
Proof.
  intros k Hn. revert s; induction polys as [|fl rest IH]; intros s; cbn [rev_polys].
  - split; [lia|constructor].
  - unfold rev_poly. rewrite rev_poly_go_eq.
    specialize (IH (s + wsum k fl)). destruct (rev_polys rest nDiv k full (s + wsum k fl)) as [[[t2 st2] en2] s2].
    destruct IH as [Hle IH]. pose proof (wsum_nonneg k fl) as Hw. split; [lia|].
    apply Forall_app; split.
    + pose proof (rev_go_tris_range fl [] fl nDiv full s Hn eq_refl) as H. cbn [length] in H.
      unfold cstart at 1 in H. cbn [firstn wsum] in H. replace (s + 0) with s in H by lia.
      eapply Forall_impl; [|exact H]. intros t. apply tri_all_impl. fold k. intros x Hx. lia.
    + eapply Forall_impl; [|exact IH]. intros t. apply tri_all_impl. intros x Hx. lia.
Qed.

Lemma tri_all_range nv t : tri_all (fun x => 0 <= x < nv) t -> tri_in_range nv t.
Proof. destruct t as [[x y] z]. cbn. auto. Qed.

Lemma revolve_sides_range_l polys nDiv full :
  (1 <= nDiv)%nat ->
  let '(ts, st, en, nv) := rev_polys polys nDiv (rev_nslices nDiv full) full 0 in
  Forall (tri_in_range nv) ts.
Proof.
  intros Hn. pose proof (rev_polys_range polys nDiv full 0 Hn) as H.
  destruct (rev_polys polys nDiv (rev_nslices nDiv full) full 0) as [[[ts st] en] nv].
  destruct H as [_ H]. eapply Forall_impl; [|exact H]. intros t. apply tri_all_range.
Qed.
