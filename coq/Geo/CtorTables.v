(* C17 — finite tables (shapes, marching tetrahedra, index packing), segment
   counts and affine maps: lemmas. Tables come from Gen/C17Shapes.v, which the
   check regenerates from the sources on every run. *)
From Coq Require Import ZArith List Bool Lia Ring.
From MV Require Import Geo.CtorDefs Geo.CtorModel Gen.C17Shapes.
Import ListNotations.
Local Open Scope Z_scope.

(* ---- executable closedness is sound *)
Lemma ccoef_count c a b :
  ccoef c a b = Z.of_nat (count_edge c a b) - Z.of_nat (count_edge c b a).
Proof.
  unfold count_edge. induction c as [|e c IH]; cbn [ccoef filter]; [reflexivity|].
  rewrite IH. unfold ecoef.
  destruct ((fst e =? a) && (snd e =? b)), ((fst e =? b) && (snd e =? a)); cbn [length]; lia.
Qed.

Lemma count_pos_in c a b : count_edge c a b <> 0%nat -> In (a, b) c.
Proof.
  unfold count_edge. induction c as [|e c IH]; cbn [filter]; [intros H; exfalso; apply H; reflexivity|].
  destruct ((fst e =? a) && (snd e =? b)) eqn:E.
  - intros _. left. apply andb_true_iff in E. destruct E as [E1 E2].
    apply Z.eqb_eq in E1, E2. destruct e; cbn in *; subst; reflexivity.
  - intros H. right. apply IH. exact H.
Qed.

Lemma manifold_closedb_sound ts : manifold_closedb ts = true -> closed ts.
Proof.
  unfold manifold_closedb, closed, tcoef. intros H a b. rewrite forallb_forall in H.
  rewrite ccoef_count.
  destruct (Nat.eq_dec (count_edge (tchain ts) a b) 0) as [E1|E1];
  destruct (Nat.eq_dec (count_edge (tchain ts) b a) 0) as [E2|E2].
  - rewrite E1, E2. reflexivity.
  - specialize (H (b, a) (count_pos_in _ _ _ E2)). cbn [fst snd] in H.
    apply andb_true_iff in H. destruct H as [H _]. apply andb_true_iff in H. destruct H as [H1 H2].
    apply Nat.eqb_eq in H1, H2. lia.
  - specialize (H (a, b) (count_pos_in _ _ _ E1)). cbn [fst snd] in H.
    apply andb_true_iff in H. destruct H as [H _]. apply andb_true_iff in H. destruct H as [H1 H2].
    apply Nat.eqb_eq in H1, H2. lia.
  - specialize (H (a, b) (count_pos_in _ _ _ E1)). cbn [fst snd] in H.
    apply andb_true_iff in H. destruct H as [H _]. apply andb_true_iff in H. destruct H as [H1 H2].
    apply Nat.eqb_eq in H1, H2. lia.
Qed.

Lemma chain_closedb_sound ts : chain_closedb ts = true -> closed ts.
Proof.
  unfold chain_closedb, closed, tcoef. intros H a b. rewrite forallb_forall in H.
  destruct (Nat.eq_dec (count_edge (tchain ts) a b) 0) as [E1|E1].
  - destruct (Nat.eq_dec (count_edge (tchain ts) b a) 0) as [E2|E2].
    + rewrite ccoef_count, E1, E2. reflexivity.
    + specialize (H (b, a) (count_pos_in _ _ _ E2)). cbn [fst snd] in H. apply Z.eqb_eq in H.
      rewrite ccoef_count in H |- *. lia.
  - specialize (H (a, b) (count_pos_in _ _ _ E1)). cbn [fst snd] in H. apply Z.eqb_eq in H. exact H.
Qed.

Lemma shapes_ok :
  shape_ok tetra_verts tetra_tris = true /\ shape_ok cube_verts cube_tris = true /\
  shape_ok octa_verts octa_tris = true.
Proof. vm_compute. auto. Qed.

Lemma shape_ok_closed verts ts : shape_ok verts ts = true ->
  closed ts /\ Forall (tri_in_range (zn (length verts))) ts /\ 0 < pvolume6 (tris_of verts ts).
Proof.
  unfold shape_ok. intros H. apply andb_true_iff in H. destruct H as [H H3].
  apply andb_true_iff in H. destruct H as [H1 H2]. split; [apply manifold_closedb_sound; exact H2|].
  split; [|apply Z.ltb_lt; exact H3].
  apply Forall_forall. intros [[x y] z] Ht. rewrite forallb_forall in H1. specialize (H1 _ Ht).
  unfold tri_in_rangeb in H1. unfold tri_in_range.
  repeat (apply andb_true_iff in H1; destruct H1 as [H1 ?]).
  repeat match goal with H : (_ <=? _) = true |- _ => apply Z.leb_le in H
                    | H : (_ <? _) = true |- _ => apply Z.ltb_lt in H end. lia.
Qed.

(* ---- marching tetrahedra *)
Lemma tet_tables_ok_l : tet_tables_ok tet_tri0 tet_tri1 = true.
Proof. vm_compute. reflexivity. Qed.

(* ---- BCC index packing: exhaustive for all grid powers 1..4 per axis *)
Definition pows : list Z := [1; 2; 3; 4].
Definition zr (n : Z) : list Z := map Z.of_nat (seq 0 (Z.to_nat n)).
Definition encode_decode_ok (px py pz : Z) : bool :=
  forallb (fun x => forallb (fun y => forallb (fun z => forallb (fun w =>
     let '(x', y', z', w') := decode_index (encode_index x y z w py pz) px py pz in
     (x' =? x) && (y' =? y) && (z' =? z) && (w' =? w)) [0; 1]) (zr (2 ^ pz))) (zr (2 ^ py))) (zr (2 ^ px)).

Lemma encode_decode_sweep :
  forallb (fun px => forallb (fun py => forallb (fun pz => encode_decode_ok px py pz) pows) pows) pows = true.
Proof. vm_compute. reflexivity. Qed.

Lemma in_zr x n : 0 <= x < n -> In x (zr n).
Proof.
  intros H. unfold zr. apply in_map_iff. exists (Z.to_nat x). split; [lia|]. apply in_seq. lia.
Qed.

Lemma encode_decode_l px py pz x y z w :
  1 <= px <= 4 -> 1 <= py <= 4 -> 1 <= pz <= 4 ->
  0 <= x < 2 ^ px -> 0 <= y < 2 ^ py -> 0 <= z < 2 ^ pz -> 0 <= w < 2 ->
  decode_index (encode_index x y z w py pz) px py pz = (x, y, z, w).
Proof.
  intros Hx Hy Hz Bx By Bz Bw. pose proof encode_decode_sweep as S.
  assert (Hin : forall p, 1 <= p <= 4 -> In p pows) by (intros p Hp; unfold pows; cbn; lia).
  rewrite forallb_forall in S. specialize (S px (Hin px Hx)).
  rewrite forallb_forall in S. specialize (S py (Hin py Hy)).
  rewrite forallb_forall in S. specialize (S pz (Hin pz Hz)).
  unfold encode_decode_ok in S.
  rewrite forallb_forall in S. specialize (S x (in_zr x _ Bx)).
  rewrite forallb_forall in S. specialize (S y (in_zr y _ By)).
  rewrite forallb_forall in S. specialize (S z (in_zr z _ Bz)).
  rewrite forallb_forall in S. specialize (S w ltac:(cbn; lia)).
  destruct (decode_index (encode_index x y z w py pz) px py pz) as [[[x' y'] z'] w'].
  repeat (apply andb_true_iff in S; destruct S as [S ?]).
  repeat match goal with H : (_ =? _) = true |- _ => apply Z.eqb_eq in H end. subst. reflexivity.
Qed.

(* ---- Quality::GetCircularSegments *)
Lemma circ_segments_spec_l explicit m : 0 <= m ->
  circ_segments explicit m =
  if 0 <? explicit then explicit else Z.max 4 (4 * ((m + 3) / 4)).
Proof.
  intros Hm. unfold circ_segments. destruct (0 <? explicit); [reflexivity|].
  rewrite Z.rem_mod_nonneg by lia.
  pose proof (Z.div_mod (m + 3) 4 ltac:(lia)). lia.
Qed.

(* 4*ceil(m/4): the least multiple of 4 that is >= m *)
Lemma round_up_4 m : 0 <= m ->
  let r := 4 * ((m + 3) / 4) in r mod 4 = 0 /\ m <= r < m + 4.
Proof.
  intros Hm r. unfold r. pose proof (Z.div_mod (m + 3) 4 ltac:(lia)).
  pose proof (Z.mod_pos_bound (m + 3) 4 ltac:(lia)).
  split; [rewrite Z.mul_comm; apply Z.mod_mul; lia|lia].
Qed.

(* ---- affine maps *)
Lemma apply_compose a b p : apply (compose a b) p = apply a (apply b p).
Proof.
  destruct a as [[[a00 a01] a02] [[a10 a11] a12] [[a20 a21] a22] [[a30 a31] a32]].
  destruct b as [[[b00 b01] b02] [[b10 b11] b12] [[b20 b21] b22] [[b30 b31] b32]].
  destruct p as [[x y] z].
  cbv [apply compose vadd vscale vx vy vz c0 c1 c2 c3 fst snd].
  f_equal; [f_equal|]; ring.
Qed.

Lemma det_compose a b : det34 (compose a b) = det34 a * det34 b.
Proof.
  destruct a as [[[a00 a01] a02] [[a10 a11] a12] [[a20 a21] a22] [[a30 a31] a32]].
  destruct b as [[[b00 b01] b02] [[b10 b11] b12] [[b20 b21] b22] [[b30 b31] b32]].
  cbv [det34 compose apply vadd vscale vx vy vz c0 c1 c2 c3 fst snd]. ring.
Qed.

Lemma apply_translate t p : apply (mat_translate t) p = vadd p t.
Proof.
  destruct t as [[tx ty] tz], p as [[x y] z].
  cbv [apply mat_translate vadd vscale vx vy vz c0 c1 c2 c3 fst snd].
  f_equal; [f_equal|]; ring.
Qed.

Lemma apply_scale v p : apply (mat_scale v) p = (vx v * vx p, vy v * vy p, vz v * vz p).
Proof.
  destruct v as [[sx sy] sz], p as [[x y] z].
  cbv [apply mat_scale vadd vscale vx vy vz c0 c1 c2 c3 fst snd].
  f_equal; [f_equal|]; ring.
Qed.

Lemma det_translate t : det34 (mat_translate t) = 1.
Proof. reflexivity. Qed.
Lemma det_scale v : det34 (mat_scale v) = vx v * vy v * vz v.
Proof. destruct v as [[sx sy] sz]. cbv [det34 mat_scale vx vy vz c0 c1 c2 c3 fst snd]. ring. Qed.
Lemma det_mirror n :
  let d := vx n * vx n + vy n * vy n + vz n * vz n in det34 (mat_mirror_scaled n) = - (d * d * d).
Proof.
  destruct n as [[x y] z]. cbv [det34 mat_mirror_scaled vx vy vz c0 c1 c2 c3 fst snd]. ring.
Qed.
(* the mirror map fixes the plane n.p = 0 and negates n (scaled by d) *)
Lemma mirror_normal n :
  let d := vx n * vx n + vy n * vy n + vz n * vz n in
  apply (mat_mirror_scaled n) n = vscale (- d) n.
Proof.
  destruct n as [[x y] z].
  cbv [apply mat_mirror_scaled vadd vscale vx vy vz c0 c1 c2 c3 fst snd].
  f_equal; [f_equal|]; ring.
Qed.

(* determinant of three transformed points, linear maps *)
Lemma pdet3_linear m a b c : c3 m = (0, 0, 0) ->
  pdet3 (apply m a) (apply m b) (apply m c) = det34 m * pdet3 a b c.
Proof.
  destruct m as [[[a00 a01] a02] [[a10 a11] a12] [[a20 a21] a22] t]. cbn [c3]. intros ->.
  destruct a as [[ax ay] az], b as [[bx by_] bz], c as [[cx cy] cz].
  cbv [pdet3 det34 apply vadd vscale vx vy vz c0 c1 c2 c3 fst snd]. ring.
Qed.

Lemma pvolume6_flip ts : pvolume6 (map pflip ts) = - pvolume6 ts.
Proof.
  induction ts as [|[[a b] c] ts IH]; cbn [map pvolume6 fold_right pflip]; [reflexivity|].
  fold (pvolume6 (map pflip ts)). fold (pvolume6 ts). rewrite IH.
  destruct a as [[ax ay] az], b as [[bx by_] bz], c as [[cx cy] cz]. unfold pdet3, vx, vy, vz; cbn [fst snd]. ring.
Qed.

Lemma pvolume6_linear m ts : c3 m = (0, 0, 0) ->
  pvolume6 (map (fun t : ptri => let '(a, b, c) := t in (apply m a, apply m b, apply m c)) ts)
  = det34 m * pvolume6 ts.
Proof.
  intros Hm. induction ts as [|[[a b] c] ts IH]; cbn [map pvolume6 fold_right]; [ring|].
  fold (pvolume6 ts).
  fold (pvolume6 (map (fun t : ptri => let '(a, b, c) := t in (apply m a, apply m b, apply m c)) ts)).
  rewrite IH, pdet3_linear by exact Hm. ring.
Qed.

(* Impl::Transform: after the flip for det < 0 the volume is |det| * volume *)
Lemma transform_volume m ts : c3 m = (0, 0, 0) ->
  pvolume6 (transform_tris m ts) = Z.abs (det34 m) * pvolume6 ts.
Proof.
  intros Hm. unfold transform_tris. destruct (det34 m <? 0) eqn:E.
  - apply Z.ltb_lt in E. rewrite pvolume6_flip, pvolume6_linear by exact Hm. lia.
  - apply Z.ltb_ge in E. rewrite pvolume6_linear by exact Hm. lia.
Qed.

(* rotations by multiples of 90 degrees: with (cos,sin) from the quadrant
   table the matrix of CsgNode::Rotate is a signed permutation matrix of
   determinant 1 *)
Definition quads : list (Z * Z) := [(1, 0); (0, 1); (-1, 0); (0, -1)].
Definition signed_perm (m : mat34) : bool :=
  let cols := [c0 m; c1 m; c2 m] in
  forallb (fun c : v3 => Z.abs (vx c) + Z.abs (vy c) + Z.abs (vz c) =? 1) cols &&
  forallb (fun f : v3 -> Z => Z.abs (f (c0 m)) + Z.abs (f (c1 m)) + Z.abs (f (c2 m)) =? 1) [vx; vy; vz] &&
  (det34 m =? 1).
Lemma rot90_signed_perm :
  forallb (fun x : Z * Z => forallb (fun y : Z * Z => forallb (fun z : Z * Z =>
    signed_perm (mat_rot (fst x) (snd x) (fst y) (snd y) (fst z) (snd z))) quads) quads) quads = true.
Proof. vm_compute. reflexivity. Qed.

(* ---- Extrude's per-division 2x2 map, entries regenerated from the statements
   of the division loop (Gen/C17Shapes, extrude_m_xx etc.): it is "scale after twist",
   S * R, as the doc comment of Manifold::Extrude says, for symbolic
   (sx, sy) = lerp(1, scaleTop, alpha), c = cosd(phi), s = sind(phi). *)
Lemma extrude_map_l sx sy c s x y :
  (extrude_m_xx sx sy c s * x + extrude_m_xy sx sy c s * y,
   extrude_m_yx sx sy c s * x + extrude_m_yy sx sy c s * y) =
  (sx * (c * x - s * y), sy * (s * x + c * y)).
Proof. unfold extrude_m_xx, extrude_m_xy, extrude_m_yx, extrude_m_yy. f_equal; ring. Qed.
