From Coq Require Import ZArith List Bool Lia.
From MV Require Import Geo.FloodDefs.
Import ListNotations.
Local Open Scope Z_scope.

(* connected by a path of the given (undirected) edges *)
Inductive conn (edges : list (Z * Z)) : Z -> Z -> Prop :=
| conn_refl : forall a, conn edges a a
| conn_edge : forall a b, In (a, b) edges -> conn edges a b
| conn_sym : forall a b, conn edges a b -> conn edges b a
| conn_trans : forall a b c, conn edges a b -> conn edges b c -> conn edges a c.

Lemma conn_mono edges edges' a b :
  (forall e, In e edges -> In e edges') -> conn edges a b -> conn edges' a b.
Proof.
  intros H C. induction C as [a|a b I|a b _ IH|a b c _ IH1 _ IH2].
  - apply conn_refl.
  - apply conn_edge. apply H. exact I.
  - apply conn_sym. exact IH.
  - eapply conn_trans; eassumption.
Qed.

(* invariant of the representative map w.r.t. the edges united so far *)
Record uf_inv (edges : list (Z * Z)) (u : uf) : Prop := {
  inv_conn : forall i, conn edges i (u i);
  inv_idem : forall i, u (u i) = u i;
  inv_edge : forall a b, In (a, b) edges -> u a = u b }.

Lemma uf_init_inv : uf_inv [] uf_init.
Proof.
  split; unfold uf_init.
  - intros i. apply conn_refl.
  - reflexivity.
  - intros a b [].
Qed.

Lemma uf_unite_inv edges u a b :
  uf_inv edges u -> uf_inv (edges ++ [(a, b)]) (uf_unite u a b).
Proof.
  intros [Hc Hi He]. unfold uf_unite.
  assert (M : forall e, In e edges -> In e (edges ++ [(a, b)])) by (intros; apply in_or_app; auto).
  assert (Eab : conn (edges ++ [(a, b)]) a b) by (apply conn_edge, in_or_app; right; left; reflexivity).
  split.
  - intros i. destruct (u i =? u a) eqn:E.
    + apply Z.eqb_eq in E.
      eapply conn_trans; [eapply conn_mono; [exact M|apply Hc]|].
      rewrite E. eapply conn_trans; [apply conn_sym; eapply conn_mono; [exact M|apply Hc]|].
      eapply conn_trans; [exact Eab|]. eapply conn_mono; [exact M|apply Hc].
    + eapply conn_mono; [exact M|apply Hc].
  - intros i. destruct (u i =? u a) eqn:E.
    + rewrite Hi. destruct (u b =? u a); reflexivity.
    + rewrite Hi, E. reflexivity.
  - intros c d I. apply in_app_or in I. destruct I as [I|[I|[]]].
    + rewrite (He c d I). reflexivity.
    + injection I as <- <-. rewrite Z.eqb_refl. destruct (u b =? u a); reflexivity.
Qed.

Lemma uf_build_inv_gen edges : forall done u,
  uf_inv done u ->
  uf_inv (done ++ edges) (fold_left (fun u ab => uf_unite u (fst ab) (snd ab)) edges u).
Proof.
  induction edges as [|[a b] r IH]; intros done u H; cbn [fold_left fst snd].
  - rewrite app_nil_r. exact H.
  - replace (done ++ (a, b) :: r) with ((done ++ [(a, b)]) ++ r) by (rewrite <- app_assoc; reflexivity).
    apply IH. apply uf_unite_inv. exact H.
Qed.

Lemma uf_build_inv edges : uf_inv edges (uf_build edges).
Proof. exact (uf_build_inv_gen edges [] uf_init uf_init_inv). Qed.

(* soundness and completeness of the components *)
Lemma uf_find_conn edges i : conn edges i (uf_find (uf_build edges) i).
Proof. apply (inv_conn _ _ (uf_build_inv edges)). Qed.

Lemma uf_conn_same edges a b : conn edges a b -> uf_find (uf_build edges) a = uf_find (uf_build edges) b.
Proof.
  intros C. unfold uf_find. induction C as [a|a b I|a b _ IH|a b c _ IH1 _ IH2].
  - reflexivity.
  - apply (inv_edge _ _ (uf_build_inv edges) a b I).
  - symmetry. exact IH.
  - congruence.
Qed.

Lemma uf_same_iff_conn edges a b :
  uf_find (uf_build edges) a = uf_find (uf_build edges) b <-> conn edges a b.
Proof.
  split; [|apply uf_conn_same]. intros E.
  eapply conn_trans; [apply uf_find_conn|]. rewrite E. apply conn_sym, uf_find_conn.
Qed.

Lemma uf_root_fixed edges i :
  uf_find (uf_build edges) (uf_find (uf_build edges) i) = uf_find (uf_build edges) i.
Proof. apply (inv_idem _ _ (uf_build_inv edges)). Qed.

(* a quantity that does not change along the united edges is constant on components *)
Lemma conn_invariant edges (W : Z -> Z) a b :
  (forall x y, In (x, y) edges -> W x = W y) -> conn edges a b -> W a = W b.
Proof.
  intros H C. induction C as [a|a b I|a b _ IH|a b c _ IH1 _ IH2]; try congruence.
  apply H. exact I.
Qed.

(* Flood fill: if the per-vertex quantity W does not change across unbroken
   edges and the value computed at each representative is W there, then every
   vertex receives its own W -- whatever representative the union-find chose. *)
Lemma winding03_spec_l edges (W wroot : Z -> Z) :
  (forall x y, In (x, y) edges -> W x = W y) ->
  (forall i, wroot (uf_find (uf_build edges) i) = W (uf_find (uf_build edges) i)) ->
  forall i, winding03 edges wroot i = W i.
Proof.
  intros H R i. unfold winding03. rewrite R. symmetry.
  apply (conn_invariant edges W i _ H). apply uf_find_conn.
Qed.

(* more generally: a vertex receives the value of its representative, and W at
   the vertex differs from it by the sum of the increments of W along ANY path
   of unbroken edges -- which are all zero *)
Lemma winding03_path edges (W wroot : Z -> Z) i :
  (forall x y, In (x, y) edges -> W y - W x = 0) ->
  winding03 edges wroot i = wroot (uf_find (uf_build edges) i) /\
  W i = W (uf_find (uf_build edges) i).
Proof.
  intros H. split; [reflexivity|].
  apply (conn_invariant edges W i _); [|apply uf_find_conn]. intros x y I. specialize (H x y I). lia.
Qed.

Lemma in_unbroken_edges hstart hend n broken a b :
  In (a, b) (unbroken_edges hstart hend n broken) <->
  exists e, 0 <= e < Z.of_nat n /\ hstart e = a /\ hend e = b /\ a < b /\ is_broken broken e = false.
Proof.
  unfold unbroken_edges. rewrite in_flat_map. split.
  - intros [k [Hk I]]. apply in_seq in Hk.
    destruct ((hstart (Z.of_nat k) <? hend (Z.of_nat k)) && negb (is_broken broken (Z.of_nat k))) eqn:E; [|destruct I].
    destruct I as [I|[]]. injection I as <- <-. apply andb_true_iff in E. destruct E as [E1 E2].
    exists (Z.of_nat k). repeat split; try lia. destruct (is_broken broken (Z.of_nat k)); [discriminate|reflexivity].
  - intros [e [He [<- [<- [Hl Hb]]]]]. exists (Z.to_nat e). split; [apply in_seq; lia|].
    rewrite Z2Nat.id by lia. rewrite Hb. cbn [negb]. rewrite andb_true_r.
    destruct (hstart e <? hend e) eqn:E; [left; reflexivity|lia].
Qed.
