(* Kernel11 as a crossing sum (kept apart from Kernel.v; imported by Properties_C02). *)
From Coq Require Import ZArith QArith Qabs List Bool Lia.
From MV Require Import Geo.WindingDefs Geo.QOps Gen.BoolConsts Geo.KernelDefs Geo.Kernel.
Import ListNotations.
Local Open Scope Z_scope.

(* before the z test: the two end points of the P edge against the Q edge
   (forward Shadow01) and the two end points of the Q edge against the P edge
   (backward Shadow01), start points counted negatively *)
Definition s11_pre (ex : bool) (inP inQ : kmesh) (p1 p1s p1e q1 q1s q1e : Z) : Z :=
  - fst (shadow01 ex true p1s q1 q1s q1e inP inQ) + fst (shadow01 ex true p1e q1 q1s q1e inP inQ)
  - fst (shadow01 ex false q1s p1 p1s p1e inQ inP) + fst (shadow01 ex false q1e p1 p1s p1e inQ inP).

Lemma kernel11_s11 ex inP inQ p1 p1s p1e q1 q1s q1e s xyzz :
  kernel11 ex inP inQ p1 p1s p1e q1 q1s q1e = Some (s, xyzz) ->
  (s = 0 \/ s = s11_pre ex inP inQ p1 p1s p1e q1 q1s q1e) /\
  (s <> 0 -> exists x y z w, xyzz = Some (x, y, z, w) /\
     gen_shadowsQ z w (gen_withSignQ ex (vz (fnorm inP (p1 / 3)) + vz (fnorm inP (hpair inP p1 / 3)))
                       - (vz (fnorm inQ (q1 / 3)) + vz (fnorm inQ (hpair inQ q1 / 3))))%Q = true).
Proof.
  unfold kernel11, kernel11_g, s11_pre. fold (shadow01 ex true) (shadow01 ex false).
  cbn [fold_left].
  destruct (shadow01 ex true p1s q1 q1s q1e inP inQ) as [c0 y0] eqn:E0.
  destruct (shadow01 ex true p1e q1 q1s q1e inP inQ) as [c1 y1] eqn:E1.
  destruct (shadow01 ex false q1s p1 p1s p1e inQ inP) as [c2 y2] eqn:E2.
  destruct (shadow01 ex false q1e p1 p1s p1e inQ inP) as [c3 y3] eqn:E3.
  assert (Z0 : y0 = None -> c0 = 0) by (intros ->; eapply shadow01_none_zero; exact E0).
  assert (Z1 : y1 = None -> c1 = 0) by (intros ->; eapply shadow01_none_zero; exact E1).
  assert (Z2 : y2 = None -> c2 = 0) by (intros ->; eapply shadow01_none_zero; exact E2).
  assert (Z3 : y3 = None -> c3 = 0) by (intros ->; eapply shadow01_none_zero; exact E3).
  clear E0 E1 E2 E3. cbn [fst].
  destruct y0 as [y0|]; [|specialize (Z0 eq_refl); subst c0];
  (destruct y1 as [y1|]; [|specialize (Z1 eq_refl); subst c1]);
  (destruct y2 as [y2|]; [|specialize (Z2 eq_refl); subst c2]);
  (destruct y3 as [y3|]; [|specialize (Z3 eq_refl); subst c3]); cbn [fst snd].
  all: match goal with |- context [(?X =? 0)] =>
         destruct (X =? 0) eqn:EX;
         [intros H; injection H as <- <-; split; [left; reflexivity|intros N; exfalso; apply N; reflexivity]|intros H]
       end.
  all: match type of H with match ?A with _ => _ end = _ => destruct A as [[? ?]|]; try discriminate end.
  all: match type of H with match ?A with _ => _ end = _ => destruct A as [[? ?]|]; try discriminate end.
  all: match type of H with context [intersect ?a ?b ?c ?d] => destruct (intersect a b c d) as [[[ix iy] iz] iw] end.
  all: injection H as <- <-.
  all: match goal with |- context [if ?C then _ else 0] => destruct C eqn:EC end.
  all: split; [first [left; reflexivity|right; lia]|].
  all: intros N; try (exfalso; apply N; reflexivity).
  all: exists ix, iy, iz, iw; split; [reflexivity|exact EC].
Qed.
