(* C16 — set-level model of Impl::Minkowski (src/minkowski.cpp): definitions.
   Points are rational vectors (Qc^3: canonical rationals, Leibniz equality);
   sets are predicates.  No reals are needed. *)
From Coq Require Import QArith Qcanon List.
Import ListNotations.
Local Open Scope Qc_scope.

Definition vec : Type := (Qc * Qc * Qc)%type.
Definition vx (p : vec) : Qc := fst (fst p).
Definition vy (p : vec) : Qc := snd (fst p).
Definition vz (p : vec) : Qc := snd p.
Definition vadd (a b : vec) : vec := (vx a + vx b, vy a + vy b, vz a + vz b).
Definition vsub (a b : vec) : vec := (vx a - vx b, vy a - vy b, vz a - vz b).
Definition vscale (t : Qc) (a : vec) : vec := (t * vx a, t * vy a, t * vz a).
Definition vzero : vec := (0, 0, 0).

Definition set := vec -> Prop.
Definition incl (A B : set) : Prop := forall p, A p -> B p.
Definition seteq (A B : set) : Prop := forall p, A p <-> B p.
Definition union (A B : set) : set := fun p => A p \/ B p.
Definition bigU {I : Type} (F : I -> set) : set := fun p => exists i, F i p.

(* Minkowski sum (dilation) and erosion *)
Definition msum (A B : set) : set := fun p => exists a b, A a /\ B b /\ p = vadd a b.
Definition merode (A B : set) : set := fun p => forall b, B b -> A (vsub p b).

Definition unit_t (t : Qc) : Prop := 0 <= t /\ t <= 1.
Definition mix (t : Qc) (x y : vec) : vec := vadd (vscale t x) (vscale (1 - t) y).
Definition convex (S : set) : Prop := forall x y t, S x -> S y -> unit_t t -> S (mix t x y).

(* convex hull: closure under binary convex combinations *)
Inductive conv (P : set) : set :=
| conv_in : forall x, P x -> conv P x
| conv_mix : forall x y t, conv P x -> conv P y -> unit_t t -> conv P (mix t x y).

(* triangles and surfaces *)
Definition triangle : Type := (vec * vec * vec)%type.
Definition tri_pts (t : triangle) : set := fun p => let '(a, b, c) := t in p = a \/ p = b \/ p = c.
Definition surf {I : Type} (tris : I -> triangle) : set := bigU (fun i => conv (tri_pts (tris i))).

(* a segment from a point of A to a point outside A meets dA *)
Definition crossing (A dA : set) : Prop :=
  forall a d, A a -> ~ A (vadd a d) -> exists t, unit_t t /\ dA (vadd a (vscale t d)).

(* what Impl::Minkowski computes (inset = false), with ideal Hull = conv and
   ideal Boolean union:
   convex (+) convex:       A u hull(vertices of A (+) vertices of B)
   non-convex A, convex B:  A u U_{triangle t of A} hull(t (+) vertices of B)
   both non-convex:         A u U_{tA, tB} hull(tA (+) tB)                    *)
Definition code_cc (A VA VB : set) : set := union A (conv (msum VA VB)).
Definition code_nc {I : Type} (A : set) (trisA : I -> triangle) (VB : set) : set :=
  union A (bigU (fun i => conv (msum (tri_pts (trisA i)) VB))).
Definition code_nn {I J : Type} (A : set) (trisA : I -> triangle) (trisB : J -> triangle) : set :=
  union A (bigU (fun ij : I * J => conv (msum (tri_pts (trisA (fst ij))) (tri_pts (trisB (snd ij)))))).
(* inset = true, convex B: A minus U hull(t (+) vertices of B) *)
Definition code_inset {I : Type} (A : set) (trisA : I -> triangle) (VB : set) : set :=
  fun p => A p /\ ~ bigU (fun i => conv (msum (tri_pts (trisA i)) VB)) p.
