(* Model of the vertex bookkeeping at the start of Boolean3::Result
   (src/boolean_result.cpp): inclusion numbers from winding numbers, the
   AbsSum exclusive scans that assign output-vertex ranges, DuplicateVerts.
   The constants c1,c2,c3, the lambda bodies, AbsSum, the duplicate count and
   Shadows/withSign are NOT written here: they are regenerated from the source
   into Gen/BoolConsts.v on every run.  Model only: no proofs. *)
From Coq Require Import ZArith List Bool.
From MV Require Import Geo.WindingDefs Gen.BoolConsts.
Import ListNotations.
Local Open Scope Z_scope.

(* std::exclusive_scan(first,last,out,init,op): out[i] = init op x0 op ... op x(i-1) *)
Fixpoint exclusive_scan (f : Z -> Z -> Z) (init : Z) (l : list Z) : list Z :=
  match l with
  | [] => []
  | x :: r => init :: exclusive_scan f (f init x) r
  end.

(* numVertR = AbsSum()(vP2R.back(), i03.back()) ; .back() of an empty vector is
   undefined behaviour *)
Definition scan_total (f : Z -> Z -> Z) (init : Z) (l : list Z) : option Z :=
  match l with
  | [] => None
  | _ => Some (f (last (exclusive_scan f init l) 0) (last l 0))
  end.

(* DuplicateVerts: vertex v is written to positions vertR[v] + i, i < n *)
Definition dup_positions (vertR incl : list Z) : list Z :=
  flat_map (fun si => zrange (fst si) (Z.to_nat (gen_dup_count (snd si)))) (combine vertR incl).

(* result-winding as a function of the operand windings (k w.r.t. P, w w.r.t. Q):
   the multilinear form whose jumps are the inclusion numbers *)
Definition result_winding (o : optype) (k w : Z) : Z :=
  gen_c1 o * k + gen_c2 o * w + gen_c3 o * k * w.
