(* C12 — correctness of the ported monotone chain (Hull2Defs.chain) for every
   lexicographically sorted input: the stack is a convex chain under which
   every processed point lies. *)
From Coq Require Import ZArith List Bool Lia Sorted Permutation.
From MV Require Import Geo.Wind2Defs Geo.Hull2Defs Geo.Hull2Geom.
Import ListNotations.
Local Open Scope Z_scope.

(* ---- the sort ---- *)
Lemma lex_ltb_lt : forall a b, lex_ltb a b = true <-> lexlt a b.
Proof.
  intros [ax ay] [bx by_]. unfold lex_ltb, lexlt. cbn [fst snd].
  destruct (Z.eqb_spec ax bx); [rewrite Z.ltb_lt | rewrite Z.ltb_lt]; lia.
Qed.

Lemma lex_ltb_false_le : forall a b, lex_ltb a b = false -> lexle b a.
Proof.
  intros [ax ay] [bx by_]. unfold lex_ltb, lexle. cbn [fst snd].
  destruct (Z.eqb_spec ax bx); [rewrite Z.ltb_ge | rewrite Z.ltb_ge]; lia.
Qed.

Lemma insert_perm : forall p l, Permutation (p :: l) (insert p l).
Proof.
  intros p l. induction l as [|q r IH]; cbn [insert]; [apply Permutation_refl|].
  destruct (lex_ltb p q); [apply Permutation_refl|].
  apply Permutation_trans with (q :: p :: r); [apply perm_swap | constructor; exact IH].
Qed.

Lemma sort_perm : forall l, Permutation l (sort l).
Proof.
  induction l as [|a l IH]; cbn [sort fold_right]; [constructor|]. fold (sort l).
  apply Permutation_trans with (a :: sort l); [constructor; exact IH | apply insert_perm].
Qed.

Lemma insert_sorted : forall p l, StronglySorted lexle l -> StronglySorted lexle (insert p l).
Proof.
  intros p l. induction l as [|q r IH]; intros S; cbn [insert].
  - constructor; constructor.
  - inversion S as [|? ? Sr Fq]; subst. destruct (lex_ltb p q) eqn:E.
    + constructor; [exact S|]. apply lex_ltb_lt in E. apply lexlt_le in E. constructor; [exact E|].
      rewrite Forall_forall in *. intros x Hx. eapply lexle_trans; [exact E | apply Fq; exact Hx].
    + constructor; [apply IH; exact Sr|]. apply lex_ltb_false_le in E.
      rewrite Forall_forall in *. intros x Hx. apply (Permutation_in _ (Permutation_sym (insert_perm p r))) in Hx.
      destruct Hx as [<-|Hx]; [exact E | apply Fq; exact Hx].
Qed.

Lemma sort_sorted : forall l, StronglySorted lexle (sort l).
Proof.
  induction l as [|a l IH]; cbn [sort fold_right]; [constructor|]. fold (sort l). apply insert_sorted. exact IH.
Qed.

(* ---- stacks (top first) ---- *)
(* edges of the chain in traversal direction: lower vertex -> upper vertex *)
Fixpoint tf_edges (st : list pt) : list seg :=
  match st with
  | x :: ((y :: _) as t) => (y, x) :: tf_edges t
  | _ => []
  end.

Definition desc (st : list pt) : Prop := StronglySorted (fun x y => lexle y x) st.

Fixpoint left_turns (st : list pt) : Prop :=
  match st with
  | c :: ((b :: a :: _) as t) => 0 < orient a b c /\ left_turns t
  | _ => True
  end.

Inductive spanned (q : pt) : list pt -> Prop :=
| spanned_here : forall x y r, lexle y q -> lexle q x -> 0 <= orient y x q -> spanned q (x :: y :: r)
| spanned_later : forall x r, spanned q r -> spanned q (x :: r).

Definition above (q : pt) (st : list pt) : Prop :=
  forall e, In e (tf_edges st) -> 0 <= orient (fst e) (snd e) q.
Definition sabove (q : pt) (st : list pt) : Prop :=
  forall e, In e (tf_edges st) -> q <> fst e -> q <> snd e -> 0 < orient (fst e) (snd e) q.

Lemma desc_tail : forall x st, desc (x :: st) -> desc st.
Proof. intros x st H. inversion H; assumption. Qed.
Lemma desc_head : forall x st y, desc (x :: st) -> In y st -> lexle y x.
Proof. intros x st y H Hy. inversion H as [|? ? _ F]; subst. rewrite Forall_forall in F. apply F. exact Hy. Qed.
Lemma left_turns_tail : forall x st, left_turns (x :: st) -> left_turns st.
Proof. intros x [|b [|a r]] H; cbn in *; tauto. Qed.

Lemma spanned_le_head : forall q st, desc st -> spanned q st -> exists x r, st = x :: r /\ lexle q x.
Proof.
  intros q st D S. induction S as [x y r H1 H2 H3|x r S IH].
  - exists x, (y :: r). split; [reflexivity | exact H2].
  - destruct (IH (desc_tail _ _ D)) as [x' [r' [E L]]]. subst r. exists x, (x' :: r'). split; [reflexivity|].
    eapply lexle_trans; [exact L | apply (desc_head _ _ _ D); left; reflexivity].
Qed.

(* propagation towards the bottom of the stack *)
Lemma below_prop : forall q r x y,
  desc (x :: y :: r) -> left_turns (x :: y :: r) -> lexle y q -> 0 <= orient y x q ->
  above q (y :: r) /\ (forall e, In e (tf_edges (y :: r)) -> q <> snd e -> 0 < orient (fst e) (snd e) q).
Proof.
  intros q r. induction r as [|z r IH]; intros x y D LT Hyq Ho.
  - split; intros e [].
  - cbn [left_turns] in LT. destruct LT as [T LT].
    assert (Hzy : lexle z y) by (apply (desc_head _ _ _ (desc_tail _ _ D)); left; reflexivity).
    assert (Hyx : lexle y x) by (apply (desc_head _ _ _ D); left; reflexivity).
    destruct (orient_prev z y x q Hzy Hyx Hyq T Ho) as [P1 P2].
    assert (LT' : left_turns (y :: z :: r)) by (destruct r; [exact I | exact LT]).
    destruct (IH y z (desc_tail _ _ D) LT' (lexle_trans _ _ _ Hzy Hyq) P1) as [A1 A2].
    split.
    + intros e [<-|He]; [exact P1 | apply A1; exact He].
    + intros e [<-|He] Hn; [apply P2; exact Hn | apply A2; assumption].
Qed.

Lemma spanned_above : forall q st, desc st -> left_turns st -> spanned q st -> above q st.
Proof.
  intros q st D LT S. induction S as [x y r H1 H2 H3|x r S IH].
  - destruct (below_prop q r x y D LT H1 H3) as [A _].
    intros e [<-|He]; [exact H3 | apply A; exact He].
  - assert (A := IH (desc_tail _ _ D) (left_turns_tail _ _ LT)).
    destruct (spanned_le_head q r (desc_tail _ _ D) S) as [y [r' [E Lq]]]. subst r.
    destruct r' as [|z r'']; [inversion S; subst; match goal with H : spanned _ [] |- _ => inversion H end|].
    cbn [left_turns] in LT. destruct LT as [T _].
    assert (Hzy : lexle z y) by (apply (desc_head _ _ _ (desc_tail _ _ D)); left; reflexivity).
    assert (Hyx : lexle y x) by (apply (desc_head _ _ _ D); left; reflexivity).
    assert (Oz : 0 <= orient z y q) by (apply (A (z, y)); left; reflexivity).
    destruct (orient_next z y x q Hzy Hyx Lq T Oz) as [N1 _].
    intros e [<-|He]; [exact N1 | apply A; exact He].
Qed.

(* a vertex of a convex chain is strictly left of every chain edge it is not on *)
Lemma vertex_sabove : forall st v, desc st -> left_turns st -> In v st -> sabove v st.
Proof.
  induction st as [|x t IH]; intros v D LT Hv; [destruct Hv|].
  destruct t as [|y r]; [intros e []|].
  assert (Hyx : lexle y x) by (apply (desc_head _ _ _ D); left; reflexivity).
  destruct Hv as [<-|Hv].
  - destruct (below_prop x r x y D LT Hyx ltac:(rewrite orient_abb; lia)) as [_ A2].
    intros e [<-|He] N1 N2; [exfalso; apply N2; reflexivity | apply A2; assumption].
  - assert (S := IH v (desc_tail _ _ D) (left_turns_tail _ _ LT) Hv).
    intros e [<-|He] N1 N2; [|apply S; assumption]. cbn [fst snd] in *.
    destruct Hv as [E|Hv]; [exfalso; apply N1; symmetry; exact E|].
    destruct r as [|z r']; [destruct Hv|].
    cbn [left_turns] in LT. destruct LT as [T _].
    assert (Hzy : lexle z y) by (apply (desc_head _ _ _ (desc_tail _ _ D)); left; reflexivity).
    assert (Lv : lexle v y) by (apply (desc_head _ _ _ (desc_tail _ _ D)); exact Hv).
    assert (Oz : 0 <= orient z y v).
    { destruct (pt_eq_dec v z) as [->|Nz]; [rewrite orient_aba; lia|].
      assert (0 < orient z y v); [|lia]. apply (S (z, y)); [left; reflexivity | exact Nz | exact N1]. }
    destruct (orient_next z y x v Hzy Hyx Lv T Oz) as [_ N]. apply N. exact N1.
Qed.

(* ---- the backtracking loop ---- *)
Definition cat2 (q : pt) (st : list pt) (p : pt) : Prop :=
  exists t r, st = t :: r /\ lexle t q /\ lexle q p /\ 0 <= orient t p q.
Definition cov (q : pt) (st : list pt) (p : pt) : Prop := spanned q st \/ cat2 q st p.

Definition exit_ok (p : pt) (st : list pt) : Prop :=
  match st with b :: a :: _ => 0 < orient a b p | _ => True end.

Lemma backtrack_inv : forall p (done : list pt) st,
  desc st -> left_turns st -> (forall x, In x st -> lexle x p) -> (forall q, In q done -> cov q st p) ->
  desc (backtrack p st) /\ left_turns (backtrack p st) /\
  (forall x, In x (backtrack p st) -> In x st) /\
  (forall q, In q done -> cov q (backtrack p st) p) /\
  exit_ok p (backtrack p st) /\
  (st <> [] -> backtrack p st <> [] /\ last (backtrack p st) (0, 0) = last st (0, 0)).
Proof.
  intros p done st. induction st as [|b t IH]; intros D LT Hle C.
  - cbn. repeat split; auto; try (intros H; contradiction).
  - destruct t as [|a r].
    + cbn [backtrack]. repeat split; auto; try discriminate.
    + cbn [backtrack]. destruct (Z.leb_spec (orient a b p) 0) as [Hpop|Hkeep].
      * (* pop b *)
        assert (Hab : lexle a b) by (apply (desc_head _ _ _ D); left; reflexivity).
        assert (Hbp : lexle b p) by (apply Hle; left; reflexivity).
        assert (Oapb : 0 <= orient a p b) by (rewrite orient_swap23; lia).
        assert (C' : forall q, In q done -> cov q (a :: r) p).
        { intros q Hq. destruct (C q Hq) as [S|[t' [r' [E [L1 [L2 O]]]]]].
          - inversion S as [x y r0 H1 H2 H3|x r0 S']; subst.
            + right. exists a, r. split; [reflexivity|]. split; [exact H1|].
              split; [eapply lexle_trans; eassumption|].
              apply (orient_chord a q b p H1 H2 Hbp H3 Oapb).
            + left. exact S'.
          - inversion E; subst t' r'. right. exists a, r. split; [reflexivity|].
            split; [eapply lexle_trans; eassumption|]. split; [exact L2|].
            apply (orient_fan a b q p Hab L1 L2 Oapb O). }
        destruct (IH (desc_tail _ _ D) (left_turns_tail _ _ LT) (fun x Hx => Hle x (or_intror Hx)) C')
          as [D' [LT' [Sub [Cv [Ex Ne]]]]].
        split; [exact D'|]. split; [exact LT'|]. split; [intros x Hx; right; apply Sub; exact Hx|].
        split; [exact Cv|]. split; [exact Ex|]. intros _.
        destruct (Ne ltac:(discriminate)) as [N1 N2]. split; [exact N1|]. etransitivity; [exact N2|]. reflexivity.
      * repeat split; auto; try discriminate.
Qed.

(* ---- one step and the whole fold ---- *)
Record Inv (st done : list pt) : Prop := {
  I_desc : desc st;
  I_lt : left_turns st;
  I_incl : forall x, In x st -> In x done;
  I_cov : forall q, In q done -> spanned q st \/ st = [q];
  I_ne : done <> [] -> st <> [];
  I_hd : done <> [] -> hd (0, 0) st = last done (0, 0) /\ last st (0, 0) = hd (0, 0) done
}.

Lemma step_inv : forall st done p,
  Inv st done -> (forall x, In x done -> lexle x p) -> Inv (p :: backtrack p st) (done ++ [p]).
Proof.
  intros st done p [D LT Inc Cv Ne Hd] Hle.
  assert (Hle' : forall x, In x st -> lexle x p) by (intros x Hx; apply Hle; apply Inc; exact Hx).
  assert (C : forall q, In q done -> cov q st p).
  { intros q Hq. destruct (Cv q Hq) as [S|E]; [left; exact S|]. right. exists q, []. split; [exact E|].
    split; [apply lexle_refl|]. split; [apply Hle; exact Hq|]. rewrite orient_aba. lia. }
  destruct (backtrack_inv p done st D LT Hle' C) as [D' [LT' [Sub [Cv' [Ex NeL]]]]].
  set (st' := backtrack p st) in *.
  constructor.
  - constructor; [exact D'|]. apply Forall_forall. intros x Hx. apply Hle'. apply Sub. exact Hx.
  - destruct st' as [|b [|a r]]; cbn [left_turns]; auto; try (split; [exact Ex | exact LT']).
  - intros x [<-|Hx]; apply in_or_app; [right; left; reflexivity | left; apply Inc; apply Sub; exact Hx].
  - intros q Hq. apply in_app_or in Hq. destruct Hq as [Hq|[<-|[]]].
    + left. destruct (Cv' q Hq) as [S|[t [r [E [L1 [L2 O]]]]]].
      * apply spanned_later. exact S.
      * rewrite E. apply spanned_here; assumption.
    + destruct st' as [|t r] eqn:Est.
      * right. reflexivity.
      * left. apply spanned_here; [|apply lexle_refl | rewrite orient_abb; lia].
        apply Hle'. apply Sub. left. reflexivity.
  - discriminate.
  - intros _. cbn [hd]. rewrite last_last. split; [reflexivity|].
    destruct done as [|d0 done'].
    + destruct st as [|s0 st0]; [|exfalso; apply (Inc s0); left; reflexivity].
      reflexivity.
    + assert (Hne : d0 :: done' <> []) by discriminate.
      destruct (NeL (Ne Hne)) as [N1 N2]. destruct (Hd Hne) as [_ H2].
      cbn [app hd]. destruct st' as [|t r] eqn:Est; [contradiction|].
      change (last (p :: t :: r) (0, 0)) with (last (t :: r) (0, 0)). rewrite N2. exact H2.
Qed.

Lemma fold_inv : forall l st done,
  Inv st done -> StronglySorted lexle l -> (forall x y, In x done -> In y l -> lexle x y) ->
  Inv (fold_left (fun st p => p :: backtrack p st) l st) (done ++ l).
Proof.
  induction l as [|p l IH]; intros st done I S Hle; cbn [fold_left].
  - rewrite app_nil_r. exact I.
  - inversion S as [|? ? Sl Fp]; subst. rewrite Forall_forall in Fp.
    replace (done ++ p :: l) with ((done ++ [p]) ++ l) by (rewrite <- app_assoc; reflexivity).
    apply IH; [|exact Sl|].
    + apply step_inv; [exact I|]. intros x Hx. apply Hle; [exact Hx | left; reflexivity].
    + intros x y Hx Hy. apply in_app_or in Hx. destruct Hx as [Hx|[<-|[]]].
      * apply Hle; [exact Hx | right; exact Hy].
      * apply Fp. exact Hy.
Qed.

Lemma inv_nil : Inv [] [].
Proof. constructor; try (intros; contradiction); try constructor; try exact I. Qed.

Theorem chain_inv : forall s, StronglySorted lexle s -> Inv (chain s) s.
Proof.
  intros s S. unfold chain. apply (fold_inv s [] [] inv_nil S). intros x y [].
Qed.

(* ---- consequences for the finished chain ---- *)
Lemma backtrack_nonempty : forall p st, st <> [] -> backtrack p st <> [].
Proof.
  intros p st. induction st as [|b t IH]; intros H; [contradiction|].
  destruct t as [|a r]; cbn [backtrack]; [discriminate|].
  destruct (orient a b p <=? 0); [apply IH; discriminate | discriminate].
Qed.

Lemma chain_snoc : forall l p, chain (l ++ [p]) = p :: backtrack p (chain l).
Proof. intros. unfold chain. rewrite fold_left_app. reflexivity. Qed.

Lemma chain_length2 : forall s, (2 <= length s)%nat -> (2 <= length (chain s))%nat.
Proof.
  intros s H. destruct (exists_last (l := s)) as [l [p E]]; [intro; subst; cbn in H; lia|]. subst s.
  rewrite chain_snoc. assert (chain l <> []).
  { destruct (exists_last (l := l)) as [l' [p' E']]; [intro; subst; cbn in H; lia|]. subst l.
    rewrite chain_snoc. discriminate. }
  pose proof (backtrack_nonempty p _ H0). destruct (backtrack p (chain l)); [contradiction | cbn; lia].
Qed.

Theorem chain_above : forall s q, StronglySorted lexle s -> In q s -> above q (chain s).
Proof.
  intros s q S Hq. destruct (chain_inv s S) as [D LT _ Cv _ _].
  destruct (Cv q Hq) as [Sp|E]; [apply spanned_above; assumption | rewrite E; intros e []].
Qed.

Theorem chain_sabove : forall s v, StronglySorted lexle s -> In v (chain s) -> sabove v (chain s).
Proof. intros s v S Hv. destruct (chain_inv s S) as [D LT _ _ _ _]. apply vertex_sabove; assumption. Qed.

(* ---- point reflection: the upper chain is a lower chain of the reflected points ---- *)
Definition neg (p : pt) : pt := (- fst p, - snd p).
Lemma neg_neg : forall p, neg (neg p) = p.
Proof. intros [x y]. unfold neg. cbn. f_equal; lia. Qed.
Lemma map_neg_neg : forall l, map neg (map neg l) = l.
Proof. intros l. rewrite map_map. rewrite <- (map_id l) at 2. apply map_ext. apply neg_neg. Qed.
Lemma orient_neg : forall a b c, orient (neg a) (neg b) (neg c) = orient a b c.
Proof. intros [? ?] [? ?] [? ?]. unfold orient, neg. cbn. ring. Qed.
Lemma lexle_neg : forall a b, lexle (neg a) (neg b) <-> lexle b a.
Proof. intros [? ?] [? ?]. unfold lexle, neg. cbn. lia. Qed.
Lemma lexlt_neg : forall a b, lexlt (neg a) (neg b) <-> lexlt b a.
Proof. intros [? ?] [? ?]. unfold lexlt, neg. cbn. lia. Qed.
Lemma neg_inj : forall a b, neg a = neg b -> a = b.
Proof. intros a b H. rewrite <- (neg_neg a), <- (neg_neg b), H. reflexivity. Qed.

Lemma backtrack_neg : forall p st, backtrack (neg p) (map neg st) = map neg (backtrack p st).
Proof.
  intros p st. induction st as [|b t IH]; [reflexivity|].
  destruct t as [|a r]; [reflexivity|]. cbn [map backtrack] in *. rewrite orient_neg.
  destruct (orient a b p <=? 0); [exact IH | reflexivity].
Qed.

Lemma chain_fold_neg : forall l st,
  fold_left (fun st p => p :: backtrack p st) (map neg l) (map neg st) =
  map neg (fold_left (fun st p => p :: backtrack p st) l st).
Proof.
  induction l as [|p l IH]; intros st; [reflexivity|]. cbn [map fold_left].
  rewrite backtrack_neg. change (neg p :: map neg (backtrack p st)) with (map neg (p :: backtrack p st)). apply IH.
Qed.

Lemma chain_neg : forall l, chain (map neg l) = map neg (chain l).
Proof. intros l. unfold chain. apply (chain_fold_neg l []). Qed.

Lemma sorted_snoc : forall (R : pt -> pt -> Prop) l a,
  StronglySorted R l -> (forall x, In x l -> R x a) -> StronglySorted R (l ++ [a]).
Proof.
  intros R l a S H. induction S as [|b l S IH F]; cbn [app]; [constructor; constructor|].
  constructor; [apply IH; intros x Hx; apply H; right; exact Hx|].
  apply Forall_forall. intros x Hx. apply in_app_or in Hx. rewrite Forall_forall in F.
  destruct Hx as [Hx|[<-|[]]]; [apply F; exact Hx | apply H; left; reflexivity].
Qed.

Lemma sorted_neg_rev : forall s, StronglySorted lexle s -> StronglySorted lexle (map neg (rev s)).
Proof.
  intros s S. induction S as [|a l S IH F]; [constructor|].
  cbn [rev]. rewrite map_app. cbn [map]. apply sorted_snoc; [exact IH|].
  intros x Hx. apply in_map_iff in Hx. destruct Hx as [y [<- Hy]]. apply lexle_neg.
  rewrite Forall_forall in F. apply F. apply in_rev. exact Hy.
Qed.

Lemma tf_edges_neg : forall st, tf_edges (map neg st) = map (fun e => (neg (fst e), neg (snd e))) (tf_edges st).
Proof.
  induction st as [|x t IH]; [reflexivity|]. destruct t as [|y r]; [reflexivity|].
  cbn [map tf_edges fst snd] in *. f_equal. exact IH.
Qed.

(* the upper chain, chain (rev s), in terms of the reflected sorted list *)
Lemma upper_as_neg : forall s, chain (rev s) = map neg (chain (map neg (rev s))).
Proof. intros s. rewrite chain_neg, map_neg_neg. reflexivity. Qed.

Theorem upper_above : forall s q, StronglySorted lexle s -> In q s -> above q (chain (rev s)).
Proof.
  intros s q S Hq. rewrite upper_as_neg. intros e He. rewrite tf_edges_neg in He.
  apply in_map_iff in He. destruct He as [e' [<- He']]. cbn [fst snd].
  rewrite <- (neg_neg q), orient_neg.
  apply (chain_above (map neg (rev s)) (neg q) (sorted_neg_rev s S)); [|exact He'].
  apply in_map. apply in_rev. rewrite rev_involutive. exact Hq.
Qed.

Theorem upper_sabove : forall s v, StronglySorted lexle s -> In v (chain (rev s)) -> sabove v (chain (rev s)).
Proof.
  intros s v S Hv. rewrite upper_as_neg in *. intros e He N1 N2. rewrite tf_edges_neg in He.
  apply in_map_iff in He. destruct He as [e' [<- He']]. cbn [fst snd] in *.
  rewrite <- (neg_neg v), orient_neg.
  apply in_map_iff in Hv. destruct Hv as [v' [<- Hv']]. rewrite neg_neg.
  apply (chain_sabove (map neg (rev s)) v' (sorted_neg_rev s S) Hv' e' He').
  - intro E. apply N1. rewrite E. reflexivity.
  - intro E. apply N2. rewrite E. reflexivity.
Qed.
