(* Vert1D.v -- proofs about the models in Vert1DDefs.v.

   PART A: MergeVerticals1D on one x-group preserves signed coverage pointwise
           and produces sorted, non-degenerate, non-overlapping segments whose
           endpoints are input endpoints.
   PART B: PolySetAdd acts linearly on the 0-boundary and on directed-edge
           coefficients; splitting an edge at ANY point preserves the
           0-boundary; closed input contours are balanced at every vertex. *)

Require Import ZArith List Bool Lia ZifyBool Sorting.Sorted.
From MV Require Import Geo.Vert1DDefs.
Import ListNotations.
Open Scope Z_scope.

Ltac ifs :=
  repeat match goal with
  | |- context [if ?b then _ else _] =>
      let E := fresh "E" in destruct b eqn:E
  end.

(* ================================================================== *)
(* PART A                                                              *)
(* ================================================================== *)

Lemma cov_app : forall a b t, cov (a ++ b) t = cov a t + cov b t.
Proof.
  induction a as [|s a IH]; intros; simpl; [reflexivity|].
  rewrite IH. lia.
Qed.

Lemma dsum_delta_add : forall y m d t,
  dsum (delta_add y m d) t = dsum d t + (if y <=? t then m else 0).
Proof.
  intros y m d t. induction d as [|[k v] r IH]; simpl.
  - ifs; lia.
  - destruct (y <? k) eqn:E1; simpl.
    + ifs; lia.
    + destruct (y =? k) eqn:E2; simpl.
      * ifs; lia.
      * rewrite IH. ifs; lia.
Qed.

Lemma dtotal_delta_add : forall y m d,
  dtotal (delta_add y m d) = dtotal d + m.
Proof.
  intros y m d. induction d as [|[k v] r IH]; simpl.
  - lia.
  - destruct (y <? k) eqn:E1; simpl; [lia|].
    destruct (y =? k) eqn:E2; simpl; [lia|].
    rewrite IH. lia.
Qed.

Lemma dsum_fold : forall segs d t,
  dsum (fold_left delta_step segs d) t = dsum d t + cov segs t.
Proof.
  induction segs as [|[[lo hi] m] r IH]; intros; simpl.
  - lia.
  - rewrite IH. rewrite !dsum_delta_add. ifs; lia.
Qed.

Lemma dsum_build_delta : forall segs t, dsum (build_delta segs) t = cov segs t.
Proof. intros. unfold build_delta. rewrite dsum_fold. simpl. lia. Qed.

Lemma dtotal_fold : forall segs d,
  dtotal (fold_left delta_step segs d) = dtotal d.
Proof.
  induction segs as [|[[lo hi] m] r IH]; intros; simpl.
  - reflexivity.
  - rewrite IH. rewrite !dtotal_delta_add. lia.
Qed.

Lemma dtotal_build_delta : forall segs, dtotal (build_delta segs) = 0.
Proof. intros. unfold build_delta. rewrite dtotal_fold. reflexivity. Qed.

(* --- the delta map stays strictly sorted by key ------------------- *)

Lemma delta_add_Forall_gt : forall b y m d,
  b < y -> Forall (fun e => b < fst e) d ->
  Forall (fun e => b < fst e) (delta_add y m d).
Proof.
  intros b y m d Hb. induction d as [|[k v] r IH]; intros F; simpl.
  - constructor; [simpl; lia|constructor].
  - inversion F as [|? ? Hk Fr]; subst. simpl in Hk.
    destruct (y <? k) eqn:E1.
    + constructor; [simpl; lia|]. constructor; [simpl; lia|assumption].
    + destruct (y =? k) eqn:E2.
      * constructor; [simpl; lia|assumption].
      * constructor; [simpl; lia|]. apply IH; assumption.
Qed.

Lemma delta_add_sorted : forall y m d,
  StronglySorted key_lt d -> StronglySorted key_lt (delta_add y m d).
Proof.
  intros y m d. induction d as [|[k v] r IH]; intros S; simpl.
  - constructor; constructor.
  - inversion S as [|? ? Sr Fr]; subst.
    destruct (y <? k) eqn:E1.
    + constructor; [assumption|].
      constructor; [unfold key_lt; simpl; lia|].
      eapply Forall_impl; [|exact Fr]. unfold key_lt; simpl; intros; lia.
    + destruct (y =? k) eqn:E2.
      * constructor; [assumption|].
        eapply Forall_impl; [|exact Fr]. unfold key_lt; simpl; intros; lia.
      * constructor; [apply IH; assumption|].
        unfold key_lt in *; simpl in *.
        apply delta_add_Forall_gt; [lia|assumption].
Qed.

Lemma fold_delta_sorted : forall segs d,
  StronglySorted key_lt d -> StronglySorted key_lt (fold_left delta_step segs d).
Proof.
  induction segs as [|[[lo hi] m] r IH]; intros; simpl; [assumption|].
  apply IH. apply delta_add_sorted. apply delta_add_sorted. assumption.
Qed.

Lemma build_delta_sorted : forall segs, StronglySorted key_lt (build_delta segs).
Proof. intros. apply fold_delta_sorted. constructor. Qed.

(* --- keys of the delta map are exactly the input endpoints -------- *)

Lemma delta_add_keys : forall x y m d,
  In x (map fst (delta_add y m d)) <-> x = y \/ In x (map fst d).
Proof.
  intros x y m d. induction d as [|[k v] r IH]; simpl.
  - intuition.
  - destruct (y <? k) eqn:E1; simpl; [intuition|].
    destruct (y =? k) eqn:E2; simpl.
    + assert (y = k) by lia. subst. intuition.
    + rewrite IH. intuition.
Qed.

Lemma fold_delta_keys : forall segs d y,
  In y (map fst (fold_left delta_step segs d))
  <-> In y (map fst d) \/ In y (endpoints segs).
Proof.
  induction segs as [|[[lo hi] m] r IH]; intros; simpl.
  - intuition.
  - rewrite IH. rewrite !delta_add_keys. intuition.
Qed.

Lemma build_delta_keys : forall segs y,
  In y (map fst (build_delta segs)) <-> In y (endpoints segs).
Proof. intros. unfold build_delta. rewrite fold_delta_keys. simpl. intuition. Qed.

Lemma endpoints_spec : forall segs y,
  In y (endpoints segs)
  <-> exists lo hi m, In (lo, hi, m) segs /\ (y = lo \/ y = hi).
Proof.
  induction segs as [|[[lo hi] m] r IH]; intros; simpl.
  - split; [tauto|]. intros (?&?&?&[]&_).
  - rewrite IH. split.
    + intros [H|[H|(lo'&hi'&m'&Hin&Hy)]].
      * exists lo, hi, m. auto.
      * exists lo, hi, m. auto.
      * exists lo', hi', m'. auto.
    + intros (lo'&hi'&m'&[Heq|Hin]&Hy).
      * inversion Heq; subst. destruct Hy; auto.
      * right. right. exists lo', hi', m'. auto.
Qed.

(* --- coverage of the emitted segments ----------------------------- *)

Lemma dsum_above : forall d t, Forall (fun e => t < fst e) d -> dsum d t = 0.
Proof.
  induction d as [|[k v] r IH]; intros t F; simpl; [reflexivity|].
  inversion F as [|? ? Hk Fr]; subst. simpl in Hk.
  rewrite (IH _ Fr). ifs; lia.
Qed.

Lemma emit_cov_true : forall d p c t,
  StronglySorted key_lt d ->
  Forall (fun e => p < fst e) d ->
  c + dtotal d = 0 ->
  cov (emit_cover d true p c) t = if p <=? t then c + dsum d t else 0.
Proof.
  induction d as [|[y dm] r IH]; intros p c t S F T; simpl in *.
  - ifs; lia.
  - inversion S as [|? ? Sr Fr]; subst.
    inversion F as [|? ? Hy Fp]; subst. simpl in Hy.
    rewrite cov_app.
    rewrite IH; [|assumption|exact Fr|lia].
    assert (Hz : (y <=? t) = false -> dsum r t = 0).
    { intros Ey. apply dsum_above. eapply Forall_impl; [|exact Fr].
      unfold key_lt; simpl; intros; lia. }
    destruct (y <=? t) eqn:Ey.
    + destruct (c =? 0) eqn:Ec; simpl; ifs; lia.
    + rewrite (Hz eq_refl).
      destruct (c =? 0) eqn:Ec; simpl; rewrite ?Ey; ifs; lia.
Qed.

Lemma emit_cov_start : forall d t,
  StronglySorted key_lt d -> dtotal d = 0 ->
  cov (emit_cover d false 0 0) t = dsum d t.
Proof.
  intros [|[y dm] r] t S T; simpl in *; [reflexivity|].
  inversion S as [|? ? Sr Fr]; subst.
  rewrite emit_cov_true; [|assumption|exact Fr|lia].
  destruct (y <=? t) eqn:Ey; [lia|].
  rewrite dsum_above; [lia|].
  eapply Forall_impl; [|exact Fr]. unfold key_lt; simpl; intros; lia.
Qed.

Theorem verticals_coverage : forall (segs : list vseg) (t : Z),
  cov (merge_verticals_1d segs) t = cov segs t.
Proof.
  intros. unfold merge_verticals_1d.
  rewrite emit_cov_start.
  - apply dsum_build_delta.
  - apply build_delta_sorted.
  - apply dtotal_build_delta.
Qed.

(* --- shape of the output ------------------------------------------ *)

Lemma emit_shape_true : forall d p c,
  StronglySorted key_lt d ->
  Forall (fun e => p < fst e) d ->
  Forall (seg_ok p (map fst d)) (emit_cover d true p c) /\
  StronglySorted seg_before (emit_cover d true p c).
Proof.
  induction d as [|[y dm] r IH]; intros p c S F; simpl.
  - split; constructor.
  - inversion S as [|? ? Sr Fr]; subst.
    inversion F as [|? ? Hy Fp]; subst. simpl in Hy.
    destruct (IH y (c + dm) Sr Fr) as [IH1 IH2].
    assert (Htail : Forall (seg_ok p (y :: map fst r))
                      (emit_cover r true y (c + dm))).
    { eapply Forall_impl; [|exact IH1].
      intros s (H1&H2&H3&H4&H5). unfold seg_ok. simpl in *.
      repeat split; try assumption; try lia; tauto. }
    destruct (c =? 0) eqn:Ec; simpl.
    + split; assumption.
    + split.
      * constructor; [|assumption].
        unfold seg_ok, seg_lo, seg_hi, seg_m; simpl.
        repeat split; try lia; auto.
      * constructor; [assumption|].
        eapply Forall_impl; [|exact IH1].
        intros s (H1&_). unfold seg_before, seg_hi at 1; simpl. exact H1.
Qed.

Lemma emit_shape_start : forall d,
  StronglySorted key_lt d ->
  Forall (fun s => seg_lo s < seg_hi s /\ seg_m s <> 0 /\
                   In (seg_lo s) (map fst d) /\ In (seg_hi s) (map fst d))
         (emit_cover d false 0 0) /\
  StronglySorted seg_before (emit_cover d false 0 0).
Proof.
  intros [|[y dm] r] S; simpl.
  - split; constructor.
  - inversion S as [|? ? Sr Fr]; subst.
    destruct (emit_shape_true r y (0 + dm) Sr Fr) as [H1 H2].
    split; [|assumption].
    eapply Forall_impl; [|exact H1].
    intros s (A&B&C&D&E). simpl in *. tauto.
Qed.

Theorem verticals_output_shape : forall segs,
  let out := merge_verticals_1d segs in
  (forall lo hi m, In (lo, hi, m) out -> lo < hi /\ m <> 0) /\
  StronglySorted seg_before out /\
  (forall lo hi m, In (lo, hi, m) out ->
     In lo (map fst (build_delta segs)) /\ In hi (map fst (build_delta segs))).
Proof.
  intros segs out. subst out. unfold merge_verticals_1d.
  destruct (emit_shape_start (build_delta segs) (build_delta_sorted segs))
    as [H1 H2].
  rewrite Forall_forall in H1.
  split; [|split].
  - intros lo hi m Hin. destruct (H1 _ Hin) as (A&B&_). auto.
  - assumption.
  - intros lo hi m Hin. destruct (H1 _ Hin) as (_&_&C&D). auto.
Qed.

(* every output endpoint is an input ylo or yhi *)
Corollary verticals_output_endpoints : forall segs lo hi m,
  In (lo, hi, m) (merge_verticals_1d segs) ->
  In lo (endpoints segs) /\ In hi (endpoints segs).
Proof.
  intros segs lo hi m Hin.
  destruct (verticals_output_shape segs) as (_&_&H).
  destruct (H _ _ _ Hin) as [A B].
  rewrite build_delta_keys in A, B. auto.
Qed.

(* overlapping + opposing + nested segments *)
Example verticals_example :
  let segs := [(0, 4, 1); (2, 6, 1); (1, 3, -1); (4, 6, -1)] in
  build_delta segs = [(0, 1); (1, -1); (2, 1); (3, 1); (4, -2); (6, 0)] /\
  merge_verticals_1d segs = [(0, 1, 1); (2, 3, 1); (3, 4, 2)] /\
  cov (merge_verticals_1d segs) 0 = cov segs 0 /\
  cov (merge_verticals_1d segs) 1 = 0 /\ cov segs 1 = 0 /\
  cov (merge_verticals_1d segs) 3 = 2 /\ cov segs 3 = 2 /\
  cov (merge_verticals_1d segs) 5 = 0 /\ cov segs 5 = 0.
Proof. vm_compute. repeat split. Qed.
(* ================================================================== *)
(* PART B                                                              *)
(* ================================================================== *)

Lemma pt_eqb_eq : forall a b : pt, pt_eqb a b = true <-> a = b.
Proof.
  intros [ax ay] [bx b_y]. unfold pt_eqb; simpl. split.
  - intros H. f_equal; lia.
  - intros H. inversion H; subst. lia.
Qed.

Lemma pt_eqb_refl : forall a, pt_eqb a a = true.
Proof. intros. apply pt_eqb_eq. reflexivity. Qed.

Lemma pt_eqb_sym : forall a b, pt_eqb a b = pt_eqb b a.
Proof. intros [ax ay] [bx b_y]. unfold pt_eqb; simpl. lia. Qed.

Lemma key_eqb_eq : forall k1 k2, key_eqb k1 k2 = true <-> k1 = k2.
Proof.
  intros [a1 b1] [a2 b2]. unfold key_eqb; simpl.
  rewrite andb_true_iff, !pt_eqb_eq. split.
  - intros [-> ->]. reflexivity.
  - intros H. inversion H. auto.
Qed.

Lemma key_eqb_sym : forall k1 k2, key_eqb k1 k2 = key_eqb k2 k1.
Proof.
  intros [a1 b1] [a2 b2]. unfold key_eqb; simpl.
  rewrite (pt_eqb_sym a1 a2), (pt_eqb_sym b1 b2). reflexivity.
Qed.

Lemma key_eqb_swap : forall a b c d, key_eqb (b, a) (c, d) = key_eqb (a, b) (d, c).
Proof. intros. unfold key_eqb; simpl. apply andb_comm. Qed.

Lemma lex_lt_irrefl : forall a, lex_lt a a = false.
Proof. intros [ax ay]. unfold lex_lt; simpl. lia. Qed.

Lemma lex_lt_asym : forall a b, lex_lt a b = true -> lex_lt b a = false.
Proof. intros [ax ay] [bx b_y]. unfold lex_lt; simpl. lia. Qed.

Lemma lex_lt_total : forall a b,
  pt_eqb a b = false -> lex_lt b a = false -> lex_lt a b = true.
Proof. intros [ax ay] [bx b_y]. unfold lex_lt, pt_eqb; simpl. lia. Qed.

(* --- 0-boundary ---------------------------------------------------- *)

Lemma entry_bdry_lin : forall k m v, entry_bdry (k, m) v = m * entry_bdry (k, 1) v.
Proof. intros [lo hi] m v. unfold entry_bdry. ring. Qed.

Lemma ps_insert_bdry : forall k m ps v,
  bdry (ps_insert k m ps) v = bdry ps v + entry_bdry (k, m) v.
Proof.
  intros k m ps v. induction ps as [|[k' w] r IH].
  - simpl. lia.
  - cbn [ps_insert]. destruct (key_eqb k k') eqn:Ek.
    + apply key_eqb_eq in Ek. subst k'.
      destruct (w + m =? 0) eqn:Ez; cbn [bdry];
        rewrite (entry_bdry_lin k m), (entry_bdry_lin k w);
        try rewrite (entry_bdry_lin k (w + m)); nia.
    + cbn [bdry]. rewrite IH. lia.
Qed.

Theorem polyset_add_bdry : forall ps a b m v,
  bdry (polyset_add ps a b m) v
  = bdry ps v
    + m * ((if pt_eqb b v then 1 else 0) - (if pt_eqb a v then 1 else 0)).
Proof.
  intros ps a b m v. unfold polyset_add.
  destruct (pt_eqb a b) eqn:Eab; simpl.
  - apply pt_eqb_eq in Eab. subst b. lia.
  - destruct (m =? 0) eqn:Em.
    + assert (m = 0) by lia. subst m. lia.
    + destruct (lex_lt b a); rewrite ps_insert_bdry; simpl; lia.
Qed.

Theorem split_preserves_chain : forall ps l q r m v,
  bdry (polyset_add (polyset_add ps l q m) q r m) v
  = bdry (polyset_add ps l r m) v.
Proof. intros. rewrite !polyset_add_bdry. lia. Qed.

(* --- directed-edge coefficient ------------------------------------ *)

Lemma ps_insert_coef : forall k m ps c d,
  coef (ps_insert k m ps) c d = coef ps c d + entry_coef (k, m) c d.
Proof.
  intros k m ps c d. induction ps as [|[k' w] r IH].
  - simpl. lia.
  - cbn [ps_insert]. destruct (key_eqb k k') eqn:Ek.
    + apply key_eqb_eq in Ek. subst k'.
      destruct (w + m =? 0) eqn:Ez; cbn [coef entry_coef]; nia.
    + cbn [coef]. rewrite IH. lia.
Qed.

Theorem polyset_add_coef : forall ps a b m c d,
  coef (polyset_add ps a b m) c d
  = coef ps c d
    + (if pt_eqb a b then 0
       else m * ((if key_eqb (a, b) (c, d) then 1 else 0)
                 - (if key_eqb (a, b) (d, c) then 1 else 0))).
Proof.
  intros ps a b m c d. unfold polyset_add.
  destruct (pt_eqb a b) eqn:Eab; simpl.
  - lia.
  - destruct (m =? 0) eqn:Em.
    + assert (m = 0) by lia. subst m. lia.
    + destruct (lex_lt b a); rewrite ps_insert_coef; cbn [entry_coef].
      * rewrite (key_eqb_swap a b c d), (key_eqb_swap a b d c). lia.
      * lia.
Qed.

Lemma coef_antisym : forall ps a b, coef ps b a = - coef ps a b.
Proof.
  induction ps as [|[k w] r IH]; intros; simpl; [reflexivity|].
  rewrite IH. lia.
Qed.

(* --- representation invariant ------------------------------------- *)

Lemma ps_insert_keys : forall k m ps x,
  In x (map fst (ps_insert k m ps)) -> x = k \/ In x (map fst ps).
Proof.
  intros k m ps x. induction ps as [|[k' w] r IH]; simpl.
  - intuition.
  - destruct (key_eqb k k') eqn:Ek.
    + destruct (w + m =? 0); simpl; intuition.
    + simpl. intuition.
Qed.

Lemma ps_insert_wf : forall k m ps,
  polyset_wf ps -> lex_lt (fst k) (snd k) = true -> m <> 0 ->
  polyset_wf (ps_insert k m ps).
Proof.
  intros k m ps [ND OK] Hk Hm. induction ps as [|[k' w] r IH]; simpl.
  - split.
    + simpl. constructor; [simpl; tauto|constructor].
    + constructor; [split; simpl; assumption|constructor].
  - simpl in ND. inversion ND as [|? ? Hnin NDr]; subst.
    inversion OK as [|? ? Hok OKr]; subst.
    destruct (IH NDr OKr) as [IH1 IH2].
    destruct (key_eqb k k') eqn:Ek.
    + apply key_eqb_eq in Ek. subst k'.
      destruct (w + m =? 0) eqn:Ez.
      * split; assumption.
      * split.
        -- simpl. constructor; assumption.
        -- constructor; [|assumption].
           destruct Hok as [H1 H2]. split; simpl in *; [assumption|lia].
    + split.
      * simpl. constructor; [|assumption].
        intros Hin. apply ps_insert_keys in Hin. destruct Hin as [->|Hin].
        -- assert (key_eqb k k = true) by (apply key_eqb_eq; reflexivity).
           congruence.
        -- contradiction.
      * constructor; assumption.
Qed.

Theorem polyset_add_wf : forall ps a b m,
  polyset_wf ps -> polyset_wf (polyset_add ps a b m).
Proof.
  intros ps a b m WF. unfold polyset_add.
  destruct (pt_eqb a b) eqn:Eab; simpl; [assumption|].
  destruct (m =? 0) eqn:Em; [assumption|].
  destruct (lex_lt b a) eqn:El.
  - apply ps_insert_wf; [assumption|simpl; assumption|lia].
  - apply ps_insert_wf; [assumption| |lia].
    simpl. apply lex_lt_total; assumption.
Qed.

Lemma polyset_wf_nil : polyset_wf [].
Proof. split; constructor. Qed.

(* under the invariant, coef reads off the map entry (ps.find) *)
Lemma coef_absent : forall ps a b,
  ~ In (a, b) (map fst ps) -> ~ In (b, a) (map fst ps) -> coef ps a b = 0.
Proof.
  induction ps as [|[k w] r IH]; intros a b H1 H2; simpl in *; [reflexivity|].
  rewrite IH by tauto.
  destruct (key_eqb k (a, b)) eqn:E1.
  { apply key_eqb_eq in E1. tauto. }
  destruct (key_eqb k (b, a)) eqn:E2.
  { apply key_eqb_eq in E2. tauto. }
  lia.
Qed.

Lemma wf_not_reversed_key : forall ps a b,
  Forall entry_ok ps -> lex_lt a b = true -> ~ In (b, a) (map fst ps).
Proof.
  intros ps a b OK Hab Hin. apply in_map_iff in Hin.
  destruct Hin as ([k w]&Hk&Hin). simpl in Hk. subst k.
  rewrite Forall_forall in OK. destruct (OK _ Hin) as [H _]. simpl in H.
  apply lex_lt_asym in H. congruence.
Qed.

Theorem coef_lookup : forall ps a b,
  polyset_wf ps -> lex_lt a b = true -> coef ps a b = ps_lookup (a, b) ps.
Proof.
  induction ps as [|[k w] r IH]; intros a b [ND OK] Hab; [reflexivity|].
  simpl in ND. inversion ND as [|? ? Hnin NDr]; subst.
  inversion OK as [|? ? Hok OKr]; subst.
  cbn [coef entry_coef ps_lookup].
  assert (E2 : key_eqb k (b, a) = false).
  { destruct (key_eqb k (b, a)) eqn:E; [|reflexivity].
    apply key_eqb_eq in E. subst k. destruct Hok as [H _]. simpl in H.
    apply lex_lt_asym in H. congruence. }
  rewrite E2, (key_eqb_sym (a, b) k).
  destruct (key_eqb k (a, b)) eqn:E1.
  - apply key_eqb_eq in E1. subst k.
    rewrite coef_absent; [lia|assumption|].
    apply wf_not_reversed_key; assumption.
  - rewrite IH; [lia|split; assumption|assumption].
Qed.

(* --- closed contours are balanced --------------------------------- *)

Lemma add_edges_bdry : forall es ps m v,
  bdry (add_edges ps es m) v = bdry ps v + m * edges_bdry es v.
Proof.
  unfold add_edges.
  induction es as [|[a b] r IH]; intros; simpl.
  - lia.
  - rewrite IH, polyset_add_bdry. lia.
Qed.

Lemma path_edges_bdry : forall r a first v,
  edges_bdry (path_edges first (a :: r)) v
  = (if pt_eqb first v then 1 else 0) - (if pt_eqb a v then 1 else 0).
Proof.
  induction r as [|b r IH]; intros a first v.
  - simpl. lia.
  - change (path_edges first (a :: b :: r))
      with ((a, b) :: path_edges first (b :: r)).
    cbn [edges_bdry]. rewrite IH. lia.
Qed.

Lemma contour_edges_bdry : forall c v, edges_bdry (contour_edges c) v = 0.
Proof.
  intros [|a r] v; [reflexivity|].
  unfold contour_edges. rewrite path_edges_bdry. lia.
Qed.

Theorem add_contour_bdry : forall ps cm v,
  bdry (add_contour ps cm) v = bdry ps v.
Proof.
  intros. unfold add_contour.
  rewrite add_edges_bdry, contour_edges_bdry. lia.
Qed.

Lemma fold_add_contour_bdry : forall cs ps v,
  bdry (fold_left add_contour cs ps) v = bdry ps v.
Proof.
  induction cs as [|cm cs IH]; intros; simpl; [reflexivity|].
  rewrite IH. apply add_contour_bdry.
Qed.

Corollary closed_input_balanced : forall (cs : list (list pt * Z)) (v : pt),
  bdry (build_polyset cs) v = 0.
Proof. intros. unfold build_polyset. rewrite fold_add_contour_bdry. reflexivity. Qed.

Lemma add_edges_wf : forall es ps m, polyset_wf ps -> polyset_wf (add_edges ps es m).
Proof.
  unfold add_edges. induction es as [|e r IH]; intros; simpl; [assumption|].
  apply IH. apply polyset_add_wf. assumption.
Qed.

Lemma build_polyset_wf : forall cs, polyset_wf (build_polyset cs).
Proof.
  intros cs. unfold build_polyset.
  assert (G : forall cs ps, polyset_wf ps -> polyset_wf (fold_left add_contour cs ps)).
  { induction cs0 as [|cm cs0 IH]; intros; simpl; [assumption|].
    apply IH. unfold add_contour. apply add_edges_wf. assumption. }
  apply G. apply polyset_wf_nil.
Qed.

(* --- examples ------------------------------------------------------ *)

(* reversal negates, coincident edges sum, zero sum erases, zero-length and
   zero-multiplicity are discarded *)
Example polyset_add_example :
  polyset_add [] (2, 0) (0, 0) 3 = [(((0, 0), (2, 0)), -3)] /\
  polyset_add (polyset_add [] (0, 0) (2, 0) 3) (2, 0) (0, 0) 3 = [] /\
  polyset_add (polyset_add [] (0, 0) (4, 4) 2) (0, 0) (4, 4) 1
    = [(((0, 0), (4, 4)), 3)] /\
  polyset_add [(((0, 0), (4, 4)), 2)] (1, 1) (1, 1) 5 = [(((0, 0), (4, 4)), 2)] /\
  polyset_add [(((0, 0), (4, 4)), 2)] (1, 1) (2, 1) 0 = [(((0, 0), (4, 4)), 2)].
Proof. vm_compute. repeat split. Qed.

Example polyset_add_bdry_example :
  let ps := [(((0, 0), (4, 4)), 2)] in
  bdry ps (0, 0) = -2 /\ bdry ps (4, 4) = 2 /\
  bdry (polyset_add ps (4, 4) (0, 0) 5) (0, 0) = 3 /\
  bdry (polyset_add ps (4, 4) (0, 0) 5) (4, 4) = -3.
Proof. vm_compute. repeat split. Qed.

(* split l->r at a point q that is NOT on the segment: the edge sets differ,
   the 0-boundary does not *)
Example split_example :
  let ps := [(((0, 0), (4, 4)), 2)] in
  let l := (0, 0) in let q := (1, 3) in let r := (4, 4) in
  polyset_add (polyset_add ps l q 1) q r 1
    = [(((0, 0), (4, 4)), 2); (((0, 0), (1, 3)), 1); (((1, 3), (4, 4)), 1)] /\
  polyset_add ps l r 1 = [(((0, 0), (4, 4)), 3)] /\
  bdry (polyset_add (polyset_add ps l q 1) q r 1) l = -3 /\
  bdry (polyset_add ps l r 1) l = -3 /\
  bdry (polyset_add (polyset_add ps l q 1) q r 1) q = 0 /\
  bdry (polyset_add ps l r 1) q = 0 /\
  bdry (polyset_add (polyset_add ps l q 1) q r 1) r = 3 /\
  bdry (polyset_add ps l r 1) r = 3.
Proof. vm_compute. repeat split. Qed.

Example coef_example :
  let ps := polyset_add [(((0, 0), (4, 4)), 2)] (4, 4) (0, 0) 5 in
  ps = [(((0, 0), (4, 4)), -3)] /\
  coef ps (0, 0) (4, 4) = -3 /\ coef ps (4, 4) (0, 0) = 3 /\
  coef ps (0, 0) (1, 3) = 0 /\
  ps_lookup ((0, 0), (4, 4)) ps = -3.
Proof. vm_compute. repeat split. Qed.

(* a CCW square and a CCW triangle glued along x = 2: the shared vertical edge
   cancels (mult 1 each) or survives with mult -1 (triangle mult 2); every
   vertex is balanced either way *)
Example closed_example :
  let sq : list pt := [(0, 0); (2, 0); (2, 2); (0, 2)] in
  let tri : list pt := [(2, 0); (4, 1); (2, 2)] in
  contour_edges sq
    = [((0, 0), (2, 0)); ((2, 0), (2, 2)); ((2, 2), (0, 2)); ((0, 2), (0, 0))] /\
  build_polyset [(sq, 1); (tri, 1)]
    = [(((0, 0), (2, 0)), 1); (((0, 2), (2, 2)), -1); (((0, 0), (0, 2)), -1);
       (((2, 0), (4, 1)), 1); (((2, 2), (4, 1)), -1)] /\
  build_polyset [(sq, 1); (tri, 2)]
    = [(((0, 0), (2, 0)), 1); (((2, 0), (2, 2)), -1); (((0, 2), (2, 2)), -1);
       (((0, 0), (0, 2)), -1); (((2, 0), (4, 1)), 2); (((2, 2), (4, 1)), -2)] /\
  map (bdry (build_polyset [(sq, 1); (tri, 2)]))
      [(0, 0); (2, 0); (2, 2); (0, 2); (4, 1); (7, 7)] = [0; 0; 0; 0; 0; 0].
Proof. vm_compute. repeat split. Qed.

(* ================================================================== *)

Print Assumptions verticals_coverage.
Print Assumptions verticals_output_shape.
Print Assumptions verticals_output_endpoints.
Print Assumptions build_delta_keys.
Print Assumptions endpoints_spec.
Print Assumptions polyset_add_bdry.
Print Assumptions split_preserves_chain.
Print Assumptions polyset_add_coef.
Print Assumptions polyset_add_wf.
Print Assumptions coef_lookup.
Print Assumptions add_contour_bdry.
Print Assumptions closed_input_balanced.
Print Assumptions build_polyset_wf.
