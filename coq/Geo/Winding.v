(* Lemmas about the exact classifier of WindingDefs.v. *)
From Coq Require Import ZArith List Bool Lia Permutation ZifyBool.
From MV Require Import Geo.WindingDefs.
Import ListNotations.
Local Open Scope Z_scope.

(* ---- algebra ------------------------------------------------------------- *)
Lemma orient2_swap a b q : orient2 b a q = - orient2 a b q.
Proof. unfold orient2. ring. Qed.

Lemma det3_rot a b c : det3 b c a = det3 a b c.
Proof. unfold det3. ring. Qed.

Lemma det3_flip a b c : det3 a c b = - det3 a b c.
Proof. unfold det3. ring. Qed.

Lemma edge_cross_swap a b q : edge_cross b a q = - edge_cross a b q.
Proof.
  unfold edge_cross. rewrite (orient2_swap a b q).
  destruct (py a <=? py q) eqn:E1, (py q <? py b) eqn:E2,
           (py b <=? py q) eqn:E3, (py q <? py a) eqn:E4; cbn [andb]; try lia;
  destruct (0 <? orient2 a b q) eqn:E5, (orient2 a b q <? 0) eqn:E6;
  destruct (0 <? - orient2 a b q) eqn:E7, (- orient2 a b q <? 0) eqn:E8; lia.
Qed.

Lemma edge_cross_range a b q : -1 <= edge_cross a b q <= 1.
Proof.
  unfold edge_cross.
  destruct ((py a <=? py q) && (py q <? py b)); [destruct (0 <? orient2 a b q); lia|].
  destruct ((py b <=? py q) && (py q <? py a)); [destruct (orient2 a b q <? 0); lia|lia].
Qed.

Lemma wn2_rot a b c q : wn2 b c a q = wn2 a b c q.
Proof. unfold wn2. lia. Qed.

Lemma wn2_flip a b c q : wn2 a c b q = - wn2 a b c q.
Proof.
  unfold wn2. rewrite (edge_cross_swap c a q), (edge_cross_swap b c q), (edge_cross_swap a b q). lia.
Qed.

(* ---- list structure ------------------------------------------------------ *)
Lemma winding_app_l t1 t2 p : winding (t1 ++ t2) p = winding t1 p + winding t2 p.
Proof.
  unfold winding. induction t1 as [|t l IH]; cbn [app fold_right]; [lia|]. rewrite IH. lia.
Qed.

Lemma winding_cons t l p : winding (t :: l) p = tri_cross t p + winding l p.
Proof. reflexivity. Qed.

Lemma winding_perm_l t1 t2 p : Permutation t1 t2 -> winding t1 p = winding t2 p.
Proof.
  induction 1 as [|x l l' _ IH|x y l|l l' l'' _ IH1 _ IH2].
  - reflexivity.
  - rewrite !winding_cons, IH. reflexivity.
  - rewrite !winding_cons. lia.
  - congruence.
Qed.

Lemma tri_cross_rot t p : tri_cross (rot_tri t) p = tri_cross t p.
Proof.
  destruct t as [[a b] c]. unfold rot_tri, tri_cross.
  rewrite wn2_rot, det3_rot. reflexivity.
Qed.

Lemma tri_cross_flip t p : tri_cross (flip_tri t) p = - tri_cross t p.
Proof.
  destruct t as [[a b] c]. unfold flip_tri, tri_cross.
  rewrite wn2_flip, det3_flip.
  replace (- wn2 a b c p * - det3 (psub a p) (psub b p) (psub c p))
    with (wn2 a b c p * det3 (psub a p) (psub b p) (psub c p)) by ring.
  destruct (wn2 a b c p =? 0) eqn:E; destruct (- wn2 a b c p =? 0) eqn:E'; try lia.
  destruct (0 <? wn2 a b c p * det3 (psub a p) (psub b p) (psub c p)); lia.
Qed.

Lemma winding_map_rot tris p : winding (map rot_tri tris) p = winding tris p.
Proof.
  induction tris as [|t l IH]; [reflexivity|].
  cbn [map]. rewrite !winding_cons, tri_cross_rot, IH. reflexivity.
Qed.

Lemma winding_flip_l tris p : winding (map flip_tri tris) p = - winding tris p.
Proof.
  induction tris as [|t l IH]; [reflexivity|].
  cbn [map]. rewrite !winding_cons, tri_cross_flip, IH. lia.
Qed.

(* rotating any subset of the triangles *)
Lemma winding_rot_some (f : tri -> bool) tris p :
  winding (map (fun t => if f t then rot_tri t else t) tris) p = winding tris p.
Proof.
  induction tris as [|t l IH]; [reflexivity|].
  cbn [map]. rewrite !winding_cons, IH. destruct (f t); [rewrite tri_cross_rot|]; reflexivity.
Qed.

Lemma volume6_app_l t1 t2 : volume6 (t1 ++ t2) = volume6 t1 + volume6 t2.
Proof.
  unfold volume6. induction t1 as [|[[a b] c] l IH]; cbn [app fold_right]; [lia|]. rewrite IH. lia.
Qed.

Lemma volume6_cons a b c l : volume6 ((a, b, c) :: l) = det3 a b c + volume6 l.
Proof. reflexivity. Qed.

Lemma volume6_perm_l t1 t2 : Permutation t1 t2 -> volume6 t1 = volume6 t2.
Proof.
  induction 1 as [|[[a b] c] l l' _ IH|[[a b] c] [[a' b'] c'] l|l l' l'' _ IH1 _ IH2].
  - reflexivity.
  - rewrite !volume6_cons, IH. reflexivity.
  - rewrite !volume6_cons. lia.
  - congruence.
Qed.

Lemma volume6_flip_l tris : volume6 (map flip_tri tris) = - volume6 tris.
Proof.
  induction tris as [|[[a b] c] l IH]; [reflexivity|].
  cbn [map flip_tri]. rewrite !volume6_cons, IH, det3_flip. lia.
Qed.

Lemma volume6_map_rot tris : volume6 (map rot_tri tris) = volume6 tris.
Proof.
  induction tris as [|[[a b] c] l IH]; [reflexivity|].
  cbn [map rot_tri]. rewrite !volume6_cons, IH, det3_rot. lia.
Qed.

(* ---- the fast form equals the specification form ------------------------- *)
Lemma edge_cross_out_y a b q :
  (py q < py a /\ py q < py b) \/ (py a <= py q /\ py b <= py q) -> edge_cross a b q = 0.
Proof.
  intros H. unfold edge_cross.
  destruct (py a <=? py q) eqn:E1, (py q <? py b) eqn:E2,
           (py b <=? py q) eqn:E3, (py q <? py a) eqn:E4; cbn [andb]; lia.
Qed.

Lemma orient2_right a b q :
  px a < px q -> px b < px q -> py a <= py q < py b -> orient2 a b q < 0.
Proof.
  unfold orient2. intros Ha Hb Hy.
  assert (H1 : (px b - px a) * (py q - py a) <= (px q - px a) * (py q - py a)) by nia.
  assert (H2 : (px q - px a) * (py q - py a) < (px q - px a) * (py b - py a)) by nia.
  lia.
Qed.

Lemma edge_cross_right a b q : px a < px q -> px b < px q -> edge_cross a b q = 0.
Proof.
  intros Ha Hb. unfold edge_cross.
  destruct ((py a <=? py q) && (py q <? py b)) eqn:E1.
  - assert (orient2 a b q < 0) by (apply orient2_right; lia).
    destruct (0 <? orient2 a b q) eqn:E; lia.
  - destruct ((py b <=? py q) && (py q <? py a)) eqn:E2; [|reflexivity].
    assert (orient2 b a q < 0) by (apply orient2_right; lia).
    rewrite orient2_swap in H. destruct (orient2 a b q <? 0) eqn:E; lia.
Qed.

Lemma tri_cross_fast_ok t p : tri_cross_fast t p = tri_cross t p.
Proof.
  destruct t as [[a b] c]. unfold tri_cross_fast.
  destruct ((py p <? min3 (py a) (py b) (py c)) || (max3 (py a) (py b) (py c) <=? py p)
            || (max3 (px a) (px b) (px c) <? px p)) eqn:E; [|reflexivity].
  unfold tri_cross.
  assert (W : wn2 a b c p = 0).
  { unfold wn2, min3, max3 in *.
    destruct (py p <? Z.min (py a) (Z.min (py b) (py c))) eqn:E1;
      [rewrite !edge_cross_out_y by lia; reflexivity|].
    destruct (Z.max (py a) (Z.max (py b) (py c)) <=? py p) eqn:E2;
      [rewrite !edge_cross_out_y by lia; reflexivity|].
    cbn [orb] in E. rewrite !edge_cross_right by lia. reflexivity. }
  rewrite W. reflexivity.
Qed.

Lemma winding_fast_ok tris p : winding_fast tris p = winding tris p.
Proof.
  unfold winding_fast, winding. induction tris as [|t l IH]; [reflexivity|].
  cbn [fold_right]. rewrite IH, tri_cross_fast_ok. reflexivity.
Qed.

(* ---- the cube ------------------------------------------------------------ *)
Lemma edge_cross_horiz a b q : py a = py b -> edge_cross a b q = 0.
Proof. intros H. apply edge_cross_out_y. lia. Qed.

Lemma edge_cross_vert a b q :
  px a = px b ->
  edge_cross a b q =
  if px q <? px a then b2z ((py a <=? py q) && (py q <? py b)) - b2z ((py b <=? py q) && (py q <? py a))
  else 0.
Proof.
  intros H. unfold edge_cross, b2z.
  assert (O : orient2 a b q = (py b - py a) * (px a - px q)) by (unfold orient2; rewrite H; ring).
  rewrite O.
  destruct (px q <? px a) eqn:Ex.
  - destruct ((py a <=? py q) && (py q <? py b)) eqn:E1.
    + assert (0 < (py b - py a) * (px a - px q)) by nia.
      destruct (0 <? (py b - py a) * (px a - px q)) eqn:E; try lia.
      destruct ((py b <=? py q) && (py q <? py a)) eqn:E2; lia.
    + destruct ((py b <=? py q) && (py q <? py a)) eqn:E2; [|reflexivity].
      assert ((py b - py a) * (px a - px q) < 0) by nia.
      destruct ((py b - py a) * (px a - px q) <? 0) eqn:E; lia.
  - destruct ((py a <=? py q) && (py q <? py b)) eqn:E1.
    + assert ((py b - py a) * (px a - px q) <= 0) by nia.
      destruct (0 <? (py b - py a) * (px a - px q)) eqn:E; lia.
    + destruct ((py b <=? py q) && (py q <? py a)) eqn:E2; [|reflexivity].
      assert (0 <= (py b - py a) * (px a - px q)) by nia.
      destruct ((py b - py a) * (px a - px q) <? 0) eqn:E; lia.
Qed.

Lemma tri_cross_yflat a b c p : py a = py b -> py b = py c -> tri_cross (a, b, c) p = 0.
Proof.
  intros H1 H2. unfold tri_cross, wn2.
  rewrite !edge_cross_horiz by lia. reflexivity.
Qed.

Lemma tri_cross_xflat a b c p : px a = px b -> px b = px c -> tri_cross (a, b, c) p = 0.
Proof.
  intros H1 H2. unfold tri_cross.
  assert (W : wn2 a b c p = 0).
  { unfold wn2. rewrite !edge_cross_vert by lia. rewrite <- H2, <- H1.
    destruct (px p <? px a); [|reflexivity]. unfold b2z.
    destruct (py a <=? py p) eqn:E1, (py p <? py b) eqn:E2, (py b <=? py p) eqn:E3,
             (py p <? py a) eqn:E4, (py p <? py c) eqn:E5, (py c <=? py p) eqn:E6; cbn [andb]; lia. }
  rewrite W. reflexivity.
Qed.

(* a counter-clockwise triangle in a plane z = Z0 *)
Lemma det3_zconst a b c p z0 :
  pz a = z0 -> pz b = z0 -> pz c = z0 ->
  det3 (psub a p) (psub b p) (psub c p) = (z0 - pz p) * orient2 a b c.
Proof.
  intros Ha Hb Hc. unfold det3, psub, orient2. cbn [px py pz fst snd]. rewrite Ha, Hb, Hc. ring.
Qed.

Lemma tri_cross_horizontal a b c p z0 :
  pz a = z0 -> pz b = z0 -> pz c = z0 -> 0 < orient2 a b c -> 0 <= wn2 a b c p ->
  tri_cross (a, b, c) p = if pz p <? z0 then wn2 a b c p else 0.
Proof.
  intros Ha Hb Hc Ho Hw. unfold tri_cross. rewrite (det3_zconst a b c p z0 Ha Hb Hc).
  destruct (wn2 a b c p =? 0) eqn:E0.
  - destruct (pz p <? z0); lia.
  - destruct (pz p <? z0) eqn:Ez.
    + assert (0 < wn2 a b c p * ((z0 - pz p) * orient2 a b c))
        by (apply Z.mul_pos_pos; [lia|apply Z.mul_pos_pos; lia]).
      destruct (0 <? wn2 a b c p * ((z0 - pz p) * orient2 a b c)) eqn:E; lia.
    + assert (0 <= wn2 a b c p * ((pz p - z0) * orient2 a b c))
        by (apply Z.mul_nonneg_nonneg; [lia|apply Z.mul_nonneg_nonneg; lia]).
      assert (wn2 a b c p * ((z0 - pz p) * orient2 a b c) = - (wn2 a b c p * ((pz p - z0) * orient2 a b c))) by ring.
      destruct (0 <? wn2 a b c p * ((z0 - pz p) * orient2 a b c)) eqn:E; lia.
Qed.

Section Rect.
  Variables lx ly hx hy z0 qx qy qz : Z.
  Hypothesis Hx : lx < hx.
  Hypothesis Hy : ly < hy.
  Local Notation A := ((lx, ly, z0) : pt).
  Local Notation B := ((hx, ly, z0) : pt).
  Local Notation C := ((hx, hy, z0) : pt).
  Local Notation D := ((lx, hy, z0) : pt).
  Local Notation q := ((qx, qy, qz) : pt).
  Local Notation inrange := ((ly <=? qy) && (qy <? hy)).
  Local Notation o := (orient2 B D q).

  Lemma rect_o_left : qx < lx -> ly <= qy < hy -> 0 < o.
  Proof.
    intros H1 H2. unfold orient2. cbn [px py pz fst snd].
    assert ((hx - lx) * (qy - ly) <= (hx - lx) * (hy - ly)) by nia.
    assert ((hy - ly) * (hx - lx) < (hy - ly) * (hx - qx)) by nia.
    lia.
  Qed.

  Lemma rect_o_right : hx <= qx -> ly <= qy < hy -> o <= 0.
  Proof.
    intros H1 H2. unfold orient2. cbn [px py pz fst snd].
    assert (0 <= (hx - lx) * (qy - ly)) by nia.
    assert (0 <= (hy - ly) * (qx - hx)) by nia.
    lia.
  Qed.

  Lemma rect_wn2_1 : wn2 D A B q = if inrange then b2z (0 <? o) - b2z (qx <? lx) else 0.
  Proof.
    unfold wn2. rewrite (edge_cross_vert D A q) by reflexivity.
    rewrite (edge_cross_horiz A B q) by reflexivity.
    unfold edge_cross at 1. unfold b2z. cbn [px py pz fst snd].
    destruct (ly <=? qy) eqn:E1, (qy <? hy) eqn:E2, (hy <=? qy) eqn:E3, (qy <? ly) eqn:E4,
             (qx <? lx) eqn:E5; cbn [andb]; try lia;
    destruct (0 <? o); lia.
  Qed.

  Lemma rect_wn2_2 : wn2 C D B q = if inrange then b2z (qx <? hx) - b2z (0 <? o) else 0.
  Proof.
    unfold wn2. rewrite (edge_cross_vert B C q) by reflexivity.
    rewrite (edge_cross_horiz C D q) by reflexivity.
    rewrite (edge_cross_swap B D q).
    unfold edge_cross at 1. unfold b2z. cbn [px py pz fst snd].
    destruct (ly <=? qy) eqn:E1, (qy <? hy) eqn:E2, (hy <=? qy) eqn:E3, (qy <? ly) eqn:E4,
             (qx <? hx) eqn:E5; cbn [andb]; try lia;
    destruct (0 <? o); lia.
  Qed.

  Lemma rect_wn2_1_nonneg : 0 <= wn2 D A B q.
  Proof.
    rewrite rect_wn2_1. unfold b2z.
    destruct (ly <=? qy) eqn:E1, (qy <? hy) eqn:E2; cbn [andb]; try lia.
    destruct (qx <? lx) eqn:E5.
    - assert (0 < o) by (apply rect_o_left; lia). destruct (0 <? o) eqn:E; lia.
    - destruct (0 <? o); lia.
  Qed.

  Lemma rect_wn2_2_nonneg : 0 <= wn2 C D B q.
  Proof.
    rewrite rect_wn2_2. unfold b2z.
    destruct (ly <=? qy) eqn:E1, (qy <? hy) eqn:E2; cbn [andb]; try lia.
    destruct (qx <? hx) eqn:E5.
    - destruct (0 <? o); lia.
    - assert (o <= 0) by (apply rect_o_right; lia). destruct (0 <? o) eqn:E; lia.
  Qed.

  Lemma rect_wn2_sum :
    wn2 D A B q + wn2 C D B q = b2z ((ly <=? qy) && (qy <? hy) && (lx <=? qx) && (qx <? hx)).
  Proof.
    rewrite rect_wn2_1, rect_wn2_2. unfold b2z.
    destruct (ly <=? qy) eqn:E1, (qy <? hy) eqn:E2; cbn [andb]; try lia.
    destruct (qx <? lx) eqn:E5, (qx <? hx) eqn:E6, (lx <=? qx) eqn:E7; cbn [andb]; try lia;
    destruct (0 <? o); lia.
  Qed.

  Lemma rect_orient_1 : 0 < orient2 D A B.
  Proof. unfold orient2. cbn [px py pz fst snd]. nia. Qed.
  Lemma rect_orient_2 : 0 < orient2 C D B.
  Proof. unfold orient2. cbn [px py pz fst snd]. nia. Qed.

  (* the two triangles of the face, as oriented on the top of the cube *)
  Lemma rect_up_1 : tri_cross (D, A, B) q = if qz <? z0 then wn2 D A B q else 0.
  Proof.
    apply (tri_cross_horizontal D A B q z0); try reflexivity.
    apply rect_orient_1. apply rect_wn2_1_nonneg.
  Qed.
  Lemma rect_up_2 : tri_cross (C, D, B) q = if qz <? z0 then wn2 C D B q else 0.
  Proof.
    apply (tri_cross_horizontal C D B q z0); try reflexivity.
    apply rect_orient_2. apply rect_wn2_2_nonneg.
  Qed.
  (* ... and on the bottom *)
  Lemma rect_down_1 : tri_cross (D, B, A) q = - (if qz <? z0 then wn2 D A B q else 0).
  Proof. rewrite <- rect_up_1. exact (tri_cross_flip (D, A, B) q). Qed.
  Lemma rect_down_2 : tri_cross (C, B, D) q = - (if qz <? z0 then wn2 C D B q else 0).
  Proof. rewrite <- rect_up_2. exact (tri_cross_flip (C, D, B) q). Qed.
End Rect.

Lemma winding_box_l lx ly lz hx hy hz qx qy qz :
  lx < hx -> ly < hy -> lz < hz ->
  qx <> lx -> qx <> hx -> qy <> ly -> qy <> hy -> qz <> lz -> qz <> hz ->
  winding (box_tris (lx, ly, lz) (hx, hy, hz)) (qx, qy, qz)
  = b2z (in_box (lx, ly, lz) (hx, hy, hz) (qx, qy, qz)).
Proof.
  intros Hx Hy Hz N1 N2 N3 N4 N5 N6.
  cbv [box_tris cube_tri_verts map box_vert nth cube_vert_bits Z.eqb px py pz fst snd].
  rewrite !winding_cons.
  rewrite (tri_cross_yflat (lx, ly, hz) (lx, ly, lz) (hx, ly, lz)) by reflexivity.
  rewrite (tri_cross_xflat (lx, ly, hz) (lx, hy, hz) (lx, ly, lz)) by reflexivity.
  rewrite (tri_cross_xflat (lx, hy, hz) (lx, hy, lz) (lx, ly, lz)) by reflexivity.
  rewrite (tri_cross_yflat (lx, hy, hz) (hx, hy, hz) (lx, hy, lz)) by reflexivity.
  rewrite (tri_cross_xflat (hx, ly, hz) (hx, ly, lz) (hx, hy, lz)) by reflexivity.
  rewrite (tri_cross_yflat (hx, ly, hz) (lx, ly, hz) (hx, ly, lz)) by reflexivity.
  rewrite (tri_cross_yflat (hx, hy, hz) (hx, hy, lz) (lx, hy, lz)) by reflexivity.
  rewrite (tri_cross_xflat (hx, hy, hz) (hx, ly, hz) (hx, hy, lz)) by reflexivity.
  rewrite (rect_down_1 lx ly hx hy lz qx qy qz Hx Hy).
  rewrite (rect_down_2 lx ly hx hy lz qx qy qz Hx Hy).
  rewrite (rect_up_1 lx ly hx hy hz qx qy qz Hx Hy).
  rewrite (rect_up_2 lx ly hx hy hz qx qy qz Hx Hy).
  pose proof (rect_wn2_sum lx ly hx hy lz qx qy qz Hx Hy) as S1.
  pose proof (rect_wn2_sum lx ly hx hy hz qx qy qz Hx Hy) as S2.
  (* wn2 ignores z *)
  assert (Z1 : wn2 (lx, hy, hz) (lx, ly, hz) (hx, ly, hz) (qx, qy, qz)
             = wn2 (lx, hy, lz) (lx, ly, lz) (hx, ly, lz) (qx, qy, qz)) by reflexivity.
  assert (Z2 : wn2 (hx, hy, hz) (lx, hy, hz) (hx, ly, hz) (qx, qy, qz)
             = wn2 (hx, hy, lz) (lx, hy, lz) (hx, ly, lz) (qx, qy, qz)) by reflexivity.
  rewrite Z1, Z2 in *.
  unfold winding; cbn [fold_right].
  set (w1 := wn2 (lx, hy, lz) (lx, ly, lz) (hx, ly, lz) (qx, qy, qz)) in *.
  set (w2 := wn2 (hx, hy, lz) (lx, hy, lz) (hx, ly, lz) (qx, qy, qz)) in *.
  clearbody w1 w2. clear Z1 Z2 S2.
  unfold in_box, b2z in *. cbn [px py pz fst snd].
  destruct (ly <=? qy) eqn:E1, (qy <? hy) eqn:E2, (lx <=? qx) eqn:E3, (qx <? hx) eqn:E4,
           (qz <? lz) eqn:E5, (qz <? hz) eqn:E6, (ly <? qy) eqn:E7, (lx <? qx) eqn:E8,
           (lz <? qz) eqn:E9; cbn [andb] in *; lia.
Qed.

Lemma volume6_box_l lx ly lz hx hy hz :
  volume6 (box_tris (lx, ly, lz) (hx, hy, hz)) = 6 * ((hx - lx) * (hy - ly) * (hz - lz)).
Proof.
  cbv [box_tris cube_tri_verts map box_vert nth cube_vert_bits Z.eqb px py pz fst snd
       volume6 fold_right det3]. ring.
Qed.

(* ---- specification side of the lattice regime ---------------------------- *)
Lemma even_odd_neq a b : Z.even a = true -> Z.odd b = true -> b <> a.
Proof.
  intros Ha Hb E. subst b. rewrite <- Z.negb_even in Hb. rewrite Ha in Hb. discriminate.
Qed.

Lemma voxel_spec_l e p : csg_wf e = true -> odd_pt p = true -> csg_inside_w e p = csg_inside e p.
Proof.
  intros W O. induction e as [lo hi|ax g off|o a IHa b IHb]; cbn [csg_inside_w csg_inside].
  - destruct lo as [[lx ly] lz], hi as [[hx hy] hz], p as [[qx qy] qz].
    cbn [csg_wf] in W. unfold even_pt, odd_pt in *. cbn [px py pz fst snd] in *.
    rewrite !andb_true_iff in W, O.
    repeat match goal with H : _ /\ _ |- _ => destruct H end.
    rewrite winding_box_l by (try apply even_odd_neq; try assumption; lia).
    destruct (in_box (lx, ly, lz) (hx, hy, hz) (qx, qy, qz)); reflexivity.
  - reflexivity.
  - cbn [csg_wf] in W. rewrite andb_true_iff in W. destruct W as [Wa Wb].
    rewrite IHa, IHb by assumption. reflexivity.
Qed.

Lemma in_zrange x lo n : In x (zrange lo n) <-> lo <= x < lo + Z.of_nat n.
Proof.
  revert lo. induction n as [|n IH]; intros lo; cbn [zrange In].
  - lia.
  - rewrite IH. lia.
Qed.

Lemma in_centres c n h :
  In c (centres n h) <->
  exists i j k, (0 <= i < Z.of_nat n /\ 0 <= j < Z.of_nat n /\ 0 <= k < Z.of_nat n) /\
                c = ((2*i+1)*h, (2*j+1)*h, (2*k+1)*h).
Proof.
  unfold centres. rewrite in_flat_map. split.
  - intros [i [Hi H]]. rewrite in_flat_map in H. destruct H as [j [Hj H]].
    rewrite in_map_iff in H. destruct H as [k [Hk Hkk]].
    rewrite in_zrange in Hi, Hj, Hkk. exists i, j, k. split; [lia|congruence].
  - intros [i [j [k [[Hi [Hj Hk]] E]]]]. exists i. split; [apply in_zrange; lia|].
    rewrite in_flat_map. exists j. split; [apply in_zrange; lia|].
    rewrite in_map_iff. exists k. split; [congruence|apply in_zrange; lia].
Qed.

Lemma centres_odd c n : In c (centres n 1) -> odd_pt c = true.
Proof.
  rewrite in_centres. intros [i [j [k [_ E]]]]. subst c. unfold odd_pt. cbn [px py pz fst snd].
  replace ((2*i+1)*1) with (1 + 2*i) by ring. replace ((2*j+1)*1) with (1 + 2*j) by ring.
  replace ((2*k+1)*1) with (1 + 2*k) by ring. rewrite !Z.odd_add_mul_2. reflexivity.
Qed.

Lemma count_bad_zero {A} (f : A -> bool) l :
  fold_right (fun c acc => if f c then acc else acc + 1) 0 l = 0 -> forall c, In c l -> f c = true.
Proof.
  assert (P : forall l, 0 <= fold_right (fun c acc => if f c then acc else acc + 1) 0 l).
  { induction l0 as [|x l0 IH]; cbn [fold_right]; [lia|]. destruct (f x); lia. }
  induction l as [|x l IH]; cbn [fold_right In]; intros H c Hc; [contradiction|].
  pose proof (P l). destruct (f x) eqn:E.
  - destruct Hc as [->|Hc]; [assumption|apply IH; assumption].
  - lia.
Qed.

(* accepted by the checker => at every voxel centre of the grid the
   output's winding number is the indicator of the set formula applied to
   "winding number of the leaf cube's own mesh is non-zero" *)
Lemma lattice_check_sound_l e out n h cnt v :
  csg_wf e = true ->
  lattice_check e out n h = (0, cnt, v) ->
  (forall c, In c (centres n 1) -> winding out (scale_pt h c) = b2z (csg_inside_w e c)) /\
  v = volume6 out.
Proof.
  intros W H. unfold lattice_check in H. inversion H as [[H0 H1 H2]]. clear H.
  split; [|reflexivity]. intros c Hc.
  rewrite voxel_spec_l by (try assumption; eapply centres_odd; eassumption).
  pose proof (count_bad_zero (fun c => winding_fast out (scale_pt h c) =? b2z (csg_inside e c))
                (centres n 1) H0 c Hc) as Hq.
  cbv beta in Hq. rewrite winding_fast_ok in Hq. lia.
Qed.

(* the reference voxel mesh: one cube per voxel that the formula keeps
   (doubled coordinates, voxel = [c-1,c+1]^3); its 6*volume is 48 per voxel *)
Definition voxel_mesh (e : csg) (n : nat) : list tri :=
  flat_map (fun c => if csg_inside e c
                     then box_tris (px c - 1, py c - 1, pz c - 1) (px c + 1, py c + 1, pz c + 1)
                     else []) (centres n 1).

Lemma voxel_mesh_volume_l e n :
  volume6 (voxel_mesh e n) =
  48 * fold_right (fun c acc => acc + b2z (csg_inside e c)) 0 (centres n 1).
Proof.
  unfold voxel_mesh. induction (centres n 1) as [|c l IH]; [reflexivity|].
  cbn [flat_map fold_right]. rewrite volume6_app_l, IH.
  destruct (csg_inside e c); unfold b2z.
  - rewrite volume6_box_l. ring.
  - cbn [volume6 fold_right]. ring.
Qed.

Lemma lattice_check_sound_ijk e out n h cnt v :
  csg_wf e = true ->
  lattice_check e out n h = (0, cnt, v) ->
  (forall i j k, 0 <= i < Z.of_nat n -> 0 <= j < Z.of_nat n -> 0 <= k < Z.of_nat n ->
     winding out ((2*i+1)*h, (2*j+1)*h, (2*k+1)*h)
     = if csg_inside_w e (2*i+1, 2*j+1, 2*k+1) then 1 else 0) /\
  v = volume6 out /\
  cnt = fold_right (fun c acc => acc + b2z (csg_inside e c)) 0 (centres n 1) /\
  volume6 (voxel_mesh e n) = 48 * cnt.
Proof.
  intros W H. destruct (lattice_check_sound_l e out n h cnt v W H) as [S V].
  split; [|split; [assumption|]].
  - intros i j k Hi Hj Hk.
    assert (I : In ((2*i+1)*1, (2*j+1)*1, (2*k+1)*1) (centres n 1)).
    { apply in_centres. exists i, j, k. split; [lia|reflexivity]. }
    specialize (S _ I). unfold scale_pt in S. cbn [px py pz fst snd] in S.
    rewrite !Z.mul_1_r in S. exact S.
  - unfold lattice_check in H. injection H as H0 H1 H2.
    split; [symmetry; exact H1|]. rewrite <- H1. apply voxel_mesh_volume_l.
Qed.
