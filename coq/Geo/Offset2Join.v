(* C12 — local facts about the join vertices OffsetContour emits at a convex
   corner (src/boolean2_offset.cpp:63-126, 194-237), over the reals.
   V is the original vertex, nP / nN the unit outward normals of the incident
   edges, d a direction vector of an incident edge, delta the signed offset. *)
From Coq Require Import Reals Lra Lia Psatz.
From MV Require Import Geo.Offset2Defs Geo.Offset2.
Local Open Scope R_scope.

Ltac vsimp := unfold offset_pt, round_pt, lerp in *; unfold vlen2 in *; unfold vdot, vcross, vadd, vsub, vscale, rot in *; cbn [fst snd] in *.

(* ---- every join type: endPrev and startNext are exactly |delta| from V ---- *)
Lemma offset_pt_on_circle : forall (V n : vec) (delta : R),
  vlen2 n = 1 -> vlen2 (vsub (offset_pt V n delta) V) = delta * delta.
Proof.
  intros [vx vy] [nx ny] delta H. vsimp.
  replace ((vx + delta * nx - vx) * (vx + delta * nx - vx) + (vy + delta * ny - vy) * (vy + delta * ny - vy))
    with (delta * delta * (nx * nx + ny * ny)) by ring.
  rewrite H. ring.
Qed.

(* ---- square join (AppendSquareJoin): mid -/+ half * tangent ---- *)
Definition square_pt (V b : vec) (delta half sgn : R) : vec :=
  vadd (vadd V (vscale delta b)) (vscale (sgn * half) (- snd b, fst b)).

(* c = cosHalf = max(0, b.nPrev), s = sinHalf = sqrt(max(0, 1 - c^2)), half = |delta| s / (1 + c) *)
Lemma square_pt_distance : forall (V b : vec) (delta c s sgn : R),
  vlen2 b = 1 -> 0 <= c -> 0 <= s -> s * s + c * c = 1 -> sgn * sgn = 1 ->
  let half := Rabs delta * s / (1 + c) in
  delta * delta <= vlen2 (vsub (square_pt V b delta half sgn) V) <= 2 * (delta * delta).
Proof.
  intros [vx vy] [bx by_] delta c s sgn Hb Hc Hs Hsc Hsg half.
  assert (E : vlen2 (vsub (square_pt (vx, vy) (bx, by_) delta half sgn) (vx, vy)) = delta * delta + half * half).
  { unfold square_pt. vsimp.
    replace ((vx + delta * bx + sgn * half * - by_ - vx) * (vx + delta * bx + sgn * half * - by_ - vx) +
             (vy + delta * by_ + sgn * half * bx - vy) * (vy + delta * by_ + sgn * half * bx - vy))
      with ((delta * delta + (sgn * sgn) * (half * half)) * (bx * bx + by_ * by_)) by ring.
    rewrite Hb, Hsg. ring. }
  rewrite E.
  assert (Hq : 0 <= s / (1 + c) <= 1).
  { assert (s <= 1) by nra. split; [unfold Rdiv; apply Rmult_le_pos; [lra | left; apply Rinv_0_lt_compat; lra]|].
    apply (Rmult_le_reg_r (1 + c)); [lra|]. unfold Rdiv. rewrite Rmult_assoc, Rinv_l by lra. lra. }
  assert (Hh : half * half = delta * delta * ((s / (1 + c)) * (s / (1 + c)))).
  { unfold half. replace (Rabs delta * s / (1 + c)) with (Rabs delta * (s / (1 + c))) by (unfold Rdiv; ring).
    replace (Rabs delta * (s / (1 + c)) * (Rabs delta * (s / (1 + c)))) with ((Rabs delta * Rabs delta) * ((s / (1 + c)) * (s / (1 + c)))) by ring.
    rewrite <- Rabs_mult, Rabs_right by nra. reflexivity. }
  rewrite Hh. assert (0 <= delta * delta) by nra.
  assert (0 <= s / (1 + c) * (s / (1 + c)) <= 1) by nra. nra.
Qed.

(* the two cap vertices lie on the offset lines of the two incident edges.
   sg = +1 for delta > 0 (nNext counter-clockwise of nPrev), -1 for delta < 0:
   that is what the convexity test guarantees; it is expressed by the signs of
   the cross products of the unit bisector b with the normals. *)
Lemma square_cap_on_offset_lines : forall (V b nP nN : vec) (delta c s sg : R),
  0 < 1 + c -> s * s + c * c = 1 ->
  vdot b nP = c -> vdot b nN = c -> vcross b nP = - sg * s -> vcross b nN = sg * s ->
  sg * sg = 1 -> sg * delta = Rabs delta ->
  let half := Rabs delta * s / (1 + c) in
  vdot (vsub (square_pt V b delta half (-1)) V) nP = delta /\
  vdot (vsub (square_pt V b delta half 1) V) nN = delta.
Proof.
  intros [vx vy] [bx by_] [px py] [qx qy] delta c s sg Hc Hsc HbP HbN HxP HxN Hsg2 Hsg half.
  unfold square_pt. vsimp. unfold half. rewrite <- Hsg.
  assert (E1 : (vx + delta * bx + -1 * (sg * delta * s / (1 + c)) * - by_ - vx) * px +
               (vy + delta * by_ + -1 * (sg * delta * s / (1 + c)) * bx - vy) * py
               = delta * (bx * px + by_ * py) - (sg * delta * s / (1 + c)) * (bx * py - by_ * px)) by ring.
  assert (E2 : (vx + delta * bx + 1 * (sg * delta * s / (1 + c)) * - by_ - vx) * qx +
               (vy + delta * by_ + 1 * (sg * delta * s / (1 + c)) * bx - vy) * qy
               = delta * (bx * qx + by_ * qy) + (sg * delta * s / (1 + c)) * (bx * qy - by_ * qx)) by ring.
  rewrite E1, E2, HbP, HbN, HxP, HxN.
  assert (Hs2 : s * s = (1 - c) * (1 + c)) by lra.
  split.
  - replace (delta * c - sg * delta * s / (1 + c) * (- sg * s)) with (delta * c + (sg * sg) * delta * (s * s) / (1 + c)) by (field; lra).
    rewrite Hsg2, Hs2. field. lra.
  - replace (delta * c + sg * delta * s / (1 + c) * (sg * s)) with (delta * c + (sg * sg) * delta * (s * s) / (1 + c)) by (field; lra).
    rewrite Hsg2, Hs2. field. lra.
Qed.

(* ---- a join point projects beyond the end of the incident edge ---- *)
(* d: direction of the previous edge; its outward normal is (d.y, -d.x) (times 1/|d|).
   A round-join direction is that normal rotated by an angle in [0, pi]. *)
Lemma rot_normal_dot_dir : forall (d : vec) (a : R),
  vdot (rot (snd d, - fst d) a) d = vlen2 d * sin a.
Proof. intros [dx dy] a. vsimp. ring. Qed.

(* if u does not point back along the edge (delta * u.d >= 0), every point V - t d (t >= 0) of the
   edge's ray is at least as far from V + delta u as V itself is *)
Lemma beyond_ray : forall (u d : vec) (delta t : R),
  0 <= t -> 0 <= delta * vdot u d ->
  delta * delta * vlen2 u <= vlen2 (vadd (vscale delta u) (vscale t d)).
Proof.
  intros [ux uy] [dx dy] delta t Ht H. vsimp.
  replace ((delta * ux + t * dx) * (delta * ux + t * dx) + (delta * uy + t * dy) * (delta * uy + t * dy))
    with (delta * delta * (ux * ux + uy * uy) + 2 * t * (delta * (ux * dx + uy * dy)) + t * t * (dx * dx + dy * dy)) by ring.
  assert (0 <= t * (delta * (ux * dx + uy * dy))) by (apply Rmult_le_pos; assumption).
  assert (0 <= t * t * (dx * dx + dy * dy)) by nra. lra.
Qed.

(* consequently: a round-join vertex V + delta rot(nPrev, a), 0 <= a <= pi, delta > 0, is at
   distance exactly |delta| from the previous edge (its nearest point is V) *)
Lemma round_vertex_nearest_is_V : forall (V d : vec) (delta a t : R),
  vlen2 d = 1 -> 0 < delta -> 0 <= a <= PI -> 0 <= t ->
  delta * delta <= vlen2 (vsub (round_pt V (snd d, - fst d) delta a) (vsub V (vscale t d))).
Proof.
  intros [vx vy] [dx dy] delta a t Hd Hdl Ha Ht. cbn [fst snd].
  pose proof (beyond_ray (rot (dy, - dx) a) (dx, dy) delta t Ht) as B.
  pose proof (rot_normal_dot_dir (dx, dy) a) as Rn. cbn [fst snd] in Rn.
  assert (Hs : 0 <= sin a) by (apply sin_ge_0; lra).
  rewrite Rn, Hd in B. specialize (B ltac:(nra)).
  pose proof (rot_len2 (dy, - dx) a) as RL.
  assert (Hn : vlen2 (dy, - dx) = 1) by (unfold vlen2, vdot in *; cbn [fst snd] in *; lra).
  rewrite RL, Hn in B.
  replace (vsub (round_pt (vx, vy) (dy, - dx) delta a) (vsub (vx, vy) (vscale t (dx, dy))))
    with (vadd (vscale delta (rot (dy, - dx) a)) (vscale t (dx, dy))); [first [exact B | rewrite Rmult_1_r in B; exact B]|].
  unfold round_pt, vsub, vadd, vscale. cbn [fst snd]. f_equal; ring.
Qed.

(* ---- convex polygon: the rectangle swept by edge i stays inside the half-planes of the offset ring ---- *)
(* Y a point of the polygon, t in [0, delta] the distance moved along the unit normal ni.
   (1) against the offset line of edge j (unit normal nj through Vj): *)
Lemma swept_inside_offset_edge : forall (Y Vj ni nj : vec) (t delta : R),
  vlen2 ni = 1 -> vlen2 nj = 1 -> 0 <= t <= delta ->
  vdot (vsub Y Vj) nj <= 0 ->
  vdot (vsub (vadd Y (vscale t ni)) Vj) nj <= delta.
Proof.
  intros [yx yy] [vx vy] [ax ay] [bx by_] t delta Hi Hj Ht HY. vsimp.
  assert (CS : ax * bx + ay * by_ <= 1).
  { pose proof (Rle_0_sqr (ax - bx)) as S1. pose proof (Rle_0_sqr (ay - by_)) as S2. unfold Rsqr in S1, S2. nra. }
  replace ((yx + t * ax - vx) * bx + (yy + t * ay - vy) * by_)
    with (((yx - vx) * bx + (yy - vy) * by_) + t * (ax * bx + ay * by_)) by ring.
  assert (t * (ax * bx + ay * by_) <= t * 1) by (apply Rmult_le_compat_l; lra). lra.
Qed.

(* (2) against the chord of a round join at Vj between unit directions w1, w2: X is on the inner
   side of the chord iff (X - Vj).(w1 + w2) <= delta (1 + w1.w2).  The rectangle is inside when the
   polygon is inside the normal cone at Vj and ni is at least half a step away from the chord's
   direction, ni.(w1 + w2) <= 1 + w1.w2. *)
Lemma swept_inside_chord : forall (Y Vj ni w1 w2 : vec) (t delta : R),
  0 <= t <= delta -> 0 <= 1 + vdot w1 w2 ->
  vdot (vsub Y Vj) w1 <= 0 -> vdot (vsub Y Vj) w2 <= 0 ->
  vdot ni (vadd w1 w2) <= 1 + vdot w1 w2 ->
  vdot (vsub (vadd Y (vscale t ni)) Vj) (vadd w1 w2) <= delta * (1 + vdot w1 w2).
Proof.
  intros [yx yy] [vx vy] [ax ay] [px py] [qx qy] t delta Ht Hk H1 H2 Hs. vsimp.
  set (k := 1 + (px * qx + py * qy)) in *.
  replace ((yx + t * ax - vx) * (px + qx) + (yy + t * ay - vy) * (py + qy))
    with (((yx - vx) * px + (yy - vy) * py) + ((yx - vx) * qx + (yy - vy) * qy) + t * (ax * (px + qx) + ay * (py + qy))) by ring.
  assert (t * (ax * (px + qx) + ay * (py + qy)) <= delta * k).
  { destruct (Rle_dec 0 (ax * (px + qx) + ay * (py + qy))) as [Hp|Hn]; [nra|].
    assert (t * (ax * (px + qx) + ay * (py + qy)) <= 0) by nra. nra. }
  lra.
Qed.

(* the angular hypothesis of (2) holds for the two edges incident to the corner: with w0 the normal of
   the incident edge and the chord between rot(w0, a1) and rot(w0, a2), 0 <= a1, a2 <= pi *)
Lemma incident_edge_half_step : forall (w0 : vec) (a1 a2 : R),
  vlen2 w0 = 1 -> 0 <= a1 <= PI -> 0 <= a2 <= PI ->
  vdot w0 (vadd (rot w0 a1) (rot w0 a2)) <= 1 + vdot (rot w0 a1) (rot w0 a2).
Proof.
  intros [x y] a1 a2 H H1 H2.
  rewrite rot_dot, H. vsimp.
  replace (x * (x * cos a1 - y * sin a1 + (x * cos a2 - y * sin a2)) + y * (x * sin a1 + y * cos a1 + (x * sin a2 + y * cos a2)))
    with ((x * x + y * y) * (cos a1 + cos a2)) by ring.
  rewrite H, cos_minus.
  assert (0 <= sin a1) by (apply sin_ge_0; lra). assert (0 <= sin a2) by (apply sin_ge_0; lra).
  pose proof (COS_bound a1) as [_ C1]. pose proof (COS_bound a2) as [_ C2].
  assert (0 <= (1 - cos a1) * (1 - cos a2)) by (apply Rmult_le_pos; lra).
  assert (0 <= sin a1 * sin a2) by (apply Rmult_le_pos; assumption). nra.
Qed.
