(* C11 — the exact output checker `regular_check` / `formula_check`
   (definitions; soundness theorems are in Regular.v).  Everything is over
   integer coordinates (all doubles of one test scaled by a common power of two). *)
From Coq Require Import ZArith List Bool Orders Sorting.Mergesort.
From MV Require Import Geo.Wind2Defs.
Import ListNotations.
Local Open Scope Z_scope.

(* ---- declarative statements the checkers are proved against ---- *)

(* the point (k*a + s*(b-a))/k, 0<=s<=k, runs over the rational points of the
   closed segment a b;  the two segments have a common point that is not an
   endpoint of both (a proper crossing, a T-junction, or a collinear overlap) *)
Definition seg_conflict_decl (e f : seg) : Prop :=
  let (a, b) := e in let (c, d) := f in
  exists k s t : Z, 0 < k /\ 0 <= s <= k /\ 0 <= t <= k /\
    k * fst a + s * (fst b - fst a) = k * fst c + t * (fst d - fst c) /\
    k * snd a + s * (snd b - snd a) = k * snd c + t * (snd d - snd c) /\
    ~ ((s = 0 \/ s = k) /\ (t = 0 \/ t = k)).

(* every rational point of the closed segment e is farther than sqrt(E2) from p *)
Definition seg_far_decl (E2 : Z) (p : pt) (e : seg) : Prop :=
  let (a, b) := e in
  forall k s : Z, 0 < k -> 0 <= s <= k ->
    k * k * E2 <
    (k * fst p - (k * fst a + s * (fst b - fst a))) * (k * fst p - (k * fst a + s * (fst b - fst a))) +
    (k * snd p - (k * snd a + s * (snd b - snd a))) * (k * snd p - (k * snd a + s * (snd b - snd a))).

(* ---- segment bounding boxes ---- *)
Definition sxmin (e : seg) : Z := Z.min (fst (fst e)) (fst (snd e)).
Definition sxmax (e : seg) : Z := Z.max (fst (fst e)) (fst (snd e)).
Definition symin (e : seg) : Z := Z.min (snd (fst e)) (snd (snd e)).
Definition symax (e : seg) : Z := Z.max (snd (fst e)) (snd (snd e)).

Definition bbox_disjoint (e f : seg) : bool :=
  (sxmax e <? sxmin f) || (sxmax f <? sxmin e) || (symax e <? symin f) || (symax f <? symin e).

Definition conflict_b (e f : seg) : bool :=
  if bbox_disjoint e f then false else seg_conflict e f.

(* ---- all pairs by an x-sorted sweep ---- *)
Fixpoint sweep_inner (e : seg) (rest : list seg) : bool :=
  match rest with
  | [] => true
  | f :: r => if sxmax e <? sxmin f then true   (* sorted by sxmin: nothing further can reach e *)
              else negb (conflict_b e f) && sweep_inner e r
  end.
Fixpoint sweep_outer (l : list seg) : bool :=
  match l with
  | [] => true
  | e :: r => sweep_inner e r && sweep_outer r
  end.

Module SegOrder <: TotalLeBool.
  Definition t := seg.
  Definition leb (e f : seg) : bool := sxmin e <=? sxmin f.
  (* required by the functor signature of the standard library merge sort *)
  Theorem leb_total : forall x y, leb x y = true \/ leb y x = true.
  Proof. intros x y. unfold leb. destruct (Z.leb_spec (sxmin x) (sxmin y)); [left; reflexivity | right; apply Z.leb_le, Z.lt_le_incl; assumption]. Qed.
End SegOrder.
Module SegSort := Sort SegOrder.

Definition nondeg (e : seg) : bool := negb (pt_eqb (fst e) (snd e)).
Definition no_conflicts (es : list seg) : bool := forallb nondeg es && sweep_outer (SegSort.sort es).

(* ---- simple contours ---- *)
Fixpoint mem_pt (p : pt) (l : list pt) : bool :=
  match l with [] => false | q :: r => pt_eqb p q || mem_pt p r end.
Fixpoint nodupb (l : list pt) : bool :=
  match l with [] => true | p :: r => negb (mem_pt p r) && nodupb r end.
Definition contour_ok (c : contour) : bool := (3 <=? Z.of_nat (length c)) && nodupb c.

Definition wind01 (cs : list contour) (pts : list pt) : bool :=
  forallb (fun p => let w := wind2 cs p in (w =? 0) || (w =? 1)) pts.

(* The regularity test the property states: every contour simple (>= 3
   vertices, none repeated), no two edges of the whole set cross, overlap or
   meet anywhere but at common endpoints, winding number 0 or 1 at the samples. *)
Definition regular_check (cs : list contour) (pts : list pt) : bool :=
  forallb contour_ok cs && no_conflicts (all_edges cs) && wind01 cs pts.

(* ---- distance of a sample point from the input edges ---- *)
Definition dist2_gt (E2 : Z) (p : pt) (e : seg) : bool :=
  let (a, b) := e in
  let u := sub b a in let w := sub p a in
  let L := dot u u in let al := dot u w in
  if al <=? 0 then E2 <? dot w w
  else if L <=? al then (let w' := sub p b in E2 <? dot w' w')
  else E2 * L <? crs u w * crs u w.

Definition outside_box (E : Z) (p : pt) (e : seg) : bool :=
  (fst p + E <? sxmin e) || (sxmax e + E <? fst p) || (snd p + E <? symin e) || (symax e + E <? snd p).

(* farther than E (>= 0) from the closed segment *)
Definition far1 (E : Z) (p : pt) (e : seg) : bool :=
  if outside_box E p e then true else dist2_gt (E * E) p e.
Definition far_all (E : Z) (p : pt) (es : list seg) : bool := forallb (far1 E p) es.

(* ---- set formulas over operand contour sets ---- *)
Inductive fexpr :=
| FPos (cs : list contour)        (* positive fill: wind2 > 0 *)
| FOdd (cs : list contour)        (* even-odd fill: wind2 odd *)
| FNonZero (cs : list contour)    (* non-zero fill *)
| FOr (a b : fexpr) | FAnd (a b : fexpr) | FDiff (a b : fexpr) | FXor (a b : fexpr).

Fixpoint feval (e : fexpr) (p : pt) : bool :=
  match e with
  | FPos cs => 0 <? wind2 cs p
  | FOdd cs => Z.odd (wind2 cs p)
  | FNonZero cs => negb (wind2 cs p =? 0)
  | FOr a b => feval a p || feval b p
  | FAnd a b => feval a p && feval b p
  | FDiff a b => feval a p && negb (feval b p)
  | FXor a b => xorb (feval a p) (feval b p)
  end.

Fixpoint fedges (e : fexpr) : list seg :=
  match e with
  | FPos cs | FOdd cs | FNonZero cs => all_edges cs
  | FOr a b | FAnd a b | FDiff a b | FXor a b => fedges a ++ fedges b
  end.

(* at each sample farther than E from every input edge the result's winding
   number is 1 where the formula holds and 0 where it does not *)
Definition formula_ok (E : Z) (e : fexpr) (result : list contour) (p : pt) : bool :=
  if far_all E p (fedges e) then wind2 result p =? b2z (feval e p) else true.
Definition formula_check (E : Z) (e : fexpr) (result : list contour) (pts : list pt) : bool :=
  forallb (formula_ok E e result) pts.

(* number of sample points that were actually far (coverage report) *)
Definition count_far (E : Z) (e : fexpr) (pts : list pt) : Z :=
  zsum (map (fun p => b2z (far_all E p (fedges e))) pts).

(* pixel count of the result over pixel centres (exact regime) *)
Definition wind_sum (cs : list contour) (pts : list pt) : Z := zsum (map (wind2 cs) pts).
