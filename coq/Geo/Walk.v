(* Theorems about the loop-extraction model of WalkDefs.v
   (OutEdgesToPolygons / PushSimpleLoops of /repo/src/boolean2.cpp). *)
From Coq Require Import List Arith Bool ZArith Lia Permutation.
From MV Require Import Geo.WalkDefs.
Import ListNotations.

(* ====================================================================== *)
(* 1. The visited vector, seen as the list of unvisited ids.              *)

Fixpoint unv_from (i : nat) (vis : list bool) : list nat :=
  match vis with
  | [] => []
  | b :: t => if b then unv_from (S i) t else i :: unv_from (S i) t
  end.

Definition unv_ids (vis : list bool) : list nat := unv_from 0 vis.

Lemma unv_from_In : forall vis i e,
  In e (unv_from i vis) <-> exists k, e = i + k /\ nth_error vis k = Some false.
Proof.
  induction vis as [|b t IH]; intros i e; simpl.
  - split; [tauto|]. intros (k & _ & H). destruct k; discriminate.
  - destruct b; simpl.
    + rewrite IH. split; intros (k & -> & H).
      * exists (S k). split; [lia|exact H].
      * destruct k; simpl in H; [discriminate|]. exists k. split; [lia|exact H].
    + split.
      * intros [<-|H].
        -- exists 0. split; [lia|reflexivity].
        -- apply IH in H. destruct H as (k & -> & H).
           exists (S k). split; [lia|exact H].
      * intros (k & -> & H). destruct k.
        -- left. lia.
        -- right. apply IH. exists k. split; [lia|exact H].
Qed.

Lemma unv_ids_In : forall vis e,
  In e (unv_ids vis) <-> nth_error vis e = Some false.
Proof.
  intros vis e. unfold unv_ids. rewrite unv_from_In. split.
  - intros (k & -> & H). exact H.
  - intros H. exists e. split; [reflexivity|exact H].
Qed.

Lemma unv_from_NoDup : forall vis i, NoDup (unv_from i vis).
Proof.
  induction vis as [|b t IH]; intros i; simpl.
  - constructor.
  - destruct b; [apply IH|]. constructor; [|apply IH].
    intros H. apply unv_from_In in H. destruct H as (k & Hk & _). lia.
Qed.

Lemma unv_ids_NoDup : forall vis, NoDup (unv_ids vis).
Proof. intros. apply unv_from_NoDup. Qed.

Lemma unv_from_repeat : forall n i, unv_from i (repeat false n) = seq i n.
Proof. induction n; intros i; simpl; [reflexivity|]. f_equal. apply IHn. Qed.

Lemma is_visited_false : forall vis e,
  is_visited e vis = false <-> nth_error vis e = Some false.
Proof.
  unfold is_visited. induction vis as [|b t IH]; intros e.
  - destruct e; simpl; split; discriminate.
  - destruct e; simpl.
    + split; [intros ->; reflexivity|intros H; congruence].
    + apply IH.
Qed.

Lemma mark_length : forall vis c, length (mark c vis) = length vis.
Proof.
  induction vis as [|b t IH]; intros c; simpl; [reflexivity|].
  destruct c; simpl; [reflexivity|]. f_equal. apply IH.
Qed.

Lemma mark_nth_error : forall vis c e,
  nth_error (mark c vis) e = Some false <->
  e <> c /\ nth_error vis e = Some false.
Proof.
  induction vis as [|b t IH]; intros c e.
  - simpl. destruct e; simpl; split; try discriminate; intros [_ H]; discriminate.
  - destruct c, e; simpl.
    + split; [discriminate|]. intros [H _]. congruence.
    + split; [intros H; split; [lia|exact H]|intros [_ H]; exact H].
    + split; [intros H; split; [lia|exact H]|intros [_ H]; exact H].
    + rewrite IH. split; intros [H1 H2]; split; auto; lia.
Qed.

Lemma unv_ids_mark : forall vis c,
  nth_error vis c = Some false ->
  Permutation (unv_ids vis) (c :: unv_ids (mark c vis)).
Proof.
  intros vis c Hc. apply NoDup_Permutation.
  - apply unv_ids_NoDup.
  - constructor; [|apply unv_ids_NoDup].
    rewrite unv_ids_In, mark_nth_error. intros [H _]. congruence.
  - intros x. simpl. rewrite !unv_ids_In, mark_nth_error.
    destruct (Nat.eq_dec x c) as [->|Hn]; split; auto;
      intros [H|[_ H]]; [congruence|exact H].
Qed.

Lemma out_unv_from_In : forall edges vis i v e,
  In e (out_unv_from i edges vis v) <->
  exists k, e = i + k /\ nth_error vis k = Some false /\
            exists ed, nth_error edges k = Some ed /\ fst ed = v.
Proof.
  induction edges as [|ed0 es IH]; intros vis i v e.
  - simpl. split; [tauto|]. intros (k & _ & _ & ed & H & _).
    destruct k; discriminate.
  - destruct vis as [|b t].
    + simpl. split; [tauto|]. intros (k & _ & H & _). destruct k; discriminate.
    + assert (Hrec : In e (out_unv_from (S i) es t v) <->
               exists k, e = i + S k /\ nth_error (b :: t) (S k) = Some false /\
                 exists ed, nth_error (ed0 :: es) (S k) = Some ed /\ fst ed = v).
      { rewrite IH. simpl. split; intros (k & -> & H); exists k; (split; [lia|exact H]). }
      simpl out_unv_from.
      destruct (negb b && (fst ed0 =? v)) eqn:Hb.
      * apply andb_true_iff in Hb. destruct Hb as [Hb1 Hb2].
        apply negb_true_iff in Hb1. apply Nat.eqb_eq in Hb2. subst b.
        simpl In. rewrite Hrec. split.
        -- intros [<-|(k & Hk)].
           ++ exists 0. split; [lia|]. split; [reflexivity|].
              exists ed0. split; [reflexivity|exact Hb2].
           ++ exists (S k). exact Hk.
        -- intros (k & Hk). destruct k.
           ++ left. destruct Hk as [-> _]. lia.
           ++ right. exists k. exact Hk.
      * rewrite Hrec. split.
        -- intros (k & Hk). exists (S k). exact Hk.
        -- intros (k & Hk). destruct k.
           ++ exfalso. destruct Hk as (_ & H1 & ed & H2 & H3). simpl in H1, H2.
              injection H1 as ->. injection H2 as <-.
              apply Nat.eqb_eq in H3. rewrite H3 in Hb. discriminate.
           ++ exists k. exact Hk.
Qed.

Lemma out_unvisited_In : forall edges vis v e,
  length vis = length edges ->
  (In e (out_unvisited edges vis v) <->
   In e (unv_ids vis) /\ fst (edge_of edges e) = v).
Proof.
  intros edges vis v e Hlen. unfold out_unvisited, edge_of.
  rewrite out_unv_from_In, unv_ids_In. split.
  - intros (k & -> & H1 & ed & H2 & H3). simpl. split; [exact H1|].
    rewrite (nth_error_nth _ _ _ H2). exact H3.
  - intros [H1 H2]. exists e. split; [reflexivity|]. split; [exact H1|].
    exists (nth e edges (0, 0)). split; [|exact H2].
    apply nth_error_nth'. rewrite <- Hlen. apply nth_error_Some. congruence.
Qed.

(* ====================================================================== *)
(* 2. Degree counting on a list of edge ids.                              *)

Definition cnt (p : nat -> bool) (U : list nat) : nat := length (filter p U).

Lemma cnt_perm : forall p U U', Permutation U U' -> cnt p U = cnt p U'.
Proof.
  unfold cnt. induction 1; simpl; auto.
  - destruct (p x); simpl; congruence.
  - destruct (p x), (p y); reflexivity.
  - congruence.
Qed.

Lemma cnt_pos_ex : forall p U, 0 < cnt p U -> exists e, In e U /\ p e = true.
Proof.
  unfold cnt. intros p U H. destruct (filter p U) as [|e t] eqn:Hf.
  - simpl in H. lia.
  - assert (Hin : In e (filter p U)) by (rewrite Hf; left; reflexivity).
    apply filter_In in Hin. exists e. exact Hin.
Qed.

Section Degrees.
  Variable edges : list edge.

  Definition odeg (U : list nat) (v : nat) : nat :=
    cnt (fun e => fst (edge_of edges e) =? v) U.
  Definition ideg (U : list nat) (v : nat) : nat :=
    cnt (fun e => snd (edge_of edges e) =? v) U.

  Definition ind (a b : nat) : nat := if a =? b then 1 else 0.

  (* the walk invariant: s = start vertex, c = v0 of the current edge *)
  Definition inv (U : list nat) (s c : nat) : Prop :=
    forall v, ideg U v + ind v c = odeg U v + ind v s.

  Definition balancedU (U : list nat) : Prop :=
    forall v, ideg U v = odeg U v.

  Lemma inv_bal : forall U s, inv U s s <-> balancedU U.
  Proof.
    unfold inv, balancedU. intros U s. split; intros H v; specialize (H v); lia.
  Qed.

  Lemma inv_step : forall U U' s cur,
    Permutation U (cur :: U') ->
    inv U s (fst (edge_of edges cur)) ->
    inv U' s (snd (edge_of edges cur)).
  Proof.
    unfold inv, ideg, odeg, ind. intros U U' s cur HP H v. specialize (H v).
    rewrite (cnt_perm _ _ _ HP) in H.
    rewrite (cnt_perm (fun e => fst (edge_of edges e) =? v) _ _ HP) in H.
    unfold cnt in *. simpl in H.
    destruct (edge_of edges cur) as [c d]. simpl in *.
    destruct (Nat.eqb_spec d v), (Nat.eqb_spec c v), (Nat.eqb_spec v c),
      (Nat.eqb_spec v d), (Nat.eqb_spec v s); simpl in H; try lia; congruence.
  Qed.

  Lemma inv_candidate : forall U s d,
    inv U s d -> d <> s ->
    exists e, In e U /\ fst (edge_of edges e) = d.
  Proof.
    unfold inv, ind. intros U s d H Hd. specialize (H d).
    rewrite Nat.eqb_refl in H.
    destruct (Nat.eqb_spec d s); [contradiction|].
    destruct (cnt_pos_ex (fun e => fst (edge_of edges e) =? d) U) as (e & H1 & H2).
    { unfold odeg in H. lia. }
    exists e. split; [exact H1|]. apply Nat.eqb_eq. exact H2.
  Qed.
End Degrees.

(* ====================================================================== *)
(* 3. Chains of edges and cyclic pairs.                                   *)

Fixpoint chain_to (l : list edge) (endV : nat) : Prop :=
  match l with
  | [] => True
  | e :: t => snd e = hd endV (map fst t) /\ chain_to t endV
  end.

Lemma path_pairs_chain : forall l endV,
  chain_to l endV -> path_pairs (map fst l) endV = l.
Proof.
  induction l as [|e t IH]; intros endV H; simpl; [reflexivity|].
  destruct H as [H1 H2]. rewrite IH by exact H2. rewrite <- H1.
  destruct e; reflexivity.
Qed.

Lemma cyc_pairs_chain : forall l,
  chain_to l (hd 0 (map fst l)) -> cyc_pairs (map fst l) = l.
Proof.
  intros l H. destruct l as [|e t]; [reflexivity|].
  unfold cyc_pairs. simpl map. apply (path_pairs_chain (e :: t)). exact H.
Qed.

(* ====================================================================== *)
(* 4. The inner walk closes on a balanced remainder.                      *)

Definition pick_ok (pick : nat -> list nat -> nat) : Prop :=
  forall cur l, l <> [] -> In (pick cur l) l.

Section WalkProofs.
  Variable pick : nat -> list nat -> nat.
  Hypothesis Hpick : pick_ok pick.
  Variable edges : list edge.

  Let v0 (e : nat) : nat := fst (edge_of edges e).

  Lemma walk_closes : forall fuel vis s cur,
    length vis = length edges ->
    nth_error vis cur = Some false ->
    inv edges (unv_ids vis) s (v0 cur) ->
    length (unv_ids vis) <= fuel ->
    exists vs es vis',
      walk pick fuel edges vis s cur = Some (vs, es, vis', true) /\
      length vis' = length edges /\
      Permutation (unv_ids vis) (es ++ unv_ids vis') /\
      balancedU edges (unv_ids vis') /\
      hd_error es = Some cur /\
      vs = map v0 es /\
      chain_to (map (edge_of edges) es) s.
  Proof.
    induction fuel as [|f IH]; intros vis s cur Hlen Hcur Hinv Hfuel.
    - exfalso. apply unv_ids_In in Hcur.
      destruct (unv_ids vis); [contradiction|simpl in Hfuel; lia].
    - simpl walk.
      assert (Hv : is_visited cur vis = false) by (apply is_visited_false; exact Hcur).
      rewrite Hv.
      pose proof (unv_ids_mark vis cur Hcur) as HP.
      pose proof (inv_step edges _ _ s cur HP Hinv) as Hinv'.
      destruct (Nat.eqb_spec (snd (edge_of edges cur)) s) as [Heq|Hne].
      + exists [fst (edge_of edges cur)], [cur], (mark cur vis).
        split; [reflexivity|]. split; [rewrite mark_length; exact Hlen|].
        split; [exact HP|]. split; [apply (inv_bal edges _ s); rewrite <- Heq at 2; exact Hinv'|].
        split; [reflexivity|]. split; [reflexivity|].
        simpl. split; [exact Heq|exact I].
      + destruct (inv_candidate edges _ s _ Hinv' Hne) as (e0 & He0 & He0v).
        assert (Hlen' : length (mark cur vis) = length edges)
          by (rewrite mark_length; exact Hlen).
        destruct (out_unvisited edges (mark cur vis) (snd (edge_of edges cur)))
          as [|c cs] eqn:Hc.
        * exfalso.
          assert (Hin : In e0 (out_unvisited edges (mark cur vis) (snd (edge_of edges cur))))
            by (apply out_unvisited_In; auto).
          rewrite Hc in Hin. exact Hin.
        * set (nxt := pick cur (c :: cs)).
          assert (Hnin : In nxt (c :: cs)) by (apply Hpick; discriminate).
          rewrite <- Hc in Hnin. apply out_unvisited_In in Hnin; [|exact Hlen'].
          destruct Hnin as [Hn1 Hn2].
          destruct (IH (mark cur vis) s nxt Hlen') as
              (vs & es & vis' & Hw & Hl & HP' & Hbal & Hhd & Hvs & Hch).
          { apply unv_ids_In. exact Hn1. }
          { unfold v0. rewrite Hn2. exact Hinv'. }
          { apply Permutation_length in HP. simpl in HP. lia. }
          rewrite Hw.
          exists (fst (edge_of edges cur) :: vs), (cur :: es), vis'.
          split; [reflexivity|]. split; [exact Hl|].
          split.
          { eapply perm_trans; [exact HP|]. simpl. apply perm_skip. exact HP'. }
          split; [exact Hbal|]. split; [reflexivity|].
          split; [simpl; rewrite Hvs; reflexivity|].
          simpl. split; [|exact Hch].
          destruct es as [|e1 es']; [discriminate|].
          simpl in Hhd. injection Hhd as ->. simpl. symmetry. exact Hn2.
  Qed.

  Lemma unv_from_length : forall vis i, length (unv_from i vis) <= length vis.
  Proof.
    induction vis as [|b t IH]; intros i; simpl; [lia|].
    destruct b; simpl; specialize (IH (S i)); lia.
  Qed.

  Definition good_walk (w : walk_rec) : Prop :=
    walk_closed w = true /\
    walk_verts w = map v0 (walk_edges w) /\
    cyc_pairs (walk_verts w) = map (edge_of edges) (walk_edges w).

  Lemma walks_from_ok : forall starts vis,
    length vis = length edges ->
    balancedU edges (unv_ids vis) ->
    exists ws vis',
      walks_from pick edges starts vis = Some ws /\
      length vis' = length edges /\
      Permutation (unv_ids vis) (concat (map walk_edges ws) ++ unv_ids vis') /\
      (forall e, In e starts -> ~ In e (unv_ids vis')) /\
      Forall good_walk ws.
  Proof.
    induction starts as [|s rest IH]; intros vis Hlen Hbal.
    - exists [], vis. simpl. repeat split; auto.
    - cbn [walks_from]. destruct (is_visited s vis) eqn:Hv.
      + destruct (IH vis Hlen Hbal) as (ws & vis' & Hw & Hl & HP & Hst & Hgood).
        exists ws, vis'. repeat split; auto.
        intros e [<-|He]; [|apply Hst; exact He].
        intros Hin.
        assert (Hin' : In s (unv_ids vis)).
        { eapply Permutation_in; [apply Permutation_sym; exact HP|].
          apply in_or_app. right. exact Hin. }
        apply unv_ids_In, is_visited_false in Hin'. congruence.
      + apply is_visited_false in Hv.
        destruct (walk_closes (S (length edges)) vis (v0 s) s Hlen Hv)
          as (vs & es & vis1 & Hw & Hl1 & HP1 & Hbal1 & Hhd & Hvs & Hch).
        { apply inv_bal. exact Hbal. }
        { pose proof (unv_from_length vis 0) as H. unfold unv_ids. lia. }
        change (fst (edge_of edges s)) with (v0 s). rewrite Hw.
        destruct (IH vis1 Hl1 Hbal1) as (ws & vis' & Hw' & Hl & HP & Hst & Hgood).
        rewrite Hw'.
        exists ((vs, es, true) :: ws), vis'.
        split; [reflexivity|]. split; [exact Hl|].
        split.
        { simpl. unfold walk_edges at 1. simpl. rewrite <- app_assoc.
          eapply perm_trans; [exact HP1|]. apply Permutation_app_head. exact HP. }
        split.
        { intros e [<-|He]; [|apply Hst; exact He].
          intros Hin.
          assert (Hin1 : In s (unv_ids vis1)).
          { eapply Permutation_in; [apply Permutation_sym; exact HP|].
            apply in_or_app. right. exact Hin. }
          pose proof (unv_ids_NoDup vis) as Hnd.
          apply (Permutation_NoDup HP1) in Hnd.
          destruct es as [|e1 es']; [discriminate|].
          simpl in Hhd. injection Hhd as ->.
          simpl in Hnd. apply NoDup_cons_iff in Hnd. destruct Hnd as [Hnd _].
          apply Hnd. apply in_or_app. right. exact Hin1. }
        constructor; [|exact Hgood].
        unfold good_walk, walk_closed, walk_verts, walk_edges. simpl.
        split; [reflexivity|]. split; [exact Hvs|].
        rewrite Hvs. unfold v0. rewrite <- (map_map (edge_of edges) fst).
        apply cyc_pairs_chain.
        destruct es as [|e1 es']; [discriminate|].
        simpl in Hhd. injection Hhd as ->. exact Hch.
  Qed.
End WalkProofs.

(* ====================================================================== *)
(* 5. Main theorem on walks.                                              *)

(* every vertex has as many incoming as outgoing edges *)
Definition balanced (edges : list edge) : Prop :=
  forall v, length (filter (fun e => snd e =? v) edges) =
            length (filter (fun e => fst e =? v) edges).

Lemma map_edge_of_seq : forall edges,
  map (edge_of edges) (seq 0 (length edges)) = edges.
Proof.
  unfold edge_of. induction edges as [|e t IH]; simpl; [reflexivity|].
  f_equal. rewrite <- seq_shift, map_map. exact IH.
Qed.

Lemma length_filter_map : forall (A B : Type) (f : A -> B) p l,
  length (filter (fun x => p (f x)) l) = length (filter p (map f l)).
Proof.
  induction l as [|x t IH]; simpl; [reflexivity|].
  destruct (p (f x)); simpl; congruence.
Qed.

Lemma balanced_balancedU : forall edges,
  balanced edges -> balancedU edges (seq 0 (length edges)).
Proof.
  intros edges H v. unfold ideg, odeg, cnt.
  rewrite (length_filter_map _ _ (edge_of edges) (fun e => snd e =? v)).
  rewrite (length_filter_map _ _ (edge_of edges) (fun e => fst e =? v)).
  rewrite map_edge_of_seq. apply H.
Qed.

(* For every oracle that returns one of its candidates and every balanced
   graph (self-loop edges v0 = v1 allowed, no hypothesis on them needed):
   the outer loop terminates within the fuel S (length edges) given to each
   walk, every walk is closed, every edge id is used exactly once, and the
   cyclic consecutive vertex pairs of the walks are exactly the edges. *)
Theorem balanced_walks_close :
  forall pick, pick_ok pick ->
  forall edges, balanced edges ->
  exists ws,
    walks_full pick edges = Some ws /\
    (forall w, In w ws ->
       walk_closed w = true /\
       walk_verts w = map (fun e => fst (edge_of edges e)) (walk_edges w) /\
       cyc_pairs (walk_verts w) = map (edge_of edges) (walk_edges w)) /\
    Permutation (concat (map walk_edges ws)) (seq 0 (length edges)) /\
    Permutation (concat (map (fun w => cyc_pairs (walk_verts w)) ws)) edges.
Proof.
  intros pick Hpick edges Hbal. unfold walks_full.
  destruct (walks_from_ok pick Hpick edges (seq 0 (length edges))
                          (repeat false (length edges)))
    as (ws & vis' & Hw & Hl & HP & Hst & Hgood).
  { apply repeat_length. }
  { unfold unv_ids. rewrite unv_from_repeat. apply balanced_balancedU. exact Hbal. }
  unfold unv_ids in HP at 1. rewrite unv_from_repeat in HP.
  assert (Hnil : unv_ids vis' = []).
  { assert (Hnone : forall e, ~ In e (unv_ids vis')).
    { intros e Hin. apply (Hst e); [|exact Hin].
      apply in_seq. apply unv_ids_In in Hin.
      assert (e < length vis') by (apply nth_error_Some; congruence). lia. }
    destruct (unv_ids vis') as [|e t]; [reflexivity|]. exfalso.
    apply (Hnone e). left. reflexivity. }
  rewrite Hnil, app_nil_r in HP.
  assert (HP' : Permutation (concat (map walk_edges ws)) (seq 0 (length edges)))
    by (apply Permutation_sym; exact HP).
  exists ws. split; [exact Hw|].
  rewrite Forall_forall in Hgood.
  split; [intros w Hin; apply (Hgood w Hin)|].
  split; [exact HP'|].
  apply perm_trans with (map (edge_of edges) (seq 0 (length edges)));
    [|rewrite map_edge_of_seq; apply Permutation_refl].
  eapply perm_trans; [|apply Permutation_map; exact HP'].
  rewrite concat_map, map_map.
  assert (Heq : map (fun w => cyc_pairs (walk_verts w)) ws =
                map (fun w => map (edge_of edges) (walk_edges w)) ws).
  { apply map_ext_in. intros w Hin. apply (Hgood w Hin). }
  rewrite Heq. apply Permutation_refl.
Qed.

Corollary balanced_no_dropped_walk :
  forall pick, pick_ok pick ->
  forall edges, balanced edges -> dropped_walks pick edges = Some [].
Proof.
  intros pick Hpick edges Hbal.
  destruct (balanced_walks_close pick Hpick edges Hbal) as (ws & Hw & Hall & _).
  unfold dropped_walks. rewrite Hw. f_equal.
  assert (Hf : filter (fun w => negb (walk_closed w)) ws = []).
  { clear Hw. induction ws as [|w t IH]; [reflexivity|]. simpl.
    destruct (Hall w (or_introl eq_refl)) as [-> _]. simpl.
    apply IH. intros w' Hin. apply Hall. right. exact Hin. }
  rewrite Hf. reflexivity.
Qed.

Corollary balanced_walks_of :
  forall pick, pick_ok pick ->
  forall edges, balanced edges ->
  exists ws, walks_of pick edges = Some ws /\
             forall w, In w ws -> snd w = true.
Proof.
  intros pick Hpick edges Hbal.
  destruct (balanced_walks_close pick Hpick edges Hbal) as (ws & Hw & Hall & _).
  unfold walks_of. rewrite Hw. eexists. split; [reflexivity|].
  intros w Hin. apply in_map_iff in Hin. destruct Hin as (w0 & <- & Hin).
  simpl. apply (Hall w0 Hin).
Qed.

(* ====================================================================== *)
(* 6. PushSimpleLoops.                                                    *)

Lemma split_at_some : forall x l a b,
  split_at x l = Some (a, b) -> l = a ++ x :: b.
Proof.
  induction l as [|y t IH]; intros a b H; simpl in H; [discriminate|].
  destruct (Nat.eqb_spec x y) as [->|Hn].
  - injection H as <- <-. reflexivity.
  - destruct (split_at x t) as [[a0 b0]|]; [|discriminate].
    injection H as <- <-. simpl. f_equal. apply IH. reflexivity.
Qed.

Lemma split_at_none : forall x l, split_at x l = None -> ~ In x l.
Proof.
  induction l as [|y t IH]; intros H; simpl in *; [tauto|].
  destruct (Nat.eqb_spec x y) as [->|Hn]; [discriminate|].
  destruct (split_at x t) as [[a0 b0]|]; [discriminate|].
  intros [Hy|Hin]; [congruence|]. apply IH; auto.
Qed.

Lemma NoDup_snoc : forall (x : nat) l, NoDup l -> ~ In x l -> NoDup (l ++ [x]).
Proof.
  intros x l Hnd Hn. apply (Permutation_NoDup (Permutation_cons_append l x)).
  constructor; assumption.
Qed.

Lemma NoDup_app_r : forall (l l' : list nat), NoDup (l ++ l') -> NoDup l'.
Proof.
  induction l as [|x t IH]; intros l' H; simpl in H; [exact H|].
  inversion H; subst. apply IH. assumption.
Qed.

Lemma first_repeat_some : forall l pre a piece rest,
  first_repeat pre l = Some (a, piece, rest) -> NoDup pre ->
  exists x b t, piece = x :: b /\ rest = x :: t /\
                pre ++ l = a ++ (x :: b) ++ (x :: t) /\ NoDup piece.
Proof.
  induction l as [|x t IH]; intros pre a piece rest H Hnd; simpl in H;
    [discriminate|].
  destruct (split_at x pre) as [[a0 b0]|] eqn:Hs.
  - injection H as <- <- <-. apply split_at_some in Hs. subst pre.
    exists x, b0, t. repeat split; auto.
    + rewrite <- app_assoc. reflexivity.
    + apply NoDup_app_r in Hnd. exact Hnd.
  - apply split_at_none in Hs.
    destruct (IH _ _ _ _ H (NoDup_snoc x pre Hnd Hs)) as (y & b & t' & H1 & H2 & H3 & H4).
    exists y, b, t'. repeat split; auto.
    rewrite <- H3, <- app_assoc. reflexivity.
Qed.

Lemma first_repeat_none : forall l pre,
  first_repeat pre l = None -> NoDup pre -> NoDup (pre ++ l).
Proof.
  induction l as [|x t IH]; intros pre H Hnd; simpl in H.
  - rewrite app_nil_r. exact Hnd.
  - destruct (split_at x pre) as [[a0 b0]|] eqn:Hs; [discriminate|].
    apply split_at_none in Hs.
    specialize (IH _ H (NoDup_snoc x pre Hnd Hs)).
    rewrite <- app_assoc in IH. exact IH.
Qed.

Lemma path_pairs_app : forall l1 l2 e,
  path_pairs (l1 ++ l2) e = path_pairs l1 (hd e l2) ++ path_pairs l2 e.
Proof.
  induction l1 as [|x t IH]; intros l2 e; simpl; [reflexivity|].
  rewrite IH. f_equal. destruct t; reflexivity.
Qed.

Lemma cyc_pairs_app_cons : forall a x r,
  cyc_pairs (a ++ x :: r) = path_pairs a x ++ path_pairs (x :: r) (hd x a).
Proof.
  intros a x r. destruct a as [|y a']; [reflexivity|].
  unfold cyc_pairs. simpl app.
  apply (path_pairs_app (y :: a') (x :: r) y).
Qed.

Lemma cyc_pairs_cut : forall a x b t,
  Permutation (cyc_pairs (x :: b) ++ cyc_pairs (a ++ x :: t))
              (cyc_pairs (a ++ (x :: b) ++ (x :: t))).
Proof.
  intros a x b t.
  change (a ++ (x :: b) ++ x :: t) with (a ++ x :: (b ++ x :: t)).
  rewrite !cyc_pairs_app_cons.
  change (x :: b ++ x :: t) with ((x :: b) ++ (x :: t)).
  rewrite path_pairs_app. simpl hd.
  change (cyc_pairs (x :: b)) with (path_pairs (x :: b) x).
  apply Permutation_app_swap_app.
Qed.

Lemma push_all_ok : forall fuel w,
  length w < fuel ->
  exists ps,
    push_simple_loops_all fuel w = Some ps /\
    Forall (@NoDup nat) ps /\
    Permutation (concat ps) w /\
    Permutation (concat (map cyc_pairs ps)) (cyc_pairs w).
Proof.
  induction fuel as [|f IH]; intros w Hlen; [lia|].
  simpl. destruct (first_repeat [] w) as [[[a piece] rest]|] eqn:Hf.
  - destruct (first_repeat_some _ _ _ _ _ Hf (NoDup_nil nat))
      as (x & b & t & -> & -> & Hw & Hnd).
    simpl in Hw. subst w.
    destruct (IH (a ++ x :: t)) as (ps & Hps & Hall & HP1 & HP2).
    { rewrite !app_length in Hlen. simpl in Hlen. rewrite app_length in *.
      simpl in *. lia. }
    rewrite Hps. exists ((x :: b) :: ps).
    split; [reflexivity|]. split; [constructor; assumption|]. split.
    + apply perm_trans with ((x :: b) ++ (a ++ x :: t)).
      * apply (Permutation_app_head (x :: b)). exact HP1.
      * apply (Permutation_app_swap_app (x :: b) a (x :: t)).
    + apply perm_trans with (cyc_pairs (x :: b) ++ cyc_pairs (a ++ x :: t)).
      * apply (Permutation_app_head (cyc_pairs (x :: b))). exact HP2.
      * apply cyc_pairs_cut.
  - exists [w]. split; [reflexivity|].
    apply first_repeat_none in Hf; [|constructor]. simpl in Hf.
    split; [constructor; [exact Hf|constructor]|].
    simpl. rewrite !app_nil_r. split; apply Permutation_refl.
Qed.

Lemma cyc_pairs_1 : forall a, cyc_pairs [a] = [(a, a)].
Proof. reflexivity. Qed.

Lemma cyc_pairs_2 : forall a b, cyc_pairs [a; b] = [(a, b); (b, a)].
Proof. reflexivity. Qed.

(* counting directed pairs *)
Lemma count_pair_perm : forall p l l',
  Permutation l l' -> count_pair p l = count_pair p l'.
Proof.
  unfold count_pair. induction 1; simpl; auto.
  - destruct (edge_eqb p x); simpl; congruence.
  - destruct (edge_eqb p x), (edge_eqb p y); reflexivity.
  - congruence.
Qed.

Lemma count_pair_app : forall p l l',
  count_pair p (l ++ l') = count_pair p l + count_pair p l'.
Proof.
  unfold count_pair. intros. rewrite filter_app, app_length. reflexivity.
Qed.

Lemma coefc_app : forall l l' a b,
  coefc (l ++ l') a b = (coefc l a b + coefc l' a b)%Z.
Proof. unfold coefc. intros. rewrite !count_pair_app. lia. Qed.

Lemma coefc_perm : forall l l' a b,
  Permutation l l' -> coefc l a b = coefc l' a b.
Proof.
  unfold coefc. intros l l' a b H.
  rewrite (count_pair_perm _ _ _ H), (count_pair_perm (b, a) _ _ H). reflexivity.
Qed.

(* a piece with fewer than 3 vertices is zero in the chain group *)
Lemma coefc_degenerate : forall l a b,
  nondegenerate l = false -> coefc (cyc_pairs l) a b = 0%Z.
Proof.
  intros l a b H. unfold nondegenerate in H.
  destruct l as [|x [|y [|z t]]]; simpl in H; try discriminate.
  - reflexivity.
  - unfold coefc, count_pair, edge_eqb. simpl.
    rewrite (andb_comm (b =? x)). lia.
  - unfold coefc, count_pair, edge_eqb. simpl.
    destruct (a =? x), (b =? y), (a =? y), (b =? x); reflexivity.
Qed.

Lemma coefc_filter_nondegenerate : forall ps a b,
  coefc (concat (map cyc_pairs (filter nondegenerate ps))) a b =
  coefc (concat (map cyc_pairs ps)) a b.
Proof.
  induction ps as [|l t IH]; intros a b; simpl; [reflexivity|].
  destruct (nondegenerate l) eqn:Hl; simpl; rewrite !coefc_app, IH.
  - reflexivity.
  - rewrite (coefc_degenerate l a b Hl). lia.
Qed.

(* PushSimpleLoops terminates with fuel S (length w); [all] is the list of
   all cut pieces (the remainder last), of which the C++ keeps those with at
   least 3 vertices.
   - every kept loop is duplicate-free (a simple vertex cycle) with >= 3
     vertices;
   - the pieces partition the vertex occurrences of w;
   - the cyclic consecutive pairs of ALL pieces are a permutation of those
     of w;
   - a dropped piece is [], [a] (pair a->a) or [a;b] (pairs a->b, b->a); so
   - the signed chain of the KEPT loops equals the signed chain of w. *)
Theorem push_simple_loops_sound : forall w,
  exists all,
    push_simple_loops_all (S (length w)) w = Some all /\
    push_simple_loops (S (length w)) w = Some (filter nondegenerate all) /\
    push_simple_loops_dropped (S (length w)) w =
      Some (filter (fun l => negb (nondegenerate l)) all) /\
    (forall l, In l all -> NoDup l) /\
    (forall l, In l (filter nondegenerate all) -> NoDup l /\ 3 <= length l) /\
    Permutation (concat all) w /\
    Permutation (concat (map cyc_pairs all)) (cyc_pairs w) /\
    (forall l, In l (filter (fun l => negb (nondegenerate l)) all) ->
       l = [] \/ (exists a, l = [a] /\ cyc_pairs l = [(a, a)]) \/
       (exists a b, l = [a; b] /\ cyc_pairs l = [(a, b); (b, a)])) /\
    (forall a b,
       coefc (concat (map cyc_pairs (filter nondegenerate all))) a b =
       coefc (cyc_pairs w) a b).
Proof.
  intros w.
  destruct (push_all_ok (S (length w)) w (Nat.lt_succ_diag_r _))
    as (ps & Hps & Hnd & HP1 & HP2).
  rewrite Forall_forall in Hnd.
  exists ps. unfold push_simple_loops, push_simple_loops_dropped. rewrite Hps.
  split; [reflexivity|]. split; [reflexivity|]. split; [reflexivity|].
  split; [exact Hnd|]. split.
  { intros l Hin. apply filter_In in Hin. destruct Hin as [Hin Hl].
    split; [apply Hnd; exact Hin|]. apply Nat.leb_le. exact Hl. }
  split; [exact HP1|]. split; [exact HP2|]. split.
  { intros l Hin. apply filter_In in Hin. destruct Hin as [_ Hl].
    apply negb_true_iff in Hl. unfold nondegenerate in Hl.
    destruct l as [|x [|y [|z t]]]; simpl in Hl; try discriminate.
    - left. reflexivity.
    - right. left. exists x. split; reflexivity.
    - right. right. exists x, y. split; reflexivity. }
  intros a b. rewrite coefc_filter_nondegenerate. apply coefc_perm. exact HP2.
Qed.

(* ====================================================================== *)
(* 7. End to end: walks + PushSimpleLoops.                                *)

Lemma concat_map_app : forall (A B : Type) (f : A -> list B) l1 l2,
  concat (map f (l1 ++ l2)) = concat (map f l1) ++ concat (map f l2).
Proof. intros. rewrite map_app, concat_app. reflexivity. Qed.

Lemma loops_of_walks_ok : forall ws,
  (forall w, In w ws -> walk_closed w = true) ->
  exists ls,
    loops_of_walks ws = Some ls /\
    (forall l, In l ls -> NoDup l /\ 3 <= length l) /\
    (forall a b,
       coefc (concat (map cyc_pairs ls)) a b =
       coefc (concat (map (fun w => cyc_pairs (walk_verts w)) ws)) a b).
Proof.
  induction ws as [|w rest IH]; intros Hcl.
  - exists []. split; [reflexivity|]. split; [intros l []|].
    intros a b. reflexivity.
  - destruct IH as (ls' & Hls' & Hnd' & Hco').
    { intros w' Hin. apply Hcl. right. exact Hin. }
    cbn [loops_of_walks]. rewrite (Hcl w (or_introl eq_refl)). cbn [andb].
    destruct (3 <=? length (walk_verts w)) eqn:Hlen.
    + destruct (push_simple_loops_sound (walk_verts w))
        as (all & _ & Hp & _ & _ & Hkept & _ & _ & _ & Hco).
      rewrite Hp, Hls'. eexists. split; [reflexivity|]. split.
      * intros l Hin. apply in_app_or in Hin. destruct Hin as [Hin|Hin];
          [apply Hkept|apply Hnd']; exact Hin.
      * intros a b. rewrite concat_map_app, coefc_app. simpl map. simpl concat.
        rewrite coefc_app, Hco, Hco'. reflexivity.
    + rewrite Hls'. exists ls'. split; [reflexivity|]. split; [exact Hnd'|].
      intros a b. simpl map. simpl concat. rewrite coefc_app, Hco'.
      rewrite (coefc_degenerate (walk_verts w) a b Hlen). reflexivity.
Qed.

(* For a balanced graph and any admissible oracle, OutEdgesToPolygons (on
   vertex ids) returns simple loops (no repeated vertex, >= 3 vertices) whose
   signed chain equals the signed chain of the input edges: for every ordered
   pair (a,b), #(a->b) - #(b->a) over the cyclic consecutive pairs of the
   loops equals #(a->b) - #(b->a) over the edges. *)
Theorem out_edges_to_loops_sound :
  forall pick, pick_ok pick ->
  forall edges, balanced edges ->
  exists ls,
    out_edges_to_loops pick edges = Some ls /\
    (forall l, In l ls -> NoDup l /\ 3 <= length l) /\
    (forall a b, coefc (concat (map cyc_pairs ls)) a b = coefc edges a b).
Proof.
  intros pick Hpick edges Hbal.
  destruct (balanced_walks_close pick Hpick edges Hbal)
    as (ws & Hw & Hall & _ & HP).
  destruct (loops_of_walks_ok ws) as (ls & Hls & Hnd & Hco).
  { intros w Hin. apply (Hall w Hin). }
  unfold out_edges_to_loops. rewrite Hw. exists ls.
  split; [exact Hls|]. split; [exact Hnd|].
  intros a b. rewrite Hco. apply coefc_perm. exact HP.
Qed.

(* ====================================================================== *)
(* 8. The concrete CCW oracle returns one of its candidates.              *)

Lemma ccw_scan_some : forall verts edges vp ref l n bd,
  exists n' bd',
    ccw_scan verts edges vp ref (Some (n, bd)) l = Some (n', bd') /\
    (n' = n \/ In n' l).
Proof.
  induction l as [|e t IH]; intros n bd; simpl.
  - exists n, bd. split; [reflexivity|left; reflexivity].
  - destruct (ccw_turn_less ref _ e bd n).
    + destruct (IH e (zsub (verts (snd (edge_of edges e))) vp))
        as (n' & bd' & H1 & H2).
      exists n', bd'. split; [exact H1|]. right. destruct H2; [left; auto|right; auto].
    + destruct (IH n bd) as (n' & bd' & H1 & H2).
      exists n', bd'. split; [exact H1|]. destruct H2; [left; auto|right; right; auto].
Qed.

Lemma pick_ccw_in : forall verts edges cur candidates,
  candidates <> [] -> In (pick_ccw verts edges cur candidates) candidates.
Proof.
  intros verts edges cur l Hl. destruct l as [|e t]; [contradiction|].
  unfold pick_ccw. simpl ccw_scan.
  match goal with |- context [ccw_scan ?v ?ed ?vp ?rf (Some (e, ?d)) t] =>
    destruct (ccw_scan_some v ed vp rf t e d) as (n' & bd' & H1 & H2) end.
  rewrite H1. destruct H2 as [->|H2]; [left; reflexivity|right; exact H2].
Qed.

Lemma pick_ccw_ok : forall verts edges, pick_ok (pick_ccw verts edges).
Proof. intros verts edges cur l. apply pick_ccw_in. Qed.

(* ====================================================================== *)
(* 9. Examples.                                                           *)

Definition pick_hd (cur : nat) (l : list nat) : nat := hd 0 l.
Definition pick_last (cur : nat) (l : list nat) : nat := last l 0.

(* two triangles 1-2-0 and 0-3-4 sharing vertex 0, first edge not at 0 *)
Definition fig8 : list edge := [(1,2);(2,0);(0,1);(0,3);(3,4);(4,0)].
Definition fig8_pts : list (Z * Z) :=
  [(0,0); (-2,1); (-2,-1); (2,-1); (2,1)]%Z.

Lemma pick_hd_ok : pick_ok pick_hd.
Proof. intros cur l H. destruct l; [contradiction|left; reflexivity]. Qed.

Lemma pick_last_ok : pick_ok pick_last.
Proof.
  intros cur l H. unfold pick_last.
  destruct (exists_last H) as (l' & a & ->). rewrite last_last.
  apply in_or_app. right. left. reflexivity.
Qed.

(* oracle "first candidate": the walk started at vertex 1 closes as soon as it
   returns to 1, giving two triangular walks (verts, edge ids, closed) *)
Example fig8_walks_hd :
  walks_full pick_hd fig8 =
  Some [([1; 2; 0], [0; 1; 2], true); ([0; 3; 4], [3; 4; 5], true)].
Proof. vm_compute. reflexivity. Qed.

(* oracle "last candidate": one figure-eight walk through vertex 0 twice *)
Example fig8_walks_last :
  walks_full pick_last fig8 =
  Some [([1; 2; 0; 3; 4; 0], [0; 1; 3; 4; 5; 2], true)].
Proof. vm_compute. reflexivity. Qed.

Example fig8_loops_hd :
  out_edges_to_loops pick_hd fig8 = Some [[1; 2; 0]; [0; 3; 4]].
Proof. vm_compute. reflexivity. Qed.

(* PushSimpleLoops cuts the figure eight at the repeated vertex 0 *)
Example fig8_loops_last :
  out_edges_to_loops pick_last fig8 = Some [[0; 3; 4]; [1; 2; 0]].
Proof. vm_compute. reflexivity. Qed.

Example fig8_push_simple_loops :
  push_simple_loops 7 [1; 2; 0; 3; 4; 0] = Some [[0; 3; 4]; [1; 2; 0]].
Proof. vm_compute. reflexivity. Qed.

(* the integer CCW oracle: arriving at (0,0) from (-2,-1) the smallest CCW
   turn is towards (2,-1), so the walk is the figure eight *)
Example fig8_walks_z :
  walks_z fig8_pts fig8 = Some [([1; 2; 0; 3; 4; 0], true)].
Proof. vm_compute. reflexivity. Qed.

Example fig8_polygons_z :
  out_edges_to_polygons_z fig8_pts fig8 =
  Some [[(0, 0); (2, -1); (2, 1)]; [(-2, 1); (-2, -1); (0, 0)]]%Z.
Proof. vm_compute. reflexivity. Qed.

(* an UNBALANCED graph: the walk 0->1->2 gets stuck at 2, is not closed, and
   is dropped: no loop is emitted (silently in a release build) *)
Example unbalanced_walk_not_closed :
  walks_full pick_hd [(0, 1); (1, 2)] = Some [([0; 1], [0; 1], false)] /\
  dropped_walks pick_hd [(0, 1); (1, 2)] = Some [[0; 1]] /\
  out_edges_to_loops pick_hd [(0, 1); (1, 2)] = Some [].
Proof. vm_compute. repeat split; reflexivity. Qed.

(* a closed triangle plus a dangling edge: the triangle is kept, the dangling
   edge (3,4) is a dropped non-closed walk *)
Example unbalanced_dangling_edge :
  dropped_walks pick_hd [(0, 1); (1, 2); (2, 0); (3, 4)] = Some [[3]] /\
  out_edges_to_loops pick_hd [(0, 1); (1, 2); (2, 0); (3, 4)] = Some [[0; 1; 2]].
Proof. vm_compute. repeat split; reflexivity. Qed.

(* degenerate pieces: the spike 0-1-2-1-0 is cut into [1;2] and [0;1], both
   dropped (each contributes a->b and b->a); only [0;3;4] is kept *)
Example push_simple_loops_spike :
  push_simple_loops_all 8 [0; 1; 2; 1; 0; 3; 4] =
    Some [[1; 2]; [0; 1]; [0; 3; 4]] /\
  push_simple_loops 8 [0; 1; 2; 1; 0; 3; 4] = Some [[0; 3; 4]] /\
  push_simple_loops_dropped 8 [0; 1; 2; 1; 0; 3; 4] = Some [[1; 2]; [0; 1]].
Proof. vm_compute. repeat split; reflexivity. Qed.

(* ====================================================================== *)
Print Assumptions balanced_walks_close.
Print Assumptions balanced_no_dropped_walk.
Print Assumptions balanced_walks_of.
Print Assumptions push_simple_loops_sound.
Print Assumptions out_edges_to_loops_sound.
Print Assumptions pick_ccw_in.
