(* C12 — the ported HullImpl returns the convex hull: assembly of the lower
   and upper chains (Hull2Chain.v) into hull_spec (Hull2.v), for every input. *)
From Coq Require Import ZArith List Bool Lia Sorted Permutation.
From MV Require Import Geo.Wind2Defs Geo.Wind2 Geo.Hull2Defs Geo.Hull2Geom Geo.Hull2Chain Geo.Hull2.
Import ListNotations.
Local Open Scope Z_scope.

(* ---- generic facts about convex chains (top first, lexicographically descending) ---- *)
Lemma adj_neq : forall st, left_turns st -> forall l1 x y l2,
  st = l1 ++ x :: y :: l2 -> (l1 <> [] \/ l2 <> []) -> x <> y.
Proof.
  induction st as [|w st IH]; intros LT l1 x y l2 E H.
  - destruct l1; discriminate.
  - destruct l1 as [|w1 l1].
    + cbn in E. inversion E; subst. destruct H as [H|H]; [contradiction|].
      destruct l2 as [|z l2]; [contradiction|]. cbn [left_turns] in LT. destruct LT as [T _].
      intro; subst. rewrite orient_abb in T. lia.
    + cbn in E. inversion E; subst. destruct l1 as [|w2 l1].
      * cbn [app left_turns] in LT. destruct LT as [T _]. intro; subst. rewrite orient_aab in T. lia.
      * apply (IH (left_turns_tail _ _ LT) (w2 :: l1) x y l2 eq_refl). left. discriminate.
Qed.

Definition sdesc (st : list pt) : Prop := StronglySorted (fun x y => lexlt y x) st.

Lemma desc_sdesc : forall st, desc st -> left_turns st ->
  ((3 <= length st)%nat \/ (forall x y, st = [x; y] -> x <> y)) -> sdesc st.
Proof.
  intros st D LT H.
  assert (Adj : forall l1 x y l2, st = l1 ++ x :: y :: l2 -> x <> y).
  { intros l1 x y l2 E. destruct H as [H|H].
    - apply (adj_neq st LT l1 x y l2 E). destruct l1; [|left; discriminate]. destruct l2; [|right; discriminate].
      subst st. cbn in H. lia.
    - destruct l1 as [|? l1]; [destruct l2 as [|? l2]; [apply H; exact E|]|];
        apply (adj_neq st LT _ x y _ E); [right|left]; discriminate. }
  clear H LT. induction st as [|x t IH]; [constructor|].
  constructor.
  - apply IH; [apply (desc_tail _ _ D)|]. intros l1 a b l2 E. apply (Adj (x :: l1) a b l2). rewrite E. reflexivity.
  - apply Forall_forall. intros y Hy. apply lexle_neq_lt; [apply (desc_head _ _ _ D); exact Hy|].
    intro E. subst y. destruct t as [|h t']; [destruct Hy|].
    assert (Hh : lexle h x) by (apply (desc_head _ _ _ D); left; reflexivity).
    assert (Hxh : lexle x h).
    { destruct Hy as [->|Hy]; [apply lexle_refl|]. apply (desc_head _ _ _ (desc_tail _ _ D)). exact Hy. }
    apply (Adj [] x h t' eq_refl). apply lexle_antisym; assumption.
Qed.

Lemma sdesc_nodup : forall st, sdesc st -> NoDup st.
Proof.
  intros st S. induction S as [|x t S IH F]; constructor; [|exact IH].
  intro Hx. rewrite Forall_forall in F. apply (lexlt_irrefl x). apply F. exact Hx.
Qed.

Lemma sdesc_tail : forall x st, sdesc (x :: st) -> sdesc st.
Proof. intros x st H. inversion H; assumption. Qed.

Lemma tf_edges_in : forall st e, In e (tf_edges st) -> In (fst e) st /\ In (snd e) st.
Proof.
  induction st as [|x t IH]; intros e He; [destruct He|]. destruct t as [|y r]; [destruct He|].
  cbn [tf_edges] in He. destruct He as [<-|He]; cbn [fst snd].
  - split; [right; left; reflexivity | left; reflexivity].
  - destruct (IH e He) as [H1 H2]. split; right; assumption.
Qed.

Lemma tf_edges_strict : forall st e, sdesc st -> In e (tf_edges st) -> lexlt (fst e) (snd e).
Proof.
  induction st as [|x t IH]; intros e S He; [destruct He|]. destruct t as [|y r]; [destruct He|].
  cbn [tf_edges] in He. destruct He as [<-|He]; cbn [fst snd].
  - inversion S as [|? ? _ F]; subst. rewrite Forall_forall in F. apply F. left. reflexivity.
  - apply IH; [apply (sdesc_tail _ _ S) | exact He].
Qed.

(* every vertex below the top is the lower end of an edge *)
Lemma tl_is_edge_start : forall st y, In y (tl st) -> exists x, In (y, x) (tf_edges st).
Proof.
  induction st as [|x t IH]; intros y Hy; [destruct Hy|]. cbn [tl] in Hy.
  destruct t as [|y' r]; [destruct Hy|]. destruct Hy as [<-|Hy].
  - exists x. left. reflexivity.
  - destruct (IH y Hy) as [x' Hx']. exists x'. right. exact Hx'.
Qed.

(* a vertex that is neither the top nor the bottom has two neighbours making a strict left turn *)
Lemma interior_neighbours : forall st v, sdesc st -> left_turns st -> In v st ->
  v <> hd (0, 0) st -> v <> last st (0, 0) ->
  exists x z, In x st /\ In z st /\ lexlt z v /\ lexlt v x /\ 0 < orient z v x.
Proof.
  induction st as [|x t IH]; intros v S LT Hv N1 N2; [destruct Hv|].
  destruct Hv as [<-|Hv]; [exfalso; apply N1; reflexivity|].
  destruct t as [|y r]; [destruct Hv|].
  destruct Hv as [<-|Hv].
  - (* v = y: its neighbours are x and the head of r *)
    destruct r as [|z r']; [exfalso; apply N2; reflexivity|].
    cbn [left_turns] in LT. destruct LT as [T _].
    exists x, z. split; [left; reflexivity|]. split; [right; right; left; reflexivity|].
    inversion S as [|? ? S' F]; subst. inversion S' as [|? ? _ F']; subst. rewrite Forall_forall in F, F'.
    split; [apply F'; left; reflexivity|]. split; [apply F; left; reflexivity | exact T].
  - assert (Nv : v <> y).
    { intro; subst. apply sdesc_tail in S. apply sdesc_nodup in S. inversion S; contradiction. }
    destruct (IH v (sdesc_tail _ _ S) (left_turns_tail _ _ LT) (or_intror Hv)) as [x' [z' [H1 [H2 H3]]]].
    + cbn [hd]. exact Nv.
    + destruct r; [destruct Hv | exact N2].
    + exists x', z'. split; [right; exact H1|]. split; [right; exact H2 | exact H3].
Qed.

Lemma path_edges_app_one : forall l1 x l2, path_edges (l1 ++ x :: l2) = path_edges (l1 ++ [x]) ++ path_edges (x :: l2).
Proof.
  induction l1 as [|a l1 IH]; intros x l2; [destruct l2; reflexivity|].
  destruct l1 as [|b l1].
  - cbn [app]. destruct l2; reflexivity.
  - specialize (IH x l2). cbn [app] in *.
    change (path_edges (a :: b :: l1 ++ x :: l2)) with ((a, b) :: path_edges (b :: l1 ++ x :: l2)).
    change (path_edges (a :: b :: l1 ++ [x])) with ((a, b) :: path_edges (b :: l1 ++ [x])).
    rewrite IH. reflexivity.
Qed.

Lemma path_edges_rev_tf : forall st e, In e (path_edges (rev st)) <-> In e (tf_edges st).
Proof.
  induction st as [|x t IH]; intros e; [cbn; tauto|].
  destruct t as [|y r]; [cbn; tauto|].
  cbn [rev]. rewrite <- app_assoc. cbn [app]. rewrite path_edges_app_one.
  rewrite in_app_iff. cbn [path_edges tf_edges In]. rewrite <- IH. cbn [rev]. tauto.
Qed.

Lemma sdesc_hd_last : forall st, sdesc st -> (2 <= length st)%nat -> lexlt (last st (0, 0)) (hd (0, 0) st).
Proof.
  intros st S H. destruct st as [|x t]; [cbn in H; lia|]. destruct t as [|y r]; [cbn in H; lia|].
  inversion S as [|? ? _ F]; subst. rewrite Forall_forall in F. cbn [hd]. apply F.
  change (last (x :: y :: r) (0, 0)) with (last (y :: r) (0, 0)).
  assert (G : forall (l : list pt) a, In (last (a :: l) (0, 0)) (a :: l)).
  { induction l as [|b l IHl]; intros a; [left; reflexivity|]. right. apply (IHl b). }
  apply G.
Qed.

Lemma rev_last_cons : forall (l : list pt), l <> [] -> rev l = last l (0, 0) :: rev (removelast l).
Proof.
  intros l H. rewrite (app_removelast_last (0, 0) H) at 1. rewrite rev_app_distr. reflexivity.
Qed.

Lemma last_map_neg : forall l, last (map neg l) (0, 0) = neg (last l (0, 0)).
Proof. induction l as [|a [|b l] IH]; [reflexivity | reflexivity | exact IH]. Qed.
Lemma hd_map_neg : forall l, hd (0, 0) (map neg l) = neg (hd (0, 0) l).
Proof. destruct l; reflexivity. Qed.
Lemma hd_rev_last : forall (l : list pt), hd (0, 0) (rev l) = last l (0, 0).
Proof.
  intros l. destruct l as [|a l]; [reflexivity|]. rewrite (rev_last_cons (a :: l)) by discriminate. reflexivity.
Qed.
Lemma last_rev_hd : forall (l : list pt), last (rev l) (0, 0) = hd (0, 0) l.
Proof. intros l. destruct l as [|a l]; [reflexivity|]. cbn [rev hd]. apply last_last. Qed.
Lemma in_last : forall (l : list pt), l <> [] -> In (last l (0, 0)) l.
Proof. intros l H. rewrite (app_removelast_last (0, 0) H) at 2. apply in_or_app. right. left. reflexivity. Qed.
Lemma in_hd : forall (l : list pt), l <> [] -> In (hd (0, 0) l) l.
Proof. destruct l; [contradiction | left; reflexivity]. Qed.

Section Assembly.
  Variable s : list pt.
  Hypothesis Ssorted : StronglySorted lexle s.
  Hypothesis Slen : (2 <= length s)%nat.

  Let L := chain s.
  Let U' := chain (map neg (rev s)).
  Let U := chain (rev s).
  Let pmin := hd (0, 0) s.
  Let pmax := last s (0, 0).

  Lemma s_ne : s <> [].
  Proof. intro E. rewrite E in Slen. cbn in Slen. lia. Qed.

  Lemma U_eq : U = map neg U'.
  Proof. apply upper_as_neg. Qed.

  Lemma s'_len : (2 <= length (map neg (rev s)))%nat.
  Proof. rewrite map_length, rev_length. exact Slen. Qed.
  Lemma s'_ne : map neg (rev s) <> [].
  Proof. intro E. pose proof s'_len as H. rewrite E in H. cbn in H. lia. Qed.

  Lemma L_inv : Inv L s.
  Proof. apply chain_inv. exact Ssorted. Qed.
  Lemma U'_inv : Inv U' (map neg (rev s)).
  Proof. apply chain_inv. apply sorted_neg_rev. exact Ssorted. Qed.

  Lemma L_len : (2 <= length L)%nat.
  Proof. apply chain_length2. exact Slen. Qed.
  Lemma U'_len : (2 <= length U')%nat.
  Proof. apply chain_length2. exact s'_len. Qed.
  Lemma U_len : (2 <= length U)%nat.
  Proof. rewrite U_eq, map_length. exact U'_len. Qed.

  Lemma L_hd : hd (0, 0) L = pmax.
  Proof. apply (I_hd _ _ L_inv s_ne). Qed.
  Lemma L_last : last L (0, 0) = pmin.
  Proof. apply (I_hd _ _ L_inv s_ne). Qed.
  Lemma U'_hd : hd (0, 0) U' = neg pmin.
  Proof.
    destruct (I_hd _ _ U'_inv s'_ne) as [H _]. fold U' in H. rewrite H, last_map_neg, last_rev_hd. reflexivity.
  Qed.
  Lemma U'_last : last U' (0, 0) = neg pmax.
  Proof.
    destruct (I_hd _ _ U'_inv s'_ne) as [_ H]. fold U' in H. rewrite H, hd_map_neg, hd_rev_last. reflexivity.
  Qed.
  Lemma U_hd : hd (0, 0) U = pmin.
  Proof. rewrite U_eq, hd_map_neg, U'_hd. apply neg_neg. Qed.
  Lemma U_last : last U (0, 0) = pmax.
  Proof. rewrite U_eq, last_map_neg, U'_last. apply neg_neg. Qed.

  Lemma s_bounds : forall q, In q s -> lexle pmin q /\ lexle q pmax.
  Proof.
    intros q Hq. split.
    - destruct s as [|a l]; [destruct Hq|]. cbn [pmin hd]. destruct Hq as [<-|Hq]; [apply lexle_refl|].
      inversion Ssorted as [|? ? _ F]; subst. rewrite Forall_forall in F. apply F. exact Hq.
    - assert (G : forall l, StronglySorted lexle l -> forall q, In q l -> lexle q (last l (0, 0))).
      { induction l as [|a l IH]; intros S q0 H0; [destruct H0|]. inversion S as [|? ? S' F]; subst.
        destruct l as [|b l]; [destruct H0 as [<-|[]]; apply lexle_refl|].
        change (last (a :: b :: l) (0, 0)) with (last (b :: l) (0, 0)).
        destruct H0 as [<-|H0]; [|apply IH; assumption].
        rewrite Forall_forall in F. apply F. apply in_last. discriminate. }
      apply G; assumption.
  Qed.

  Lemma L_incl : forall x, In x L -> In x s.
  Proof. apply (I_incl _ _ L_inv). Qed.
  Lemma U_incl : forall x, In x U -> In x s.
  Proof.
    intros x Hx. rewrite U_eq in Hx. apply in_map_iff in Hx. destruct Hx as [x' [<- Hx']].
    apply (I_incl _ _ U'_inv) in Hx'. apply in_map_iff in Hx'. destruct Hx' as [y [<- Hy]].
    rewrite neg_neg. apply in_rev. exact Hy.
  Qed.

  (* ---- the degenerate case: all points equal ---- *)
  Lemma all_equal_small : pmin = pmax -> (length L = 2 /\ length U = 2)%nat.
  Proof.
    intros E. split.
    - destruct (Nat.le_gt_cases 3 (length L)) as [H3|H3]; [exfalso | pose proof L_len; lia].
      assert (S : sdesc L) by (apply desc_sdesc; [apply (I_desc _ _ L_inv) | apply (I_lt _ _ L_inv) | left; exact H3]).
      pose proof (sdesc_hd_last L S L_len) as H. rewrite L_hd, L_last, E in H. apply (lexlt_irrefl _ H).
    - rewrite U_eq, map_length.
      destruct (Nat.le_gt_cases 3 (length U')) as [H3|H3]; [exfalso | pose proof U'_len; lia].
      assert (S : sdesc U') by (apply desc_sdesc; [apply (I_desc _ _ U'_inv) | apply (I_lt _ _ U'_inv) | left; exact H3]).
      pose proof (sdesc_hd_last U' S U'_len) as H. rewrite U'_hd, U'_last, E in H. apply (lexlt_irrefl _ H).
  Qed.

  (* ---- the proper case ---- *)
  Hypothesis Hneq : pmin <> pmax.

  Lemma L_sdesc : sdesc L.
  Proof.
    apply desc_sdesc; [apply (I_desc _ _ L_inv) | apply (I_lt _ _ L_inv)|].
    right. intros x y E. pose proof L_hd as H1. pose proof L_last as H2. rewrite E in H1, H2. cbn in H1, H2.
    intro; subst. apply Hneq. congruence.
  Qed.
  Lemma U'_sdesc : sdesc U'.
  Proof.
    apply desc_sdesc; [apply (I_desc _ _ U'_inv) | apply (I_lt _ _ U'_inv)|].
    right. intros x y E. pose proof U'_hd as H1. pose proof U'_last as H2. rewrite E in H1, H2. cbn in H1, H2.
    intro; subst. apply Hneq. apply neg_inj. congruence.
  Qed.

  Lemma L_nodup : NoDup L.
  Proof. apply sdesc_nodup. exact L_sdesc. Qed.
  Lemma U_nodup : NoDup U.
  Proof.
    rewrite U_eq. apply FinFun.Injective_map_NoDup; [intros a b; apply neg_inj | apply sdesc_nodup; exact U'_sdesc].
  Qed.

  Lemma above_all : forall q e, In q s -> In e (tf_edges L) \/ In e (tf_edges U) -> 0 <= orient (fst e) (snd e) q.
  Proof.
    intros q e Hq [He|He]; [apply (chain_above s q Ssorted Hq e He) | apply (upper_above s q Ssorted Hq e He)].
  Qed.

  (* an upper-chain vertex other than the two extreme points is strictly left of every lower edge *)
  Lemma upper_interior_strict : forall v e, In v U -> v <> pmin -> v <> pmax -> In e (tf_edges L) ->
    0 < orient (fst e) (snd e) v.
  Proof.
    intros v e Hv N1 N2 He.
    assert (Hv' : In (neg v) U') by (rewrite U_eq in Hv; apply in_map_iff in Hv; destruct Hv as [w [<- Hw]]; rewrite neg_neg; exact Hw).
    destruct (interior_neighbours U' (neg v) U'_sdesc (I_lt _ _ U'_inv) Hv') as [x' [z' [Hx [Hz [Lz [Lx T]]]]]].
    - rewrite U'_hd. intro E. apply N1. apply neg_inj. exact E.
    - rewrite U'_last. intro E. apply N2. apply neg_inj. exact E.
    - assert (Hxs : In (neg x') s) by (apply U_incl; rewrite U_eq; rewrite <- (neg_neg x') in Hx; apply in_map_iff; exists x'; split; [reflexivity | rewrite neg_neg in Hx; exact Hx]).
      assert (Hzs : In (neg z') s) by (apply U_incl; rewrite U_eq; apply in_map_iff; exists z'; split; [reflexivity | exact Hz]).
      assert (Hvs : In v s) by (apply U_incl; exact Hv).
      pose proof (above_all v e Hvs (or_introl He)) as Av.
      destruct (Z.eq_dec (orient (fst e) (snd e) v) 0) as [E0|E0]; [exfalso | lia].
      pose proof (tf_edges_strict L e L_sdesc He) as Se.
      pose proof (orient_wedge (fst e) (snd e) v (neg z') (neg x') Se) as W.
      rewrite <- (neg_neg v) in W at 1 2. rewrite !lexlt_neg in W.
      specialize (W Lz Lx E0 (above_all _ e Hzs (or_introl He)) (above_all _ e Hxs (or_introl He))).
      rewrite <- (neg_neg v), orient_neg in W. lia.
  Qed.

  (* a lower-chain vertex other than the two extreme points is strictly left of every upper edge *)
  Lemma lower_interior_strict : forall v e, In v L -> v <> pmin -> v <> pmax -> In e (tf_edges U) ->
    0 < orient (fst e) (snd e) v.
  Proof.
    intros v e Hv N1 N2 He.
    destruct (interior_neighbours L v L_sdesc (I_lt _ _ L_inv) Hv) as [x [z [Hx [Hz [Lz [Lx T]]]]]].
    - rewrite L_hd. exact N2.
    - rewrite L_last. exact N1.
    - pose proof (above_all v e (L_incl _ Hv) (or_intror He)) as Av.
      destruct (Z.eq_dec (orient (fst e) (snd e) v) 0) as [E0|E0]; [exfalso | lia].
      pose proof He as He'. unfold U in He'. rewrite upper_as_neg, tf_edges_neg in He'. fold U' in He'.
      apply in_map_iff in He'. destruct He' as [e' [Ee He']]. subst e. cbn [fst snd] in *.
      pose proof (tf_edges_strict U' e' U'_sdesc He') as Se.
      pose proof (orient_wedge (fst e') (snd e') (neg v) (neg z) (neg x) Se) as W.
      rewrite !lexlt_neg in W. specialize (W Lz Lx).
      assert (Tr : forall w, orient (fst e') (snd e') (neg w) = orient (neg (fst e')) (neg (snd e')) w).
      { intros w. rewrite <- (neg_neg w) at 2. rewrite orient_neg. reflexivity. }
      rewrite !Tr in W.
      assert (Oz := above_all z (neg (fst e'), neg (snd e')) (L_incl _ Hz)).
      assert (Ox := above_all x (neg (fst e'), neg (snd e')) (L_incl _ Hx)).
      cbn [fst snd] in Oz, Ox.
      assert (HeU : In (neg (fst e'), neg (snd e')) (tf_edges U)).
      { unfold U. rewrite upper_as_neg, tf_edges_neg. fold U'. apply in_map_iff. exists e'. split; [reflexivity | exact He']. }
      specialize (W E0 (Oz (or_intror HeU)) (Ox (or_intror HeU))).
      rewrite orient_neg in W. lia.
  Qed.
End Assembly.

Lemma NoDup_app_intro_h : forall {A} (l1 l2 : list A),
  NoDup l1 -> NoDup l2 -> (forall x, In x l1 -> In x l2 -> False) -> NoDup (l1 ++ l2).
Proof.
  induction l1 as [|a l1 IH]; intros l2 N1 N2 D; [exact N2|].
  inversion N1; subst. cbn [app]. constructor.
  - intro Hin. apply in_app_or in Hin. destruct Hin as [Hin|Hin]; [contradiction|]. apply (D a (or_introl eq_refl) Hin).
  - apply IH; [assumption | assumption|]. intros x Hx1 Hx2. apply (D x (or_intror Hx1) Hx2).
Qed.

Section Final.
  Variable s : list pt.
  Hypothesis Ssorted : StronglySorted lexle s.
  Hypothesis Slen : (2 <= length s)%nat.

  Let L := chain s.
  Let U := chain (rev s).
  Let pmin := hd (0, 0) s.
  Let pmax := last s (0, 0).
  Let Hs := rev (tl L) ++ rev (tl U).

  Lemma Hs_edges : forall e, In e (contour_edges Hs) <-> In e (tf_edges L) \/ In e (tf_edges U).
  Proof.
    intros e.
    pose proof (L_len s Slen) as HL. pose proof (U_len s Slen) as HU.
    pose proof (L_hd s Ssorted Slen) as LH. pose proof (L_last s Ssorted Slen) as LL.
    pose proof (U_hd s Ssorted Slen) as UH. pose proof (U_last s Ssorted Slen) as UL.
    fold L in HL, LH, LL. fold U in HU, UH, UL. unfold Hs.
    destruct L as [|lx [|ly L2]] eqn:EL; [cbn in HL; lia | cbn in HL; lia|].
    destruct U as [|ux [|uy U2]] eqn:EU; [cbn in HU; lia | cbn in HU; lia|].
    cbn [tl hd] in *.
    assert (R1 : rev (ly :: L2) = last (lx :: ly :: L2) (0, 0) :: rev (removelast (ly :: L2))).
    { rewrite (rev_last_cons (ly :: L2)) by discriminate. reflexivity. }
    assert (R2 : rev (ux :: uy :: U2) = last (ux :: uy :: U2) (0, 0) :: rev (removelast (ux :: uy :: U2))).
    { apply rev_last_cons. discriminate. }
    set (t1 := rev (removelast (ly :: L2))) in *. set (t2 := rev (removelast (ux :: uy :: U2))) in *.
    assert (Ehd : contour_edges (rev (ly :: L2) ++ rev (uy :: U2)) = path_edges ((rev (ly :: L2) ++ rev (uy :: U2)) ++ [ux])).
    { rewrite R1, LL, UH. reflexivity. }
    rewrite Ehd. rewrite <- app_assoc.
    change (rev (uy :: U2) ++ [ux]) with (rev (ux :: uy :: U2)). rewrite R2, UL.
    rewrite path_edges_app_one, in_app_iff.
    rewrite <- LH. change (rev (ly :: L2) ++ [lx]) with (rev (lx :: ly :: L2)).
    rewrite LH, <- UL, <- R2. rewrite !path_edges_rev_tf. reflexivity.
  Qed.

  Lemma Hs_vertices : forall v, In v Hs -> In v (tl L) \/ In v (tl U).
  Proof.
    intros v Hv. unfold Hs in Hv. apply in_app_or in Hv. destruct Hv as [Hv|Hv]; apply in_rev in Hv; [left|right]; exact Hv.
  Qed.

  Lemma Hs_length : length Hs = (length L - 1 + (length U - 1))%nat.
  Proof.
    unfold Hs. rewrite app_length, !rev_length. destruct L, U; cbn [tl length]; lia.
  Qed.

  Lemma Hs_big_neq : (3 <= length Hs)%nat -> pmin <> pmax.
  Proof.
    intros H E. destruct (all_equal_small s Ssorted Slen E) as [H1 H2]. fold L in H1. fold U in H2.
    rewrite Hs_length in H. lia.
  Qed.

  Theorem Hs_spec : pmin <> pmax -> hull_spec s Hs.
  Proof.
    intros Hneq.
    pose proof (L_nodup s Ssorted Slen Hneq) as NL. pose proof (U_nodup s Ssorted Slen Hneq) as NU.
    pose proof (L_hd s Ssorted Slen) as LH. pose proof (L_last s Ssorted Slen) as LL.
    pose proof (U_hd s Ssorted Slen) as UH. pose proof (U_last s Ssorted Slen) as UL.
    pose proof (L_len s Slen) as HL. pose proof (U_len s Slen) as HU.
    fold L in NL, LH, LL, HL. fold U in NU, UH, UL, HU. fold pmin pmax in LH, LL, UH, UL.
    assert (Lmax : In pmax L) by (rewrite <- LH; apply in_hd; intro E; rewrite E in HL; cbn in HL; lia).
    assert (Lmin : In pmin L) by (rewrite <- LL; apply in_last; intro E; rewrite E in HL; cbn in HL; lia).
    assert (Umin : In pmin U) by (rewrite <- UH; apply in_hd; intro E; rewrite E in HU; cbn in HU; lia).
    assert (Umax : In pmax U) by (rewrite <- UL; apply in_last; intro E; rewrite E in HU; cbn in HU; lia).
    assert (TL : forall v, In v (tl L) -> In v L /\ v <> pmax).
    { intros v Hv. destruct L as [|x t]; [destruct Hv|]. cbn [tl hd] in *. split; [right; exact Hv|].
      inversion NL; subst. intro; subst. contradiction. }
    assert (TU : forall v, In v (tl U) -> In v U /\ v <> pmin).
    { intros v Hv. destruct U as [|x t]; [destruct Hv|]. cbn [tl hd] in *. split; [right; exact Hv|].
      inversion NU; subst. intro; subst. contradiction. }
    (* strictness of any H-vertex against any edge *)
    assert (Strict : forall v e, In v L \/ In v U -> In e (tf_edges L) \/ In e (tf_edges U) ->
              v <> fst e -> v <> snd e -> 0 < orient (fst e) (snd e) v).
    { intros v e Hv He N1 N2.
      destruct He as [He|He].
      - destruct Hv as [Hv|Hv]; [apply (chain_sabove s v Ssorted Hv e He N1 N2)|].
        destruct (pt_eq_dec v pmin) as [->|Nmin]; [apply (chain_sabove s pmin Ssorted Lmin e He N1 N2)|].
        destruct (pt_eq_dec v pmax) as [->|Nmax]; [apply (chain_sabove s pmax Ssorted Lmax e He N1 N2)|].
        apply (upper_interior_strict s Ssorted Slen Hneq v e Hv Nmin Nmax He).
      - destruct Hv as [Hv|Hv]; [|apply (upper_sabove s v Ssorted Hv e He N1 N2)].
        destruct (pt_eq_dec v pmin) as [->|Nmin]; [apply (upper_sabove s pmin Ssorted Umin e He N1 N2)|].
        destruct (pt_eq_dec v pmax) as [->|Nmax]; [apply (upper_sabove s pmax Ssorted Umax e He N1 N2)|].
        apply (lower_interior_strict s Ssorted Slen Hneq v e Hv Nmin Nmax He). }
    split; [|split].
    - intros v Hv. destruct (Hs_vertices v Hv) as [H|H].
      + apply (L_incl s Ssorted). apply TL. exact H.
      + apply (U_incl s Ssorted). apply TU. exact H.
    - unfold Hs. apply NoDup_app_intro_h.
      + apply NoDup_rev. destruct L; [constructor | inversion NL; assumption].
      + apply NoDup_rev. destruct U; [constructor | inversion NU; assumption].
      + intros x H1 H2. apply in_rev in H1. apply in_rev in H2.
        destruct (TL x H1) as [HxL Nmax]. destruct (TU x H2) as [HxU Nmin].
        destruct (tl_is_edge_start L x H1) as [x' He].
        pose proof (upper_interior_strict s Ssorted Slen Hneq x (x, x') HxU Nmin Nmax He) as P.
        cbn [fst snd] in P. rewrite orient_aba in P. lia.
    - intros e He. apply Hs_edges in He. split.
      + intros v Hv N1 N2. apply Strict; [|exact He | exact N1 | exact N2].
        destruct (Hs_vertices v Hv) as [H|H]; [left; apply TL; exact H | right; apply TU; exact H].
      + intros q Hq. apply (above_all s Ssorted q e Hq He).
  Qed.

  Theorem Hs_degenerate : (length Hs < 3)%nat -> collinear_spec s.
  Proof.
    intros H. rewrite Hs_length in H.
    pose proof (L_len s Slen) as HL. pose proof (U_len s Slen) as HU.
    pose proof (L_hd s Ssorted Slen) as LH. pose proof (L_last s Ssorted Slen) as LL.
    pose proof (U_hd s Ssorted Slen) as UH. pose proof (U_last s Ssorted Slen) as UL.
    fold L in HL, LH, LL. fold U in HU, UH, UL. fold pmin pmax in LH, LL, UH, UL.
    assert (Hlen : (length L = 2 /\ length U = 2)%nat) by lia. destruct Hlen as [HL2 HU2].
    assert (EL : L = [pmax; pmin]).
    { destruct L as [|a [|b [|c r]]]; try (cbn in HL2; lia). cbn in LH, LL. subst. reflexivity. }
    assert (EU : U = [pmin; pmax]).
    { destruct U as [|a [|b [|c r]]]; try (cbn in HU2; lia). cbn in UH, UL. subst. reflexivity. }
    exists pmin, pmax. split.
    - intros q Hq.
      pose proof (chain_above s q Ssorted Hq (pmin, pmax)) as A1. fold L in A1. rewrite EL in A1.
      pose proof (upper_above s q Ssorted Hq (pmax, pmin)) as A2. fold U in A2. rewrite EU in A2.
      specialize (A1 (or_introl eq_refl)). specialize (A2 (or_introl eq_refl)). cbn [fst snd] in A1, A2.
      rewrite Wind2.orient_swap in A2. lia.
    - intros E q Hq. destruct (s_bounds s Ssorted Slen q Hq) as [B1 B2]. fold pmin in B1. fold pmax in B2.
      rewrite <- E in B2. apply lexle_antisym; assumption.
  Qed.
End Final.

(* ---- the theorem for HullImpl on an arbitrary point list ---- *)
Lemma hull_spec_perm : forall s pts H, (forall x, In x s <-> In x pts) -> hull_spec s H -> hull_spec pts H.
Proof.
  intros s pts H E [A [B C]]. split; [|split].
  - intros v Hv. apply E. apply A. exact Hv.
  - exact B.
  - intros e He. destruct (C e He) as [C1 C2]. split; [exact C1|]. intros q Hq. apply C2. apply E. exact Hq.
Qed.

Lemma collinear_spec_perm : forall s pts, (forall x, In x s <-> In x pts) -> collinear_spec s -> collinear_spec pts.
Proof.
  intros s pts E [a [b [A B]]]. exists a, b. split.
  - intros q Hq. apply A. apply E. exact Hq.
  - intros Eab q Hq. apply (B Eab). apply E. exact Hq.
Qed.

Theorem hull2_correct : forall pts : list pt,
  ((3 <= length (hull2 pts))%nat /\ hull_spec pts (hull2 pts)) \/
  ((length (hull2 pts) < 3)%nat /\ ((length pts < 3)%nat \/ collinear_spec pts)).
Proof.
  intros pts. unfold hull2. destruct (Z.ltb_spec (Z.of_nat (length pts)) 3) as [Hlt|Hge].
  - right. split; [cbn; lia|]. left. lia.
  - set (s := sort pts).
    assert (P : Permutation pts s) by apply sort_perm.
    assert (E : forall x, In x s <-> In x pts).
    { intros x. split; intro Hx; [apply (Permutation_in _ (Permutation_sym P)) | apply (Permutation_in _ P)]; exact Hx. }
    assert (Ss : StronglySorted lexle s) by apply sort_sorted.
    assert (Sl : (2 <= length s)%nat) by (rewrite <- (Permutation_length P); lia).
    destruct (Nat.le_gt_cases 3 (length (rev (tl (chain s)) ++ rev (tl (chain (rev s)))))) as [H3|H3].
    + left. split; [exact H3|]. apply (hull_spec_perm s pts _ E).
      apply (Hs_spec s Ss Sl). apply (Hs_big_neq s Ss Sl). exact H3.
    + right. split; [exact H3|]. right. apply (collinear_spec_perm s pts E). apply (Hs_degenerate s Ss Sl). exact H3.
Qed.

