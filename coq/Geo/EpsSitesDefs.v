(* C11 - where the epsilon of a 2-D arrangement comes from (types for the table that
   translate/c11_eps.py regenerates from src/cross_section.cpp on every run).  No proofs. *)
From Coq Require Import List String Bool Arith.
Import ListNotations.

Inductive eps_src :=
| EpsInferOfOperands            (* eps = InferEps(<exactly the polygon arguments of the call>) *)
| EpsOther (rhs : string).      (* anything else, e.g. max(tolerance_, ...) : inherited drift tolerance *)

Record eps_site := mk_eps_site { es_function : string; es_callee : string; es_src : eps_src }.

Definition eps_site_ok (s : eps_site) : bool :=
  match es_src s with EpsInferOfOperands => true | EpsOther _ => false end.

(* every arrangement built by CrossSection (Boolean, BatchBoolean x2, the two fill-rule
   constructors, WarpBatch) resolves at the epsilon of its own input edges *)
Definition eps_sites_ok (l : list eps_site) : bool :=
  forallb eps_site_ok l && Nat.leb 6 (List.length l)
  && existsb (fun s => String.eqb (es_function s) "Boolean") l
  && existsb (fun s => String.eqb (es_function s) "BatchBoolean") l.
