(* C16 — set-level lemmas about Minkowski sums and the three branches of
   Impl::Minkowski (definitions in MinkowskiDefs.v). *)
From Coq Require Import QArith Qcanon List Lia.
From MV Require Import Geo.MinkowskiDefs.
Import ListNotations.
Local Open Scope Qc_scope.

Lemma vec_ext (a1 a2 a3 b1 b2 b3 : Qc) : a1 = b1 -> a2 = b2 -> a3 = b3 -> (a1, a2, a3) = (b1, b2, b3).
Proof. intros -> -> ->. reflexivity. Qed.
Ltac vec_eq := unfold mix, vadd, vsub, vscale, vzero, vx, vy, vz; cbn [fst snd]; apply vec_ext; ring.
Ltac dvec p := destruct p as [[? ?] ?].

Lemma vadd_zero_r a : vadd a vzero = a.  Proof. dvec a. vec_eq. Qed.
Lemma vadd_comm a b : vadd a b = vadd b a.  Proof. dvec a; dvec b. vec_eq. Qed.
Lemma mix_add t x y q : vadd (mix t x y) q = mix t (vadd x q) (vadd y q).
Proof. dvec x; dvec y; dvec q. vec_eq. Qed.
Lemma mix_add_l t x y p : vadd p (mix t x y) = mix t (vadd p x) (vadd p y).
Proof. dvec x; dvec y; dvec p. vec_eq. Qed.
Lemma mix_sum t a a' b b' : mix t (vadd a b) (vadd a' b') = vadd (mix t a a') (mix t b b').
Proof. dvec a; dvec a'; dvec b; dvec b'. vec_eq. Qed.

Lemma unit_compl t : unit_t t -> unit_t (1 - t).
Proof.
  intros [H0 H1]. split.
  - apply Qcle_minus_iff in H1. exact H1.
  - apply Qcle_minus_iff. replace (1 + - (1 - t)) with t by ring. exact H0.
Qed.
Lemma unit_0 : unit_t 0.  Proof. split; [apply Qcle_refl|discriminate]. Qed.
Lemma unit_1 : unit_t 1.  Proof. split; [discriminate|apply Qcle_refl]. Qed.

(* ---- sums ---------------------------------------------------------------- *)
Lemma sum_contains_summands_l (A B : set) : B vzero -> incl A (msum A B).
Proof. intros H p Hp. exists p, vzero. repeat split; auto. symmetry; apply vadd_zero_r. Qed.

Lemma sum_mono_l (A A' B B' : set) : incl A A' -> incl B B' -> incl (msum A B) (msum A' B').
Proof. intros HA HB p (a & b & Ha & Hb & E). exists a, b. auto. Qed.

Lemma sum_union_distr_l (A A' B : set) : seteq (msum (union A A') B) (union (msum A B) (msum A' B)).
Proof.
  intros p. split.
  - intros (a & b & [Ha|Ha] & Hb & E); [left|right]; exists a, b; auto.
  - intros [(a & b & Ha & Hb & E)|(a & b & Ha & Hb & E)]; exists a, b; repeat split; auto; [left|right]; auto.
Qed.

Lemma sum_comm_l (A B : set) : seteq (msum A B) (msum B A).
Proof. intros p. split; intros (a & b & Ha & Hb & E); exists b, a; repeat split; auto; rewrite vadd_comm; exact E. Qed.

Lemma sum_bigU_l {I : Type} (F : I -> set) (B : set) : seteq (msum (bigU F) B) (bigU (fun i => msum (F i) B)).
Proof.
  intros p. split.
  - intros (a & b & (i & Ha) & Hb & E). exists i, a, b. auto.
  - intros (i & a & b & Ha & Hb & E). exists a, b. repeat split; auto. exists i; auto.
Qed.

(* ---- convex hulls ---------------------------------------------------------- *)
Lemma conv_convex P : convex (conv P).
Proof. intros x y t Hx Hy Ht. apply conv_mix; assumption. Qed.
Lemma conv_incl P : incl P (conv P).
Proof. intros p H. apply conv_in, H. Qed.
Lemma conv_least P S : incl P S -> convex S -> incl (conv P) S.
Proof. intros HP HS p H. induction H as [x Hx|x y t _ IHx _ IHy Ht]; [apply HP, Hx|apply HS; assumption]. Qed.
Lemma conv_mono P Q : incl P Q -> incl (conv P) (conv Q).
Proof. intros H. apply conv_least; [intros p Hp; apply conv_in, H, Hp|apply conv_convex]. Qed.
Lemma conv_idem S : convex S -> seteq (conv S) S.
Proof. intros H p. split; [apply conv_least; [intros q Hq; exact Hq|exact H]|apply conv_incl]. Qed.

Lemma sum_convex A B : convex A -> convex B -> convex (msum A B).
Proof.
  intros HA HB x y t (a & b & Ha & Hb & ->) (a' & b' & Ha' & Hb' & ->) Ht.
  exists (mix t a a'), (mix t b b'). repeat split; [apply HA|apply HB|apply mix_sum]; assumption.
Qed.

(* conv P (+) conv Q = conv (P (+) Q) *)
Lemma hull_of_sums_l P Q : seteq (msum (conv P) (conv Q)) (conv (msum P Q)).
Proof.
  intros p. split.
  - intros (a & b & Ha & Hb & ->).
    revert b Hb. induction Ha as [x Hx|x y t _ IHx _ IHy Ht]; intros b Hb.
    + induction Hb as [q Hq|q r s _ IHq _ IHr Hs].
      * apply conv_in. exists x, q. auto.
      * rewrite mix_add_l. apply conv_mix; assumption.
    + rewrite mix_add. apply conv_mix; auto.
  - apply conv_least.
    + apply sum_mono_l; apply conv_incl.
    + apply sum_convex; apply conv_convex.
Qed.

(* ---- the three branches ------------------------------------------------------- *)
(* convex (+) convex: exact, provided the structuring element contains 0 *)
Lemma code_cc_correct_l VA VB : conv VB vzero ->
  seteq (code_cc (conv VA) VA VB) (msum (conv VA) (conv VB)).
Proof.
  intros H0 p. unfold code_cc, union. rewrite <- (hull_of_sums_l VA VB p). split.
  - intros [H|H]; [apply sum_contains_summands_l; assumption|exact H].
  - intros H; right; exact H.
Qed.

(* non-convex A, convex B: sound when the surface belongs to A ... *)
Lemma code_nc_sound_l {I : Type} (A : set) (trisA : I -> triangle) VB :
  incl (surf trisA) A -> conv VB vzero -> incl (code_nc A trisA VB) (msum A (conv VB)).
Proof.
  intros HS H0 p [H|(i & H)]; [apply sum_contains_summands_l; assumption|].
  apply hull_of_sums_l in H. revert H. apply sum_mono_l; [|intros q Hq; exact Hq].
  intros q Hq. apply HS. exists i. exact Hq.
Qed.

(* ... and complete given the crossing property of A w.r.t. its surface
   (membership in A decidable: no classical axiom is used) *)
Lemma code_nc_complete_l {I : Type} (A : set) (trisA : I -> triangle) VB :
  (forall p, A p \/ ~ A p) -> crossing A (surf trisA) -> conv VB vzero ->
  incl (msum A (conv VB)) (code_nc A trisA VB).
Proof.
  intros Dec HC H0 p (a & b & Ha & Hb & ->). destruct (Dec (vadd a b)) as [Hin|Hout]; [left; exact Hin|right].
  destruct (HC a b Ha Hout) as (t & Ht & (i & Hs)). exists i. apply hull_of_sums_l.
  exists (vadd a (vscale t b)), (mix (1 - t) b vzero). split; [exact Hs|]. split.
  - apply conv_mix; [exact Hb|exact H0|apply unit_compl, Ht].
  - dvec a; dvec b. vec_eq.
Qed.

(* both non-convex: the code computes A u (dA (+) dB) ... *)
Lemma code_nn_is_boundary_sum_l {I J : Type} (A : set) (trisA : I -> triangle) (trisB : J -> triangle) :
  seteq (code_nn A trisA trisB) (union A (msum (surf trisA) (surf trisB))).
Proof.
  intros p. unfold code_nn, union, surf. split.
  - intros [H|((i, j) & H)]; [left; exact H|right]. cbn [fst snd] in H. apply hull_of_sums_l in H.
    destruct H as (a & b & Ha & Hb & E). exists a, b. repeat split; auto; [exists i|exists j]; auto.
  - intros [H|(a & b & (i & Ha) & (j & Hb) & E)]; [left; exact H|right]. exists (i, j). cbn [fst snd].
    apply hull_of_sums_l. exists a, b. auto.
Qed.

(* ... so "result contains A (+) B" REQUIRES B to be inside A u (dA (+) dB)
   as soon as 0 is in A *)
Lemma code_nn_obligation_l {I J : Type} (A B : set) (trisA : I -> triangle) (trisB : J -> triangle) :
  A vzero -> incl (msum A B) (code_nn A trisA trisB) -> incl B (union A (msum (surf trisA) (surf trisB))).
Proof.
  intros H0 H b Hb. apply code_nn_is_boundary_sum_l, H. exists vzero, b. repeat split; auto.
  dvec b. vec_eq.
Qed.

(* a point b of B that is not in A and whose translates b - a' (a' on dA)
   all miss dB is in A (+) B but not in what the code computes *)
Lemma nn_omits_deep_points_l {I J : Type} (A B : set) (trisA : I -> triangle) (trisB : J -> triangle) b :
  A vzero -> B b -> ~ A b -> (forall a', surf trisA a' -> ~ surf trisB (vsub b a')) ->
  msum A B b /\ ~ code_nn A trisA trisB b.
Proof.
  intros H0 Hb Hn Hd. split.
  - exists vzero, b. repeat split; auto. dvec b. vec_eq.
  - intros H. apply code_nn_is_boundary_sum_l in H. destruct H as [H|(a' & b' & Ha & Hb' & E)]; [contradiction|].
    apply (Hd a' Ha). replace (vsub b a') with b'; [exact Hb'|]. rewrite E. dvec a'; dvec b'. vec_eq.
Qed.

(* erosion *)
Lemma erode_incl_l (A B : set) : B vzero -> incl (merode A B) A.
Proof. intros H0 p H. specialize (H vzero H0). replace (vsub p vzero) with p in H; [exact H|]. dvec p. vec_eq. Qed.

(* inset branch (convex B = conv VB containing 0): A minus (dA (+) B) lies in
   the erosion {p : p - b in A for all b in B} given the crossing property *)
Lemma code_inset_sound_l {I : Type} (A : set) (trisA : I -> triangle) VB :
  (forall p, A p \/ ~ A p) -> crossing A (surf trisA) -> conv VB vzero ->
  incl (code_inset A trisA VB) (merode A (conv VB)).
Proof.
  intros Dec HC H0 p [Hp Hn] b Hb. destruct (Dec (vsub p b)) as [H|Hout]; [exact H|exfalso].
  (* the segment from p to p - b leaves A: it meets dA at p - t b; then p = (p - t b) + t b *)
  assert (E : vsub p b = vadd p (vscale (-(1)) b)) by (dvec p; dvec b; vec_eq).
  rewrite E in Hout. destruct (HC p _ Hp Hout) as (t & Ht & (i & Hs)).
  apply Hn. exists i. apply hull_of_sums_l.
  exists (vadd p (vscale t (vscale (-(1)) b))), (mix t b vzero). split; [exact Hs|]. split.
  - apply conv_mix; [exact Hb|exact H0|exact Ht].
  - dvec p; dvec b. vec_eq.
Qed.

(* ---- refutation of the non-convex x non-convex branch ------------------------- *)
Lemma conv_point c x : conv (tri_pts (c, c, c)) x -> x = c.
Proof.
  intros H. induction H as [x [H|[H|H]]|x y t _ IHx _ IHy _]; try exact H.
  subst. dvec c. vec_eq.
Qed.

(* a one-dimensional section is enough to see it: A = [-1,1] u [3,4] and
   B = [-10,10] u [20,21] on the x-axis (both non-convex, both contain 0),
   with their boundary points as (degenerate) triangles.  p = 5 = 0 + 5 is in
   A (+) B, but p is not in A and p - a' (a' in dA) is one of 6,4,2,1, none of
   which is a boundary point of B.  The same happens in the library with two
   L-shaped solids (replayed by checks/C16.py, key minkowski-nonconvex-omits-B). *)
Definition onx (q : Q) : vec := (Q2Qc q, 0, 0).
Definition segx (lo hi : Q) : set := fun p => vy p = 0 /\ vz p = 0 /\ Q2Qc lo <= vx p /\ vx p <= Q2Qc hi.
Definition wA : set := union (segx (-1) 1) (segx 3 4).
Definition wB : set := union (segx (-10) 10) (segx 20 21).
Definition ptri (q : Q) : triangle := (onx q, onx q, onx q).
Definition wtA (i : bool * bool) : triangle :=
  ptri (match i with (true, true) => -1 | (true, false) => 1 | (false, true) => 3 | (false, false) => 4 end)%Q.
Definition wtB (j : bool * bool) : triangle :=
  ptri (match j with (true, true) => -10 | (true, false) => 10 | (false, true) => 20 | (false, false) => 21 end)%Q.

Lemma minkowski_nonconvex_refuted_l :
  wA vzero /\ wB vzero /\ msum wA wB (onx 5) /\ ~ code_nn wA wtA wtB (onx 5).
Proof.
  assert (A0 : wA vzero) by (left; repeat split; vm_compute; congruence).
  assert (B0 : wB vzero) by (left; repeat split; vm_compute; congruence).
  split; [exact A0|]. split; [exact B0|].
  apply (nn_omits_deep_points_l wA wB wtA wtB (onx 5) A0).
  - left. repeat split; vm_compute; congruence.
  - intros [(_ & _ & _ & H)|(_ & _ & _ & H)]; vm_compute in H; apply H; reflexivity.
  - intros a' (i & Ha) (j & Hb). apply conv_point in Ha. apply conv_point in Hb. subst a'.
    apply (f_equal vx) in Hb. apply (f_equal this) in Hb.
    destruct i as [[|] [|]], j as [[|] [|]]; vm_compute in Hb; discriminate.
Qed.

(* ---- dispatch condition of the convex-convex fast path ------------------------- *)
(* Impl::Minkowski takes the fast path when IsConvex() holds for both operands
   and then returns A u hull(VA (+) VB).  That set always contains the whole
   hull of A's vertices: the fast path is only correct when hull(VA) is inside
   A (+) B, i.e. IsConvex must mean "A = conv VA" (connected, closed, genus 0,
   no concave edge) - a union of disjoint convex bodies has no concave edge
   either, which is why IsConvex also tests the genus. *)
Lemma code_cc_contains_hull_l (A VA VB : set) : conv VB vzero -> incl (conv VA) (code_cc A VA VB).
Proof.
  intros H0 x Hx. right. apply hull_of_sums_l. exists x, vzero. repeat split; auto. symmetry; apply vadd_zero_r.
Qed.

Lemma fast_path_requires_hull_inside_l (A VA VB S : set) :
  conv VB vzero -> incl (code_cc A VA VB) S -> incl (conv VA) S.
Proof. intros H0 H x Hx. apply H, code_cc_contains_hull_l; assumption. Qed.

Lemma conv_single c x : conv (fun p => p = c) x -> x = c.
Proof.
  intros H. induction H as [x H|x y t _ IHx _ IHy _]; [exact H|].
  subst. destruct c as [[? ?] ?]. unfold mix, vadd, vscale, vx, vy, vz; cbn [fst snd]. apply vec_ext; ring.
Qed.

(* two disjoint bodies [0,1] u [4,5] (+) {0}: the fast-path expression contains 5/2, the sum does not *)
Definition wA2 : set := union (segx 0 1) (segx 4 5).
Definition wVA2 : set := fun p => p = onx 0 \/ p = onx 1 \/ p = onx 4 \/ p = onx 5.
Definition wVB0 : set := fun p => p = vzero.

Lemma fast_path_multibody_refuted_l :
  conv wVB0 vzero /\ incl wVA2 wA2 /\ code_cc wA2 wVA2 wVB0 (onx (5 # 2)) /\ ~ msum wA2 (conv wVB0) (onx (5 # 2)).
Proof.
  assert (B0 : conv wVB0 vzero) by (apply conv_in; reflexivity).
  split; [exact B0|]. split; [|split].
  - intros p [H|[H|[H|H]]]; subst p; [left|left|right|right]; repeat split; vm_compute; congruence.
  - apply code_cc_contains_hull_l; [exact B0|].
    assert (E : onx (5 # 2) = mix (Q2Qc (1 # 2)) (onx 1) (onx 4)).
    { unfold onx, mix, vadd, vscale, vx, vy, vz; cbn [fst snd]. apply vec_ext; apply Qc_is_canon; vm_compute; reflexivity. }
    rewrite E. apply conv_mix; [apply conv_in; right; left; reflexivity|apply conv_in; right; right; left; reflexivity|].
    split; vm_compute; congruence.
  - intros (a & b & Ha & Hb & E). apply conv_single in Hb. subst b. rewrite vadd_zero_r in E. subst a.
    destruct Ha as [(_ & _ & _ & H)|(_ & _ & H & _)]; vm_compute in H; apply H; reflexivity.
Qed.
