(* C11 - the generated call-site table satisfies eps_sites_ok (re-checked whenever the table changes). *)
From Coq Require Import List String Bool.
From MV Require Import Geo.EpsSitesDefs Gen.C11Eps.
Lemma eps_sites_table_ok : eps_sites_ok eps_sites = true.
Proof. vm_compute. reflexivity. Qed.
