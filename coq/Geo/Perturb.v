(* Shadows (src/shared.h, regenerated into Gen/BoolConsts.v) is the strict
   order on infinitesimally perturbed values. *)
From Coq Require Import ZArith Bool Lia ZifyBool.
From MV Require Import Geo.WindingDefs Gen.BoolConsts.
Local Open Scope Z_scope.

(* lexicographic form *)
Lemma shadows_lex p q dir : gen_shadows p q dir = true <-> (p < q \/ (p = q /\ dir < 0)).
Proof. unfold gen_shadows. destruct (p =? q) eqn:E; lia. Qed.

(* perturbation form: eps = 1/N for all large N;  p + dp/N < q + dq/N *)
Lemma shadows_perturbed p q dp dq :
  gen_shadows p q (dp - dq) = true <->
  exists N0, 0 < N0 /\ forall N, N0 <= N -> N * p + dp < N * q + dq.
Proof.
  rewrite shadows_lex. split.
  - intros [H|[H1 H2]].
    + exists (Z.abs (dp - dq) + 1). split; [lia|]. intros N HN.
      assert (N * 1 <= N * (q - p)) by (apply Z.mul_le_mono_nonneg_l; lia). lia.
    + exists 1. split; [lia|]. intros N HN. subst q. lia.
  - intros [N0 [H0 H]].
    destruct (Z.lt_trichotomy p q) as [Hl|[He|Hg]]; [left; assumption| |exfalso].
    + right. split; [assumption|]. specialize (H N0 ltac:(lia)). subst q. lia.
    + specialize (H (N0 + Z.abs (dp - dq) + 1) ltac:(lia)).
      set (N := N0 + Z.abs (dp - dq) + 1) in *.
      assert (N * 1 <= N * (p - q)) by (apply Z.mul_le_mono_nonneg_l; lia). lia.
Qed.

Lemma shadows_antisym p q dir :
  (p <> q \/ dir <> 0) -> gen_shadows p q dir = negb (gen_shadows q p (- dir)).
Proof. unfold gen_shadows. intros H. destruct (p =? q) eqn:E, (q =? p) eqn:E'; lia. Qed.

(* exact ties are NOT broken: both directions answer false *)
Lemma shadows_tie p : gen_shadows p p 0 = false /\ gen_shadows p p (- 0) = false.
Proof. unfold gen_shadows. rewrite Z.eqb_refl. split; reflexivity. Qed.

(* never both *)
Lemma shadows_asym p q dir : gen_shadows p q dir = true -> gen_shadows q p (- dir) = false.
Proof. unfold gen_shadows. destruct (p =? q) eqn:E, (q =? p) eqn:E'; lia. Qed.

(* the forward (P vertex vs Q edge end) and backward (Q vertex vs P edge end)
   kernels of Shadow01 ask the SAME question: "is p, perturbed along s*nP,
   left of q perturbed along nQ"  (boolean3.cpp lines 63-66 use
   Shadows(px, qx, withSign(expandP, nP) - nQ) in both) *)
Lemma shadows_withSign p q s nP nQ :
  gen_shadows p q (gen_withSign s nP - nQ) = true <->
  exists N0, 0 < N0 /\ forall N, N0 <= N -> N * p + gen_withSign s nP < N * q + nQ.
Proof. apply shadows_perturbed. Qed.
