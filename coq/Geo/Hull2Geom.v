(* C12 — the plane-geometry lemmas (exact, over Z) behind Andrew's monotone
   chain: lexicographic order and orientation of 4 and 5 points. *)
From Coq Require Import ZArith List Bool Lia Psatz.
From MV Require Import Geo.Wind2Defs Geo.Hull2Defs.
Local Open Scope Z_scope.

Definition lexle (a b : pt) : Prop := fst a < fst b \/ (fst a = fst b /\ snd a <= snd b).
Definition lexlt (a b : pt) : Prop := fst a < fst b \/ (fst a = fst b /\ snd a < snd b).

Lemma lexle_refl : forall a, lexle a a.
Proof. intros [x y]. unfold lexle. cbn. lia. Qed.
Lemma lexle_trans : forall a b c, lexle a b -> lexle b c -> lexle a c.
Proof. intros [? ?] [? ?] [? ?]. unfold lexle. cbn. lia. Qed.
Lemma lexle_antisym : forall a b, lexle a b -> lexle b a -> a = b.
Proof. intros [? ?] [? ?]. unfold lexle. cbn. intros. f_equal; lia. Qed.
Lemma lexlt_le : forall a b, lexlt a b -> lexle a b.
Proof. intros [? ?] [? ?]. unfold lexle, lexlt. cbn. lia. Qed.
Lemma lexle_neq_lt : forall a b, lexle a b -> a <> b -> lexlt a b.
Proof.
  intros [ax ay] [bx by_]. unfold lexle, lexlt. cbn. intros H N.
  destruct H as [H|[H1 H2]]; [left; exact H|]. right. split; [exact H1|].
  destruct (Z.eq_dec ay by_); [subst; exfalso; apply N; reflexivity | lia].
Qed.
Lemma lexlt_irrefl : forall a, ~ lexlt a a.
Proof. intros [? ?]. unfold lexlt. cbn. lia. Qed.
Lemma lexle_total : forall a b, lexle a b \/ lexle b a.
Proof. intros [? ?] [? ?]. unfold lexle. cbn. lia. Qed.

Lemma orient_swap23 : forall a b c, orient a c b = - orient a b c.
Proof. intros [? ?] [? ?] [? ?]. unfold orient. cbn. ring. Qed.
Lemma orient_cycle : forall a b c, orient b c a = orient a b c.
Proof. intros [? ?] [? ?] [? ?]. unfold orient. cbn. ring. Qed.
Lemma orient_aab : forall a b, orient a a b = 0.
Proof. intros [? ?] [? ?]. unfold orient. cbn. ring. Qed.
Lemma orient_aba : forall a b, orient a b a = 0.
Proof. intros [? ?] [? ?]. unfold orient. cbn. ring. Qed.
Lemma orient_abb : forall a b, orient a b b = 0.
Proof. intros [? ?] [? ?]. unfold orient. cbn. ring. Qed.

(* ---- vector forms: cross products of three vectors; u x w written c(u,w) ---- *)
Section Vec.
  Variables ux uy wx wy zx zy : Z.
  Local Notation "'uw'" := (ux * wy - uy * wx).
  Local Notation "'wz'" := (wx * zy - wy * zx).
  Local Notation "'zu'" := (zx * uy - zy * ux).
  (* u (w x z) + w (z x u) + z (u x w) = 0, by coordinates *)
  Lemma triple_x : ux * wz + wx * zu + zx * uw = 0.
  Proof. ring. Qed.
  Lemma triple_y : uy * wz + wy * zu + zy * uw = 0.
  Proof. ring. Qed.
End Vec.

(* G6/G7 in vector form, origin at the middle vertex b: u = a-b, w = c-b, z = q-b *)
Lemma turn_right_prop : forall ux uy wx wy zx zy,
  (ux < 0 \/ (ux = 0 /\ uy <= 0)) -> (0 < wx \/ (wx = 0 /\ 0 <= wy)) -> (zx < 0 \/ (zx = 0 /\ zy <= 0)) ->
  0 < wx * uy - wy * ux -> 0 <= zx * uy - zy * ux ->
  0 <= wx * zy - wy * zx /\ ((zx <> 0 \/ zy <> 0) -> 0 < wx * zy - wy * zx).
Proof.
  intros ux uy wx wy zx zy Hu Hw Hz T A.
  pose proof (triple_x ux uy wx wy zx zy) as X.
  assert (Hux : ux < 0).
  { destruct Hu as [H|[H1 H2]]; [exact H|]. exfalso. subst ux.
    destruct Hw as [H|[H3 H4]]; nia. }
  assert (Hwx : 0 <= wx) by lia. assert (Hzx : zx <= 0) by lia.
  set (WZ := wx * zy - wy * zx) in *. set (ZU := zx * uy - zy * ux) in *. set (WU := wx * uy - wy * ux) in *.
  assert (X' : ux * WZ = - wx * ZU + zx * WU) by (unfold WZ, ZU, WU in *; lia).
  assert (R : - wx * ZU + zx * WU <= 0) by nia.
  split.
  - nia.
  - intros Hnz. destruct (Z.eq_dec zx 0) as [E|E].
    + exfalso. subst zx. assert (zy < 0) by lia. unfold ZU in A. nia.
    + assert (zx < 0) by lia. assert (zx * WU < 0) by nia. nia.
Qed.

Lemma turn_left_prop : forall ux uy wx wy zx zy,
  (ux < 0 \/ (ux = 0 /\ uy <= 0)) -> (0 < wx \/ (wx = 0 /\ 0 <= wy)) -> (0 < zx \/ (zx = 0 /\ 0 <= zy)) ->
  0 < wx * uy - wy * ux -> 0 <= wx * zy - wy * zx ->
  0 <= zx * uy - zy * ux /\ ((zx <> 0 \/ zy <> 0) -> 0 < zx * uy - zy * ux).
Proof.
  intros ux uy wx wy zx zy Hu Hw Hz T A.
  pose proof (triple_x ux uy wx wy zx zy) as X.
  assert (Hux : ux <= 0) by lia. assert (Hwx : 0 <= wx) by lia. assert (Hzx : 0 <= zx) by lia.
  set (WZ := wx * zy - wy * zx) in *. set (ZU := zx * uy - zy * ux) in *. set (WU := wx * uy - wy * ux) in *.
  assert (X' : wx * ZU = zx * WU - ux * WZ) by (unfold WZ, ZU, WU in *; lia).
  destruct (Z.eq_dec wx 0) as [E|E].
  - subst wx. assert (0 <= wy) by lia. unfold WU in T. unfold WZ in A.
    assert (ux < 0) by nia. assert (zx = 0) by nia. subst zx. assert (0 <= zy) by lia.
    unfold ZU. split; [nia|]. intros Hn. assert (0 < zy) by lia. nia.
  - assert (0 < wx) by lia. assert (R : 0 <= zx * WU - ux * WZ) by nia.
    split; [nia|]. intros Hn.
    destruct (Z.eq_dec zx 0) as [E2|E2].
    + subst zx. assert (0 < zy) by lia. unfold WZ in A. assert (wx * zy > 0) by nia.
      assert (0 < WZ) by (unfold WZ; nia).
      destruct (Z.eq_dec ux 0) as [E3|E3].
      * subst ux. unfold WU in T. unfold ZU. assert (uy <= 0) by lia. nia.
      * assert (ux < 0) by lia. assert (0 < - ux * WZ) by nia. nia.
    + assert (0 < zx) by lia. assert (0 < zx * WU) by nia. nia.
Qed.

(* G4, origin p: A <= B <= C <= 0 lexicographically *)
Lemma fan_trans : forall ax ay bx by_ cx cy,
  (ax < bx \/ (ax = bx /\ ay <= by_)) -> (bx < cx \/ (bx = cx /\ by_ <= cy)) -> (cx < 0 \/ (cx = 0 /\ cy <= 0)) ->
  0 <= bx * ay - by_ * ax -> 0 <= cx * by_ - cy * bx -> 0 <= cx * ay - cy * ax.
Proof.
  intros ax ay bx by_ cx cy HAB HBC HC0 H1 H2.
  pose proof (triple_x ax ay bx by_ cx cy) as X.
  set (CA := cx * ay - cy * ax) in *. set (BA := bx * ay - by_ * ax) in *. set (CB := cx * by_ - cy * bx) in *.
  assert (X' : bx * CA = ax * CB + cx * BA) by (unfold CA, BA, CB in *; lia).
  assert (ax <= 0 /\ bx <= 0 /\ cx <= 0) by lia.
  destruct (Z.eq_dec bx 0) as [E|E].
  - subst bx. assert (cx = 0) by lia. subst cx. unfold CA, BA in *.
    assert (by_ <= 0) by lia. assert (cy <= 0) by lia.
    destruct (Z.eq_dec ax 0) as [E2|E2]; [subst ax; lia|].
    assert (ax < 0) by lia. assert (by_ = 0) by nia. subst by_. assert (cy = 0) by lia. subst cy. lia.
  - assert (bx < 0) by lia. assert (ax * CB + cx * BA <= 0) by nia. nia.
Qed.

(* G5, origin a: 0 <= Q <= B <= P lexicographically *)
Lemma under_chord : forall qx qy bx by_ px py,
  (0 < qx \/ (0 = qx /\ 0 <= qy)) -> (qx < bx \/ (qx = bx /\ qy <= by_)) -> (bx < px \/ (bx = px /\ by_ <= py)) ->
  0 <= bx * qy - by_ * qx -> 0 <= px * by_ - py * bx -> 0 <= px * qy - py * qx.
Proof.
  intros qx qy bx by_ px py HQ HQB HBP H1 H2.
  pose proof (triple_x px py qx qy bx by_) as X.
  set (PQ := px * qy - py * qx) in *. set (BQ := bx * qy - by_ * qx) in *. set (PB := px * by_ - py * bx) in *.
  assert (X' : bx * PQ = px * BQ + qx * PB) by (unfold PQ, BQ, PB in *; lia).
  assert (0 <= qx /\ 0 <= bx /\ 0 <= px) by lia.
  destruct (Z.eq_dec bx 0) as [E|E].
  - subst bx. assert (qx = 0) by lia. subst qx. unfold PQ. assert (0 <= qy) by lia. nia.
  - assert (0 < bx) by lia. assert (0 <= px * BQ + qx * PB) by nia. nia.
Qed.

(* G8: d > 0, p > 0 > r lexicographically, p and r on the left of (or on) d: r is counter-clockwise of p *)
Lemma wedge : forall dx dy px py rx ry,
  (0 < dx \/ (dx = 0 /\ 0 < dy)) -> (0 < px \/ (px = 0 /\ 0 < py)) -> (rx < 0 \/ (rx = 0 /\ ry < 0)) ->
  0 <= dx * py - dy * px -> 0 <= dx * ry - dy * rx -> 0 <= px * ry - py * rx.
Proof.
  intros dx dy px py rx ry HD HP HR H1 H2.
  pose proof (triple_x dx dy px py rx ry) as X. pose proof (triple_y dx dy px py rx ry) as Y.
  set (PR := px * ry - py * rx) in *. set (DP := dx * py - dy * px) in *. set (DR := dx * ry - dy * rx) in *.
  assert (X' : dx * PR = px * DR - rx * DP) by (unfold PR, DP, DR in *; lia).
  assert (Y' : dy * PR = py * DR - ry * DP) by (unfold PR, DP, DR in *; lia).
  assert (0 <= px /\ rx <= 0) by lia.
  destruct (Z.eq_dec dx 0) as [E|E].
  - subst dx. assert (0 < dy) by lia. unfold DP in H1. unfold DR in H2.
    assert (px = 0) by nia. subst px. assert (0 < py) by lia.
    assert (EDP : DP = 0) by (unfold DP; lia). rewrite EDP in Y'.
    assert (0 <= py * DR) by nia. nia.
  - assert (0 < dx) by lia. assert (0 <= px * DR - rx * DP) by nia. nia.
Qed.

(* ---- the same on points ---- *)
Lemma orient_next : forall a b c q, lexle a b -> lexle b c -> lexle q b ->
  0 < orient a b c -> 0 <= orient a b q ->
  0 <= orient b c q /\ (q <> b -> 0 < orient b c q).
Proof.
  intros [ax ay] [bx by_] [cx cy] [qx qy]. unfold lexle, orient. cbn [fst snd]. intros Hab Hbc Hqb T A.
  destruct (turn_right_prop (ax - bx) (ay - by_) (cx - bx) (cy - by_) (qx - bx) (qy - by_)) as [R1 R2]; try lia.
  split; [lia|]. intros N. assert (qx - bx <> 0 \/ qy - by_ <> 0).
  { destruct (Z.eq_dec qx bx); [right|left; lia]. intro. apply N. f_equal; lia. }
  specialize (R2 H). lia.
Qed.

Lemma orient_prev : forall a b c q, lexle a b -> lexle b c -> lexle b q ->
  0 < orient a b c -> 0 <= orient b c q ->
  0 <= orient a b q /\ (q <> b -> 0 < orient a b q).
Proof.
  intros [ax ay] [bx by_] [cx cy] [qx qy]. unfold lexle, orient. cbn [fst snd]. intros Hab Hbc Hbq T A.
  destruct (turn_left_prop (ax - bx) (ay - by_) (cx - bx) (cy - by_) (qx - bx) (qy - by_)) as [R1 R2]; try lia.
  split; [lia|]. intros N. assert (qx - bx <> 0 \/ qy - by_ <> 0).
  { destruct (Z.eq_dec qx bx); [right|left; lia]. intro. apply N. f_equal; lia. }
  specialize (R2 H). lia.
Qed.

(* a <= b <= c <= p, b on/left of a->p, c on/left of b->p  ==>  c on/left of a->p *)
Lemma orient_fan : forall a b c p, lexle a b -> lexle b c -> lexle c p ->
  0 <= orient a p b -> 0 <= orient b p c -> 0 <= orient a p c.
Proof.
  intros [ax ay] [bx by_] [cx cy] [px py]. unfold lexle, orient. cbn [fst snd]. intros Hab Hbc Hcp H1 H2.
  pose proof (fan_trans (ax - px) (ay - py) (bx - px) (by_ - py) (cx - px) (cy - py)) as F. lia.
Qed.

(* a <= q <= b <= p, q on/left of a->b, b on/left of a->p  ==>  q on/left of a->p *)
Lemma orient_chord : forall a q b p, lexle a q -> lexle q b -> lexle b p ->
  0 <= orient a b q -> 0 <= orient a p b -> 0 <= orient a p q.
Proof.
  intros [ax ay] [qx qy] [bx by_] [px py]. unfold lexle, orient. cbn [fst snd]. intros Haq Hqb Hbp H1 H2.
  pose proof (under_chord (qx - ax) (qy - ay) (bx - ax) (by_ - ay) (px - ax) (py - ay)) as F. lia.
Qed.

(* v on the line a->b (a < b); u2 < v < u1; u1, u2 on/left of a->b  ==>  u1 -> v -> u2 is not a left turn *)
Lemma orient_wedge : forall a b v u1 u2, lexlt a b -> lexlt v u1 -> lexlt u2 v ->
  orient a b v = 0 -> 0 <= orient a b u1 -> 0 <= orient a b u2 -> orient u1 v u2 <= 0.
Proof.
  intros [ax ay] [bx by_] [vx vy] [px py] [rx ry]. unfold lexlt, orient. cbn [fst snd]. intros Hab Hvp Hrv H0 H1 H2.
  pose proof (wedge (bx - ax) (by_ - ay) (px - vx) (py - vy) (rx - vx) (ry - vy)) as W. lia.
Qed.

Lemma pt_eq_dec : forall a b : pt, {a = b} + {a <> b}.
Proof. intros [ax ay] [bx by_]. destruct (Z.eq_dec ax bx); destruct (Z.eq_dec ay by_); subst; auto; right; intro H; inversion H; contradiction. Qed.
