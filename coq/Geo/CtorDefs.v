(* C17 — constructors and transforms: executable models (no proofs here).

   Ported line by line from the pinned sources:
   * Manifold::Extrude  (src/constructors.cpp:215-290)   -> ext_sides / extrude_tris
   * Manifold::Revolve  (src/constructors.cpp:304-435)   -> rev_polys / revolve_tris
   * Quality::GetCircularSegments (src/manifold.cpp:98)  -> circ_segments
   * CsgNode::Translate/Scale (src/csg_tree.cpp:61-72), Manifold::Mirror
     (src/manifold.cpp), Impl::Transform's FlipTris (src/impl.cpp:594-671)
                                                          -> mat34, apply_tris
   * marching tetrahedra (src/sdf.cpp:37-83 tables, 85-130 index packing)
                                                          -> tet_* , encode_index / decode_index
   Only integers (vertex indices, counts, tables) are modelled; all coordinate
   computations are outside (they are checked on outputs by the exact
   classifier Geo/WindingDefs.winding).

   Loop counters are nat (so that loops are `seq`), vertex indices are Z. *)
From Coq Require Import ZArith List Bool.
Import ListNotations.
Local Open Scope Z_scope.

Definition zn (n : nat) : Z := Z.of_nat n.

Definition itri : Type := (Z * Z * Z)%type.     (* ivec3 of vertex indices *)
Definition edge : Type := (Z * Z)%type.         (* directed edge *)

(* ---- private chain algebra (DESIGN 2.4; Base/Chain.v did not exist yet) ----
   coefficient of the directed edge a->b in a formal sum of directed edges,
   modulo reversal: [a->b] = -[b->a], [a->a] = 0. *)
Definition ecoef (e : edge) (a b : Z) : Z :=
  (if (fst e =? a) && (snd e =? b) then 1 else 0) -
  (if (fst e =? b) && (snd e =? a) then 1 else 0).

Fixpoint ccoef (c : list edge) (a b : Z) : Z :=
  match c with [] => 0 | e :: r => ecoef e a b + ccoef r a b end.

Definition bd (t : itri) : list edge := let '(a, b, c) := t in [(a, b); (b, c); (c, a)].
Definition tchain (ts : list itri) : list edge := flat_map bd ts.
Definition tcoef (ts : list itri) (a b : Z) : Z := ccoef (tchain ts) a b.

(* a triangle list is a closed oriented pseudo-surface iff its boundary chain is 0 *)
Definition closed (ts : list itri) : Prop := forall a b, tcoef ts a b = 0.

Definition tri_in_range (nv : Z) (t : itri) : Prop :=
  let '(a, b, c) := t in (0 <= a < nv) /\ (0 <= b < nv) /\ (0 <= c < nv).

Definition tri_in_rangeb (nv : Z) (t : itri) : bool :=
  let '(a, b, c) := t in
  (0 <=? a) && (a <? nv) && (0 <=? b) && (b <? nv) && (0 <=? c) && (c <? nv).

(* the closed polygon  f(off+n-1) -> f(off) -> f(off+1) -> ... -> f(off+n-1):
   one edge per vertex v, from its predecessor (cyclically) to v *)
Definition lastv (n v : nat) : nat := (if Nat.eqb v 0 then n else v) - 1.
Definition contour (f : Z -> Z) (off : Z) (n : nat) : list edge :=
  map (fun v => (f (off + zn (lastv n v)), f (off + zn v))) (seq 0 n).
Fixpoint contours (f : Z -> Z) (off : Z) (sizes : list nat) : list edge :=
  match sizes with
  | [] => []
  | n :: rest => contour f off n ++ contours f (off + zn n) rest
  end.

Definition total (sizes : list nat) : Z := fold_right (fun n acc => zn n + acc) 0 sizes.

(* ========================= Extrude ======================================== *)
(* inner loop body, constructors.cpp:252-268.  off = idx + nCrossSection*i,
   N = nCrossSection, apex = Some (nCrossSection*i + j) on the last level of a
   cone. *)
Definition ext_vert (n : nat) (off N : Z) (apex : option Z) (v : nat) : list itri :=
  let this := zn v + off in
  let last := (if Nat.eqb v 0 then zn n else zn v) - 1 + off in
  match apex with
  | Some a => [(a, last - N, this - N)]
  | None => [(this, last, this - N); (last, last - N, this - N)]
  end.

Definition ext_ring (n : nat) (off N : Z) (apex : option Z) : list itri :=
  flat_map (ext_vert n off N apex) (seq 0 n).

(* loop over the contours at level i (idx and j are the running counters) *)
Fixpoint ext_level (sizes : list nat) (N i : Z) (coneLevel : bool) (idx j : Z) : list itri :=
  match sizes with
  | [] => []
  | n :: rest =>
      ext_ring n (idx + N * i) N (if coneLevel then Some (N * i + j) else None)
      ++ ext_level rest N i coneLevel (idx + zn n) (j + 1)
  end.

(* nDivArg is the argument; the code works with nDivisions = nDivArg + 1 *)
Definition ext_sides (sizes : list nat) (nDivArg : nat) (isCone : bool) : list itri :=
  let N := total sizes in
  let nd := S nDivArg in
  flat_map (fun i => ext_level sizes N (zn i) (isCone && Nat.eqb i nd) 0 0) (seq 1 nd).

(* vertPos.size() after the loops *)
Definition ext_nverts (sizes : list nat) (nDivArg : nat) (isCone : bool) : Z :=
  let N := total sizes in
  if isCone then N * zn (S nDivArg) + zn (length sizes) else N * (zn (S nDivArg) + 1).

Definition shift_tri (k : Z) (t : itri) : itri := let '(a, b, c) := t in (a + k, b + k, c + k).
Definition flip_itri (t : itri) : itri := let '(a, b, c) := t in (a, c, b).

(* lines 277-281: `top` is what TriangulateIdx returned (indices = bottom verts) *)
Definition ext_caps (top : list itri) (N : Z) (nd : nat) (isCone : bool) : list itri :=
  flat_map (fun t => flip_itri t :: (if isCone then [] else [shift_tri (N * zn nd) t])) top.

Definition extrude_tris (sizes : list nat) (nDivArg : nat) (isCone : bool) (top : list itri) : list itri :=
  ext_sides sizes nDivArg isCone ++ ext_caps top (total sizes) (S nDivArg) isCone.

(* ========================= Revolve ======================================== *)
(* A clipped polygon is abstracted to its list of flags  x > 0  (true) /
   x == 0 (false) — after clipping every x is >= 0 (NaN excluded).  *)
Definition col_width (nSlices : nat) (cur : bool) : Z :=
  if cur then zn nSlices else (if Nat.eqb nSlices 0 then 0 else 1).

(* slice loop, constructors.cpp:387-411 *)
Definition rev_vert (nDiv nSlices : nat) (full : bool) (s prevStart : Z) (cur prev : bool) : list itri :=
  flat_map (fun slice =>
    if full || negb (Nat.eqb slice 0) then
      let sl := zn slice in
      let la := (if Nat.eqb slice 0 then zn nDiv else sl) - 1 in
      (if cur then [(s + sl, s + la, if prev then prevStart + la else prevStart)] else [])
      ++ (if prev then [(prevStart + la, prevStart + sl, if cur then s + sl else s)] else [])
    else []) (seq 0 nSlices).

(* polyVert loop, lines 373-413: returns (triangles, startPoses, endPoses, vertPos.size()) *)
Fixpoint rev_poly_go (all rem : list bool) (nDiv nSlices : nat) (full : bool)
         (nAxis nPos : Z) (pv : nat) (s : Z) : list itri * list Z * list Z * Z :=
  match rem with
  | [] => ([], [], [], s)
  | cur :: rest =>
      let prev := nth (if Nat.eqb pv 0 then length all - 1 else pv - 1)%nat all false in
      let prevStart := s + (if Nat.eqb pv 0 then nAxis + zn nSlices * nPos else 0)
                         + (if prev then - zn nSlices else -1) in
      let w := col_width nSlices cur in
      let '(ts, st, en, s') := rev_poly_go all rest nDiv nSlices full nAxis nPos (S pv) (s + w) in
      (rev_vert nDiv nSlices full s prevStart cur prev ++ ts, s :: st, (s + w - 1) :: en, s')
  end.

Definition count_pos (fl : list bool) : Z := zn (length (filter (fun b => b) fl)).
Definition count_axis (fl : list bool) : Z := zn (length (filter negb fl)).

Definition rev_poly (fl : list bool) (nDiv nSlices : nat) (full : bool) (s : Z) :=
  rev_poly_go fl fl nDiv nSlices full (count_axis fl) (count_pos fl) 0 s.

Fixpoint rev_polys (polys : list (list bool)) (nDiv nSlices : nat) (full : bool) (s : Z)
  : list itri * list Z * list Z * Z :=
  match polys with
  | [] => ([], [], [], s)
  | fl :: rest =>
      let '(t1, st1, en1, s1) := rev_poly fl nDiv nSlices full s in
      let '(t2, st2, en2, s2) := rev_polys rest nDiv nSlices full s1 in
      (t1 ++ t2, st1 ++ st2, en1 ++ en2, s2)
  end.

Definition rev_nslices (nDiv : nat) (full : bool) : nat := if full then nDiv else S nDiv.

Definition nthz (l : list Z) (i : Z) : Z := nth (Z.to_nat i) l (-1).
Definition map_tri (f : Z -> Z) (t : itri) : itri := let '(a, b, c) := t in (f a, f b, f c).
Definition rev_tri (t : itri) : itri := let '(a, b, c) := t in (c, b, a).

(* whole Revolve index generation; `front` is what Triangulate(polygons) returned
   (indices into the flattened clipped polygons).  Returns (triVerts, #verts). *)
Definition revolve_tris (polys : list (list bool)) (nDiv : nat) (full : bool) (front : list itri)
  : list itri * Z :=
  let '(sides, st, en, nv) := rev_polys polys nDiv (rev_nslices nDiv full) full 0 in
  (sides ++ (if full then [] else
               map (map_tri (nthz st)) front ++ map (fun t => rev_tri (map_tri (nthz en) t)) front),
   nv).

(* ========================= Quality::GetCircularSegments =================== *)
(* explicit = circularSegments_; m = integer part of fmin(nSegA, nSegL)
   (nSeg = int(fmin(nSegA,nSegL) + 3) = m + 3 for 0 <= fmin < 2^31-3) *)
Definition circ_segments (explicit m : Z) : Z :=
  if 0 <? explicit then explicit
  else let nSeg := m + 3 in
       let nSeg := nSeg - Z.rem nSeg 4 in
       Z.max nSeg 4.

(* Sphere: n = circularSegments > 0 ? (circularSegments+3)/4 : GetCircularSegments/4 *)
Definition sphere_n (arg explicit m : Z) : Z :=
  if 0 <? arg then Z.quot (arg + 3) 4 else Z.quot (circ_segments explicit m) 4.
(* Cylinder: n = circularSegments > 2 ? circularSegments : GetCircularSegments *)
Definition cylinder_n (arg explicit m : Z) : Z :=
  if 2 <? arg then arg else circ_segments explicit m.

(* ========================= affine maps over Z ============================= *)
Definition v3 : Type := (Z * Z * Z)%type.
(* mat3x4, column major as linalg: columns c0 c1 c2 and translation c3 *)
Record mat34 := M34 { c0 : v3; c1 : v3; c2 : v3; c3 : v3 }.

Definition vx (p : v3) : Z := fst (fst p).
Definition vy (p : v3) : Z := snd (fst p).
Definition vz (p : v3) : Z := snd p.
Definition vadd (a b : v3) : v3 := (vx a + vx b, vy a + vy b, vz a + vz b).
Definition vscale (k : Z) (a : v3) : v3 := (k * vx a, k * vy a, k * vz a).

(* m * vec4(p, 1) *)
Definition apply (m : mat34) (p : v3) : v3 :=
  vadd (vadd (vadd (vscale (vx p) (c0 m)) (vscale (vy p) (c1 m))) (vscale (vz p) (c2 m))) (c3 m).

Definition mat_id : mat34 := M34 (1,0,0) (0,1,0) (0,0,1) (0,0,0).
(* CsgNode::Translate: identity; transform[3] += t *)
Definition mat_translate (t : v3) : mat34 := M34 (1,0,0) (0,1,0) (0,0,1) t.
(* CsgNode::Scale: zero matrix with diagonal v *)
Definition mat_scale (v : v3) : mat34 := M34 (vx v,0,0) (0,vy v,0) (0,0,vz v) (0,0,0).
(* Manifold::Mirror with an integer "unit" normal n (|n|^2 = 1 is the caller's
   normalisation): m = I - 2 n n^T.  Kept general: d = n.n, matrix scaled by d *)
Definition mat_mirror_scaled (n : v3) : mat34 :=
  let d := vx n * vx n + vy n * vy n + vz n * vz n in
  M34 (d - 2 * vx n * vx n, - 2 * vx n * vy n, - 2 * vx n * vz n)
      (- 2 * vy n * vx n, d - 2 * vy n * vy n, - 2 * vy n * vz n)
      (- 2 * vz n * vx n, - 2 * vz n * vy n, d - 2 * vz n * vz n) (0,0,0).
(* rotation by multiples of 90 degrees: matrices of CsgNode::Rotate with
   (c,s) = (cosd, sind) of each angle; rZ * rY * rX *)
Definition mat_rot (cx sx cy sy cz sz : Z) : mat34 :=
  let rX := M34 (1,0,0) (0,cx,sx) (0,-sx,cx) (0,0,0) in
  let rY := M34 (cy,0,-sy) (0,1,0) (sy,0,cy) (0,0,0) in
  let rZ := M34 (cz,sz,0) (-sz,cz,0) (0,0,1) (0,0,0) in
  let lin (a b : mat34) := (* a * b, linear parts *)
      let col c := apply (M34 (c0 a) (c1 a) (c2 a) (0,0,0)) c in
      M34 (col (c0 b)) (col (c1 b)) (col (c2 b)) (0,0,0) in
  lin rZ (lin rY rX).

(* composition: (compose a b) p = a (b p)   [transform_ * Mat4(other)] *)
Definition compose (a b : mat34) : mat34 :=
  let col c := apply (M34 (c0 a) (c1 a) (c2 a) (0,0,0)) c in
  M34 (col (c0 b)) (col (c1 b)) (col (c2 b)) (apply a (c3 b)).

Definition det34 (m : mat34) : Z :=
  let '(a, b, c) := (c0 m, c1 m, c2 m) in
    vx a * (vy b * vz c - vz b * vy c)
  - vy a * (vx b * vz c - vz b * vx c)
  + vz a * (vx b * vy c - vy b * vx c).

Definition ptri : Type := (v3 * v3 * v3)%type.
Definition pdet3 (a b c : v3) : Z :=
    vx a * (vy b * vz c - vz b * vy c)
  - vy a * (vx b * vz c - vz b * vx c)
  + vz a * (vx b * vy c - vy b * vx c).
Definition pvolume6 (ts : list ptri) : Z :=
  fold_right (fun t acc => let '(a, b, c) := t in pdet3 a b c + acc) 0 ts.
Definition pflip (t : ptri) : ptri := let '(a, b, c) := t in (a, c, b).

(* Impl::Transform on positions + FlipTris when det < 0.  FlipTris swaps the
   halfedges 3t+1 / 3t+2 start vertices, i.e. (a,b,c) -> (a,c,b). *)
Definition transform_tris (m : mat34) (ts : list ptri) : list ptri :=
  let moved := map (fun t : ptri => let '(a, b, c) := t in (apply m a, apply m b, apply m c)) ts in
  if det34 m <? 0 then map pflip moved else moved.

(* ========================= shape tables =================================== *)
(* position-indexed triangles; coordinates scaled by an integer factor *)
Definition tris_of (verts : list v3) (ts : list itri) : list ptri :=
  map (fun t : itri => let '(a, b, c) := t in
         (nth (Z.to_nat a) verts (0,0,0), nth (Z.to_nat b) verts (0,0,0), nth (Z.to_nat c) verts (0,0,0))) ts.

(* executable closedness: every directed edge occurring has coefficient 0, and
   occurs exactly once (2-manifold: each directed edge once, its reverse once) *)
Definition count_edge (c : list edge) (a b : Z) : nat :=
  length (filter (fun e : edge => (fst e =? a) && (snd e =? b)) c).
Definition manifold_closedb (ts : list itri) : bool :=
  let c := tchain ts in
  forallb (fun e : edge => Nat.eqb (count_edge c (fst e) (snd e)) 1 &&
                           Nat.eqb (count_edge c (snd e) (fst e)) 1 &&
                           negb (fst e =? snd e)) c.

(* executable form of `closed`: every directed edge that occurs has net coefficient 0 *)
Definition chain_closedb (ts : list itri) : bool :=
  let c := tchain ts in forallb (fun e : edge => ccoef c (fst e) (snd e) =? 0) c.

Definition shape_ok (verts : list v3) (ts : list itri) : bool :=
  forallb (tri_in_rangeb (zn (length verts))) ts && manifold_closedb ts &&
  (0 <? pvolume6 (tris_of verts ts)).

(* ========================= marching tetrahedra ============================ *)
(* corner pair of each of the 6 tet edges as BuildTris::operator() fills
   edges1/edges2 (src/sdf.cpp:395-430): 0:(0,1) 1:(1,2) 2:(2,3) 3:(0,3) 4:(0,2) 5:(1,3) *)
Definition tet_edge_ends : list (nat * nat) := [(0,1); (1,2); (2,3); (0,3); (0,2); (1,3)]%nat.

(* sign pattern i: corner k inside (tet[k] > 0) iff bit k of i *)
Definition corner_in (i k : nat) : bool := Nat.testbit i k.

(* triangles (edge triples) emitted for pattern i by CreateTris from the tables *)
Definition tet_tris (t0 t1 : list itri) (i : nat) : list itri :=
  filter (fun t : itri => 0 <=? fst (fst t)) [nth i t0 (-1,-1,-1); nth i t1 (-1,-1,-1)].

Definition ends_of (e : Z) : nat * nat := nth (Z.to_nat e) tet_edge_ends (0,0)%nat.

(* edge e is a crossing edge for pattern i *)
Definition crossing (i : nat) (e : Z) : bool :=
  let '(p, q) := ends_of e in xorb (corner_in i p) (corner_in i q).

Definition tri_edges (t : itri) : list Z := let '(a, b, c) := t in [a; b; c].

(* the tet face opposite to corner k is spanned by the other three corners; an
   edge lies in it iff neither end is k *)
Definition edge_in_face (k : nat) (e : Z) : bool :=
  let '(p, q) := ends_of e in negb (Nat.eqb p k) && negb (Nat.eqb q k).

(* directed segments (between edge midpoints) the triangles of pattern i leave
   on the face opposite corner k: the triangle sides both of whose ends lie on
   edges of that face, after cancelling the interior diagonal of a quad *)
Definition face_segs (ts : list itri) (k : nat) : list edge :=
  let all := tchain ts in
  filter (fun s : edge => edge_in_face k (fst s) && edge_in_face k (snd s) &&
                          negb (ccoef all (fst s) (snd s) =? 0)) all.

(* pattern restricted to a face: the three signs of the corners other than k,
   in increasing corner order *)
Definition face_signs (i k : nat) : list bool :=
  map (corner_in i) (filter (fun c => negb (Nat.eqb c k)) [0;1;2;3]%nat).

(* reference geometry (doubled coordinates) of the first tetrahedron of
   BuildTris (i = 0): corners tet[0..3] =
   neighbour 0, base, base + x, neighbour 6  (Position(): w=1 -> integer, w=0 -> -1/2) *)
Definition ref_corner (k : nat) : v3 :=
  nth k [(1,1,1); (0,0,0); (2,0,0); (1,1,-1)] (0,0,0).
Definition ref_mid2 (e : Z) : v3 := let '(p, q) := ends_of e in vadd (ref_corner p) (ref_corner q).
Definition vsub (a b : v3) : v3 := (vx a - vx b, vy a - vy b, vz a - vz b).

(* the triangle's normal points from every inside corner towards every outside
   corner: for inside corner p and outside corner q,
   det(b-a, c-a, q-p) > 0   (midpoints doubled: positive factor) *)
Definition tri_separates (i : nat) (t : itri) : bool :=
  let '(a, b, c) := t in
  let '(A, B, C) := (ref_mid2 a, ref_mid2 b, ref_mid2 c) in
  forallb (fun p => forallb (fun q =>
      if corner_in i p && negb (corner_in i q)
      then 0 <? pdet3 (vsub B A) (vsub C A) (vsub (ref_corner q) (ref_corner p))
      else true) [0;1;2;3]%nat) [0;1;2;3]%nat.

Definition zmem (x : Z) (l : list Z) : bool := existsb (Z.eqb x) l.

Definition tet_pattern_ok (t0 t1 : list itri) (i : nat) : bool :=
  let ts := tet_tris t0 t1 i in
  let used := flat_map tri_edges ts in
  (* only crossing edges are used, every crossing edge is used *)
  forallb (crossing i) used &&
  forallb (fun e => Bool.eqb (crossing i e) (zmem e used)) [0;1;2;3;4;5] &&
  (* number of triangles = number of crossing edges - 2 (0 when nothing crosses) *)
  Nat.eqb (length ts) (length (filter (crossing i) [0;1;2;3;4;5]%Z) - 2) &&
  (* orientation: normals point from inside (distance > 0) to outside *)
  forallb (tri_separates i) ts &&
  (* the boundary of the patch passes through every crossing edge exactly once
     (one outgoing and one incoming boundary segment): with 3 or 4 crossing
     edges and an antisymmetric chain this is a single cycle *)
  forallb (fun e => if crossing i e
                    then Z.eqb (fold_right Z.add 0 (map (fun f => Z.max 0 (ccoef (tchain ts) e f)) [0;1;2;3;4;5])) 1 &&
                         Z.eqb (fold_right Z.add 0 (map (fun f => Z.max 0 (ccoef (tchain ts) f e)) [0;1;2;3;4;5])) 1
                    else true) [0;1;2;3;4;5].

(* the segments on face k depend only on the face's three signs: compare
   pattern i with the pattern that differs in corner k only *)
Definition seg_eqb (a b : list edge) : bool :=
  forallb (fun s : edge => Z.eqb (ccoef a (fst s) (snd s)) (ccoef b (fst s) (snd s))) (a ++ b).

Definition tet_face_ok (t0 t1 : list itri) (i k : nat) : bool :=
  let i' := if corner_in i k then (i - Nat.pow 2 k)%nat else (i + Nat.pow 2 k)%nat in
  seg_eqb (face_segs (tet_tris t0 t1 i) k) (face_segs (tet_tris t0 t1 i') k).

Definition tet_tables_ok (t0 t1 : list itri) : bool :=
  Nat.eqb (length t0) 16 && Nat.eqb (length t1) 16 &&
  forallb (fun i => tet_pattern_ok t0 t1 i && forallb (tet_face_ok t0 t1 i) [0;1;2;3]%nat) (seq 0 16).

(* ---- BCC grid index packing (EncodeIndex / DecodeIndex) ------------------ *)
(* gridPos = (x,y,z,w), gridPow = (px,py,pz) *)
Definition encode_index (x y z w : Z) (py pz : Z) : Z :=
  Z.lor (Z.lor (Z.lor w (Z.shiftl z 1)) (Z.shiftl y (1 + pz))) (Z.shiftl x (1 + pz + py)).

Definition decode_index (idx : Z) (px py pz : Z) : Z * Z * Z * Z :=
  let w := Z.land idx 1 in
  let idx := Z.shiftr idx 1 in
  let z := Z.land idx (Z.shiftl 1 pz - 1) in
  let idx := Z.shiftr idx pz in
  let y := Z.land idx (Z.shiftl 1 py - 1) in
  let idx := Z.shiftr idx py in
  let x := Z.land idx (Z.shiftl 1 px - 1) in
  (x, y, z, w).
