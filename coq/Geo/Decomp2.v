(* C12 — lemmas about the ported DecomposeByContainment (Decomp2Defs.v). *)
From Coq Require Import ZArith List Bool Lia Permutation.
From MV Require Import Geo.Wind2Defs Geo.Wind2 Geo.Decomp2Defs.
Import ListNotations.
Local Open Scope Z_scope.

Lemma in_ziota : forall n i, In i (ziota n) <-> 0 <= i < n.
Proof.
  intros n i. unfold ziota. rewrite in_map_iff. split.
  - intros [k [<- Hk]]. apply in_seq in Hk. lia.
  - intros H. exists (Z.to_nat i). split; [lia | apply in_seq; lia].
Qed.

Lemma nodup_ziota : forall n, NoDup (ziota n).
Proof.
  intros n. unfold ziota. apply FinFun.Injective_map_NoDup; [|apply seq_NoDup].
  intros a b H. lia.
Qed.

Lemma ziota_split : forall n p, 0 <= p < n -> exists l2, ziota n = ziota p ++ p :: l2.
Proof.
  intros n p Hp. unfold ziota.
  replace (Z.to_nat n) with (Z.to_nat p + S (Z.to_nat (n - p - 1)))%nat by lia.
  rewrite seq_app, map_app. cbn [seq map plus].
  exists (map Z.of_nat (seq (S (Z.to_nat p)) (Z.to_nat (n - p - 1)))).
  f_equal. f_equal. lia.
Qed.

Lemma NoDup_app_intro : forall {A} (l1 l2 : list A),
  NoDup l1 -> NoDup l2 -> (forall x, In x l1 -> In x l2 -> False) -> NoDup (l1 ++ l2).
Proof.
  induction l1 as [|a l1 IH]; intros l2 N1 N2 D; [exact N2|].
  inversion N1; subst. cbn [app]. constructor.
  - intro Hin. apply in_app_or in Hin. destruct Hin as [Hin|Hin]; [contradiction|]. apply (D a (or_introl eq_refl) Hin).
  - apply IH; [assumption | assumption|]. intros x Hx1 Hx2. apply (D x (or_intror Hx1) Hx2).
Qed.

Section Proofs.
  Variable n : Z.
  Variable inside : Z -> Z -> bool.
  Variable area : Z -> Z.
  Hypothesis Hn : 0 <= n.

  Notation parent_of := (parent_of n inside area).
  Notation ancestor := (ancestor n inside area).
  Notation positive := (positive area).
  Notation positives := (positives n area).
  Notation comp_of := (comp_of area).
  Notation holes_of := (holes_of n inside area).

  (* ---- parent: the smallest-area container, -1 if none ---- *)
  Lemma parent_fold_spec : forall i l acc r,
    r = fold_left (parent_step inside area i) l acc ->
    (snd r = snd acc /\ fst r = fst acc /\ (forall j, In j l -> j <> i -> inside i j = true -> lt_best (Z.abs (area j)) (fst acc) = false))
    \/ (In (snd r) l /\ snd r <> i /\ inside i (snd r) = true /\ fst r = Some (Z.abs (area (snd r))) /\
        lt_best (Z.abs (area (snd r))) (fst acc) = true /\
        (forall j, In j l -> j <> i -> inside i j = true -> Z.abs (area (snd r)) <= Z.abs (area j))).
  Proof.
    intros i l. induction l as [|j l IH]; intros acc r Hr; cbn [fold_left] in Hr.
    - left. subst r. split; [reflexivity|]. split; [reflexivity|]. intros j [].
    - unfold parent_step at 2 in Hr.
      destruct (negb (i =? j) && inside i j && lt_best (Z.abs (area j)) (fst acc)) eqn:C.
      + apply andb_prop in C. destruct C as [C C3]. apply andb_prop in C. destruct C as [C1 C2].
        apply negb_true_iff in C1. apply Z.eqb_neq in C1.
        destruct (IH _ r Hr) as [[E1 [E2 H]]|[Hin [Hne [Hins [Hf [Hlt Hmin]]]]]]; cbn [fst snd] in *.
        * right. rewrite E1, E2. split; [left; reflexivity|]. split; [congruence|]. split; [exact C2|].
          split; [reflexivity|]. split; [exact C3|].
          intros j' [<-|Hj'] Hne' Hins'; [lia|]. specialize (H j' Hj' Hne' Hins'). cbn in H. apply Z.ltb_ge in H. exact H.
        * right. split; [right; exact Hin|]. split; [exact Hne|]. split; [exact Hins|]. split; [exact Hf|].
          cbn in Hlt. apply Z.ltb_lt in Hlt. split.
          { destruct (fst acc) as [b|]; [|reflexivity]. cbn in C3 |- *. apply Z.ltb_lt in C3. apply Z.ltb_lt. lia. }
          intros j' [<-|Hj'] Hne' Hins'; [lia | apply (Hmin j' Hj' Hne' Hins')].
      + destruct (IH _ r Hr) as [[E1 [E2 H]]|[Hin [Hne [Hins [Hf [Hlt Hmin]]]]]].
        * left. split; [exact E1|]. split; [exact E2|].
          intros j' [->|Hj'] Hne' Hins'; [|apply (H j' Hj' Hne' Hins')].
          destruct (lt_best (Z.abs (area j')) (fst acc)); [|reflexivity].
          rewrite Hins' in C. destruct (Z.eqb_spec i j'); [congruence | discriminate].
        * right. split; [right; exact Hin|]. repeat (split; [assumption|]).
          intros j' [->|Hj'] Hne' Hins'; [|apply (Hmin j' Hj' Hne' Hins')].
          assert (L : lt_best (Z.abs (area j')) (fst acc) = false).
          { destruct (lt_best (Z.abs (area j')) (fst acc)); [|reflexivity].
            rewrite Hins' in C. destruct (Z.eqb_spec i j'); [congruence | discriminate]. }
          destruct (fst acc) as [b|]; cbn in L, Hlt; [|discriminate].
          apply Z.ltb_ge in L. apply Z.ltb_lt in Hlt. lia.
  Qed.

  Theorem parent_of_spec : forall i,
    (parent_of i = -1 /\ forall j, 0 <= j < n -> j <> i -> inside i j = false) \/
    (0 <= parent_of i < n /\ parent_of i <> i /\ inside i (parent_of i) = true /\
     forall j, 0 <= j < n -> j <> i -> inside i j = true -> Z.abs (area (parent_of i)) <= Z.abs (area j)).
  Proof.
    intros i. unfold Decomp2Defs.parent_of.
    destruct (parent_fold_spec i (ziota n) (None, -1) _ eq_refl) as [[E1 [_ H]]|[Hin [Hne [Hins [_ [_ Hmin]]]]]]; cbn [fst snd] in *.
    - left. split; [exact E1|]. intros j Hj Hne. destruct (inside i j) eqn:E; [|reflexivity].
      specialize (H j (proj2 (in_ziota n j) Hj) Hne E). discriminate.
    - right. apply in_ziota in Hin. split; [exact Hin|]. split; [exact Hne|]. split; [exact Hins|].
      intros j Hj. apply Hmin. apply in_ziota. exact Hj.
  Qed.

  Lemma parent_range : forall i, -1 <= parent_of i < n.
  Proof. intros i. destruct (parent_of_spec i) as [[E _]|[R _]]; lia. Qed.

  Lemma walk_range : forall fuel p, -1 <= p < n -> -1 <= walk n inside area fuel p < n.
  Proof.
    induction fuel as [|f IH]; intros p Hp; cbn [walk]; [exact Hp|].
    destruct ((0 <=? p) && (area p <? 0)); [apply IH; apply parent_range | exact Hp].
  Qed.

  Lemma ancestor_range : forall i, -1 <= ancestor i < n.
  Proof. intros i. unfold Decomp2Defs.ancestor. apply walk_range. apply parent_range. Qed.

  (* ---- positives ---- *)
  Lemma positives_in : forall h, In h positives <-> 0 <= h < n /\ positive h = true.
  Proof. intros h. unfold Decomp2Defs.positives. rewrite filter_In, in_ziota. tauto. Qed.

  Lemma nodup_positives : NoDup positives.
  Proof. apply NoDup_filter. apply nodup_ziota. Qed.

  Lemma positives_split : forall p, 0 <= p < n -> positive p = true ->
    exists l2, positives = filter positive (ziota p) ++ p :: l2.
  Proof.
    intros p Hp Pp. unfold Decomp2Defs.positives. destruct (ziota_split n p Hp) as [l2 E]. rewrite E.
    rewrite filter_app. cbn [filter]. rewrite Pp. eexists. reflexivity.
  Qed.

  (* ---- push_at on a mapped list ---- *)
  Lemma push_at_map : forall (g : Z -> list Z) l1 p l2 x,
    push_at (length l1) x (map g (l1 ++ p :: l2)) = map g l1 ++ (g p ++ [x]) :: map g l2.
  Proof.
    intros g l1 p l2 x. induction l1 as [|a l1 IH]; cbn [length app map push_at]; [reflexivity|].
    f_equal. exact IH.
  Qed.

  (* ---- the imperative loop equals the specification ---- *)
  Definition comps_after (done : list Z) : list (list Z) :=
    map (fun h => h :: filter (fun i => negb (positive i) && (ancestor i =? h)) done) positives.

  Lemma attach_step : forall done i,
    attach n inside area (comps_after done) i = comps_after (done ++ [i]).
  Proof.
    intros done i. unfold attach, comps_after.
    destruct (positive i) eqn:Pi.
    - apply map_ext. intros h. rewrite filter_app. cbn [filter]. rewrite Pi. cbn [negb andb]. f_equal. symmetry. apply app_nil_r.
    - destruct ((ancestor i <? 0) || (comp_of (ancestor i) <? 0)) eqn:C.
      + apply map_ext_in. intros h Hh. rewrite filter_app. cbn [filter]. rewrite Pi. cbn [negb andb].
        destruct (Z.eqb_spec (ancestor i) h) as [E|_]; [|f_equal; symmetry; apply app_nil_r].
        exfalso. apply positives_in in Hh. destruct Hh as [Rh Ph].
        rewrite E in C. unfold Decomp2Defs.comp_of in C. rewrite Ph in C.
        apply orb_prop in C. destruct C as [C|C]; apply Z.ltb_lt in C; lia.
      + apply orb_false_iff in C. destruct C as [C1 C2]. apply Z.ltb_ge in C1. apply Z.ltb_ge in C2.
        set (p := ancestor i) in *.
        assert (Pp : positive p = true).
        { unfold Decomp2Defs.comp_of in C2. destruct (positive p); [reflexivity | lia]. }
        assert (Rp : 0 <= p < n) by (pose proof (ancestor_range i); fold p in H; lia).
        destruct (positives_split p Rp Pp) as [l2 E].
        assert (Ek : Z.to_nat (comp_of p) = length (filter positive (ziota p))).
        { unfold Decomp2Defs.comp_of. rewrite Pp. lia. }
        rewrite Ek. rewrite E. rewrite push_at_map. rewrite map_app. cbn [map].
        pose proof nodup_positives as ND. rewrite E in ND.
        assert (N1 : ~ In p (filter positive (ziota p))).
        { intro Hin. apply NoDup_remove_2 in ND. apply ND. apply in_or_app. left. exact Hin. }
        assert (N2 : ~ In p l2).
        { intro Hin. apply NoDup_remove_2 in ND. apply ND. apply in_or_app. right. exact Hin. }
        f_equal; [|f_equal].
        * apply map_ext_in. intros h Hh. rewrite filter_app. cbn [filter]. rewrite Pi. cbn [negb andb].
          destruct (Z.eqb_spec (ancestor i) h) as [E'|_]; [exfalso; rewrite <- E' in Hh; exact (N1 Hh) | f_equal; symmetry; apply app_nil_r].
        * rewrite filter_app. cbn [filter]. rewrite Pi. cbn [negb andb]. unfold p. rewrite Z.eqb_refl. reflexivity.
        * apply map_ext_in. intros h Hh. rewrite filter_app. cbn [filter]. rewrite Pi. cbn [negb andb].
          destruct (Z.eqb_spec (ancestor i) h) as [E'|_]; [exfalso; rewrite <- E' in Hh; exact (N2 Hh) | f_equal; symmetry; apply app_nil_r].
  Qed.

  Lemma attach_fold : forall l done,
    fold_left (attach n inside area) l (comps_after done) = comps_after (done ++ l).
  Proof.
    induction l as [|i l IH]; intros done; cbn [fold_left]; [rewrite app_nil_r; reflexivity|].
    rewrite attach_step, IH, <- app_assoc. reflexivity.
  Qed.

  Theorem decompose_eq_spec : decompose n inside area = decompose_spec n inside area.
  Proof.
    unfold decompose, decompose_spec.
    change (map (fun i => [i]) positives) with (comps_after []).
    rewrite attach_fold. reflexivity.
  Qed.

  (* ---- partition properties of the specification form ---- *)
  Lemma holes_of_in : forall h i, In i (holes_of h) <-> 0 <= i < n /\ positive i = false /\ ancestor i = h.
  Proof.
    intros h i. unfold Decomp2Defs.holes_of. rewrite filter_In, in_ziota, andb_true_iff, negb_true_iff, Z.eqb_eq. tauto.
  Qed.

  Theorem decompose_heads : map (hd 0) (decompose n inside area) = positives.
  Proof. rewrite decompose_eq_spec. unfold decompose_spec. rewrite map_map. cbn [hd]. apply map_id. Qed.

  Theorem decompose_member : forall i,
    In i (concat (decompose n inside area)) <->
    0 <= i < n /\ (positive i = true \/ (positive i = false /\ positive (ancestor i) = true /\ 0 <= ancestor i)).
  Proof.
    intros i. rewrite decompose_eq_spec. unfold decompose_spec. rewrite in_concat. split.
    - intros [c [Hc Hi]]. apply in_map_iff in Hc. destruct Hc as [h [<- Hh]].
      apply positives_in in Hh. destruct Hh as [Rh Ph].
      destruct Hi as [<-|Hi]; [split; [exact Rh | left; exact Ph]|].
      apply holes_of_in in Hi. destruct Hi as [Ri [Pi E]]. split; [exact Ri|]. right. subst h. split; [exact Pi|]. split; [exact Ph | lia].
    - intros [Ri [Pi|[Pi [Pa Ra]]]].
      + exists (i :: holes_of i). split; [|left; reflexivity].
        apply in_map_iff. exists i. split; [reflexivity | apply positives_in; split; assumption].
      + exists (ancestor i :: holes_of (ancestor i)). split.
        * apply in_map_iff. exists (ancestor i). split; [reflexivity|]. apply positives_in.
          pose proof (ancestor_range i). split; [lia | exact Pa].
        * right. apply holes_of_in. split; [exact Ri|]. split; [exact Pi | reflexivity].
  Qed.

  Lemma nodup_flat : forall l, NoDup l -> (forall h, In h l -> positive h = true) ->
    NoDup (concat (map (fun h => h :: holes_of h) l)).
  Proof.
    induction l as [|h l IH]; intros ND Hp; cbn [map concat]; [constructor|].
    inversion ND as [|? ? Hnot ND']; subst.
    assert (NH : NoDup (holes_of h)) by (apply NoDup_filter; apply nodup_ziota).
    assert (IHl := IH ND' (fun x Hx => Hp x (or_intror Hx))).
    cbn [app]. constructor.
    - intro Hin. apply in_app_or in Hin. destruct Hin as [Hin|Hin].
      + apply holes_of_in in Hin. destruct Hin as [_ [Pi _]]. rewrite (Hp h (or_introl eq_refl)) in Pi. discriminate.
      + apply in_concat in Hin. destruct Hin as [c [Hc Hi]]. apply in_map_iff in Hc. destruct Hc as [h' [<- Hh']].
        destruct Hi as [->|Hi]; [contradiction|].
        apply holes_of_in in Hi. destruct Hi as [_ [Pi _]]. rewrite (Hp h (or_introl eq_refl)) in Pi. discriminate.
    - apply NoDup_app_intro; [exact NH | exact IHl|].
      intros x Hx Hx'. apply holes_of_in in Hx. destruct Hx as [_ [Px Ex]].
      apply in_concat in Hx'. destruct Hx' as [c [Hc Hi]]. apply in_map_iff in Hc. destruct Hc as [h' [<- Hh']].
      destruct Hi as [<-|Hi].
      + rewrite (Hp h' (or_intror Hh')) in Px. discriminate.
      + apply holes_of_in in Hi. destruct Hi as [_ [_ Ex']]. subst. contradiction.
  Qed.

  Theorem decompose_nodup : NoDup (concat (decompose n inside area)).
  Proof.
    rewrite decompose_eq_spec. unfold decompose_spec. apply nodup_flat; [apply nodup_positives|].
    intros h Hh. apply positives_in in Hh. apply Hh.
  Qed.

  (* area additivity: when no hole is orphaned the components hold every ring exactly once *)
  Theorem decompose_complete : 
    (forall i, 0 <= i < n -> positive i = false -> positive (ancestor i) = true /\ 0 <= ancestor i) ->
    Permutation (concat (decompose n inside area)) (ziota n).
  Proof.
    intros Hall. apply NoDup_Permutation; [apply decompose_nodup | apply nodup_ziota|].
    intros i. rewrite decompose_member, in_ziota. split; [tauto|].
    intros Ri. split; [exact Ri|]. destruct (positive i) eqn:Pi; [left; reflexivity|].
    right. split; [reflexivity|]. apply Hall; assumption.
  Qed.

  Theorem decompose_area_additive : forall (a2 : Z -> Z),
    (forall i, 0 <= i < n -> positive i = false -> positive (ancestor i) = true /\ 0 <= ancestor i) ->
    zsum (map (fun c => zsum (map a2 c)) (decompose n inside area)) = zsum (map a2 (ziota n)).
  Proof.
    intros a2 Hall. rewrite <- (zsum_perm _ _ (Permutation_map a2 (decompose_complete Hall))).
    generalize (decompose n inside area). induction l as [|c l IH]; cbn [map concat zsum fold_right]; [reflexivity|].
    rewrite map_app, zsum_app. fold (zsum (map a2 c)). cbn [zsum] in IH. unfold zsum in *. lia.
  Qed.
End Proofs.

(* ---- area additivity without side conditions, and "no orphan" from the oracle's geometry ---- *)
Lemma filter_length_le : forall {A} (f g : A -> bool) l,
  (forall x, In x l -> f x = true -> g x = true) -> (length (filter f l) <= length (filter g l))%nat.
Proof.
  induction l as [|a l IH]; intros H; cbn [filter]; [lia|].
  assert (IH' := IH (fun x Hx => H x (or_intror Hx))).
  destruct (f a) eqn:Fa.
  - rewrite (H a (or_introl eq_refl) Fa). cbn [length]. lia.
  - destruct (g a); cbn [length]; lia.
Qed.

Lemma filter_length_lt : forall {A} (f g : A -> bool) l y,
  (forall x, In x l -> f x = true -> g x = true) -> In y l -> g y = true -> f y = false ->
  (length (filter f l) < length (filter g l))%nat.
Proof.
  induction l as [|a l IH]; intros y H Hy Gy Fy; [destruct Hy|].
  cbn [filter]. destruct Hy as [->|Hy].
  - rewrite Fy, Gy. cbn [length].
    pose proof (filter_length_le f g l (fun x Hx => H x (or_intror Hx))). lia.
  - assert (IH' := IH y (fun x Hx => H x (or_intror Hx)) Hy Gy Fy).
    destruct (f a) eqn:Fa.
    + rewrite (H a (or_introl eq_refl) Fa). cbn [length]. lia.
    + destruct (g a); cbn [length]; lia.
Qed.

Section Additivity.
  Variable n : Z.
  Variable inside : Z -> Z -> bool.
  Variable area : Z -> Z.
  Hypothesis Hn : 0 <= n.

  Definition member (i : Z) : bool :=
    positive area i || (positive area (ancestor n inside area i) && (0 <=? ancestor n inside area i)).

  (* unconditional: the components hold exactly the rings that are positive or
     have a positive ring at the end of their parent walk (orphan holes are
     dropped by the code), each once *)
  Theorem decompose_kept_perm :
    Permutation (concat (decompose n inside area)) (filter member (ziota n)).
  Proof.
    apply NoDup_Permutation; [apply decompose_nodup; exact Hn | apply NoDup_filter; apply nodup_ziota|].
    intros i. rewrite (decompose_member n inside area Hn), filter_In, in_ziota. unfold member.
    rewrite orb_true_iff, andb_true_iff, Z.leb_le.
    destruct (positive area i); intuition congruence.
  Qed.

  Theorem decompose_area_additive_kept : forall a2 : Z -> Z,
    zsum (map (fun c => zsum (map a2 c)) (decompose n inside area)) = zsum (map a2 (filter member (ziota n))).
  Proof.
    intros a2. rewrite <- (zsum_perm _ _ (Permutation_map a2 decompose_kept_perm)).
    generalize (decompose n inside area). induction l as [|c l IH]; cbn [map concat zsum fold_right]; [reflexivity|].
    rewrite map_app, zsum_app. cbn [zsum] in IH. unfold zsum in *. lia.
  Qed.

  (* geometry of a regularized cross-section, as assumptions on the oracle:
     a ring contained in another has strictly smaller |area|; kept rings have
     non-zero area; every hole is contained in some other ring *)
  Hypothesis Hgrow : forall i j, 0 <= i < n -> 0 <= j < n -> inside i j = true -> Z.abs (area i) < Z.abs (area j).
  Hypothesis Hnz : forall i, 0 <= i < n -> area i <> 0.
  Hypothesis Hcont : forall i, 0 <= i < n -> area i < 0 -> exists j, 0 <= j < n /\ j <> i /\ inside i j = true.

  Definition bigger (p : Z) : nat := length (filter (fun j => Z.abs (area p) <? Z.abs (area j)) (ziota n)).

  Lemma parent_of_hole : forall p, 0 <= p < n -> area p < 0 ->
    0 <= parent_of n inside area p < n /\ (bigger (parent_of n inside area p) < bigger p)%nat.
  Proof.
    intros p Rp Ap.
    destruct (parent_of_spec n inside area p) as [[_ Hnone]|[Rq [Hne [Hin _]]]].
    - exfalso. destruct (Hcont p Rp Ap) as [j [Rj [Nj Ij]]]. rewrite (Hnone j Rj Nj) in Ij. discriminate.
    - split; [exact Rq|]. set (q := parent_of n inside area p) in *.
      pose proof (Hgrow p q Rp Rq Hin) as Hlt.
      unfold bigger. apply (filter_length_lt _ _ (ziota n) q).
      + intros x _ Hx. apply Z.ltb_lt in Hx. apply Z.ltb_lt. lia.
      + apply in_ziota. exact Rq.
      + apply Z.ltb_lt. exact Hlt.
      + apply Z.ltb_ge. lia.
  Qed.

  Lemma walk_reaches : forall fuel p, 0 <= p < n -> (bigger p < fuel)%nat ->
    0 <= walk n inside area fuel p < n /\ 0 < area (walk n inside area fuel p).
  Proof.
    induction fuel as [|f IH]; intros p Rp Hm; [lia|].
    cbn [walk]. destruct ((0 <=? p) && (area p <? 0)) eqn:C.
    - apply andb_prop in C. destruct C as [_ C]. apply Z.ltb_lt in C.
      destruct (parent_of_hole p Rp C) as [Rq Hlt]. apply IH; [exact Rq | lia].
    - split; [exact Rp|]. apply andb_false_iff in C. destruct C as [C|C].
      + apply Z.leb_gt in C. lia.
      + apply Z.ltb_ge in C. pose proof (Hnz p Rp). lia.
  Qed.

  Theorem no_orphan_holes : forall i, 0 <= i < n -> positive area i = false ->
    positive area (ancestor n inside area i) = true /\ 0 <= ancestor n inside area i.
  Proof.
    intros i Ri Pi. unfold Decomp2Defs.positive in Pi. apply Z.ltb_ge in Pi.
    assert (Ai : area i < 0) by (pose proof (Hnz i Ri); lia).
    destruct (parent_of_hole i Ri Ai) as [Rq _].
    unfold Decomp2Defs.ancestor.
    assert (Hb : (bigger (parent_of n inside area i) < Z.to_nat (n + 1))%nat).
    { unfold bigger. pose proof (filter_length_le (fun j => Z.abs (area (parent_of n inside area i)) <? Z.abs (area j)) (fun _ => true) (ziota n) (fun _ _ _ => eq_refl)) as L.
      assert (E : length (filter (fun _ : Z => true) (ziota n)) = Z.to_nat n).
      { clear. unfold ziota. induction (seq 0 (Z.to_nat n)) as [|a l IH] eqn:El in |- *.
        - cbn. pose proof (seq_length (Z.to_nat n) 0) as SL. rewrite El in SL. cbn in SL. lia.
        - pose proof (seq_length (Z.to_nat n) 0) as SL. rewrite El in SL.
          assert (G : forall l' : list nat, length (filter (fun _ : Z => true) (map Z.of_nat l')) = length l').
          { induction l' as [|b l' IHl]; cbn; [reflexivity | rewrite IHl; reflexivity]. }
          rewrite G. exact SL. }
      lia. }
    destruct (walk_reaches _ _ Rq Hb) as [Rw Aw].
    split; [unfold Decomp2Defs.positive; apply Z.ltb_lt; exact Aw | lia].
  Qed.

  (* hence for such input every kept ring is in exactly one component and areas add up *)
  Theorem decompose_area_additive_regular : forall a2 : Z -> Z,
    zsum (map (fun c => zsum (map a2 c)) (decompose n inside area)) = zsum (map a2 (ziota n)).
  Proof. intros a2. apply (decompose_area_additive n inside area Hn a2). exact no_orphan_holes. Qed.
End Additivity.

Lemma decompose_example_ok :
  decompose_rings [ [(0,0);(10,0);(10,10);(0,10)]; [(1,9);(9,9);(9,1);(1,1)]; [(2,2);(8,2);(8,8);(2,8)];
                    [(3,4);(4,4);(4,3);(3,3)]; [(20,0);(22,0);(22,2);(20,2)] ] = [[0; 1]; [2; 3]; [4]].
Proof. vm_compute. reflexivity. Qed.

(* ---- what the containment oracle is in the code: RingInside ---- *)
Lemma ring_inside_spec : forall a b : contour,
  ring_inside a b = true <-> bbox_inside a b = true /\ forall p, In p a -> point_in_ring p b = true.
Proof.
  intros a b. unfold ring_inside. rewrite andb_true_iff, forallb_forall. tauto.
Qed.

(* one vertex does not decide: a hole whose first stored vertex touches a thin bracket (the
   bracket's bounding box contains the hole's) has that vertex in the closed bracket, yet is not inside it *)
Lemma first_vertex_insufficient_witness :
  let H := [(7, 3); (5, 6); (9, 6)] in
  let B := [(0, 0); (14, 0); (14, 7); (13, 7); (13, 1); (8, 1); (7, 3); (6, 1); (1, 1); (1, 7); (0, 7)] in
  point_in_ring (hd (0, 0) H) B = true /\ bbox_inside H B = true /\ ring_inside H B = false.
Proof. vm_compute. repeat split; reflexivity. Qed.

