(* C11 — soundness of the exact output checkers of RegularDefs.v. *)
From Coq Require Import ZArith List Bool Lia Permutation ZifyBool Sorting.Sorted Orders Sorting.Mergesort.
From MV Require Import Geo.Wind2Defs Geo.Wind2 Geo.RegularDefs.
Import ListNotations.
Local Open Scope Z_scope.

(* ---------- pure arithmetic: two parametrised points coincide ---------- *)
Section Param.
  Variables ax ay bx by_ cx cy dx dy k s t : Z.
  Hypothesis Hk : 0 < k.
  Hypothesis Hs : 0 <= s <= k.
  Hypothesis Ht : 0 <= t <= k.
  Hypothesis Ex : k * ax + s * (bx - ax) = k * cx + t * (dx - cx).
  Hypothesis Ey : k * ay + s * (by_ - ay) = k * cy + t * (dy - cy).

  Let ux := bx - ax. Let uy := by_ - ay.
  Let vx := dx - cx. Let vy := dy - cy.
  Let wx := cx - ax. Let wy := cy - ay.
  Let D := ux * vy - uy * vx.
  Let o1 := ux * wy - uy * wx.                       (* orient a b c *)
  Let o2 := ux * (dy - ay) - uy * (dx - ax).         (* orient a b d *)
  Let o3 := vx * (ay - cy) - vy * (ax - cx).         (* orient c d a *)
  Let o4 := vx * (by_ - cy) - vy * (bx - cx).        (* orient c d b *)

  Lemma kwx : k * wx = s * ux - t * vx. Proof. unfold wx, ux, vx. lia. Qed.
  Lemma kwy : k * wy = s * uy - t * vy. Proof. unfold wy, uy, vy. lia. Qed.

  Lemma ko1 : k * o1 = - t * D.
  Proof. unfold o1, D. replace (k * (ux * wy - uy * wx)) with (ux * (k * wy) - uy * (k * wx)) by ring. rewrite kwx, kwy. ring. Qed.
  Lemma ko2 : k * o2 = (k - t) * D.
  Proof.
    assert (o2 = o1 + D) by (unfold o2, o1, D, ux, uy, vx, vy, wx, wy; ring).
    rewrite H. rewrite Z.mul_add_distr_l, ko1. ring.
  Qed.
  Lemma ko3 : k * o3 = s * D.
  Proof.
    assert (o3 = vy * wx - vx * wy) by (unfold o3, wx, wy; ring). rewrite H.
    replace (k * (vy * wx - vx * wy)) with (vy * (k * wx) - vx * (k * wy)) by ring. rewrite kwx, kwy. unfold D. ring.
  Qed.
  Lemma ko4 : k * o4 = - (k - s) * D.
  Proof.
    assert (o4 = o3 - D) by (unfold o4, o3, D, ux, uy, vx, vy; ring).
    rewrite H. rewrite Z.mul_sub_distr_l, ko3. ring.
  Qed.

  Lemma prod_nonpos : forall x y p q, k * x = - p * D -> k * y = q * D -> 0 <= p -> 0 <= q -> x * y <= 0.
  Proof.
    intros x y p q H1 H2 Hp Hq.
    assert (A : (k * x) * (k * y) <= 0).
    { rewrite H1, H2. replace (- p * D * (q * D)) with (- ((p * q) * (D * D))) by ring.
      assert (0 <= p * q) by nia. assert (0 <= D * D) by nia. nia. }
    replace (k * x * (k * y)) with ((k * k) * (x * y)) in A by ring.
    assert (0 < k * k) by nia. nia.
  Qed.

  Lemma cross_case : D <> 0 -> ~ ((s = 0 \/ s = k) /\ (t = 0 \/ t = k)) ->
    o1 * o2 <= 0 /\ o3 * o4 <= 0 /\ ~ ((o3 = 0 \/ o4 = 0) /\ (o1 = 0 \/ o2 = 0)).
  Proof.
    intros HD Hne. pose proof ko1 as K1. pose proof ko2 as K2. pose proof ko3 as K3. pose proof ko4 as K4.
    split; [|split].
    - apply (prod_nonpos o1 o2 t (k - t)); [exact K1 | exact K2 | lia | lia].
    - rewrite Z.mul_comm. apply (prod_nonpos o4 o3 (k - s) s); [exact K4 | exact K3 | lia | lia].
    - intros [H34 H12]. apply Hne. split.
      + destruct H34 as [H|H].
        * left. rewrite H in K3. assert (s * D = 0) by lia. apply Z.mul_eq_0 in H0. lia.
        * right. rewrite H in K4. assert ((k - s) * D = 0) by lia. apply Z.mul_eq_0 in H0. lia.
      + destruct H12 as [H|H].
        * left. rewrite H in K1. assert (t * D = 0) by lia. apply Z.mul_eq_0 in H0. lia.
        * right. rewrite H in K2. assert ((k - t) * D = 0) by lia. apply Z.mul_eq_0 in H0. lia.
  Qed.

  Let L := ux * ux + uy * uy.
  Let al := ux * wx + uy * wy.
  Let be := ux * (dx - ax) + uy * (dy - ay).

  Lemma sL : s * L = (k - t) * al + t * be.
  Proof.
    assert (be = al + (ux * vx + uy * vy)) by (unfold be, al, vx, vy, wx, wy; ring).
    rewrite H.
    replace ((k - t) * al + t * (al + (ux * vx + uy * vy))) with (ux * (k * wx) + uy * (k * wy) + t * (ux * vx + uy * vy)) by (unfold al; ring).
    rewrite kwx, kwy. unfold L. ring.
  Qed.

  Lemma overlap_case : D = 0 -> (ux <> 0 \/ uy <> 0) -> (vx <> 0 \/ vy <> 0) ->
    ~ ((s = 0 \/ s = k) /\ (t = 0 \/ t = k)) ->
    o1 = 0 /\ Z.max 0 (Z.min al be) < Z.min L (Z.max al be).
  Proof.
    intros HD Hu Hv Hne. pose proof ko1 as K1. pose proof sL as S.
    assert (HL : 0 < L) by (unfold L; nia).
    split.
    { rewrite HD in K1. nia. }
    assert (Hd : be - al = ux * vx + uy * vy) by (unfold be, al, vx, vy, wx, wy; ring).
    assert (Hne2 : be <> al).
    { intro E. assert (Z0 : ux * vx + uy * vy = 0) by lia.
      assert (I : (ux * vx + uy * vy) * (ux * vx + uy * vy) + D * D = L * (vx * vx + vy * vy)) by (unfold D, L; ring).
      rewrite Z0, HD in I. assert (0 < vx * vx + vy * vy) by nia. nia. }
    (* x = s*L lies in [0, k*L] and is the k-scaled convex combination of al, be *)
    assert (X0 : 0 <= s * L) by nia.
    assert (X1 : s * L <= k * L) by nia.
    assert (M1 : 0 < Z.max al be).
    { destruct (Z_lt_le_dec 0 (Z.max al be)) as [|Hle]; [assumption|exfalso].
      assert (al <= 0 /\ be <= 0) by lia.
      assert ((k - t) * al <= 0) by nia. assert (t * be <= 0) by nia.
      assert (s * L = 0) by lia. assert (s = 0) by nia.
      assert ((k - t) * al = 0) by lia. assert (t * be = 0) by lia.
      apply Hne. split; [left; assumption|].
      destruct (Z.eq_dec t 0); [left; assumption|]. destruct (Z.eq_dec t k); [right; assumption|exfalso].
      assert (al = 0) by nia. assert (be = 0) by nia. lia. }
    assert (M2 : Z.min al be < L).
    { destruct (Z_lt_le_dec (Z.min al be) L) as [|Hge]; [assumption|exfalso].
      assert (L <= al /\ L <= be) by lia.
      assert (0 <= (k - t) * (al - L)) by nia. assert (0 <= t * (be - L)) by nia.
      assert (E : s * L - k * L = (k - t) * (al - L) + t * (be - L)) by (rewrite S; ring).
      assert (s * L = k * L) by lia. assert (s = k) by nia.
      assert ((k - t) * (al - L) = 0) by lia. assert (t * (be - L) = 0) by lia.
      apply Hne. split; [right; assumption|].
      destruct (Z.eq_dec t 0); [left; assumption|]. destruct (Z.eq_dec t k); [right; assumption|exfalso].
      assert (al - L = 0) by nia. assert (be - L = 0) by nia. lia. }
    lia.
  Qed.

  (* the common point lies in both x-ranges and both y-ranges *)
  Lemma ranges_meet :
    ~ (Z.max ax bx < Z.min cx dx) /\ ~ (Z.max cx dx < Z.min ax bx) /\
    ~ (Z.max ay by_ < Z.min cy dy) /\ ~ (Z.max cy dy < Z.min ay by_).
  Proof.
    assert (A1 : k * Z.min ax bx <= k * ax + s * (bx - ax) <= k * Z.max ax bx) by nia.
    assert (A2 : k * Z.min cx dx <= k * cx + t * (dx - cx) <= k * Z.max cx dx) by nia.
    assert (A3 : k * Z.min ay by_ <= k * ay + s * (by_ - ay) <= k * Z.max ay by_) by nia.
    assert (A4 : k * Z.min cy dy <= k * cy + t * (dy - cy) <= k * Z.max cy dy) by nia.
    repeat split; intro H; nia.
  Qed.
End Param.
