(* C11 — soundness of the exact output checkers of RegularDefs.v. *)
From Coq Require Import ZArith List Bool Lia Permutation ZifyBool Sorting.Sorted Orders Sorting.Mergesort.
From MV Require Import Geo.Wind2Defs Geo.Wind2 Geo.RegularDefs.
Import ListNotations.
Local Open Scope Z_scope.

(* ---------- pure arithmetic helpers (kept context-free so that nia stays fast) ---------- *)
Lemma sumsq_pos : forall x y, x <> 0 \/ y <> 0 -> 0 < x * x + y * y.
Proof. intros. nia. Qed.
Lemma mul_nonneg : forall a b, 0 <= a -> 0 <= b -> 0 <= a * b.
Proof. intros. nia. Qed.
Lemma mul_nonpos_r : forall a b, 0 <= a -> b <= 0 -> a * b <= 0.
Proof. intros. nia. Qed.
Lemma mul_zero_pos : forall a b, a * b = 0 -> 0 < a -> b = 0.
Proof. intros. nia. Qed.
Lemma mul_cancel_pos : forall s k L, 0 < L -> s * L = k * L -> s = k.
Proof. intros. nia. Qed.
Lemma mul_le_mono : forall s k L, 0 <= s <= k -> 0 <= L -> 0 <= s * L <= k * L.
Proof. intros. nia. Qed.
Lemma convex_range : forall k a s d lo hi, 0 < k -> 0 <= s <= k -> lo <= a -> lo <= a + d -> a <= hi -> a + d <= hi ->
  k * lo <= k * a + s * d <= k * hi.
Proof. intros. nia. Qed.
Lemma scaled_lt_false : forall k x lo1 hi1 lo2 hi2, 0 < k -> k * lo1 <= x <= k * hi1 -> k * lo2 <= x <= k * hi2 -> ~ hi1 < lo2.
Proof. intros. nia. Qed.

(* ---------- two parametrised points coincide ---------- *)
Section Param.
  Variables ax ay bx by_ cx cy dx dy k s t : Z.
  Hypothesis Hk : 0 < k.
  Hypothesis Hs : 0 <= s <= k.
  Hypothesis Ht : 0 <= t <= k.
  Hypothesis Ex : k * ax + s * (bx - ax) = k * cx + t * (dx - cx).
  Hypothesis Ey : k * ay + s * (by_ - ay) = k * cy + t * (dy - cy).

  Let ux := bx - ax. Let uy := by_ - ay.
  Let vx := dx - cx. Let vy := dy - cy.
  Let wx := cx - ax. Let wy := cy - ay.
  Let D := ux * vy - uy * vx.
  Let o1 := ux * wy - uy * wx.                       (* orient a b c *)
  Let o2 := ux * (dy - ay) - uy * (dx - ax).         (* orient a b d *)
  Let o3 := vx * (ay - cy) - vy * (ax - cx).         (* orient c d a *)
  Let o4 := vx * (by_ - cy) - vy * (bx - cx).        (* orient c d b *)

  Lemma kwx : k * wx = s * ux - t * vx. Proof. unfold wx, ux, vx. lia. Qed.
  Lemma kwy : k * wy = s * uy - t * vy. Proof. unfold wy, uy, vy. lia. Qed.

  Lemma ko1 : k * o1 = - t * D.
  Proof. unfold o1, D. replace (k * (ux * wy - uy * wx)) with (ux * (k * wy) - uy * (k * wx)) by ring. rewrite kwx, kwy. ring. Qed.
  Lemma ko2 : k * o2 = (k - t) * D.
  Proof.
    assert (o2 = o1 + D) by (unfold o2, o1, D, ux, uy, vx, vy, wx, wy; ring).
    rewrite H. rewrite Z.mul_add_distr_l, ko1. ring.
  Qed.
  Lemma ko3 : k * o3 = s * D.
  Proof.
    assert (o3 = vy * wx - vx * wy) by (unfold o3, wx, wy; ring). rewrite H.
    replace (k * (vy * wx - vx * wy)) with (vy * (k * wx) - vx * (k * wy)) by ring. rewrite kwx, kwy. unfold D. ring.
  Qed.
  Lemma ko4 : k * o4 = - (k - s) * D.
  Proof.
    assert (o4 = o3 - D) by (unfold o4, o3, D, ux, uy, vx, vy; ring).
    rewrite H. rewrite Z.mul_sub_distr_l, ko3. ring.
  Qed.

  Lemma prod_nonpos : forall x y p q, k * x = - p * D -> k * y = q * D -> 0 <= p -> 0 <= q -> x * y <= 0.
  Proof.
    intros x y p q H1 H2 Hp Hq.
    assert (A : (k * x) * (k * y) <= 0).
    { rewrite H1, H2. replace (- p * D * (q * D)) with (- ((p * q) * (D * D))) by ring.
      assert (0 <= p * q) by (apply mul_nonneg; assumption). assert (0 <= D * D) by apply Z.square_nonneg.
      assert (0 <= (p * q) * (D * D)) by (apply mul_nonneg; assumption). lia. }
    replace (k * x * (k * y)) with ((k * k) * (x * y)) in A by ring.
    assert (0 < k * k) by (apply Z.mul_pos_pos; assumption).
    destruct (Z_lt_le_dec 0 (x * y)) as [P|P]; [|exact P]. exfalso.
    assert (0 < k * k * (x * y)) by (apply Z.mul_pos_pos; assumption). lia.
  Qed.

  Lemma cross_case : D <> 0 -> ~ ((s = 0 \/ s = k) /\ (t = 0 \/ t = k)) ->
    o1 * o2 <= 0 /\ o3 * o4 <= 0 /\ ~ ((o3 = 0 \/ o4 = 0) /\ (o1 = 0 \/ o2 = 0)).
  Proof.
    intros HD Hne. pose proof ko1 as K1. pose proof ko2 as K2. pose proof ko3 as K3. pose proof ko4 as K4.
    split; [|split].
    - apply (prod_nonpos o1 o2 t (k - t)); [exact K1 | exact K2 | lia | lia].
    - rewrite Z.mul_comm. apply (prod_nonpos o4 o3 (k - s) s); [exact K4 | exact K3 | lia | lia].
    - intros [H34 H12]. apply Hne. split.
      + destruct H34 as [H|H].
        * left. rewrite H in K3. assert (s * D = 0) by lia. apply Z.mul_eq_0 in H0. lia.
        * right. rewrite H in K4. assert ((k - s) * D = 0) by lia. apply Z.mul_eq_0 in H0. lia.
      + destruct H12 as [H|H].
        * left. rewrite H in K1. assert (t * D = 0) by lia. apply Z.mul_eq_0 in H0. lia.
        * right. rewrite H in K2. assert ((k - t) * D = 0) by lia. apply Z.mul_eq_0 in H0. lia.
  Qed.

  Let L := ux * ux + uy * uy.
  Let al := ux * wx + uy * wy.
  Let be := ux * (dx - ax) + uy * (dy - ay).

  Lemma sL : s * L = (k - t) * al + t * be.
  Proof.
    assert (be = al + (ux * vx + uy * vy)) by (unfold be, al, vx, vy, wx, wy; ring).
    rewrite H.
    replace ((k - t) * al + t * (al + (ux * vx + uy * vy))) with (ux * (k * wx) + uy * (k * wy) + t * (ux * vx + uy * vy)) by (unfold al; ring).
    rewrite kwx, kwy. unfold L. ring.
  Qed.

  Lemma overlap_case : D = 0 -> (ux <> 0 \/ uy <> 0) -> (vx <> 0 \/ vy <> 0) ->
    ~ ((s = 0 \/ s = k) /\ (t = 0 \/ t = k)) ->
    o1 = 0 /\ Z.max 0 (Z.min al be) < Z.min L (Z.max al be).
  Proof.
    intros HD Hu Hv Hne. pose proof ko1 as K1. pose proof sL as S.
    assert (HL : 0 < L) by (apply sumsq_pos; exact Hu).
    split.
    { assert (Z1 : k * o1 = 0) by (rewrite K1, HD; ring).
      apply Z.mul_eq_0 in Z1. lia. }
    assert (Hd : be - al = ux * vx + uy * vy) by (unfold be, al, vx, vy, wx, wy; ring).
    assert (Hne2 : be <> al).
    { intro E. assert (Z0 : ux * vx + uy * vy = 0) by lia.
      assert (I : (ux * vx + uy * vy) * (ux * vx + uy * vy) + D * D = L * (vx * vx + vy * vy)) by (unfold D, L; ring).
      rewrite Z0, HD in I. pose proof (sumsq_pos vx vy Hv) as Pv.
      assert (0 < L * (vx * vx + vy * vy)) by (apply Z.mul_pos_pos; assumption). lia. }
    pose proof (mul_le_mono s k L Hs (Z.lt_le_incl _ _ HL)) as [X0 X1].
    assert (M1 : 0 < Z.max al be).
    { destruct (Z_lt_le_dec 0 (Z.max al be)) as [|Hle]; [assumption|exfalso].
      assert (Hab : al <= 0 /\ be <= 0) by lia.
      assert (P1 : (k - t) * al <= 0) by (apply mul_nonpos_r; lia).
      assert (P2 : t * be <= 0) by (apply mul_nonpos_r; lia).
      assert (SZ : s * L = 0) by lia. assert (s0 : s = 0) by (apply Z.mul_eq_0 in SZ; lia).
      assert (Q1 : (k - t) * al = 0) by lia. assert (Q2 : t * be = 0) by lia.
      apply Hne. split; [left; assumption|].
      destruct (Z.eq_dec t 0); [left; assumption|]. destruct (Z.eq_dec t k); [right; assumption|exfalso].
      apply Z.mul_eq_0 in Q1. apply Z.mul_eq_0 in Q2. lia. }
    assert (M2 : Z.min al be < L).
    { destruct (Z_lt_le_dec (Z.min al be) L) as [|Hge]; [assumption|exfalso].
      assert (Hab : L <= al /\ L <= be) by lia.
      assert (P1 : 0 <= (k - t) * (al - L)) by (apply mul_nonneg; lia).
      assert (P2 : 0 <= t * (be - L)) by (apply mul_nonneg; lia).
      assert (E : s * L - k * L = (k - t) * (al - L) + t * (be - L)) by (rewrite S; ring).
      assert (SZ : s * L = k * L) by lia. assert (sk : s = k) by (apply (mul_cancel_pos s k L); assumption).
      assert (Q1 : (k - t) * (al - L) = 0) by lia. assert (Q2 : t * (be - L) = 0) by lia.
      apply Hne. split; [right; assumption|].
      destruct (Z.eq_dec t 0); [left; assumption|]. destruct (Z.eq_dec t k); [right; assumption|exfalso].
      apply Z.mul_eq_0 in Q1. apply Z.mul_eq_0 in Q2. lia. }
    lia.
  Qed.

  (* the common point lies in both x-ranges and both y-ranges *)
  Lemma ranges_meet :
    ~ (Z.max ax bx < Z.min cx dx) /\ ~ (Z.max cx dx < Z.min ax bx) /\
    ~ (Z.max ay by_ < Z.min cy dy) /\ ~ (Z.max cy dy < Z.min ay by_).
  Proof.
    assert (A1 : k * Z.min ax bx <= k * ax + s * (bx - ax) <= k * Z.max ax bx) by (apply convex_range; lia).
    assert (A2 : k * Z.min cx dx <= k * cx + t * (dx - cx) <= k * Z.max cx dx) by (apply convex_range; lia).
    assert (A3 : k * Z.min ay by_ <= k * ay + s * (by_ - ay) <= k * Z.max ay by_) by (apply convex_range; lia).
    assert (A4 : k * Z.min cy dy <= k * cy + t * (dy - cy) <= k * Z.max cy dy) by (apply convex_range; lia).
    rewrite Ex in A1. rewrite Ey in A3.
    repeat split.
    - apply (scaled_lt_false k _ _ _ _ _ Hk A1 A2).
    - apply (scaled_lt_false k _ _ _ _ _ Hk A2 A1).
    - apply (scaled_lt_false k _ _ _ _ _ Hk A3 A4).
    - apply (scaled_lt_false k _ _ _ _ _ Hk A4 A3).
  Qed.
End Param.

(* ---------- the exact segment test is sound ---------- *)
Lemma pt_eqb_eq : forall a b : pt, pt_eqb a b = true <-> a = b.
Proof.
  intros [ax ay] [bx by_]. unfold pt_eqb. cbn [fst snd]. rewrite andb_true_iff, !Z.eqb_eq.
  split; [intros [-> ->]; reflexivity | intros H; inversion H; split; reflexivity].
Qed.

Lemma pt_neq_coord : forall ax ay bx by_ : Z, (ax, ay) <> (bx, by_) -> bx - ax <> 0 \/ by_ - ay <> 0.
Proof.
  intros. destruct (Z.eq_dec (bx - ax) 0) as [E1|]; [|left; assumption].
  destruct (Z.eq_dec (by_ - ay) 0) as [E2|]; [|right; assumption].
  exfalso. apply H. f_equal; lia.
Qed.

Lemma seg_conflict_sound : forall e f, fst e <> snd e -> fst f <> snd f ->
  seg_conflict e f = false -> ~ seg_conflict_decl e f.
Proof.
  intros [[ax ay] [bx by_]] [[cx cy] [dx dy]] Hab Hcd Hc. cbn [fst snd] in Hab, Hcd.
  unfold seg_conflict_decl. cbn [fst snd].
  intros (k & s & t & Hk & Hs & Ht & Ex & Ey & Hne).
  apply orb_false_iff in Hc. destruct Hc as [Hc1 Hc2].
  destruct (Z.eq_dec ((bx - ax) * (dy - cy) - (by_ - ay) * (dx - cx)) 0) as [HD|HD].
  - pose proof (overlap_case ax ay bx by_ cx cy dx dy k s t Hk Hs Ht Ex Ey HD
                  (pt_neq_coord _ _ _ _ Hab) (pt_neq_coord _ _ _ _ Hcd) Hne) as [O1 O2].
    unfold seg_overlap, orient, crs, dot, sub in Hc2. cbn [fst snd] in Hc2.
    rewrite HD, O1 in Hc2. cbn [Z.eqb andb] in Hc2. apply Z.ltb_ge in Hc2. lia.
  - pose proof (cross_case ax ay bx by_ cx cy dx dy k s t Hk Hs Ht Ex Ey HD Hne) as (C1 & C2 & C3).
    unfold seg_cross, orient, crs, sub in Hc1. cbn [fst snd] in Hc1.
    apply Z.eqb_neq in HD. rewrite HD in Hc1. cbn [negb andb] in Hc1.
    apply Z.leb_le in C1. apply Z.leb_le in C2. rewrite C1, C2 in Hc1. cbn [andb] in Hc1.
    apply negb_false_iff in Hc1. apply andb_true_iff in Hc1. destruct Hc1 as [G1 G2].
    apply C3. split.
    + apply orb_true_iff in G1. destruct G1 as [G|G]; apply Z.eqb_eq in G; [left|right]; exact G.
    + apply orb_true_iff in G2. destruct G2 as [G|G]; apply Z.eqb_eq in G; [left|right]; exact G.
Qed.

Lemma seg_conflict_decl_sym : forall e f, seg_conflict_decl e f -> seg_conflict_decl f e.
Proof.
  intros [a b] [c d]. unfold seg_conflict_decl.
  intros (k & s & t & Hk & Hs & Ht & Ex & Ey & Hne).
  exists k, t, s. repeat split; lia.
Qed.

Lemma ranges_no_conflict : forall e f, bbox_disjoint e f = true -> ~ seg_conflict_decl e f.
Proof.
  intros [[ax ay] [bx by_]] [[cx cy] [dx dy]] Hb. unfold seg_conflict_decl. cbn [fst snd].
  intros (k & s & t & Hk & Hs & Ht & Ex & Ey & Hne).
  pose proof (ranges_meet ax ay bx by_ cx cy dx dy k s t Hk Hs Ht Ex Ey) as (R1 & R2 & R3 & R4).
  unfold bbox_disjoint, sxmin, sxmax, symin, symax in Hb. cbn [fst snd] in Hb.
  rewrite !orb_true_iff in Hb. rewrite !Z.ltb_lt in Hb. tauto.
Qed.

Lemma conflict_b_sound : forall e f, nondeg e = true -> nondeg f = true ->
  conflict_b e f = false -> ~ seg_conflict_decl e f.
Proof.
  intros e f He Hf Hc. unfold conflict_b in Hc.
  destruct (bbox_disjoint e f) eqn:Eb.
  - apply ranges_no_conflict, Eb.
  - apply seg_conflict_sound; try assumption.
    + unfold nondeg in He. apply negb_true_iff in He. intro E. apply pt_eqb_eq in E. congruence.
    + unfold nondeg in Hf. apply negb_true_iff in Hf. intro E. apply pt_eqb_eq in E. congruence.
Qed.

Lemma xsep_no_conflict : forall e f, sxmax e < sxmin f -> ~ seg_conflict_decl e f.
Proof.
  intros e f H. apply ranges_no_conflict. unfold bbox_disjoint.
  apply Z.ltb_lt in H. rewrite H. reflexivity.
Qed.

(* ---------- the x-sorted sweep visits every pair that can conflict ---------- *)
Definition NoConf (e f : seg) : Prop := ~ seg_conflict_decl e f.

Lemma NoConf_sym : forall e f, NoConf e f -> NoConf f e.
Proof. unfold NoConf. intros e f H C. apply H, seg_conflict_decl_sym, C. Qed.

Definition le_xmin (e f : seg) : Prop := is_true (SegOrder.leb e f).

Lemma sweep_inner_sound : forall e rest, nondeg e = true -> forallb nondeg rest = true ->
  StronglySorted le_xmin rest -> sweep_inner e rest = true -> Forall (NoConf e) rest.
Proof.
  intros e rest He. induction rest as [|f r IH]; intros Hn Hs Hi; [constructor|].
  cbn [forallb] in Hn. apply andb_true_iff in Hn. destruct Hn as [Hf Hr].
  apply StronglySorted_inv in Hs. destruct Hs as [Hs1 Hs2].
  cbn [sweep_inner] in Hi.
  destruct (sxmax e <? sxmin f) eqn:Eb.
  - apply Z.ltb_lt in Eb. constructor.
    + apply xsep_no_conflict, Eb.
    + rewrite Forall_forall in Hs2 |- *. intros g Hg. apply xsep_no_conflict.
      specialize (Hs2 g Hg). unfold le_xmin, SegOrder.leb, is_true in Hs2. apply Z.leb_le in Hs2. lia.
  - apply andb_true_iff in Hi. destruct Hi as [Hi1 Hi2]. constructor.
    + apply conflict_b_sound; try assumption. apply negb_true_iff, Hi1.
    + apply IH; assumption.
Qed.

Lemma sweep_outer_sound : forall l, forallb nondeg l = true -> StronglySorted le_xmin l ->
  sweep_outer l = true -> ForallOrdPairs NoConf l.
Proof.
  induction l as [|e r IH]; intros Hn Hs Ho; [constructor|].
  cbn [forallb] in Hn. apply andb_true_iff in Hn. destruct Hn as [He Hr].
  apply StronglySorted_inv in Hs. destruct Hs as [Hs1 Hs2].
  cbn [sweep_outer] in Ho. apply andb_true_iff in Ho. destruct Ho as [Ho1 Ho2].
  constructor.
  - apply sweep_inner_sound; assumption.
  - apply IH; assumption.
Qed.

Lemma FOP_perm : forall (R : seg -> seg -> Prop), (forall x y, R x y -> R y x) ->
  forall l l', Permutation l l' -> ForallOrdPairs R l -> ForallOrdPairs R l'.
Proof.
  intros R Rsym l l' P. induction P; intros H.
  - exact H.
  - inversion H; subst. constructor.
    + eapply Permutation_Forall; eassumption.
    + apply IHP; assumption.
  - inversion H; subst. inversion H2; subst. inversion H3; subst.
    constructor; [constructor; [apply Rsym; assumption | assumption] | constructor; assumption].
  - apply IHP2, IHP1, H.
Qed.

Lemma le_xmin_trans : Relations_1.Transitive le_xmin.
Proof.
  intros x y z. unfold le_xmin, SegOrder.leb, is_true. rewrite !Z.leb_le. lia.
Qed.

Lemma no_conflicts_sound : forall es, no_conflicts es = true ->
  (forall e, In e es -> fst e <> snd e) /\ ForallOrdPairs NoConf es.
Proof.
  intros es H. unfold no_conflicts in H. apply andb_true_iff in H. destruct H as [Hn Ho].
  split.
  - intros e He E. rewrite forallb_forall in Hn. specialize (Hn e He).
    unfold nondeg in Hn. apply negb_true_iff in Hn. apply pt_eqb_eq in E. congruence.
  - apply (FOP_perm NoConf NoConf_sym (SegSort.sort es) es).
    + apply Permutation_sym, SegSort.Permuted_sort.
    + apply sweep_outer_sound.
      * rewrite forallb_forall in Hn |- *. intros e He. apply Hn.
        eapply Permutation_in; [apply Permutation_sym, SegSort.Permuted_sort | exact He].
      * apply SegSort.StronglySorted_sort. intros x y z. apply le_xmin_trans.
      * exact Ho.
Qed.

(* ---------- simple contours ---------- *)
Lemma mem_pt_false : forall p l, mem_pt p l = false -> ~ In p l.
Proof.
  induction l as [|q r IH]; intros H; [intros []|].
  cbn [mem_pt] in H. apply orb_false_iff in H. destruct H as [H1 H2].
  intros [E|I]; [|apply IH; assumption].
  subst q. assert (pt_eqb p p = true) by (apply pt_eqb_eq; reflexivity). congruence.
Qed.

Lemma nodupb_sound : forall l, nodupb l = true -> NoDup l.
Proof.
  induction l as [|p r IH]; intros H; [constructor|].
  cbn [nodupb] in H. apply andb_true_iff in H. destruct H as [H1 H2].
  constructor; [apply mem_pt_false, negb_true_iff, H1 | apply IH, H2].
Qed.

Lemma wind01_sound : forall cs pts, wind01 cs pts = true -> forall p, In p pts -> wind2 cs p = 0 \/ wind2 cs p = 1.
Proof.
  intros cs pts H p Hp. unfold wind01 in H. rewrite forallb_forall in H. specialize (H p Hp).
  cbn zeta in H. apply orb_true_iff in H. rewrite !Z.eqb_eq in H. exact H.
Qed.

Theorem regular_check_sound : forall cs pts, regular_check cs pts = true ->
  (forall c, In c cs -> NoDup c /\ (3 <= length c)%nat) /\
  (forall e, In e (all_edges cs) -> fst e <> snd e) /\
  ForallOrdPairs (fun e f => ~ seg_conflict_decl e f) (all_edges cs) /\
  (forall p, In p pts -> wind2 cs p = 0 \/ wind2 cs p = 1).
Proof.
  intros cs pts H. unfold regular_check in H.
  apply andb_true_iff in H. destruct H as [H H3]. apply andb_true_iff in H. destruct H as [H1 H2].
  split; [|split; [|split]].
  - intros c Hc. rewrite forallb_forall in H1. specialize (H1 c Hc). unfold contour_ok in H1.
    apply andb_true_iff in H1. destruct H1 as [L N]. split; [apply nodupb_sound, N | lia].
  - apply no_conflicts_sound, H2.
  - apply (proj2 (no_conflicts_sound _ H2)).
  - apply wind01_sound, H3.
Qed.

(* ---------- distance from a segment ---------- *)
Lemma far_case1 : forall k s ux uy wx wy E2, 0 < k -> 0 <= s <= k ->
  ux * wx + uy * wy <= 0 -> E2 < wx * wx + wy * wy ->
  k * k * E2 < (k * wx - s * ux) * (k * wx - s * ux) + (k * wy - s * uy) * (k * wy - s * uy).
Proof.
  intros k s ux uy wx wy E2 Hk Hs Hal HE.
  replace ((k * wx - s * ux) * (k * wx - s * ux) + (k * wy - s * uy) * (k * wy - s * uy))
    with (k * k * (wx * wx + wy * wy) + (2 * k * s) * (- (ux * wx + uy * wy)) + (s * s) * (ux * ux + uy * uy)) by ring.
  assert (0 <= (2 * k * s) * (- (ux * wx + uy * wy))) by (apply mul_nonneg; [apply mul_nonneg; lia | lia]).
  assert (0 <= (s * s) * (ux * ux + uy * uy)).
  { apply mul_nonneg; [apply Z.square_nonneg|]. pose proof (Z.square_nonneg ux). pose proof (Z.square_nonneg uy). lia. }
  assert (0 < k * k) by (apply Z.mul_pos_pos; assumption).
  assert (k * k * E2 < k * k * (wx * wx + wy * wy)) by (apply Z.mul_lt_mono_pos_l; assumption).
  lia.
Qed.

Lemma far_case3 : forall k s ux uy wx wy E2, 0 < k -> 0 < ux * ux + uy * uy ->
  E2 * (ux * ux + uy * uy) < (ux * wy - uy * wx) * (ux * wy - uy * wx) ->
  k * k * E2 < (k * wx - s * ux) * (k * wx - s * ux) + (k * wy - s * uy) * (k * wy - s * uy).
Proof.
  intros k s ux uy wx wy E2 Hk HL HE.
  set (T := (k * wx - s * ux) * (k * wx - s * ux) + (k * wy - s * uy) * (k * wy - s * uy)).
  set (L := ux * ux + uy * uy) in *. set (C := ux * wy - uy * wx) in *.
  assert (I : L * T = k * k * (C * C) + (k * (ux * wx + uy * wy) - s * L) * (k * (ux * wx + uy * wy) - s * L))
    by (unfold T, L, C; ring).
  assert (0 < k * k) by (apply Z.mul_pos_pos; assumption).
  assert (k * k * (E2 * L) < k * k * (C * C)) by (apply Z.mul_lt_mono_pos_l; assumption).
  pose proof (Z.square_nonneg (k * (ux * wx + uy * wy) - s * L)).
  assert (G : (k * k * E2) * L < T * L) by lia.
  apply Z.mul_lt_mono_pos_r in G; assumption.
Qed.

Lemma dist2_gt_sound : forall E2 p e, dist2_gt E2 p e = true -> seg_far_decl E2 p e.
Proof.
  intros E2 [px py] [[ax ay] [bx by_]] H. unfold seg_far_decl. cbn [fst snd]. intros k s Hk Hs.
  unfold dist2_gt, dot, crs, sub in H. cbn [fst snd] in H.
  replace (k * px - (k * ax + s * (bx - ax))) with (k * (px - ax) - s * (bx - ax)) by ring.
  replace (k * py - (k * ay + s * (by_ - ay))) with (k * (py - ay) - s * (by_ - ay)) by ring.
  destruct ((bx - ax) * (px - ax) + (by_ - ay) * (py - ay) <=? 0) eqn:E1.
  - apply Z.leb_le in E1. apply Z.ltb_lt in H. apply far_case1; assumption.
  - apply Z.leb_gt in E1.
    destruct ((bx - ax) * (bx - ax) + (by_ - ay) * (by_ - ay) <=? (bx - ax) * (px - ax) + (by_ - ay) * (py - ay)) eqn:E2'.
    + apply Z.leb_le in E2'. apply Z.ltb_lt in H.
      replace (k * (px - ax) - s * (bx - ax)) with (k * (px - bx) - (k - s) * (- (bx - ax))) by ring.
      replace (k * (py - ay) - s * (by_ - ay)) with (k * (py - by_) - (k - s) * (- (by_ - ay))) by ring.
      apply far_case1; try assumption; lia.
    + apply Z.leb_gt in E2'. apply Z.ltb_lt in H. apply far_case3; try assumption. lia.
Qed.

Lemma sq_gt : forall x y, 0 <= y -> (y < x \/ x < - y) -> y * y < x * x.
Proof. intros. nia. Qed.

Lemma outside_box_sound : forall E p e, 0 <= E -> outside_box E p e = true -> seg_far_decl (E * E) p e.
Proof.
  intros E [px py] [[ax ay] [bx by_]] HE H. unfold seg_far_decl. cbn [fst snd]. intros k s Hk Hs.
  unfold outside_box, sxmin, sxmax, symin, symax in H. cbn [fst snd] in H.
  assert (A1 : k * Z.min ax bx <= k * ax + s * (bx - ax) <= k * Z.max ax bx) by (apply convex_range; lia).
  assert (A3 : k * Z.min ay by_ <= k * ay + s * (by_ - ay) <= k * Z.max ay by_) by (apply convex_range; lia).
  set (X := k * ax + s * (bx - ax)) in *. set (Y := k * ay + s * (by_ - ay)) in *.
  replace (k * k * (E * E)) with ((k * E) * (k * E)) by ring.
  assert (KE : 0 <= k * E) by (apply mul_nonneg; lia).
  pose proof (Z.square_nonneg (k * px - X)). pose proof (Z.square_nonneg (k * py - Y)).
  rewrite !orb_true_iff in H. rewrite !Z.ltb_lt in H.
  destruct H as [[[H|H]|H]|H].
  - assert (k * (px + E) < k * Z.min ax bx) by (apply Z.mul_lt_mono_pos_l; assumption).
    assert ((k * E) * (k * E) < (k * px - X) * (k * px - X)) by (apply sq_gt; lia). lia.
  - assert (k * (Z.max ax bx + E) < k * px) by (apply Z.mul_lt_mono_pos_l; assumption).
    assert ((k * E) * (k * E) < (k * px - X) * (k * px - X)) by (apply sq_gt; lia). lia.
  - assert (k * (py + E) < k * Z.min ay by_) by (apply Z.mul_lt_mono_pos_l; assumption).
    assert ((k * E) * (k * E) < (k * py - Y) * (k * py - Y)) by (apply sq_gt; lia). lia.
  - assert (k * (Z.max ay by_ + E) < k * py) by (apply Z.mul_lt_mono_pos_l; assumption).
    assert ((k * E) * (k * E) < (k * py - Y) * (k * py - Y)) by (apply sq_gt; lia). lia.
Qed.

Lemma far1_sound : forall E p e, 0 <= E -> far1 E p e = true -> seg_far_decl (E * E) p e.
Proof.
  intros E p e HE H. unfold far1 in H. destruct (outside_box E p e) eqn:Eo.
  - apply outside_box_sound; assumption.
  - apply dist2_gt_sound, H.
Qed.

Lemma far_all_sound : forall E p es, 0 <= E -> far_all E p es = true -> forall e, In e es -> seg_far_decl (E * E) p e.
Proof.
  intros E p es HE H e He. unfold far_all in H. rewrite forallb_forall in H. apply far1_sound; auto.
Qed.

(* ---------- the set formula ---------- *)
Theorem formula_check_sound : forall E e result pts, 0 <= E -> formula_check E e result pts = true ->
  forall p, In p pts ->
    far_all E p (fedges e) = true ->
    (forall g, In g (fedges e) -> seg_far_decl (E * E) p g) /\
    wind2 result p = b2z (feval e p).
Proof.
  intros E e result pts HE H p Hp Hfar. split.
  - apply far_all_sound; assumption.
  - unfold formula_check in H. rewrite forallb_forall in H. specialize (H p Hp).
    unfold formula_ok in H. rewrite Hfar in H. apply Z.eqb_eq, H.
Qed.

(* pixel regime: with E = 0 and pixel centres as samples every sample is far
   from every lattice edge whose endpoints have even (doubled) coordinates *)
Lemma wind_sum_01 : forall cs pts, wind01 cs pts = true ->
  wind_sum cs pts = Z.of_nat (length (filter (fun p => wind2 cs p =? 1) pts)).
Proof.
  intros cs pts. unfold wind_sum. induction pts as [|p r IH]; intros H; [reflexivity|].
  cbn [wind01 forallb] in H. apply andb_true_iff in H. destruct H as [H1 H2].
  cbn [map filter]. unfold zsum in *. cbn [fold_right]. rewrite (IH H2).
  cbn zeta in H1. apply orb_true_iff in H1. rewrite !Z.eqb_eq in H1.
  destruct H1 as [E|E]; rewrite E; cbn [Z.eqb Pos.eqb length]; lia.
Qed.
