(* C12 — what the join decisions of OffsetContour mean over the reals. *)
From Coq Require Import Reals Lra Lia Psatz.
From MV Require Import Geo.Offset2Defs.
Local Open Scope R_scope.

Ltac vec_simpl := unfold offset_pt, round_pt, lerp in *; unfold vlen2 in *; unfold vdot, vcross, vadd, vsub, vscale, rot in *; cbn [fst snd] in *.

(* ---- miter ---- *)
Lemma miter_threshold : forall L dotN delta : R,
  0 < L -> delta <> 0 -> -1 < dotN ->
  (dotN < miter_cos_thresh L <-> Rabs delta * sqrt (2 / (1 + dotN)) > L * Rabs delta).
Proof.
  intros L dotN delta HL Hd Hn. unfold miter_cos_thresh.
  assert (Ha : 0 < Rabs delta) by (apply Rabs_pos_lt; exact Hd).
  assert (Hp : 0 < 1 + dotN) by lra.
  assert (HLL : 0 < L * L) by nra.
  assert (Hq : 0 < 2 / (1 + dotN)) by (apply Rdiv_lt_0_compat; lra).
  assert (E1 : dotN < 2 / (L * L) - 1 <-> L * L < 2 / (1 + dotN)).
  { unfold Rdiv. set (x := / (L * L)). set (y := / (1 + dotN)).
    assert (Hx : x * (L * L) = 1) by (unfold x; field; lra).
    assert (Hy : y * (1 + dotN) = 1) by (unfold y; field; lra).
    assert (Hx0 : 0 < x) by (unfold x; apply Rinv_0_lt_compat; exact HLL).
    assert (Hy0 : 0 < y) by (unfold y; apply Rinv_0_lt_compat; exact Hp).
    split; intros H.
    - assert (L * L * (1 + dotN) < 2) by nra. nra.
    - assert (L * L * (1 + dotN) < 2) by nra. nra. }
  rewrite E1. split; intros H.
  - assert (L < sqrt (2 / (1 + dotN))).
    { rewrite <- (sqrt_square L) by lra. apply sqrt_lt_1; lra. }
    nra.
  - assert (L < sqrt (2 / (1 + dotN))) by nra.
    rewrite <- (sqrt_sqrt (2 / (1 + dotN))) by lra.
    assert (0 <= sqrt (2 / (1 + dotN))) by apply sqrt_pos. nra.
Qed.

Lemma miter_point_on_both_offsets : forall (V nP nN : vec) (delta : R),
  vlen2 nP = 1 -> vlen2 nN = 1 -> 0 < 1 + vdot nP nN ->
  vdot (vsub (miter_point V nP nN delta) V) nP = delta /\
  vdot (vsub (miter_point V nP nN delta) V) nN = delta.
Proof.
  intros [vx vy] [px py] [qx qy] delta HP HN Hd. unfold miter_point.
  destruct (Rle_dec (1 + vdot (px, py) (qx, qy)) 0) as [Hle|_]; [lra|].
  vec_simpl. set (k := px * qx + py * qy) in *. set (x := / (1 + k)).
  assert (Hx : x * (1 + k) = 1) by (unfold x; field; lra).
  split.
  - replace ((vx + delta * (x * (px + qx)) - vx) * px + (vy + delta * (x * (py + qy)) - vy) * py)
      with (delta * (x * ((px * px + py * py) + k))) by (unfold k; ring).
    rewrite HP, Hx. ring.
  - replace ((vx + delta * (x * (px + qx)) - vx) * qx + (vy + delta * (x * (py + qy)) - vy) * qy)
      with (delta * (x * ((qx * qx + qy * qy) + k))) by (unfold k; ring).
    rewrite HN, Hx. ring.
Qed.

Lemma miter_point_length : forall (V nP nN : vec) (delta : R),
  vlen2 nP = 1 -> vlen2 nN = 1 -> 0 < 1 + vdot nP nN ->
  vlen2 (vsub (miter_point V nP nN delta) V) = delta * delta * (2 / (1 + vdot nP nN)).
Proof.
  intros [vx vy] [px py] [qx qy] delta HP HN Hd. unfold miter_point.
  destruct (Rle_dec (1 + vdot (px, py) (qx, qy)) 0) as [Hle|_]; [lra|].
  vec_simpl. set (k := px * qx + py * qy) in *. unfold Rdiv. set (x := / (1 + k)).
  assert (Hx : x * (1 + k) = 1) by (unfold x; field; lra).
  replace ((vx + delta * (x * (px + qx)) - vx) * (vx + delta * (x * (px + qx)) - vx) +
           (vy + delta * (x * (py + qy)) - vy) * (vy + delta * (x * (py + qy)) - vy))
    with (delta * delta * x * (x * ((px * px + py * py) + (qx * qx + qy * qy) + 2 * k))) by (unfold k; ring).
  rewrite HP, HN. replace (1 + 1 + 2 * k) with (2 * (1 + k)) by ring.
  replace (x * (2 * (1 + k))) with (2 * (x * (1 + k))) by ring. rewrite Hx. ring.
Qed.

Lemma miter_within_limit : forall (V nP nN : vec) (delta L : R),
  0 < L -> vlen2 nP = 1 -> vlen2 nN = 1 -> 0 < 1 + vdot nP nN ->
  ~ (vdot nP nN < miter_cos_thresh L) ->
  vlen2 (vsub (miter_point V nP nN delta) V) <= (L * delta) * (L * delta).
Proof.
  intros V nP nN delta L HL HP HN Hd Hn. rewrite miter_point_length by assumption.
  unfold miter_cos_thresh in Hn. set (k := vdot nP nN) in *.
  assert (HLL : 0 < L * L) by nra.
  assert (2 / (1 + k) <= L * L).
  { apply (Rmult_le_reg_r (1 + k)); [exact Hd|]. unfold Rdiv. rewrite Rmult_assoc, Rinv_l by lra.
    assert (2 / (L * L) - 1 <= k) by lra.
    assert (2 / (L * L) <= 1 + k) by lra.
    apply (Rmult_le_compat_l (L * L)) in H0; [|lra]. unfold Rdiv in H0.
    replace (L * L * (2 * / (L * L))) with 2 in H0 by (field; lra). lra. }
  assert (0 <= delta * delta) by nra. nra.
Qed.

(* ---- normals and the convexity test ---- *)
Lemma vlen_pos : forall e, 0 < vlen2 e -> 0 < vlen e.
Proof. intros e H. unfold vlen. apply sqrt_lt_R0. exact H. Qed.

Lemma vlen_sq : forall e, 0 <= vlen2 e -> vlen e * vlen e = vlen2 e.
Proof. intros e H. unfold vlen. apply sqrt_sqrt. exact H. Qed.

Lemma outward_normal_unit : forall e : vec, 0 < vlen2 e -> vlen2 (outward_normal e) = 1.
Proof.
  intros [x y] H. pose proof (vlen_pos _ H) as Hp. pose proof (vlen_sq (x, y) ltac:(lra)) as Hs.
  unfold outward_normal. set (l := vlen (x, y)) in *. vec_simpl.
  replace (y / l * (y / l) + - x / l * (- x / l)) with ((x * x + y * y) / (l * l)) by (field; lra).
  rewrite Hs. field. lra.
Qed.

Lemma outward_normal_perp : forall e : vec, 0 < vlen2 e -> vdot (outward_normal e) e = 0.
Proof.
  intros [x y] H. pose proof (vlen_pos _ H) as Hp. unfold outward_normal. set (l := vlen (x, y)) in *.
  vec_simpl. field. lra.
Qed.

(* the convexity test of OffsetContour: cross(ePrev, eNext) * sign(delta) > 0 says that the
   start of the next offset edge lies ahead of the end of the previous offset edge, measured
   along the previous edge: the two offset edges leave a gap that needs a join. *)
Lemma convex_iff_cross_sign : forall (V eP eN : vec) (delta : R),
  0 < vlen2 eP -> 0 < vlen2 eN -> delta <> 0 ->
  (convex_test eP eN delta <->
   vdot (vsub (offset_pt V (outward_normal eN) delta) (offset_pt V (outward_normal eP) delta)) eP > 0).
Proof.
  intros [vx vy] [px py] [qx qy] delta HP HN Hd.
  pose proof (vlen_pos _ HP) as LP. pose proof (vlen_pos _ HN) as LN.
  unfold convex_test, outward_normal. set (lp := vlen (px, py)) in *. set (lq := vlen (qx, qy)) in *.
  vec_simpl.
  unfold delta_sign. set (c := px * qy - py * qx).
  match goal with |- _ <-> ?X > 0 => replace X with (delta * c / lq) by (unfold c; field; lra) end.
  assert (Hl : 0 < / lq) by (apply Rinv_0_lt_compat; exact LN).
  unfold Rdiv. destruct (Rle_dec 0 delta) as [Hp|Hn].
  - assert (Hdp : 0 < delta) by lra. split; intros Hc.
    + assert (0 < c) by lra. apply Rmult_lt_0_compat; [apply Rmult_lt_0_compat; assumption | exact Hl].
    + assert (0 < delta * c) by (apply (Rmult_lt_reg_r (/ lq)); [exact Hl | lra]). nra.
  - assert (Hdn : delta < 0) by lra. split; intros Hc.
    + assert (c < 0) by lra. assert (0 < delta * c) by nra. apply Rmult_lt_0_compat; assumption.
    + assert (0 < delta * c) by (apply (Rmult_lt_reg_r (/ lq)); [exact Hl | lra]). nra.
Qed.

(* ---- round joins ---- *)
Lemma rot_len2 : forall (v : vec) (a : R), vlen2 (rot v a) = vlen2 v.
Proof.
  intros [x y] a. vec_simpl. pose proof (sin2_cos2 a) as H. unfold Rsqr in H.
  replace ((x * cos a - y * sin a) * (x * cos a - y * sin a) + (x * sin a + y * cos a) * (x * sin a + y * cos a))
    with ((x * x + y * y) * (sin a * sin a + cos a * cos a)) by ring.
  rewrite H. ring.
Qed.

Lemma rot_dot : forall (v : vec) (a b : R), vdot (rot v a) (rot v b) = vlen2 v * cos (b - a).
Proof. intros [x y] a b. vec_simpl. rewrite cos_minus. ring. Qed.

Lemma round_pt_on_circle : forall V nP delta a, vlen2 nP = 1 ->
  vlen2 (vsub (round_pt V nP delta a) V) = delta * delta.
Proof.
  intros [vx vy] nP delta a H. pose proof (rot_len2 nP a) as HR. rewrite H in HR.
  destruct (rot nP a) as [rx ry] eqn:E. unfold round_pt. rewrite E. vec_simpl.
  replace ((vx + delta * rx - vx) * (vx + delta * rx - vx) + (vy + delta * ry - vy) * (vy + delta * ry - vy))
    with (delta * delta * (rx * rx + ry * ry)) by ring.
  rewrite HR. ring.
Qed.

(* squared distance from V of a point of the chord between two join vertices theta apart *)
Lemma chord_len2 : forall (V nP : vec) (delta a theta t : R), vlen2 nP = 1 ->
  vlen2 (vsub (lerp t (round_pt V nP delta a) (round_pt V nP delta (a + theta))) V)
  = delta * delta * (1 - 2 * t * (1 - t) * (1 - cos theta)).
Proof.
  intros [vx vy] nP delta a theta t H.
  pose proof (rot_len2 nP a) as H1. pose proof (rot_len2 nP (a + theta)) as H2.
  pose proof (rot_dot nP a (a + theta)) as H3. rewrite H in *.
  replace (a + theta - a) with theta in H3 by ring.
  destruct (rot nP a) as [ax ay] eqn:E1. destruct (rot nP (a + theta)) as [bx by_] eqn:E2.
  unfold round_pt. rewrite E1, E2. vec_simpl.
  replace (((1 - t) * (vx + delta * ax) + t * (vx + delta * bx) - vx) * ((1 - t) * (vx + delta * ax) + t * (vx + delta * bx) - vx) +
           ((1 - t) * (vy + delta * ay) + t * (vy + delta * by_) - vy) * ((1 - t) * (vy + delta * ay) + t * (vy + delta * by_) - vy))
    with (delta * delta * ((1 - t) * (1 - t) * (ax * ax + ay * ay) + t * t * (bx * bx + by_ * by_) + 2 * t * (1 - t) * (ax * bx + ay * by_))) by ring.
  rewrite H1, H2, H3. ring.
Qed.

Lemma cos_half_sq : forall x, cos (x / 2) * cos (x / 2) = (1 + cos x) / 2.
Proof.
  intros x. replace x with (2 * (x / 2)) at 3 by field. rewrite cos_2a_cos. field.
Qed.

Lemma round_join_chord_error : forall (V nP : vec) (delta a theta t seg : R),
  vlen2 nP = 1 -> 3 <= seg -> 0 <= theta <= 2 * PI / seg -> 0 <= t <= 1 ->
  let P := lerp t (round_pt V nP delta a) (round_pt V nP delta (a + theta)) in
  Rabs delta * cos (PI / seg) <= vlen (vsub P V) <= Rabs delta.
Proof.
  intros V nP delta a theta t seg H Hs Ht Htt P.
  unfold vlen, P. rewrite chord_len2 by exact H.
  pose proof PI_RGT_0 as Hpi.
  assert (Hseg : 0 < seg) by lra.
  assert (Hps : 0 < PI / seg) by (apply Rdiv_lt_0_compat; lra).
  assert (Hps2 : PI / seg <= PI / 3).
  { unfold Rdiv. apply Rmult_le_compat_l; [lra|]. apply Rinv_le_contravar; lra. }
  assert (Hth : theta / 2 <= PI / seg) by (replace (PI / seg) with ((2 * PI / seg) / 2) by (field; lra); lra).
  assert (Hc1 : cos (PI / seg) <= cos (theta / 2)) by (apply cos_decr_1; lra).
  assert (Hc0 : 0 <= cos (PI / seg)) by (apply cos_ge_0; lra).
  pose proof (cos_half_sq theta) as Hh.
  pose proof (COS_bound theta) as [Hcl Hcu].
  assert (Ht4 : 0 <= t * (1 - t) <= / 4).
  { split; [nra|]. pose proof (Rle_0_sqr (t - / 2)) as Hsq. unfold Rsqr in Hsq. lra. }
  set (q := 1 - 2 * t * (1 - t) * (1 - cos theta)).
  assert (Hq1 : q <= 1) by (unfold q; nra).
  assert (Hq2 : cos (theta / 2) * cos (theta / 2) <= q) by (unfold q; rewrite Hh; nra).
  assert (Hq0 : 0 <= q) by nra.
  assert (Hd : 0 <= delta * delta) by nra.
  replace (Rabs delta) with (sqrt (delta * delta)) by (rewrite sqrt_square_abs || (rewrite <- sqrt_Rsqr_abs; reflexivity)).
  split.
  - assert (Hcc : cos (PI / seg) * cos (PI / seg) <= cos (theta / 2) * cos (theta / 2)) by (apply Rmult_le_compat; lra).
    assert (Hcc0 : 0 <= cos (PI / seg) * cos (PI / seg)) by (apply Rmult_le_pos; lra).
    rewrite <- (sqrt_square (cos (PI / seg))) by exact Hc0.
    rewrite <- sqrt_mult by lra.
    apply sqrt_le_1; [apply Rmult_le_pos; lra | apply Rmult_le_pos; lra | apply Rmult_le_compat_l; lra].
  - rewrite <- (Rmult_1_r (delta * delta)) at 2.
    apply sqrt_le_1; [apply Rmult_le_pos; lra | lra | apply Rmult_le_compat_l; lra].
Qed.

Lemma round_join_chord_error_bound : forall (V nP : vec) (delta a theta t seg : R),
  vlen2 nP = 1 -> 3 <= seg -> 0 <= theta <= 2 * PI / seg -> 0 <= t <= 1 ->
  let P := lerp t (round_pt V nP delta a) (round_pt V nP delta (a + theta)) in
  Rabs delta - vlen (vsub P V) <= Rabs delta * (1 - cos (PI / seg)).
Proof.
  intros V nP delta a theta t seg H Hs Ht Htt P.
  destruct (round_join_chord_error V nP delta a theta t seg H Hs Ht Htt) as [Hl _]. fold P in Hl. lra.
Qed.

(* nSub = max(1, ceil(sweep / fullStep)): a sub-step is never longer than a full step *)
Lemma substep_le_fullstep : forall (sweep full : R) (n : nat),
  0 < full -> 0 <= sweep -> (1 <= n)%nat -> sweep / full <= INR n -> sweep / INR n <= full.
Proof.
  intros sweep full n Hf Hs Hn H.
  assert (Hn' : 0 < INR n) by (apply lt_0_INR; lia).
  apply (Rmult_le_reg_r (INR n)); [exact Hn'|]. unfold Rdiv. rewrite Rmult_assoc, Rinv_l by lra.
  apply (Rmult_le_compat_r full) in H; [|lra]. unfold Rdiv in H. rewrite Rmult_assoc, Rinv_l in H by lra. lra.
Qed.

Example miter_threshold_inhabited : 0 < 2 /\ (1 : R) <> 0 /\ -1 < 0.
Proof. lra. Qed.
