From Coq Require Import ZArith List Bool Lia ZifyBool.
From MV Require Import Geo.WindingDefs Gen.BoolConsts Geo.InclDefs.
Import ListNotations.
Local Open Scope Z_scope.

Lemma result_winding_is_formula o a b : result_winding o (b2z a) (b2z b) = b2z (formula o a b).
Proof. destruct o, a, b; reflexivity. Qed.

Lemma inclusion_is_jump o k w :
  result_winding o (k + 1) w - result_winding o k w = gen_i03 o w /\
  result_winding o k (w + 1) - result_winding o k w = gen_i30 o k.
Proof. destruct o; cbv [result_winding gen_i03 gen_i30 gen_c1 gen_c2 gen_c3 optype_eqb]; split; ring. Qed.

Lemma inclusion_01 o (inQ inP : bool) :
  gen_i03 o (b2z inQ) = b2z (formula o true inQ) - b2z (formula o false inQ) /\
  gen_i30 o (b2z inP) = b2z (formula o inP true) - b2z (formula o inP false).
Proof. destruct o, inQ, inP; split; reflexivity. Qed.

Lemma inclusion_new_verts o x : Z.abs (gen_i12 o x) = Z.abs x /\ Z.abs (gen_i21 o x) = Z.abs x.
Proof. destruct o; cbv [gen_i12 gen_i21 gen_c3 optype_eqb]; lia. Qed.

Lemma invertQ_is_negative_inclusion o : gen_invertQ o = true <-> gen_i30 o 1 = -1.
Proof. destruct o; cbv; split; intros H; try discriminate H; reflexivity. Qed.

(* --- scans --- *)
Definition sum_abs (l : list Z) : Z := fold_right (fun x acc => Z.abs x + acc) 0 l.

Lemma zrange_app lo a b : zrange lo (a + b) = zrange lo a ++ zrange (lo + Z.of_nat a) b.
Proof.
  revert lo. induction a as [|a IH]; intros lo.
  - change (0 + b)%nat with b. cbn [zrange app]. replace (lo + Z.of_nat 0) with lo by lia. reflexivity.
  - change (S a + b)%nat with (S (a + b)). cbn [zrange app]. rewrite IH.
    replace (lo + 1 + Z.of_nat a) with (lo + Z.of_nat (S a)) by lia. reflexivity.
Qed.

Lemma exclusive_scan_length f init l : length (exclusive_scan f init l) = length l.
Proof. revert init. induction l as [|x r IH]; intros; cbn; [reflexivity|]. rewrite IH. reflexivity. Qed.

Lemma scan_total_value init l :
  0 <= init -> l <> [] -> scan_total gen_abssum init l = Some (init + sum_abs l).
Proof.
  intros Hi Hl. unfold scan_total. destruct l as [|x r]; [contradiction|]. clear Hl. f_equal.
  revert x init Hi. induction r as [|y r IH]; intros x init Hi.
  - cbn. unfold gen_abssum. lia.
  - change (exclusive_scan gen_abssum init (x :: y :: r))
      with (init :: exclusive_scan gen_abssum (gen_abssum init x) (y :: r)).
    change (last (x :: y :: r) 0) with (last (y :: r) 0).
    assert (E : last (init :: exclusive_scan gen_abssum (gen_abssum init x) (y :: r)) 0
                = last (exclusive_scan gen_abssum (gen_abssum init x) (y :: r)) 0) by reflexivity.
    rewrite E, IH by (unfold gen_abssum; lia).
    unfold gen_abssum. cbn [sum_abs fold_right]. lia.
Qed.

Lemma dup_positions_cons s S x X :
  dup_positions (s :: S) (x :: X) = zrange s (Z.to_nat (gen_dup_count x)) ++ dup_positions S X.
Proof. reflexivity. Qed.

Lemma sum_abs_nonneg r : 0 <= sum_abs r.
Proof. induction r as [|y r IH]; cbn [sum_abs fold_right]; [lia|]. fold (sum_abs r). lia. Qed.

Lemma dup_positions_cover init l :
  0 <= init ->
  dup_positions (exclusive_scan gen_abssum init l) l = zrange init (Z.to_nat (sum_abs l)).
Proof.
  revert init. induction l as [|x r IH]; intros init Hi; [reflexivity|].
  cbn [exclusive_scan]. rewrite dup_positions_cons.
  rewrite IH by (unfold gen_abssum; lia).
  cbn [sum_abs fold_right]. fold (sum_abs r).
  pose proof (sum_abs_nonneg r) as P.
  rewrite Z2Nat.inj_add by lia. rewrite zrange_app. unfold gen_dup_count, gen_abssum.
  do 2 f_equal. rewrite Z2Nat.id by lia. lia.
Qed.
