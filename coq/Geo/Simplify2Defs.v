(* C12 — CrossSection::Simplify: port of SimplifyRing
   (src/cross_section.cpp:130-188): the lazy min-heap loop with stamps.
   Definitions only; lemmas in Simplify2.v.

   Vertices are indices 0..n-1.  The deviation measure is a Section variable
   dev p i nx : Q  (the code's deviation2(i) evaluated with prev[i] = p and
   next[i] = nx); finite non-negative doubles embed order-isomorphically in Q,
   so theorems for every dev : Z -> Z -> Z -> Q cover every ring.  dev_pts is
   the code's expression over integer points, exactly:
       pnLen2 > 0 ? cross(V-P, N-P)^2 / pnLen2 : 0.
   The priority queue is a list; extract_min removes a least element of the
   order `worse` (d2, then idx).  Entries that tie on (d2, idx) differ only in
   their stamp, at most one of them is current, and a stale entry is skipped,
   so the result does not depend on which one a real heap pops first. *)
From Coq Require Import ZArith QArith List Bool.
From MV Require Import Geo.Wind2Defs.
Import ListNotations.
Local Open Scope Z_scope.

Record entry := { e_d : Q; e_st : Z; e_idx : Z }.

(* auto worse = [](a, b) { return a.d2 > b.d2 || (a.d2 == b.d2 && a.idx > b.idx); } *)
Definition worse (a b : entry) : bool :=
  match (e_d a ?= e_d b)%Q with
  | Gt => true
  | Eq => e_idx b <? e_idx a
  | Lt => false
  end.

(* heap.top(); heap.pop(): a least element and the rest *)
Fixpoint extract_min (h : list entry) : option (entry * list entry) :=
  match h with
  | [] => None
  | e :: r =>
    match extract_min r with
    | None => Some (e, [])
    | Some (m, r') => if worse e m then Some (m, e :: r') else Some (e, r)
    end
  end.

Definition upd {A} (f : Z -> A) (k : Z) (v : A) : Z -> A := fun i => if i =? k then v else f i.

Record sstate := {
  s_alive : Z -> bool;
  s_prev : Z -> Z;
  s_next : Z -> Z;
  s_stamp : Z -> Z;
  s_heap : list entry;
  s_nalive : Z
}.

Definition iota (n : Z) : list Z := map Z.of_nat (seq 0 (Z.to_nat n)).

Section Simplify.
  Variable dev : Z -> Z -> Z -> Q.     (* dev p i nx *)
  Variable tol2 : Q.

  Definition dev_of (s : sstate) (i : Z) : Q := dev (s_prev s i) i (s_next s i).

  (* for (j : {p, nx}) { ++stamp[j]; heap.push({deviation2(j), stamp[j], j}); } *)
  Definition rekey (s : sstate) (j : Z) : sstate :=
    let st' := upd (s_stamp s) j (s_stamp s j + 1) in
    {| s_alive := s_alive s; s_prev := s_prev s; s_next := s_next s; s_stamp := st';
       s_heap := {| e_d := dev_of s j; e_st := st' j; e_idx := j |} :: s_heap s;
       s_nalive := s_nalive s |}.

  (* alive[idx] = 0; --numAlive; next[p] = nx; prev[nx] = p; re-key p, nx *)
  Definition remove_vertex (s : sstate) (h' : list entry) (idx : Z) : sstate :=
    let p := s_prev s idx in
    let nx := s_next s idx in
    let s1 := {| s_alive := upd (s_alive s) idx false;
                 s_prev := upd (s_prev s) nx p;
                 s_next := upd (s_next s) p nx;
                 s_stamp := s_stamp s; s_heap := h'; s_nalive := s_nalive s - 1 |} in
    rekey (rekey s1 p) nx.

  Definition with_heap (s : sstate) (h' : list entry) : sstate :=
    {| s_alive := s_alive s; s_prev := s_prev s; s_next := s_next s; s_stamp := s_stamp s;
       s_heap := h'; s_nalive := s_nalive s |}.

  (* while (numAlive > 3 && !heap.empty()) { ... } ; None = out of fuel *)
  Fixpoint simplify_loop (fuel : nat) (s : sstate) : option sstate :=
    match fuel with
    | O => None
    | S f =>
      if 3 <? s_nalive s then
        match extract_min (s_heap s) with
        | None => Some s
        | Some (top, h') =>
          if negb (s_alive s (e_idx top)) || negb (e_st top =? s_stamp s (e_idx top))
          then simplify_loop f (with_heap s h')                       (* stale: continue *)
          else if Qle_bool tol2 (e_d top) then Some (with_heap s h')  (* top.d2 >= tol2: break *)
          else simplify_loop f (remove_vertex s h' (e_idx top))
        end
      else Some s
    end.

  (* prev[i] = (i + n - 1) % n; next[i] = (i + 1) % n; heap.push({deviation2(i), 0, i}) *)
  Definition init_state (n : Z) : sstate :=
    let pv := fun i => (i + n - 1) mod n in
    let nx := fun i => (i + 1) mod n in
    {| s_alive := fun _ => true; s_prev := pv; s_next := nx; s_stamp := fun _ => 0;
       s_heap := map (fun i => {| e_d := dev (pv i) i (nx i); e_st := 0; e_idx := i |}) (iota n);
       s_nalive := n |}.

  Definition live_list (n : Z) (s : sstate) : list Z := filter (s_alive s) (iota n).

  (* indices kept by SimplifyRing on a ring of n vertices *)
  Definition simplify_idx (n : Z) : option (list Z) :=
    if n <=? 3 then Some (iota n)
    else match simplify_loop (Z.to_nat (3 * n + 1)) (init_state n) with
         | None => None
         | Some s => Some (live_list n s)
         end.
End Simplify.

(* ---- the concrete deviation over integer points ---- *)
Definition nthp (ring : list pt) (i : Z) : pt := nth (Z.to_nat i) ring (0, 0).

(* deviation2 with P = ring[p], V = ring[i], N = ring[nx] *)
Definition dev_pts (ring : list pt) (p i nx : Z) : Q :=
  let P := nthp ring p in let V := nthp ring i in let N := nthp ring nx in
  let pn := sub N P in
  let len2 := dot pn pn in
  let c := crs (sub V P) pn in
  if 0 <? len2 then Qmake (c * c) (Z.to_pos len2) else 0%Q.

Definition simplify_ring (ring : list pt) (tol2 : Q) : option (list pt) :=
  match simplify_idx (dev_pts ring) tol2 (Z.of_nat (length ring)) with
  | None => None
  | Some idx => Some (map (nthp ring) idx)
  end.

(* in-order subsequence *)
Inductive subseq {A} : list A -> list A -> Prop :=
| subseq_nil : subseq [] []
| subseq_skip : forall a l1 l2, subseq l1 l2 -> subseq l1 (a :: l2)
| subseq_take : forall a l1 l2, subseq l1 l2 -> subseq (a :: l1) (a :: l2).

(* j is the first member of `out` met when walking forward from i (cyclically
   on 0..n-1), i.e. no member of `out` lies strictly between them *)
Definition cyc_next (out : list Z) (n i j : Z) : Prop :=
  In j out /\
  ((i < j /\ forall k, i < k < j -> ~ In k out) \/
   (j <= i /\ (forall k, i < k < n -> ~ In k out) /\ (forall k, 0 <= k < j -> ~ In k out))).

(* exact test used by the checker on library output (dyadic coordinates scaled
   to integers, tolerance^2 as a fraction tn/td of the squared unit):
   vertex V with neighbours P, N is at distance >= tol from line PN (when P = N
   the code's deviation is 0, acceptable only for tol <= 0) *)
Definition dev_ok (tn : Z) (td : positive) (P V N : pt) : bool :=
  let pn := sub N P in
  let len2 := dot pn pn in
  let c := crs (sub V P) pn in
  if len2 =? 0 then tn <=? 0 else tn * len2 <=? c * c * Zpos td.

Definition ring_dev_ok (tn : Z) (td : positive) (ring : list pt) : bool :=
  match ring with
  | [] => true
  | a :: _ =>
    let n := length ring in
    (Nat.leb n 3) ||
    forallb (fun k => dev_ok tn td (nth ((k + n - 1) mod n) ring a) (nth k ring a) (nth ((k + 1) mod n) ring a))
            (seq 0 n)
  end.

Fixpoint subseq_b (l1 l2 : list pt) : bool :=
  match l1, l2 with
  | [], _ => true
  | _ :: _, [] => false
  | a :: r1, b :: r2 => if pt_eqb a b then subseq_b r1 r2 else subseq_b l1 r2
  end.
