(* C12 — exact checker for CrossSection::Offset outputs.  Definitions only;
   soundness lemmas in Offset2Check.v.

   All coordinates are integers: the doubles of one case (input contours,
   output contours, sample points) are dyadic and are scaled by one common
   power of two S.  Distances are compared squared: a threshold radius r is
   passed as the integer T = floor or ceil of (r*S)^2, chosen by the caller on
   the conservative side.  Nothing here rounds. *)
From Coq Require Import ZArith List Bool.
From MV Require Import Geo.Wind2Defs.
Import ListNotations.
Local Open Scope Z_scope.

(* dist^2 (p, closed segment a-b) < T *)
Definition seg_within (T : Z) (p : pt) (e : seg) : bool :=
  let (a, b) := e in
  let u := sub b a in let w := sub p a in
  let L := dot u u in let d := dot u w in
  if d <=? 0 then dot w w <? T
  else if L <=? d then dot (sub p b) (sub p b) <? T
  else crs u w * crs u w <? T * L.

(* dist^2 (p, closed segment a-b) > T *)
Definition seg_beyond (T : Z) (p : pt) (e : seg) : bool :=
  let (a, b) := e in
  let u := sub b a in let w := sub p a in
  let L := dot u u in let d := dot u w in
  if d <=? 0 then T <? dot w w
  else if L <=? d then T <? dot (sub p b) (sub p b)
  else T * L <? crs u w * crs u w.

(* comparisons only: p is farther than R (in one coordinate) from the bounding box of e *)
Definition far_box (R : Z) (p : pt) (e : seg) : bool :=
  let (a, b) := e in
  (fst p + R <? Z.min (fst a) (fst b)) || (Z.max (fst a) (fst b) + R <? fst p) ||
  (snd p + R <? Z.min (snd a) (snd b)) || (Z.max (snd a) (snd b) + R <? snd p).

(* executable forms with the prefilter; R is any integer with 0 <= R and T <= R*R *)
Definition seg_within_fast (R T : Z) (p : pt) (e : seg) : bool :=
  if far_box R p e then false else seg_within T p e.
Definition seg_beyond_fast (R T : Z) (p : pt) (e : seg) : bool :=
  if far_box R p e then true else seg_beyond T p e.

(* p projects into the open edge a-b, lies on its right (side = false) or left
   (side = true), or on it, and is closer than sqrt T to its line: p is in the
   rectangle swept by moving the edge along its normal *)
Definition rect_within (side : bool) (T : Z) (p : pt) (e : seg) : bool :=
  let (a, b) := e in
  let u := sub b a in let w := sub p a in
  let L := dot u u in let d := dot u w in let c := crs u w in
  (0 <? d) && (d <? L) && (if side then 0 <=? c else c <=? 0) && (c * c <? T * L).
Definition rect_within_fast (R : Z) (side : bool) (T : Z) (p : pt) (e : seg) : bool :=
  if far_box R p e then false else rect_within side T p e.

(* ray-crossing winding with a y-interval prefilter (comparisons only) *)
Definition cross1_fast (p : pt) (e : seg) : Z :=
  let (a, b) := e in
  if (snd p <? Z.min (snd a) (snd b)) || (Z.max (snd a) (snd b) <=? snd p)
     || (Z.max (fst a) (fst b) <? fst p) then 0
  else cross1 p e.
Definition wind_fast (es : list seg) (p : pt) : Z := zsum (map (cross1_fast p) es).

Record oparams := {
  o_grow : bool;      (* delta > 0 *)
  o_round : bool;     (* JoinType::Round *)
  o_Tin : Z;          (* (r_in * S)^2 rounded down:  r_in  = |delta| - chord_error - slack *)
  o_Tout : Z;         (* (r_out * S)^2 rounded up:   r_out = bound(join) * |delta| + slack *)
  o_R : Z             (* prefilter radius: 0 <= R, Tin <= R^2, Tout <= R^2 *)
}.

Definition params_ok (P : oparams) : bool :=
  (0 <=? o_R P) && (o_Tin P <=? o_R P * o_R P) && (o_Tout P <=? o_R P * o_R P) && (0 <=? o_Tin P) && (0 <=? o_Tout P).

(* what the property demands of sample s, given the input edges ein:
   must_in / must_out are exact consequences of s's position relative to the input *)
Definition must_in (P : oparams) (ein : list seg) (s : pt) : bool :=
  let w := wind_fast ein s in
  if o_grow P then
    negb (w =? 0) ||
    (if o_round P then existsb (seg_within_fast (o_R P) (o_Tin P) s) ein
     else existsb (rect_within_fast (o_R P) false (o_Tin P) s) ein)
  else negb (w =? 0) && forallb (seg_beyond_fast (o_R P) (o_Tout P) s) ein.

Definition must_out (P : oparams) (ein : list seg) (s : pt) : bool :=
  let w := wind_fast ein s in
  if o_grow P then (w =? 0) && forallb (seg_beyond_fast (o_R P) (o_Tout P) s) ein
  else (w =? 0) ||
       (if o_round P then existsb (seg_within_fast (o_R P) (o_Tin P) s) ein
        else existsb (rect_within_fast (o_R P) true (o_Tin P) s) ein).

Definition sample_verdict (P : oparams) (ein eout : list seg) (s : pt) : bool :=
  let wo := wind_fast eout s in
  ((wo =? 0) || (wo =? 1)) &&
  (if must_in P ein s then wo =? 1 else true) &&
  (if must_out P ein s then wo =? 0 else true).

Definition offset_check (P : oparams) (inp out : list contour) (samples : list pt) : bool :=
  params_ok P &&
  forallb (sample_verdict P (all_edges inp) (all_edges out)) samples.

(* monotonicity in delta on a nested pair delta1 < delta2 (same input, join,
   segments): a sample inside out1 and farther than sqrt(Ts) from out1's
   boundary must be inside out2 *)
Definition mono_check (Rs Ts : Z) (out1 out2 : list contour) (samples : list pt) : bool :=
  (0 <=? Rs) && (Ts <=? Rs * Rs) &&
  forallb (fun s =>
     if negb (wind_fast (all_edges out1) s =? 0) && forallb (seg_beyond_fast Rs Ts s) (all_edges out1)
     then negb (wind_fast (all_edges out2) s =? 0) else true) samples.

(* regularity of the output: no two edges cross transversally at a point that
   is farther than sqrt(Ts) (measured from each endpoint to the other edge's
   line) from being a mere touch.  Bounding boxes are compared first. *)
Definition box_disjoint (e f : seg) : bool :=
  let (a, b) := e in let (c, d) := f in
  (Z.max (fst a) (fst b) <? Z.min (fst c) (fst d)) || (Z.max (fst c) (fst d) <? Z.min (fst a) (fst b)) ||
  (Z.max (snd a) (snd b) <? Z.min (snd c) (snd d)) || (Z.max (snd c) (snd d) <? Z.min (snd a) (snd b)).

Definition deep_cross (Ts : Z) (e f : seg) : bool :=
  if box_disjoint e f then false else
  let (a, b) := e in let (c, d) := f in
  let o1 := orient a b c in let o2 := orient a b d in
  let o3 := orient c d a in let o4 := orient c d b in
  let Le := dot (sub b a) (sub b a) in let Lf := dot (sub d c) (sub d c) in
  (o1 * o2 <? 0) && (o3 * o4 <? 0) &&
  (Ts * Le <? o1 * o1) && (Ts * Le <? o2 * o2) && (Ts * Lf <? o3 * o3) && (Ts * Lf <? o4 * o4).

Fixpoint no_deep_cross (Ts : Z) (es : list seg) : bool :=
  match es with
  | [] => true
  | e :: r => forallb (fun f => negb (deep_cross Ts e f)) r && no_deep_cross Ts r
  end.

Definition regular_out_check (Ts : Z) (out : list contour) : bool :=
  no_deep_cross Ts (all_edges out).
