(* C17 — sind / cosd (include/manifold/common.h:109-133) over Coq's primitive
   binary64 floats, with the part of math::sin / math::cos
   (include/manifold/math.h) that sind can reach: after remquo by 90 the
   argument is in [-45,45] degrees, i.e. |xr| <= pi/4, which is the branch
   `ix <= 0x3fe921fb` of both functions (kernel polynomials, no range
   reduction).  Outside that branch the model returns nan (not modelled).
   No proofs here. *)
From Coq Require Import ZArith Floats List Bool.
Import ListNotations.

(* round-to-nearest, ties-to-even quotient of num/den (den > 0, num >= 0) and
   the numerator of the exact remainder num - n*den : what IEEE remquo computes *)
Definition remquo_z (num den : Z) : Z * Z :=
  let q := (num / den)%Z in
  let r := (num mod den)%Z in
  let n := if (2 * r <? den)%Z then q
           else if (den <? 2 * r)%Z then (q + 1)%Z
           else if Z.even q then q else (q + 1)%Z in
  (n, (num - n * den)%Z).

Definition float_of_Z (z : Z) : float :=
  let m := of_uint63 (Uint63.of_Z (Z.abs z)) in
  if (z <? 0)%Z then (- m)%float else m.

(* std::remquo(x, 90.0, &quo) for finite x >= 0: exact remainder (IEEE) and the
   low three bits of the quotient (what glibc returns; sind only uses quo % 4) *)
Definition remquo90 (x : float) : float * Z :=
  match Prim2SF x with
  | S754_zero _ => (x, 0%Z)
  | S754_finite _ m e =>
      if (0 <=? e)%Z then
        let '(n, rm) := remquo_z (Zpos m * 2 ^ e) 90 in
        (float_of_Z rm, (n mod 8)%Z)
      else
        let s := (2 ^ (- e))%Z in
        let '(n, rm) := remquo_z (Zpos m) (90 * s) in
        let mag := Z.ldexp (of_uint63 (Uint63.of_Z (Z.abs rm))) e in
        ((if (rm <? 0)%Z then (- mag)%float else mag), (n mod 8)%Z)
  | _ => (nan, 0%Z)
  end.

Local Open Scope float_scope.

Definition kPi : float := 3.14159265358979323846264338327950288.
Definition radians (a : float) : float := a * kPi / 180.

Definition S1 := -1.66666666666666324348e-01.
Definition S2 := 8.33333333332248946124e-03.
Definition S3 := -1.98412698298579493134e-04.
Definition S4 := 2.75573137070700676789e-06.
Definition S5 := -2.50507602534068634195e-08.
Definition S6 := 1.58969099521155010221e-10.

(* SinKernel(x, 0.0, 0) *)
Definition sin_kernel (x : float) : float :=
  let z := x * x in
  let w := z * z in
  let r := S2 + z * (S3 + z * S4) + z * w * (S5 + z * S6) in
  let v := z * x in
  x + v * (S1 + z * r).

Definition C1 := 4.16666666666666019037e-02.
Definition C2 := -1.38888888888741095749e-03.
Definition C3 := 2.48015872894767294178e-05.
Definition C4 := -2.75573143513906633035e-07.
Definition C5 := 2.08757232129817482790e-09.
Definition C6 := -1.13596475577881948265e-11.

(* CosKernel(x, 0.0) *)
Definition cos_kernel (x : float) : float :=
  let y := 0 in
  let z := x * x in
  let w := z * z in
  let r := z * (C1 + z * (C2 + z * C3)) + w * w * (C4 + z * (C5 + z * C6)) in
  let hz := 0.5 * z in
  let w1 := 1 - hz in
  w1 + (((1 - w1) - hz) + (z * r - x * y)).

(* high-word thresholds of math::sin / math::cos as value comparisons:
   ix <= 0x3fe921fb  <->  |x| < 0x1.921fcp-1 ;  ix < 0x3e500000 <-> |x| < 2^-26 ;
   ix < 0x3e46a09e   <->  |x| < 0x1.6a09ep-27 *)
Definition msin (x : float) : float :=
  if abs x <? 0x1.921fcp-1 then (if abs x <? 0x1p-26 then x else sin_kernel x) else nan.
Definition mcos (x : float) : float :=
  if abs x <? 0x1.921fcp-1 then (if abs x <? 0x1.6a09ep-27 then 1 else cos_kernel x) else nan.

Definition sind (x : float) : float :=
  if negb (is_finite x) then nan
  else
    let neg := x <? 0 in
    let '(r, quo) := remquo90 (abs x) in
    let xr := radians r in
    let v := match (quo mod 4)%Z with
             | 0%Z => msin xr
             | 1%Z => mcos xr
             | 2%Z => - msin xr
             | _ => - mcos xr
             end in
    if neg then - v else v.

Definition cosd (x : float) : float := sind (x + 90).

(* expected exact values at 90*k *)
Definition quad_sin (k : Z) : Z :=
  match (k mod 4)%Z with 0%Z => 0%Z | 1%Z => 1%Z | 2%Z => 0%Z | _ => (-1)%Z end.
Definition quad_cos (k : Z) : Z := quad_sin (k + 1).

Definition sind_cosd_ok (k : Z) : bool :=
  let x := float_of_Z (90 * k) in
  (sind x =? float_of_Z (quad_sin k)) && (cosd x =? float_of_Z (quad_cos k)).

Fixpoint zrange_from (lo : Z) (n : nat) : list Z :=
  match n with O => [] | S m => lo :: zrange_from (lo + 1) m end.
