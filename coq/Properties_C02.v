(* C02 — Booleans compute the regularized set operation on the operand solids.
   Level: translation_validation.  What is PROVED here (for all inputs) is
   (1) the exact classifier that judges the implementation's outputs and the
   specification side of the lattice regime, (2) the inclusion arithmetic and
   vertex-range scans at the head of Boolean3::Result, about definitions that
   are regenerated from the C++ source on every run (Gen/BoolConsts.v),
   (3) Shadows as the order on infinitesimally perturbed values.
   What is NOT proved: that boolean3.cpp/boolean_result.cpp compute the right
   solid -- that is checked per output by the extracted classifier.
   Only statements closed by `exact`, each followed by Print Assumptions. *)
From Coq Require Import ZArith QArith List Bool Permutation.
From MV Require Import Par.Sched Par.ParDefs.
From MV Require Import Geo.WindingDefs Geo.Winding Gen.BoolConsts Geo.InclDefs Geo.Incl Geo.Perturb
  Geo.InclPar Geo.VoxelChain Geo.QOps Geo.KernelDefs Geo.FloodDefs Geo.Flood Geo.Kernel Geo.Kernel11.
Import ListNotations.
Local Open Scope Z_scope.

(* ---------- 1. the classifier ------------------------------------------- *)

(* additive over concatenation of triangle lists *)
Theorem winding_app : forall (t1 t2 : list tri) (p : pt),
  winding (t1 ++ t2) p = winding t1 p + winding t2 p.
Proof. exact winding_app_l. Qed.
Print Assumptions winding_app.

(* invariant under the order of the triangles and under rotating the vertices
   of any subset of the triangles *)
Theorem winding_perm : forall (t1 t2 : list tri) (f : tri -> bool) (p : pt),
  Permutation t1 t2 ->
  winding (map (fun t => if f t then rot_tri t else t) t2) p = winding t1 p.
Proof.
  intros t1 t2 f p H.
  exact (eq_trans (winding_rot_some f t2 p) (eq_sym (winding_perm_l t1 t2 p H))).
Qed.
Print Assumptions winding_perm.

(* reversing the orientation of every triangle negates *)
Theorem winding_flip : forall (tris : list tri) (p : pt),
  winding (map flip_tri tris) p = - winding tris p.
Proof. exact winding_flip_l. Qed.
Print Assumptions winding_flip.

(* the extracted (bounding-interval filtered) evaluator is the specification *)
Theorem winding_fast_is_winding : forall (tris : list tri) (p : pt),
  winding_fast tris p = winding tris p.
Proof. exact winding_fast_ok. Qed.
Print Assumptions winding_fast_is_winding.

(* the 12 triangles of Impl(Shape::Cube), scaled/translated to any integer box,
   have winding number 1 strictly inside and 0 strictly outside, at EVERY point
   whose coordinates avoid the six face planes -- including points whose +z ray
   passes through the diagonal edge of the top and bottom faces or through a
   vertical face (the half-open rule decides those). *)
Theorem winding_box : forall lx ly lz hx hy hz qx qy qz : Z,
  lx < hx -> ly < hy -> lz < hz ->
  qx <> lx -> qx <> hx -> qy <> ly -> qy <> hy -> qz <> lz -> qz <> hz ->
  winding (box_tris (lx, ly, lz) (hx, hy, hz)) (qx, qy, qz)
  = if in_box (lx, ly, lz) (hx, hy, hz) (qx, qy, qz) then 1 else 0.
Proof. exact winding_box_l. Qed.
Print Assumptions winding_box.
Example winding_box_on_diagonal :   (* ray through the face diagonal and through a corner column *)
  winding (box_tris (0,0,0) (4,4,4)) (2,2,2) = 1 /\ winding (box_tris (0,0,0) (4,4,4)) (2,2,-2) = 0 /\
  winding (box_tris (0,0,0) (4,4,4)) (1,3,1) = 1 /\ winding (box_tris (0,0,0) (4,4,4)) (5,3,1) = 0.
Proof. vm_compute. auto. Qed.

(* the table the theorem is about is the table in src/impl.cpp (regenerated) *)
Theorem cube_table_is_source :
  gen_cube_vert_bits = cube_vert_bits /\ gen_cube_tri_verts = cube_tri_verts.
Proof. exact (conj eq_refl eq_refl). Qed.
Print Assumptions cube_table_is_source.

Theorem volume6_app : forall t1 t2 : list tri, volume6 (t1 ++ t2) = volume6 t1 + volume6 t2.
Proof. exact volume6_app_l. Qed.
Print Assumptions volume6_app.

Theorem volume6_perm_flip : forall (t1 t2 : list tri),
  Permutation t1 t2 ->
  volume6 t2 = volume6 t1 /\ volume6 (map rot_tri t1) = volume6 t1 /\ volume6 (map flip_tri t1) = - volume6 t1.
Proof.
  intros t1 t2 H.
  exact (conj (eq_sym (volume6_perm_l t1 t2 H)) (conj (volume6_map_rot t1) (volume6_flip_l t1))).
Qed.
Print Assumptions volume6_perm_flip.

Theorem volume6_box : forall lx ly lz hx hy hz : Z,
  volume6 (box_tris (lx, ly, lz) (hx, hy, hz)) = 6 * ((hx - lx) * (hy - ly) * (hz - lz)).
Proof. exact volume6_box_l. Qed.
Print Assumptions volume6_box.

(* ---------- specification side of the lattice regime --------------------- *)

(* For every CSG expression over lattice boxes (even coordinates = doubled
   lattice) and half-spaces, and every voxel centre (odd coordinates):
   "the set formula applied to  winding(leaf cube mesh) <> 0"  is what the
   executable comparison-only classifier csg_inside computes.  So the
   reference side of the check is a theorem, not a second implementation. *)
Theorem voxel_spec : forall (e : csg) (p : pt),
  csg_wf e = true -> odd_pt p = true -> csg_inside_w e p = csg_inside e p.
Proof. exact voxel_spec_l. Qed.
Print Assumptions voxel_spec.
Example voxel_spec_satisfiable :
  let e := Node Add (Node Intersect (LBox (0,0,0) (6,6,6)) (LBox (2,2,2) (4,4,6))) (LHalf 0 true 2) in
  csg_wf e = true /\ odd_pt (3,3,5) = true /\ csg_inside e (3,3,5) = true /\ csg_inside e (1,1,1) = false.
Proof. vm_compute. auto. Qed.

(* Soundness of the lattice checker run on the implementation's output `out`
   (coordinates scaled by 2h): if it reports 0 mismatches then at EVERY voxel
   centre of the n^3 grid the output's winding number is 1 where the set
   formula (over "winding of the operand cube meshes is non-zero") holds and 0
   elsewhere, and the reported 6*volume is the exact 6*volume of the output. *)
Theorem lattice_check_sound : forall (e : csg) (out : list tri) (n : nat) (h cnt v : Z),
  csg_wf e = true ->
  lattice_check e out n h = (0, cnt, v) ->
  (forall i j k, 0 <= i < Z.of_nat n -> 0 <= j < Z.of_nat n -> 0 <= k < Z.of_nat n ->
     winding out ((2*i+1)*h, (2*j+1)*h, (2*k+1)*h)
     = if csg_inside_w e (2*i+1, 2*j+1, 2*k+1) then 1 else 0) /\
  v = volume6 out /\
  cnt = fold_right (fun c acc => acc + b2z (csg_inside e c)) 0 (centres n 1) /\
  volume6 (voxel_mesh e n) = 48 * cnt.
Proof. exact lattice_check_sound_ijk. Qed.
Print Assumptions lattice_check_sound.
(* (cnt is the number of voxels the formula keeps; voxel_mesh is the union of
   their unit cubes in doubled coordinates, 6*volume 48 each: the check
   compares v with 6 * cnt * (2h)^3 / 8.) *)
Example lattice_check_accepts_a_cube :
  lattice_check (LBox (0,0,0) (2,2,2)) (box_tris (0,0,0) (2,2,2)) 2 1 = (0, 1, 48).
Proof. vm_compute. reflexivity. Qed.

(* ---------- 2. inclusion arithmetic of Boolean3::Result ------------------ *)
(* gen_c1/c2/c3, gen_i03/i30/i12/i21, gen_abssum, gen_dup_count, gen_invertQ
   are regenerated from src/boolean_result.cpp on every run.

   result_winding o k w = c1*k + c2*w + c3*k*w  (k, w = winding numbers of a
   point w.r.t. P and Q) is the multilinear extension of the set formula, and
   the inclusion numbers the code computes are exactly its jumps across the
   surfaces of P and Q, for ALL integer winding numbers: crossing P's surface
   (k -> k+1) where the winding w.r.t. Q is w changes the result winding by
   i03 = c1 + c3*w, so that vertex/face of P must appear |i03| times in the
   result, with the orientation of P when i03 > 0 and reversed when < 0. *)
Theorem inclusion_table : forall (o : optype),
  (forall a b : bool, result_winding o (b2z a) (b2z b) = b2z (formula o a b)) /\
  (forall k w : Z,
     result_winding o (k + 1) w - result_winding o k w = gen_i03 o w /\
     result_winding o k (w + 1) - result_winding o k w = gen_i30 o k) /\
  (forall inQ inP : bool,
     gen_i03 o (b2z inQ) = b2z (formula o true inQ) - b2z (formula o false inQ) /\
     gen_i30 o (b2z inP) = b2z (formula o inP true) - b2z (formula o inP false)) /\
  (forall x : Z, Z.abs (gen_i12 o x) = Z.abs x /\ Z.abs (gen_i21 o x) = Z.abs x) /\
  (gen_invertQ o = true <-> gen_i30 o 1 = -1).
Proof.
  intros o.
  exact (conj (result_winding_is_formula o) (conj (inclusion_is_jump o) (conj (inclusion_01 o)
        (conj (inclusion_new_verts o) (invertQ_is_negative_inclusion o))))).
Qed.
Print Assumptions inclusion_table.

(* The AbsSum exclusive scan started at init >= 0 gives vertex v the range
   [vertR v, vertR v + |incl v|): DuplicateVerts writes exactly the positions
   init, init+1, ..., init + sum|incl| - 1, each once and in order, and the
   running total the code computes as AbsSum()(vertR.back(), incl.back()) is
   init + sum|incl| (None models .back() of an empty vector). *)
Theorem abs_sum_scan : forall (init : Z) (incl : list Z),
  0 <= init ->
  dup_positions (exclusive_scan gen_abssum init incl) incl = zrange init (Z.to_nat (sum_abs incl)) /\
  length (exclusive_scan gen_abssum init incl) = length incl /\
  (incl <> [] -> scan_total gen_abssum init incl = Some (init + sum_abs incl)).
Proof.
  intros init incl H.
  exact (conj (dup_positions_cover init incl H) (conj (exclusive_scan_length gen_abssum init incl)
              (scan_total_value init incl H))).
Qed.
Print Assumptions abs_sum_scan.
Example abs_sum_scan_example :
  exclusive_scan gen_abssum 3 [1; -1; 0; 2] = [3; 4; 5; 5] /\
  dup_positions [3; 4; 5; 5] [1; -1; 0; 2] = [3; 4; 5; 6] /\ scan_total gen_abssum 3 [1; -1; 0; 2] = Some 7.
Proof. vm_compute. auto. Qed.

(* the four scans run in the order i03 (from 0), i30, i12, i21, each starting
   where the previous one ended *)
Theorem scan_order_is_source : gen_scan_order = [(0, true); (1, false); (2, false); (3, false)].
Proof. exact eq_refl. Qed.
Print Assumptions scan_order_is_source.

(* ---------- 3. Shadows (src/shared.h) ------------------------------------ *)
(* Shadows p q (dp - dq) decides  p + eps*dp < q + eps*dq  for all sufficiently
   small eps = 1/N > 0 (integer coordinates, the comparison is multiplied by
   N): the strict order on values perturbed infinitesimally along dp, dq. *)
Theorem shadows_is_perturbed_order : forall p q dp dq : Z,
  gen_shadows p q (dp - dq) = true <->
  exists N0, 0 < N0 /\ forall N, N0 <= N -> N * p + dp < N * q + dq.
Proof. exact shadows_perturbed. Qed.
Print Assumptions shadows_is_perturbed_order.

(* antisymmetry (what makes the P->Q and Q->P kernels consistent) whenever the
   values differ or the perturbation direction is non-zero; when p = q and
   dir = 0 the tie is NOT broken: both directions answer false. *)
Theorem shadows_antisymmetry : forall p q dir : Z,
  ((p <> q \/ dir <> 0) -> gen_shadows p q dir = negb (gen_shadows q p (- dir))) /\
  (gen_shadows p q dir = true -> gen_shadows q p (- dir) = false) /\
  (gen_shadows p p 0 = false /\ gen_shadows p p (- 0) = false).
Proof.
  intros p q dir.
  exact (conj (shadows_antisym p q dir) (conj (shadows_asym p q dir) (shadows_tie p))).
Qed.
Print Assumptions shadows_antisymmetry.

(* the form Shadow01 uses in both the forward and the backward kernel *)
Theorem shadows_withSign_form : forall (p q : Z) (expandP : bool) (nP nQ : Z),
  gen_shadows p q (gen_withSign expandP nP - nQ) = true <->
  exists N0, 0 < N0 /\ forall N, N0 <= N -> N * p + gen_withSign expandP nP < N * q + nQ.
Proof. exact shadows_withSign. Qed.
Print Assumptions shadows_withSign_form.

(* ---------- 4. the scans under every legal parallel schedule ---------------- *)
(* exclusive_scan(Par, ..., init, AbsSum(), identity = 0) runs tbb::parallel_scan
   (C13's protocol model: Par/Sched.legal_scan = any splits, any pre-scans, any
   legal order).  AbsSum is associative but has NO identity on negative numbers
   (AbsSum 0 (-3) = 3), so C13's scan_spec does not apply; nevertheless every
   partial sum the protocol forms is init (>= 0), the raw 0, or a value AbsSum
   returned (>= 0), and on those AbsSum acc x = acc + |x|: the run coincides
   step for step with the (+)-scan of |x|.  Hence the vertex ranges are the
   sequential ones under EVERY legal schedule. *)
Theorem abs_sum_scan_parallel :
  forall (xs : list Z) (init : Z) (ops : list scan_op) (out0 : nat -> Z),
    0 <= init ->
    legal_scan (length xs) ops = true ->
    fst (excl_scan_par 0 gen_abssum xs init ops out0) = init + sum_abs xs /\
    (forall p : nat, snd (excl_scan_par 0 gen_abssum xs init ops out0) p =
                     if (p <? length xs)%nat then init + sum_abs (firstn p xs) else out0 p) /\
    map (snd (excl_scan_par 0 gen_abssum xs init ops out0)) (seq 0 (length xs)) = exclusive_scan gen_abssum init xs.
Proof.
  intros xs init ops out0 Hi HL.
  exact (conj (proj1 (abs_sum_scan_par xs init ops out0 Hi HL))
        (conj (proj2 (abs_sum_scan_par xs init ops out0 Hi HL))
              (proj1 (abs_sum_scan_par_is_sequential xs init ops out0 Hi HL)))).
Qed.
Print Assumptions abs_sum_scan_parallel.

Theorem abs_sum_assoc_no_identity :
  (forall a b c : Z, gen_abssum (gen_abssum a b) c = gen_abssum a (gen_abssum b c)) /\
  (forall e : Z, gen_abssum e (-3) <> -3 /\ gen_abssum (-3) e <> -3).
Proof. exact (conj gen_abssum_assoc (proj2 (proj2 gen_abssum_no_identity))). Qed.
Print Assumptions abs_sum_assoc_no_identity.

(* ---------- 5. equal winding => equal volume, for lattice voxel chains ------ *)
(* Restricted form of "closed meshes with equal winding number at every generic
   point have equal volume": for 2-chains generated by unit voxel cubes of the
   n^3 grid (each with an orientation; faces shared by two voxels cancel), 6*volume
   is 48 * the sum of the winding numbers over the voxel centres, so two chains
   with the same winding at every centre have the same volume.  NOT proved for
   arbitrary closed triangle meshes (that is what the exact volume comparison
   of the check stands in for). *)
Theorem chain_volume_is_winding_sum : forall (n : nat) (l : list (pt * bool)),
  (forall cb, In cb l -> In (fst cb) (centres n 1)) ->
  volume6 (chain_mesh l) = 48 * fold_right (fun c acc => winding (chain_mesh l) c + acc) 0 (centres n 1).
Proof. exact chain_volume_is_sum_of_windings. Qed.
Print Assumptions chain_volume_is_winding_sum.

Theorem equal_winding_equal_volume_lattice : forall (n : nat) (l1 l2 : list (pt * bool)),
  (forall cb, In cb l1 -> In (fst cb) (centres n 1)) ->
  (forall cb, In cb l2 -> In (fst cb) (centres n 1)) ->
  (forall c, In c (centres n 1) -> winding (chain_mesh l1) c = winding (chain_mesh l2) c) ->
  volume6 (chain_mesh l1) = volume6 (chain_mesh l2).
Proof. exact equal_winding_equal_volume. Qed.
Print Assumptions equal_winding_equal_volume_lattice.

(* ---------- 6. the intersection kernels of boolean3.cpp, exact port --------- *)
(* Geo/KernelDefs.v ports Interpolate, Intersect, Shadow01, Kernel02, Kernel11,
   Kernel12 over Q (divisions exact, isfinite fall-backs = zero denominators);
   the correspondence run compares their integer outputs with the real kernels. *)

(* Shadows over Q = strict order on infinitesimally perturbed values (lexicographic form) *)
Theorem shadowsQ_is_perturbed_order : forall p q dp dq : Q,
  gen_shadowsQ p q (dp - dq) = true <-> (p < q \/ (p == q /\ dp < dq))%Q.
Proof. exact shadowsQ_perturbed. Qed.
Print Assumptions shadowsQ_is_perturbed_order.

Theorem shadowsQ_antisymmetry : forall p q dir : Q,
  (gen_shadowsQ p q dir = true -> gen_shadowsQ q p (- dir) = false) /\
  ((~ p == q \/ ~ dir == 0)%Q -> gen_shadowsQ p q dir = negb (gen_shadowsQ q p (- dir))).
Proof. intros p q dir. exact (conj (shadowsQ_asym p q dir) (shadowsQ_total p q dir)). Qed.
Print Assumptions shadowsQ_antisymmetry.

(* Shadow01.  xleft ex P Q a b  ("P-vertex a, perturbed along (expandP ? + : -) its
   normal, is left of Q-vertex b perturbed along its normal") is the ONE question
   both passes ask: forward (P vertex a0 against the Q edge b1s -> b1e) computes
   [a0 left of b1e] - [a0 left of b1s], backward (Q vertex a0 against the P edge)
   computes [b1s left of a0] - [b1e left of a0] -- the same predicate with P on
   the left in both, which is the expandP consistency of the two passes.
   s01 = +1 / -1 iff the vertex lies in the perturbed half-open x-interval of the
   edge (edge running right / left) AND the edge point above the vertex' x is
   above the vertex in the perturbed y order. *)
Theorem shadow01_spec : forall (ex : bool) (inP inQ : kmesh) (a0 b1 b1s b1e : Z),
  (let sx := s01_x ex true inP inQ a0 b1s b1e in
   let yz := interpolate (vpos inQ b1s) (vpos inQ b1e) (vx (vpos inP a0)) in
   let dir := (vy (fnorm inQ (b1 / 3)%Z) + vy (fnorm inQ (hpair inQ b1 / 3)%Z))%Q in
   shadow01 ex true a0 b1 b1s b1e inP inQ =
   if (sx =? 0)%Z then (0%Z, None)
   else ((if gen_shadowsQ (vy (vpos inP a0)) (fst yz) (- dir) then sx else 0%Z), Some yz)) /\
  (let sx := s01_x ex false inP inQ a0 b1s b1e in
   let yz := interpolate (vpos inP b1s) (vpos inP b1e) (vx (vpos inQ a0)) in
   let dir := (vy (fnorm inP (b1 / 3)%Z) + vy (fnorm inP (hpair inP b1 / 3)%Z))%Q in
   shadow01 ex false a0 b1 b1s b1e inQ inP =
   if (sx =? 0)%Z then (0%Z, None)
   else ((if gen_shadowsQ (fst yz) (vy (vpos inQ a0)) (gen_withSignQ ex dir) then sx else 0%Z), Some yz)) /\
  (let s := s01_x ex true inP inQ a0 b1s b1e in
   (s = 1 <-> xleft ex inP inQ a0 b1e = true /\ xleft ex inP inQ a0 b1s = false) /\
   (s = -1 <-> xleft ex inP inQ a0 b1e = false /\ xleft ex inP inQ a0 b1s = true) /\
   (s = 0 <-> xleft ex inP inQ a0 b1e = xleft ex inP inQ a0 b1s) /\ -1 <= s <= 1) /\
  (let s := s01_x ex false inP inQ a0 b1s b1e in
   (s = 1 <-> xleft ex inP inQ b1s a0 = true /\ xleft ex inP inQ b1e a0 = false) /\
   (s = -1 <-> xleft ex inP inQ b1s a0 = false /\ xleft ex inP inQ b1e a0 = true) /\
   (s = 0 <-> xleft ex inP inQ b1s a0 = xleft ex inP inQ b1e a0) /\ -1 <= s <= 1).
Proof.
  intros ex inP inQ a0 b1 b1s b1e.
  exact (conj (shadow01_forward_spec ex inP inQ a0 b1 b1s b1e) (conj (shadow01_backward_spec ex inP inQ a0 b1 b1s b1e)
        (conj (s01_x_forward_cases ex inP inQ a0 b1s b1e) (s01_x_backward_cases ex inP inQ a0 b1s b1e)))).
Qed.
Print Assumptions shadow01_spec.

Theorem xleft_is_perturbed_order : forall (ex : bool) (inP inQ : kmesh) (a b : Z),
  xleft ex inP inQ a b = true <->
  (vx (vpos inP a) < vx (vpos inQ b) \/
   (vx (vpos inP a) == vx (vpos inQ b) /\ gen_withSignQ ex (vx (vnorm inP a)) < vx (vnorm inQ b)))%Q.
Proof. exact xleft_perturbed. Qed.
Print Assumptions xleft_is_perturbed_order.

(* Kernel02 (PARTIAL: the crossing-number form, not yet "inside the perturbed
   triangle"): s02 is 0 or the 2-D crossing number of the +y ray from the
   perturbed vertex with the three perturbed sides of the face (each side's
   Shadow01 value with the sign of its direction); it is non-zero only if the
   face is above the vertex in the perturbed z order.  Missing: the equivalence
   of "crossing number = +-1" with an orientation-predicate definition of
   "projects inside the perturbed triangle". *)
Theorem kernel02_is_crossing_sum_partial : forall (ex fw : bool) (inA inB : kmesh) (a0 b2 s : Z) (z : option Q),
  kernel02 ex fw inA inB a0 b2 = Some (s, z) ->
  (s = 0 \/ s = s02_pre ex fw inA inB a0 b2) /\
  (s <> 0 -> exists z02, z = Some z02 /\
     (if fw then gen_shadowsQ (vz (vpos inA a0)) z02 (- vz (fnorm inB b2))%Q
      else gen_shadowsQ z02 (vz (vpos inA a0)) (gen_withSignQ ex (vz (fnorm inB b2)))) = true).
Proof. exact kernel02_s02. Qed.
Print Assumptions kernel02_is_crossing_sum_partial.

(* Kernel11 (PARTIAL, same sense): s11 is 0 or the sum of the four Shadow01 values of the end points of either edge
   against the other edge (start points negative), and non-zero only if, at the crossing computed by Intersect, the P
   edge is below the Q edge in the perturbed z order. *)
Theorem kernel11_is_crossing_sum_partial :
  forall (ex : bool) (inP inQ : kmesh) (p1 p1s p1e q1 q1s q1e s : Z) (xyzz : option (Q * Q * Q * Q)),
  kernel11 ex inP inQ p1 p1s p1e q1 q1s q1e = Some (s, xyzz) ->
  (s = 0 \/ s = s11_pre ex inP inQ p1 p1s p1e q1 q1s q1e) /\
  (s <> 0 -> exists x y z w, xyzz = Some (x, y, z, w) /\
     gen_shadowsQ z w (gen_withSignQ ex (vz (fnorm inP (p1 / 3)) + vz (fnorm inP (hpair inP p1 / 3)))
                       - (vz (fnorm inQ (q1 / 3)) + vz (fnorm inQ (hpair inQ q1 / 3))))%Q = true).
Proof. exact kernel11_s11. Qed.
Print Assumptions kernel11_is_crossing_sum_partial.

(* Kernel12: x12 = sigma * (s02(start) - s02(end)) - sum over the sides of the face of (+-1) * s11 *)
Theorem kernel12_is_signed_sum : forall (ex fw : bool) (inP inQ : kmesh) (a1 b2 x : Z) (v : option v3),
  kernel12 ex fw inP inQ a1 b2 = Some (x, v) ->
  let inA := if fw then inP else inQ in
  let inB := if fw then inQ else inP in
  let eAs := hstart inA a1 in
  let eAe := hend inA a1 in
  x = (if fw then 1 else -1) * (k02s ex fw inA inB eAs b2 - k02s ex fw inA inB eAe b2)
      - fold_right (fun fe acc => fsign fe * k11s ex fw inP inQ a1 eAs eAe fe + acc) 0 (face_edges inB b2).
Proof. exact kernel12_x12. Qed.
Print Assumptions kernel12_is_signed_sum.

(* ---------- 7. from the kernels to the winding numbers w03 ------------------ *)
(* For a CLOSED oriented B (pairing = involution reversing the edge; evaluated as
   closed_meshb on every real operand by the correspondence run), the x12 of an
   edge of A summed over all faces of B is the difference of the vertex windings
   (sums of s02) of its end points, for ALL inputs, ties included: the Kernel11
   terms cancel since every edge of B is seen once in each direction. *)
Theorem x12_sum_is_winding_difference : forall (ex fw : bool) (inP inQ : kmesh) (nTriB : nat) (a1 : Z),
  let inA := if fw then inP else inQ in
  let inB := if fw then inQ else inP in
  closed_mesh inB nTriB ->
  (forall b, 0 <= b < Z.of_nat nTriB -> kernel12 ex fw inP inQ a1 b <> None) ->
  zsum (x12v ex fw inP inQ a1) nTriB =
  (if fw then 1 else -1) *
  (zsum (k02s ex fw inA inB (hstart inA a1)) nTriB - zsum (k02s ex fw inA inB (hend inA a1)) nTriB).
Proof. exact x12_sum_l. Qed.
Print Assumptions x12_sum_is_winding_difference.

(* Winding03's integer part: union-find over the unbroken forward halfedges
   (quick-find model of DisjointSets), one sum per representative, flood fill.
   Components are exactly the connectivity classes of the unbroken edges, and
   if W does not change along unbroken edges and is what was computed at the
   representatives, every vertex receives its own W -- independent of which
   vertex the union-find chose as representative (ranks, ids, schedule). *)
Theorem winding03_flood_fill_spec : forall (edges : list (Z * Z)) (W wroot : Z -> Z),
  (forall a b, uf_find (uf_build edges) a = uf_find (uf_build edges) b <-> conn edges a b) /\
  ((forall x y, In (x, y) edges -> W x = W y) ->
   (forall i, wroot (uf_find (uf_build edges) i) = W (uf_find (uf_build edges) i)) ->
   forall i, winding03 edges wroot i = W i).
Proof. intros edges W wroot. exact (conj (uf_same_iff_conn edges) (winding03_spec_l edges W wroot)). Qed.
Print Assumptions winding03_flood_fill_spec.

(* ... and with the kernels: when the recorded intersection list is complete
   (a forward halfedge without an entry has x12 = 0 against every face), every
   vertex of A gets  sigma * sum over the faces of B of s02(v, face). *)
Theorem winding03_is_vertex_winding : forall (ex fw : bool) (inP inQ : kmesh) (nHalfA nTriB : nat) (broken : list Z),
  let inA := if fw then inP else inQ in
  let inB := if fw then inQ else inP in
  closed_mesh inB nTriB ->
  (forall e b, 0 <= e < Z.of_nat nHalfA -> 0 <= b < Z.of_nat nTriB -> kernel12 ex fw inP inQ e b <> None) ->
  (forall e b, 0 <= e < Z.of_nat nHalfA -> hstart inA e < hend inA e -> is_broken broken e = false ->
               0 <= b < Z.of_nat nTriB -> x12v ex fw inP inQ e b = 0) ->
  forall v, winding03 (unbroken_edges (hstart inA) (hend inA) nHalfA broken) (vertex_winding ex fw inA inB nTriB) v
            = vertex_winding ex fw inA inB nTriB v.
Proof. exact winding03_is_vertex_winding_l. Qed.
Print Assumptions winding03_is_vertex_winding.

Theorem w03_sum_is_vertex_winding : forall (ex fw : bool) (inA inB : kmesh) (nTriB : nat) (v : Z),
  (forall b, 0 <= b < Z.of_nat nTriB -> kernel02 ex fw inA inB v b <> None) ->
  w03_sum ex fw inA inB (map Z.of_nat (seq 0 nTriB)) v = Some (vertex_winding ex fw inA inB nTriB v).
Proof. exact w03_sum_value. Qed.
Print Assumptions w03_sum_is_vertex_winding.

(* all hypotheses of the chain hold on a concrete pair (two tetrahedra in general position) *)
Example kernel_chain_hypotheses_satisfiable :
  let P := ex_tet 0 0 0 in
  let Q := ex_tet (1 # 2) (1 # 3) (1 # 5) in
  closed_mesh Q 4 /\ closed_mesh P 4 /\
  (forall e b, 0 <= e < 12 -> 0 <= b < 4 -> kernel12 false true P Q e b <> None) /\
  map (fun v => vertex_winding false true P Q 4 v) [0; 1; 2; 3] = [0; 0; 0; 1] /\
  map (fun e => zsum (x12v false true P Q e) 4) [1; 3; 6] = [0; -1; -1].
Proof. exact kernel_chain_example. Qed.
