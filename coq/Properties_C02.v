(* C02 — Booleans compute the regularized set operation on the operand solids.
   Level: translation_validation.  What is PROVED here (for all inputs) is
   (1) the exact classifier that judges the implementation's outputs and the
   specification side of the lattice regime, (2) the inclusion arithmetic and
   vertex-range scans at the head of Boolean3::Result, about definitions that
   are regenerated from the C++ source on every run (Gen/BoolConsts.v),
   (3) Shadows as the order on infinitesimally perturbed values.
   What is NOT proved: that boolean3.cpp/boolean_result.cpp compute the right
   solid -- that is checked per output by the extracted classifier.
   Only statements closed by `exact`, each followed by Print Assumptions. *)
From Coq Require Import ZArith List Bool Permutation.
From MV Require Import Geo.WindingDefs Geo.Winding Gen.BoolConsts Geo.InclDefs Geo.Incl Geo.Perturb.
Import ListNotations.
Local Open Scope Z_scope.

(* ---------- 1. the classifier ------------------------------------------- *)

(* additive over concatenation of triangle lists *)
Theorem winding_app : forall (t1 t2 : list tri) (p : pt),
  winding (t1 ++ t2) p = winding t1 p + winding t2 p.
Proof. exact winding_app_l. Qed.
Print Assumptions winding_app.

(* invariant under the order of the triangles and under rotating the vertices
   of any subset of the triangles *)
Theorem winding_perm : forall (t1 t2 : list tri) (f : tri -> bool) (p : pt),
  Permutation t1 t2 ->
  winding (map (fun t => if f t then rot_tri t else t) t2) p = winding t1 p.
Proof.
  intros t1 t2 f p H.
  exact (eq_trans (winding_rot_some f t2 p) (eq_sym (winding_perm_l t1 t2 p H))).
Qed.
Print Assumptions winding_perm.

(* reversing the orientation of every triangle negates *)
Theorem winding_flip : forall (tris : list tri) (p : pt),
  winding (map flip_tri tris) p = - winding tris p.
Proof. exact winding_flip_l. Qed.
Print Assumptions winding_flip.

(* the extracted (bounding-interval filtered) evaluator is the specification *)
Theorem winding_fast_is_winding : forall (tris : list tri) (p : pt),
  winding_fast tris p = winding tris p.
Proof. exact winding_fast_ok. Qed.
Print Assumptions winding_fast_is_winding.

(* the 12 triangles of Impl(Shape::Cube), scaled/translated to any integer box,
   have winding number 1 strictly inside and 0 strictly outside, at EVERY point
   whose coordinates avoid the six face planes -- including points whose +z ray
   passes through the diagonal edge of the top and bottom faces or through a
   vertical face (the half-open rule decides those). *)
Theorem winding_box : forall lx ly lz hx hy hz qx qy qz : Z,
  lx < hx -> ly < hy -> lz < hz ->
  qx <> lx -> qx <> hx -> qy <> ly -> qy <> hy -> qz <> lz -> qz <> hz ->
  winding (box_tris (lx, ly, lz) (hx, hy, hz)) (qx, qy, qz)
  = if in_box (lx, ly, lz) (hx, hy, hz) (qx, qy, qz) then 1 else 0.
Proof. exact winding_box_l. Qed.
Print Assumptions winding_box.
Example winding_box_on_diagonal :   (* ray through the face diagonal and through a corner column *)
  winding (box_tris (0,0,0) (4,4,4)) (2,2,2) = 1 /\ winding (box_tris (0,0,0) (4,4,4)) (2,2,-2) = 0 /\
  winding (box_tris (0,0,0) (4,4,4)) (1,3,1) = 1 /\ winding (box_tris (0,0,0) (4,4,4)) (5,3,1) = 0.
Proof. vm_compute. auto. Qed.

(* the table the theorem is about is the table in src/impl.cpp (regenerated) *)
Theorem cube_table_is_source :
  gen_cube_vert_bits = cube_vert_bits /\ gen_cube_tri_verts = cube_tri_verts.
Proof. exact (conj eq_refl eq_refl). Qed.
Print Assumptions cube_table_is_source.

Theorem volume6_app : forall t1 t2 : list tri, volume6 (t1 ++ t2) = volume6 t1 + volume6 t2.
Proof. exact volume6_app_l. Qed.
Print Assumptions volume6_app.

Theorem volume6_perm_flip : forall (t1 t2 : list tri),
  Permutation t1 t2 ->
  volume6 t2 = volume6 t1 /\ volume6 (map rot_tri t1) = volume6 t1 /\ volume6 (map flip_tri t1) = - volume6 t1.
Proof.
  intros t1 t2 H.
  exact (conj (eq_sym (volume6_perm_l t1 t2 H)) (conj (volume6_map_rot t1) (volume6_flip_l t1))).
Qed.
Print Assumptions volume6_perm_flip.

Theorem volume6_box : forall lx ly lz hx hy hz : Z,
  volume6 (box_tris (lx, ly, lz) (hx, hy, hz)) = 6 * ((hx - lx) * (hy - ly) * (hz - lz)).
Proof. exact volume6_box_l. Qed.
Print Assumptions volume6_box.

(* ---------- specification side of the lattice regime --------------------- *)

(* For every CSG expression over lattice boxes (even coordinates = doubled
   lattice) and half-spaces, and every voxel centre (odd coordinates):
   "the set formula applied to  winding(leaf cube mesh) <> 0"  is what the
   executable comparison-only classifier csg_inside computes.  So the
   reference side of the check is a theorem, not a second implementation. *)
Theorem voxel_spec : forall (e : csg) (p : pt),
  csg_wf e = true -> odd_pt p = true -> csg_inside_w e p = csg_inside e p.
Proof. exact voxel_spec_l. Qed.
Print Assumptions voxel_spec.
Example voxel_spec_satisfiable :
  let e := Node Add (Node Intersect (LBox (0,0,0) (6,6,6)) (LBox (2,2,2) (4,4,6))) (LHalf 0 true 2) in
  csg_wf e = true /\ odd_pt (3,3,5) = true /\ csg_inside e (3,3,5) = true /\ csg_inside e (1,1,1) = false.
Proof. vm_compute. auto. Qed.

(* Soundness of the lattice checker run on the implementation's output `out`
   (coordinates scaled by 2h): if it reports 0 mismatches then at EVERY voxel
   centre of the n^3 grid the output's winding number is 1 where the set
   formula (over "winding of the operand cube meshes is non-zero") holds and 0
   elsewhere, and the reported 6*volume is the exact 6*volume of the output. *)
Theorem lattice_check_sound : forall (e : csg) (out : list tri) (n : nat) (h cnt v : Z),
  csg_wf e = true ->
  lattice_check e out n h = (0, cnt, v) ->
  (forall i j k, 0 <= i < Z.of_nat n -> 0 <= j < Z.of_nat n -> 0 <= k < Z.of_nat n ->
     winding out ((2*i+1)*h, (2*j+1)*h, (2*k+1)*h)
     = if csg_inside_w e (2*i+1, 2*j+1, 2*k+1) then 1 else 0) /\
  v = volume6 out /\
  cnt = fold_right (fun c acc => acc + b2z (csg_inside e c)) 0 (centres n 1) /\
  volume6 (voxel_mesh e n) = 48 * cnt.
Proof. exact lattice_check_sound_ijk. Qed.
Print Assumptions lattice_check_sound.
(* (cnt is the number of voxels the formula keeps; voxel_mesh is the union of
   their unit cubes in doubled coordinates, 6*volume 48 each: the check
   compares v with 6 * cnt * (2h)^3 / 8.) *)
Example lattice_check_accepts_a_cube :
  lattice_check (LBox (0,0,0) (2,2,2)) (box_tris (0,0,0) (2,2,2)) 2 1 = (0, 1, 48).
Proof. vm_compute. reflexivity. Qed.

(* ---------- 2. inclusion arithmetic of Boolean3::Result ------------------ *)
(* gen_c1/c2/c3, gen_i03/i30/i12/i21, gen_abssum, gen_dup_count, gen_invertQ
   are regenerated from src/boolean_result.cpp on every run.

   result_winding o k w = c1*k + c2*w + c3*k*w  (k, w = winding numbers of a
   point w.r.t. P and Q) is the multilinear extension of the set formula, and
   the inclusion numbers the code computes are exactly its jumps across the
   surfaces of P and Q, for ALL integer winding numbers: crossing P's surface
   (k -> k+1) where the winding w.r.t. Q is w changes the result winding by
   i03 = c1 + c3*w, so that vertex/face of P must appear |i03| times in the
   result, with the orientation of P when i03 > 0 and reversed when < 0. *)
Theorem inclusion_table : forall (o : optype),
  (forall a b : bool, result_winding o (b2z a) (b2z b) = b2z (formula o a b)) /\
  (forall k w : Z,
     result_winding o (k + 1) w - result_winding o k w = gen_i03 o w /\
     result_winding o k (w + 1) - result_winding o k w = gen_i30 o k) /\
  (forall inQ inP : bool,
     gen_i03 o (b2z inQ) = b2z (formula o true inQ) - b2z (formula o false inQ) /\
     gen_i30 o (b2z inP) = b2z (formula o inP true) - b2z (formula o inP false)) /\
  (forall x : Z, Z.abs (gen_i12 o x) = Z.abs x /\ Z.abs (gen_i21 o x) = Z.abs x) /\
  (gen_invertQ o = true <-> gen_i30 o 1 = -1).
Proof.
  intros o.
  exact (conj (result_winding_is_formula o) (conj (inclusion_is_jump o) (conj (inclusion_01 o)
        (conj (inclusion_new_verts o) (invertQ_is_negative_inclusion o))))).
Qed.
Print Assumptions inclusion_table.

(* The AbsSum exclusive scan started at init >= 0 gives vertex v the range
   [vertR v, vertR v + |incl v|): DuplicateVerts writes exactly the positions
   init, init+1, ..., init + sum|incl| - 1, each once and in order, and the
   running total the code computes as AbsSum()(vertR.back(), incl.back()) is
   init + sum|incl| (None models .back() of an empty vector). *)
Theorem abs_sum_scan : forall (init : Z) (incl : list Z),
  0 <= init ->
  dup_positions (exclusive_scan gen_abssum init incl) incl = zrange init (Z.to_nat (sum_abs incl)) /\
  length (exclusive_scan gen_abssum init incl) = length incl /\
  (incl <> [] -> scan_total gen_abssum init incl = Some (init + sum_abs incl)).
Proof.
  intros init incl H.
  exact (conj (dup_positions_cover init incl H) (conj (exclusive_scan_length gen_abssum init incl)
              (scan_total_value init incl H))).
Qed.
Print Assumptions abs_sum_scan.
Example abs_sum_scan_example :
  exclusive_scan gen_abssum 3 [1; -1; 0; 2] = [3; 4; 5; 5] /\
  dup_positions [3; 4; 5; 5] [1; -1; 0; 2] = [3; 4; 5; 6] /\ scan_total gen_abssum 3 [1; -1; 0; 2] = Some 7.
Proof. vm_compute. auto. Qed.

(* the four scans run in the order i03 (from 0), i30, i12, i21, each starting
   where the previous one ended *)
Theorem scan_order_is_source : gen_scan_order = [(0, true); (1, false); (2, false); (3, false)].
Proof. exact eq_refl. Qed.
Print Assumptions scan_order_is_source.

(* ---------- 3. Shadows (src/shared.h) ------------------------------------ *)
(* Shadows p q (dp - dq) decides  p + eps*dp < q + eps*dq  for all sufficiently
   small eps = 1/N > 0 (integer coordinates, the comparison is multiplied by
   N): the strict order on values perturbed infinitesimally along dp, dq. *)
Theorem shadows_is_perturbed_order : forall p q dp dq : Z,
  gen_shadows p q (dp - dq) = true <->
  exists N0, 0 < N0 /\ forall N, N0 <= N -> N * p + dp < N * q + dq.
Proof. exact shadows_perturbed. Qed.
Print Assumptions shadows_is_perturbed_order.

(* antisymmetry (what makes the P->Q and Q->P kernels consistent) whenever the
   values differ or the perturbation direction is non-zero; when p = q and
   dir = 0 the tie is NOT broken: both directions answer false. *)
Theorem shadows_antisymmetry : forall p q dir : Z,
  ((p <> q \/ dir <> 0) -> gen_shadows p q dir = negb (gen_shadows q p (- dir))) /\
  (gen_shadows p q dir = true -> gen_shadows q p (- dir) = false) /\
  (gen_shadows p p 0 = false /\ gen_shadows p p (- 0) = false).
Proof.
  intros p q dir.
  exact (conj (shadows_antisym p q dir) (conj (shadows_asym p q dir) (shadows_tie p))).
Qed.
Print Assumptions shadows_antisymmetry.

(* the form Shadow01 uses in both the forward and the backward kernel *)
Theorem shadows_withSign_form : forall (p q : Z) (expandP : bool) (nP nQ : Z),
  gen_shadows p q (gen_withSign expandP nP - nQ) = true <->
  exists N0, 0 < N0 /\ forall N, N0 <= N -> N * p + gen_withSign expandP nP < N * q + nQ.
Proof. exact shadows_withSign. Qed.
Print Assumptions shadows_withSign_form.
