(* C08 x C09 — the run table GetMeshGLImpl emits, as a record the ingest ladder
   (Codec/IngestDefs.v) can be evaluated on.  Model only, no proofs. *)
From Coq Require Import ZArith List Bool.
From MV Require Import Codec.MeshGLDefs Codec.IngestDefs.
Import ListNotations.
Local Open Scope Z_scope.

(* addRun(out, tri, rel) pushes 3*tri whenever meshID differs from the previous
   triangle's (lastID = -1 initially) *)
Fixpoint run_starts (last pos : Z) (l : list itri) : list Z :=
  match l with
  | [] => []
  | t :: r => (if meshID t =? last then [] else [3 * pos]) ++ run_starts (meshID t) (pos + 1) r
  end.

(* ... then one run starting at 3*numTri for each of the k relation entries
   whose mesh contributed no triangle, then the closing 3*numTri *)
Definition export_run_index (srt : list itri) (k : nat) : list Z :=
  run_starts (-1) 0 srt ++ repeat (3 * zlen srt) k ++ [3 * zlen srt].

Definition export_num_runs (srt : list itri) (k : nat) : Z :=
  zlen (run_starts (-1) 0 srt) + Z.of_nat k.

(* m carries the run fields of an export of the sorted triangles srt with k empty runs *)
Definition exported_runs (srt : list itri) (k : nat) (withTransform : bool) (m : meshgl) : Prop :=
  runIndex m = export_run_index srt k /\
  runOrigLen m = export_num_runs srt k /\
  zlen (triVerts m) = 3 * zlen srt /\
  rtLen m = (if withTransform then 12 * export_num_runs srt k else 0).

(* the local runIndex when the run-shape rung is evaluated (after INormaliseRuns) *)
Definition st_runs (m : meshgl) : st := mkSt (normalise_runs m (runIndex m)) [] false [].

Definition is_run_rung (r : rung) : bool :=
  match r with RTransformLen | RRunIndexLen | RRunIndexShape | RRunIndexShapeStrict => true | _ => false end.

(* the obligation on a generated table: no rung that rejects tables the export emits *)
Definition accepts_export_tables (t : list item) : bool :=
  forallb (fun it => match it with IRung RRunIndexShapeStrict _ => false | _ => true end) t.

(* witness: two triangles of one mesh plus one relation entry without triangles: {0, 6, 6} *)
Definition w_srt : list itri :=
  [ mkTri 1 1 (-1) 0 [0; 1; 2] [0; 1; 2] []; mkTri 1 1 (-1) 1 [2; 1; 3] [2; 1; 3] [] ].
Definition w_empty_run_mesh : meshgl :=
  mkMesh true 3 12 true [0; 1; 2; 2; 1; 3] [] [] (export_run_index w_srt 1) 2 24 true 2 2 0 true.
