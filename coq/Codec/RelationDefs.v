(* C07 -- executable Gallina port of the mesh-relation bookkeeping:
     TriRef                                   src/shared.h:321
     Impl::Relation, MeshRelationD            src/impl.h:29-51
     GetMeshGLImpl (run construction)         src/impl.h:534-628
     MapTriRef / UpdateReference              src/boolean_result.cpp:505-538
     Impl::IncrementMeshIDs / UpdateMeshID    src/impl.cpp:52-56, 744-760
     Impl::Transform (relation update)        src/impl.cpp:594-620
     CsgLeafNode::Compose (relation part)     src/csg_tree.cpp:289, 389-412
     Impl::InitializeOriginal                 src/impl.cpp:195-211
     GetBarycentric (over Q)                  src/shared.h:150-196
     CreateProperties (interpolation tail)    src/boolean_result.cpp:669-684
   Model only: no proofs here.  std::map<int,Relation> is an association list
   with strictly ascending keys (iteration order of std::map = list order).
   Anything the C++ would read out of bounds / from an absent hash slot is None. *)
From Coq Require Import ZArith List Bool QArith Sorting.Mergesort Orders.
Import ListNotations.
Local Open Scope Z_scope.

Record TriRef := mkTriRef { meshID : Z; originalID : Z; faceID : Z; coplanarID : Z }.

(* Impl::Relation; T is the type of the 3x4 transform (12 doubles in the C++;
   M34 over Z in the algebra below; an opaque handle in the extracted run builder). *)
Record Relation (T : Type) := mkRel
  { rOriginalID : Z; rTransform : T; rBackSide : bool; rHasNormals : bool }.
Arguments mkRel {T}. Arguments rOriginalID {T}. Arguments rTransform {T}.
Arguments rBackSide {T}. Arguments rHasNormals {T}.

(* ------------------------------------------------------------ std::map<int,V> *)
Section Map.
  Context {V : Type}.
  Definition zmap := list (Z * V).
  Fixpoint m_find (k : Z) (m : zmap) : option V :=
    match m with [] => None | (k', v) :: m' => if k =? k' then Some v else m_find k m' end.
  Fixpoint m_erase (k : Z) (m : zmap) : zmap :=
    match m with [] => [] | (k', v) :: m' => if k =? k' then m' else (k', v) :: m_erase k m' end.
  (* operator[] = v : insert in key order or overwrite *)
  Fixpoint m_set (k : Z) (v : V) (m : zmap) : zmap :=
    match m with
    | [] => [(k, v)]
    | (k', v') :: m' => if k <? k' then (k, v) :: m
                        else if k =? k' then (k, v) :: m' else (k', v') :: m_set k v m'
    end.
  Definition m_keys (m : zmap) : list Z := map fst m.
  Fixpoint asc (l : list Z) : Prop :=
    match l with [] => True | a :: l' => (match l' with [] => True | b :: _ => a < b end) /\ asc l' end.
  Fixpoint asc_b (l : list Z) : bool :=
    match l with [] => true | a :: l' => (match l' with [] => true | b :: _ => a <? b end) && asc_b l' end.
  Definition map_ok (m : zmap) : Prop := asc (m_keys m).
End Map.
Arguments zmap V : clear implicits.

Fixpoint iota (start : Z) (n : nat) : list Z :=
  match n with O => [] | S n' => start :: iota (start + 1) n' end.

(* ------------------------------------------------------------ GetMeshGLImpl *)
(* the comparator given to std::stable_sort (impl.h:572-576) *)
Definition tri_less (a b : TriRef) : bool :=
  if originalID a =? originalID b then meshID a <? meshID b else originalID a <? originalID b.

(* std::stable_sort of iota by tri_less.  Its result is the unique permutation
   that is sorted for tri_less and keeps equivalent elements in index order,
   i.e. the list sorted by the TOTAL order (originalID, meshID, index); we
   compute that with the standard library merge sort
   (RelationModel.stable_sort_unique proves the characterisation). *)
Module TriOrder <: TotalLeBool.
  Definition t := (Z * TriRef)%type.          (* (old index, ref) *)
  Definition leb (x y : t) : bool :=
    let (i, a) := x in let (j, b) := y in
    if tri_less a b then true else if tri_less b a then false else i <=? j.
  Theorem leb_total : forall x y, leb x y = true \/ leb y x = true.
  Proof.
    intros [i a] [j b]; unfold leb, tri_less.
    destruct (originalID a =? originalID b) eqn:E.
    - rewrite Z.eqb_sym, E. destruct (meshID a <? meshID b) eqn:E1; [now left|].
      destruct (meshID b <? meshID a) eqn:E2; [now right|].
      destruct (i <=? j) eqn:E3; [now left|]. right.
      apply Z.leb_gt in E3. apply Z.leb_le. apply Z.lt_le_incl; exact E3.
    - rewrite Z.eqb_sym, E. destruct (originalID a <? originalID b) eqn:E1; [now left|].
      destruct (originalID b <? originalID a) eqn:E2; [now right|].
      apply Z.ltb_ge in E1. apply Z.ltb_ge in E2. apply Z.eqb_neq in E.
      exfalso; apply E; apply Z.le_antisymm; assumption.
  Qed.
End TriOrder.
Module TriSort := Sort TriOrder.

Definition sort_tris (isOriginal : bool) (refs : list TriRef) : list (Z * TriRef) :=
  let l := combine (iota 0 (length refs)) refs in
  if isOriginal then l else TriSort.sort l.

Section Runs.
  Context {T : Type}.
  Variable tid : T.                       (* la::identity *)
  Definition default_rel : Relation T := mkRel (-1) tid false false.

  (* one addRun call: start triangle, the meshID that opened the run (ghost, not
     exported) and the Relation whose fields are pushed *)
  Record Run := mkRun { r_start : Z; r_key : Z; r_rel : Relation T }.

  (* the loop impl.h:602-619 over the triangles in their new order *)
  Fixpoint run_loop (m : zmap (Relation T)) (lastID tri : Z) (refs : list TriRef)
    : list Run * zmap (Relation T) :=
    match refs with
    | [] => ([], m)
    | ref :: rest =>
      let id := meshID ref in
      if id =? lastID then run_loop m lastID (tri + 1) rest
      else
        let rel := match m_find id m with Some r => r | None => default_rel end in
        let (rs, m') := run_loop (m_erase id m) id (tri + 1) rest in
        (mkRun tri id rel :: rs, m')
    end.

  Definition all_runs (m : zmap (Relation T)) (sorted : list TriRef) : list Run :=
    let n := Z.of_nat (length sorted) in
    let (rs, rest) := run_loop m (-1) 0 sorted in
    rs ++ map (fun kv => mkRun n (fst kv) (snd kv)) rest.   (* impl.h:621-623 *)

  Definition flags_of (r : Relation T) : Z :=
    Z.lor (if rBackSide r then 1 else 0) (if rHasNormals r then 2 else 0).
  Definition face_of (r : TriRef) : Z := if faceID r >=? 0 then faceID r else coplanarID r.

  Record MeshRuns := mkMeshRuns
    { triNew2Old : list Z; outFaceID : list Z; runIndex : list Z;
      runOriginalID : list Z; runFlags : list Z; runTransform : list T; runKeys : list Z (* ghost *) }.

  Definition get_mesh_runs (isOriginal : bool) (m : zmap (Relation T)) (refs : list TriRef) : MeshRuns :=
    let s := sort_tris isOriginal refs in
    let sorted := map snd s in
    let n := Z.of_nat (length refs) in
    let rs := all_runs m sorted in
    mkMeshRuns (map fst s) (map face_of sorted)
               (map (fun r => 3 * r_start r) rs ++ [3 * n])
               (map (fun r => rOriginalID (r_rel r)) rs)
               (map (fun r => flags_of (r_rel r)) rs)
               (if isOriginal then [] else map (fun r => rTransform (r_rel r)) rs)
               (map r_key rs).

  (* run j spans triangles [r_start j, run_end j) = runIndex[j]/3 .. runIndex[j+1]/3 *)
  Definition run_ends (rs : list Run) (n : Z) : list Z := tl (map r_start rs) ++ [n].
  Definition extents (rs : list Run) (n : Z) : list (Run * Z) := combine rs (run_ends rs n).

  (* ---------------------------------------------------------- UpdateReference *)
  Definition set_meshID (r : TriRef) (id : Z) := mkTriRef id (originalID r) (faceID r) (coplanarID r).

  (* MapTriRef::operator() *)
  Definition map_tri_ref (triRefP triRefQ : list TriRef) (offsetQ : Z) (r : TriRef) : option TriRef :=
    let tri := faceID r in
    let PQ := meshID r =? 0 in
    if tri <? 0 then None else
    match nth_error (if PQ then triRefP else triRefQ) (Z.to_nat tri) with
    | None => None
    | Some x => Some (if PQ then x else set_meshID x (meshID x + offsetQ))
    end.

  Fixpoint map_opt {A B} (f : A -> option B) (l : list A) : option (list B) :=
    match l with
    | [] => Some []
    | a :: l' => match f a, map_opt f l' with Some b, Some bs => Some (b :: bs) | _, _ => None end
    end.

  Definition flip_back (invertQ : bool) (r : Relation T) : Relation T :=
    mkRel (rOriginalID r) (rTransform r) (xorb (rBackSide r) invertQ) (rHasNormals r).

  (* the two loops boolean_result.cpp:530-537 on outR's map m0 (empty in Boolean3::Result) *)
  Definition merge_maps (offsetQ : Z) (invertQ : bool) (mP mQ m0 : zmap (Relation T)) : zmap (Relation T) :=
    let m1 := fold_left (fun acc kv => m_set (fst kv) (snd kv) acc) mP m0 in
    fold_left (fun acc kv => m_set (fst kv + offsetQ) (flip_back invertQ (snd kv)) acc) mQ m1.

  Definition update_reference (counter : Z) (invertQ : bool)
             (mP : zmap (Relation T)) (refP : list TriRef)
             (mQ : zmap (Relation T)) (refQ : list TriRef)
             (outRefs : list TriRef) : option (zmap (Relation T) * list TriRef) :=
    let offsetQ := counter in
    match map_opt (map_tri_ref refP refQ offsetQ) outRefs with
    | None => None
    | Some refs => Some (merge_maps offsetQ invertQ mP mQ [], refs)
    end.

  (* --------------------------------------------------------- IncrementMeshIDs *)
  (* returns new map, new triRef, new counter.  HashTable lookup of an absent
     key returns an unrelated slot in the C++: None here. *)
  Definition increment_mesh_ids (counter : Z) (m : zmap (Relation T)) (refs : list TriRef)
    : option (zmap (Relation T) * list TriRef * Z) :=
    let num := length m in
    let news := iota counter num in                       (* nextMeshID++ from ReserveIDs(num) *)
    let old2new : zmap Z := combine (m_keys m) news in
    let m' := fold_left (fun acc kv => m_set (fst kv) (snd kv) acc) (combine news (map snd m)) [] in
    match map_opt (fun r => match m_find (meshID r) old2new with
                            | Some id => Some (set_meshID r id) | None => None end) refs with
    | None => None
    | Some refs' => Some (m', refs', counter + Z.of_nat num)
    end.

  (* -------------------------------------------------------- InitializeOriginal *)
  Definition all_have_normals (m : zmap (Relation T)) : bool :=
    match m with [] => false | _ => forallb (fun kv => rHasNormals (snd kv)) m end.
  Definition initialize_original (counter : Z) (m : zmap (Relation T)) (refs : list TriRef)
    : Z * zmap (Relation T) * list TriRef * Z :=
    let id := counter in
    (id, [(id, mkRel id tid false (all_have_normals m))],
     map (fun r => mkTriRef id id (-1) (coplanarID r)) refs, counter + 1).
End Runs.
Arguments Run T : clear implicits.
Arguments MeshRuns T : clear implicits.

(* ------------------------------------------------------------ 3x4 transforms *)
(* mat3x4 is column major: c0 c1 c2 are the columns of the linear part, c3 the
   translation.  Entries in Z (a commutative ring: the identities below are
   ring identities, so they hold for the exact values the doubles denote). *)
Record V3 := mkV3 { vx : Z; vy : Z; vz : Z }.
Record M34 := mkM34 { c0 : V3; c1 : V3; c2 : V3; c3 : V3 }.
Definition v3add (a b : V3) := mkV3 (vx a + vx b) (vy a + vy b) (vz a + vz b).
Definition v3scale (s : Z) (a : V3) := mkV3 (s * vx a) (s * vy a) (s * vz a).
Definition m34id : M34 := mkM34 (mkV3 1 0 0) (mkV3 0 1 0) (mkV3 0 0 1) (mkV3 0 0 0).
(* M * vec4(v, w) *)
Definition m34apply4 (m : M34) (v : V3) (w : Z) : V3 :=
  v3add (v3add (v3scale (vx v) (c0 m)) (v3scale (vy v) (c1 m))) (v3add (v3scale (vz v) (c2 m)) (v3scale w (c3 m))).
Definition m34apply (m : M34) (p : V3) : V3 := m34apply4 m p 1.
(* a * Mat4(b): columns of Mat4(b) are (c_i b, 0) and (c3 b, 1) *)
Definition m34mul (a b : M34) : M34 :=
  mkM34 (m34apply4 a (c0 b) 0) (m34apply4 a (c1 b) 0) (m34apply4 a (c2 b) 0) (m34apply4 a (c3 b) 1).
Definition v3eqb (a b : V3) := (vx a =? vx b) && (vy a =? vy b) && (vz a =? vz b).
Definition m34eqb (a b : M34) := v3eqb (c0 a) (c0 b) && v3eqb (c1 a) (c1 b) && v3eqb (c2 a) (c2 b) && v3eqb (c3 a) (c3 b).

Definition with_transform (r : Relation M34) (t : M34) : Relation M34 :=
  mkRel (rOriginalID r) t (rBackSide r) (rHasNormals r).

(* Impl::Transform, relation part: identity returns *this unchanged *)
Definition impl_transform (t : M34) (m : zmap (Relation M34)) : zmap (Relation M34) :=
  if m34eqb t m34id then m
  else map (fun kv => (fst kv, with_transform (snd kv) (m34mul t (rTransform (snd kv))))) m.

(* CsgLeafNode::Compose, relation part.  A node = (lazy transform_, map, triRef). *)
Definition cnode := (M34 * zmap (Relation M34) * list TriRef)%type.
Fixpoint compose_from (i : Z) (snapshot : Z) (nodes : list cnode)
         (acc : zmap (Relation M34)) : zmap (Relation M34) * list TriRef :=
  match nodes with
  | [] => (acc, [])
  | (t, m, refs) :: rest =>
    let offset := i * snapshot in
    let acc' := fold_left (fun a kv =>
                  let rel := snd kv in
                  let rel' := if m34eqb t m34id then rel else with_transform rel (m34mul t (rTransform rel)) in
                  m_set (fst kv + offset) rel' a) m acc in
    let (accf, refsf) := compose_from (i + 1) snapshot rest acc' in
    (accf, map (fun r => set_meshID r (meshID r + offset)) refs ++ refsf)
  end.
Definition compose_relation (snapshot : Z) (nodes : list cnode) := compose_from 0 snapshot nodes [].

(* ------------------------------------------------------------ GetBarycentric over Q *)
Local Open Scope Q_scope.
Record Q3 := mkQ3 { qx : Q; qy : Q; qz : Q }.
Definition q3sub (a b : Q3) := mkQ3 (qx a - qx b) (qy a - qy b) (qz a - qz b).
Definition q3dot (a b : Q3) : Q := qx a * qx b + qy a * qy b + qz a * qz b.
Definition q3cross (a b : Q3) := mkQ3 (qy a * qz b - qz a * qy b) (qz a * qx b - qx a * qz b) (qx a * qy b - qy a * qx b).
Definition Qltb (a b : Q) : bool := negb (Qle_bool b a).
Definition next3 (i : nat) : nat := match i with 0%nat => 1%nat | 1%nat => 2%nat | _ => 0%nat end.
Definition q3nth (t : Q3 * Q3 * Q3) (i : nat) : Q3 :=
  let '(a, b, c) := t in match i with 0%nat => a | 1%nat => b | _ => c end.
Definition qnth (t : Q * Q * Q) (i : nat) : Q :=
  let '(a, b, c) := t in match i with 0%nat => a | 1%nat => b | _ => c end.
Definition qset (t : Q * Q * Q) (i : nat) (v : Q) : Q * Q * Q :=
  let '(a, b, c) := t in match i with 0%nat => (v, b, c) | 1%nat => (a, v, c) | _ => (a, b, v) end.

Definition tri_edges (tri : Q3 * Q3 * Q3) : Q3 * Q3 * Q3 :=
  let '(p0, p1, p2) := tri in (q3sub p2 p1, q3sub p0 p2, q3sub p1 p0).
Definition tri_crossP (tri : Q3 * Q3 * Q3) : Q3 :=
  q3cross (q3nth (tri_edges tri) 0%nat) (q3nth (tri_edges tri) 1%nat).
(* crossPv for corner i *)
Definition bary_crossPv (tri : Q3 * Q3 * Q3) (v : Q3) (i : nat) : Q3 :=
  q3cross (q3nth (tri_edges tri) i) (q3sub v (q3nth tri (next3 i))).
Definition edge_d2 (tri : Q3 * Q3 * Q3) (i : nat) : Q :=
  q3dot (q3nth (tri_edges tri) i) (q3nth (tri_edges tri) i).
Definition near_vert (tri : Q3 * Q3 * Q3) (v : Q3) (tol2 : Q) (i : nat) : bool :=
  let dv := q3sub v (q3nth tri i) in Qltb (q3dot dv dv) tol2.
Definition edge_snapped (tri : Q3 * Q3 * Q3) (v : Q3) (tol2 : Q) (i : nat) : bool :=
  let c := bary_crossPv tri v i in Qltb (q3dot c c) (edge_d2 tri i * tol2).
Definition long_side (tri : Q3 * Q3 * Q3) : nat :=
  let d := edge_d2 tri in
  if Qltb (d 1%nat) (d 0%nat) && Qltb (d 2%nat) (d 0%nat) then 0%nat
  else if Qltb (d 2%nat) (d 1%nat) then 1%nat else 2%nat.

Definition get_barycentric (v : Q3) (tri : Q3 * Q3 * Q3) (tolerance : Q) : Q * Q * Q :=
  let d := edge_d2 tri in
  let longSide := long_side tri in
  let crossP := tri_crossP tri in
  let area2 := q3dot crossP crossP in
  let tol2 := tolerance * tolerance in
  if near_vert tri v tol2 0%nat then (1, 0, 0)
  else if near_vert tri v tol2 1%nat then (0, 1, 0)
  else if near_vert tri v tol2 2%nat then (0, 0, 1)
  else if Qltb (d longSide) tol2 then (1, 0, 0)                   (* point *)
  else if Qltb (d longSide * tol2) area2 then                     (* triangle *)
    let u i := if edge_snapped tri v tol2 i then 0 else q3dot (bary_crossPv tri v i) crossP in
    let s := u 0%nat + u 1%nat + u 2%nat in
    (u 0%nat / s, u 1%nat / s, u 2%nat / s)
  else                                                            (* line *)
    let nextV := next3 longSide in
    let alpha := q3dot (q3sub v (q3nth tri nextV)) (q3nth (tri_edges tri) longSide) / d longSide in
    let lastV := next3 nextV in
    qset (qset (qset (0, 0, 0) longSide 0) nextV (1 - alpha)) lastV alpha.

(* CreateProperties: value pushed for channel p of a new property vertex
   (negateNormals is false: hasNormals runs are out of scope here) *)
Definition interp_channel (uvw : Q * Q * Q) (oldNumProp p : nat) (old : Q * Q * Q) : Q :=
  if (p <? oldNumProp)%nat then
    let '(a, b, c) := uvw in let '(x, y, z) := old in a * x + b * y + c * z
  else 0.
