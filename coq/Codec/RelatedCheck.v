(* C07 -- soundness of the executable checker in RelatedCheckDefs.v against
   declarative (squared-distance) statements. *)
From Coq Require Import ZArith List Bool Lia.
From MV Require Import Codec.RelationDefs Codec.RelatedCheckDefs.
Import ListNotations.
Local Open Scope Z_scope.

(* ---- declarative side (Euclidean, squared so that it stays in Z) *)
(* distance of q from the plane of t is at most tol:  (N.(q-P0))^2 <= tol^2 |N|^2 *)
Definition plane_close (tol : Z) (t : PTri) (q : V3) : Prop :=
  (vdot (pn t) (vsub q (pp0 t))) ^ 2 <= tol ^ 2 * vdot (pn t) (pn t).
(* q (projected into the plane) is on the inner side of edge line i or at most
   tol outside it:  u_i >= -tol |e_i| |N|   with u_i = |N| |e_i| * signed in-plane distance *)
Definition edge_ok (tol : Z) (t : PTri) (q : V3) (i : nat) : Prop :=
  0 <= weight t q i \/
  (weight t q i) ^ 2 <= tol ^ 2 * vdot (edge_of t i) (edge_of t i) * vdot (pn t) (pn t).
Definition inside (tol : Z) (t : PTri) (q : V3) : Prop :=
  vdot (pn t) (pn t) <> 0 /\ edge_ok tol t q 0 /\ edge_ok tol t q 1 /\ edge_ok tol t q 2.
Definition orient_ok (tol ws : Z) (ref : PTri) (q0 q1 q2 : V3) : Prop :=
  let oN := vcross (vsub q1 q0) (vsub q2 q0) in
  vdot oN oN <= tol ^ 4 \/ vdot oN (pn ref) = 0 \/ Z.sgn (vdot oN (pn ref)) = ws.
(* | got - (u0 a + u1 b + u2 c)/(u0+u1+u2) | <= (kn/kd) (1 + max(|a|,|b|,|c|)), values scaled by `one` *)
Definition prop_ok (kn kd one : Z) (u pv : Z * Z * Z) (got : Z) : Prop :=
  let '(u0, u1, u2) := u in let '(a, b, c) := pv in
  let su := u0 + u1 + u2 in
  su = 0 \/
  Z.abs (got * su - (u0 * a + u1 * b + u2 * c)) * kd <= kn * (one + Z.max (Z.abs a) (Z.max (Z.abs b) (Z.abs c))) * Z.abs su.
Definition channels_ok (kn kd one : Z) (checkProps : bool) (u : Z * Z * Z) (pvs : list (Z * Z * Z)) (got : list Z) : Prop :=
  forall c g, nth_error got c = Some g ->
    match nth_error pvs c with
    | Some pv => checkProps = true -> prop_ok kn kd one u pv g
    | None => g = 0                                  (* channel the source lacks *)
    end.
Definition corner_ok (tol kn kd one : Z) (checkProps : bool) (S : list PTri) (q : V3) (got : list Z) : Prop :=
  exists t, In t S /\ inside tol t q /\
            channels_ok kn kd one checkProps (weight t q 0, weight t q 1, weight t q 2) (pprops t) got.

(* ---- lemmas *)
Lemma norm_inf_nonneg : forall a, 0 <= norm_inf a.
Proof. intros a; unfold norm_inf; lia. Qed.

Lemma norm_inf_sq : forall a, (norm_inf a) ^ 2 <= vdot a a.
Proof.
  intros [x y z]. unfold norm_inf, vdot. cbn [vx vy vz].
  assert (Hx : Z.abs x ^ 2 = x * x) by (destruct (Z.abs_spec x) as [[_ ->]|[_ ->]]; ring).
  assert (Hy : Z.abs y ^ 2 = y * y) by (destruct (Z.abs_spec y) as [[_ ->]|[_ ->]]; ring).
  assert (Hz : Z.abs z ^ 2 = z * z) by (destruct (Z.abs_spec z) as [[_ ->]|[_ ->]]; ring).
  destruct (Z.max_spec (Z.abs y) (Z.abs z)) as [[_ ->]|[_ ->]];
  destruct (Z.max_spec (Z.abs x) (Z.abs z)) as [[_ E]|[_ E]];
  destruct (Z.max_spec (Z.abs x) (Z.abs y)) as [[_ E']|[_ E']]; rewrite ?E, ?E'; nia.
Qed.

Lemma abs_bound_sq : forall x tol n D, 0 <= tol -> 0 <= n -> n ^ 2 <= D -> Z.abs x <= tol * n -> x ^ 2 <= tol ^ 2 * D.
Proof.
  intros x tol n D Ht Hn HD Hx.
  assert (x ^ 2 = Z.abs x ^ 2) by (destruct (Z.abs_spec x) as [[_ ->]|[_ ->]]; ring).
  assert (Z.abs x ^ 2 <= (tol * n) ^ 2) by (apply Z.pow_le_mono_l; lia).
  nia.
Qed.

Lemma plane_close_sound : forall tol t q, 0 <= tol -> plane_close_b tol t q = true -> plane_close tol t q.
Proof.
  intros tol t q Ht H. unfold plane_close_b in H. apply Z.leb_le in H. unfold plane_close.
  apply (abs_bound_sq _ tol (norm_inf (pn t))); [exact Ht|apply norm_inf_nonneg|apply norm_inf_sq|exact H].
Qed.

Lemma edge_ok_sound : forall tol t q i, 0 <= tol -> edge_ok_b tol t q i = true -> edge_ok tol t q i.
Proof.
  intros tol t q i Ht H. unfold edge_ok_b in H. apply orb_true_iff in H. unfold edge_ok.
  destruct H as [H|H]; [left; now apply Z.leb_le in H|right].
  apply Z.leb_le in H.
  pose proof (norm_inf_sq (edge_of t i)) as He. pose proof (norm_inf_sq (pn t)) as Hn.
  pose proof (norm_inf_nonneg (edge_of t i)) as He0. pose proof (norm_inf_nonneg (pn t)) as Hn0.
  assert (Hx : (weight t q i) ^ 2 <= tol ^ 2 * (norm_inf (edge_of t i) * norm_inf (pn t)) ^ 2).
  { rewrite <- Z.mul_assoc in H. eapply abs_bound_sq; [exact Ht| |apply Z.le_refl|exact H]. nia. }
  assert ((norm_inf (edge_of t i) * norm_inf (pn t)) ^ 2 <= vdot (edge_of t i) (edge_of t i) * vdot (pn t) (pn t)) by nia.
  nia.
Qed.

Lemma inside_sound : forall tol t q, 0 <= tol -> inside_b tol t q = true -> inside tol t q.
Proof.
  intros tol t q Ht H. unfold inside_b in H. rewrite !andb_true_iff in H. destruct H as [[[H0 H1] H2] H3].
  unfold inside. repeat split; try (apply edge_ok_sound; assumption).
  unfold nondegenerate_b in H0. apply negb_true_iff, Z.eqb_neq in H0. exact H0.
Qed.

Lemma find_inside_sound : forall tol S q t, 0 <= tol -> find_inside tol S q = Some t -> In t S /\ inside tol t q.
Proof.
  induction S as [|a S IH]; intros q t Ht H; cbn in H; [discriminate|].
  destruct (inside_b tol a q) eqn:E.
  - inversion H; subst. split; [now left|now apply inside_sound].
  - destruct (IH _ _ Ht H). split; [now right|assumption].
Qed.

Lemma find_ref_sound : forall S t, find_ref S = Some t -> In t S /\ vdot (pn t) (pn t) <> 0.
Proof.
  induction S as [|a S IH]; intros t H; cbn in H; [discriminate|].
  destruct (nondegenerate_b a) eqn:E.
  - inversion H; subst. split; [now left|]. unfold nondegenerate_b in E. now apply negb_true_iff, Z.eqb_neq in E.
  - destruct (IH _ H). split; [now right|assumption].
Qed.

Lemma orient_sound : forall tol ws ref q0 q1 q2, orient_b tol ws ref q0 q1 q2 = true -> orient_ok tol ws ref q0 q1 q2.
Proof.
  intros tol ws ref q0 q1 q2 H. unfold orient_b in H. cbv zeta in H. rewrite !orb_true_iff in H.
  unfold orient_ok. cbv zeta. destruct H as [[H|H]|H].
  - left. apply Z.leb_le in H. replace (tol ^ 4) with (tol * tol * tol * tol) by ring. exact H.
  - right; left. now apply Z.eqb_eq in H.
  - right; right. now apply Z.eqb_eq in H.
Qed.

Lemma prop_ok_sound : forall kn kd one u pv got, prop_ok_b kn kd one u pv got = true -> prop_ok kn kd one u pv got.
Proof.
  intros kn kd one [[u0 u1] u2] [[a b] c] got H. unfold prop_ok_b in H. cbv zeta in H.
  apply orb_true_iff in H. unfold prop_ok. cbv zeta. destruct H as [H|H]; [left; now apply Z.eqb_eq in H|right; now apply Z.leb_le in H].
Qed.

Lemma check_channels_sound : forall kn kd one cp u pvs got,
  check_channels kn kd one cp u pvs got = 0 -> channels_ok kn kd one cp u pvs got.
Proof.
  intros kn kd one cp u pvs got. revert pvs. induction got as [|g got IH]; intros pvs H c g' Hc.
  - destruct c; discriminate.
  - cbn [check_channels] in H. destruct pvs as [|pv pvs].
    + destruct (g =? 0) eqn:E; [|discriminate]. apply Z.eqb_eq in E.
      destruct c; cbn in Hc.
      * inversion Hc; subst. reflexivity.
      * specialize (IH [] H c g' Hc). destruct c; exact IH.
    + destruct (cp && negb (prop_ok_b kn kd one u pv g)) eqn:E; [discriminate|].
      destruct c; cbn in Hc |- *.
      * inversion Hc; subst. intros ->. cbn in E. apply negb_false_iff in E. now apply prop_ok_sound.
      * exact (IH pvs H c g' Hc).
Qed.

Lemma check_corner_sound : forall tol kn kd one cp S q got, 0 <= tol ->
  check_corner tol kn kd one cp S q got = 0 -> corner_ok tol kn kd one cp S q got.
Proof.
  intros tol kn kd one cp S q got Ht H. unfold check_corner in H.
  destruct (find_inside tol S q) as [t|] eqn:E; [|discriminate].
  destruct (find_inside_sound _ _ _ _ Ht E) as [Hin Hi].
  exists t. repeat split; try assumption; try apply Hi. now apply check_channels_sound.
Qed.

Theorem check_triangle_sound_l : forall tol ws kn kd one cp S q0 q1 q2 g0 g1 g2,
  0 <= tol ->
  check_triangle tol ws kn kd one cp S q0 q1 q2 g0 g1 g2 = 0 ->
  exists ref, In ref S /\ vdot (pn ref) (pn ref) <> 0 /\
    plane_close tol ref q0 /\ plane_close tol ref q1 /\ plane_close tol ref q2 /\
    orient_ok tol ws ref q0 q1 q2 /\
    corner_ok tol kn kd one cp S q0 g0 /\ corner_ok tol kn kd one cp S q1 g1 /\ corner_ok tol kn kd one cp S q2 g2 /\
    exists t, In t S /\ inside (3 * tol) (scale_t 3 t) (vadd3 q0 q1 q2).
Proof.
  intros tol ws kn kd one cp S q0 q1 q2 g0 g1 g2 Ht H. unfold check_triangle in H.
  destruct S as [|s0 S']; [discriminate|]. set (S := s0 :: S') in *.
  destruct (find_ref S) as [ref|] eqn:Er; [|discriminate].
  destruct (find_ref_sound _ _ Er) as [Hin Hnd].
  destruct (plane_close_b tol ref q0 && plane_close_b tol ref q1 && plane_close_b tol ref q2) eqn:Ep; [|discriminate].
  rewrite !andb_true_iff in Ep. destruct Ep as [[P0 P1] P2]. cbn [negb] in H.
  destruct (orient_b tol ws ref q0 q1 q2) eqn:Eo; [|discriminate]. cbn [negb] in H.
  destruct (check_corner tol kn kd one cp S q0 g0 =? 0) eqn:C0; [|cbn in H; apply Z.eqb_neq in C0; congruence].
  destruct (check_corner tol kn kd one cp S q1 g1 =? 0) eqn:C1; [|cbn in H; apply Z.eqb_neq in C1; congruence].
  destruct (check_corner tol kn kd one cp S q2 g2 =? 0) eqn:C2; [|cbn in H; apply Z.eqb_neq in C2; congruence].
  cbn [negb] in H. apply Z.eqb_eq in C0, C1, C2.
  destruct (find_inside (3 * tol) (map (scale_t 3) S) (vadd3 q0 q1 q2)) as [t3|] eqn:Ec; [|discriminate].
  assert (H3 : 0 <= 3 * tol) by lia.
  destruct (find_inside_sound _ _ _ _ H3 Ec) as [Hin3 Hi3].
  apply in_map_iff in Hin3. destruct Hin3 as [t [<- Hint]].
  exists ref. repeat split; try assumption; try (apply plane_close_sound; assumption);
    try (apply orient_sound; assumption); try (apply check_corner_sound; assumption).
  exists t. split; assumption.
Qed.

(* meaning of the weights: for any prepared triangle they sum to N.N minus the
   off-plane part, so for a point in the plane w_i / (N.N) are the barycentric
   coordinates GetBarycentric computes in its non-snapped branch
   (RelationModel.bary_sum_identity / barycentric_affine over Q). *)
Lemma weight_sum : forall p0 p1 p2 props q,
  let t := prep p0 p1 p2 props in
  weight t q 0 + weight t q 1 + weight t q 2 = vdot (pn t) (pn t).
Proof.
  intros [a1 a2 a3] [b1 b2 b3] [c1 c2 c3] props [d1 d2 d3] t. unfold t, prep, weight, vdot, vcross, vsub.
  cbn [vx vy vz pp0 pp1 pp2 pe0 pe1 pe2 pn]. ring.
Qed.

Lemma weight_pos : forall p0 p1 p2 props q (f : V3 -> Z), (f = vx \/ f = vy \/ f = vz) ->
  let t := prep p0 p1 p2 props in
  weight t q 0 * f p0 + weight t q 1 * f p1 + weight t q 2 * f p2
  = vdot (pn t) (pn t) * f q - vdot (pn t) (vsub q p0) * f (pn t).
Proof.
  intros [a1 a2 a3] [b1 b2 b3] [c1 c2 c3] props [d1 d2 d3] f Hf t. unfold t, prep, weight, vdot, vcross, vsub.
  destruct Hf as [->|[->| ->]]; cbn [vx vy vz pp0 pp1 pp2 pe0 pe1 pe2 pn]; ring.
Qed.

(* the exact transform really is the affine map *)
Lemma xform_affine : forall T w p, xform T w p = m34apply4 T p w.
Proof. reflexivity. Qed.

Lemma face_by_id_sound : forall ids f i k, In k (face_by_id ids f i) <-> exists j, nth_error ids j = Some f /\ k = i + Z.of_nat j.
Proof.
  induction ids as [|x ids IH]; intros f i k; cbn [face_by_id].
  - split; [contradiction|intros [j [H _]]; destruct j; discriminate].
  - destruct (x =? f) eqn:E.
    + apply Z.eqb_eq in E; subst. cbn [In]. rewrite IH. split.
      * intros [<-|[j [H ->]]]; [exists 0%nat; cbn; split; [reflexivity|lia]|exists (S j); cbn; split; [exact H|lia]].
      * intros [[|j] [H ->]]; [left; lia|right; exists j; cbn in H; split; [exact H|lia]].
    + apply Z.eqb_neq in E. rewrite IH. split.
      * intros [j [H ->]]. exists (S j); cbn; split; [exact H|lia].
      * intros [[|j] [H ->]]; [cbn in H; congruence|exists j; cbn in H; split; [exact H|lia]].
Qed.
