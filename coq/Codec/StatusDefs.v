(* C09 — sticky error status: model of how a non-NoError Status travels through
   programs of public Manifold methods.  Model only, no proofs.
   The per-method forwarding kind is a generated table (coq/Gen/Status.v,
   translate/c09_status.py). *)
From Coq Require Import ZArith List Bool String.
From MV Require Import Codec.IngestDefs.
Import ListNotations.
Local Open Scope Z_scope.

Inductive fwd :=
| FwdCheck      (* every object operand tested, `return PropagateStatus(status)` first *)
| FwdNode       (* lazy CSG node over the operands; Impl::Transform / Boolean3::Result / Compose forward on evaluation *)
| FwdDelegate   (* `return Other(operands...)` *)
| FwdSelf       (* returns a copy of the (single) operand itself *)
| FwdBoolean3   (* operands handed to Boolean3, results from Boolean3::Result *)
| FwdNoStatus   (* class without a status (CrossSection) *)
| NoOperand     (* constructor: no object operand *)
| FwdNone.      (* no forwarding recognised *)

Definition forwards (k : fwd) : bool :=
  match k with FwdCheck | FwdNode | FwdDelegate | FwdSelf | FwdBoolean3 => true | _ => false end.

Definition error_eqb (a b : error) : bool := error_code a =? error_code b.

(* what is observable of a Manifold here: Status() and NumTri() *)
Record obj := mkObj { ostatus : error; ontri : Z }.

(* Manifold::PropagateStatus / the internal forwarders: a fresh (empty) Impl whose status_ is set *)
Definition propagate (e : error) : obj := mkObj e 0.

Definition is_err (o : obj) : bool := negb (error_eqb (ostatus o) NoError).

Fixpoint first_error (l : list obj) : option error :=
  match l with
  | [] => None
  | o :: r => if is_err o then Some (ostatus o) else first_error r
  end.

Fixpoint lookup (n : string) (t : list (string * fwd)) : option fwd :=
  match t with
  | [] => None
  | (m, k) :: r => if String.eqb n m then Some k else lookup n r
  end.

(* A program: inputs are objects produced by constructors (any status); a call
   names a method, has operand programs, and carries `res`, the object the
   operation itself would produce when no operand carries an error (an oracle:
   any object, possibly itself an error such as NotManifold or Cancelled). *)
Inductive prog :=
| Input (o : obj)
| Call (name : string) (args : list prog) (res : obj).

Section Eval.
  Variable tbl : list (string * fwd).
  Fixpoint eval (p : prog) : obj :=
    match p with
    | Input o => o
    | Call n args res =>
      let vs := map eval args in
      match lookup n tbl with
      | Some k =>
        if forwards k then
          match first_error vs with
          | Some e => match k with
                      | FwdSelf => match vs with v :: _ => if is_err v then v else propagate e | [] => res end
                      | _ => propagate e
                      end
          | None => res
          end
        else res
      | None => res
      end
    end.
End Eval.

(* every object a constructor or an operation hands out is empty when it carries an error
   (MakeEmpty(status) / fresh Impl) *)
Definition obj_ok (o : obj) : Prop := is_err o = true -> ontri o = 0.

Fixpoint prog_ok (p : prog) : Prop :=
  match p with
  | Input o => obj_ok o
  | Call _ args res => obj_ok res /\ (fix all (l : list prog) : Prop := match l with [] => True | a :: r => prog_ok a /\ all r end) args
  end.

(* some input or some operation result along the program carries an error *)
Fixpoint errored (p : prog) : bool :=
  match p with
  | Input o => is_err o
  | Call _ args res => is_err res || existsb errored args
  end.

(* all methods called are in the table with a forwarding kind *)
Fixpoint uses_forwarding (tbl : list (string * fwd)) (p : prog) : bool :=
  match p with
  | Input _ => true
  | Call n args _ =>
    match lookup n tbl with
    | Some k => (forwards k || match args with [] => true | _ => false end) && forallb (uses_forwarding tbl) args
    | None => false
    end
  end.

Definition kind_ok (k : fwd) : bool :=
  match k with FwdNone => false | _ => true end.

(* the obligation on the generated tables *)
Definition status_table_ok (methods : list (string * fwd)) (internal : list (string * bool)) : bool :=
  forallb (fun nk => kind_ok (snd nk)) methods && forallb (fun nb => snd nb) internal &&
  match methods with [] => false | _ => true end.

(* a table without FwdNone entries: every method with operands forwards *)
Definition table_forwards_all (methods : list (string * fwd)) : bool :=
  forallb (fun nk => match snd nk with FwdNone | FwdNoStatus => false | _ => true end) methods.
