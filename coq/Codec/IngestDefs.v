(* C09 — executable model of the MeshGL ingest constructor
   Manifold::Impl::Impl(const MeshGLP<Precision,I>&) (src/impl.h) as far as
   validation and subscripts are concerned.  Model only: no proofs here.

   A MeshGL record is abstracted to lengths + index vectors + flags; numeric
   payloads only by "all finite?" flags.  The ORDER of validation rungs and of
   the access-bearing statements is NOT written here: it is a table
   (list item) regenerated from the source by translate/c09_ladder.py
   (coq/Gen/Ladder.v).  This file gives the meaning of every item kind the
   translator can emit: for a rung its condition, for a statement the
   subscripts it performs, with the C++ integer conversions written out
   (uint32_t narrowing of I-typed indices, I-typed products, the unsigned
   numProp - 3). *)
From Coq Require Import ZArith List Bool.
Import ListNotations.
Local Open Scope Z_scope.

(* Manifold::Error, numbered as in include/manifold/manifold.h *)
Inductive error :=
| NoError | NonFiniteVertex | NotManifold | VertexOutOfBounds | PropertiesWrongLength
| MissingPositionProperties | MergeVectorsDifferentLengths | MergeIndexOutOfBounds
| TransformWrongLength | RunIndexWrongLength | FaceIDWrongLength | InvalidConstruction
| ResultTooLarge | InvalidTangents | Cancelled.

Definition error_code (e : error) : Z :=
  match e with
  | NoError => 0 | NonFiniteVertex => 1 | NotManifold => 2 | VertexOutOfBounds => 3
  | PropertiesWrongLength => 4 | MissingPositionProperties => 5
  | MergeVectorsDifferentLengths => 6 | MergeIndexOutOfBounds => 7 | TransformWrongLength => 8
  | RunIndexWrongLength => 9 | FaceIDWrongLength => 10 | InvalidConstruction => 11
  | ResultTooLarge => 12 | InvalidTangents => 13 | Cancelled => 14
  end.

Record meshgl := mkMesh {
  wide : bool;              (* I = uint64_t (MeshGL64) / uint32_t (MeshGL) *)
  numProp : Z;              (* I-typed field *)
  vpLen : Z; vpFinite : bool;          (* vertProperties: size, all finite? *)
  triVerts : list Z;
  mergeFrom : list Z; mergeTo : list Z;
  runIndex : list Z;
  runOrigLen : Z;                      (* runOriginalID.size() *)
  rtLen : Z; rtFinite : bool;          (* runTransform *)
  runFlagsLen : Z;                     (* only read through the guarded Backside()/HasNormals() *)
  faceIDLen : Z;
  tanLen : Z; tanFinite : bool         (* halfedgeTangent *)
}.

(* Answers the model cannot compute from the abstraction (geometry/topology):
   whether IsManifold() holds after CreateHalfedges, and how many faces
   halfedge_ holds when SortGeometry/GatherFaces runs (CleanupTopology's DedupeEdge
   can ADD faces), and whether the ExecutionContext was cancelled at entry. *)
Record oracle := mkOracle { manifoldOK : bool; nFaceSort : Z; cancelled : bool }.

Definition u32 (x : Z) : Z := x mod 2 ^ 32.
Definition toI (w : bool) (x : Z) : Z := x mod (if w then 2 ^ 64 else 2 ^ 32).
Definition zlen {A} (l : list A) : Z := Z.of_nat (length l).
Definition znth (l : list Z) (i : Z) : Z := nth (Z.to_nat i) l 0.
Fixpoint zseq (lo : Z) (n : nat) : list Z :=
  match n with O => [] | S k => lo :: zseq (lo + 1) k end.
Definition zrange (lo hi : Z) : list Z := zseq lo (Z.to_nat (hi - lo)).

(* MeshGLP::NumVert() / NumTri(): size_t quotient converted to I *)
Definition numVertI (m : meshgl) : Z := toI (wide m) (vpLen m / numProp m).
Definition numTriI (m : meshgl) : Z := toI (wide m) (zlen (triVerts m) / 3).
(* const uint32_t numVert = meshGL.NumVert(); const uint32_t numTri = ... *)
Definition numVert (m : meshgl) : Z := u32 (numVertI m).
Definition numTri (m : meshgl) : Z := u32 (numTriI m).
Definition runEnd (m : meshgl) : Z := zlen (triVerts m).
(* std::max(1_uz, runOriginalID.size()): runs visited by the run loop *)
Definition nRuns (m : meshgl) : Z := Z.max 1 (runOrigLen m).
(* const auto numProp = meshGL.numProp - 3;   (I-typed, wraps below 3) *)
Definition np (m : meshgl) : Z := toI (wide m) (numProp m - 3).
(* properties_.resize_nofill(meshGL.NumVert() * numProp): I-typed product *)
Definition propsLen (m : meshgl) : Z := toI (wide m) (numVertI m * np m).

Inductive array :=
| ADivisorNumProp     (* pseudo array of size numProp indexed at 0: "x / numProp is defined" *)
| AVertProperties | ATriVerts | AMergeFrom | AMergeTo | AProp2Vert | ARunIndex | ATriRef
| AFaceID | ARunTransform | ATangentIn | ATangentInternal | AVertPos | AProperties.

Inductive access :=
| Acc (a : array) (i size : Z)
| AccRange (a : array) (lo hi size : Z).   (* every index lo <= k < hi *)

Definition in_bounds (a : access) : Prop :=
  match a with
  | Acc _ i size => 0 <= i < size
  | AccRange _ lo hi size => lo < hi -> 0 <= lo /\ hi <= size
  end.

Definition in_boundsb (a : access) : bool :=
  match a with
  | Acc _ i size => (0 <=? i) && (i <? size)
  | AccRange _ lo hi size => negb (lo <? hi) || ((0 <=? lo) && (hi <=? size))
  end.

(* comparison used by the two in-loop index rungs: reject when idx >= n (CGe,
   what the pinned code does) or only when idx > n (CGt, an off-by-one) *)
Inductive cmpk := CGe | CGt.
Definition bad (c : cmpk) (x n : Z) : bool :=
  match c with CGe => n <=? x | CGt => n <? x end.

Inductive rung :=
| REmptyBoth | RTooSmall | RNumPropLt3 | RMergeLenNe | RTransformLen | RRunIndexLen
| RFaceIDLen | RVertFinite | RTransformFinite | RTangentFinite
| RTangentLen        (* !tangent.empty() && tangent.size() != 4 * triVerts.size() *)
| RRunIndexShape     (* local runIndex: size != runs+1 || front != 0 || back != runEnd || !sorted *)
| RRunIndexShapeStrict. (* same, but rejecting equal neighbours too (adjacent_find greater_equal) *)

Inductive item :=
| IRung (r : rung) (e : error)
| IComputeCounts                      (* numVert / numTri = meshGL.NumVert() / NumTri() *)
| IMergeLoop (c : cmpk) (e : error)   (* prop2vert construction with its in-loop rung *)
| ICopyVerts
| ICopyTangents
| INormaliseRuns                      (* defaulting / completion of the local runIndex copy *)
| IRunLoop
| ITriLoop (c : cmpk) (e : error)     (* triangle loop with its in-loop rung *)
| ICreateHalfedges (e : error)        (* CreateHalfedges; !IsManifold() -> e *)
| IPost (keepsTangents : bool)        (* CleanupTopology .. SortGeometry: later users; the flag says whether
                                         DedupeEdge keeps halfedgeTangent_ as long as halfedge_ when it adds faces *)
| ICancelGate (e : error).            (* if (IsCancelled(ctx)) { MakeEmpty(e); return; } at entry *)

Inductive verdict := Done (e : error) | Accepted.

(* constructor-local state that later statements read *)
Record st := mkSt {
  ri : list Z;                 (* local copy `runIndex` *)
  p2v : list (Z * Z);          (* prop2vert writes, latest first *)
  p2vOn : bool;                (* !prop2vert.empty() *)
  kept : list (list Z * list Z)  (* (triP, triV) of the non-degenerate triangles, reversed *)
}.
Definition st0 (m : meshgl) : st := mkSt (runIndex m) [] false [].

Fixpoint sortedb (l : list Z) : bool :=
  match l with
  | [] => true
  | x :: t => match t with [] => true | y :: _ => (x <=? y) && sortedb t end
  end.

Fixpoint strictb (l : list Z) : bool :=
  match l with
  | [] => true
  | x :: t => match t with [] => true | y :: _ => (x <? y) && strictb t end
  end.

Definition cond (r : rung) (m : meshgl) (s : st) : bool :=
  match r with
  | REmptyBoth => (numVert m =? 0) && (numTri m =? 0)
  | RTooSmall => (numVert m <? 4) || (numTri m <? 4)
  | RNumPropLt3 => numProp m <? 3
  | RMergeLenNe => negb (zlen (mergeFrom m) =? zlen (mergeTo m))
  | RTransformLen => negb (rtLen m =? 0) && negb (12 * runOrigLen m =? rtLen m)
  | RRunIndexLen => negb (runOrigLen m =? 0) && negb (zlen (runIndex m) =? 0) &&
                    negb (runOrigLen m + 1 =? zlen (runIndex m)) && negb (runOrigLen m =? zlen (runIndex m))
  | RFaceIDLen => negb (faceIDLen m =? 0) && negb (faceIDLen m =? numTriI m)
  | RVertFinite => negb (vpFinite m)
  | RTransformFinite => negb (rtFinite m)
  | RTangentFinite => negb (tanFinite m)
  | RTangentLen => negb (tanLen m =? 0) && negb (tanLen m =? 4 * runEnd m)
  | RRunIndexShape => negb (zlen (ri s) =? nRuns m + 1) || negb (hd 0 (ri s) =? 0) ||
                      negb (last (ri s) 0 =? runEnd m) || negb (sortedb (ri s))
  | RRunIndexShapeStrict => negb (zlen (ri s) =? nRuns m + 1) || negb (hd 0 (ri s) =? 0) ||
                            negb (last (ri s) 0 =? runEnd m) || negb (strictb (ri s))
  end.

Fixpoint p2v_get (l : list (Z * Z)) (v : Z) : Z :=
  match l with
  | [] => v
  | (f, t) :: r => if f =? v then t else p2v_get r v
  end.

(* for (i = 0; i < mergeFromVert.size(); ++i) { from = mergeFromVert[i]; to = mergeToVert[i];
     if (from >= numVert || to >= numVert) return error; prop2vert[from] = to; } *)
Fixpoint merge_loop (c : cmpk) (nv mtlen : Z) (mt : list Z) (i : Z) (fr : list Z) (acc : list (Z * Z))
  : bool * list (Z * Z) * list access :=
  match fr with
  | [] => (false, acc, [])
  | f :: fr' =>
    let from := u32 f in
    let to := u32 (znth mt i) in
    let a0 := [Acc AMergeFrom i (i + 1 + zlen fr'); Acc AMergeTo i mtlen] in
    if bad c from nv || bad c to nv then (true, acc, a0)
    else
      let '(fired, acc', a') := merge_loop c nv mtlen mt (i + 1) fr' ((from, to) :: acc) in
      (fired, acc', a0 ++ Acc AProp2Vert from nv :: a')
  end.

(* the three corners of triangle i: reads triVerts[3i+j], narrows, checks, maps *)
Fixpoint corners (c : cmpk) (m : meshgl) (s : st) (i : Z) (js : list Z)
  : option (list Z * list Z) * list access :=
  match js with
  | [] => (Some ([], []), [])
  | j :: js' =>
    let vert := u32 (znth (triVerts m) (3 * i + j)) in
    let a0 := Acc ATriVerts (3 * i + j) (zlen (triVerts m)) in
    if bad c vert (numVert m) then (None, [a0])
    else
      let a1 := if p2vOn s then [Acc AProp2Vert vert (numVert m)] else [] in
      let v := if p2vOn s then p2v_get (p2v s) vert else vert in
      let '(r, a') := corners c m s i js' in
      match r with
      | None => (None, a0 :: a1 ++ a')
      | Some (ps, vs) => (Some (vert :: ps, v :: vs), a0 :: a1 ++ a')
      end
  end.

Definition nondegenerate (vs : list Z) : bool :=
  match vs with
  | [a; b; c] => negb (a =? b) && negb (b =? c) && negb (c =? a)
  | _ => false
  end.

Fixpoint tri_loop (c : cmpk) (m : meshgl) (s : st) (i : Z) (fuel : nat)
                  (k : list (list Z * list Z)) : bool * list (list Z * list Z) * list access :=
  match fuel with
  | O => (false, k, [])
  | S f =>
    let '(r, a) := corners c m s i [0; 1; 2] in
    match r with
    | None => (true, k, a)
    | Some (ps, vs) =>
      let keep := nondegenerate vs in
      let a1 := if keep then [Acc ATriRef i (numTriI m)] else [] in
      let '(fired, k', a') := tri_loop c m s (i + 1) f (if keep then (ps, vs) :: k else k) in
      (fired, k', a ++ a1 ++ a')
    end
  end.

Definition normalise_runs (m : meshgl) (r : list Z) : list Z :=
  if zlen r =? 0 then [0; toI (wide m) (runEnd m)]
  else if zlen r =? runOrigLen m then r ++ [toI (wide m) (runEnd m)]
  else if zlen r =? 1 then r ++ [toI (wide m) (runEnd m)]
  else r.

Definition run_accesses (m : meshgl) (s : st) (i : Z) : list access :=
  let lo := znth (ri s) i / 3 in
  let hi := znth (ri s) (i + 1) / 3 in
  [Acc ARunIndex i (zlen (ri s)); Acc ARunIndex (i + 1) (zlen (ri s));
   AccRange ATriRef lo hi (numTriI m)] ++
  (if faceIDLen m =? 0 then [] else [AccRange AFaceID lo hi (faceIDLen m)]) ++
  (if rtLen m =? 0 then [] else [AccRange ARunTransform (12 * i) (12 * i + 12) (rtLen m)]).

Definition vert_accesses (m : meshgl) (i : Z) : list access :=
  [Acc AVertProperties (numProp m * i) (vpLen m);
   Acc AVertProperties (numProp m * i + 1) (vpLen m);
   Acc AVertProperties (numProp m * i + 2) (vpLen m);
   AccRange AVertProperties (numProp m * i + 3) (numProp m * i + 3 + np m) (vpLen m);
   AccRange AProperties (i * np m) (i * np m + np m) (propsLen m);
   Acc AVertPos i (numVertI m)].

Definition corner_accesses (m : meshgl) (pv : Z * Z) : list access :=
  [Acc AVertPos (snd pv) (numVertI m);
   AccRange AProperties (np m * fst pv) (np m * fst pv + np m) (propsLen m)].

Definition tangents_at_sort (m : meshgl) (o : oracle) (s : st) (kp : bool) : Z :=
  if kp && (zlen (kept s) <? nFaceSort o) then 3 * nFaceSort o else tanLen m / 4.

Definition post_accesses (m : meshgl) (o : oracle) (s : st) (kp : bool) : list access :=
  flat_map (fun t => flat_map (corner_accesses m) (combine (fst t) (snd t))) (kept s) ++
  (* GatherFaces/ReindexFace (sort.cpp:72): oldHalfedgeTangent[3*oldFace+i] when non-empty *)
  (if tanLen m / 4 =? 0 then [] else [AccRange ATangentInternal 0 (3 * nFaceSort o) (tangents_at_sort m o s kp)]).

(* one table item: (error if it returns, new state, subscripts performed) *)
Definition step (it : item) (m : meshgl) (o : oracle) (s : st) : option error * st * list access :=
  match it with
  | IRung r e => (if cond r m s then Some e else None, s, [])
  | IComputeCounts => (None, s, [Acc ADivisorNumProp 0 (numProp m)])
  | IMergeLoop c e =>
    if zlen (mergeFrom m) =? 0 then (None, s, [])
    else
      let '(fired, acc, a) := merge_loop c (numVert m) (zlen (mergeTo m)) (mergeTo m) 0 (mergeFrom m) [] in
      (if fired then Some e else None, mkSt (ri s) acc (negb (numVert m =? 0)) (kept s), a)
  | ICopyVerts => (None, s, flat_map (vert_accesses m) (zrange 0 (numVertI m)))
  | ICopyTangents =>
    (None, s, [AccRange ATangentIn 0 (4 * (tanLen m / 4)) (tanLen m);
               AccRange ATangentInternal 0 (tanLen m / 4) (tanLen m / 4)])
  | INormaliseRuns => (None, mkSt (normalise_runs m (ri s)) (p2v s) (p2vOn s) (kept s), [])
  | IRunLoop => (None, s, flat_map (run_accesses m s) (zrange 0 (nRuns m)))
  | ITriLoop c e =>
    let '(fired, k, a) := tri_loop c m s 0 (Z.to_nat (numTri m)) [] in
    (if fired then Some e else None, mkSt (ri s) (p2v s) (p2vOn s) k, a)
  | ICreateHalfedges e => (if manifoldOK o then None else Some e, s, [])
  | IPost kp => (None, s, post_accesses m o s kp)
  | ICancelGate e => (if cancelled o then Some e else None, s, [])
  end.

Fixpoint run (t : list item) (m : meshgl) (o : oracle) (s : st) : verdict * list access :=
  match t with
  | [] => (Accepted, [])
  | it :: t' =>
    let '(oe, s', a) := step it m o s in
    match oe with
    | Some e => (Done e, a)
    | None => let '(v, a') := run t' m o s' in (v, a ++ a')
    end
  end.

Definition ladder (t : list item) (m : meshgl) (o : oracle) : verdict := fst (run t m o (st0 m)).
Definition accesses (t : list item) (m : meshgl) (o : oracle) : list access := snd (run t m o (st0 m)).

Definition first_oob (l : list access) : option access :=
  find (fun a => negb (in_boundsb a)) l.

(* ---- the Boolean obligation on a generated table ------------------------
   Facts established so far (a rung passed means its condition is false). *)
Record facts := mkFacts {
  fNumProp : bool;     (* numProp >= 3 *)
  fMergeLen : bool;    (* |mergeFrom| = |mergeTo| *)
  fTransLen : bool;    (* runTransform empty or 12 * runs *)
  fFaceLen : bool;     (* faceID empty or NumTri long *)
  fTanLen : bool;      (* tangents empty or 4 * |triVerts| *)
  fNorm : bool;        (* local runIndex normalised *)
  fShape : bool;       (* local runIndex tiles triVerts (checked after normalisation) *)
  fMergeGe : bool;     (* merge loop ran with >= *)
  fTriDone : bool      (* triangle loop ran with >= *)
}.
Definition facts0 := mkFacts false false false false false false false false false.

Definition learn (f : facts) (it : item) : facts :=
  match it with
  | IRung RNumPropLt3 _ => mkFacts true (fMergeLen f) (fTransLen f) (fFaceLen f) (fTanLen f) (fNorm f) (fShape f) (fMergeGe f) (fTriDone f)
  | IRung RMergeLenNe _ => mkFacts (fNumProp f) true (fTransLen f) (fFaceLen f) (fTanLen f) (fNorm f) (fShape f) (fMergeGe f) (fTriDone f)
  | IRung RTransformLen _ => mkFacts (fNumProp f) (fMergeLen f) true (fFaceLen f) (fTanLen f) (fNorm f) (fShape f) (fMergeGe f) (fTriDone f)
  | IRung RFaceIDLen _ => mkFacts (fNumProp f) (fMergeLen f) (fTransLen f) true (fTanLen f) (fNorm f) (fShape f) (fMergeGe f) (fTriDone f)
  | IRung RTangentLen _ => mkFacts (fNumProp f) (fMergeLen f) (fTransLen f) (fFaceLen f) true (fNorm f) (fShape f) (fMergeGe f) (fTriDone f)
  | IRung RRunIndexShape _ => mkFacts (fNumProp f) (fMergeLen f) (fTransLen f) (fFaceLen f) (fTanLen f) (fNorm f) (fNorm f) (fMergeGe f) (fTriDone f)
  | IRung RRunIndexShapeStrict _ => mkFacts (fNumProp f) (fMergeLen f) (fTransLen f) (fFaceLen f) (fTanLen f) (fNorm f) (fNorm f) (fMergeGe f) (fTriDone f)
  | INormaliseRuns => mkFacts (fNumProp f) (fMergeLen f) (fTransLen f) (fFaceLen f) (fTanLen f) true false (fMergeGe f) (fTriDone f)
  | IMergeLoop CGe _ => mkFacts (fNumProp f) (fMergeLen f) (fTransLen f) (fFaceLen f) (fTanLen f) (fNorm f) (fShape f) true (fTriDone f)
  | ITriLoop CGe _ => mkFacts (fNumProp f) (fMergeLen f) (fTransLen f) (fFaceLen f) (fTanLen f) (fNorm f) (fShape f) (fMergeGe f) true
  | _ => f
  end.

(* what each access-bearing item needs to have been established before it *)
Definition needs (strong : bool) (f : facts) (it : item) : bool :=
  match it with
  | IRung _ _ => true
  | IComputeCounts => fNumProp f
  | IMergeLoop c _ => fMergeLen f && match c with CGe => true | CGt => false end
  | ICopyVerts => fNumProp f
  | ICopyTangents => true
  | INormaliseRuns => true
  | IRunLoop => fShape f && fFaceLen f && fTransLen f
  | ITriLoop c _ => fMergeGe f && match c with CGe => true | CGt => false end
  | ICreateHalfedges _ => true
  | IPost kp => fTanLen f && fTriDone f && fNumProp f && (negb strong || kp)
  | ICancelGate _ => true
  end.

Fixpoint safe_from (strong : bool) (f : facts) (t : list item) : bool :=
  match t with
  | [] => true
  | it :: t' => needs strong f it && safe_from strong (learn f it) t'
  end.

(* safe under the hypothesis nFaceSort <= NumTri on the oracle *)
Definition ladder_table_safe (t : list item) : bool := safe_from false facts0 t.
(* safe for EVERY face count at sort time: additionally DedupeEdge keeps the tangents in step *)
Definition ladder_table_safe_strong (t : list item) : bool := safe_from true facts0 t.

(* which access-bearing items lack a prerequisite (for the check's report) *)
Fixpoint unsafe_items (f : facts) (t : list item) : list item :=
  match t with
  | [] => []
  | it :: t' => (if needs true f it then [] else [it]) ++ unsafe_items (learn f it) t'
  end.

(* ---- the tables: pinned tree as read on 2026-09-23, and with the proposed
   fixes fix_C09_1 (two rungs) + fix_C09_2 (numProp rung first) applied ---- *)
Definition pinned_table : list item :=
  [ ICancelGate Cancelled; IComputeCounts;
    IRung REmptyBoth NoError; IRung RTooSmall NotManifold; IRung RNumPropLt3 MissingPositionProperties;
    IRung RMergeLenNe MergeVectorsDifferentLengths; IRung RTransformLen TransformWrongLength;
    IRung RRunIndexLen RunIndexWrongLength; IRung RFaceIDLen FaceIDWrongLength;
    IRung RVertFinite NonFiniteVertex; IRung RTransformFinite InvalidConstruction;
    IRung RTangentFinite InvalidConstruction;
    IMergeLoop CGe MergeIndexOutOfBounds; ICopyVerts; ICopyTangents; INormaliseRuns; IRunLoop;
    ITriLoop CGe VertexOutOfBounds; ICreateHalfedges NotManifold; IPost false ].

Definition patched_table : list item :=
  [ ICancelGate Cancelled; IRung RNumPropLt3 MissingPositionProperties; IComputeCounts;
    IRung REmptyBoth NoError; IRung RTooSmall NotManifold;
    IRung RMergeLenNe MergeVectorsDifferentLengths; IRung RTransformLen TransformWrongLength;
    IRung RRunIndexLen RunIndexWrongLength; IRung RFaceIDLen FaceIDWrongLength;
    IRung RTangentLen InvalidTangents;
    IRung RVertFinite NonFiniteVertex; IRung RTransformFinite InvalidConstruction;
    IRung RTangentFinite InvalidConstruction;
    IMergeLoop CGe MergeIndexOutOfBounds; ICopyVerts; ICopyTangents; INormaliseRuns;
    IRung RRunIndexShape RunIndexWrongLength; IRunLoop;
    ITriLoop CGe VertexOutOfBounds; ICreateHalfedges NotManifold; IPost false ].

(* ... and with hooks/fix_C09_14.patch (DedupeEdge resizes halfedgeTangent_ with halfedge_) *)
Definition patched14_table : list item :=
  map (fun it => match it with IPost _ => IPost true | _ => it end) patched_table.

(* a 2 x 3 torus grid: every vertex is joined to its tube neighbour by two edges, so
   DedupeEdge adds 6 faces to the 12 imported ones; with tangents of the right length *)
Definition torus_tris : list Z :=
  [0;3;4; 0;4;1; 1;4;5; 1;5;2; 2;5;3; 2;3;0; 3;0;1; 3;1;4; 4;1;2; 4;2;5; 5;2;0; 5;0;3].
Definition w_torus : meshgl :=
  mkMesh true 3 18 true torus_tris [] [] [] 0 0 true 0 0 144 true.
Definition o_torus : oracle := mkOracle true 18 false.

(* well-formedness of the abstraction and the size bound the theorems carry *)
Definition wf (m : meshgl) : Prop :=
  0 <= numProp m /\ 0 <= vpLen m /\ 0 <= runOrigLen m /\ 0 <= rtLen m /\
  0 <= faceIDLen m /\ 0 <= tanLen m.
(* element counts fit a C++ int (the code stores halfedge indices in int) *)
Definition small (m : meshgl) : Prop :=
  vpLen m < 2 ^ 31 /\ zlen (triVerts m) < 2 ^ 31.

(* ---- refutation witnesses on the pinned table (cube: 8 verts, 12 tris) ---- *)
Definition cube_tris : list Z :=
  [1;0;4; 2;4;0; 1;3;0; 3;1;5; 3;2;0; 3;7;2; 5;4;6; 5;1;4; 6;4;2; 7;6;2; 7;3;5; 7;5;6].
Definition cube_mesh : meshgl :=
  mkMesh true 3 24 true cube_tris [] [] [] 0 0 true 0 0 0 true.
(* runIndex = {0, size + 3000} *)
Definition w_runindex : meshgl :=
  mkMesh true 3 24 true cube_tris [] [] [0; 3036] 0 0 true 0 0 0 true.
(* halfedgeTangent.size() = 8 *)
Definition w_tangent : meshgl :=
  mkMesh true 3 24 true cube_tris [] [] [] 0 0 true 0 0 8 true.
(* runIndex empty, two runOriginalIDs: runIndex[2] read past the local {0, end} *)
Definition w_runs_noindex : meshgl :=
  mkMesh true 3 24 true cube_tris [] [] [] 2 0 true 0 0 0 true.
(* numProp = 0: NumVert() divides by zero *)
Definition w_numprop0 : meshgl :=
  mkMesh true 0 24 true cube_tris [] [] [] 0 0 true 0 0 0 true.
Definition o_cube : oracle := mkOracle true 12 false.
