(* C08 — lemmas about the export / import model. *)
From Coq Require Import ZArith List Bool Lia.
From MV Require Import Codec.MeshGLDefs.
Import ListNotations.
Local Open Scope Z_scope.

(* ---------- stable insertion sort ---------- *)
Lemma key_le_total : forall a b, key_le a b = true \/ key_le b a = true.
Proof.
  intros a b. unfold key_le. rewrite (Z.eqb_sym (origID b)).
  destruct (origID a =? origID b) eqn:E.
  - destruct (Z.leb_spec (meshID a) (meshID b)); [left; reflexivity | right; apply Z.leb_le; lia].
  - apply Z.eqb_neq in E. destruct (Z.ltb_spec (origID a) (origID b)); [left; reflexivity | right; apply Z.ltb_lt; lia].
Qed.

Lemma in_insert : forall x l y, In y (insert x l) <-> y = x \/ In y l.
Proof.
  intros x l. induction l as [|z l IH]; intros y; cbn [insert].
  - cbn. intuition.
  - destruct (key_le x z); cbn [In]; [intuition|]. rewrite IH. intuition.
Qed.

Lemma in_isort : forall l y, In y (isort l) <-> In y l.
Proof.
  induction l as [|x l IH]; intros y; cbn [isort]; [tauto|].
  rewrite in_insert, IH. cbn. intuition.
Qed.

Fixpoint sortedk (l : list itri) : Prop :=
  match l with
  | [] => True
  | x :: r => match r with [] => True | y :: _ => key_le x y = true end /\ sortedk r
  end.

Lemma insert_sorted : forall x l, sortedk l -> sortedk (insert x l).
Proof.
  intros x l. induction l as [|y l IH]; intros Hs.
  - cbn. tauto.
  - cbn [insert]. destruct (key_le x y) eqn:E.
    + cbn [sortedk]. split; [exact E | exact Hs].
    + destruct Hs as [Hy Hs]. specialize (IH Hs).
      cbn [sortedk]. split; [|exact IH].
      destruct l as [|z l]; cbn [insert].
      * destruct (key_le_total x y) as [H | H]; [congruence | exact H].
      * destruct (key_le x z); [destruct (key_le_total x y) as [H | H]; [congruence | exact H] | exact Hy].
Qed.

Lemma isort_sorted : forall l, sortedk (isort l).
Proof. induction l as [|x l IH]; [exact I | cbn [isort]; apply insert_sorted; exact IH]. Qed.

Lemma isort_id : forall l, sortedk l -> isort l = l.
Proof.
  induction l as [|x l IH]; intros Hs; [reflexivity|].
  destruct Hs as [Hx Hs]. cbn [isort]. rewrite (IH Hs).
  destruct l as [|y l]; [reflexivity|]. cbn [insert]. rewrite Hx. reflexivity.
Qed.

(* ---------- tangents ---------- *)
Lemma fixed_tangent_preserved : forall s, tangent_preserved s (export_fixed s).
Proof.
  intros s o Ho. unfold export_fixed in Ho. apply in_map_iff in Ho.
  destruct Ho as [t [Eo Ht]]. exists t. split.
  - unfold sorted_tris in Ht. destruct (isOriginal s); [exact Ht | apply in_isort; exact Ht].
  - subst o. split; reflexivity.
Qed.

Lemma pinned_tangent_refuted :
  isOriginal w_two_runs = false /\ length (tris w_two_runs) = 2%nat /\
  ~ tangent_preserved w_two_runs (export_pinned w_two_runs).
Proof.
  split; [reflexivity|]. split; [reflexivity|]. intros H.
  destruct (H (mkOut 1 10 0 1 [2; 1; 3] [100; 101; 102])) as [t [Hin [Hv Ht]]].
  - left. vm_compute. reflexivity.
  - cbn in Hin. destruct Hin as [E | [E | []]]; subst t; cbn in Hv, Ht; discriminate.
Qed.

(* the fixed exporter does preserve the witness, the two differ only in tangents *)
Lemma pinned_vs_fixed_attrs : forall s, map attrs (export_pinned s) = map attrs (export_fixed s).
Proof.
  intros s. unfold export_pinned, export_fixed.
  assert (Hlen : length (sorted_tris s) = length (tris s)).
  { unfold sorted_tris. destruct (isOriginal s); [reflexivity|].
    induction (tris s) as [|x l IH]; [reflexivity|]. cbn [isort].
    assert (Hi : forall y l', length (insert y l') = S (length l')).
    { intros y l'. induction l' as [|z l' IH']; [reflexivity|]. cbn [insert]. destruct (key_le y z); cbn [length]; [reflexivity | rewrite IH'; reflexivity]. }
    rewrite Hi, IH. reflexivity. }
  revert Hlen. generalize (tris s). induction (sorted_tris s) as [|t l IH]; intros l2 Hlen.
  - reflexivity.
  - destruct l2 as [|t2 l2]; [discriminate|]. cbn [combine map]. f_equal. apply IH. cbn in Hlen. lia.
Qed.

(* ---------- runs ---------- *)
Definition pre_inv (pre : list (Z * Z)) (last n : Z) : Prop :=
  forall a b, In (a, b) pre -> a <= n /\ (a = n -> b = last).

Lemma run_pairs_ge : forall l last n a b, In (a, b) (run_pairs last n l) -> n <= a /\ (a = n -> b = last).
Proof.
  induction l as [|t l IH]; intros last n a b H; [destruct H|].
  cbn [run_pairs] in H. destruct H as [E | H].
  - inversion E; subst. destruct (meshID t =? last) eqn:Em.
    + apply Z.eqb_eq in Em. split; [lia | intros _; exact Em].
    + split; [lia | intros; lia].
  - apply IH in H. destruct H as [H1 H2]. destruct (meshID t =? last) eqn:Em.
    + apply Z.eqb_eq in Em. split; [exact H1|]. intros E. rewrite <- Em. apply H2. exact E.
    + split; [lia | intros; lia].
Qed.

Lemma assocz_app : forall v l1 l2, assocz v (l1 ++ l2) =
  match assocz v l1 with Some r => Some r | None => assocz v l2 end.
Proof.
  intros v l1 l2. induction l1 as [|[a b] l1 IH]; [reflexivity|].
  cbn [app assocz]. destruct (a =? v); [reflexivity | exact IH].
Qed.

Lemma assocz_in : forall v l r, assocz v l = Some r -> In (v, r) l.
Proof.
  intros v l r. induction l as [|[a b] l IH]; intros H; [discriminate|].
  cbn [assocz] in H. destruct (a =? v) eqn:E.
  - apply Z.eqb_eq in E. inversion H; subst. left. reflexivity.
  - right. apply IH. exact H.
Qed.

Definition attr_of (rl : Z -> rel) (t : itri) : Z * Z * Z * Z :=
  (rOrig (rl (meshID t)), rXform (rl (meshID t)), rFlags (rl (meshID t)), face_out t).

(* the attributes of the re-imported triangles, seen through the re-imported relation *)
Lemma import_attrs : forall rl startID suf l pre last n k,
  pre_inv pre last n ->
  (forall t, In t l -> 0 <= coplanarID t) ->
  0 <= k ->
  map (attr_of (import_relation rl startID (pre ++ run_pairs last n l ++ suf)))
      (import_tris rl startID last n k l) = map (attr_of rl) l.
Proof.
  intros rl startID suf l. induction l as [|t l IH]; intros pre last n k Hpre Hc Hk; [reflexivity|].
  cbn [import_tris run_pairs map].
  set (n' := if meshID t =? last then n else n + 1).
  assert (Hn' : n <= n') by (unfold n'; destruct (meshID t =? last); lia).
  f_equal.
  - (* the head triangle *)
    unfold attr_of at 1. cbn [meshID face_out faceID coplanarID].
    assert (Hl : import_relation rl startID (pre ++ ((n', meshID t) :: run_pairs (meshID t) n' l) ++ suf) (startID + n') = rl (meshID t)).
    { unfold import_relation. replace (startID + n' - startID) with n' by lia.
      rewrite assocz_app. destruct (assocz n' pre) as [r|] eqn:Ea.
      - apply assocz_in in Ea. destruct (Hpre _ _ Ea) as [H1 H2].
        assert (n' = n) by lia. specialize (H2 H). subst r.
        unfold n' in H. destruct (meshID t =? last) eqn:Em; [apply Z.eqb_eq in Em; rewrite Em; reflexivity | lia].
      - cbn [app assocz]. rewrite Z.eqb_refl. reflexivity. }
    rewrite Hl. unfold attr_of. f_equal.
    assert (Hf : 0 <= face_out t).
    { unfold face_out. destruct (0 <=? faceID t) eqn:E; [apply Z.leb_le; exact E | apply Hc; left; reflexivity]. }
    unfold face_out at 1. cbn [faceID coplanarID]. apply Z.leb_le in Hf. rewrite Hf. reflexivity.
  - replace (pre ++ ((n', meshID t) :: run_pairs (meshID t) n' l) ++ suf)
      with ((pre ++ [(n', meshID t)]) ++ run_pairs (meshID t) n' l ++ suf) by (rewrite <- app_assoc; reflexivity).
    apply IH.
    + intros a b Hin. apply in_app_or in Hin. destruct Hin as [Hin | [E | []]].
      * destruct (Hpre _ _ Hin) as [H1 H2]. split; [lia|]. intros E.
        assert (a = n) by lia. specialize (H2 H). subst b.
        unfold n' in E. destruct (meshID t =? last) eqn:Em; [apply Z.eqb_eq in Em; congruence | lia].
      * inversion E; subst. split; [lia | intros _; reflexivity].
    + intros t' Ht'. apply Hc. right. exact Ht'.
    + lia.
Qed.

(* re-imported triangles stay sorted by (originalID, meshID) *)
Lemma import_sorted : forall rl startID l last n k,
  (forall t, In t l -> rOrig (rl (meshID t)) = origID t) ->
  sortedk l -> sortedk (import_tris rl startID last n k l).
Proof.
  intros rl startID l. induction l as [|t l IH]; intros last n k Hc Hs; [exact I|].
  cbn [import_tris]. destruct Hs as [Hh Hs]. cbn [sortedk]. split.
  - destruct l as [|u l]; [exact I|]. cbn [import_tris].
    unfold key_le in *. cbn [origID meshID].
    rewrite (Hc t (or_introl eq_refl)), (Hc u (or_intror (or_introl eq_refl))).
    destruct (origID t =? origID u); [|exact Hh].
    apply Z.leb_le. destruct (meshID u =? meshID t); lia.
  - apply IH; [intros t' Ht'; apply Hc; right; exact Ht' | exact Hs].
Qed.

Definition export_attrs (s : impl) : list (Z * Z * Z * Z) := map (attr_of (relation s)) (sorted_tris s).

Lemma export_fixed_attrs : forall s, map attrs (export_fixed s) = export_attrs s.
Proof. intros s. unfold export_fixed, export_attrs. rewrite map_map. reflexivity. Qed.

Lemma runs_roundtrip_model : forall s startID,
  isOriginal s = false ->
  (forall t, In t (tris s) -> rOrig (relation s (meshID t)) = origID t) ->
  (forall t, In t (tris s) -> 0 <= coplanarID t) ->
  export_attrs (reimport startID s) = export_attrs s.
Proof.
  intros s startID Ho Hc Hcp.
  assert (Hin : forall t, In t (sorted_tris s) -> In t (tris s)).
  { intros t Ht. unfold sorted_tris in Ht. rewrite Ho in Ht. apply in_isort. exact Ht. }
  assert (Hsrt : sortedk (sorted_tris s)) by (unfold sorted_tris; rewrite Ho; apply isort_sorted).
  assert (E : sorted_tris (reimport startID s) = isort (import_tris (relation s) startID (-1) (-1) 0 (sorted_tris s))) by reflexivity.
  unfold export_attrs at 1. rewrite E. clear E.
  rewrite isort_id.
  - replace (relation (reimport startID s)) with
      (import_relation (relation s) startID ([] ++ run_pairs (-1) (-1) (sorted_tris s) ++ []))
      by (cbn [app]; rewrite app_nil_r; reflexivity).
    apply (import_attrs (relation s) startID [] (sorted_tris s) [] (-1) (-1) 0).
    + intros a b [].
    + intros t Ht. apply Hcp. apply Hin. exact Ht.
    + lia.
  - apply import_sorted; [intros t Ht; apply Hc; apply Hin; exact Ht | exact Hsrt].
Qed.

(* ---------- trailing empty runs ---------- *)
Lemma last_run_ge : forall l last n, n <= last_run last n l.
Proof.
  induction l as [|t l IH]; intros last n; cbn [last_run]; [lia|].
  specialize (IH (meshID t) (if meshID t =? last then n else n + 1)).
  destruct (meshID t =? last); lia.
Qed.

Lemma run_pairs_le_last : forall l last n a b, In (a, b) (run_pairs last n l) -> a <= last_run last n l.
Proof.
  induction l as [|t l IH]; intros last n a b H; [destruct H|].
  cbn [run_pairs last_run] in *. destruct H as [E | H].
  - inversion E; subst. apply last_run_ge.
  - apply IH in H. exact H.
Qed.

Lemma assocz_notin : forall v l, (forall a b, In (a, b) l -> a <> v) -> assocz v l = None.
Proof.
  intros v l. induction l as [|[a b] l IH]; intros H; [reflexivity|].
  cbn [assocz]. destruct (a =? v) eqn:E.
  - apply Z.eqb_eq in E. exfalso. apply (H a b (or_introl eq_refl)). exact E.
  - apply IH. intros a' b' Hin. apply (H a' b'). right. exact Hin.
Qed.

Lemma empty_pairs_keys : forall extra j a b, In (a, b) (empty_pairs j extra) -> j <= a.
Proof.
  induction extra as [|m r IH]; intros j a b H; [destruct H|].
  cbn [empty_pairs] in H. destruct H as [E | H]; [inversion E; lia | apply IH in H; lia].
Qed.

Lemma empty_attrs_model : forall rl startID front extra j,
  (forall a b, In (a, b) front -> a < j) ->
  export_empty_attrs (import_relation rl startID (front ++ empty_pairs j extra)) (new_ids startID j extra)
  = export_empty_attrs rl extra.
Proof.
  intros rl startID front extra. revert front. induction extra as [|m r IH]; intros front j Hf; [reflexivity|].
  cbn [empty_pairs new_ids export_empty_attrs map]. f_equal.
  - unfold import_relation. replace (startID + j - startID) with j by lia.
    rewrite assocz_app, (assocz_notin j front).
    + cbn [assocz]. rewrite Z.eqb_refl. reflexivity.
    + intros a b Hin E. specialize (Hf a b Hin). lia.
  - replace (front ++ (j, m) :: empty_pairs (j + 1) r) with ((front ++ [(j, m)]) ++ empty_pairs (j + 1) r)
      by (rewrite <- app_assoc; reflexivity).
    apply IH. intros a b Hin. apply in_app_or in Hin. destruct Hin as [Hin | [E | []]].
    + specialize (Hf a b Hin). lia.
    + inversion E; subst. lia.
Qed.

Lemma runs_roundtrip_empty_model : forall s startID extra,
  isOriginal s = false ->
  (forall t, In t (tris s) -> rOrig (relation s (meshID t)) = origID t) ->
  (forall t, In t (tris s) -> 0 <= coplanarID t) ->
  let srt := sorted_tris s in
  let rl' := reimport_relation_e (relation s) startID srt extra in
  map (attr_of rl') (isort (import_tris (relation s) startID (-1) (-1) 0 srt)) = map (attr_of (relation s)) srt /\
  export_empty_attrs rl' (reimport_extra startID srt extra) = export_empty_attrs (relation s) extra.
Proof.
  intros s startID extra Ho Hc Hcp srt rl'.
  assert (Hin : forall t, In t srt -> In t (tris s)).
  { intros t Ht. unfold srt, sorted_tris in Ht. rewrite Ho in Ht. apply in_isort. exact Ht. }
  assert (Hsrt : sortedk srt) by (unfold srt, sorted_tris; rewrite Ho; apply isort_sorted).
  split.
  - rewrite isort_id.
    + unfold rl', reimport_relation_e.
      apply (import_attrs (relation s) startID (empty_pairs (last_run (-1) (-1) srt + 1) extra) srt [] (-1) (-1) 0).
      * intros a b [].
      * intros t Ht. apply Hcp. apply Hin. exact Ht.
      * lia.
    + apply import_sorted; [intros t Ht; apply Hc; apply Hin; exact Ht | exact Hsrt].
  - unfold rl', reimport_relation_e, reimport_extra. apply empty_attrs_model.
    intros a b Hab. apply run_pairs_le_last in Hab. lia.
Qed.

(* ---------- runTransform absent ---------- *)
(* an export may omit runTransform only when every run transform is the identity; then
   the imported relation entry equals the exported one iff the importer honours the
   back-side bit (or the bit is clear) *)
Lemma import_rel_absent : forall honours identity r,
  rXform r = identity -> (honours = true \/ rFlags r mod 2 = 0) ->
  import_rel honours false identity r = r.
Proof.
  intros honours identity [o x f] Hx Hb. cbn in *. subst x. unfold import_rel, import_flags, import_xform. cbn.
  destruct Hb as [-> | Hb]; [reflexivity|]. destruct honours; [reflexivity|]. cbn. rewrite Hb, Z.sub_0_r. reflexivity.
Qed.

Lemma import_rel_present : forall honours identity r, import_rel honours true identity r = r.
Proof. intros honours identity [o x f]. reflexivity. Qed.

Lemma import_rel_absent_refuted :
  import_rel false false 0 (mkRel 5 0 1) <> mkRel 5 0 1 /\ import_rel false false 0 (mkRel 5 0 3) = mkRel 5 0 2.
Proof. split; [vm_compute; discriminate | vm_compute; reflexivity]. Qed.

(* ---------- merge vectors ---------- *)
(* invariant of the duplication loop *)
Definition dinv (st : dstate) : Prop :=
  0 <= nextIdx st /\
  (forall v p i, In (v, p, i) (bins st) -> 0 <= i < nextIdx st /\ exists r, assocz v (v2i st) = Some r /\ p2v (merges st) i = r) /\
  (forall v r, assocz v (v2i st) = Some r -> 0 <= r < nextIdx st /\ assocz r (merges st) = None) /\
  (forall a b, In (a, b) (merges st) -> 0 <= a < nextIdx st) /\
  (forall v w r, assocz v (v2i st) = Some r -> assocz w (v2i st) = Some r -> v = w).

Lemma find_bin_in : forall v p b i, find_bin v p b = Some i -> In (v, p, i) b.
Proof.
  intros v p b i. induction b as [|[[v' p'] i'] b IH]; intros H; [discriminate|].
  cbn [find_bin] in H. destruct ((v' =? v) && (p' =? p)) eqn:E.
  - apply andb_true_iff in E. destruct E as [E1 E2]. apply Z.eqb_eq in E1. apply Z.eqb_eq in E2.
    inversion H; subst. left. reflexivity.
  - right. apply IH. exact H.
Qed.

Lemma assocz_none_notin : forall v l, (forall a b, In (a, b) l -> a <> v) -> assocz v l = None.
Proof.
  intros v l. induction l as [|[a b] l IH]; intros H; [reflexivity|].
  cbn [assocz]. destruct (a =? v) eqn:E.
  - apply Z.eqb_eq in E. exfalso. apply (H a b (or_introl eq_refl)). exact E.
  - apply IH. intros a' b' Hin. apply (H a' b'). right. exact Hin.
Qed.

Lemma d0_inv : dinv d0.
Proof.
  unfold dinv, d0; cbn. split; [lia|]. split; [intros ? ? ? []|]. split; [intros; discriminate|].
  split; [intros ? ? []|]. intros; discriminate.
Qed.

Lemma dup_step_inv : forall st c, dinv st -> dinv (dup_step st c).
Proof.
  intros st [v p] [Hn [Hb [Hv [Hm Hinj]]]]. unfold dup_step. cbn [fst snd].
  destruct (find_bin v p (bins st)) as [i|] eqn:Ef.
  - unfold dinv; cbn. repeat split; try assumption; try (apply Hb; assumption); try (apply Hv; assumption); try (eapply Hm; eassumption).
    + apply (Hb _ _ _ H).
    + apply (Hb _ _ _ H).
    + apply (Hb _ _ _ H).
    + apply (Hv _ _ H).
    + apply (Hv _ _ H).
    + apply (Hv _ _ H).
  - assert (Hfresh : assocz (nextIdx st) (merges st) = None).
    { apply assocz_none_notin. intros a b Hin E. specialize (Hm a b Hin). lia. }
    destruct (assocz v (v2i st)) as [r|] eqn:Ea.
    + (* position vertex seen before: new output vertex, merged into its representative *)
      destruct (Hv v r Ea) as [Hr Hrn].
      unfold dinv; cbv zeta; cbn [bins v2i nextIdx merges]. split; [lia|]. split; [|split; [|split]].
      * intros v' p' i' [E | Hin].
        -- inversion E; subst. split; [lia|]. exists r. split; [exact Ea|].
           unfold p2v. cbn [assocz]. rewrite Z.eqb_refl. reflexivity.
        -- destruct (Hb _ _ _ Hin) as [Hi [r' [Hr' Hp]]]. split; [lia|]. exists r'. split; [exact Hr'|].
           unfold p2v in *. cbn [assocz]. destruct (nextIdx st =? i') eqn:E; [apply Z.eqb_eq in E; lia | exact Hp].
      * intros v' r' H'. destruct (Hv v' r' H') as [H1 H2]. split; [lia|].
        cbn [assocz]. destruct (nextIdx st =? r') eqn:E; [apply Z.eqb_eq in E; lia | exact H2].
      * intros a b [E | Hin]; [inversion E; subst; lia | specialize (Hm a b Hin); lia].
      * exact Hinj.
    + (* first time this position vertex is seen: it becomes the representative *)
      unfold dinv; cbv zeta; cbn [bins v2i nextIdx merges]. split; [lia|]. split; [|split; [|split]].
      * intros v' p' i' [E | Hin].
        -- inversion E; subst. split; [lia|]. exists (nextIdx st). cbn [assocz]. rewrite Z.eqb_refl. split; [reflexivity|].
           unfold p2v. rewrite Hfresh. reflexivity.
        -- destruct (Hb _ _ _ Hin) as [Hi [r' [Hr' Hp]]]. split; [lia|]. exists r'. split; [|exact Hp].
           cbn [assocz]. destruct (v =? v') eqn:E; [apply Z.eqb_eq in E; subst v'; congruence | exact Hr'].
      * intros v' r' H'. cbn [assocz] in H'. destruct (v =? v') eqn:E.
        -- inversion H'; subst. split; [lia | exact Hfresh].
        -- destruct (Hv v' r' H') as [H1 H2]. split; [lia | exact H2].
      * intros a b Hin. specialize (Hm a b Hin). lia.
      * intros v' w r'. cbn [assocz]. destruct (v =? v') eqn:E1; destruct (v =? w) eqn:E2; intros H1 H2.
        -- apply Z.eqb_eq in E1. apply Z.eqb_eq in E2. congruence.
        -- inversion H1; subst. destruct (Hv w _ H2). lia.
        -- inversion H2; subst. destruct (Hv v' _ H1). lia.
        -- apply (Hinj v' w r'); assumption.
Qed.

(* the output index of a corner merges to the representative of its position
   vertex, now and after any further steps *)
Definition corner_ok (st : dstate) (v i : Z) : Prop :=
  exists r, assocz v (v2i st) = Some r /\ p2v (merges st) i = r /\ 0 <= i < nextIdx st.

Lemma dup_step_out : forall st c, dinv st ->
  match outIdx (dup_step st c) with i :: _ => corner_ok (dup_step st c) (fst c) i | [] => False end.
Proof.
  intros st [v p] Hinv. pose proof (dup_step_inv st (v, p) Hinv) as Hinv'.
  destruct Hinv as [Hn [Hb [Hv [Hm Hinj]]]].
  unfold dup_step in *. cbn [fst snd] in *.
  destruct (find_bin v p (bins st)) as [i|] eqn:Ef.
  - cbn [outIdx]. apply find_bin_in in Ef. destruct (Hb _ _ _ Ef) as [Hi [r [Hr Hp]]].
    exists r. cbn. repeat split; assumption || lia.
  - destruct (assocz v (v2i st)) as [r|] eqn:Ea; cbn [outIdx];
      destruct Hinv' as [_ [Hb' _]]; cbn [bins] in Hb';
      destruct (Hb' v p (nextIdx st) (or_introl eq_refl)) as [Hi [r' [Hr' Hp']]];
      exists r'; repeat split; assumption || lia.
Qed.

Lemma corner_ok_step : forall st c v i, dinv st -> corner_ok st v i -> corner_ok (dup_step st c) v i.
Proof.
  intros st [v' p'] v i [Hn [Hb [Hv [Hm Hinj]]]] [r [Hr [Hp Hi]]].
  unfold dup_step. cbn [fst snd].
  destruct (find_bin v' p' (bins st)); [exists r; cbn; repeat split; assumption || lia|].
  destruct (assocz v' (v2i st)) as [r'|] eqn:Ea.
  - exists r. cbn [v2i merges nextIdx]. split; [exact Hr|]. split; [|lia].
    unfold p2v in *. cbn [assocz]. destruct (nextIdx st =? i) eqn:E; [apply Z.eqb_eq in E; lia | exact Hp].
  - exists r. cbn [v2i merges nextIdx]. split; [|split; [exact Hp | lia]].
    cbn [assocz]. destruct (v' =? v) eqn:E; [apply Z.eqb_eq in E; subst; congruence | exact Hr].
Qed.

Lemma fold_inv : forall cs st, dinv st -> dinv (fold_left dup_step cs st).
Proof. induction cs as [|c cs IH]; intros st H; [exact H | cbn; apply IH; apply dup_step_inv; exact H]. Qed.

Lemma fold_corner_ok : forall cs st v i, dinv st -> corner_ok st v i -> corner_ok (fold_left dup_step cs st) v i.
Proof.
  induction cs as [|c cs IH]; intros st v i Hinv H; [exact H|].
  cbn. apply IH; [apply dup_step_inv; exact Hinv | apply corner_ok_step; assumption].
Qed.

(* outIdx is reversed: corner j of the input is at position (len - 1 - j) *)
Lemma fold_outs : forall cs st, dinv st ->
  let fin := fold_left dup_step cs st in
  exists news, outIdx fin = news ++ outIdx st /\ length news = length cs /\
    Forall2 (fun c i => corner_ok fin (fst c) i) cs (rev news).
Proof.
  induction cs as [|c cs IH]; intros st Hinv.
  - exists []. cbn. repeat split; constructor.
  - cbn [fold_left]. pose proof (dup_step_inv st c Hinv) as Hinv1.
    destruct (IH (dup_step st c) Hinv1) as [news [Ho [Hl Hf]]].
    pose proof (dup_step_out st c Hinv) as Hout.
    assert (Hone : exists i, outIdx (dup_step st c) = i :: outIdx st).
    { unfold dup_step. destruct (find_bin (fst c) (snd c) (bins st)); [eexists; reflexivity|].
      destruct (assocz (fst c) (v2i st)); eexists; reflexivity. }
    destruct Hone as [i Hi]. rewrite Hi in Hout.
    exists (news ++ [i]). cbn zeta in *. split; [rewrite Ho, Hi, <- app_assoc; reflexivity|].
    split; [rewrite app_length; cbn; lia|].
    rewrite rev_app_distr. cbn [rev app]. constructor; [|exact Hf].
    apply fold_corner_ok; assumption.
Qed.

Lemma Forall2_mono : forall A B (P Q : A -> B -> Prop) l1 l2,
  (forall a b, P a b -> Q a b) -> Forall2 P l1 l2 -> Forall2 Q l1 l2.
Proof. intros A B P Q l1 l2 H F. induction F; constructor; auto. Qed.

Lemma Forall2_in_l : forall A B (P : A -> B -> Prop) l1 l2 a,
  Forall2 P l1 l2 -> In a l1 -> exists b, P a b.
Proof.
  intros A B P l1 l2 a F. induction F as [|x y l1 l2 Hxy F IH]; intros Hin; [destruct Hin|].
  destruct Hin as [<- | Hin]; [exists y; exact Hxy | apply IH; exact Hin].
Qed.

Lemma merge_restore_model : forall corners,
  let st := dup corners in
  Forall2 (fun c i => p2v (merges st) i = rep st (fst c) /\ 0 <= rep st (fst c)) corners (rev (outIdx st)) /\
  (forall c d, In c corners -> In d corners -> rep st (fst c) = rep st (fst d) -> fst c = fst d).
Proof.
  intros corners st. unfold st, dup.
  destruct (fold_outs corners d0 d0_inv) as [news [Ho [Hl Hf]]]. cbn zeta in *.
  cbn [outIdx d0] in Ho. rewrite app_nil_r in Ho. rewrite Ho.
  pose proof (fold_inv corners d0 d0_inv) as Hfin.
  remember (fold_left dup_step corners d0) as fin eqn:Efin.
  destruct Hfin as [Hn [Hb [Hv [Hm Hinj]]]].
  split.
  - refine (Forall2_mono _ _ _ _ _ _ _ Hf).
    intros c i [r [Hr [Hp Hi]]].
    unfold rep. rewrite Hr. split; [exact Hp|]. destruct (Hv _ _ Hr). lia.
  - intros c d Hc Hd E.
    destruct (Forall2_in_l _ _ _ _ _ c Hf Hc) as [ic [rc [Hrc _]]].
    destruct (Forall2_in_l _ _ _ _ _ d Hf Hd) as [id [rd [Hrd _]]].
    unfold rep in E. rewrite Hrc, Hrd in E. subst rd. apply (Hinj _ _ _ Hrc Hrd).
Qed.

(* mutant witness: merge vectors emitted to->from do not restore the topology *)
Lemma swapped_merge_breaks :
  let st := dup [(0, 0); (1, 1); (0, 5)] in
  p2v (merges st) 2 = rep st 0 /\ p2v_swapped (merges st) 2 <> rep st 0.
Proof. vm_compute. split; [reflexivity | discriminate]. Qed.
