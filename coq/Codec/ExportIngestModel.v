(* C08 x C09 — the importer's run-table rungs accept every table the exporter emits. *)
From Coq Require Import ZArith List Bool Lia.
From MV Require Import Codec.MeshGLDefs Codec.IngestDefs Codec.IngestModel Codec.ExportIngestDefs.
Import ListNotations.
Local Open Scope Z_scope.

Lemma zlen_app : forall A (a b : list A), zlen (a ++ b) = zlen a + zlen b.
Proof. intros. unfold zlen. rewrite app_length. lia. Qed.
Lemma zlen_cons : forall A (x : A) l, zlen (x :: l) = 1 + zlen l.
Proof. intros. unfold zlen. cbn [length]. lia. Qed.
Lemma zlen_repeat : forall (x : Z) k, zlen (repeat x k) = Z.of_nat k.
Proof. intros. unfold zlen. rewrite repeat_length. reflexivity. Qed.

(* every emitted start is 3*p for some position p of the scanned suffix *)
Lemma run_starts_bounds : forall l last pos x, 0 <= pos -> In x (run_starts last pos l) ->
  3 * pos <= x <= 3 * (pos + zlen l) - 3.
Proof.
  induction l as [|t l IH]; intros last pos x Hp H; [destruct H|].
  cbn [run_starts] in H. rewrite zlen_cons. pose proof (zlen_nonneg _ l).
  apply in_app_or in H. destruct H as [H | H].
  - destruct (meshID t =? last); [destruct H|]. destruct H as [<- | []]. lia.
  - apply IH in H; lia.
Qed.

(* sortedb of x :: l from a lower bound on l *)
Lemma sortedb_cons_intro : forall x l, sortedb l = true -> (forall y, In y l -> x <= y) -> sortedb (x :: l) = true.
Proof.
  intros x l Hs Hb. destruct l as [|y l]; [reflexivity|]. cbn [sortedb].
  apply andb_true_iff. split; [apply Z.leb_le; apply Hb; left; reflexivity | exact Hs].
Qed.

Lemma sortedb_app : forall a b, sortedb a = true -> sortedb b = true ->
  (forall x y, In x a -> In y b -> x <= y) -> sortedb (a ++ b) = true.
Proof.
  induction a as [|x a IH]; intros b Ha Hb Hab; [exact Hb|].
  destruct (sortedb_cons x a Ha) as [Ha' Hxa]. cbn [app]. apply sortedb_cons_intro.
  - apply IH; [exact Ha' | exact Hb | intros u v Hu Hv; apply Hab; [right; exact Hu | exact Hv]].
  - intros y Hy. apply in_app_or in Hy. destruct Hy as [Hy | Hy]; [apply Hxa; exact Hy | apply Hab; [left; reflexivity | exact Hy]].
Qed.

Lemma run_starts_sorted : forall l last pos, 0 <= pos -> sortedb (run_starts last pos l) = true.
Proof.
  induction l as [|t l IH]; intros last pos Hp; [reflexivity|].
  cbn [run_starts]. apply sortedb_app.
  - destruct (meshID t =? last); reflexivity.
  - apply IH. lia.
  - intros x y Hx Hy. destruct (meshID t =? last); [destruct Hx|]. destruct Hx as [<- | []].
    apply run_starts_bounds in Hy; lia.
Qed.

Lemma repeat_sorted : forall (x : Z) k, sortedb (repeat x k) = true.
Proof.
  induction k as [|k IH]; [reflexivity|]. cbn [repeat]. apply sortedb_cons_intro; [exact IH|].
  intros y Hy. apply repeat_spec in Hy. lia.
Qed.

Lemma export_run_index_sorted : forall srt k, sortedb (export_run_index srt k) = true.
Proof.
  intros srt k. unfold export_run_index. pose proof (zlen_nonneg _ srt).
  apply sortedb_app; [apply run_starts_sorted; lia | |].
  - apply sortedb_app; [apply repeat_sorted | reflexivity |].
    intros x y Hx [<- | []]. apply repeat_spec in Hx. lia.
  - intros x y Hx Hy. apply run_starts_bounds in Hx; [|lia].
    apply in_app_or in Hy. destruct Hy as [Hy | [<- | []]]; [apply repeat_spec in Hy; lia | lia].
Qed.

Lemma export_run_index_len : forall srt k, zlen (export_run_index srt k) = export_num_runs srt k + 1.
Proof.
  intros. unfold export_run_index, export_num_runs. rewrite !zlen_app, zlen_repeat.
  change (zlen [3 * zlen srt]) with 1. lia.
Qed.

Lemma export_run_index_last : forall srt k, last (export_run_index srt k) 0 = 3 * zlen srt.
Proof.
  intros. unfold export_run_index. rewrite app_assoc. apply last_last.
Qed.

(* meshIDs are >= 0, so the first triangle opens a run at 0 *)
Lemma export_run_index_hd : forall srt k, srt <> [] -> (forall t, In t srt -> 0 <= meshID t) ->
  hd 0 (export_run_index srt k) = 0.
Proof.
  intros srt k Hne Hm. destruct srt as [|t l]; [congruence|].
  unfold export_run_index. cbn [run_starts].
  destruct (meshID t =? -1) eqn:E; [apply Z.eqb_eq in E; specialize (Hm t (or_introl eq_refl)); lia|].
  reflexivity.
Qed.

Lemma export_num_runs_pos : forall srt k, srt <> [] -> (forall t, In t srt -> 0 <= meshID t) ->
  1 <= export_num_runs srt k.
Proof.
  intros srt k Hne Hm. destruct srt as [|t l]; [congruence|].
  unfold export_num_runs. cbn [run_starts].
  destruct (meshID t =? -1) eqn:E; [apply Z.eqb_eq in E; specialize (Hm t (or_introl eq_refl)); lia|].
  rewrite zlen_app. pose proof (zlen_nonneg _ (run_starts (meshID t) (0 + 1) l)).
  unfold zlen at 1. cbn [length]. lia.
Qed.

Lemma export_runs_pass_lenient_rungs : forall srt k wt m r,
  srt <> [] -> (forall t, In t srt -> 0 <= meshID t) ->
  exported_runs srt k wt m ->
  is_run_rung r = true -> r <> RRunIndexShapeStrict ->
  cond r m (st_runs m) = false.
Proof.
  intros srt k wt m r Hne Hm [Hri [Hro [Htv Hrt]]] Hr Hns.
  pose proof (export_num_runs_pos srt k Hne Hm) as Hpos.
  pose proof (export_run_index_len srt k) as Hlen.
  assert (Hnorm : normalise_runs m (runIndex m) = runIndex m).
  { unfold normalise_runs. rewrite Hri, Hlen, Hro.
    destruct (export_num_runs srt k + 1 =? 0) eqn:E1; [apply Z.eqb_eq in E1; lia|].
    destruct (export_num_runs srt k + 1 =? export_num_runs srt k) eqn:E2; [apply Z.eqb_eq in E2; lia|].
    destruct (export_num_runs srt k + 1 =? 1) eqn:E3; [apply Z.eqb_eq in E3; lia | reflexivity]. }
  destruct r; try discriminate; try congruence; cbn [cond].
  - (* RTransformLen *)
    rewrite Hrt, Hro. destruct wt.
    + rewrite Z.eqb_refl. cbn. apply andb_false_r.
    + reflexivity.
  - (* RRunIndexLen *)
    rewrite Hri, Hlen, Hro. rewrite Z.eqb_refl. cbn [negb]. rewrite andb_false_r. reflexivity.
  - (* RRunIndexShape *)
    unfold st_runs. cbn [ri]. rewrite Hnorm, Hri.
    rewrite Hlen, (export_run_index_hd srt k Hne Hm), export_run_index_last, export_run_index_sorted.
    unfold nRuns, runEnd. rewrite Hro, Htv. replace (Z.max 1 (export_num_runs srt k)) with (export_num_runs srt k) by lia.
    rewrite !Z.eqb_refl. reflexivity.
Qed.

Lemma tables_accepted : forall t srt k wt m r e,
  accepts_export_tables t = true ->
  srt <> [] -> (forall x, In x srt -> 0 <= meshID x) ->
  exported_runs srt k wt m ->
  In (IRung r e) t -> is_run_rung r = true ->
  cond r m (st_runs m) = false.
Proof.
  intros t srt k wt m r e Ht Hne Hm Hex Hin Hr.
  apply (export_runs_pass_lenient_rungs srt k wt m r Hne Hm Hex Hr).
  intros E. subst r. unfold accepts_export_tables in Ht. rewrite forallb_forall in Ht.
  specialize (Ht _ Hin). discriminate.
Qed.

Lemma strict_rejects_empty_run :
  exported_runs w_srt 1 true w_empty_run_mesh /\
  cond RRunIndexShape w_empty_run_mesh (st_runs w_empty_run_mesh) = false /\
  cond RRunIndexShapeStrict w_empty_run_mesh (st_runs w_empty_run_mesh) = true.
Proof. repeat split; vm_compute; reflexivity. Qed.
