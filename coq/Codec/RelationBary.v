(* C07 -- the snapped branches of GetBarycentric (over Q): weights, sums, error identities *)
From Coq Require Import ZArith List Bool QArith Qfield Lqa Lia.
From MV Require Import Codec.RelationDefs Codec.RelationModel.
Local Open Scope Q_scope.

Lemma Qltb_lt : forall a b, Qltb a b = true <-> a < b.
Proof.
  intros a b. unfold Qltb. rewrite negb_true_iff. split; intros H.
  - apply Qnot_le_lt. intro Hle. apply Qle_bool_iff in Hle. congruence.
  - destruct (Qle_bool b a) eqn:E; [|reflexivity]. apply Qle_bool_iff in E. exfalso. apply (Qlt_not_le _ _ H E).
Qed.
Lemma Qltb_ge : forall a b, Qltb a b = false <-> b <= a.
Proof.
  intros a b. unfold Qltb. rewrite negb_false_iff. apply Qle_bool_iff.
Qed.

Lemma sq_nonneg : forall x : Q, 0 <= x * x.
Proof. intros x. nra. Qed.

Lemma q3dot_self_nonneg : forall a, 0 <= q3dot a a.
Proof. intros [x y z]. unfold q3dot; cbn [qx qy qz]. pose proof (sq_nonneg x); pose proof (sq_nonneg y); pose proof (sq_nonneg z). lra. Qed.

(* Cauchy-Schwarz through Lagrange's identity *)
Lemma cauchy_schwarz : forall a b, q3dot a b * q3dot a b <= q3dot a a * q3dot b b.
Proof.
  intros [a1 a2 a3] [b1 b2 b3]. unfold q3dot; cbn [qx qy qz].
  assert (E : (a1 * a1 + a2 * a2 + a3 * a3) * (b1 * b1 + b2 * b2 + b3 * b3) - (a1 * b1 + a2 * b2 + a3 * b3) * (a1 * b1 + a2 * b2 + a3 * b3)
              == (a2 * b3 - a3 * b2) * (a2 * b3 - a3 * b2) + (a3 * b1 - a1 * b3) * (a3 * b1 - a1 * b3) + (a1 * b2 - a2 * b1) * (a1 * b2 - a2 * b1)) by ring.
  pose proof (sq_nonneg (a2 * b3 - a3 * b2)). pose proof (sq_nonneg (a3 * b1 - a1 * b3)). pose proof (sq_nonneg (a1 * b2 - a2 * b1)).
  lra.
Qed.

(* ---- vertex snap: the result is the corner's unit vector and the corner is closer than tol to v *)
Lemma snap_vertex_full : forall v tri tol,
  let tol2 := tol * tol in
  let dist2 i := q3dot (q3sub v (q3nth tri i)) (q3sub v (q3nth tri i)) in
  (near_vert tri v tol2 0 = true -> get_barycentric v tri tol = (1, 0, 0) /\ dist2 0%nat < tol2) /\
  (near_vert tri v tol2 0 = false -> near_vert tri v tol2 1 = true -> get_barycentric v tri tol = (0, 1, 0) /\ dist2 1%nat < tol2) /\
  (near_vert tri v tol2 0 = false -> near_vert tri v tol2 1 = false -> near_vert tri v tol2 2 = true ->
     get_barycentric v tri tol = (0, 0, 1) /\ dist2 2%nat < tol2).
Proof.
  intros v tri tol tol2 dist2. destruct (barycentric_vertex_snap v tri tol) as [A [B C]].
  repeat split; intros; auto; match goal with H : near_vert _ _ _ _ = true |- _ => unfold near_vert in H; apply Qltb_lt in H; exact H end.
Qed.

(* ---- edge snap inside the triangle branch *)
Definition raw_w (tri : Q3 * Q3 * Q3) (v : Q3) (i : nat) : Q := q3dot (bary_crossPv tri v i) (tri_crossP tri).
Definition snapped_w (tri : Q3 * Q3 * Q3) (v : Q3) (tol2 : Q) (i : nat) : Q :=
  if edge_snapped tri v tol2 i then 0 else raw_w tri v i.

Lemma div_nonneg : forall a s, 0 <= a -> 0 < s -> 0 <= a / s.
Proof. intros a s Ha Hs. unfold Qdiv. apply Qmult_le_0_compat; [exact Ha|]. apply Qinv_le_0_compat. lra. Qed.

(* if v is inside the tolerance-grown triangle (every weight non-negative or its edge snapped)
   the returned weights are non-negative, sum to 1, and a snapped corner gets exactly 0 *)
Lemma snap_edge_weights : forall p0 p1 p2 v tol,
  let tri := (p0, p1, p2) in let tol2 := tol * tol in let N := tri_crossP tri in
  near_vert tri v tol2 0 = false -> near_vert tri v tol2 1 = false -> near_vert tri v tol2 2 = false ->
  Qltb (edge_d2 tri (long_side tri)) tol2 = false ->
  Qltb (edge_d2 tri (long_side tri) * tol2) (q3dot N N) = true ->
  (forall i, (i < 3)%nat -> edge_snapped tri v tol2 i = true \/ 0 <= raw_w tri v i) ->
  0 < snapped_w tri v tol2 0 + snapped_w tri v tol2 1 + snapped_w tri v tol2 2 ->
  let '(a, b, c) := get_barycentric v tri tol in
  0 <= a /\ 0 <= b /\ 0 <= c /\ a + b + c == 1 /\
  (edge_snapped tri v tol2 0 = true -> a == 0) /\ (edge_snapped tri v tol2 1 = true -> b == 0) /\
  (edge_snapped tri v tol2 2 = true -> c == 0).
Proof.
  intros p0 p1 p2 v tol tri tol2 N n0 n1 n2 Hpt Htri Hin Hs.
  unfold get_barycentric. fold tri. fold tol2. fold N. rewrite n0, n1, n2, Hpt, Htri. cbv zeta.
  unfold snapped_w, raw_w in *. fold N in Hs, Hin.
  assert (H0 := Hin 0%nat ltac:(lia)). assert (H1 := Hin 1%nat ltac:(lia)). assert (H2 := Hin 2%nat ltac:(lia)).
  set (a0 := if edge_snapped tri v tol2 0 then 0 else q3dot (bary_crossPv tri v 0) N) in *.
  set (a1 := if edge_snapped tri v tol2 1 then 0 else q3dot (bary_crossPv tri v 1) N) in *.
  set (a2 := if edge_snapped tri v tol2 2 then 0 else q3dot (bary_crossPv tri v 2) N) in *.
  assert (P0 : 0 <= a0) by (unfold a0; destruct (edge_snapped tri v tol2 0); [lra|destruct H0; [discriminate|assumption]]).
  assert (P1 : 0 <= a1) by (unfold a1; destruct (edge_snapped tri v tol2 1); [lra|destruct H1; [discriminate|assumption]]).
  assert (P2 : 0 <= a2) by (unfold a2; destruct (edge_snapped tri v tol2 2); [lra|destruct H2; [discriminate|assumption]]).
  assert (Hne : ~ a0 + a1 + a2 == 0) by lra.
  repeat split; try (apply div_nonneg; assumption).
  - clearbody a0 a1 a2. field. exact Hne.
  - intros E. unfold a0 at 1. rewrite E. unfold Qdiv. ring.
  - intros E. unfold a1 at 1. rewrite E. unfold Qdiv. ring.
  - intros E. unfold a2 at 1. rewrite E. unfold Qdiv. ring.
Qed.

(* a snapped corner's true weight is small: (crossPv_i . N)^2 <= |e_i|^2 tol^2 |N|^2, i.e. |w_i| <= tol / h_i
   with w_i = raw_i / |N|^2 and h_i = |N| / |e_i| the triangle's height over edge i *)
Lemma snap_edge_weight_bound : forall tri v tol2 i,
  edge_snapped tri v tol2 i = true ->
  raw_w tri v i * raw_w tri v i <= edge_d2 tri i * tol2 * q3dot (tri_crossP tri) (tri_crossP tri).
Proof.
  intros tri v tol2 i H. unfold edge_snapped in H. apply Qltb_lt in H. unfold raw_w.
  pose proof (cauchy_schwarz (bary_crossPv tri v i) (tri_crossP tri)) as CS.
  pose proof (q3dot_self_nonneg (tri_crossP tri)) as NN.
  set (cc := q3dot (bary_crossPv tri v i) (bary_crossPv tri v i)) in *.
  set (nn := q3dot (tri_crossP tri) (tri_crossP tri)) in *.
  set (r := q3dot (bary_crossPv tri v i) (tri_crossP tri)) in *.
  set (d := edge_d2 tri i * tol2) in *.
  assert (cc * nn <= d * nn) by nra. lra.
Qed.

(* error identity when exactly corner 0's edge snaps (the other two cases are the same up to renaming):
   result - v' = w0 (v' - P0) / (1 - w0), written with raw weights r_i (sum N.N) and any coordinate x_i *)
Lemma snap_edge_error_identity : forall r0 r1 r2 x0 x1 x2 : Q,
  ~ r1 + r2 == 0 -> ~ r0 + r1 + r2 == 0 ->
  (r1 * x1 + r2 * x2) / (r1 + r2) - (r0 * x0 + r1 * x1 + r2 * x2) / (r0 + r1 + r2)
  == r0 * ((r0 * x0 + r1 * x1 + r2 * x2) / (r0 + r1 + r2) - x0) / (r1 + r2).
Proof. intros. field. split; assumption. Qed.

(* ---- needle branch: the result is the orthogonal projection of v onto the longest edge's line *)
Lemma needle_projection : forall (pn pl v : Q3),
  let e := q3sub pl pn in
  ~ q3dot e e == 0 ->
  let alpha := q3dot (q3sub v pn) e / q3dot e e in
  let s := mkQ3 ((1 - alpha) * qx pn + alpha * qx pl) ((1 - alpha) * qy pn + alpha * qy pl) ((1 - alpha) * qz pn + alpha * qz pl) in
  q3dot (q3sub s v) e == 0.
Proof.
  intros [a1 a2 a3] [b1 b2 b3] [v1 v2 v3] e He alpha s. unfold s, alpha, e in *. unfold q3dot, q3sub in *; cbn [qx qy qz] in *.
  field. exact He.
Qed.

(* for a point of the triangle (v = a P0 + b P1 + c P2, a + b + c = 1) the distance to the line of an edge is
   |w| |N| / |e| where w is the weight of the opposite corner: here for the edge P1P2 (opposite P0) *)
Lemma needle_distance : forall (p0 p1 p2 : Q3) (a b : Q),
  let c := 1 - a - b in
  let v := mkQ3 (a * qx p0 + b * qx p1 + c * qx p2) (a * qy p0 + b * qy p1 + c * qy p2) (a * qz p0 + b * qz p1 + c * qz p2) in
  let e := q3sub p2 p1 in
  let N := tri_crossP (p0, p1, p2) in
  let cr := q3cross e (q3sub v p1) in
  q3dot cr cr == a * a * q3dot N N.
Proof.
  intros [x0 y0 z0] [x1 y1 z1] [x2 y2 z2] a b c v e N cr.
  unfold cr, N, e, v, c, tri_crossP, tri_edges, q3nth, q3cross, q3dot, q3sub; cbn [qx qy qz]. ring.
Qed.

(* the needle branch as a whole: corner opposite the longest edge gets 0, weights sum to 1, they are
   non-negative exactly when the projection parameter alpha is in [0,1], and the interpolated point
   s = sum uvw_k P_k is the orthogonal projection of v onto the longest edge's line *)
Lemma needle_full : forall p0 p1 p2 v tol,
  let tri := (p0, p1, p2) in let tol2 := tol * tol in let N := tri_crossP tri in
  near_vert tri v tol2 0 = false -> near_vert tri v tol2 1 = false -> near_vert tri v tol2 2 = false ->
  Qltb (edge_d2 tri (long_side tri)) tol2 = false ->
  Qltb (edge_d2 tri (long_side tri) * tol2) (q3dot N N) = false ->
  ~ edge_d2 tri (long_side tri) == 0 ->
  let L := long_side tri in
  let e := q3nth (tri_edges tri) L in
  let alpha := q3dot (q3sub v (q3nth tri (next3 L))) e / edge_d2 tri L in
  let '(a, b, c) := get_barycentric v tri tol in
  qnth (a, b, c) L == 0 /\ a + b + c == 1 /\
  (0 <= alpha -> alpha <= 1 -> 0 <= a /\ 0 <= b /\ 0 <= c) /\
  q3dot (q3sub (mkQ3 (a * qx p0 + b * qx p1 + c * qx p2) (a * qy p0 + b * qy p1 + c * qy p2) (a * qz p0 + b * qz p1 + c * qz p2)) v) e == 0.
Proof.
  intros p0 p1 p2 v tol tri tol2 N n0 n1 n2 Hpt Htri Hd L e alpha.
  unfold get_barycentric. fold tri. fold tol2. fold N. rewrite n0, n1, n2, Hpt, Htri. cbv zeta.
  fold L. fold e. fold alpha. clear Htri.
  unfold edge_d2 in Hd. fold L in Hd. fold e in Hd.
  assert (Hal : alpha == q3dot (q3sub v (q3nth tri (next3 L))) e / q3dot e e) by (unfold alpha, edge_d2; fold L; fold e; reflexivity).
  clearbody alpha.
  destruct p0 as [x0 y0 z0], p1 as [x1 y1 z1], p2 as [x2 y2 z2], v as [vx vy vz].
  unfold e, tri in *. clear e.
  destruct L as [|[|l]]; cbn [next3 qset qnth q3nth tri_edges] in *; unfold q3dot, q3sub in *; cbn [qx qy qz] in *;
    (split; [reflexivity|]); (split; [ring|]); (split; [intros; repeat split; lra|]);
    rewrite Hal; field; exact Hd.
Qed.

(* in the needle branch |N|^2 <= |e_L|^2 tol^2; so for a point of the triangle with weight a in [0,1] on the
   corner opposite the longest edge, the squared distance to that edge's line, |e x (v-P1)|^2 / |e|^2, is at most tol^2 *)
Lemma needle_bound : forall (p0 p1 p2 : Q3) (a b tol2 : Q),
  let c := 1 - a - b in
  let v := mkQ3 (a * qx p0 + b * qx p1 + c * qx p2) (a * qy p0 + b * qy p1 + c * qy p2) (a * qz p0 + b * qz p1 + c * qz p2) in
  let e := q3sub p2 p1 in
  let N := tri_crossP (p0, p1, p2) in
  0 <= a -> a <= 1 -> q3dot N N <= q3dot e e * tol2 ->
  q3dot (q3cross e (q3sub v p1)) (q3cross e (q3sub v p1)) <= q3dot e e * tol2.
Proof.
  intros p0 p1 p2 a b tol2 c v e N Ha0 Ha1 HN.
  pose proof (needle_distance p0 p1 p2 a b) as D. cbv zeta in D. fold c v e N in D. rewrite D.
  pose proof (q3dot_self_nonneg N) as NN. set (nn := q3dot N N) in *. set (dd := q3dot e e * tol2) in *.
  assert (A1 : a * a <= 1) by nra. assert (A0 : 0 <= a * a) by nra. set (aa := a * a) in *.
  assert (aa * nn <= 1 * nn) by (apply Qmult_le_compat_r; assumption). lra.
Qed.

Lemma point_branch : forall v tri tol,
  let tol2 := tol * tol in
  near_vert tri v tol2 0 = false -> near_vert tri v tol2 1 = false -> near_vert tri v tol2 2 = false ->
  Qltb (edge_d2 tri (long_side tri)) tol2 = true ->
  get_barycentric v tri tol = (1, 0, 0).
Proof.
  intros v tri tol tol2 n0 n1 n2 H. unfold get_barycentric. fold tol2. rewrite n0, n1, n2, H. reflexivity.
Qed.
