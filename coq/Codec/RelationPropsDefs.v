(* C07 -- port of the property-vertex bookkeeping (definitions only):
     CreateProperties: key construction and lookup     src/boolean_result.cpp:617-662
     CollapseEdge: property carry-over around startVert  src/edge_op.cpp (orbit of startVert)
     Subdivide: triRef replication                       src/subdivision.cpp:646-647 *)
From Coq Require Import ZArith List Bool.
Import ListNotations.
Local Open Scope Z_scope.

(* how a barycentric coordinate compares with the exact constants the code tests *)
Inductive wclass := WOne | WZero | WOther.

Definition next3z (i : Z) : Z := if i =? 2 then 0 else i + 1.
Definition prev3z (i : Z) : Z := if i =? 0 then 2 else i - 1.
Definition nth3 {A} (t : A * A * A) (i : Z) : A := let '(a, b, c) := t in if i =? 0 then a else if i =? 1 then b else c.

(* one corner as CreateProperties sees it *)
Record Corner := mkCorner
  { cPQ : bool;                    (* ref.meshID == 0 : the triangle came from P *)
    cVert : Z;                     (* outR.halfedge_.Start(3*tri+i): position vertex of the result *)
    cOldNumProp : Z;               (* numProp of the source operand *)
    cUVW : wclass * wclass * wclass;
    cSrcProp : Z * Z * Z }.        (* halfedge.Prop(3*ref.faceID + j), j = 0,1,2: the source triangle's property vertices *)

(* the loop `for j in {0,1,2}`: returns (edge, key.z) ; edge starts at -2 *)
Definition scan_uvw (c : Corner) : Z * Z :=
  let '(w0, w1, w2) := cUVW c in let '(s0, s1, s2) := cSrcProp c in
  match w0 with
  | WOne => (-1, s0)
  | _ => let e0 := match w0 with WZero => 0 | _ => -2 end in
    match w1 with
    | WOne => (-1, s1)
    | _ => let e1 := match w1 with WZero => 1 | _ => e0 end in
      match w2 with
      | WOne => (-1, s2)
      | _ => (match w2 with WZero => 2 | _ => e1 end, -1)
      end
    end
  end.

(* ivec4 key(PQ, idMissProp, -1, -1) and its refinement *)
Definition prop_key (idMiss : Z) (c : Corner) : Z * Z * Z * Z :=
  let x := if cPQ c then 1 else 0 in
  if cOldNumProp c >? 0 then
    let '(edge, z) := scan_uvw c in
    if edge >=? 0 then
      let p0 := nth3 (cSrcProp c) (next3z edge) in
      let p1 := nth3 (cSrcProp c) (prev3z edge) in
      (x, cVert c, Z.min p0 p1, Z.max p0 p1)
    else if edge =? -2 then (x, cVert c, z, -1)
    else (x, idMiss, z, -1)
  else (x, idMiss, -1, -1).

(* the two containers: propMissIdx[key.x][key.z] and the bins propIdx[key.y] searched for (x,z,w) *)
Inductive LKey := KMiss (x z : Z) | KBin (y x z w : Z).
Definition lookup_key (idMiss : Z) (k : Z * Z * Z * Z) : LKey :=
  let '(x, y, z, w) := k in
  if (y =? idMiss) && (z >=? 0) then KMiss x z else KBin y x z w.

Definition lkey_eqb (a b : LKey) : bool :=
  match a, b with
  | KMiss x z, KMiss x' z' => (x =? x') && (z =? z')
  | KBin y x z w, KBin y' x' z' w' => (y =? y') && (x =? x') && (z =? z') && (w =? w')
  | _, _ => false
  end.

Fixpoint tbl_find (k : LKey) (t : list (LKey * Z)) : option Z :=
  match t with [] => None | (k', v) :: r => if lkey_eqb k k' then Some v else tbl_find k r end.

(* the sequential loop over corners: returns the property vertex given to each corner *)
Fixpoint assign_props (idMiss : Z) (next : Z) (tbl : list (LKey * Z)) (cs : list Corner) : list Z :=
  match cs with
  | [] => []
  | c :: r =>
    let k := lookup_key idMiss (prop_key idMiss c) in
    match tbl_find k tbl with
    | Some i => i :: assign_props idMiss next tbl r
    | None => next :: assign_props idMiss (next + 1) ((k, next) :: tbl) r
    end
  end.

(* CollapseEdge, orbit of startVert: the property vertex a halfedge around the removed vertex ends with *)
Definition collapse_prop (startProp0 endProp0 startProp1 endProp1 p : Z) : Z :=
  if p =? startProp0 then endProp0 else if p =? startProp1 then endProp1 else p.

(* Subdivide: every sub-triangle gets a copy of its parent's TriRef *)
Definition subdivide_refs {R} (refs : list R) (counts : list nat) : list R :=
  flat_map (fun rc => repeat (fst rc) (snd rc)) (combine refs counts).
