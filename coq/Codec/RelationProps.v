(* C07 -- lemmas about RelationPropsDefs.v *)
From Coq Require Import ZArith List Bool Lia.
From MV Require Import Codec.RelationPropsDefs.
Import ListNotations.
Local Open Scope Z_scope.

Lemma lkey_eqb_eq : forall a b, lkey_eqb a b = true <-> a = b.
Proof.
  intros [x z|y x z w] [x' z'|y' x' z' w']; cbn; rewrite ?andb_true_iff, ?Z.eqb_eq; split; intros H;
    try discriminate; try (inversion H; subst; tauto); try (f_equal; tauto).
Qed.

Lemma tbl_find_in : forall t k v, tbl_find k t = Some v -> In (k, v) t.
Proof.
  induction t as [|[k' v'] t IH]; cbn; intros k v H; [discriminate|].
  destruct (lkey_eqb k k') eqn:E; [apply lkey_eqb_eq in E; inversion H; subst; now left|right; auto].
Qed.

(* invariant of the loop: the table is injective and all its values are below `next` *)
Definition tbl_ok (next : Z) (t : list (LKey * Z)) : Prop :=
  (forall k v, In (k, v) t -> v < next) /\
  (forall k1 k2 v, In (k1, v) t -> In (k2, v) t -> k1 = k2).

Fixpoint final_tbl (idMiss next : Z) (tbl : list (LKey * Z)) (cs : list Corner) : Z * list (LKey * Z) :=
  match cs with
  | [] => (next, tbl)
  | c :: r =>
    let k := lookup_key idMiss (prop_key idMiss c) in
    match tbl_find k tbl with
    | Some i => final_tbl idMiss next tbl r
    | None => final_tbl idMiss (next + 1) ((k, next) :: tbl) r
    end
  end.

Lemma tbl_ok_insert : forall next tbl k, tbl_ok next tbl -> tbl_find k tbl = None -> tbl_ok (next + 1) ((k, next) :: tbl).
Proof.
  intros next tbl k [H1 H2] Hn. split.
  - intros k0 v0 [H|H]; [inversion H; lia|specialize (H1 _ _ H); lia].
  - intros k1 k2 v0 [Ha|Ha] [Hb|Hb].
    + congruence.
    + inversion Ha; subst. specialize (H1 _ _ Hb). lia.
    + inversion Hb; subst. specialize (H1 _ _ Ha). lia.
    + eauto.
Qed.

Lemma assign_final : forall idMiss cs next tbl, tbl_ok next tbl ->
  tbl_ok (fst (final_tbl idMiss next tbl cs)) (snd (final_tbl idMiss next tbl cs)) /\
  incl tbl (snd (final_tbl idMiss next tbl cs)) /\
  Forall2 (fun c v => In (lookup_key idMiss (prop_key idMiss c), v) (snd (final_tbl idMiss next tbl cs)))
          cs (assign_props idMiss next tbl cs).
Proof.
  intros idMiss. induction cs as [|c cs IH]; intros next tbl Hok; cbn [final_tbl assign_props].
  - cbn. split; [exact Hok|]. split; [apply incl_refl|constructor].
  - destruct (tbl_find (lookup_key idMiss (prop_key idMiss c)) tbl) as [iv|] eqn:Ef.
    + destruct (IH next tbl Hok) as [A [B C]]. split; [exact A|]. split; [exact B|].
      constructor; [apply B; now apply tbl_find_in|exact C].
    + destruct (IH _ _ (tbl_ok_insert _ _ _ Hok Ef)) as [A [B C]]. split; [exact A|]. split.
      * intros x Hx. apply B. now right.
      * constructor; [apply B; now left|exact C].
Qed.

Lemma assign_spec : forall idMiss cs i j ci cj v,
  nth_error cs i = Some ci -> nth_error cs j = Some cj ->
  nth_error (assign_props idMiss 0 [] cs) i = Some v -> nth_error (assign_props idMiss 0 [] cs) j = Some v ->
  lookup_key idMiss (prop_key idMiss ci) = lookup_key idMiss (prop_key idMiss cj).
Proof.
  intros idMiss cs i j ci cj v Hi Hj Hvi Hvj.
  assert (Hok : tbl_ok 0 []) by (split; intros; contradiction).
  destruct (assign_final idMiss cs 0 [] Hok) as [[_ Inj] [_ F]].
  set (T := snd (final_tbl idMiss 0 [] cs)) in *. set (vs := assign_props idMiss 0 [] cs) in *. clearbody T vs.
  assert (G : forall k c v', nth_error cs k = Some c -> nth_error vs k = Some v' ->
              In (lookup_key idMiss (prop_key idMiss c), v') T).
  { clear -F. induction F as [|c0 v0 cs0 vs0 H F IH]; intros k c v' Hk Hv; [destruct k; discriminate|].
    destruct k; cbn in Hk, Hv; [inversion Hk; inversion Hv; subst; exact H|eauto]. }
  eapply Inj; [eapply G; eauto|eapply G; eauto].
Qed.

(* what equal lookup keys mean, case by case (the three cases of the comment in CreateProperties) *)
Lemma prop_key_cases : forall idMiss c,
  let k := prop_key idMiss c in
  (cOldNumProp c <= 0 /\ k = ((if cPQ c then 1 else 0), idMiss, -1, -1)) \/
  (0 < cOldNumProp c /\ exists j, 0 <= j <= 2 /\ nth3 (cUVW c) j = WOne /\
      k = ((if cPQ c then 1 else 0), idMiss, nth3 (cSrcProp c) j, -1)) \/
  (0 < cOldNumProp c /\ exists e, 0 <= e <= 2 /\ nth3 (cUVW c) e = WZero /\
      k = ((if cPQ c then 1 else 0), cVert c,
           Z.min (nth3 (cSrcProp c) (next3z e)) (nth3 (cSrcProp c) (prev3z e)),
           Z.max (nth3 (cSrcProp c) (next3z e)) (nth3 (cSrcProp c) (prev3z e)))) \/
  (0 < cOldNumProp c /\ k = ((if cPQ c then 1 else 0), cVert c, -1, -1)).
Proof.
  intros idMiss c k. unfold k, prop_key. destruct (cOldNumProp c >? 0) eqn:E.
  - apply Z.gtb_lt in E. right. unfold scan_uvw.
    destruct (cUVW c) as [[w0 w1] w2] eqn:Ew. destruct (cSrcProp c) as [[s0 s1] s2] eqn:Es.
    destruct w0, w1, w2; cbn;
      try (left; split; [lia|]; first [exists 0; cbn; split; [lia|split; reflexivity] | exists 1; cbn; split; [lia|split; reflexivity] | exists 2; cbn; split; [lia|split; reflexivity]]);
      try (right; left; split; [lia|]; first [exists 2; cbn; split; [lia|split; reflexivity] | exists 1; cbn; split; [lia|split; reflexivity] | exists 0; cbn; split; [lia|split; reflexivity]]);
      try (right; right; split; [lia|reflexivity]).
  - left. split; [|reflexivity]. destruct (Z.gtb_spec (cOldNumProp c) 0); [discriminate|lia].
Qed.

Lemma collapse_prop_third : forall sp0 ep0 sp1 ep1 p, p <> sp0 -> p <> sp1 -> collapse_prop sp0 ep0 sp1 ep1 p = p.
Proof.
  intros. unfold collapse_prop. destruct (p =? sp0) eqn:E0; [apply Z.eqb_eq in E0; contradiction|].
  destruct (p =? sp1) eqn:E1; [apply Z.eqb_eq in E1; contradiction|reflexivity].
Qed.

Lemma subdivide_refs_parent : forall R (refs : list R) counts r,
  In r (subdivide_refs refs counts) -> In r refs.
Proof.
  intros R refs counts r H. unfold subdivide_refs in H. apply in_flat_map in H.
  destruct H as [[r0 n] [Hin Hr]]. cbn in Hr. apply repeat_spec in Hr. subst.
  now apply in_combine_l in Hin.
Qed.

Lemma prop_key_x : forall idMiss c, fst (fst (fst (prop_key idMiss c))) = if cPQ c then 1 else 0.
Proof.
  intros idMiss c. unfold prop_key. destruct (cOldNumProp c >? 0); [|reflexivity].
  destruct (scan_uvw c) as [e z]. destruct (e >=? 0); [reflexivity|]. destruct (e =? -2); reflexivity.
Qed.

Lemma dedup_main : forall idMiss cs i j ci cj v,
  nth_error cs i = Some ci -> nth_error cs j = Some cj ->
  nth_error (assign_props idMiss 0 [] cs) i = Some v -> nth_error (assign_props idMiss 0 [] cs) j = Some v ->
  let '(xi, yi, zi, wi) := prop_key idMiss ci in
  let '(xj, yj, zj, wj) := prop_key idMiss cj in
  cPQ ci = cPQ cj /\ zi = zj /\
  ((yi = yj /\ wi = wj) \/ (yi = idMiss /\ yj = idMiss /\ 0 <= zi)).
Proof.
  intros idMiss cs i j ci cj v Hi Hj Hvi Hvj.
  pose proof (assign_spec idMiss cs i j ci cj v Hi Hj Hvi Hvj) as E.
  pose proof (prop_key_x idMiss ci) as Xi. pose proof (prop_key_x idMiss cj) as Xj.
  destruct (prop_key idMiss ci) as [[[xi yi] zi] wi]. destruct (prop_key idMiss cj) as [[[xj yj] zj] wj].
  cbn [fst] in Xi, Xj. unfold lookup_key in E.
  assert (PQ : xi = xj -> cPQ ci = cPQ cj).
  { intros ->. rewrite Xi in Xj. destruct (cPQ ci), (cPQ cj); try reflexivity; discriminate. }
  destruct ((yi =? idMiss) && (zi >=? 0)) eqn:Ei; destruct ((yj =? idMiss) && (zj >=? 0)) eqn:Ej; try discriminate.
  - inversion E; subst. apply andb_true_iff in Ei, Ej. destruct Ei as [Ei1 Ei2], Ej as [Ej1 Ej2].
    apply Z.eqb_eq in Ei1, Ej1. apply Z.geb_le in Ei2. split; [auto|]. split; [reflexivity|]. right. lia.
  - inversion E; subst. split; [auto|]. split; [reflexivity|]. left. split; reflexivity.
Qed.

Lemma collapse_prop_by_index : forall sp0 ep0 sp1 ep1 p, p = sp0 -> collapse_prop sp0 ep0 sp1 ep1 p = ep0.
Proof. intros; subst. unfold collapse_prop. now rewrite Z.eqb_refl. Qed.
