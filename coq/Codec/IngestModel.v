(* C09 — lemmas about the ingest model: soundness of ladder_table_safe,
   refutations on the pinned table, verdict characterisation. *)
From Coq Require Import ZArith List Bool Lia.
From MV Require Import Codec.IngestDefs.
Import ListNotations.
Local Open Scope Z_scope.

(* ---------- small arithmetic / list helpers ---------- *)
Lemma in_boundsb_ok : forall a, in_boundsb a = true <-> in_bounds a.
Proof.
  intros [x i n | x lo hi n]; unfold in_boundsb, in_bounds.
  - rewrite andb_true_iff, Z.leb_le, Z.ltb_lt. tauto.
  - rewrite orb_true_iff, negb_true_iff, Z.ltb_ge, andb_true_iff, !Z.leb_le. split.
    + intros [H | H] Hlt; lia.
    + intros H. destruct (Z_lt_dec lo hi); [right; apply H; assumption | left; lia].
Qed.

Lemma toI_small : forall w x, 0 <= x < 2 ^ 32 -> toI w x = x.
Proof.
  intros w x H. unfold toI. apply Z.mod_small. destruct w; [|lia].
  assert (2 ^ 32 < 2 ^ 64) by (apply Z.pow_lt_mono_r; lia). lia.
Qed.

Lemma u32_small : forall x, 0 <= x < 2 ^ 32 -> u32 x = x.
Proof. intros x H. unfold u32. apply Z.mod_small. exact H. Qed.

Lemma u32_range : forall x, 0 <= u32 x < 2 ^ 32.
Proof. intros x. unfold u32. apply Z.mod_pos_bound. lia. Qed.

Lemma zlen_nonneg : forall A (l : list A), 0 <= zlen l.
Proof. intros. unfold zlen. lia. Qed.

Lemma in_zseq : forall n lo i, In i (zseq lo n) -> lo <= i < lo + Z.of_nat n.
Proof.
  induction n as [|n IH]; intros lo i H; cbn [zseq] in H.
  - contradiction.
  - destruct H as [H | H].
    + lia.
    + apply IH in H. lia.
Qed.

Lemma in_zrange : forall lo hi i, In i (zrange lo hi) -> lo <= i < hi.
Proof.
  intros lo hi i H. unfold zrange in H. apply in_zseq in H. lia.
Qed.

Lemma Forall_flat_map_intro : forall A B (P : B -> Prop) (f : A -> list B) l,
  (forall x, In x l -> Forall P (f x)) -> Forall P (flat_map f l).
Proof.
  intros A B P f l H. apply Forall_forall. intros y Hy.
  apply in_flat_map in Hy. destruct Hy as [x [Hx Hy]].
  specialize (H x Hx). rewrite Forall_forall in H. apply H. exact Hy.
Qed.

(* sorted lists: monotone nth *)
Lemma sortedb_cons : forall x l, sortedb (x :: l) = true ->
  sortedb l = true /\ (forall y, In y l -> x <= y).
Proof.
  intros x l; revert x. induction l as [|y l IH]; intros x H.
  - split; [reflexivity | intros ? []].
  - cbn [sortedb] in H. apply andb_true_iff in H. destruct H as [Hxy Hs].
    apply Z.leb_le in Hxy. split; [exact Hs|].
    intros z [Hz | Hz]; [lia|].
    destruct (IH y Hs) as [_ Hall]. specialize (Hall z Hz). lia.
Qed.

Lemma strictb_sortedb : forall l, strictb l = true -> sortedb l = true.
Proof.
  induction l as [|x l IH]; intros H; [reflexivity|].
  destruct l as [|y l]; [reflexivity|].
  cbn [strictb] in H. apply andb_true_iff in H. destruct H as [H1 H2].
  cbn [sortedb]. apply andb_true_iff. split; [apply Z.leb_le; apply Z.ltb_lt in H1; lia | apply IH; exact H2].
Qed.

Lemma sorted_nth_mono : forall l i j, sortedb l = true ->
  (i <= j < length l)%nat -> nth i l 0 <= nth j l 0.
Proof.
  induction l as [|x l IH]; intros i j Hs Hij.
  - cbn in Hij. lia.
  - destruct (sortedb_cons x l Hs) as [Hs' Hall].
    destruct i as [|i], j as [|j]; cbn [nth].
    + lia.
    + apply Hall. apply nth_In. cbn in Hij. lia.
    + lia.
    + apply IH; [exact Hs'|]. cbn in Hij. lia.
Qed.

Lemma last_nth : forall (l : list Z) d, l <> [] -> last l d = nth (length l - 1) l d.
Proof.
  induction l as [|x l IH]; intros d Hne; [congruence|].
  destruct l as [|y l].
  - reflexivity.
  - change (last (x :: y :: l) d) with (last (y :: l) d).
    rewrite IH by congruence. cbn [length]. replace (S (S (length l)) - 1)%nat with (S (length l)) by lia.
    cbn [nth]. replace (S (length l) - 1)%nat with (length l) by lia. reflexivity.
Qed.

(* ---------- the invariant carried along the table ---------- *)
Definition vert_ok (m : meshgl) (v : Z) : Prop := 0 <= v < numVert m.

Definition holds (f : facts) (m : meshgl) (s : st) : Prop :=
  (fNumProp f = true -> 3 <= numProp m) /\
  (fMergeLen f = true -> zlen (mergeFrom m) = zlen (mergeTo m)) /\
  (fTransLen f = true -> rtLen m = 0 \/ 12 * runOrigLen m = rtLen m) /\
  (fFaceLen f = true -> faceIDLen m = 0 \/ faceIDLen m = numTriI m) /\
  (fTanLen f = true -> tanLen m = 0 \/ tanLen m = 4 * runEnd m) /\
  (fShape f = true -> zlen (ri s) = nRuns m + 1 /\ hd 0 (ri s) = 0 /\
                      last (ri s) 0 = runEnd m /\ sortedb (ri s) = true) /\
  (fMergeGe f = true -> Forall (fun ft => vert_ok m (snd ft)) (p2v s)) /\
  (fTriDone f = true -> Forall (fun t => Forall (vert_ok m) (fst t) /\ Forall (vert_ok m) (snd t) /\
                                         length (fst t) = length (snd t)) (kept s)) /\
  (fMergeGe f = false -> p2v s = []) /\
  (fTriDone f = true -> zlen (kept s) <= numTriI m).

Lemma holds0 : forall m, holds facts0 m (st0 m).
Proof. intros m. unfold holds, facts0; cbn. repeat split; intros; try discriminate; reflexivity. Qed.

(* consequences of wf + small *)
Lemma numTriI_small : forall m, small m -> numTriI m = zlen (triVerts m) / 3 /\ 0 <= numTriI m < 2 ^ 31.
Proof.
  intros m [_ Ht]. pose proof (zlen_nonneg _ (triVerts m)) as H0.
  assert (0 <= zlen (triVerts m) / 3 < 2 ^ 31).
  { split; [apply Z.div_pos; lia|]. apply Z.div_lt_upper_bound; lia. }
  unfold numTriI. rewrite toI_small by lia. lia.
Qed.

Lemma numVertI_small : forall m, wf m -> small m -> 3 <= numProp m ->
  numVertI m = vpLen m / numProp m /\ 0 <= numVertI m < 2 ^ 31 /\ numVert m = numVertI m /\
  numProp m * numVertI m <= vpLen m.
Proof.
  intros m Hwf [Hv _] Hp. destruct Hwf as [_ [Hvp _]].
  assert (Hq : 0 <= vpLen m / numProp m < 2 ^ 31).
  { split; [apply Z.div_pos; lia|]. apply Z.div_lt_upper_bound; nia. }
  assert (E : numVertI m = vpLen m / numProp m).
  { unfold numVertI. apply toI_small. lia. }
  split; [exact E|]. split; [lia|]. split.
  - unfold numVert. rewrite u32_small; lia.
  - rewrite E. apply Z.mul_div_le. lia.
Qed.

Lemma numTri_small : forall m, small m -> numTri m = numTriI m.
Proof. intros m Hs. destruct (numTriI_small m Hs) as [_ H]. unfold numTri. apply u32_small. lia. Qed.

Lemma np_small : forall m, wf m -> small m -> 3 <= numProp m ->
  (np m = numProp m - 3 \/ numVertI m = 0) /\ 0 <= np m.
Proof.
  intros m Hwf Hs Hp. split.
  - destruct (Z_lt_dec (numProp m) (2 ^ 32)) as [Hlt | Hge].
    + left. unfold np. apply toI_small. lia.
    + right. destruct (numVertI_small m Hwf Hs Hp) as [E _]. rewrite E.
      destruct Hs as [Hv _]. apply Z.div_small. destruct Hwf as [_ [Hvp _]]. lia.
  - unfold np, toI. apply Z.mod_pos_bound. destruct (wide m); lia.
Qed.

Lemma propsLen_small : forall m, wf m -> small m -> 3 <= numProp m ->
  propsLen m = numVertI m * np m.
Proof.
  intros m Hwf Hs Hp.
  destruct (numVertI_small m Hwf Hs Hp) as [E [Hr [_ Hmul]]].
  destruct (np_small m Hwf Hs Hp) as [[Hn | Hz] Hn0].
  - unfold propsLen. apply toI_small. rewrite Hn. destruct Hs as [Hv _]. nia.
  - unfold propsLen. rewrite Hz. rewrite Z.mul_0_l. apply toI_small. lia.
Qed.

(* ---------- per item: accesses are in bounds ---------- *)
Lemma merge_loop_ok : forall nv mtlen mt fr i acc fired acc' a,
  merge_loop CGe nv mtlen mt i fr acc = (fired, acc', a) ->
  0 <= i -> i + zlen fr <= mtlen ->
  Forall (fun ft => 0 <= snd ft < nv) acc ->
  Forall in_bounds a /\ Forall (fun ft => 0 <= snd ft < nv) acc'.
Proof.
  intros nv mtlen mt fr. induction fr as [|f fr IH]; intros i acc fired acc' a H Hi Hlen Hacc.
  - cbn in H. inversion H; subst. split; [constructor | exact Hacc].
  - cbn [merge_loop] in H.
    assert (Hl : zlen (f :: fr) = 1 + zlen fr) by (unfold zlen; cbn [length]; lia).
    pose proof (zlen_nonneg _ fr) as Hfr.
    destruct (bad CGe (u32 f) nv || bad CGe (u32 (znth mt i)) nv) eqn:Eb.
    + inversion H; subst. split; [|exact Hacc].
      repeat constructor; cbn; lia.
    + destruct (merge_loop CGe nv mtlen mt (i + 1) fr ((u32 f, u32 (znth mt i)) :: acc)) as [[fi ac] a'] eqn:Er.
      inversion H; subst.
      apply orb_false_iff in Eb. destruct Eb as [Eb1 Eb2]. cbn [bad] in Eb1, Eb2.
      apply Z.leb_gt in Eb1. apply Z.leb_gt in Eb2.
      pose proof (u32_range f) as R1. pose proof (u32_range (znth mt i)) as R2.
      apply IH in Er; [| lia | lia | constructor; [cbn; lia | exact Hacc]].
      destruct Er as [Ha Hc]. split; [|exact Hc].
      constructor; [cbn; lia|]. constructor; [cbn; lia|]. constructor; [cbn; lia | exact Ha].
Qed.

Lemma p2v_get_ok : forall m l v, Forall (fun ft => vert_ok m (snd ft)) l -> vert_ok m v ->
  vert_ok m (p2v_get l v).
Proof.
  intros m l v Hl Hv. induction Hl as [|[f t] l Hft Hl IH]; cbn [p2v_get].
  - exact Hv.
  - destruct (f =? v); [exact Hft | exact IH].
Qed.

Lemma corners_ok : forall m s i js r a,
  corners CGe m s i js = (r, a) ->
  Forall (fun ft => vert_ok m (snd ft)) (p2v s) ->
  (forall j, In j js -> 0 <= 3 * i + j < zlen (triVerts m)) ->
  Forall in_bounds a /\
  (forall ps vs, r = Some (ps, vs) -> Forall (vert_ok m) ps /\ Forall (vert_ok m) vs /\ length ps = length vs).
Proof.
  intros m s i js. induction js as [|j js IH]; intros r a H Hp Hj.
  - cbn in H. injection H as Er Ea; subst r a. split; [constructor|].
    intros ps vs E. injection E as E1 E2; subst ps vs. repeat split; constructor.
  - cbn [corners] in H.
    remember (u32 (znth (triVerts m) (3 * i + j))) as vert eqn:Evert.
    assert (Hin0 : in_bounds (Acc ATriVerts (3 * i + j) (zlen (triVerts m)))).
    { cbn [in_bounds]. apply Hj. left. reflexivity. }
    destruct (bad CGe vert (numVert m)) eqn:Eb.
    + injection H as Er Ea; subst r a. split; [constructor; [exact Hin0 | constructor]|].
      intros ? ? E; discriminate.
    + cbn [bad] in Eb. apply Z.leb_gt in Eb.
      assert (Hv : vert_ok m vert).
      { unfold vert_ok. pose proof (u32_range (znth (triVerts m) (3 * i + j))) as Hr0.
        rewrite <- Evert in Hr0. lia. }
      destruct (corners CGe m s i js) as [r' a'] eqn:Er.
      specialize (IH r' a' eq_refl Hp (fun j' Hj' => Hj j' (or_intror Hj'))).
      destruct IH as [Ha Hr].
      assert (Hacc : Forall in_bounds (Acc ATriVerts (3 * i + j) (zlen (triVerts m)) ::
                       (if p2vOn s then [Acc AProp2Vert vert (numVert m)] else []) ++ a')).
      { constructor; [exact Hin0|]. apply Forall_app. split; [|exact Ha].
        destruct (p2vOn s); constructor; [exact Hv | constructor]. }
      destruct r' as [[ps vs]|]; injection H as Er' Ea'; subst r a; (split; [exact Hacc|]).
      * intros ps' vs' E. injection E as E1 E2; subst ps' vs'. destruct (Hr ps vs eq_refl) as [H1 [H2 H3]].
        split; [constructor; assumption|]. split.
        -- constructor; [|exact H2]. destruct (p2vOn s); [apply p2v_get_ok; assumption | exact Hv].
        -- cbn [length]. lia.
      * intros ? ? E; discriminate.
Qed.

Lemma tri_loop_ok : forall m s fuel i k fired k' a,
  tri_loop CGe m s i fuel k = (fired, k', a) ->
  Forall (fun ft => vert_ok m (snd ft)) (p2v s) ->
  0 <= i -> i + Z.of_nat fuel <= numTriI m -> 3 * numTriI m <= zlen (triVerts m) ->
  Forall (fun t => Forall (vert_ok m) (fst t) /\ Forall (vert_ok m) (snd t) /\ length (fst t) = length (snd t)) k ->
  Forall in_bounds a /\
  Forall (fun t => Forall (vert_ok m) (fst t) /\ Forall (vert_ok m) (snd t) /\ length (fst t) = length (snd t)) k'.
Proof.
  intros m s fuel. induction fuel as [|fuel IH]; intros i k fired k' a H Hp Hi Hn Hlen Hk.
  - cbn in H. inversion H; subst. split; [constructor | exact Hk].
  - cbn [tri_loop] in H.
    destruct (corners CGe m s i [0; 1; 2]) as [r a0] eqn:Ec.
    apply corners_ok in Ec; [| exact Hp | intros j Hj; cbn in Hj; lia].
    destruct Ec as [Ha0 Hr].
    destruct r as [[ps vs]|].
    + destruct (tri_loop CGe m s (i + 1) fuel (if nondegenerate vs then (ps, vs) :: k else k)) as [[fi kk] a'] eqn:Er.
      inversion H; subst.
      apply IH in Er; [| exact Hp | lia | lia | exact Hlen |].
      * destruct Er as [Ha' Hk']. split; [|exact Hk'].
        apply Forall_app. split; [exact Ha0|]. apply Forall_app. split; [|exact Ha'].
        destruct (nondegenerate vs); constructor; [cbn; lia | constructor].
      * destruct (nondegenerate vs); [constructor; [apply (Hr ps vs eq_refl) | exact Hk] | exact Hk].
    + inversion H; subst. split; [exact Ha0 | exact Hk].
Qed.

Lemma tri_loop_len : forall c m s fuel i k fired k' a,
  tri_loop c m s i fuel k = (fired, k', a) -> zlen k' <= zlen k + Z.of_nat fuel.
Proof.
  intros c m s fuel. induction fuel as [|fuel IH]; intros i k fired k' a H.
  - cbn in H. injection H as _ E _. subst k'. lia.
  - cbn [tri_loop] in H. destruct (corners c m s i [0; 1; 2]) as [r a0].
    destruct r as [[ps vs]|].
    + destruct (tri_loop c m s (i + 1) fuel (if nondegenerate vs then (ps, vs) :: k else k)) as [[fi kk] a'] eqn:Er.
      injection H as _ E _. subst k'. apply IH in Er.
      destruct (nondegenerate vs); [unfold zlen in *; cbn [length] in Er; lia | lia].
    + injection H as _ E _. subst k'. lia.
Qed.

Lemma run_accesses_ok : forall m s i,
  small m -> wf m ->
  zlen (ri s) = nRuns m + 1 -> hd 0 (ri s) = 0 -> last (ri s) 0 = runEnd m -> sortedb (ri s) = true ->
  (faceIDLen m = 0 \/ faceIDLen m = numTriI m) ->
  (rtLen m = 0 \/ 12 * runOrigLen m = rtLen m) ->
  0 <= i < nRuns m ->
  Forall in_bounds (run_accesses m s i).
Proof.
  intros m s i Hs Hwf Hlen Hhd Hlast Hsort Hface Hrt Hi.
  destruct (numTriI_small m Hs) as [Et Ht].
  assert (Hne : ri s <> []).
  { intro E. rewrite E in Hlen. unfold zlen in Hlen. cbn in Hlen. unfold nRuns in Hlen. lia. }
  assert (Hlenn : (length (ri s) = Z.to_nat (nRuns m + 1))%nat) by (unfold zlen in Hlen; lia).
  assert (Hn1 : 1 <= nRuns m) by (unfold nRuns; lia).
  (* 0 = ri[0] <= ri[i] <= ri[i+1] <= ri[last] = runEnd *)
  assert (H0 : nth 0 (ri s) 0 = 0) by (destruct (ri s); [congruence | exact Hhd]).
  assert (HL : nth (length (ri s) - 1) (ri s) 0 = runEnd m) by (rewrite <- last_nth by exact Hne; exact Hlast).
  assert (A : 0 <= znth (ri s) i).
  { unfold znth. pose proof (sorted_nth_mono (ri s) 0%nat (Z.to_nat i) Hsort) as Hm.
    rewrite H0 in Hm. apply Hm. lia. }
  assert (B : znth (ri s) i <= znth (ri s) (i + 1)).
  { unfold znth. apply sorted_nth_mono; [exact Hsort | lia]. }
  assert (C : znth (ri s) (i + 1) <= runEnd m).
  { unfold znth. pose proof (sorted_nth_mono (ri s) (Z.to_nat (i + 1)) (length (ri s) - 1)%nat Hsort) as Hm.
    rewrite HL in Hm. apply Hm. lia. }
  assert (Hlo : 0 <= znth (ri s) i / 3) by (apply Z.div_pos; lia).
  assert (Hhi : znth (ri s) (i + 1) / 3 <= numTriI m).
  { rewrite Et. unfold runEnd in C. apply Z.div_le_mono; lia. }
  unfold run_accesses. apply Forall_app. split.
  - constructor; [cbn; lia|]. constructor; [cbn; lia|]. constructor; [cbn; lia | constructor].
  - apply Forall_app. split.
    + destruct (faceIDLen m =? 0) eqn:Ef; [constructor|].
      apply Z.eqb_neq in Ef. constructor; [cbn; lia | constructor].
    + destruct (rtLen m =? 0) eqn:Er; [constructor|].
      apply Z.eqb_neq in Er. constructor; [|constructor].
      unfold wf in Hwf. unfold nRuns in Hi. cbn [in_bounds]. lia.
Qed.

Lemma vert_accesses_ok : forall m i, wf m -> small m -> 3 <= numProp m ->
  0 <= i < numVertI m -> Forall in_bounds (vert_accesses m i).
Proof.
  intros m i Hwf Hs Hp Hi.
  destruct (numVertI_small m Hwf Hs Hp) as [E [Hr [_ Hmul]]].
  destruct (np_small m Hwf Hs Hp) as [[Hn | Hz] Hn0]; [|lia].
  pose proof (propsLen_small m Hwf Hs Hp) as Hpl.
  assert (Hrow : numProp m * i + numProp m <= vpLen m) by nia.
  unfold vert_accesses.
  repeat (constructor; [cbn; try rewrite Hpl; nia|]). constructor.
Qed.

Lemma corner_accesses_ok : forall m pv, wf m -> small m -> 3 <= numProp m ->
  vert_ok m (fst pv) -> vert_ok m (snd pv) -> Forall in_bounds (corner_accesses m pv).
Proof.
  intros m [p v] Hwf Hs Hp Hpv Hvv. cbn [fst snd] in *.
  destruct (numVertI_small m Hwf Hs Hp) as [E [Hr [Env Hmul]]].
  destruct (np_small m Hwf Hs Hp) as [_ Hn0].
  pose proof (propsLen_small m Hwf Hs Hp) as Hpl.
  unfold vert_ok in *. rewrite Env in *.
  unfold corner_accesses; cbn [fst snd].
  constructor; [cbn; lia|]. constructor; [cbn; rewrite Hpl; nia | constructor].
Qed.

Lemma Forall_combine_ok : forall m (ps vs : list Z),
  Forall (vert_ok m) ps -> Forall (vert_ok m) vs ->
  Forall (fun pv => vert_ok m (fst pv) /\ vert_ok m (snd pv)) (combine ps vs).
Proof.
  intros m ps. induction ps as [|p ps IH]; intros vs Hp Hv; [constructor|].
  destruct vs as [|v vs]; [constructor|].
  inversion Hp; subst. inversion Hv; subst. cbn [combine]. constructor; [cbn; tauto | apply IH; assumption].
Qed.

(* ---------- one step ---------- *)
Ltac splits := repeat match goal with |- _ /\ _ => split end.

Lemma step_sound : forall (strong : bool) it f m o s oe s' a,
  wf m -> small m -> (if strong then 0 <= nFaceSort o else nFaceSort o <= numTriI m) ->
  needs strong f it = true -> holds f m s -> step it m o s = (oe, s', a) ->
  Forall in_bounds a /\ (oe = None -> holds (learn f it) m s').
Proof.
  intros strong it f m o s oe s' a Hwf Hs Ho Hneed Hh Hstep.
  destruct Hh as [HNP [HML [HTL [HFL [HTA [HSH [HMG [HTD [HPE HKL]]]]]]]]].
  destruct it as [r e | | c e | | | | | c e | e | kp | e]; cbn [step] in Hstep.
  - (* IRung *)
    injection Hstep as E1 E2 E3; subst. split; [constructor|]. intros Hn.
    destruct (cond r m s') eqn:Ec; [discriminate|].
    destruct r; cbn [learn]; unfold holds;
      cbn [fNumProp fMergeLen fTransLen fFaceLen fTanLen fNorm fShape fMergeGe fTriDone];
      (repeat match goal with |- _ /\ _ => split end); try assumption; intros _; cbn [cond] in Ec.
    + apply Z.ltb_ge in Ec. exact Ec.
    + apply negb_false_iff, Z.eqb_eq in Ec. exact Ec.
    + apply andb_false_iff in Ec. destruct Ec as [Ec | Ec]; apply negb_false_iff, Z.eqb_eq in Ec; [left | right]; exact Ec.
    + apply andb_false_iff in Ec. destruct Ec as [Ec | Ec]; apply negb_false_iff, Z.eqb_eq in Ec; [left | right]; exact Ec.
    + apply andb_false_iff in Ec. destruct Ec as [Ec | Ec]; apply negb_false_iff, Z.eqb_eq in Ec; [left | right]; exact Ec.
    + apply orb_false_iff in Ec. destruct Ec as [Ec E4]. apply orb_false_iff in Ec. destruct Ec as [Ec E3].
      apply orb_false_iff in Ec. destruct Ec as [E1 E2].
      apply negb_false_iff, Z.eqb_eq in E1. apply negb_false_iff, Z.eqb_eq in E2.
      apply negb_false_iff, Z.eqb_eq in E3. apply negb_false_iff in E4. tauto.
    + apply orb_false_iff in Ec. destruct Ec as [Ec E4]. apply orb_false_iff in Ec. destruct Ec as [Ec E3].
      apply orb_false_iff in Ec. destruct Ec as [E1 E2].
      apply negb_false_iff, Z.eqb_eq in E1. apply negb_false_iff, Z.eqb_eq in E2.
      apply negb_false_iff, Z.eqb_eq in E3. apply negb_false_iff in E4. apply strictb_sortedb in E4. tauto.
  - (* IComputeCounts *)
    injection Hstep as E1 E2 E3; subst. cbn [needs] in Hneed. specialize (HNP Hneed).
    split; [constructor; [cbn [in_bounds]; lia | constructor]|]. intros _. unfold holds; cbn [learn]. tauto.
  - (* IMergeLoop *)
    cbn [needs] in Hneed. apply andb_true_iff in Hneed. destruct Hneed as [Hf Hc].
    destruct c; [|discriminate]. pose proof (HML Hf) as HML'.
    destruct (zlen (mergeFrom m) =? 0).
    + injection Hstep as E1 E2 E3; subst. split; [constructor|]. intros _. unfold holds; cbn [learn]; cbn [fNumProp fMergeLen fTransLen fFaceLen fTanLen fNorm fShape fMergeGe fTriDone ri p2v p2vOn kept].
      splits; try assumption; try (intros; discriminate). intros _. cbn.
      destruct (fMergeGe f) eqn:E; [apply HMG; reflexivity|].
      rewrite (HPE eq_refl). constructor.
    + destruct (merge_loop CGe (numVert m) (zlen (mergeTo m)) (mergeTo m) 0 (mergeFrom m) []) as [[fired acc] a0] eqn:Em.
      injection Hstep as E1 E2 E3; subst.
      apply merge_loop_ok in Em; [| lia | lia | constructor].
      destruct Em as [Ha Hacc]. split; [exact Ha|]. intros _.
      unfold holds; cbn [learn]; cbn [fNumProp fMergeLen fTransLen fFaceLen fTanLen fNorm fShape fMergeGe fTriDone ri p2v p2vOn kept]. splits; try assumption; try (intros; discriminate). intros _. exact Hacc.
  - (* ICopyVerts *)
    injection Hstep as E1 E2 E3; subst. cbn [needs] in Hneed. specialize (HNP Hneed).
    split.
    + apply Forall_flat_map_intro. intros i Hi. apply in_zrange in Hi.
      apply vert_accesses_ok; assumption.
    + intros _. unfold holds; cbn [learn]. tauto.
  - (* ICopyTangents *)
    injection Hstep as E1 E2 E3; subst. destruct Hwf as [_ [_ [_ [_ [_ Htan]]]]]. split.
    + constructor; [|constructor; [|constructor]]; cbn [in_bounds]; intros Hlt.
      * split; [lia|]. change (4 * (tanLen m / 4) <= tanLen m). apply Z.mul_div_le. lia.
      * lia.
    + intros _. unfold holds; cbn [learn]. tauto.
  - (* INormaliseRuns *)
    injection Hstep as E1 E2 E3; subst. split; [constructor|]. intros _.
    unfold holds; cbn [learn]; cbn [fNumProp fMergeLen fTransLen fFaceLen fTanLen fNorm fShape fMergeGe fTriDone ri p2v p2vOn kept]. splits; try assumption; intros; discriminate.
  - (* IRunLoop *)
    injection Hstep as E1 E2 E3; subst. cbn [needs] in Hneed.
    apply andb_true_iff in Hneed. destruct Hneed as [Hneed Ht].
    apply andb_true_iff in Hneed. destruct Hneed as [Hsh Hfa].
    destruct (HSH Hsh) as [H1 [H2 [H3 H4]]]. split.
    + apply Forall_flat_map_intro. intros i Hi. apply in_zrange in Hi.
      apply run_accesses_ok; auto.
    + intros _. unfold holds; cbn [learn]. tauto.
  - (* ITriLoop *)
    cbn [needs] in Hneed. apply andb_true_iff in Hneed. destruct Hneed as [Hmg Hc].
    destruct c; [|discriminate]. pose proof (HMG Hmg) as HMG'.
    destruct (tri_loop CGe m s 0 (Z.to_nat (numTri m)) []) as [[fired k] a0] eqn:Et.
    injection Hstep as E1 E2 E3; subst.
    destruct (numTriI_small m Hs) as [Eq Hr]. pose proof (numTri_small m Hs) as Ent.
    pose proof (tri_loop_len _ _ _ _ _ _ _ _ _ Et) as Hlen.
    apply tri_loop_ok in Et; [| exact HMG' | lia | rewrite Ent; lia | | constructor].
    + destruct Et as [Ha Hk]. split; [exact Ha|]. intros _.
      unfold holds; cbn [learn]; cbn [fNumProp fMergeLen fTransLen fFaceLen fTanLen fNorm fShape fMergeGe fTriDone ri p2v p2vOn kept]. splits; try assumption.
      * intros _. exact Hk.
      * intros _. change (zlen (@nil (list Z * list Z))) with 0 in Hlen. rewrite Ent in Hlen. lia.
    + rewrite Eq. apply Z.mul_div_le. lia.
  - (* ICreateHalfedges *)
    injection Hstep as E1 E2 E3; subst. split; [constructor|]. intros _. unfold holds; cbn [learn]. tauto.
  - (* IPost *)
    injection Hstep as E1 E2 E3; subst. cbn [needs] in Hneed.
    apply andb_true_iff in Hneed. destruct Hneed as [Hneed Hkp].
    apply andb_true_iff in Hneed. destruct Hneed as [Hneed Hnp].
    apply andb_true_iff in Hneed. destruct Hneed as [Hta Htd].
    specialize (HNP Hnp). specialize (HTA Hta). pose proof (HTD Htd) as HTD'. specialize (HKL Htd). split.
    + unfold post_accesses. apply Forall_app. split.
      * apply Forall_flat_map_intro. intros t Ht. rewrite Forall_forall in HTD'.
        destruct (HTD' t Ht) as [Hp [Hv _]].
        apply Forall_flat_map_intro. intros pv Hpv.
        pose proof (Forall_combine_ok m _ _ Hp Hv) as Hc. rewrite Forall_forall in Hc.
        destruct (Hc pv Hpv). apply corner_accesses_ok; assumption.
      * destruct (tanLen m / 4 =? 0) eqn:E4; [constructor|]. apply Z.eqb_neq in E4.
        constructor; [|constructor]. cbn [in_bounds]. intros Hlt. split; [lia|].
        destruct (numTriI_small m Hs) as [Eq _].
        assert (HT : 3 * numTriI m <= tanLen m / 4).
        { destruct HTA as [HTA | HTA]; [rewrite HTA in E4; cbn in E4; congruence|].
          rewrite HTA.
          replace (4 * runEnd m / 4) with (runEnd m)
            by (symmetry; rewrite Z.mul_comm; apply Z.div_mul; lia).
          rewrite Eq. unfold runEnd. apply Z.mul_div_le. lia. }
        unfold tangents_at_sort.
        destruct (kp && (zlen (kept s') <? nFaceSort o)) eqn:Ek; [lia|].
        apply andb_false_iff in Ek. destruct strong.
        -- (* strong: DedupeEdge keeps the tangents; no face was added here *)
           cbn [negb orb] in Hkp. subst kp. destruct Ek as [Ek | Ek]; [discriminate|].
           apply Z.ltb_ge in Ek. lia.
        -- lia.
    + intros _. unfold holds; cbn [learn]. tauto.
  - (* ICancelGate *)
    injection Hstep as E1 E2 E3; subst. split; [constructor|]. intros _. unfold holds; cbn [learn]. tauto.
Qed.

(* ---------- the table ---------- *)
Lemma safe_run : forall (strong : bool) t f m o s,
  wf m -> small m -> (if strong then 0 <= nFaceSort o else nFaceSort o <= numTriI m) ->
  safe_from strong f t = true -> holds f m s -> Forall in_bounds (snd (run t m o s)).
Proof.
  intros strong. induction t as [|it t IH]; intros f m o s Hwf Hs Ho Hsafe Hh.
  - constructor.
  - cbn [safe_from] in Hsafe. apply andb_true_iff in Hsafe. destruct Hsafe as [Hn Hsafe].
    cbn [run]. destruct (step it m o s) as [[oe s'] a] eqn:Est.
    destruct (step_sound strong it f m o s oe s' a Hwf Hs Ho Hn Hh Est) as [Ha Hnext].
    destruct oe as [e|].
    + exact Ha.
    + specialize (IH (learn f it) m o s' Hwf Hs Ho Hsafe (Hnext eq_refl)).
      destruct (run t m o s') as [v a']. cbn [snd] in *. apply Forall_app. split; assumption.
Qed.

Lemma table_safe_in_bounds : forall t m o,
  wf m -> small m -> nFaceSort o <= numTriI m ->
  ladder_table_safe t = true -> Forall in_bounds (accesses t m o).
Proof.
  intros t m o Hwf Hs Ho Hsafe. unfold accesses.
  apply (safe_run false t facts0 m o (st0 m) Hwf Hs Ho Hsafe (holds0 m)).
Qed.

Lemma table_safe_strong_in_bounds : forall t m o,
  wf m -> small m -> 0 <= nFaceSort o ->
  ladder_table_safe_strong t = true -> Forall in_bounds (accesses t m o).
Proof.
  intros t m o Hwf Hs Ho Hsafe. unfold accesses.
  apply (safe_run true t facts0 m o (st0 m) Hwf Hs Ho Hsafe (holds0 m)).
Qed.

Lemma patched14_table_safe_strong : ladder_table_safe_strong patched14_table = true.
Proof. vm_compute. reflexivity. Qed.

(* without fix 14 the face-count hypothesis is needed: a torus whose DedupeEdge adds 6 faces *)
Lemma torus_refuted :
  ladder_table_safe patched_table = true /\ ladder_table_safe_strong patched_table = false /\
  ladder patched_table w_torus o_torus = Accepted /\ numTriI w_torus = 12 /\
  first_oob (accesses patched_table w_torus o_torus) = Some (AccRange ATangentInternal 0 54 36) /\
  first_oob (accesses patched14_table w_torus o_torus) = None.
Proof. repeat split; vm_compute; reflexivity. Qed.

Lemma cancel_first : forall t m o e, cancelled o = true -> ladder (ICancelGate e :: t) m o = Done e.
Proof. intros t m o e H. unfold ladder. cbn [run step]. rewrite H. reflexivity. Qed.

Lemma patched_table_safe : ladder_table_safe patched_table = true.
Proof. vm_compute. reflexivity. Qed.

Lemma pinned_table_unsafe : ladder_table_safe pinned_table = false.
Proof. vm_compute. reflexivity. Qed.

(* ---------- refutations on the pinned table ---------- *)
Lemma not_forall_of_first_oob : forall l a, first_oob l = Some a -> ~ Forall in_bounds l.
Proof.
  intros l a H HF. unfold first_oob in H. apply find_some in H. destruct H as [Hin Hb].
  rewrite Forall_forall in HF. specialize (HF a Hin). apply in_boundsb_ok in HF.
  rewrite HF in Hb. discriminate.
Qed.

Lemma wf_small_cube_like : forall ri ro tl np,
  0 <= np -> 0 <= ro -> 0 <= tl ->
  let m := mkMesh true np 24 true cube_tris [] [] ri ro 0 true 0 0 tl true in wf m /\ small m.
Proof.
  intros. unfold wf, small; cbn. repeat split; try lia; try (vm_compute; congruence).
Qed.

Lemma pinned_refuted_runindex :
  wf w_runindex /\ small w_runindex /\ nFaceSort o_cube <= numTriI w_runindex /\
  ladder pinned_table w_runindex o_cube = Accepted /\
  ~ Forall in_bounds (accesses pinned_table w_runindex o_cube).
Proof.
  split; [apply (wf_small_cube_like [0; 3036] 0 0 3); lia|].
  split; [apply (wf_small_cube_like [0; 3036] 0 0 3); lia|].
  split; [vm_compute; congruence|]. split; [vm_compute; reflexivity|].
  apply (not_forall_of_first_oob _ (AccRange ATriRef 0 1012 12)). vm_compute. reflexivity.
Qed.

Lemma pinned_refuted_tangent :
  wf w_tangent /\ small w_tangent /\ nFaceSort o_cube <= numTriI w_tangent /\
  ladder pinned_table w_tangent o_cube = Accepted /\
  ~ Forall in_bounds (accesses pinned_table w_tangent o_cube).
Proof.
  split; [apply (wf_small_cube_like [] 0 8 3); lia|].
  split; [apply (wf_small_cube_like [] 0 8 3); lia|].
  split; [vm_compute; congruence|]. split; [vm_compute; reflexivity|].
  apply (not_forall_of_first_oob _ (AccRange ATangentInternal 0 36 2)). vm_compute. reflexivity.
Qed.

Lemma pinned_refuted_runs_noindex :
  wf w_runs_noindex /\ small w_runs_noindex /\ nFaceSort o_cube <= numTriI w_runs_noindex /\
  ladder pinned_table w_runs_noindex o_cube = Accepted /\
  ~ Forall in_bounds (accesses pinned_table w_runs_noindex o_cube).
Proof.
  split; [apply (wf_small_cube_like [] 2 0 3); lia|].
  split; [apply (wf_small_cube_like [] 2 0 3); lia|].
  split; [vm_compute; congruence|]. split; [vm_compute; reflexivity|].
  apply (not_forall_of_first_oob _ (Acc ARunIndex 2 2)). vm_compute. reflexivity.
Qed.

Lemma pinned_refuted_numprop0 :
  wf w_numprop0 /\ small w_numprop0 /\
  ~ Forall in_bounds (accesses pinned_table w_numprop0 o_cube).
Proof.
  split; [apply (wf_small_cube_like [] 0 0 0); lia|].
  split; [apply (wf_small_cube_like [] 0 0 0); lia|].
  apply (not_forall_of_first_oob _ (Acc ADivisorNumProp 0 0)). vm_compute. reflexivity.
Qed.

(* ---------- verdicts ---------- *)
(* An item "fires" with e in state s when its step returns Some e. *)
Definition fires (it : item) (m : meshgl) (o : oracle) (s : st) : option error :=
  fst (fst (step it m o s)).
Definition next_st (it : item) (m : meshgl) (o : oracle) (s : st) : st :=
  snd (fst (step it m o s)).

Fixpoint states (t : list item) (m : meshgl) (o : oracle) (s : st) : list st :=
  match t with [] => [] | it :: t' => s :: states t' m o (next_st it m o s) end.

(* Done e  <->  some item fires with e and no earlier item fires; Accepted <-> none fires *)
Lemma run_first_firing : forall t m o s,
  match fst (run t m o s) with
  | Done e => exists pre it post sp,
      t = pre ++ it :: post /\
      Forall2 (fun it' s' => fires it' m o s' = None) pre (firstn (length pre) (states t m o s)) /\
      nth_error (states t m o s) (length pre) = Some sp /\ fires it m o sp = Some e
  | Accepted => Forall2 (fun it' s' => fires it' m o s' = None) t (states t m o s)
  end.
Proof.
  induction t as [|it t IH]; intros m o s.
  - cbn. constructor.
  - cbn [run states]. unfold fires at 1, next_st.
    destruct (step it m o s) as [[oe s'] a] eqn:Est. cbn [fst snd].
    destruct oe as [e|].
    + cbn [fst]. exists [], it, t, s. cbn [app length firstn nth_error].
      split; [reflexivity|]. split; [constructor|]. split; [reflexivity|].
      unfold fires. rewrite Est. reflexivity.
    + specialize (IH m o s'). destruct (run t m o s') as [v a']. cbn [fst] in *.
      destruct v as [e|].
      * destruct IH as [pre [it' [post [sp [Et [Hpre [Hnth Hf]]]]]]].
        exists (it :: pre), it', post, sp. subst t. cbn [app length firstn nth_error].
        splits; try assumption; [reflexivity|].
        constructor; [|exact Hpre]. unfold fires. rewrite Est. reflexivity.
      * constructor; [|exact IH]. unfold fires. rewrite Est. reflexivity.
Qed.

(* a table consisting of rungs only: the verdict is the first rung whose condition holds *)
Fixpoint first_rung (rs : list (rung * error)) (m : meshgl) (s : st) : verdict :=
  match rs with
  | [] => Accepted
  | (r, e) :: rs' => if cond r m s then Done e else first_rung rs' m s
  end.

Lemma rungs_only_first : forall rs m o s,
  fst (run (map (fun re => IRung (fst re) (snd re)) rs) m o s) = first_rung rs m s.
Proof.
  induction rs as [|[r e] rs IH]; intros m o s; [reflexivity|].
  cbn [map run step fst snd first_rung]. destruct (cond r m s); [reflexivity|].
  specialize (IH m o s). destruct (run (map (fun re => IRung (fst re) (snd re)) rs) m o s). exact IH.
Qed.

Lemma example_cube :
  wf cube_mesh /\ small cube_mesh /\ ladder patched_table cube_mesh o_cube = Accepted /\
  ladder pinned_table cube_mesh o_cube = Accepted /\
  List.length (accesses patched_table cube_mesh o_cube) = 174%nat.
Proof.
  split; [apply (wf_small_cube_like [] 0 0 3); lia|].
  split; [apply (wf_small_cube_like [] 0 0 3); lia|].
  repeat split; vm_compute; reflexivity.
Qed.
