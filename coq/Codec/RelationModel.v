(* C07 -- lemmas about the model in RelationDefs.v *)
From Coq Require Import ZArith List Bool Lia Sorted Permutation Sorting.Mergesort QArith Qfield.
From MV Require Import Codec.RelationDefs.
Import ListNotations.
Local Open Scope Z_scope.

(* ================================================================ maps *)
Section MapFacts.
  Context {V : Type}.
  Implicit Types m : zmap V.

  Lemma asc_lb : forall l a, asc (a :: l) -> Forall (fun b => a < b) l.
  Proof.
    induction l as [|b l IH]; intros a H; [constructor|].
    destruct H as [Hab Hl]. constructor; [exact Hab|].
    specialize (IH b Hl). eapply Forall_impl; [|exact IH]. intros; cbn in *; lia.
  Qed.

  Lemma asc_tl : forall l a, asc (a :: l) -> asc l.
  Proof. intros l a [_ H]; exact H. Qed.

  Lemma asc_NoDup : forall l, asc l -> NoDup l.
  Proof.
    induction l as [|a l IH]; intros H; [constructor|].
    constructor; [|apply IH; eapply asc_tl; eauto].
    intro Hin. pose proof (asc_lb _ _ H) as F. rewrite Forall_forall in F. specialize (F _ Hin). lia.
  Qed.

  Lemma asc_b_ok : forall l, asc_b l = true <-> asc l.
  Proof.
    induction l as [|a l IH]; cbn [asc asc_b]; [tauto|].
    rewrite andb_true_iff, IH. destruct l; [tauto|]. rewrite Z.ltb_lt. tauto.
  Qed.

  Lemma m_find_In : forall m k v, m_find k m = Some v -> In (k, v) m.
  Proof.
    induction m as [|[k' v'] m IH]; cbn; intros k v H; [discriminate|].
    destruct (k =? k') eqn:E; [apply Z.eqb_eq in E; inversion H; subst; now left|right; auto].
  Qed.

  Lemma In_m_find : forall m k v, NoDup (m_keys m) -> In (k, v) m -> m_find k m = Some v.
  Proof.
    induction m as [|[k' v'] m IH]; cbn; intros k v ND H; [tauto|].
    inversion ND as [|? ? Hn ND']; subst.
    destruct H as [H|H].
    - inversion H; subst. now rewrite Z.eqb_refl.
    - destruct (k =? k') eqn:E; [|auto].
      apply Z.eqb_eq in E; subst. exfalso; apply Hn. change k' with (fst (k', v)). now apply in_map.
  Qed.

  Lemma m_find_keys : forall m k, In k (m_keys m) <-> exists v, m_find k m = Some v.
  Proof.
    induction m as [|[k' v'] m IH]; cbn; intros k.
    - split; [tauto|intros [v H]; discriminate].
    - destruct (k =? k') eqn:E.
      + apply Z.eqb_eq in E; subst. split; eauto.
      + apply Z.eqb_neq in E. rewrite <- IH. split; [intros [H|H]; [congruence|auto]|auto].
  Qed.

  Lemma m_find_erase_neq : forall m k k', k <> k' -> m_find k (m_erase k' m) = m_find k m.
  Proof.
    induction m as [|[k2 v2] m IH]; cbn; intros k k' Hne; [reflexivity|].
    destruct (k' =? k2) eqn:E.
    - apply Z.eqb_eq in E; subst. destruct (k =? k2) eqn:E2; [apply Z.eqb_eq in E2; lia|reflexivity].
    - cbn. rewrite IH by exact Hne. reflexivity.
  Qed.

  Lemma m_erase_incl : forall m k x, In x (m_erase k m) -> In x m.
  Proof.
    induction m as [|[k2 v2] m IH]; cbn; intros k x H; [tauto|].
    destruct (k =? k2); [now right|]. destruct H as [H|H]; [now left|right; eauto].
  Qed.

  Lemma m_erase_keys_perm : forall m k, In k (m_keys m) -> Permutation (k :: m_keys (m_erase k m)) (m_keys m).
  Proof.
    induction m as [|[k2 v2] m IH]; cbn; intros k H; [tauto|].
    destruct (k =? k2) eqn:E.
    - apply Z.eqb_eq in E; subst. reflexivity.
    - apply Z.eqb_neq in E. destruct H as [H|H]; [congruence|]. cbn.
      rewrite perm_swap. constructor. now apply IH.
  Qed.

  Lemma m_erase_asc : forall m k, map_ok m -> map_ok (m_erase k m).
  Proof.
    unfold map_ok. induction m as [|[k2 v2] m IH]; cbn [m_erase m_keys map]; intros k H; [exact H|].
    destruct (k =? k2); [eapply asc_tl; exact H|].
    cbn [m_keys map fst]. pose proof (asc_lb _ _ H) as F. pose proof (IH k (asc_tl _ _ H)) as A.
    cbn [asc]. split; [|exact A].
    destruct (m_erase k m) as [|[k3 v3] r] eqn:Er; [exact I|]. cbn.
    rewrite Forall_forall in F. apply F.
    assert (In (k3, v3) m) by (eapply m_erase_incl; rewrite Er; now left).
    change k3 with (fst (k3, v3)). now apply in_map.
  Qed.

  Lemma m_erase_notin : forall m k, NoDup (m_keys m) -> ~ In k (m_keys (m_erase k m)).
  Proof.
    induction m as [|[k2 v2] m IH]; cbn; intros k ND; [tauto|].
    inversion ND; subst. destruct (k =? k2) eqn:E.
    - apply Z.eqb_eq in E; subst. assumption.
    - apply Z.eqb_neq in E. cbn. intros [H|H]; [congruence|]. eapply IH; eauto.
  Qed.

  (* m_set on an ascending list *)
  Lemma m_find_set : forall m k v k', m_find k' (m_set k v m) = if k' =? k then Some v else m_find k' m.
  Proof.
    induction m as [|[k2 v2] m IH]; cbn; intros k v k'.
    - reflexivity.
    - destruct (k <? k2) eqn:E1; cbn.
      + reflexivity.
      + destruct (k =? k2) eqn:E2; cbn.
        * apply Z.eqb_eq in E2; subst. destruct (k' =? k2); reflexivity.
        * rewrite IH. destruct (k' =? k2) eqn:E3; [|reflexivity].
          apply Z.eqb_eq in E3; subst. rewrite Z.eqb_sym, E2. reflexivity.
  Qed.

  Lemma m_set_keys_in : forall m k v x, In x (m_keys (m_set k v m)) <-> x = k \/ In x (m_keys m).
  Proof.
    unfold m_keys. induction m as [|[k2 v2] m IH]; cbn [m_set map fst In]; intros k v x; [intuition|].
    destruct (k <? k2) eqn:E1; cbn [map fst In]; [intuition|].
    destruct (k =? k2) eqn:E2; cbn [map fst In].
    - apply Z.eqb_eq in E2; subst. intuition.
    - rewrite IH. intuition.
  Qed.

  Lemma m_set_asc : forall m k v, map_ok m -> map_ok (m_set k v m).
  Proof.
    unfold map_ok. induction m as [|[k2 v2] m IH]; cbn [m_set]; intros k v H; [cbn; tauto|].
    destruct (k <? k2) eqn:E1.
    - apply Z.ltb_lt in E1. cbn. cbn in H. tauto.
    - apply Z.ltb_ge in E1. destruct (k =? k2) eqn:E2.
      + apply Z.eqb_eq in E2; subst. exact H.
      + apply Z.eqb_neq in E2. pose proof (IH k v (asc_tl _ _ H)) as A.
        pose proof (asc_lb _ _ H) as F. cbn [m_keys map fst asc]. split; [|exact A].
        destruct (m_set k v m) as [|[k3 v3] r] eqn:Es; [exact I|]. cbn.
        assert (Hin : In k3 (m_keys (m_set k v m))) by (rewrite Es; now left).
        apply m_set_keys_in in Hin. destruct Hin as [->|Hin]; [lia|].
        rewrite Forall_forall in F. now apply F.
  Qed.

  (* inserting strictly larger keys in order appends *)
  Lemma m_set_append : forall m k v, Forall (fun x => x < k) (m_keys m) -> m_set k v m = m ++ [(k, v)].
  Proof.
    induction m as [|[k2 v2] m IH]; cbn; intros k v F; [reflexivity|].
    inversion F; subst. cbn in *.
    destruct (k <? k2) eqn:E1; [apply Z.ltb_lt in E1; lia|].
    destruct (k =? k2) eqn:E2; [apply Z.eqb_eq in E2; lia|]. now rewrite IH.
  Qed.
End MapFacts.

(* ================================================================ iota *)
Lemma iota_length : forall n s, length (iota s n) = n.
Proof. induction n; cbn; intros; [reflexivity|now rewrite IHn]. Qed.

Lemma iota_In : forall n s x, In x (iota s n) <-> s <= x < s + Z.of_nat n.
Proof.
  induction n; intros s x; cbn [iota In].
  - lia.
  - rewrite IHn. lia.
Qed.

Lemma iota_asc : forall n s, asc (iota s n).
Proof.
  induction n; intros s; cbn [iota asc]; [exact I|]. split; [|apply IHn].
  destruct n; cbn; [exact I|lia].
Qed.

Lemma iota_nth : forall n s i, (i < n)%nat -> nth_error (iota s n) i = Some (s + Z.of_nat i).
Proof.
  induction n; intros s i H; [lia|]. destruct i; cbn [iota nth_error].
  - f_equal; lia.
  - rewrite IHn by lia. f_equal; lia.
Qed.

Lemma combine_iota_nth : forall A (l : list A) s i x,
  In (i, x) (combine (iota s (length l)) l) -> s <= i /\ nth_error l (Z.to_nat (i - s)) = Some x.
Proof.
  induction l as [|a l IH]; cbn; intros s i x H; [tauto|].
  destruct H as [H|H].
  - inversion H; subst. rewrite Z.sub_diag. cbn. split; [lia|reflexivity].
  - apply IH in H. destruct H as [Hle Hn]. split; [lia|].
    replace (Z.to_nat (i - s)) with (S (Z.to_nat (i - (s + 1)))) by lia. exact Hn.
Qed.

Lemma map_fst_combine_iota : forall A (l : list A) s, map fst (combine (iota s (length l)) l) = iota s (length l).
Proof. induction l; cbn; intros; [reflexivity|now rewrite IHl]. Qed.

Lemma map_snd_combine_iota : forall A (l : list A) s, map snd (combine (iota s (length l)) l) = l.
Proof. induction l; cbn; intros; [reflexivity|now rewrite IHl]. Qed.

(* ================================================================ the sort *)
(* the order on TriRef the comparator induces: not (b < a) *)
Definition ref_le (a b : TriRef) : Prop :=
  originalID a < originalID b \/ (originalID a = originalID b /\ meshID a <= meshID b).
(* the total order (originalID, meshID, index) *)
Definition key3_lt (x y : Z * TriRef) : Prop :=
  let (i, a) := x in let (j, b) := y in
  originalID a < originalID b \/ (originalID a = originalID b /\
    (meshID a < meshID b \/ (meshID a = meshID b /\ i < j))).
Definition key3_le (x y : Z * TriRef) : Prop := key3_lt x y \/ (fst x = fst y /\ originalID (snd x) = originalID (snd y) /\ meshID (snd x) = meshID (snd y)).

Lemma tri_less_spec : forall a b, tri_less a b = true <->
  (originalID a < originalID b \/ (originalID a = originalID b /\ meshID a < meshID b)).
Proof.
  intros a b; unfold tri_less. destruct (originalID a =? originalID b) eqn:E.
  - apply Z.eqb_eq in E. rewrite Z.ltb_lt. lia.
  - apply Z.eqb_neq in E. rewrite Z.ltb_lt. lia.
Qed.

Lemma leb_spec : forall x y, TriOrder.leb x y = true <-> key3_le x y.
Proof.
  intros [i a] [j b]. unfold TriOrder.leb, key3_le, key3_lt. cbn [fst snd].
  destruct (tri_less a b) eqn:E1.
  - apply tri_less_spec in E1. split; [intros _; lia|reflexivity].
  - destruct (tri_less b a) eqn:E2.
    + apply tri_less_spec in E2. split; [discriminate|lia].
    + assert (N1 : ~ (originalID a < originalID b \/ (originalID a = originalID b /\ meshID a < meshID b)))
        by (rewrite <- tri_less_spec; congruence).
      assert (N2 : ~ (originalID b < originalID a \/ (originalID b = originalID a /\ meshID b < meshID a)))
        by (rewrite <- tri_less_spec; congruence).
      rewrite Z.leb_le. lia.
Qed.

Lemma leb_trans : RelationClasses.Transitive (fun x y => is_true (TriOrder.leb x y)).
Proof.
  intros x y z H1 H2. unfold is_true in *. rewrite leb_spec in *.
  destruct x as [i a], y as [j b], z as [k c]. unfold key3_le, key3_lt in *. cbn [fst snd] in *. lia.
Qed.

Lemma sort_tris_perm : forall refs, Permutation (combine (iota 0 (length refs)) refs) (sort_tris false refs).
Proof. intros; apply TriSort.Permuted_sort. Qed.

Lemma sort_tris_sorted : forall refs, StronglySorted key3_le (sort_tris false refs).
Proof.
  intros refs. pose proof (TriSort.StronglySorted_sort (combine (iota 0 (length refs)) refs) leb_trans) as H.
  unfold sort_tris. induction H; constructor; [assumption|].
  eapply Forall_impl; [|eassumption]. intros y Hy. apply leb_spec. exact Hy.
Qed.

Lemma sort_tris_length : forall b refs, length (sort_tris b refs) = length refs.
Proof.
  intros [|] refs; unfold sort_tris.
  - rewrite combine_length, iota_length. lia.
  - rewrite <- (Permutation_length (TriSort.Permuted_sort _)), combine_length, iota_length. lia.
Qed.

(* indices are distinct, so on the sorted list the order is strict *)
Lemma sort_tris_strict : forall refs, StronglySorted key3_lt (sort_tris false refs).
Proof.
  intros refs.
  assert (ND : NoDup (map fst (sort_tris false refs))).
  { eapply Permutation_NoDup; [apply Permutation_map, sort_tris_perm|].
    rewrite map_fst_combine_iota. apply asc_NoDup, iota_asc. }
  pose proof (sort_tris_sorted refs) as S. revert ND.
  induction S as [|x l S IH F]; intros ND; [constructor|].
  cbn in ND. inversion ND as [|? ? Hn ND']; subst. constructor; [auto|].
  rewrite Forall_forall in *. intros y Hy. destruct (F y Hy) as [H|[H _]]; [exact H|].
  exfalso; apply Hn. rewrite H. now apply in_map.
Qed.

(* two lists sorted for the same strict total order with the same elements are equal *)
Lemma key3_lt_irrefl : forall x, ~ key3_lt x x.
Proof. intros [i a]; cbn; lia. Qed.
Lemma key3_lt_trans : forall x y z, key3_lt x y -> key3_lt y z -> key3_lt x z.
Proof. intros [i a] [j b] [k c]; cbn; lia. Qed.

Lemma strict_sorted_unique : forall (l1 l2 : list (Z * TriRef)),
  StronglySorted key3_lt l1 -> StronglySorted key3_lt l2 -> Permutation l1 l2 -> l1 = l2.
Proof.
  induction l1 as [|x l1 IH]; intros l2 S1 S2 P.
  - apply Permutation_nil in P. now subst.
  - destruct l2 as [|y l2]; [apply Permutation_sym, Permutation_nil in P; discriminate|].
    inversion S1 as [|? ? S1' F1]; inversion S2 as [|? ? S2' F2]; subst.
    rewrite Forall_forall in F1, F2.
    assert (x = y).
    { assert (Hx : In x (y :: l2)) by (eapply Permutation_in; [exact P|now left]).
      assert (Hy : In y (x :: l1)) by (eapply Permutation_in; [apply Permutation_sym; exact P|now left]).
      destruct Hx as [Hx|Hx]; [now subst|]. destruct Hy as [Hy|Hy]; [now subst|].
      exfalso. apply (key3_lt_irrefl x). eapply key3_lt_trans; [apply F1; exact Hy|apply F2; exact Hx]. }
    subst y. f_equal. apply IH; auto. eapply Permutation_cons_inv; exact P.
Qed.

Lemma StronglySorted_impl : forall A (R S : A -> A -> Prop) l,
  (forall x y, R x y -> S x y) -> StronglySorted R l -> StronglySorted S l.
Proof.
  intros A R S l H HS. induction HS; constructor; [assumption|].
  eapply Forall_impl; [|eassumption]. intros; now apply H.
Qed.

(* std::stable_sort's contract pins down exactly the list the model computes:
   any rearrangement l of the (index, ref) pairs that is sorted for the
   comparator (no later element is tri_less than an earlier one) and stable
   (elements the comparator cannot distinguish keep their index order) is
   sort_tris. *)
Definition stable_sorted (x y : Z * TriRef) : Prop :=
  tri_less (snd y) (snd x) = false /\ (tri_less (snd x) (snd y) = false -> fst x < fst y).

Lemma stable_sort_unique_l : forall refs (l : list (Z * TriRef)),
  Permutation (combine (iota 0 (length refs)) refs) l ->
  StronglySorted stable_sorted l ->
  l = sort_tris false refs.
Proof.
  intros refs l P S. apply strict_sorted_unique.
  - eapply StronglySorted_impl; [|exact S].
    intros [i a] [j b] [H1 H2]. cbn [fst snd] in *.
    destruct (tri_less a b) eqn:E.
    + apply tri_less_spec in E. cbn. lia.
    + specialize (H2 eq_refl).
      assert (N1 : ~ (originalID a < originalID b \/ (originalID a = originalID b /\ meshID a < meshID b)))
        by (rewrite <- tri_less_spec; congruence).
      assert (N2 : ~ (originalID b < originalID a \/ (originalID b = originalID a /\ meshID b < meshID a)))
        by (rewrite <- tri_less_spec; congruence).
      cbn. lia.
  - apply sort_tris_strict.
  - eapply Permutation_trans; [apply Permutation_sym; exact P|apply sort_tris_perm].
Qed.

(* and the model's list does satisfy that contract *)
Lemma sort_tris_stable : forall refs, StronglySorted stable_sorted (sort_tris false refs).
Proof.
  intros refs. eapply StronglySorted_impl; [|apply sort_tris_strict].
  intros [i a] [j b] H. unfold stable_sorted, key3_lt in *. cbn [fst snd] in *.
  split.
  - destruct (tri_less b a) eqn:E; [|reflexivity]. apply tri_less_spec in E. lia.
  - intros E.
    assert (N1 : ~ (originalID a < originalID b \/ (originalID a = originalID b /\ meshID a < meshID b)))
      by (rewrite <- tri_less_spec; congruence). lia.
Qed.

(* every pair of the sorted list is (old index, the ref at that index) *)
Lemma sort_tris_pairs : forall b refs i r, In (i, r) (sort_tris b refs) -> 0 <= i /\ nth_error refs (Z.to_nat i) = Some r.
Proof.
  intros b refs i r H.
  assert (H' : In (i, r) (combine (iota 0 (length refs)) refs)).
  { destruct b; [exact H|]. eapply Permutation_in; [apply Permutation_sym, sort_tris_perm|exact H]. }
  apply combine_iota_nth in H'. now rewrite Z.sub_0_r in H'.
Qed.

Lemma sort_tris_indices : forall b refs, Permutation (map fst (sort_tris b refs)) (iota 0 (length refs)).
Proof.
  intros b refs. rewrite <- (map_fst_combine_iota _ refs 0).
  destruct b; [reflexivity|]. apply Permutation_map, Permutation_sym, sort_tris_perm.
Qed.

Lemma sort_tris_refs : forall b refs, Permutation (map snd (sort_tris b refs)) refs.
Proof.
  intros b refs. rewrite <- (map_snd_combine_iota _ refs 0) at 2.
  destruct b; [reflexivity|]. apply Permutation_map, Permutation_sym, sort_tris_perm.
Qed.

Lemma sorted_refs_le : forall refs, StronglySorted ref_le (map snd (sort_tris false refs)).
Proof.
  intros refs. pose proof (sort_tris_strict refs) as S.
  induction S as [|x l S IH F]; cbn; constructor; [assumption|].
  rewrite Forall_forall in *. intros b Hb. apply in_map_iff in Hb. destruct Hb as [[j b'] [<- Hb]].
  specialize (F _ Hb). destruct x as [i a]. unfold ref_le; cbn in *. lia.
Qed.

(* ================================================================ runs *)
(* run-length blocks (key, count-1) of the meshID sequence *)
Fixpoint expand (bs : list (Z * nat)) : list Z :=
  match bs with [] => [] | (k, c) :: bs' => repeat k (S c) ++ expand bs' end.
Fixpoint adjdist (l : list Z) : Prop :=
  match l with [] => True | a :: l' => (match l' with [] => True | b :: _ => a <> b end) /\ adjdist l' end.

Lemma blocks_exist : forall ids, exists bs, ids = expand bs /\ adjdist (map fst bs) /\
   (match ids, bs with [], [] => True | a :: _, (k, _) :: _ => a = k | _, _ => False end).
Proof.
  induction ids as [|a ids IH]; [exists []; cbn; auto|].
  destruct IH as [bs [E [A Hd]]].
  destruct ids as [|b ids].
  - destruct bs; [|destruct p; contradiction]. exists [(a, 0%nat)]. cbn. auto.
  - destruct bs as [|[k c] bs]; [contradiction|]. subst k.
    destruct (Z.eq_dec a b) as [->|Hne].
    + exists ((b, S c) :: bs). cbn in *. rewrite E. auto.
    + exists ((a, 0%nat) :: (b, c) :: bs). cbn in *. rewrite E. auto.
Qed.

Section RunFacts.
  Context {T : Type}.
  Variable tid : T.
  Notation rmap := (zmap (Relation T)).

  Definition find_or_default (k : Z) (m : rmap) : Relation T :=
    match m_find k m with Some r => r | None => default_rel tid end.

  Fixpoint mk_runs (m : rmap) (tri : Z) (bs : list (Z * nat)) : list (Run T) :=
    match bs with
    | [] => []
    | (k, c) :: bs' => mkRun tri k (find_or_default k m) :: mk_runs (m_erase k m) (tri + Z.of_nat (S c)) bs'
    end.
  Definition erase_all (ks : list Z) (m : rmap) : rmap := fold_left (fun a k => m_erase k a) ks m.

  Lemma run_loop_same : forall refs1 refs2 (m : rmap) k tri,
    Forall (fun r => meshID r = k) refs1 ->
    run_loop tid m k tri (refs1 ++ refs2) = run_loop tid m k (tri + Z.of_nat (length refs1)) refs2.
  Proof.
    induction refs1 as [|r refs1 IH]; intros refs2 m k tri F.
    - cbn. f_equal. lia.
    - inversion F; subst. cbn [app run_loop]. rewrite Z.eqb_refl. rewrite IH by assumption.
      f_equal. cbn [length]. lia.
  Qed.

  Lemma map_eq_repeat : forall (refs : list TriRef) k n, map meshID refs = repeat k n ->
    Forall (fun r => meshID r = k) refs /\ length refs = n.
  Proof.
    induction refs as [|r refs IH]; intros k n H; destruct n; cbn in H; try discriminate; [auto|].
    inversion H. destruct (IH _ _ H2). split; [constructor; auto|cbn; congruence].
  Qed.

  Lemma run_loop_blocks : forall bs refs (m : rmap) last tri,
    map meshID refs = expand bs -> adjdist (last :: map fst bs) ->
    run_loop tid m last tri refs = (mk_runs m tri bs, erase_all (map fst bs) m).
  Proof.
    induction bs as [|[k c] bs IH]; intros refs m last tri E A.
    - cbn in E. apply map_eq_nil in E. subst. reflexivity.
    - cbn [expand] in E. apply map_eq_app in E. destruct E as [r1 [r2 [-> [E1 E2]]]].
      destruct r1 as [|r r1]; [discriminate|]. cbn [repeat map] in E1. inversion E1 as [[Hk E1']].
      apply map_eq_repeat in E1'. destruct E1' as [F L].
      cbn [map fst adjdist] in A. destruct A as [Hne A].
      cbn [app run_loop]. rewrite Hk.
      destruct (k =? last) eqn:Ek; [apply Z.eqb_eq in Ek; congruence|].
      rewrite run_loop_same by (rewrite <- Hk; exact F).
      rewrite (IH r2 (m_erase k m) k) by (auto; cbn [adjdist]; exact A).
      cbn [mk_runs map fst]. unfold find_or_default, erase_all. cbn [fold_left].
      replace (tri + 1 + Z.of_nat (length r1)) with (tri + Z.of_nat (S c)) by lia. reflexivity.
  Qed.

  (* ---- extents of the runs *)
  Lemma extents_nil : forall n, extents (T:=T) [] n = [].
  Proof. reflexivity. Qed.
  Lemma extents_one : forall (r : Run T) n, extents [r] n = [(r, n)].
  Proof. reflexivity. Qed.
  Lemma extents_cons2 : forall (r r' : Run T) rs n, extents (r :: r' :: rs) n = (r, r_start r') :: extents (r' :: rs) n.
  Proof. reflexivity. Qed.

  Lemma extents_all_n : forall (rs : list (Run T)) n, Forall (fun r => r_start r = n) rs ->
    extents rs n = map (fun r => (r, n)) rs.
  Proof.
    induction rs as [|r rs IH]; intros n F; [reflexivity|].
    inversion F as [|? ? Hr F']; subst. destruct rs as [|r' rs]; [reflexivity|].
    rewrite extents_cons2, IH by assumption. inversion F'; subst. cbn [map]. congruence.
  Qed.

  Fixpoint total (tri : Z) (bs : list (Z * nat)) : Z :=
    match bs with [] => tri | (_, c) :: bs' => total (tri + Z.of_nat (S c)) bs' end.
  Fixpoint mk_ext (m : rmap) (tri : Z) (bs : list (Z * nat)) : list (Run T * Z) :=
    match bs with
    | [] => []
    | (k, c) :: bs' => (mkRun tri k (find_or_default k m), tri + Z.of_nat (S c))
                       :: mk_ext (m_erase k m) (tri + Z.of_nat (S c)) bs'
    end.

  Lemma total_expand : forall bs tri, total tri bs = tri + Z.of_nat (length (expand bs)).
  Proof.
    induction bs as [|[k c] bs IH]; intros tri; cbn [total expand]; [cbn; lia|].
    rewrite IH, app_length, repeat_length. lia.
  Qed.

  Lemma ext_runs : forall bs (m : rmap) tri rs2 n,
    Forall (fun r => r_start r = n) rs2 -> total tri bs = n ->
    extents (mk_runs m tri bs ++ rs2) n = mk_ext m tri bs ++ map (fun r => (r, n)) rs2.
  Proof.
    induction bs as [|[k c] bs IH]; intros m tri rs2 n F Ht.
    - cbn. now apply extents_all_n.
    - cbn [mk_runs mk_ext total app] in *.
      specialize (IH (m_erase k m) (tri + Z.of_nat (S c)) rs2 n F Ht).
      destruct (mk_runs (m_erase k m) (tri + Z.of_nat (S c)) bs ++ rs2) as [|r' rest] eqn:E.
      + destruct bs as [|[k' c'] bs]; [|discriminate]. cbn in E. subst rs2. cbn in *. subst n. reflexivity.
      + rewrite extents_cons2, IH. f_equal. f_equal.
        destruct bs as [|[k' c'] bs].
        * cbn in E. subst rs2. inversion F as [|? ? Hr' F']. cbn in Ht. cbn. lia.
        * cbn in E. inversion E. reflexivity.
  Qed.

  Lemma mk_ext_elems : forall bs (m : rmap) tri, NoDup (map fst bs) ->
    Forall (fun re => In (r_key (fst re)) (map fst bs) /\ r_rel (fst re) = find_or_default (r_key (fst re)) m /\
                      r_start (fst re) < snd re /\ tri <= r_start (fst re)) (mk_ext m tri bs).
  Proof.
    induction bs as [|[k c] bs IH]; intros m tri ND; [constructor|].
    cbn [map fst] in ND. inversion ND as [|? ? Hn ND']; subst.
    cbn [mk_ext]. constructor.
    - cbn. split; [now left|]. split; [reflexivity|lia].
    - eapply Forall_impl; [|apply IH; exact ND']. intros [r e] [Hk [Hr [Hs Ht]]]. cbn [fst snd] in *.
      repeat split; [now right| |assumption|lia].
      rewrite Hr. unfold find_or_default. rewrite m_find_erase_neq; [reflexivity|]. intros Heq. rewrite Heq in Hk. contradiction.
  Qed.

  Lemma mk_ext_own : forall bs (m : rmap) tri t id, nth_error (expand bs) t = Some id ->
    exists run e, In (run, e) (mk_ext m tri bs) /\ r_start run <= tri + Z.of_nat t < e /\ r_key run = id.
  Proof.
    induction bs as [|[k c] bs IH]; intros m tri t id H.
    - destruct t; discriminate.
    - cbn [expand] in H. destruct (Nat.lt_ge_cases t (S c)) as [Hlt|Hge].
      + rewrite nth_error_app1 in H by (rewrite repeat_length; exact Hlt).
        apply nth_error_In, repeat_spec in H. subst id.
        eexists; eexists; split; [cbn [mk_ext]; left; reflexivity|]. cbn. lia.
      + rewrite nth_error_app2 in H by (rewrite repeat_length; exact Hge). rewrite repeat_length in H.
        destruct (IH (m_erase k m) (tri + Z.of_nat (S c)) _ _ H) as [run [e [Hin [Hr Hk]]]].
        exists run, e. split; [cbn [mk_ext]; now right|]. split; [lia|exact Hk].
  Qed.

  Definition run_nonempty (re : Run T * Z) : Prop := r_start (fst re) < snd re.
  (* order between an earlier run a and a later run b of the export *)
  Definition run_order (a b : Run T * Z) : Prop :=
    (run_nonempty a -> run_nonempty b ->
       rOriginalID (r_rel (fst a)) < rOriginalID (r_rel (fst b)) \/
       (rOriginalID (r_rel (fst a)) = rOriginalID (r_rel (fst b)) /\ r_key (fst a) < r_key (fst b))) /\
    (~ run_nonempty a -> ~ run_nonempty b /\ r_key (fst a) < r_key (fst b)).

  Definition klt (orig : Z -> Z) (a b : Z) : Prop := orig a < orig b \/ (orig a = orig b /\ a < b).
  Definition kle (orig : Z -> Z) (a b : Z) : Prop := orig a < orig b \/ (orig a = orig b /\ a <= b).

  Lemma mk_ext_sorted : forall bs (m0 m : rmap) tri,
    NoDup (map fst bs) ->
    (forall k, In k (map fst bs) -> find_or_default k m = find_or_default k m0) ->
    StronglySorted (klt (fun k => rOriginalID (find_or_default k m0))) (map fst bs) ->
    StronglySorted run_order (mk_ext m tri bs).
  Proof.
    induction bs as [|[k c] bs IH]; intros m0 m tri ND Hm HS; [constructor|].
    cbn [map fst] in *. inversion ND as [|? ? Hn ND']; subst. inversion HS as [|? ? S' F]; subst.
    cbn [mk_ext]. constructor.
    - apply (IH m0); auto. intros k' Hk'. unfold find_or_default. rewrite m_find_erase_neq.
      + apply Hm. now right.
      + intros ->. contradiction.
    - pose proof (mk_ext_elems bs (m_erase k m) (tri + Z.of_nat (S c)) ND') as E.
      rewrite Forall_forall in *. intros [r e] Hin. destruct (E _ Hin) as [Hk [Hr [Hs Ht]]]. cbn [fst snd] in *.
      unfold run_order, run_nonempty. cbn [fst snd r_start r_key r_rel]. split; [|lia].
      intros _ _. specialize (F _ Hk). unfold klt in F.
      rewrite (Hm k) by now left.
      assert (Hrel : r_rel r = find_or_default (r_key r) m0).
      { rewrite Hr. unfold find_or_default. rewrite m_find_erase_neq; [apply Hm; now right|]. intros Heq; rewrite Heq in Hk; contradiction. }
      rewrite Hrel. exact F.
  Qed.

  Lemma mk_runs_keys : forall bs (m : rmap) tri, map r_key (mk_runs m tri bs) = map fst bs.
  Proof. induction bs as [|[k c] bs IH]; intros; cbn; [reflexivity|now rewrite IH]. Qed.
  Lemma mk_ext_runs : forall bs (m : rmap) tri, map fst (mk_ext m tri bs) = mk_runs m tri bs.
  Proof. induction bs as [|[k c] bs IH]; intros; cbn; [reflexivity|now rewrite IH]. Qed.

  Lemma erase_all_ok : forall ks (m : rmap), map_ok m -> map_ok (erase_all ks m).
  Proof. induction ks; intros m H; cbn; [exact H|]. apply IHks. now apply m_erase_asc. Qed.
  Lemma erase_all_incl : forall ks (m : rmap) x, In x (erase_all ks m) -> In x m.
  Proof. induction ks; intros m x H; cbn in *; [exact H|]. eapply m_erase_incl. apply IHks. exact H. Qed.

  Lemma erase_all_keys_perm : forall ks (m : rmap), NoDup ks -> (forall k, In k ks -> In k (m_keys m)) ->
    Permutation (ks ++ m_keys (erase_all ks m)) (m_keys m).
  Proof.
    induction ks as [|k ks IH]; intros m ND H; [reflexivity|].
    inversion ND as [|? ? Hn ND']; subst. cbn [app erase_all fold_left].
    etransitivity; [|apply (m_erase_keys_perm m k); apply H; now left].
    constructor. apply IH; [exact ND'|].
    intros k' Hk'. assert (In k' (m_keys m)) by (apply H; now right).
    apply m_find_keys. apply m_find_keys in H0. destruct H0 as [v Hv]. exists v.
    rewrite m_find_erase_neq; [exact Hv|]. intros ->; contradiction.
  Qed.

  Lemma expand_keys_in : forall bs k, In k (map fst bs) -> In k (expand bs).
  Proof.
    induction bs as [|[k' c] bs IH]; intros k H; [contradiction|]. cbn [expand]. cbn in H.
    apply in_or_app. destruct H as [->|H]; [left; now left|right; auto].
  Qed.

  Lemma SS_app_inv_r : forall A (R : A -> A -> Prop) l1 l2, StronglySorted R (l1 ++ l2) -> StronglySorted R l2.
  Proof. induction l1; intros l2 H; [exact H|]. inversion H; subst. auto. Qed.

  Lemma expand_sorted_keys : forall (R : Z -> Z -> Prop) bs, StronglySorted R (expand bs) -> StronglySorted R (map fst bs).
  Proof.
    induction bs as [|[k c] bs IH]; intros H; [constructor|].
    cbn [expand repeat app] in H. inversion H as [|? ? H' F]; subst.
    apply SS_app_inv_r in H'. cbn [map fst]. constructor; [auto|].
    rewrite Forall_forall in *. intros x Hx. apply F. apply in_or_app. right. now apply expand_keys_in.
  Qed.

  Lemma sorted_strict : forall orig l, Sorted (kle orig) l -> adjdist l -> Sorted (klt orig) l.
  Proof.
    induction l as [|a l IH]; intros HS A; [constructor|].
    inversion HS as [|? ? HS' Hd]; subst. destruct A as [Hne A]. constructor; [auto|].
    destruct l as [|b l]; constructor. inversion Hd; subst. unfold kle, klt in *. lia.
  Qed.

  Lemma klt_trans : forall orig, Relations_1.Transitive (klt orig).
  Proof. intros orig a b c; unfold klt; lia. Qed.

  Lemma klt_NoDup : forall orig l, StronglySorted (klt orig) l -> NoDup l.
  Proof.
    induction l as [|a l IH]; intros H; [constructor|]. inversion H as [|? ? H' F]; subst.
    constructor; [|auto]. intro Hin. rewrite Forall_forall in F. specialize (F _ Hin). unfold klt in F. lia.
  Qed.

  Lemma StronglySorted_app : forall A (R : A -> A -> Prop) l1 l2,
    StronglySorted R l1 -> StronglySorted R l2 -> (forall a b, In a l1 -> In b l2 -> R a b) ->
    StronglySorted R (l1 ++ l2).
  Proof.
    induction l1 as [|x l1 IH]; intros l2 S1 S2 H; [exact S2|].
    inversion S1 as [|? ? S1' F]; subst. cbn. constructor.
    - apply IH; auto. intros; apply H; auto. now right.
    - apply Forall_app. split; [exact F|]. rewrite Forall_forall. intros b Hb. apply H; auto. now left.
  Qed.

  Lemma asc_SS : forall l, asc l -> StronglySorted Z.lt l.
  Proof.
    induction l as [|a l IH]; intros H; [constructor|].
    constructor; [apply IH; eapply asc_tl; eauto|]. now apply asc_lb.
  Qed.

  Definition rel_consistent (m : rmap) (refs : list TriRef) : Prop :=
    Forall (fun r => 0 <= meshID r /\ exists rel, m_find (meshID r) m = Some rel /\ rOriginalID rel = originalID r) refs.

  Lemma sorted_ids_kle : forall (m : rmap) (l : list TriRef), rel_consistent m l -> StronglySorted ref_le l ->
    StronglySorted (kle (fun k => rOriginalID (find_or_default k m))) (map meshID l).
  Proof.
    intros m l C HS. induction HS as [|a l HS IH F]; [constructor|].
    inversion C as [|? ? Ca C']; subst. cbn [map]. constructor; [auto|].
    rewrite Forall_forall in *. intros x Hx. apply in_map_iff in Hx. destruct Hx as [b [<- Hb]].
    specialize (F _ Hb). specialize (C' _ Hb). destruct Ca as [_ [ra [Fa Oa]]]. destruct C' as [_ [rb [Fb Ob]]].
    unfold kle, find_or_default. rewrite Fa, Fb, Oa, Ob. exact F.
  Qed.

  Theorem runs_partition_main : forall (m : rmap) (refs : list TriRef),
    map_ok m -> rel_consistent m refs ->
    let sorted := map snd (sort_tris false refs) in
    let n := Z.of_nat (length refs) in
    let rs := all_runs tid m sorted in
       Permutation (map r_key rs) (m_keys m)
    /\ Forall (fun r => m_find (r_key r) m = Some (r_rel r)) rs
    /\ (match rs with [] => n = 0 | r :: _ => r_start r = 0 end)
    /\ Forall (fun re => r_start (fst re) <= snd re) (extents rs n)
    /\ (forall t r, nth_error sorted t = Some r ->
          exists run e, In (run, e) (extents rs n) /\ r_start run <= Z.of_nat t < e /\ r_key run = meshID r)
    /\ StronglySorted run_order (extents rs n).
  Proof.
    intros m refs Hm C sorted n rs.
    assert (Cs : rel_consistent m sorted).
    { unfold rel_consistent. eapply Permutation_Forall; [apply Permutation_sym, (sort_tris_refs false)|exact C]. }
    assert (Ln : Z.of_nat (length sorted) = n).
    { unfold sorted, n. now rewrite map_length, sort_tris_length. }
    destruct (blocks_exist (map meshID sorted)) as [bs [E [A Hd]]].
    set (orig := fun k => rOriginalID (find_or_default k m)).
    assert (SK : StronglySorted (klt orig) (map fst bs)).
    { apply Sorted_StronglySorted; [apply klt_trans|]. apply sorted_strict; [|exact A].
      apply StronglySorted_Sorted, expand_sorted_keys. rewrite <- E.
      apply sorted_ids_kle; [exact Cs|apply sorted_refs_le]. }
    pose proof (klt_NoDup _ _ SK) as ND.
    assert (Kin : forall k, In k (map fst bs) -> 0 <= k /\ In k (m_keys m)).
    { intros k Hk. apply expand_keys_in in Hk. rewrite <- E in Hk. apply in_map_iff in Hk.
      destruct Hk as [r [<- Hr]]. unfold rel_consistent in Cs. rewrite Forall_forall in Cs.
      destruct (Cs _ Hr) as [H0 [rel [Hf _]]]. split; [exact H0|]. apply m_find_keys. eauto. }
    assert (A1 : adjdist (-1 :: map fst bs)).
    { cbn [adjdist]. split; [|exact A]. destruct bs as [|[k c] bs]; [exact I|]. cbn.
      assert (0 <= k) by (apply Kin; now left). lia. }
    unfold rs, all_runs. rewrite (run_loop_blocks bs sorted m (-1) 0 E A1).
    set (m' := erase_all (map fst bs) m).
    set (rs2 := map (fun kv => mkRun (Z.of_nat (length sorted)) (fst kv) (snd kv)) m').
    assert (Tn : total 0 bs = n).
    { rewrite total_expand, <- E, map_length. lia. }
    assert (F2 : Forall (fun r : Run T => r_start r = n) rs2).
    { unfold rs2. rewrite Forall_forall. intros r Hr. apply in_map_iff in Hr. destruct Hr as [kv [<- _]]. exact Ln. }
    rewrite (ext_runs bs m 0 rs2 n F2 Tn).
    pose proof (mk_ext_elems bs m 0 ND) as EL. rewrite Forall_forall in EL.
    assert (Hm' : map_ok m') by (apply erase_all_ok; exact Hm).
    assert (K2 : map r_key rs2 = m_keys m').
    { unfold rs2, m_keys. rewrite map_map. reflexivity. }
    repeat split.
    - rewrite map_app, mk_runs_keys, K2. apply erase_all_keys_perm; [exact ND|]. intros k Hk. now apply Kin.
    - apply Forall_app. split.
      + rewrite <- mk_ext_runs. rewrite Forall_forall. intros r Hr. apply in_map_iff in Hr.
        destruct Hr as [[r' e] [<- Hin]]. destruct (EL _ Hin) as [Hk [Hr _]]. cbn [fst] in *.
        rewrite Hr. unfold find_or_default. destruct (Kin _ Hk) as [_ Hk']. apply m_find_keys in Hk'.
        destruct Hk' as [v Hv]. now rewrite Hv.
      + unfold rs2. rewrite Forall_forall. intros r Hr. apply in_map_iff in Hr. destruct Hr as [[k v] [<- Hin]].
        cbn. apply In_m_find; [apply asc_NoDup; exact Hm|]. eapply erase_all_incl; exact Hin.
    - destruct bs as [|[k c] bs]; cbn [mk_runs app].
      + destruct rs2 as [|r2 rs2'] eqn:E2.
        * cbn in Tn. lia.
        * cbn in Tn. inversion F2; subst. lia.
      + reflexivity.
    - apply Forall_app. split.
      + rewrite Forall_forall. intros re Hin. destruct (EL _ Hin) as [_ [_ [H _]]]. lia.
      + rewrite Forall_forall. intros re Hin. apply in_map_iff in Hin. destruct Hin as [r [<- Hr]].
        rewrite Forall_forall in F2. cbn. rewrite (F2 _ Hr). lia.
    - intros t r Ht.
      assert (Hid : nth_error (expand bs) t = Some (meshID r)).
      { rewrite <- E. now apply map_nth_error. }
      destruct (mk_ext_own bs m 0 t _ Hid) as [run [e [Hin [Hr Hk]]]].
      exists run, e. split; [apply in_or_app; now left|]. split; [lia|exact Hk].
    - apply StronglySorted_app.
      + apply (mk_ext_sorted bs m m 0 ND); [reflexivity|exact SK].
      + unfold rs2. rewrite Ln, map_map.
        assert (SSk : StronglySorted Z.lt (m_keys m')) by (apply asc_SS; exact Hm').
        unfold m_keys in SSk. clear -SSk. generalize n. intros n0. induction m' as [|[k v] m' IH]; cbn; [constructor|].
        cbn in SSk. inversion SSk as [|? ? S' F]; subst. constructor; [auto|].
        rewrite Forall_forall in *. intros re Hre. apply in_map_iff in Hre. destruct Hre as [[k2 v2] [<- Hin]].
        unfold run_order, run_nonempty. cbn [fst snd r_start r_key r_rel]. split; [lia|]. intros _. split; [lia|].
        apply F. change k2 with (fst (k2, v2)). now apply in_map.
      + intros a b Ha Hb. destruct (EL _ Ha) as [_ [_ [Hs _]]].
        apply in_map_iff in Hb. destruct Hb as [r [<- Hr]]. rewrite Forall_forall in F2. specialize (F2 _ Hr).
        unfold run_order, run_nonempty. cbn [fst snd]. split; [intros _ Hb; lia|intros Hn; lia].
  Qed.
End RunFacts.

(* ================================================================ originals *)
Lemma all_runs_original : forall T (tid : T) id (rel : Relation T) refs,
  id <> -1 -> Forall (fun r => meshID r = id) refs ->
  all_runs tid [(id, rel)] refs = [mkRun 0 id rel].
Proof.
  intros T tid id rel refs Hid F. unfold all_runs. destruct refs as [|r refs].
  - reflexivity.
  - inversion F as [|? ? Hr F']; subst. cbn [run_loop].
    destruct (meshID r =? -1) eqn:E; [apply Z.eqb_eq in E; contradiction|].
    cbn [m_find m_erase]. rewrite Z.eqb_refl.
    pose proof (run_loop_same tid refs [] (@nil (Z * Relation T)) (meshID r) (0 + 1) F') as H.
    rewrite app_nil_r in H. rewrite H. cbn. reflexivity.
Qed.

(* ================================================================ IDs: Boolean *)
Section Ids.
  Context {T : Type}.
  Notation rmap := (zmap (Relation T)).

  Lemma m_find_none : forall V (m : zmap V) k, ~ In k (m_keys m) -> m_find k m = None.
  Proof.
    intros V m k H. destruct (m_find k m) eqn:E; [|reflexivity].
    exfalso; apply H. apply m_find_keys. eauto.
  Qed.

  Lemma find_fold_set : forall V W (h : V -> W) off (l : zmap V) (acc : zmap W) k,
    NoDup (m_keys l) ->
    m_find k (fold_left (fun a kv => m_set (fst kv + off) (h (snd kv)) a) l acc) =
    match m_find (k - off) l with Some v => Some (h v) | None => m_find k acc end.
  Proof.
    induction l as [|[k1 v1] l IH]; intros acc k ND; [reflexivity|].
    cbn [m_keys map fst] in ND. inversion ND as [|? ? Hn ND']; subst.
    cbn [fold_left fst snd m_find]. rewrite IH by exact ND'. rewrite m_find_set.
    destruct (k - off =? k1) eqn:E.
    - apply Z.eqb_eq in E. subst k1. rewrite (m_find_none _ l (k - off) Hn).
      replace (k - off + off) with k by lia. now rewrite Z.eqb_refl.
    - destruct (m_find (k - off) l); [reflexivity|].
      destruct (k =? k1 + off) eqn:E2; [apply Z.eqb_eq in E2; apply Z.eqb_neq in E; lia|reflexivity].
  Qed.

  Lemma fold_set_ok : forall V W (f : Z * V -> Z) (g : Z * V -> W) (l : list (Z * V)) (acc : zmap W),
    map_ok acc -> map_ok (fold_left (fun a kv => m_set (f kv) (g kv) a) l acc).
  Proof. induction l; intros acc H; cbn; [exact H|]. apply IHl. now apply m_set_asc. Qed.

  Definition keys_below (c : Z) (m : rmap) : Prop := Forall (fun k => 0 <= k < c) (m_keys m).

  Lemma fold_left_ext : forall A B (f g : A -> B -> A) l a, (forall a x, f a x = g a x) -> fold_left f l a = fold_left g l a.
  Proof. induction l; intros a0 H; cbn; [reflexivity|]. rewrite H. now apply IHl. Qed.

  Lemma merge_maps_find : forall counter invertQ (mP mQ : rmap) k,
    map_ok mP -> map_ok mQ ->
    m_find k (merge_maps counter invertQ mP mQ []) =
    match m_find (k - counter) mQ with
    | Some v => Some (flip_back invertQ v)
    | None => m_find k mP
    end.
  Proof.
    intros counter invertQ mP mQ k HP HQ. unfold merge_maps.
    rewrite (find_fold_set _ _ (flip_back invertQ) counter mQ) by (apply asc_NoDup; exact HQ).
    destruct (m_find (k - counter) mQ); [reflexivity|].
    pose proof (find_fold_set _ _ (fun v : Relation T => v) 0 mP [] k (asc_NoDup _ HP)) as H.
    rewrite Z.sub_0_r in H. cbn [m_find] in H.
    rewrite (fold_left_ext _ _ _ (fun a kv => m_set (fst kv + 0) ((fun v : Relation T => v) (snd kv)) a)).
    - rewrite H. destruct (m_find k mP); reflexivity.
    - intros a x. now rewrite Z.add_0_r.
  Qed.

  Lemma merge_maps_ok : forall counter invertQ (mP mQ : rmap), map_ok (merge_maps counter invertQ mP mQ []).
  Proof. intros. unfold merge_maps. apply fold_set_ok. apply fold_set_ok. exact I. Qed.

  Lemma keys_below_find : forall c (m : rmap) k v, keys_below c m -> m_find k m = Some v -> 0 <= k < c.
  Proof.
    intros c m k v KB H. unfold keys_below in KB. rewrite Forall_forall in KB. apply KB.
    apply m_find_keys. eauto.
  Qed.

  (* ids_stay_distinct, Boolean part *)
  Theorem boolean_ids_distinct : forall counter invertQ (mP mQ : rmap),
    map_ok mP -> map_ok mQ -> keys_below counter mP -> keys_below counter mQ ->
    let mR := merge_maps counter invertQ mP mQ [] in
    map_ok mR /\
    (forall k v, m_find k mP = Some v -> m_find k mR = Some v) /\
    (forall k v, m_find k mQ = Some v -> m_find (k + counter) mR = Some (flip_back invertQ v)) /\
    (forall kp kq, In kp (m_keys mP) -> In kq (m_keys mQ) -> kp <> kq + counter) /\
    (forall k, In k (m_keys mR) <-> In k (m_keys mP) \/ exists kq, In kq (m_keys mQ) /\ k = kq + counter).
  Proof.
    intros counter invertQ mP mQ HP HQ KP KQ mR.
    split; [apply merge_maps_ok|]. split; [|split; [|split]].
    - intros k v H. unfold mR. rewrite merge_maps_find by assumption.
      destruct (m_find (k - counter) mQ) eqn:E; [|exact H].
      pose proof (keys_below_find _ _ _ _ KP H). pose proof (keys_below_find _ _ _ _ KQ E). lia.
    - intros k v H. unfold mR. rewrite merge_maps_find by assumption.
      replace (k + counter - counter) with k by lia. now rewrite H.
    - intros kp kq Hp Hq. unfold keys_below in *. rewrite Forall_forall in KP, KQ.
      specialize (KP _ Hp). specialize (KQ _ Hq). lia.
    - intros k. rewrite m_find_keys. unfold mR. split.
      + intros [v H]. rewrite merge_maps_find in H by assumption.
        destruct (m_find (k - counter) mQ) eqn:E.
        * right. exists (k - counter). split; [apply m_find_keys; eauto|lia].
        * left. apply m_find_keys; eauto.
      + intros [H|[kq [H ->]]].
        * apply m_find_keys in H. destruct H as [v H]. exists v. rewrite merge_maps_find by assumption.
          destruct (m_find (k - counter) mQ) eqn:E; [|exact H].
          pose proof (keys_below_find _ _ _ _ KP H). pose proof (keys_below_find _ _ _ _ KQ E). lia.
        * apply m_find_keys in H. destruct H as [v H]. exists (flip_back invertQ v).
          rewrite merge_maps_find by assumption. replace (kq + counter - counter) with kq by lia. now rewrite H.
  Qed.

  (* ================================================================ IDs: IncrementMeshIDs *)
  Lemma fold_set_append : forall V (vs : list V) n c (acc : zmap V),
    Forall (fun x => x < c) (m_keys acc) ->
    fold_left (fun a kv => m_set (fst kv) (snd kv) a) (combine (iota c n) vs) acc = acc ++ combine (iota c n) vs.
  Proof.
    intros V vs n. revert vs. induction n; intros vs c acc F; cbn [iota combine fold_left].
    - now rewrite app_nil_r.
    - destruct vs as [|v vs]; cbn [combine fold_left]; [now rewrite app_nil_r|].
      cbn [fst snd]. rewrite m_set_append by exact F. rewrite IHn.
      + rewrite <- app_assoc. reflexivity.
      + unfold m_keys. rewrite map_app. apply Forall_app. split.
        * eapply Forall_impl; [|exact F]. intros; cbn in *; lia.
        * cbn. constructor; [lia|constructor].
  Qed.

  Lemma combine_iota_find : forall ks c k id, m_find k (combine ks (iota c (length ks))) = Some id ->
    exists i, nth_error ks i = Some k /\ id = c + Z.of_nat i /\ (forall j, (j < i)%nat -> nth_error ks j <> Some k).
  Proof.
    induction ks as [|k0 ks IH]; intros c k id H; cbn in H; [discriminate|].
    destruct (k =? k0) eqn:E.
    - apply Z.eqb_eq in E. inversion H; subst. exists 0%nat. cbn. split; [reflexivity|]. split; [lia|]. intros; lia.
    - apply IH in H. destruct H as [i [Hn [Hid Hj]]]. exists (Datatypes.S i). cbn. split; [exact Hn|]. split; [lia|].
      intros j Hjlt. destruct j; cbn.
      + apply Z.eqb_neq in E. congruence.
      + apply Hj. lia.
  Qed.

  Lemma asc_nth_lt : forall l i j a b, asc l -> nth_error l i = Some a -> nth_error l j = Some b -> (i < j)%nat -> a < b.
  Proof.
    induction l as [|x l IH]; intros i j a b A Hi Hj Hlt; [destruct i; discriminate|].
    destruct j; [lia|]. cbn in Hj. destruct i; cbn in Hi.
    - inversion Hi; subst. pose proof (asc_lb _ _ A) as F. rewrite Forall_forall in F. apply F. eapply nth_error_In; eauto.
    - eapply IH; eauto. eapply asc_tl; eauto. lia.
  Qed.

  Lemma map_fst_combine_keys : forall (ks : list Z) c, map fst (combine ks (iota c (length ks))) = ks.
  Proof. induction ks; intros; cbn; [reflexivity|now rewrite IHks]. Qed.
  Lemma map_fst_combine_vals : forall V (vs : list V) c, map fst (combine (iota c (length vs)) vs) = iota c (length vs).
  Proof. induction vs; intros; cbn; [reflexivity|now rewrite IHvs]. Qed.

  Theorem increment_ids_spec : forall counter (m : rmap) refs m' refs' c',
    map_ok m ->
    increment_mesh_ids counter m refs = Some (m', refs', c') ->
    let old2new := combine (m_keys m) (iota counter (length m)) in
    m' = combine (iota counter (length m)) (map snd m) /\ c' = counter + Z.of_nat (length m) /\ map_ok m' /\
    Forall2 (fun r r' => m_find (meshID r) old2new = Some (meshID r') /\ originalID r' = originalID r /\
                         faceID r' = faceID r /\ coplanarID r' = coplanarID r) refs refs' /\
    (forall k1 k2 id1 id2, m_find k1 old2new = Some id1 -> m_find k2 old2new = Some id2 ->
        (k1 < k2 <-> id1 < id2) /\ (k1 = k2 <-> id1 = id2) /\ counter <= id1 < c') /\
    (forall k id, m_find k old2new = Some id -> m_find id m' = m_find k m).
  Proof.
    intros counter m refs m' refs' c' Hm H old2new. unfold increment_mesh_ids in H.
    fold old2new in H.
    destruct (map_opt _ refs) as [rs|] eqn:E; [|discriminate]. inversion H; subst; clear H.
    assert (Em : fold_left (fun acc kv => m_set (fst kv) (snd kv) acc) (combine (iota counter (length m)) (map snd m)) []
                 = combine (iota counter (length m)) (map snd m)).
    { rewrite fold_set_append; [reflexivity|constructor]. }
    rewrite Em.
    assert (Lk : length (m_keys m) = length m) by (unfold m_keys; apply map_length).
    split; [reflexivity|]. split; [reflexivity|]. split; [|split; [|split]].
    - unfold map_ok, m_keys. rewrite <- (map_length snd m). rewrite map_fst_combine_vals. apply iota_asc.
    - clear Em. revert refs' E. induction refs as [|r refs IH]; intros rs E; cbn in E.
      + inversion E. constructor.
      + destruct (m_find (meshID r) old2new) eqn:Ef; [|discriminate].
        destruct (map_opt _ refs) as [rs'|] eqn:E'; [|discriminate]. inversion E; subst.
        constructor; [cbn; auto|]. now apply IH.
    - intros k1 k2 id1 id2 H1 H2. unfold old2new in H1, H2. rewrite <- Lk in H1, H2.
      apply combine_iota_find in H1. apply combine_iota_find in H2.
      destruct H1 as [i1 [N1 [-> F1]]]. destruct H2 as [i2 [N2 [-> F2]]].
      assert (i1 < length (m_keys m))%nat by (apply nth_error_Some; congruence).
      split; [|split; [|lia]].
      + split; intros Hlt.
        * destruct (Nat.lt_ge_cases i1 i2) as [Hc|Hc]; [lia|].
          destruct (Nat.eq_dec i1 i2) as [->|Hne]; [rewrite N1 in N2; inversion N2; lia|].
          assert (k2 < k1) by (eapply (asc_nth_lt (m_keys m) i2 i1); eauto; lia). lia.
        * assert (i1 < i2)%nat by lia. eapply (asc_nth_lt (m_keys m) i1 i2); eauto.
      + split; intros Heq.
        * subst k2. destruct (Nat.lt_trichotomy i1 i2) as [Hc|[Hc|Hc]]; [|lia|].
          -- exfalso. eapply F2; eauto.
          -- exfalso. eapply F1; eauto.
        * assert (i1 = i2) by lia. subst. rewrite N1 in N2. now inversion N2.
    - intros k id H. unfold old2new in H. clear Em E Lk old2new.
      unfold m_keys in H. revert H. generalize counter. induction m as [|[k0 v0] m IH]; intros c H; cbn in H; [discriminate|].
      cbn [length iota map combine snd m_find].
      destruct (k =? k0) eqn:E.
      + inversion H; subst. now rewrite Z.eqb_refl.
      + assert (A : c < id).
        { rewrite <- (map_length fst m) in H. apply combine_iota_find in H. destruct H as [i [_ [-> _]]]. lia. }
        destruct (id =? c) eqn:E2; [apply Z.eqb_eq in E2; lia|].
        apply IH; [eapply asc_tl; exact Hm|exact H].
  Qed.

  Lemma map_opt_some : forall A B (f : A -> option B) l, Forall (fun a => f a <> None) l -> exists l', map_opt f l = Some l'.
  Proof.
    induction l as [|a l IH]; intros F; [exists []; reflexivity|]. inversion F; subst.
    destruct (IH H2) as [l' E]. cbn. destruct (f a) eqn:Ea; [|congruence]. rewrite E. eauto.
  Qed.

  (* defined whenever every triangle's meshID is a key of the map *)
  Lemma increment_defined : forall counter (m : rmap) refs,
    Forall (fun r => In (meshID r) (m_keys m)) refs -> exists res, increment_mesh_ids counter m refs = Some res.
  Proof.
    intros counter m refs F. unfold increment_mesh_ids.
    destruct (map_opt_some _ _ (fun r => match m_find (meshID r) (combine (m_keys m) (iota counter (length m))) with
                                         | Some id => Some (set_meshID r id) | None => None end) refs) as [l' E].
    - eapply Forall_impl; [|exact F]. intros r Hr. cbn in Hr.
      assert (H : In (meshID r) (m_keys (combine (m_keys m) (iota counter (length m))))).
      { unfold m_keys at 1. rewrite <- (map_length fst m). fold (m_keys m). now rewrite map_fst_combine_keys. }
      apply m_find_keys in H. destruct H as [v Hv]. rewrite Hv. discriminate.
    - rewrite E. eauto.
  Qed.
End Ids.

(* Compose: per-node offsets i * snapshot keep the nodes' key ranges apart *)
Lemma compose_offsets_disjoint : forall snapshot i j k1 k2,
  0 <= i -> 0 <= j -> 0 <= k1 < snapshot -> 0 <= k2 < snapshot ->
  k1 + i * snapshot = k2 + j * snapshot -> i = j /\ k1 = k2.
Proof. intros. assert (i = j) by nia. subst. lia. Qed.

(* ================================================================ transforms *)
Lemma v3_eq : forall a b, vx a = vx b -> vy a = vy b -> vz a = vz b -> a = b.
Proof. intros [] []; cbn; intros; subst; reflexivity. Qed.
Lemma m34_eq : forall a b, c0 a = c0 b -> c1 a = c1 b -> c2 a = c2 b -> c3 a = c3 b -> a = b.
Proof. intros [] []; cbn; intros; subst; reflexivity. Qed.

Ltac m34simp := cbn [vx vy vz c0 c1 c2 c3 m34apply4 m34mul v3add v3scale m34apply m34id].
Lemma m34apply4_mul : forall a b v w, m34apply4 (m34mul a b) v w = m34apply4 a (m34apply4 b v w) w.
Proof. intros [[] [] [] []] [[] [] [] []] [] w. apply v3_eq; m34simp; ring. Qed.
Lemma m34apply_mul : forall a b p, m34apply (m34mul a b) p = m34apply a (m34apply b p).
Proof. intros. unfold m34apply. apply m34apply4_mul. Qed.
Lemma m34mul_assoc : forall a b c, m34mul a (m34mul b c) = m34mul (m34mul a b) c.
Proof. intros [[] [] [] []] [[] [] [] []] [[] [] [] []]. apply m34_eq; apply v3_eq; m34simp; ring. Qed.
Lemma m34mul_id_l : forall a, m34mul m34id a = a.
Proof. intros [[] [] [] []]. apply m34_eq; apply v3_eq; m34simp; ring. Qed.
Lemma m34apply_id : forall p, m34apply m34id p = p.
Proof. intros []. apply v3_eq; m34simp; ring. Qed.
Lemma v3eqb_eq : forall a b, v3eqb a b = true -> a = b.
Proof. intros a b H. unfold v3eqb in H. rewrite !andb_true_iff, !Z.eqb_eq in H. apply v3_eq; tauto. Qed.
Lemma m34eqb_eq : forall a b, m34eqb a b = true -> a = b.
Proof. intros a b H. unfold m34eqb in H. rewrite !andb_true_iff in H. apply m34_eq; apply v3eqb_eq; tauto. Qed.

Definition same_meta (r r' : Relation M34) : Prop :=
  rOriginalID r' = rOriginalID r /\ rBackSide r' = rBackSide r /\ rHasNormals r' = rHasNormals r.

Lemma impl_transform_find : forall t m k rel, m_find k m = Some rel ->
  exists rel', m_find k (impl_transform t m) = Some rel' /\ same_meta rel rel' /\
               forall p, m34apply (rTransform rel') p = m34apply t (m34apply (rTransform rel) p).
Proof.
  intros t m k rel H. unfold impl_transform. destruct (m34eqb t m34id) eqn:E.
  - apply m34eqb_eq in E. subst t. exists rel. split; [exact H|]. split; [repeat split|].
    intros p. now rewrite m34apply_id.
  - exists (with_transform rel (m34mul t (rTransform rel))). split; [|split; [repeat split|]].
    + induction m as [|[k' v'] m IH]; cbn in *; [discriminate|].
      destruct (k =? k'); [inversion H; subst; reflexivity|auto].
    + intros p. cbn. apply m34apply_mul.
Qed.

Lemma impl_transform_keys : forall t m, m_keys (impl_transform t m) = m_keys m.
Proof.
  intros t m. unfold impl_transform. destruct (m34eqb t m34id); [reflexivity|].
  unfold m_keys. rewrite map_map. reflexivity.
Qed.

(* relation_transform_compose *)
Theorem transform_chain : forall ts m k rel, m_find k m = Some rel ->
  exists rel', m_find k (fold_left (fun a t => impl_transform t a) ts m) = Some rel' /\ same_meta rel rel' /\
               forall p, m34apply (rTransform rel') p = fold_left (fun q t => m34apply t q) ts (m34apply (rTransform rel) p).
Proof.
  induction ts as [|t ts IH]; intros m k rel H.
  - exists rel. split; [exact H|]. split; [repeat split|reflexivity].
  - cbn [fold_left]. destruct (impl_transform_find t m k rel H) as [r1 [H1 [M1 A1]]].
    destruct (IH _ _ _ H1) as [r2 [H2 [M2 A2]]]. exists r2. split; [exact H2|]. split.
    + unfold same_meta in *. intuition congruence.
    + intros p. rewrite A2, A1. reflexivity.
Qed.

(* Compose: the entry of node i under key k is found at k + i*snapshot with the
   node's lazy transform applied on the left *)
Lemma compose_from_keeps : forall nodes i snapshot acc k v,
  0 < snapshot -> 0 <= i -> Forall (fun nd => keys_below snapshot (snd (fst nd))) nodes ->
  k < i * snapshot -> m_find k acc = Some v ->
  m_find k (fst (compose_from i snapshot nodes acc)) = Some v.
Proof.
  induction nodes as [|[[t m] refs] nodes IH]; intros i snapshot acc k v Hs Hi F Hk H; [exact H|].
  cbn [compose_from]. inversion F as [|? ? Fm F']; subst. cbn [fst snd] in Fm.
  destruct (compose_from (i + 1) snapshot nodes _) as [accf refsf] eqn:E. cbn [fst].
  change accf with (fst (accf, refsf)). rewrite <- E. apply IH; auto; [lia|nia|].
  clear E IH F. revert acc H. unfold keys_below in Fm. induction m as [|[k1 v1] m IHm]; intros acc H; [exact H|].
  cbn [fold_left]. cbn [m_keys map fst] in Fm. inversion Fm; subst. apply IHm; [assumption|].
  rewrite m_find_set. cbn [fst]. destruct (k =? k1 + i * snapshot) eqn:E; [apply Z.eqb_eq in E; lia|exact H].
Qed.

Definition node_rel (t : M34) (rel : Relation M34) : Relation M34 :=
  if m34eqb t m34id then rel else with_transform rel (m34mul t (rTransform rel)).

Theorem compose_find : forall nodes i0 snapshot acc j t m refs k rel,
  0 < snapshot -> 0 <= i0 -> Forall (fun nd => map_ok (snd (fst nd)) /\ keys_below snapshot (snd (fst nd))) nodes ->
  nth_error nodes j = Some (t, m, refs) -> m_find k m = Some rel ->
  m_find (k + (i0 + Z.of_nat j) * snapshot) (fst (compose_from i0 snapshot nodes acc)) = Some (node_rel t rel).
Proof.
  induction nodes as [|[[t0 m0] refs0] nodes IH]; intros i0 snapshot acc j t m refs k rel Hs Hi F Hn Hf.
  - destruct j; discriminate.
  - inversion F as [|? ? [Hok Hkb] F']; subst. cbn [fst snd] in *.
    cbn [compose_from]. destruct (compose_from (i0 + 1) snapshot nodes _) as [accf refsf] eqn:E. cbn [fst].
    change accf with (fst (accf, refsf)). rewrite <- E. destruct j as [|j].
    + cbn in Hn. inversion Hn; subst. rewrite Z.add_0_r.
      pose proof (keys_below_find _ _ _ _ Hkb Hf) as Hk.
      apply compose_from_keeps; auto; [lia| |nia|].
      * eapply Forall_impl; [|exact F']. intros nd [_ H]; exact H.
      * pose proof (find_fold_set _ _ (node_rel t) (i0 * snapshot) m acc (k + i0 * snapshot) (asc_NoDup _ Hok)) as H.
        replace (k + i0 * snapshot - i0 * snapshot) with k in H by lia. rewrite Hf in H.
        rewrite <- H. f_equal.
    + cbn in Hn. replace (k + (i0 + Z.of_nat (S j)) * snapshot) with (k + (i0 + 1 + Z.of_nat j) * snapshot) by lia.
      eapply IH; eauto. lia.
Qed.

(* ================================================================ back side parity *)
Lemma fold_xorb_acc : forall l b, fold_left xorb l b = xorb b (fold_left xorb l false).
Proof.
  induction l as [|x l IHl]; intros b; cbn [fold_left]; [now rewrite xorb_false_r|].
  rewrite (IHl (xorb b x)), (IHl (xorb false x)). destruct b, x, (fold_left xorb l false); reflexivity.
Qed.

Lemma flip_chain : forall T (events : list bool) (rel : Relation T),
  let r := fold_left (fun r e => flip_back e r) events rel in
  rBackSide r = xorb (rBackSide rel) (fold_left xorb events false) /\
  rOriginalID r = rOriginalID rel /\ rTransform r = rTransform rel /\ rHasNormals r = rHasNormals rel.
Proof.
  intros T events. induction events as [|e events IH]; intros rel; cbn [fold_left].
  - cbn. rewrite xorb_false_r. auto.
  - destruct (IH (flip_back e rel)) as [B [O [Tr N]]]. cbn zeta in *. rewrite B, O, Tr, N. cbn [flip_back rBackSide rOriginalID rTransform rHasNormals].
    split; [|auto]. rewrite (fold_xorb_acc events (xorb false e)).
    destruct (rBackSide rel), e, (fold_left xorb events false); reflexivity.
Qed.

(* ================================================================ GetBarycentric over Q *)
Local Open Scope Q_scope.
Ltac q3unfold := unfold tri_crossP, bary_crossPv, tri_edges, q3nth, next3, q3cross, q3dot, q3sub; cbn [qx qy qz].

Lemma bary_sum_identity : forall p0 p1 p2 v,
  let tri := (p0, p1, p2) in let N := tri_crossP tri in
  q3dot (bary_crossPv tri v 0) N + q3dot (bary_crossPv tri v 1) N + q3dot (bary_crossPv tri v 2) N == q3dot N N.
Proof. intros [] [] [] []. q3unfold. ring. Qed.

Lemma bary_pos_identity : forall p0 p1 p2 v (f : Q3 -> Q), (f = qx \/ f = qy \/ f = qz) ->
  let tri := (p0, p1, p2) in let N := tri_crossP tri in
  q3dot (bary_crossPv tri v 0) N * f p0 + q3dot (bary_crossPv tri v 1) N * f p1 + q3dot (bary_crossPv tri v 2) N * f p2
  == q3dot N N * f v - q3dot N (q3sub v p0) * f N.
Proof. intros [] [] [] [] f [->|[->| ->]]; q3unfold; ring. Qed.

Theorem barycentric_affine_main : forall p0 p1 p2 v tol,
  let tri := (p0, p1, p2) in let tol2 := tol * tol in let N := tri_crossP tri in
  near_vert tri v tol2 0 = false -> near_vert tri v tol2 1 = false -> near_vert tri v tol2 2 = false ->
  Qltb (edge_d2 tri (long_side tri)) tol2 = false ->
  Qltb (edge_d2 tri (long_side tri) * tol2) (q3dot N N) = true ->
  edge_snapped tri v tol2 0 = false -> edge_snapped tri v tol2 1 = false -> edge_snapped tri v tol2 2 = false ->
  ~ q3dot N N == 0 ->
  q3dot N (q3sub v p0) == 0 ->
  let '(a, b, c) := get_barycentric v tri tol in
  a + b + c == 1 /\
  (forall f : Q3 -> Q, (f = qx \/ f = qy \/ f = qz) -> a * f p0 + b * f p1 + c * f p2 == f v).
Proof.
  intros p0 p1 p2 v tol tri tol2 N n0 n1 n2 Hpt Htri s0 s1 s2 Hnd Hplane.
  unfold get_barycentric. fold tri. fold tol2. fold N. rewrite n0, n1, n2, Hpt, Htri, s0, s1, s2.
  pose proof (bary_sum_identity p0 p1 p2 v) as S. cbv zeta in S. fold tri in S. fold N in S.
  assert (P := fun f Hf => bary_pos_identity p0 p1 p2 v f Hf). cbv zeta in P. fold tri in P. fold N in P.
  set (u0 := q3dot (bary_crossPv tri v 0) N) in *.
  set (u1 := q3dot (bary_crossPv tri v 1) N) in *.
  set (u2 := q3dot (bary_crossPv tri v 2) N) in *.
  assert (Hs : ~ u0 + u1 + u2 == 0) by (rewrite S; exact Hnd).
  split.
  - field. exact Hs.
  - intros f Hf. specialize (P f Hf). rewrite Hplane in P.
    setoid_replace (u0 / (u0 + u1 + u2) * f p0 + u1 / (u0 + u1 + u2) * f p1 + u2 / (u0 + u1 + u2) * f p2)
      with ((u0 * f p0 + u1 * f p1 + u2 * f p2) / (u0 + u1 + u2)) by (field; exact Hs).
    rewrite P, S. field. exact Hnd.
Qed.

(* every affine property field is reproduced; absent channels are zero *)
Definition affine_field (ga gb gc gd : Q) (p : Q3) : Q := ga * qx p + gb * qy p + gc * qz p + gd.

Lemma interp_affine : forall (a b c : Q) p0 p1 p2 v ga gb gc gd oldNumProp p,
  a + b + c == 1 ->
  (forall f : Q3 -> Q, (f = qx \/ f = qy \/ f = qz) -> a * f p0 + b * f p1 + c * f p2 == f v) ->
  interp_channel (a, b, c) oldNumProp p
     (affine_field ga gb gc gd p0, affine_field ga gb gc gd p1, affine_field ga gb gc gd p2)
  == if (p <? oldNumProp)%nat then affine_field ga gb gc gd v else 0.
Proof.
  intros a b c p0 p1 p2 v ga gb gc gd old p Hs Hp. unfold interp_channel.
  destruct (p <? old)%nat; [|reflexivity]. unfold affine_field.
  setoid_replace (a * (ga * qx p0 + gb * qy p0 + gc * qz p0 + gd) + b * (ga * qx p1 + gb * qy p1 + gc * qz p1 + gd) +
                  c * (ga * qx p2 + gb * qy p2 + gc * qz p2 + gd))
    with (ga * (a * qx p0 + b * qx p1 + c * qx p2) + gb * (a * qy p0 + b * qy p1 + c * qy p2) +
          gc * (a * qz p0 + b * qz p1 + c * qz p2) + gd * (a + b + c)) by ring.
  rewrite (Hp qx), (Hp qy), (Hp qz), Hs by auto. ring.
Qed.

(* snapped branches *)
Lemma barycentric_vertex_snap : forall v tri tol,
  let tol2 := tol * tol in
  (near_vert tri v tol2 0 = true -> get_barycentric v tri tol = (1, 0, 0)) /\
  (near_vert tri v tol2 0 = false -> near_vert tri v tol2 1 = true -> get_barycentric v tri tol = (0, 1, 0)) /\
  (near_vert tri v tol2 0 = false -> near_vert tri v tol2 1 = false -> near_vert tri v tol2 2 = true ->
     get_barycentric v tri tol = (0, 0, 1)).
Proof.
  intros v tri tol tol2. unfold get_barycentric. fold tol2.
  split; [|split]; intros; repeat match goal with H : _ = _ |- _ => rewrite H; clear H end; reflexivity.
Qed.

(* edge snap inside the triangle branch: the snapped coordinate is exactly 0 and the
   three still sum to 1 (a combination of the edge's two corners when one is snapped) *)
Lemma barycentric_edge_snap : forall p0 p1 p2 v tol i,
  let tri := (p0, p1, p2) in let tol2 := tol * tol in let N := tri_crossP tri in
  near_vert tri v tol2 0 = false -> near_vert tri v tol2 1 = false -> near_vert tri v tol2 2 = false ->
  Qltb (edge_d2 tri (long_side tri)) tol2 = false ->
  Qltb (edge_d2 tri (long_side tri) * tol2) (q3dot N N) = true ->
  (i < 3)%nat -> edge_snapped tri v tol2 i = true ->
  let u j := if edge_snapped tri v tol2 j then 0 else q3dot (bary_crossPv tri v j) N in
  ~ u 0%nat + u 1%nat + u 2%nat == 0 ->
  qnth (get_barycentric v tri tol) i == 0 /\
  (let '(a, b, c) := get_barycentric v tri tol in a + b + c == 1).
Proof.
  intros p0 p1 p2 v tol i tri tol2 N n0 n1 n2 Hpt Htri Hi Hsnap u Hs.
  unfold get_barycentric. fold tri. fold tol2. fold N. rewrite n0, n1, n2, Hpt, Htri.
  cbv zeta. unfold u in Hs.
  set (a0 := if edge_snapped tri v tol2 0 then 0 else q3dot (bary_crossPv tri v 0) N) in *.
  set (a1 := if edge_snapped tri v tol2 1 then 0 else q3dot (bary_crossPv tri v 1) N) in *.
  set (a2 := if edge_snapped tri v tol2 2 then 0 else q3dot (bary_crossPv tri v 2) N) in *.
  split.
  - destruct i as [|[|[|i]]]; try lia; cbn [qnth].
    + assert (H : a0 == 0) by (unfold a0; rewrite Hsnap; reflexivity). clearbody a0 a1 a2.
      unfold Qdiv. rewrite H. ring.
    + assert (H : a1 == 0) by (unfold a1; rewrite Hsnap; reflexivity). clearbody a0 a1 a2.
      unfold Qdiv. rewrite H. ring.
    + assert (H : a2 == 0) by (unfold a2; rewrite Hsnap; reflexivity). clearbody a0 a1 a2.
      unfold Qdiv. rewrite H. ring.
  - clearbody a0 a1 a2. field. exact Hs.
Qed.

(* degenerate (needle) branch: the long side's own corner gets 0, the other two sum to 1 *)
Lemma barycentric_line : forall p0 p1 p2 v tol,
  let tri := (p0, p1, p2) in let tol2 := tol * tol in let N := tri_crossP tri in
  near_vert tri v tol2 0 = false -> near_vert tri v tol2 1 = false -> near_vert tri v tol2 2 = false ->
  Qltb (edge_d2 tri (long_side tri)) tol2 = false ->
  Qltb (edge_d2 tri (long_side tri) * tol2) (q3dot N N) = false ->
  ~ edge_d2 tri (long_side tri) == 0 ->
  qnth (get_barycentric v tri tol) (long_side tri) == 0 /\
  (let '(a, b, c) := get_barycentric v tri tol in a + b + c == 1).
Proof.
  intros p0 p1 p2 v tol tri tol2 N n0 n1 n2 Hpt Htri Hd.
  unfold get_barycentric. fold tri. fold tol2. fold N. rewrite n0, n1, n2, Hpt, Htri. cbv zeta.
  set (al := q3dot (q3sub v (q3nth tri (next3 (long_side tri)))) (q3nth (tri_edges tri) (long_side tri)) / edge_d2 tri (long_side tri)).
  destruct (long_side tri) as [|[|l]]; cbn [next3 qset qnth]; split; try reflexivity; ring.
Qed.
