(* C07 -- lemmas about the model in RelationDefs.v *)
From Coq Require Import ZArith List Bool Lia Sorted Permutation Sorting.Mergesort QArith Qfield.
From MV Require Import Codec.RelationDefs.
Import ListNotations.
Local Open Scope Z_scope.

(* ================================================================ maps *)
Section MapFacts.
  Context {V : Type}.
  Implicit Types m : zmap V.

  Lemma asc_lb : forall l a, asc (a :: l) -> Forall (fun b => a < b) l.
  Proof.
    induction l as [|b l IH]; intros a H; [constructor|].
    destruct H as [Hab Hl]. constructor; [exact Hab|].
    specialize (IH b Hl). eapply Forall_impl; [|exact IH]. intros; cbn in *; lia.
  Qed.

  Lemma asc_tl : forall l a, asc (a :: l) -> asc l.
  Proof. intros l a [_ H]; exact H. Qed.

  Lemma asc_NoDup : forall l, asc l -> NoDup l.
  Proof.
    induction l as [|a l IH]; intros H; [constructor|].
    constructor; [|apply IH; eapply asc_tl; eauto].
    intro Hin. pose proof (asc_lb _ _ H) as F. rewrite Forall_forall in F. specialize (F _ Hin). lia.
  Qed.

  Lemma asc_b_ok : forall l, asc_b l = true <-> asc l.
  Proof.
    induction l as [|a l IH]; cbn [asc asc_b]; [tauto|].
    rewrite andb_true_iff, IH. destruct l; [tauto|]. rewrite Z.ltb_lt. tauto.
  Qed.

  Lemma m_find_In : forall m k v, m_find k m = Some v -> In (k, v) m.
  Proof.
    induction m as [|[k' v'] m IH]; cbn; intros k v H; [discriminate|].
    destruct (k =? k') eqn:E; [apply Z.eqb_eq in E; inversion H; subst; now left|right; auto].
  Qed.

  Lemma In_m_find : forall m k v, NoDup (m_keys m) -> In (k, v) m -> m_find k m = Some v.
  Proof.
    induction m as [|[k' v'] m IH]; cbn; intros k v ND H; [tauto|].
    inversion ND as [|? ? Hn ND']; subst.
    destruct H as [H|H].
    - inversion H; subst. now rewrite Z.eqb_refl.
    - destruct (k =? k') eqn:E; [|auto].
      apply Z.eqb_eq in E; subst. exfalso; apply Hn. change k' with (fst (k', v)). now apply in_map.
  Qed.

  Lemma m_find_keys : forall m k, In k (m_keys m) <-> exists v, m_find k m = Some v.
  Proof.
    induction m as [|[k' v'] m IH]; cbn; intros k.
    - split; [tauto|intros [v H]; discriminate].
    - destruct (k =? k') eqn:E.
      + apply Z.eqb_eq in E; subst. split; eauto.
      + apply Z.eqb_neq in E. rewrite <- IH. split; [intros [H|H]; [congruence|auto]|auto].
  Qed.

  Lemma m_find_erase_neq : forall m k k', k <> k' -> m_find k (m_erase k' m) = m_find k m.
  Proof.
    induction m as [|[k2 v2] m IH]; cbn; intros k k' Hne; [reflexivity|].
    destruct (k' =? k2) eqn:E.
    - apply Z.eqb_eq in E; subst. destruct (k =? k2) eqn:E2; [apply Z.eqb_eq in E2; lia|reflexivity].
    - cbn. rewrite IH by exact Hne. reflexivity.
  Qed.

  Lemma m_erase_incl : forall m k x, In x (m_erase k m) -> In x m.
  Proof.
    induction m as [|[k2 v2] m IH]; cbn; intros k x H; [tauto|].
    destruct (k =? k2); [now right|]. destruct H as [H|H]; [now left|right; eauto].
  Qed.

  Lemma m_erase_keys_perm : forall m k, In k (m_keys m) -> Permutation (k :: m_keys (m_erase k m)) (m_keys m).
  Proof.
    induction m as [|[k2 v2] m IH]; cbn; intros k H; [tauto|].
    destruct (k =? k2) eqn:E.
    - apply Z.eqb_eq in E; subst. reflexivity.
    - apply Z.eqb_neq in E. destruct H as [H|H]; [congruence|]. cbn.
      rewrite perm_swap. constructor. now apply IH.
  Qed.

  Lemma m_erase_asc : forall m k, map_ok m -> map_ok (m_erase k m).
  Proof.
    unfold map_ok. induction m as [|[k2 v2] m IH]; cbn [m_erase m_keys map]; intros k H; [exact H|].
    destruct (k =? k2); [eapply asc_tl; exact H|].
    cbn [m_keys map fst]. pose proof (asc_lb _ _ H) as F. pose proof (IH k (asc_tl _ _ H)) as A.
    cbn [asc]. split; [|exact A].
    destruct (m_erase k m) as [|[k3 v3] r] eqn:Er; [exact I|]. cbn.
    rewrite Forall_forall in F. apply F.
    assert (In (k3, v3) m) by (eapply m_erase_incl; rewrite Er; now left).
    change k3 with (fst (k3, v3)). now apply in_map.
  Qed.

  Lemma m_erase_notin : forall m k, NoDup (m_keys m) -> ~ In k (m_keys (m_erase k m)).
  Proof.
    induction m as [|[k2 v2] m IH]; cbn; intros k ND; [tauto|].
    inversion ND; subst. destruct (k =? k2) eqn:E.
    - apply Z.eqb_eq in E; subst. assumption.
    - apply Z.eqb_neq in E. cbn. intros [H|H]; [congruence|]. eapply IH; eauto.
  Qed.

  (* m_set on an ascending list *)
  Lemma m_find_set : forall m k v k', m_find k' (m_set k v m) = if k' =? k then Some v else m_find k' m.
  Proof.
    induction m as [|[k2 v2] m IH]; cbn; intros k v k'.
    - reflexivity.
    - destruct (k <? k2) eqn:E1; cbn.
      + reflexivity.
      + destruct (k =? k2) eqn:E2; cbn.
        * apply Z.eqb_eq in E2; subst. destruct (k' =? k2); reflexivity.
        * rewrite IH. destruct (k' =? k2) eqn:E3; [|reflexivity].
          apply Z.eqb_eq in E3; subst. rewrite Z.eqb_sym, E2. reflexivity.
  Qed.

  Lemma m_set_keys_in : forall m k v x, In x (m_keys (m_set k v m)) <-> x = k \/ In x (m_keys m).
  Proof.
    unfold m_keys. induction m as [|[k2 v2] m IH]; cbn [m_set map fst In]; intros k v x; [intuition|].
    destruct (k <? k2) eqn:E1; cbn [map fst In]; [intuition|].
    destruct (k =? k2) eqn:E2; cbn [map fst In].
    - apply Z.eqb_eq in E2; subst. intuition.
    - rewrite IH. intuition.
  Qed.

  Lemma m_set_asc : forall m k v, map_ok m -> map_ok (m_set k v m).
  Proof.
    unfold map_ok. induction m as [|[k2 v2] m IH]; cbn [m_set]; intros k v H; [cbn; tauto|].
    destruct (k <? k2) eqn:E1.
    - apply Z.ltb_lt in E1. cbn. cbn in H. tauto.
    - apply Z.ltb_ge in E1. destruct (k =? k2) eqn:E2.
      + apply Z.eqb_eq in E2; subst. exact H.
      + apply Z.eqb_neq in E2. pose proof (IH k v (asc_tl _ _ H)) as A.
        pose proof (asc_lb _ _ H) as F. cbn [m_keys map fst asc]. split; [|exact A].
        destruct (m_set k v m) as [|[k3 v3] r] eqn:Es; [exact I|]. cbn.
        assert (Hin : In k3 (m_keys (m_set k v m))) by (rewrite Es; now left).
        apply m_set_keys_in in Hin. destruct Hin as [->|Hin]; [lia|].
        rewrite Forall_forall in F. now apply F.
  Qed.

  (* inserting strictly larger keys in order appends *)
  Lemma m_set_append : forall m k v, Forall (fun x => x < k) (m_keys m) -> m_set k v m = m ++ [(k, v)].
  Proof.
    induction m as [|[k2 v2] m IH]; cbn; intros k v F; [reflexivity|].
    inversion F; subst. cbn in *.
    destruct (k <? k2) eqn:E1; [apply Z.ltb_lt in E1; lia|].
    destruct (k =? k2) eqn:E2; [apply Z.eqb_eq in E2; lia|]. now rewrite IH.
  Qed.
End MapFacts.

(* ================================================================ iota *)
Lemma iota_length : forall n s, length (iota s n) = n.
Proof. induction n; cbn; intros; [reflexivity|now rewrite IHn]. Qed.

Lemma iota_In : forall n s x, In x (iota s n) <-> s <= x < s + Z.of_nat n.
Proof.
  induction n; intros s x; cbn [iota In].
  - lia.
  - rewrite IHn. lia.
Qed.

Lemma iota_asc : forall n s, asc (iota s n).
Proof.
  induction n; intros s; cbn [iota asc]; [exact I|]. split; [|apply IHn].
  destruct n; cbn; [exact I|lia].
Qed.

Lemma iota_nth : forall n s i, (i < n)%nat -> nth_error (iota s n) i = Some (s + Z.of_nat i).
Proof.
  induction n; intros s i H; [lia|]. destruct i; cbn [iota nth_error].
  - f_equal; lia.
  - rewrite IHn by lia. f_equal; lia.
Qed.

Lemma combine_iota_nth : forall A (l : list A) s i x,
  In (i, x) (combine (iota s (length l)) l) -> s <= i /\ nth_error l (Z.to_nat (i - s)) = Some x.
Proof.
  induction l as [|a l IH]; cbn; intros s i x H; [tauto|].
  destruct H as [H|H].
  - inversion H; subst. rewrite Z.sub_diag. cbn. split; [lia|reflexivity].
  - apply IH in H. destruct H as [Hle Hn]. split; [lia|].
    replace (Z.to_nat (i - s)) with (S (Z.to_nat (i - (s + 1)))) by lia. exact Hn.
Qed.

Lemma map_fst_combine_iota : forall A (l : list A) s, map fst (combine (iota s (length l)) l) = iota s (length l).
Proof. induction l; cbn; intros; [reflexivity|now rewrite IHl]. Qed.

Lemma map_snd_combine_iota : forall A (l : list A) s, map snd (combine (iota s (length l)) l) = l.
Proof. induction l; cbn; intros; [reflexivity|now rewrite IHl]. Qed.

(* ================================================================ the sort *)
(* the order on TriRef the comparator induces: not (b < a) *)
Definition ref_le (a b : TriRef) : Prop :=
  originalID a < originalID b \/ (originalID a = originalID b /\ meshID a <= meshID b).
(* the total order (originalID, meshID, index) *)
Definition key3_lt (x y : Z * TriRef) : Prop :=
  let (i, a) := x in let (j, b) := y in
  originalID a < originalID b \/ (originalID a = originalID b /\
    (meshID a < meshID b \/ (meshID a = meshID b /\ i < j))).
Definition key3_le (x y : Z * TriRef) : Prop := key3_lt x y \/ (fst x = fst y /\ originalID (snd x) = originalID (snd y) /\ meshID (snd x) = meshID (snd y)).

Lemma tri_less_spec : forall a b, tri_less a b = true <->
  (originalID a < originalID b \/ (originalID a = originalID b /\ meshID a < meshID b)).
Proof.
  intros a b; unfold tri_less. destruct (originalID a =? originalID b) eqn:E.
  - apply Z.eqb_eq in E. rewrite Z.ltb_lt. lia.
  - apply Z.eqb_neq in E. rewrite Z.ltb_lt. lia.
Qed.

Lemma leb_spec : forall x y, TriOrder.leb x y = true <-> key3_le x y.
Proof.
  intros [i a] [j b]. unfold TriOrder.leb, key3_le, key3_lt. cbn [fst snd].
  destruct (tri_less a b) eqn:E1.
  - apply tri_less_spec in E1. split; [intros _; lia|reflexivity].
  - destruct (tri_less b a) eqn:E2.
    + apply tri_less_spec in E2. split; [discriminate|lia].
    + assert (N1 : ~ (originalID a < originalID b \/ (originalID a = originalID b /\ meshID a < meshID b)))
        by (rewrite <- tri_less_spec; congruence).
      assert (N2 : ~ (originalID b < originalID a \/ (originalID b = originalID a /\ meshID b < meshID a)))
        by (rewrite <- tri_less_spec; congruence).
      rewrite Z.leb_le. lia.
Qed.

Lemma leb_trans : RelationClasses.Transitive (fun x y => is_true (TriOrder.leb x y)).
Proof.
  intros x y z H1 H2. unfold is_true in *. rewrite leb_spec in *.
  destruct x as [i a], y as [j b], z as [k c]. unfold key3_le, key3_lt in *. cbn [fst snd] in *. lia.
Qed.

Lemma sort_tris_perm : forall refs, Permutation (combine (iota 0 (length refs)) refs) (sort_tris false refs).
Proof. intros; apply TriSort.Permuted_sort. Qed.

Lemma sort_tris_sorted : forall refs, StronglySorted key3_le (sort_tris false refs).
Proof.
  intros refs. pose proof (TriSort.StronglySorted_sort (combine (iota 0 (length refs)) refs) leb_trans) as H.
  unfold sort_tris. induction H; constructor; [assumption|].
  eapply Forall_impl; [|eassumption]. intros y Hy. apply leb_spec. exact Hy.
Qed.

Lemma sort_tris_length : forall b refs, length (sort_tris b refs) = length refs.
Proof.
  intros [|] refs; unfold sort_tris.
  - rewrite combine_length, iota_length. lia.
  - rewrite <- (Permutation_length (TriSort.Permuted_sort _)), combine_length, iota_length. lia.
Qed.

(* indices are distinct, so on the sorted list the order is strict *)
Lemma sort_tris_strict : forall refs, StronglySorted key3_lt (sort_tris false refs).
Proof.
  intros refs.
  assert (ND : NoDup (map fst (sort_tris false refs))).
  { eapply Permutation_NoDup; [apply Permutation_map, sort_tris_perm|].
    rewrite map_fst_combine_iota. apply asc_NoDup, iota_asc. }
  pose proof (sort_tris_sorted refs) as S. revert ND.
  induction S as [|x l S IH F]; intros ND; [constructor|].
  cbn in ND. inversion ND as [|? ? Hn ND']; subst. constructor; [auto|].
  rewrite Forall_forall in *. intros y Hy. destruct (F y Hy) as [H|[H _]]; [exact H|].
  exfalso; apply Hn. rewrite H. now apply in_map.
Qed.

(* two lists sorted for the same strict total order with the same elements are equal *)
Lemma key3_lt_irrefl : forall x, ~ key3_lt x x.
Proof. intros [i a]; cbn; lia. Qed.
Lemma key3_lt_trans : forall x y z, key3_lt x y -> key3_lt y z -> key3_lt x z.
Proof. intros [i a] [j b] [k c]; cbn; lia. Qed.

Lemma strict_sorted_unique : forall (l1 l2 : list (Z * TriRef)),
  StronglySorted key3_lt l1 -> StronglySorted key3_lt l2 -> Permutation l1 l2 -> l1 = l2.
Proof.
  induction l1 as [|x l1 IH]; intros l2 S1 S2 P.
  - apply Permutation_nil in P. now subst.
  - destruct l2 as [|y l2]; [apply Permutation_sym, Permutation_nil in P; discriminate|].
    inversion S1 as [|? ? S1' F1]; inversion S2 as [|? ? S2' F2]; subst.
    rewrite Forall_forall in F1, F2.
    assert (x = y).
    { assert (Hx : In x (y :: l2)) by (eapply Permutation_in; [exact P|now left]).
      assert (Hy : In y (x :: l1)) by (eapply Permutation_in; [apply Permutation_sym; exact P|now left]).
      destruct Hx as [Hx|Hx]; [now subst|]. destruct Hy as [Hy|Hy]; [now subst|].
      exfalso. apply (key3_lt_irrefl x). eapply key3_lt_trans; [apply F1; exact Hy|apply F2; exact Hx]. }
    subst y. f_equal. apply IH; auto. eapply Permutation_cons_inv; exact P.
Qed.

Lemma StronglySorted_impl : forall A (R S : A -> A -> Prop) l,
  (forall x y, R x y -> S x y) -> StronglySorted R l -> StronglySorted S l.
Proof.
  intros A R S l H HS. induction HS; constructor; [assumption|].
  eapply Forall_impl; [|eassumption]. intros; now apply H.
Qed.

(* std::stable_sort's contract pins down exactly the list the model computes:
   any rearrangement l of the (index, ref) pairs that is sorted for the
   comparator (no later element is tri_less than an earlier one) and stable
   (elements the comparator cannot distinguish keep their index order) is
   sort_tris. *)
Definition stable_sorted (x y : Z * TriRef) : Prop :=
  tri_less (snd y) (snd x) = false /\ (tri_less (snd x) (snd y) = false -> fst x < fst y).

Lemma stable_sort_unique_l : forall refs (l : list (Z * TriRef)),
  Permutation (combine (iota 0 (length refs)) refs) l ->
  StronglySorted stable_sorted l ->
  l = sort_tris false refs.
Proof.
  intros refs l P S. apply strict_sorted_unique.
  - eapply StronglySorted_impl; [|exact S].
    intros [i a] [j b] [H1 H2]. cbn [fst snd] in *.
    destruct (tri_less a b) eqn:E.
    + apply tri_less_spec in E. cbn. lia.
    + specialize (H2 eq_refl).
      assert (N1 : ~ (originalID a < originalID b \/ (originalID a = originalID b /\ meshID a < meshID b)))
        by (rewrite <- tri_less_spec; congruence).
      assert (N2 : ~ (originalID b < originalID a \/ (originalID b = originalID a /\ meshID b < meshID a)))
        by (rewrite <- tri_less_spec; congruence).
      cbn. lia.
  - apply sort_tris_strict.
  - eapply Permutation_trans; [apply Permutation_sym; exact P|apply sort_tris_perm].
Qed.

(* and the model's list does satisfy that contract *)
Lemma sort_tris_stable : forall refs, StronglySorted stable_sorted (sort_tris false refs).
Proof.
  intros refs. eapply StronglySorted_impl; [|apply sort_tris_strict].
  intros [i a] [j b] H. unfold stable_sorted, key3_lt in *. cbn [fst snd] in *.
  split.
  - destruct (tri_less b a) eqn:E; [|reflexivity]. apply tri_less_spec in E. lia.
  - intros E.
    assert (N1 : ~ (originalID a < originalID b \/ (originalID a = originalID b /\ meshID a < meshID b)))
      by (rewrite <- tri_less_spec; congruence). lia.
Qed.

(* every pair of the sorted list is (old index, the ref at that index) *)
Lemma sort_tris_pairs : forall b refs i r, In (i, r) (sort_tris b refs) -> 0 <= i /\ nth_error refs (Z.to_nat i) = Some r.
Proof.
  intros b refs i r H.
  assert (H' : In (i, r) (combine (iota 0 (length refs)) refs)).
  { destruct b; [exact H|]. eapply Permutation_in; [apply Permutation_sym, sort_tris_perm|exact H]. }
  apply combine_iota_nth in H'. now rewrite Z.sub_0_r in H'.
Qed.

Lemma sort_tris_indices : forall b refs, Permutation (map fst (sort_tris b refs)) (iota 0 (length refs)).
Proof.
  intros b refs. rewrite <- (map_fst_combine_iota _ refs 0).
  destruct b; [reflexivity|]. apply Permutation_map, Permutation_sym, sort_tris_perm.
Qed.

Lemma sort_tris_refs : forall b refs, Permutation (map snd (sort_tris b refs)) refs.
Proof.
  intros b refs. rewrite <- (map_snd_combine_iota _ refs 0) at 2.
  destruct b; [reflexivity|]. apply Permutation_map, Permutation_sym, sort_tris_perm.
Qed.

Lemma sorted_refs_le : forall refs, StronglySorted ref_le (map snd (sort_tris false refs)).
Proof.
  intros refs. pose proof (sort_tris_strict refs) as S.
  induction S as [|x l S IH F]; cbn; constructor; [assumption|].
  rewrite Forall_forall in *. intros b Hb. apply in_map_iff in Hb. destruct Hb as [[j b'] [<- Hb]].
  specialize (F _ Hb). destruct x as [i a]. unfold ref_le; cbn in *. lia.
Qed.
