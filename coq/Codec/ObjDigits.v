(* C08 — why WriteOBJ's `std::scientific` with precision p >= 16 (p + 1 = 17
   significant digits) lets ReadOBJ recover every binary64 coordinate: the
   decimal grid is finer than the binary one.  Rational arithmetic, no floats.

   Setting: x a positive double in the binade [b, 2b) (b a power of two; only
   b > 0 is used).  Doubles in that binade are spaced b/2^52 apart and the
   doubles just below b are spaced b/2^53.  x lies in the decade [a, 10a)
   (a a power of ten; only 0 < a <= x is used); scientific notation with p
   fractional digits prints the multiple of a/10^p nearest to x, i.e. a
   decimal d with |d - x| <= a / (2 * 10^p).  A correctly rounded parser
   returns the double nearest to d. *)
From Coq Require Import ZArith QArith Lqa.
Local Open Scope Q_scope.

Definition precision_ok (p : Z) : bool := (2 ^ 53 <? 10 ^ p)%Z.

(* what the check evaluates on the constants read from the source *)
Definition obj_format_ok (p : Z) (scientific : bool) : bool := scientific && precision_ok p.

Lemma precision_ok_Q : forall p, precision_ok p = true -> inject_Z (2 ^ 53) < inject_Z (10 ^ p).
Proof.
  intros p H. unfold precision_ok in H. apply Z.ltb_lt in H.
  rewrite <- Zlt_Qlt. exact H.
Qed.

(* delta = a / (2 * 10^p) is the decimal half-spacing (given by 2 * 10^p * delta == a);
   the other doubles y are at least one binary spacing away from x *)
Lemma decimal_grid_finer : forall (P : Q) (b a x y d delta : Q),
  inject_Z (2 ^ 53) < P ->
  0 < b -> b <= x -> x < 2 * b ->
  0 < a -> a <= x ->
  2 * P * delta == a ->
  x - delta <= d -> d <= x + delta ->
  (x + b / inject_Z (2 ^ 52) <= y \/ y <= x - b / inject_Z (2 ^ 52) \/
   (x == b /\ y <= x - b / inject_Z (2 ^ 53))) ->
  (d - x < y - d /\ x - d < y - d) \/ (d - x < d - y /\ x - d < d - y).
Proof.
  intros P b a x y d delta HP Hb Hbx Hx2 Ha Hax Hdelta Hlo Hhi Hy.
  assert (H52 : inject_Z (2 ^ 52) == 4503599627370496) by reflexivity.
  assert (H53 : inject_Z (2 ^ 53) == 9007199254740992) by reflexivity.
  rewrite H53 in HP.
  assert (Hd0 : 0 < delta).
  { assert (0 < 2 * P * delta) by (rewrite Hdelta; exact Ha).
    assert (0 < P) by lra. nra. }
  (* delta < a / 2^54 : from 2*P*delta == a and P > 2^53 *)
  assert (Hd1 : 18014398509481984 * delta < a) by nra.
  set (u52 := b / inject_Z (2 ^ 52)) in *. set (u53 := b / inject_Z (2 ^ 53)) in *.
  assert (E52 : 4503599627370496 * u52 == b).
  { unfold u52. rewrite H52. field. }
  assert (E53 : 9007199254740992 * u53 == b).
  { unfold u53. rewrite H53. field. }
  destruct Hy as [Hy | [Hy | [Hxb Hy]]].
  - left. lra.
  - right. lra.
  - right. rewrite Hxb in *. lra.
Qed.

Lemma obj_digits_roundtrip : forall (p : Z) (b a x y d delta : Q),
  precision_ok p = true ->
  0 < b -> b <= x -> x < 2 * b ->
  0 < a -> a <= x ->
  2 * inject_Z (10 ^ p) * delta == a ->
  x - delta <= d -> d <= x + delta ->
  (x + b / inject_Z (2 ^ 52) <= y \/ y <= x - b / inject_Z (2 ^ 52) \/
   (x == b /\ y <= x - b / inject_Z (2 ^ 53))) ->
  (d - x < y - d /\ x - d < y - d) \/ (d - x < d - y /\ x - d < d - y).
Proof.
  intros p b a x y d delta Hp. apply decimal_grid_finer. apply precision_ok_Q. exact Hp.
Qed.

(* 16 fractional digits are enough, 15 are not *)
Lemma precision_16_ok : precision_ok 16 = true /\ precision_ok 15 = false.
Proof. split; vm_compute; reflexivity. Qed.

(* ... and 15 fractional digits really lose information: x = 10 and its successor
   y = 10 + 2^-49 lie within half a decimal step (a / (2 * 10^15), a = 10) of the same decimal *)
Lemma fifteen_digits_collide :
  let x := 10 # 1 in let y := x + (1 # 562949953421312) (* 2^-49 *) in let d := 10 # 1 in
  let delta := 1 # 200000000000000 (* 10 / (2 * 10^15) *) in
  x - delta <= d /\ d <= x + delta /\ y - delta <= d /\ d <= y + delta /\ ~ x == y.
Proof. cbv zeta. repeat split; lra. Qed.
