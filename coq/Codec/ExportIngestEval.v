(* evaluated by checks/C08.py on every run: does the rung table regenerated from
   src/impl.h accept every run table the exporter emits? *)
From MV Require Import Codec.IngestDefs Codec.ExportIngestDefs.
From MV Require Gen.Ladder.
Definition accepts_export_current : bool := Eval vm_compute in accepts_export_tables Gen.Ladder.table.
Print accepts_export_current.
From MV Require Import Codec.ObjDigits.
From MV Require Gen.ObjPrecision.
Definition obj_format_current : bool := Eval vm_compute in obj_format_ok Gen.ObjPrecision.obj_precision Gen.ObjPrecision.obj_scientific.
Print obj_format_current.
Definition import_honours_backside_current : bool := Eval vm_compute in Gen.Ladder.import_honours_backside_without_transform.
Print import_honours_backside_current.
