(* C08 — lemmas for the fuller round trip (Codec/RoundtripDefs.v). *)
From Coq Require Import ZArith List Bool Lia Permutation.
From MV Require Import Codec.MeshGLDefs Codec.MeshGLModel Codec.RoundtripDefs.
Import ListNotations.
Local Open Scope Z_scope.

(* ---------- the run sort on rich triangles is the run sort on their bases ---------- *)
Lemma map_base_rinsert : forall x l, map base (rinsert x l) = insert (base x) (map base l).
Proof.
  intros x l. induction l as [|y l IH]; [reflexivity|].
  cbn [rinsert map insert]. unfold rkey_le. destruct (key_le (base x) (base y)); [reflexivity|].
  cbn [map]. rewrite IH. reflexivity.
Qed.

Lemma map_base_rsort : forall l, map base (rsort l) = isort (map base l).
Proof.
  induction l as [|x l IH]; [reflexivity|]. cbn [rsort map isort]. rewrite map_base_rinsert, IH. reflexivity.
Qed.

Lemma rinsert_perm : forall x l, Permutation (rinsert x l) (x :: l).
Proof.
  intros x l. induction l as [|y l IH]; [apply Permutation_refl|].
  cbn [rinsert]. destruct (rkey_le x y); [apply Permutation_refl|].
  eapply perm_trans; [apply perm_skip; exact IH | apply perm_swap].
Qed.

Lemma rsort_perm : forall l, Permutation (rsort l) l.
Proof.
  induction l as [|x l IH]; [apply Permutation_refl|]. cbn [rsort].
  eapply perm_trans; [apply rinsert_perm | apply perm_skip; exact IH].
Qed.

Lemma rsort_sorted_id : forall l, sortedk (map base l) -> rsort l = l.
Proof.
  induction l as [|x l IH]; intros Hs; [reflexivity|].
  cbn [map sortedk] in Hs. destruct Hs as [Hx Hs]. cbn [rsort]. rewrite (IH Hs).
  destruct l as [|y l]; [reflexivity|]. cbn [rinsert map] in *. unfold rkey_le. rewrite Hx. reflexivity.
Qed.

(* ---------- the duplication loop: bins are a finite map (v,p) -> index ---------- *)
Lemma find_bin_none : forall v p b i, find_bin v p b = None -> ~ In (v, p, i) b.
Proof.
  intros v p b i. induction b as [|[[v' p'] i'] b IH]; intros H Hin; [destruct Hin|].
  cbn [find_bin] in H. destruct ((v' =? v) && (p' =? p)) eqn:E; [discriminate|].
  destruct Hin as [Heq | Hin]; [|exact (IH H Hin)].
  inversion Heq; subst. rewrite !Z.eqb_refl in E. discriminate.
Qed.

Lemma step_find_mono : forall st c v p i,
  find_bin v p (bins st) = Some i -> find_bin v p (bins (dup_step st c)) = Some i.
Proof.
  intros st [v' p'] v p i H. unfold dup_step. cbn [fst snd].
  destruct (find_bin v' p' (bins st)) eqn:Ef; [exact H|].
  assert (Hne : (v' =? v) && (p' =? p) = false).
  { destruct ((v' =? v) && (p' =? p)) eqn:E; [|reflexivity].
    apply andb_true_iff in E. destruct E as [E1 E2]. apply Z.eqb_eq in E1. apply Z.eqb_eq in E2. subst.
    rewrite H in Ef. discriminate. }
  destruct (assoc v' (v2i st)); cbn [bins find_bin]; rewrite Hne; exact H.
Qed.

Lemma step_find_self : forall st c, exists i, find_bin (fst c) (snd c) (bins (dup_step st c)) = Some i.
Proof.
  intros st [v p]. unfold dup_step. cbn [fst snd].
  destruct (find_bin v p (bins st)) as [i|] eqn:Ef; [exists i; exact Ef|].
  destruct (assoc v (v2i st)); cbn [bins find_bin]; rewrite !Z.eqb_refl; eexists; reflexivity.
Qed.

Lemma fold_find_mono : forall cs st v p i,
  find_bin v p (bins st) = Some i -> find_bin v p (bins (fold_left dup_step cs st)) = Some i.
Proof.
  induction cs as [|c cs IH]; intros st v p i H; [exact H|].
  cbn [fold_left]. apply IH. apply step_find_mono. exact H.
Qed.

Lemma fold_find_has : forall cs st c, In c cs ->
  exists i, find_bin (fst c) (snd c) (bins (fold_left dup_step cs st)) = Some i.
Proof.
  induction cs as [|c0 cs IH]; intros st c Hin; [destruct Hin|].
  cbn [fold_left]. destruct Hin as [<- | Hin].
  - destruct (step_find_self st c0) as [i Hi]. exists i. apply fold_find_mono. exact Hi.
  - apply IH. exact Hin.
Qed.

(* every processed corner has an output index that the merge map sends to rep(vertex) *)
Lemma lookup_merges_to_rep : forall cs v p, In (v, p) cs ->
  let st := dup cs in
  p2v (merges st) (lookup st v p) = rep st v /\ 0 <= rep st v.
Proof.
  intros cs v p Hin st. unfold st, dup.
  destruct (fold_find_has cs d0 (v, p) Hin) as [i Hi]. cbn [fst snd] in Hi.
  pose proof (fold_inv cs d0 d0_inv) as [Hn [Hb [Hv [Hm Hinj]]]].
  unfold lookup. rewrite Hi. apply find_bin_in in Hi.
  destruct (Hb _ _ _ Hi) as [Hi' [r [Hr Hp]]]. unfold rep. rewrite Hr.
  split; [exact Hp|]. destruct (Hv _ _ Hr). lia.
Qed.

Lemma rep_injective : forall cs v w p p', In (v, p) cs -> In (w, p') cs ->
  rep (dup cs) v = rep (dup cs) w -> v = w.
Proof.
  intros cs v w p p' Hv Hw E. unfold dup in *.
  destruct (fold_find_has cs d0 (v, p) Hv) as [i Hi]. destruct (fold_find_has cs d0 (w, p') Hw) as [j Hj].
  cbn [fst snd] in Hi, Hj. apply find_bin_in in Hi. apply find_bin_in in Hj.
  pose proof (fold_inv cs d0 d0_inv) as [Hn [Hb [Hvv [Hm Hinj]]]].
  destruct (Hb _ _ _ Hi) as [_ [r [Hr _]]]. destruct (Hb _ _ _ Hj) as [_ [r' [Hr' _]]].
  unfold rep in E. rewrite Hr, Hr' in E. subst r'. exact (Hinj _ _ _ Hr Hr').
Qed.

(* ---------- no triangle of a clean state is dropped as degenerate ---------- *)
Lemma corners_of_in : forall l t v p, In t l -> In (v, p) (combine (tverts (base t)) (tprops (base t))) ->
  In (v, p) (corners_of l).
Proof.
  intros l t v p Ht Hc. unfold corners_of. apply in_flat_map. exists t. split; assumption.
Qed.

Lemma kept_all : forall l t, In t l -> well_shaped t -> kept_tri (dup (corners_of l)) t = true.
Proof.
  intros l t Ht [Hv [Hp [_ [_ Hnd]]]].
  destruct (tverts (base t)) as [|a [|b [|c [|? ?]]]] eqn:Ev; try discriminate.
  destruct (tprops (base t)) as [|pa [|pb [|pc [|? ?]]]] eqn:Ep; try discriminate.
  unfold kept_tri, out_idx. rewrite Ev, Ep. cbn [combine map fst snd].
  assert (Hin : forall v p, In (v, p) [(a, pa); (b, pb); (c, pc)] -> In (v, p) (corners_of l)).
  { intros v p H. apply (corners_of_in l t v p Ht). rewrite Ev, Ep. exact H. }
  destruct (lookup_merges_to_rep _ a pa (Hin _ _ (or_introl eq_refl))) as [Ea _].
  destruct (lookup_merges_to_rep _ b pb (Hin _ _ (or_intror (or_introl eq_refl)))) as [Eb _].
  destruct (lookup_merges_to_rep _ c pc (Hin _ _ (or_intror (or_intror (or_introl eq_refl))))) as [Ec _].
  cbv zeta in Ea, Eb, Ec. rewrite Ea, Eb, Ec. cbn [nondeg].
  inversion Hnd as [|? ? Hna Hnd']; subst. inversion Hnd' as [|? ? Hnb Hnd'']; subst.
  assert (Nab : rep (dup (corners_of l)) a <> rep (dup (corners_of l)) b).
  { intro E. apply (rep_injective _ a b pa pb) in E; [|apply Hin; left; reflexivity | apply Hin; right; left; reflexivity].
    apply Hna. left. symmetry. exact E. }
  assert (Nbc : rep (dup (corners_of l)) b <> rep (dup (corners_of l)) c).
  { intro E. apply (rep_injective _ b c pb pc) in E; [|apply Hin; right; left; reflexivity | apply Hin; right; right; left; reflexivity].
    apply Hnb. left. symmetry. exact E. }
  assert (Nca : rep (dup (corners_of l)) c <> rep (dup (corners_of l)) a).
  { intro E. apply (rep_injective _ c a pc pa) in E; [|apply Hin; right; right; left; reflexivity | apply Hin; left; reflexivity].
    apply Hna. right. left. exact E. }
  apply Z.eqb_neq in Nab. apply Z.eqb_neq in Nbc. apply Z.eqb_neq in Nca. rewrite Nab, Nbc, Nca. reflexivity.
Qed.

Lemma filter_all : forall A (f : A -> bool) l, (forall x, In x l -> f x = true) -> filter f l = l.
Proof.
  intros A f l. induction l as [|x l IH]; intros H; [reflexivity|].
  cbn [filter]. rewrite (H x (or_introl eq_refl)). f_equal. apply IH. intros y Hy. apply H. right. exact Hy.
Qed.

Lemma import_tris_length : forall rl startID l last n k, length (import_tris rl startID last n k l) = length l.
Proof.
  intros rl startID l. induction l as [|t l IH]; intros last n k; [reflexivity|].
  cbn [import_tris length]. rewrite IH. reflexivity.
Qed.

Lemma in_combine_fst : forall A B (a : list A) (b : list B) x, In x (combine a b) -> In (fst x) a.
Proof. intros A B a b [x y] H. apply in_combine_l in H. exact H. Qed.

(* records of the imported triangles = records of the source triangles, position by position *)
Lemma imported_recs : forall sigma tau q st rl rl' (srt : list rtri) (ibs : list itri),
  length ibs = length srt ->
  map (attr_of rl') ibs = map (attr_of rl) (map base srt) ->
  map (rec_of rl') (map (fun tb => import_one sigma tau q st (fst tb) (snd tb)) (combine srt ibs))
  = map (rec_of rl) srt.
Proof.
  intros sigma tau q st rl rl' srt. induction srt as [|t srt IH]; intros ibs Hl Ha; [reflexivity|].
  destruct ibs as [|ib ibs]; [discriminate|].
  cbn [combine map fst snd] in *.
  pose proof (f_equal (hd (0, 0, 0, 0)) Ha) as Ha0. pose proof (f_equal (@tl _) Ha) as Hat.
  cbn [hd tl] in Ha0, Hat. clear Ha. f_equal.
  - unfold rec_of, import_one. cbn [base meshID ttan cposs cvals].
    unfold attr_of in Ha0. injection Ha0 as E1 E2 E3 E4.
    assert (Ef : face_out (mkTri (origID ib) (meshID ib) (faceID ib) (coplanarID ib)
                   (map (fun i => sigma (p2v (merges st) i)) (out_idx st t))
                   (map (fun i => tau (q i)) (out_idx st t)) (ttan (base t))) = face_out ib) by reflexivity.
    rewrite Ef, E1, E2, E3, E4. reflexivity.
  - apply IH; [cbn in Hl; lia | exact Hat].
Qed.

Definition rel_ok (s : rimpl) : Prop :=
  (forall t, In t (rtris s) -> rOrig (rrel s (meshID (base t))) = origID (base t)) /\
  (forall t, In t (rtris s) -> 0 <= coplanarID (base t)) /\
  (forall t, In t (rtris s) -> well_shaped t).

Lemma in_rsort : forall l t, In t (rsort l) <-> In t l.
Proof.
  intros l t. split; intros H.
  - apply (Permutation_in _ (rsort_perm l)). exact H.
  - apply (Permutation_in _ (Permutation_sym (rsort_perm l))). exact H.
Qed.

Lemma roundtrip_records_model : forall sigma tau q perm startID s,
  (forall l, Permutation (perm l) l) ->
  rel_ok s ->
  Permutation (export_recs (reimport_full sigma tau q perm startID s)) (export_recs s).
Proof.
  intros sigma tau q perm startID s Hperm [Hc [Hcp Hws]].
  unfold export_recs at 1. unfold reimport_full. cbn [rtris rrel].
  set (srt := rsort (rtris s)). set (st := dup (corners_of srt)).
  set (ibs := import_tris (rrel s) startID (-1) (-1) 0 (map base srt)).
  set (rl' := import_relation (rrel s) startID (run_pairs (-1) (-1) (map base srt))).
  assert (Hin : forall t, In t srt -> In t (rtris s)) by (intros t Ht; apply in_rsort; exact Ht).
  rewrite filter_all.
  2:{ intros [t ib] Htb. cbn [fst]. apply (kept_all srt t).
      - exact (in_combine_fst _ _ _ _ _ Htb).
      - apply Hws. apply Hin. exact (in_combine_fst _ _ _ _ _ Htb). }
  eapply perm_trans.
  { apply Permutation_map. eapply perm_trans; [apply rsort_perm | apply Hperm]. }
  rewrite (imported_recs sigma tau q st (rrel s) rl' srt ibs).
  - unfold export_recs. apply Permutation_refl.
  - unfold ibs. rewrite import_tris_length, map_length. reflexivity.
  - unfold ibs, rl'.
    replace (run_pairs (-1) (-1) (map base srt)) with ([] ++ run_pairs (-1) (-1) (map base srt) ++ [])
      by (cbn [app]; rewrite app_nil_r; reflexivity).
    apply (import_attrs (rrel s) startID [] (map base srt) [] (-1) (-1) 0).
    + intros a b [].
    + intros t Ht. apply in_map_iff in Ht. destruct Ht as [t' [<- Ht']]. apply Hcp. apply Hin. exact Ht'.
    + lia.
Qed.

(* the vertex renaming: every imported corner's vertex is sigma (rep v) of the source vertex v,
   a function of v alone, injective on the vertices in use when sigma is *)
Lemma imported_verts : forall sigma tau q (l : list rtri) t ib, In t l -> well_shaped t ->
  tverts (base (import_one sigma tau q (dup (corners_of l)) t ib))
  = map (fun v => sigma (rep (dup (corners_of l)) v)) (tverts (base t)).
Proof.
  intros sigma tau q l t ib Ht [Hv [Hp _]].
  unfold import_one. cbn [base tverts]. unfold out_idx.
  destruct (tverts (base t)) as [|a [|b [|c [|? ?]]]] eqn:Ev; try discriminate.
  destruct (tprops (base t)) as [|pa [|pb [|pc [|? ?]]]] eqn:Ep; try discriminate.
  cbn [combine map fst snd].
  assert (Hin : forall v p, In (v, p) [(a, pa); (b, pb); (c, pc)] -> In (v, p) (corners_of l)).
  { intros v p H. apply (corners_of_in l t v p Ht). rewrite Ev, Ep. exact H. }
  destruct (lookup_merges_to_rep _ a pa (Hin _ _ (or_introl eq_refl))) as [Ea _].
  destruct (lookup_merges_to_rep _ b pb (Hin _ _ (or_intror (or_introl eq_refl)))) as [Eb _].
  destruct (lookup_merges_to_rep _ c pc (Hin _ _ (or_intror (or_intror (or_introl eq_refl))))) as [Ec _].
  cbv zeta in Ea, Eb, Ec. rewrite Ea, Eb, Ec. reflexivity.
Qed.

(* ---------- the re-imported state is again a consistent denormalised state ---------- *)
Definition renum (sigma tau q : Z -> Z) (st : dstate) (c : Z * Z * Z * Z) : Z * Z * Z * Z :=
  match c with (v, p, x, a) => (sigma (p2v (merges st) (lookup st v p)), tau (q (lookup st v p)), x, a) end.

Lemma corner4_import : forall sigma tau q st t ib, well_shaped t ->
  corner4 (import_one sigma tau q st t ib) = map (renum sigma tau q st) (corner4 t).
Proof.
  intros sigma tau q st t ib [Hv [Hp [Hx [Ha _]]]].
  unfold corner4, import_one, out_idx. cbn [base tverts tprops cposs cvals].
  destruct (tverts (base t)) as [|a [|b [|c [|? ?]]]]; try discriminate.
  destruct (tprops (base t)) as [|pa [|pb [|pc [|? ?]]]]; try discriminate.
  destruct (cposs t) as [|xa [|xb [|xc [|? ?]]]]; try discriminate.
  destruct (cvals t) as [|va [|vb [|vc [|? ?]]]]; try discriminate.
  reflexivity.
Qed.

Lemma corner4_vp : forall t v p x a, well_shaped t -> In (v, p, x, a) (corner4 t) ->
  In (v, p) (combine (tverts (base t)) (tprops (base t))).
Proof.
  intros t v p x a [Hv [Hp [Hx [Ha _]]]] H. unfold corner4 in H.
  destruct (tverts (base t)) as [|a0 [|b [|c [|? ?]]]]; try discriminate.
  destruct (tprops (base t)) as [|pa [|pb [|pc [|? ?]]]]; try discriminate.
  destruct (cposs t) as [|xa [|xb [|xc [|? ?]]]]; try discriminate.
  destruct (cvals t) as [|va [|vb [|vc [|? ?]]]]; try discriminate.
  cbn in H |- *. destruct H as [H | [H | [H | []]]]; inversion H; subst; auto.
Qed.

(* DedupePropVerts only unites property vertices of ONE vertex whose rows are exactly equal *)
Definition dedupe_sound (q : Z -> Z) (st : dstate) (l : list rtri) : Prop :=
  forall v p x a v' p' x' a', In (v, p, x, a) (all_corners l) -> In (v', p', x', a') (all_corners l) ->
    q (lookup st v p) = q (lookup st v' p') -> a = a' /\ v = v'.

Definition inj_on (f : Z -> Z) (P : Z -> Prop) : Prop := forall a b, P a -> P b -> f a = f b -> a = b.

Lemma reimport_consistent : forall sigma tau q perm startID s,
  (forall l, Permutation (perm l) l) ->
  rel_ok s -> consistent (rtris s) ->
  let srt := rsort (rtris s) in let st := dup (corners_of srt) in
  dedupe_sound q st srt ->
  inj_on sigma (fun r => 0 <= r) -> inj_on tau (fun _ => True) ->
  consistent (rtris (reimport_full sigma tau q perm startID s)).
Proof.
  intros sigma tau q perm startID s Hperm [Hc [Hcp Hws]] Hcons srt st Hq Hsig Htau.
  unfold reimport_full. cbn [rtris]. fold srt. fold st.
  set (ibs := import_tris (rrel s) startID (-1) (-1) 0 (map base srt)).
  assert (Hin : forall t, In t srt -> In t (rtris s)) by (intros t Ht; apply in_rsort; exact Ht).
  rewrite filter_all.
  2:{ intros [t ib] Htb. cbn [fst]. apply (kept_all srt t).
      - exact (in_combine_fst _ _ _ _ _ Htb).
      - apply Hws. apply Hin. exact (in_combine_fst _ _ _ _ _ Htb). }
  (* every corner of the result is the renumbering of a source corner *)
  assert (Hsrc : forall c, In c (all_corners (perm (map (fun tb => import_one sigma tau q st (fst tb) (snd tb)) (combine srt ibs)))) ->
                 exists c0, In c0 (all_corners srt) /\ c = renum sigma tau q st c0).
  { intros c Hc0. unfold all_corners in Hc0. apply in_flat_map in Hc0. destruct Hc0 as [t' [Ht' Hc']].
    apply (Permutation_in _ (Hperm _)) in Ht'. apply in_map_iff in Ht'. destruct Ht' as [[t ib] [<- Htb]].
    cbn [fst snd] in Hc'. pose proof (in_combine_fst _ _ _ _ _ Htb) as Ht. cbn [fst] in Ht.
    rewrite corner4_import in Hc' by (apply Hws; apply Hin; exact Ht).
    apply in_map_iff in Hc'. destruct Hc' as [c0 [<- Hc0]]. exists c0. split; [|reflexivity].
    unfold all_corners. apply in_flat_map. exists t. split; assumption. }
  assert (Hsrcs : forall c0, In c0 (all_corners srt) -> In c0 (all_corners (rtris s))).
  { intros c0 H. unfold all_corners in *. apply in_flat_map in H. destruct H as [t [Ht Hc0]].
    apply in_flat_map. exists t. split; [apply Hin; exact Ht | exact Hc0]. }
  assert (Hrep : forall v p x a, In (v, p, x, a) (all_corners srt) ->
                 p2v (merges st) (lookup st v p) = rep st v /\ 0 <= rep st v /\ In (v, p) (corners_of srt)).
  { intros v p x a H. unfold all_corners in H. apply in_flat_map in H. destruct H as [t [Ht Hc0]].
    assert (Hvp : In (v, p) (corners_of srt)).
    { apply (corners_of_in srt t v p Ht). apply (corner4_vp t v p x a); [apply Hws; apply Hin; exact Ht | exact Hc0]. }
    destruct (lookup_merges_to_rep _ v p Hvp) as [E1 E2]. split; [exact E1 | split; [exact E2 | exact Hvp]]. }
  intros v p x a v' p' x' a' H1 H2.
  destruct (Hsrc _ H1) as [[[[v0 p0] x0] a0] [Hs1 E1]]. destruct (Hsrc _ H2) as [[[[v1 p1] x1] a1] [Hs2 E2]].
  cbn [renum] in E1, E2. inversion E1; subst. inversion E2; subst. clear E1 E2.
  destruct (Hrep _ _ _ _ Hs1) as [R1 [P1 C1]]. destruct (Hrep _ _ _ _ Hs2) as [R2 [P2 C2]].
  destruct (Hcons _ _ _ _ _ _ _ _ (Hsrcs _ Hs1) (Hsrcs _ Hs2)) as [Kv Kp].
  split.
  - intros E. rewrite R1, R2 in E. apply Hsig in E; [|exact P1 | exact P2].
    apply (rep_injective _ v0 v1 p0 p1 C1 C2) in E. apply Kv. exact E.
  - intros E. apply Htau in E; [|exact I | exact I].
    destruct (Hq _ _ _ _ _ _ _ _ Hs1 Hs2 E) as [Ea Ev]. split; [exact Ea|]. rewrite R1, R2, Ev. reflexivity.
Qed.

(* hypotheses are satisfiable: a two-run state with a property seam at vertex 1 *)
Definition w_rimpl : rimpl :=
  mkRI [ mkRT (mkTri 2 2 (-1) 0 [0; 1; 2] [0; 1; 2] [100; 101; 102]) [10; 11; 12] [20; 21; 22];
         mkRT (mkTri 1 1 (-1) 1 [2; 1; 3] [2; 4; 3] [200; 201; 202]) [12; 11; 13] [22; 24; 23] ]
       (fun m => mkRel m (10 * m) 0).

Lemma roundtrip_example :
  export_recs (reimport_full (fun v => v + 7) (fun p => p + 3) (fun i => i) (fun l => rev l) 50 w_rimpl)
  = export_recs w_rimpl.
Proof. vm_compute. reflexivity. Qed.

Lemma w_rimpl_ok : rel_ok w_rimpl /\ consistent (rtris w_rimpl).
Proof.
  split.
  - split; [|split]; intros t0 [<- | [<- | []]]; cbn; try reflexivity; try lia;
      (repeat split; try reflexivity); repeat constructor; cbn; intuition discriminate.
  - intros v p x a v' p' x' a' H1 H2. cbn in H1, H2.
    repeat (destruct H1 as [H1 | H1]; [inversion H1; subst; clear H1|]); try contradiction;
    repeat (destruct H2 as [H2 | H2]; [inversion H2; subst; clear H2|]); try contradiction;
    split; intros E; try discriminate E; try (split; reflexivity); try reflexivity.
Qed.
