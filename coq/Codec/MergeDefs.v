(* C08 — model of MeshGL::Merge (src/sort.cpp, MergeMeshGLP) on a mesh without merge
   vectors.  Model only.  Positions are abstract identifiers; the collider is an
   oracle (its list of reported pairs) constrained by C14's exactness statement;
   the union-find is C13's sequential model (Par/Containers.v). *)
From Coq Require Import ZArith List Bool Arith.
From MV Require Import Par.Containers.
Import ListNotations.

(* directed edges of the triangles, after the (empty) merge map *)
Definition tri_edges (t : nat * nat * nat) : list (nat * nat) :=
  match t with (a, b, c) => [(a, b); (b, c); (c, a)] end.
Definition dir_edges (tris : list (nat * nat * nat)) : list (nat * nat) := flat_map tri_edges tris.

Definition edge_eqb (e f : nat * nat) : bool := (fst e =? fst f) && (snd e =? snd f).
Definition count_edge (es : list (nat * nat)) (e : nat * nat) : nat :=
  length (filter (edge_eqb e) es).

(* Opposing directed edges cancel in pairs; what is left of a direction contributes its
   FIRST vertex once per surplus edge (OpenEdgeFirst of the majority direction) *)
Definition surplus (es : list (nat * nat)) (e : nat * nat) : nat :=
  count_edge es e - count_edge es (snd e, fst e).
Definition is_open (tris : list (nat * nat * nat)) (v : nat) : bool :=
  existsb (fun e => (fst e =? v) && (0 <? surplus (dir_edges tris) e)) (dir_edges tris).

(* pairs handed to DisjointSets::unite: the collider's self-collision report on the
   boxes of the open vertices (oracle) *)
Definition collider_exact (tris : list (nat * nat * nat)) (overlap : nat -> nat -> bool)
                          (reported : list (nat * nat)) : Prop :=
  forall a b, In (a, b) reported <->
    (is_open tris a = true /\ is_open tris b = true /\ a <> b /\ overlap a b = true).

(* tolerance boxes of two open vertices overlap exactly when they are at the same position
   (distinct positions of the mesh are further apart than the merge tolerance) *)
Definition separated (pos : nat -> Z) (overlap : nat -> nat -> bool) : Prop :=
  forall a b, overlap a b = true <-> pos a = pos b.

(* the emitted vectors: every vertex that is not its own root is merged into its root *)
Definition merged (st : uf_state) (a b : nat) : Prop := same st a b.
