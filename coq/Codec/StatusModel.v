(* C09 — error_absorbing: induction over programs. *)
From Coq Require Import ZArith List Bool String Lia.
From MV Require Import Codec.IngestDefs Codec.StatusDefs.
Import ListNotations.
Local Open Scope Z_scope.

(* induction principle for the nested type *)
Section ProgInd.
  Variable P : prog -> Prop.
  Hypothesis HI : forall o, P (Input o).
  Hypothesis HC : forall n args res, Forall P args -> P (Call n args res).
  Fixpoint prog_ind' (p : prog) : P p :=
    match p with
    | Input o => HI o
    | Call n args res =>
      HC n args res ((fix go (l : list prog) : Forall P l :=
                        match l with
                        | [] => Forall_nil P
                        | a :: r => Forall_cons a (prog_ind' a) (go r)
                        end) args)
    end.
End ProgInd.

Lemma propagate_err : forall e, error_eqb e NoError = false ->
  is_err (propagate e) = true /\ ontri (propagate e) = 0.
Proof. intros e H. unfold is_err, propagate; cbn. rewrite H. split; reflexivity. Qed.

Lemma first_error_some : forall l e, first_error l = Some e -> error_eqb e NoError = false.
Proof.
  induction l as [|o l IH]; intros e H; cbn in H; [discriminate|].
  destruct (is_err o) eqn:E.
  - inversion H; subst. unfold is_err in E. apply negb_true_iff in E. exact E.
  - apply IH. exact H.
Qed.

Lemma first_error_none : forall l, first_error l = None -> forall o, In o l -> is_err o = false.
Proof.
  induction l as [|a l IH]; intros H o Ho; [destruct Ho|].
  cbn in H. destruct (is_err a) eqn:E; [discriminate|].
  destruct Ho as [<- | Ho]; [exact E | apply IH; assumption].
Qed.

Lemma first_error_hd : forall v l e, first_error (v :: l) = Some e ->
  is_err v = true \/ (is_err v = false /\ first_error l = Some e).
Proof. intros v l e H. cbn in H. destruct (is_err v); [left; reflexivity | right; split; [reflexivity | exact H]]. Qed.

Lemma prog_ok_args : forall n args res, prog_ok (Call n args res) -> obj_ok res /\ Forall prog_ok args.
Proof.
  intros n args res [Hr Ha]. split; [exact Hr|].
  induction args as [|a r IH]; [constructor|]. destruct Ha as [H1 H2]. constructor; [exact H1 | apply IH; exact H2].
Qed.

(* the result of evaluating an ok program is an ok object *)
Lemma eval_ok : forall tbl p, prog_ok p -> obj_ok (eval tbl p).
Proof.
  intros tbl. induction p as [o | n args res IH] using prog_ind'; intros Hok.
  - exact Hok.
  - apply prog_ok_args in Hok. destruct Hok as [Hres Hargs].
    cbn [eval]. destruct (lookup n tbl) as [k|]; [|exact Hres].
    destruct (forwards k); [|exact Hres].
    destruct (first_error (map (eval tbl) args)) as [e|] eqn:Ef; [|exact Hres].
    assert (Hp : obj_ok (propagate e)) by (intros _; reflexivity).
    destruct k; try exact Hp.
    destruct args as [|a r]; [exact Hres|]. cbn [map].
    destruct (is_err (eval tbl a)) eqn:Ea; [|exact Hp].
    inversion IH; subst. inversion Hargs; subst. auto.
Qed.

Lemma forwarded_result : forall tbl k args res e,
  forwards k = true -> Forall (fun a => obj_ok (eval tbl a)) args ->
  first_error (map (eval tbl) args) = Some e ->
  let r := match k with
           | FwdSelf => match map (eval tbl) args with v :: _ => if is_err v then v else propagate e | [] => res end
           | _ => propagate e
           end in
  is_err r = true /\ ontri r = 0.
Proof.
  intros tbl k args res e Hk Hok Hfe.
  pose proof (first_error_some _ _ Hfe) as Hne.
  destruct k; try discriminate; try (apply propagate_err; exact Hne).
  destruct args as [|a r]; [cbn in Hfe; discriminate|]. cbn [map].
  destruct (is_err (eval tbl a)) eqn:Ea.
  - split; [exact Ea|]. inversion Hok; subst. auto.
  - apply propagate_err. exact Hne.
Qed.

Lemma absorbing : forall tbl p,
  uses_forwarding tbl p = true -> prog_ok p -> errored p = true ->
  is_err (eval tbl p) = true /\ ontri (eval tbl p) = 0.
Proof.
  intros tbl. induction p as [o | n args res IH] using prog_ind'; intros Hu Hok He.
  - cbn in *. split; [exact He | apply Hok; exact He].
  - pose proof (prog_ok_args _ _ _ Hok) as [Hres Hargs].
    cbn [uses_forwarding] in Hu. cbn [eval].
    destruct (lookup n tbl) as [k|]; [|discriminate].
    apply andb_true_iff in Hu. destruct Hu as [Hk Hall].
    rewrite forallb_forall in Hall.
    cbn [errored] in He.
    assert (Hvok : Forall (fun a => obj_ok (eval tbl a)) args).
    { rewrite Forall_forall in Hargs |- *. intros a Ha. apply eval_ok. apply Hargs. exact Ha. }
    destruct (forwards k) eqn:Hfw.
    + destruct (first_error (map (eval tbl) args)) as [e|] eqn:Hfe.
      * exact (forwarded_result tbl k args res e Hfw Hvok Hfe).
      * (* no operand value is an error, so no operand program is errored: the error is res *)
        assert (Hno : existsb errored args = false).
        { destruct (existsb errored args) eqn:Eex; [|reflexivity].
          apply existsb_exists in Eex. destruct Eex as [a [Hin Hea]].
          rewrite Forall_forall in IH, Hargs.
          destruct (IH a Hin (Hall a Hin) (Hargs a Hin) Hea) as [Hva _].
          pose proof (first_error_none _ Hfe (eval tbl a) (in_map _ _ _ Hin)) as Hn.
          rewrite Hn in Hva. discriminate. }
        rewrite Hno, orb_false_r in He. split; [exact He | apply Hres; exact He].
    + (* a non-forwarding kind is only allowed without operands *)
      cbn [orb] in Hk. destruct args as [|a r]; [|discriminate].
      cbn [existsb] in He. rewrite orb_false_r in He. split; [exact He | apply Hres; exact He].
Qed.

(* when the generated table has no FwdNone / FwdNoStatus entry, every program over
   methods of the table whose operand-taking calls ... is covered *)
Lemma table_forwards_uses : forall tbl n k,
  table_forwards_all tbl = true -> lookup n tbl = Some k -> forwards k = true \/ k = NoOperand.
Proof.
  induction tbl as [|[m k'] tbl IH]; intros n k Hall Hl; [discriminate|].
  cbn [table_forwards_all forallb] in Hall. apply andb_true_iff in Hall. destruct Hall as [H1 H2].
  cbn [lookup] in Hl. destruct (String.eqb n m).
  - inversion Hl; subst. cbn [snd] in H1. destruct k; try discriminate; auto.
  - apply (IH n k H2 Hl).
Qed.

Lemma example_absorbing :
  let tbl := [("Translate"%string, FwdNode); ("Boolean"%string, FwdNode); ("Refine"%string, FwdCheck)] in
  let bad := Input (mkObj RunIndexWrongLength 0) in
  let good := Input (mkObj NoError 12) in
  let p := Call "Refine" [Call "Boolean" [good; Call "Translate" [bad] (mkObj NoError 12)] (mkObj NoError 30)] (mkObj NoError 120) in
  uses_forwarding tbl p = true /\ errored p = true /\ eval tbl p = mkObj RunIndexWrongLength 0.
Proof. vm_compute. repeat split; reflexivity. Qed.
